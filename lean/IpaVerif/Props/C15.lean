import IpaVerif.Proofs.SeqJoinProgress
/-!
# C15 — sequential join returns results in input order within a bounded window

Model: `IpaVerif.Model.SeqJoin` (transcription of `seq_join/local.rs`, `seq_try_join_all`,
`SeqJoin::parallel_join`).  Theorems quantify over **every** number of tasks `n`, every capacity
`cap` of the active deque (`VecDeque::with_capacity(w)`, read back from the real object by the
suite), and every schedule `envs`: per `poll_next` call, how many items the source is willing to
yield before answering `Pending`, and which futures complete when polled (possibly depending on
which tasks have started).
-/
namespace IpaVerif.C15
open IpaVerif.SeqJoin

/-- **outputs_in_order_once.** Whatever the schedule, the items emitted so far are `0,1,…,k-1` in
this order (each task's result exactly once, in input order), `k ≤ n`, and `None` is answered only
after all `n` results were emitted. -/
theorem outputs_in_order_once (n cap : Nat) (envs : List Env) :
    let obs := (run (State.new n cap) envs).2
    items obs = List.range (items obs).length ∧ (items obs).length ≤ n ∧
    (∀ pre o post, obs = pre ++ o :: post → o.out = .finished → items pre = List.range n) := by
  intro obs
  obtain ⟨hI, _, hfin⟩ := run_spec envs (State.new n cap) [] (inv_new n cap)
  have hord := hI.order
  simp only [List.nil_append] at hord hfin
  have := prefix_of_range (show items obs ++ (ids (run (State.new n cap) envs).1.active ++ (run (State.new n cap) envs).1.src)
      = List.range n by rw [← List.append_assoc]; exact hord)
  exact ⟨this.1, this.2, hfin⟩

/-- **active_at_least_window.** In every reachable state, a call during which the source is willing
to yield (`budget ≥ cap`) and that answers `Pending` leaves the window full (`active.len() = cap ≥ w`)
unless the source is exhausted; and the window never exceeds the capacity. -/
theorem active_at_least_window (n cap : Nat) (hc : 0 < cap) (envs : List Env) (env : Env)
    (hb : cap ≤ env.budget) :
    let s := (run (State.new n cap) envs).1
    s.active.length ≤ cap ∧
    ((step s env).2.out = .pending → (step s env).1.active.length = cap ∨ (step s env).1.src = []) := by
  intro s
  obtain ⟨hI, hcap, _⟩ := run_spec envs (State.new n cap) [] (inv_new n cap)
  have hcap' : s.cap = cap := hcap
  obtain ⟨_, _, _, hpend, _, _⟩ := step_spec hI env (step s env).1 (step s env).2 rfl
  refine ⟨by have := hI.len; rw [hcap'] at this; exact this, fun hp => ?_⟩
  have := (hpend hp).2.2.2.2.1 (by rw [hcap']; exact hc) (by rw [hcap']; exact hb)
  rw [hcap'] at this; exact this

/-- the bound in terms of the invariant: any state satisfying `Inv`, any environment of the next call -/
theorem at_most_cap {n : Nat} {s : State} {em : List Nat} (hI : Inv n s em) (env : Env) :
    s.active.length ≤ s.cap ∧
    (refill (s.cap + 1) s 0 env.budget).1.active.length ≤ s.cap ∧
    (step s env).1.active.length ≤ s.cap ∧ (step s env).1.cap = s.cap ∧
    (n - s.src.length) - em.length ≤ s.cap ∧
    (n - (refill (s.cap + 1) s 0 env.budget).1.src.length) - em.length ≤ s.cap := by
  obtain ⟨hI1, hc1, _, _, _⟩ := refill_spec n (s.cap + 1) s 0 env.budget _ hI (by omega) _ rfl
  have hlen1 := hI1.len
  rw [hc1] at hlen1
  have hl := inv_lengths hI
  have hl1 := inv_lengths hI1
  obtain ⟨hI2, hc2, _⟩ := run_spec [env] s _ hI
  have hstep : (run s [env]).1 = (step s env).1 := by simp [run]
  rw [hstep] at hI2 hc2
  have hlen2 := hI2.len
  rw [hc2] at hlen2
  have hlen0 := hI.len
  generalize (refill (s.cap + 1) s 0 env.budget).1 = r at *
  generalize (step s env).1 = s2 at *
  refine ⟨hlen0, hlen1, hlen2, hc2, ?_, ?_⟩ <;> omega

/-- **active_at_most_window.** The window is BOUNDED by the requested `w` (`VecDeque::with_capacity(w)`; the
capacity never changes because nothing is pushed onto a full deque): for every number of tasks, every window,
every schedule — in every reachable state, at the PEAK inside the next call (after the refill loop, before the
head is handed out) and after that call, at most `w` tasks are in flight; and "in flight" is what an observer
counts: tasks drawn from the source so far minus results handed out so far never exceeds `w`, whatever the
source is willing to yield (`env.budget` arbitrary) and however often the join is re-polled with a blocked head. -/
theorem active_at_most_window (n w : Nat) (envs : List Env) (env : Env) :
    let s := (run (State.new n w) envs).1
    let obs := (run (State.new n w) envs).2
    s.cap = w ∧ s.active.length ≤ w ∧
    (refill (s.cap + 1) s 0 env.budget).1.active.length ≤ w ∧
    (step s env).1.active.length ≤ w ∧ (step s env).1.cap = w ∧
    (n - s.src.length) - (items obs).length ≤ w ∧
    (n - (refill (s.cap + 1) s 0 env.budget).1.src.length) - (items obs).length ≤ w := by
  intro s obs
  obtain ⟨hI, hcap, _⟩ := run_spec envs (State.new n w) [] (inv_new n w)
  simp only [List.nil_append] at hI
  have hcap' : s.cap = w := hcap
  obtain ⟨a, b, c, d, e, f⟩ := at_most_cap hI env
  have hw : s.cap ≤ w := Nat.le_of_eq hcap'
  exact ⟨hcap', Nat.le_trans a hw, Nat.le_trans b hw, Nat.le_trans c hw, d.trans hcap', Nat.le_trans e hw, Nat.le_trans f hw⟩

/-- NOT the code — the refill loop with the capacity check AFTER the push
(`while let Ready(Some(f)) = source.poll_next() { push; if len >= capacity { break } }`): entered with a full
deque it pushes once more, the deque reallocates and `capacity()` doubles (`VecDeque::grow`). -/
def refillAfterPush : Nat → State → Nat → Nat → State × Nat × Nat
  | 0, s, pulled, budget => (s, pulled, budget)
  | fuel + 1, s, pulled, budget =>
    if s.srcDone then (s, pulled, budget)
    else match s.src with
      | [] => ({ s with srcDone := true }, pulled, budget)
      | t :: rest =>
        if budget = 0 then (s, pulled, budget)
        else
          let cap' := if s.active.length = s.cap then 2 * s.cap else s.cap     -- push onto a full deque grows it
          let s' := { s with src := rest, active := s.active ++ [.pending t], cap := cap' }
          if s'.active.length ≥ s'.cap then (s', pulled + 1, budget - 1)
          else refillAfterPush fuel s' (pulled + 1) (budget - 1)

/-- **check_after_push_counterexample** (`decide`): window 1, two tasks, the head blocked, the source always
willing. First poll: one task drawn by either loop. SECOND poll (any wake-up of a full window): the code's loop
draws nothing; the check-after-push loop draws task 1 as well — 2 tasks in flight with a window of 1 — and
the capacity is now 2, so the overrun is invisible to any comparison against `capacity()`. With window 2 and
eight tasks three re-polls put all eight in flight. -/
theorem check_after_push_counterexample :
    let s1 := (refill 2 (State.new 2 1) 0 9).1
    let t1 := (refillAfterPush 9 (State.new 2 1) 0 9).1
    s1.active.length = 1 ∧ t1.active.length = 1 ∧
    (refill 2 s1 0 9).1.active.length = 1 ∧
    (refillAfterPush 9 t1 0 9).1.active.length = 2 ∧ (refillAfterPush 9 t1 0 9).1.cap = 2 ∧
    (refillAfterPush 9 (refillAfterPush 9 (refillAfterPush 9 (refillAfterPush 9 (State.new 8 2) 0 9).1 0 9).1 0 9).1 0 9).1.active.length = 8 := by
  decide

/-- **all_active_polled_on_pending.** When a call answers `Pending`, every future of the window that
had not completed yet was polled in that call (the head first, then the others in order), and every
task of the window has been polled at least once by then. -/
theorem all_active_polled_on_pending (n cap : Nat) (envs : List Env) (env : Env) :
    let s := (run (State.new n cap) envs).1
    (step s env).2.out = .pending →
      (step s env).2.polled = pendingIds (refill (s.cap + 1) s 0 env.budget).1.active ∧
      ∀ sl, sl ∈ (step s env).1.active → sl.id ∈ (step s env).1.started := by
  intro s hp
  obtain ⟨hI, _, _⟩ := run_spec envs (State.new n cap) [] (inv_new n cap)
  obtain ⟨_, _, _, hpend, _, _⟩ := step_spec hI env (step s env).1 (step s env).2 rfl
  exact ⟨(hpend hp).2.2.1, (hpend hp).2.1⟩

/-- **window_dependency_progress.** If the source is always ready and each task completes once the
tasks at most `d` positions after it have been polled (the pattern of `validated_seq_join`, where
record `k` waits for its whole batch to reach validation), then `d + 1 ≤ cap` suffices for the join
to finish: within `2n + 2` polls the stream answers `None`, having emitted all `n` results in order.
No head-of-line deadlock inside the window. -/
theorem window_dependency_progress (n cap d : Nat) (hc : 0 < cap) (hd : d + 1 ≤ cap) :
    let obs := (run (State.new n cap) (List.replicate (2 * n + 2) (depEnv n d (cap + 1)))).2
    (∃ o, o ∈ obs ∧ o.out = .finished) ∧ items obs = List.range n := by
  intro obs
  have hm : measureM (State.new n cap) < 2 * n + 2 := by
    unfold measureM
    have : (State.new n cap).active.length + (State.new n cap).src.length = n := by simp [State.new]
    split <;> omega
  have hprog : ∃ o, o ∈ (run (State.new n cap) (List.replicate (2 * n + 2) (depEnv n d (cap + 1)))).2 ∧ o.out = .finished :=
    dep_progress (2 * n + 2) (State.new n cap) [] (inv_new n cap) hc hd hm
  obtain ⟨h3, h4, h5⟩ := outputs_in_order_once n cap (List.replicate (2 * n + 2) (depEnv n d (cap + 1)))
  show (∃ o, o ∈ (run (State.new n cap) (List.replicate (2 * n + 2) (depEnv n d (cap + 1)))).2 ∧ o.out = .finished) ∧
    items (run (State.new n cap) (List.replicate (2 * n + 2) (depEnv n d (cap + 1)))).2 = List.range n
  generalize (run (State.new n cap) (List.replicate (2 * n + 2) (depEnv n d (cap + 1)))).2 = R at hprog h3 h4 h5
  obtain ⟨o, ho, hfin⟩ := hprog
  refine ⟨⟨o, ho, hfin⟩, ?_⟩
  -- `None` is answered only after everything was emitted; later polls emit nothing more
  obtain ⟨pre, post, hsplit⟩ := List.append_of_mem ho
  have h1 := h5 pre o post hsplit hfin
  have happ : ∀ (a b : List Obs), (items (a ++ b)).length = (items a).length + (items b).length := by
    intro a b; induction a with
    | nil => simp [items]
    | cons x xs ih => simp [items, ih]; omega
  have hlen : n ≤ (items R).length := by
    rw [hsplit, happ, h1]; simp
  have : (items R).length = n := by omega
  rw [h3, this]

example : (0 : Nat) < 4 ∧ 3 + 1 ≤ 4 := by decide

/-- **window_independent_of_size_hint.**  The join that `seq_try_join_all(active, iter)` /
`SeqJoin::try_join(iter)` builds has capacity `active` whatever lower bound the iterator's
`size_hint()` reports (`filter`, `flat_map`, `take_while`: 0; `chain(exact k, filtered)`: `k`), and
therefore `window_dependency_progress` applies to it: with dependencies reaching at most
`d ≤ active − 1` positions ahead, the `poll_next` calls made by the `TryCollect` future (which polls
the stream until it is `Pending`, always with a willing `iter` source) answer `None` within `2n + 2`
calls — hence within `2n + 2` polls of the `TryCollect` future — having emitted all `n` results in
input order.  (A window clamped to the size hint would be 1 for a filtered iterator and the join would
hang as soon as task 0 waits for task 1: the `c15.hint` cases of suite `c15_local`.) -/
theorem window_independent_of_size_hint (active n hint hint' d : Nat) :
    seqTryJoinAllNew active n hint = seqTryJoinAllNew active n hint' ∧
    (seqTryJoinAllNew active n hint).cap = active ∧
    (0 < active → d + 1 ≤ active →
      let obs := (run (seqTryJoinAllNew active n hint)
        (List.replicate (2 * n + 2) (depEnv n d (active + 1)))).2
      (∃ o, o ∈ obs ∧ o.out = .finished) ∧ items obs = List.range n) :=
  ⟨rfl, rfl, fun hc hd => window_dependency_progress n active d hc hd⟩

example : (seqTryJoinAllNew 4 9 0).cap = 4 ∧ (3 : Nat) + 1 ≤ 4 := by decide

/-- **try_stops_after_first_error.** `seq_try_join_all` driven by any sequence of polls: if it
returns `Err`, it is the error of the *first* failing task in input order (all earlier tasks
succeeded), whatever the completion order; if it returns `Ok`, it holds all `n` results in input
order and no task failed.  (The `TryCollect` future completes at that point: nothing is polled
afterwards.) -/
theorem try_stops_after_first_error (n cap : Nat) (isErr : Nat → Bool)
    (rs : List (List Nat → Nat → Bool)) :
    (∀ l, tryRun isErr (State.new n cap) [] rs = .ok l → l = List.range n ∧ ∀ j, j < n → isErr j = false) ∧
    (∀ i, tryRun isErr (State.new n cap) [] rs = .err i →
      isErr i = true ∧ i < n ∧ ∀ j, j < i → isErr j = false) :=
  tryRun_spec isErr rs (State.new n cap) [] (inv_new n cap) (fun _ h => by cases h)

/-- **parallel_join_spec.** Under the contract of `futures::future::try_join_all` transcribed in
`parPoll` (poll the unfinished futures in input order, stop at the first error met, otherwise return
all outputs in input order once all are done): `Ok` carries every task in input order and no task
polled in this call failed; `Err i` is the error of a task that was still pending, completed now and
failed. -/
theorem parallel_join_spec (isErr : Nat → Bool) (ready : Nat → Bool) (tasks : List (Nat × Bool)) :
    (∀ l, (parPoll isErr ready tasks).2.1 = .ok l →
      l = tasks.map (·.1) ∧ (∀ t, t ∈ tasks → t.2 = true ∨ ready t.1 = true) ∧
      ∀ t, t ∈ tasks → t.2 = false → ¬ (ready t.1 = true ∧ isErr t.1 = true)) ∧
    (∀ i, (parPoll isErr ready tasks).2.1 = .err i →
      isErr i = true ∧ ready i = true ∧ (i, false) ∈ tasks) :=
  parPoll_spec isErr ready tasks

end IpaVerif.C15
