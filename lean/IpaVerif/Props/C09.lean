import IpaVerif.Proofs.C09Serde
import IpaVerif.Generated.PrimeFields
import IpaVerif.Generated.C09Serde
/-!
# C09 — wire encodings round-trip and reject every non-canonical byte string

Part 1: the fixed-size `Serializable` encodings. `Ty` ranges over every type expression built from
the prime fields, `Boolean`, the bit-array / GF(2^k) instances regenerated from the macro
invocations, `AdditiveShare<·>` and `StdArray<·, N>` (any `N`); `codecOf t` is the executable model
the correspondence suites `c09_small` / `c09_large` compare with the real `serialize`/`deserialize`.
-/
namespace IpaVerif.C09
open IpaVerif.Util IpaVerif.Serde IpaVerif.Generated

/-- decoding the encoding of a canonical value returns that value -/
theorem decode_encode (t : Ty) (h : t.WF) (v : t.Val) (hv : (codecOf t).canon v) :
    (codecOf t).dec ((codecOf t).enc v) = .ok v :=
  (lawful_codecOf t h).decode_encode v hv

/-- the encoding has exactly the advertised length (and consists of bytes) -/
theorem encode_length (t : Ty) (h : t.WF) (v : t.Val) (hv : (codecOf t).canon v) :
    ((codecOf t).enc v).length = (codecOf t).size ∧ Bytes ((codecOf t).enc v) :=
  (lawful_codecOf t h).encode_length v hv

/-- a byte string is accepted only if it is the canonical encoding of a canonical value -/
theorem decode_canonical (t : Ty) (h : t.WF) (bs : List Nat) (v : t.Val) (hb : Bytes bs)
    (hd : (codecOf t).dec bs = .ok v) : (codecOf t).canon v ∧ (codecOf t).enc v = bs :=
  (lawful_codecOf t h).decode_canonical bs v hb hd

/-- decoding never panics on a buffer of the advertised length -/
theorem decode_total (t : Ty) (h : t.WF) (bs : List Nat) (hl : bs.length = (codecOf t).size) :
    (codecOf t).dec bs ≠ .panic :=
  (lawful_codecOf t h).decode_total bs hl

/-- Hence: a buffer of the right length that is not the encoding of a canonical value is *rejected*
(out-of-range integers, non-zero padding, Booleans > 1, and any composite containing one). -/
theorem decode_rejects (t : Ty) (h : t.WF) (bs : List Nat) (hb : Bytes bs)
    (hl : bs.length = (codecOf t).size)
    (hn : ¬ ∃ v, (codecOf t).canon v ∧ (codecOf t).enc v = bs) : (codecOf t).dec bs = .err := by
  cases hd : (codecOf t).dec bs with
  | ok v => exact absurd ⟨v, decode_canonical t h bs v hb hd⟩ hn
  | err => rfl
  | panic => exact absurd hd (decode_total t h bs hl)

instance : DecidablePred BitTy.WF := fun T => by unfold BitTy.WF; exact inferInstance

/-- Every instance found in the `boolean_array_impl*!` / `bit_array_impl!` invocations is well formed
(the `infallible` arm is used only where there are no padding bits). -/
theorem generated_bits_wf : ∀ T ∈ bitTypes, T.WF := by decide

/-- Each extracted prime fits its backing store. -/
theorem generated_prime_wf : ∀ P ∈ primeFields, Ty.WF (.prime P) := by
  intro P hP
  simp only [primeFields, List.mem_cons, List.mem_nil_iff, or_false] at hP
  rcases hP with rfl | rfl | rfl <;> simp [Ty.WF, fp31, fp32, fp61]

/-- Concrete rejections, stated on the generated constants: `PRIME` itself, a set padding bit, `2`. -/
theorem rejects_prime_fp32 : (codecOf (.prime fp32)).dec (leBytes fp32.p 4) = .err := by decide
theorem rejects_prime_fp61 : (codecOf (.prime fp61)).dec (leBytes fp61.p 8) = .err := by decide
theorem rejects_padding_bit (T : BitTy) (hT : T ∈ bitTypes) (hf : T.fallible = true) :
    (bitCodec T).dec (leBytes (2 ^ T.bits) T.bytes) = .err := by
  revert T; decide
theorem rejects_boolean_2 : boolCodec.dec [2] = .err := by decide

/-- Non-vacuity of the hypotheses: a share of arrays of a fallible type is well formed, and has
canonical values. -/
example : Ty.WF (.share (.arr 16 (.bits { name := "BA3", bits := 3, bytes := 1, fallible := true }))) := by
  simp [Ty.WF, BitTy.WF]
example : (codecOf (.share (.prime fp31))).canon (30, 0) := by
  simp [codecOf, pairCodec, primeCodec, fp31]

/-! ## Fp25519 (finding F9): the decoder reduces modulo the group order instead of rejecting -/

theorem fp25519_decode_encode (v : Nat) (hv : v < ell) : fp25519Codec.dec (fp25519Codec.enc v) = .ok v := by
  have h256 : v < 256 ^ 32 := Nat.lt_trans hv (by decide)
  simp only [fp25519Codec, leBytes_length, ofLeBytes_leBytes, Nat.mod_eq_of_lt h256, Nat.mod_eq_of_lt hv]
  simp

theorem fp25519_encode_length (v : Nat) : (fp25519Codec.enc v).length = 32 ∧ Bytes (fp25519Codec.enc v) :=
  ⟨leBytes_length _ _, leBytes_bytes _ _⟩

theorem fp25519_decode_total (bs : List Nat) (hl : bs.length = 32) : fp25519Codec.dec bs ≠ .panic := by
  simp [fp25519Codec, hl]

/-- FULL STATEMENT (false today, F9): `∀ bs v, Bytes bs → dec bs = ok v → v < ℓ ∧ enc v = bs`.
Proved only for byte strings whose integer value is already below the group order. -/
theorem fp25519_decode_canonical_partial (bs : List Nat) (v : Nat) (hb : Bytes bs)
    (hlt : ofLeBytes bs < ell) (hd : fp25519Codec.dec bs = .ok v) :
    v < ell ∧ fp25519Codec.enc v = bs := by
  simp only [fp25519Codec] at hd ⊢
  split at hd
  · cases hd
  · rename_i hl
    have hl : bs.length = 32 := by simpa using hl
    cases hd
    rw [Nat.mod_eq_of_lt hlt]
    exact ⟨hlt, by rw [← hl]; exact leBytes_ofLeBytes bs hb⟩

/-- The excluded point: the bytes of ℓ are accepted and decode to 0, whose encoding differs. -/
theorem fp25519_decode_canonical_counterexample :
    fp25519Codec.dec (leBytes ell 32) = .ok 0 ∧ fp25519Codec.enc 0 ≠ leBytes ell 32 := by decide

example : ofLeBytes (leBytes 5 32) < ell := by decide

/-! ## RP25519: canonicity is curve25519-dalek's `decompress` (hypothesis) -/

/-- What is assumed of dalek's Ristretto (de)compression. -/
structure DalekRistretto {Pt : Type} (compress : Pt → List Nat) (decompress : List Nat → Option Pt) : Prop where
  compress_len : ∀ p, (compress p).length = 32 ∧ Bytes (compress p)
  decompress_compress : ∀ p, decompress (compress p) = some p
  compress_decompress : ∀ bs p, decompress bs = some p → compress p = bs

theorem rp25519_lawful {Pt : Type} (compress : Pt → List Nat) (decompress : List Nat → Option Pt)
    (H : DalekRistretto compress decompress) : Lawful (rpCodec compress decompress) where
  encode_length p _ := H.compress_len p
  decode_encode p _ := by
    simp only [rpCodec, (H.compress_len p).1, H.decompress_compress p]
    simp
  decode_canonical bs p _ h := by
    simp only [rpCodec] at h ⊢
    split at h
    · cases h
    · cases hd : decompress bs with
      | some q =>
        simp only [hd] at h
        cases h
        exact ⟨trivial, H.compress_decompress bs _ hd⟩
      | none => simp [hd] at h
  decode_total bs hl := by
    have hl : bs.length = 32 := hl
    simp only [rpCodec, hl]
    cases decompress bs <;> simp

/-- Non-vacuity: a two-point toy group satisfies the hypothesis. -/
example : DalekRistretto (Pt := Bool) (fun b => leBytes (if b then 2 else 0) 32)
    (fun bs => if bs = leBytes 0 32 then some false else if bs = leBytes 2 32 then some true else none) where
  compress_len p := ⟨leBytes_length _ _, leBytes_bytes _ _⟩
  decompress_compress p := by cases p <;> decide
  compress_decompress bs p h := by
    by_cases h0 : bs = leBytes 0 32
    · simp [h0] at h; subst h; simp [h0]
    · by_cases h2 : bs = leBytes 2 32
      · have hne : ¬ leBytes 2 32 = leBytes 0 32 := by decide
        simp [h2, hne] at h; subst h; simp [h2]
      · simp [h0, h2] at h

end IpaVerif.C09
