import IpaVerif.Model.Padding
import IpaVerif.Props.C01
/-!
# C12 — dummy records are valid sharings that contribute nothing

About `IpaVerif.Padding` (the rows `apply_dp_padding` appends, as a function of the pair's PRSS stream):

* `place_shares_valid` — every field value of a dummy is a CONSISTENT replicated sharing that reconstructs (xor of
  the three left components) to the value; the excluded helper holds `(0, 0)`.
* `oprf_dummies_zero_payload`, `oprf_dummies_grouped`, `oprf_cardinalities`, `oprf_total_is_rows` — OPRF dummies have
  breakdown key 0 and value 0; for each cardinality `c = 1..cap` there are exactly `sample_c` groups, each one
  match key repeated exactly `c` times; the count sent to the excluded helper is the number of rows appended.
* `agg_dummies_zero_value`, `agg_covers_breakdowns`, `agg_total_is_rows` — aggregation dummies have value 0, the
  breakdown keys `0, 1, …, B − 1` in order (each `sample_bk` times), count = rows.
* `dummy_contributes_nothing` — the modelled OPRF dummies satisfy EXACTLY the hypotheses `hzero` of C01's
  `keySum_append_fresh` / `pipeline_eq_spec`, and the aggregation dummies the hypothesis `hd2` of `bucketSum_zero`;
  hence no key-wise total and no bucket changes.  The remaining hypothesis `hfresh` (a dummy's random 64-bit match
  key differs from every real match key; two dummy groups colliding is harmless for the totals because the payload
  is zero) is PROBABILISTIC — at most `#dummies · #reports / 2^64` — and stays an assumption.
-/
namespace IpaVerif.C12
open IpaVerif.Padding IpaVerif.Hybrid IpaVerif.Dp

/-! ### shares -/

/-- **place_shares_valid** — for every value and every excluded helper `e < 3`: consistency between neighbouring
helpers (`h.right = (h+1).left`), reconstruction, zero shares at the excluded helper. -/
theorem place_shares_valid (v e : Nat) (he : e < 3) :
    (placeShares v e 0).2 = (placeShares v e 1).1 ∧ (placeShares v e 1).2 = (placeShares v e 2).1 ∧
    (placeShares v e 2).2 = (placeShares v e 0).1 ∧
    ((placeShares v e 0).1 ^^^ (placeShares v e 1).1 ^^^ (placeShares v e 2).1) = v ∧
    placeShares v e e = (0, 0) := by
  have : e = 0 ∨ e = 1 ∨ e = 2 := by omega
  rcases this with rfl | rfl | rfl <;> simp [placeShares]

/-- the three passes of `apply_dp_padding` exclude H3, H2, H1 — every helper exactly once. -/
theorem passes_exclude_each_once : [excludedOfPass 1, excludedOfPass 2, excludedOfPass 3] = [2, 1, 0] := rfl

/-! ### OPRF padding -/

theorem keyGroups_spec (c : Nat) : ∀ (n : Nat) (s : List Nat) (gs : List (List Rec)) (r : List Nat),
    keyGroups c n s = some (gs, r) →
    gs.length = n ∧ ∀ g ∈ gs, ∃ k, k < 2 ^ 64 ∧ g = List.replicate c (dummyRec k) := by
  intro n
  induction n with
  | zero => intro s gs r h; simp [keyGroups] at h; obtain ⟨rfl, _⟩ := h; simp
  | succ n ih =>
    intro s gs r h
    simp only [keyGroups] at h
    cases hk : genKey s with
    | none => simp [hk] at h
    | some kr =>
      obtain ⟨k, rest⟩ := kr
      simp only [hk] at h
      cases hrec : keyGroups c n rest with
      | none => simp [hrec] at h
      | some gr =>
        obtain ⟨gs', r'⟩ := gr
        simp only [hrec, Option.map_some, Option.some.injEq, Prod.mk.injEq] at h
        obtain ⟨rfl, rfl⟩ := h
        obtain ⟨hl, hg⟩ := ih rest gs' r' hrec
        refine ⟨by simp [hl], ?_⟩
        intro g hgm
        rcases List.mem_cons.mp hgm with rfl | hgm
        · refine ⟨k, ?_, rfl⟩
          match s, hk with
          | a :: _ :: _, hk => simp [genKey] at hk; obtain ⟨rfl, _⟩ := hk; exact Nat.mod_lt _ (by decide)
        · exact hg g hgm

/-- invariant of `oprfLoop`: cardinalities `c, c+1, …`, group counts = samples, group shape. -/
theorem oprfLoop_spec (pInt shift : Nat) : ∀ (n c : Nat) (s : List Nat) (gs : List CardGroups) (r : List Nat),
    oprfLoop pInt shift c n s = some (gs, r) →
    gs.map (·.1) = List.range' c n ∧
    ∀ g ∈ gs, g.2.2.length = g.2.1 ∧ g.2.1 ≤ 2 * shift ∧
      ∀ grp ∈ g.2.2, ∃ k, k < 2 ^ 64 ∧ grp = List.replicate g.1 (dummyRec k) := by
  intro n
  induction n with
  | zero => intro c s gs r h; simp [oprfLoop] at h; obtain ⟨rfl, _⟩ := h; simp
  | succ n ih =>
    intro c s gs r h
    simp only [oprfLoop] at h
    cases hs : truncatedSample pInt shift (s.length + 1) s with
    | none => simp [hs] at h
    | some sr =>
      obtain ⟨sample, s1⟩ := sr
      simp only [hs] at h
      cases hk : keyGroups c sample s1 with
      | none => simp [hk] at h
      | some kr =>
        obtain ⟨g0, s2⟩ := kr
        simp only [hk] at h
        cases hrec : oprfLoop pInt shift (c + 1) n s2 with
        | none => simp [hrec] at h
        | some rr =>
          obtain ⟨rest, r'⟩ := rr
          simp only [hrec, Option.map_some, Option.some.injEq, Prod.mk.injEq] at h
          obtain ⟨rfl, rfl⟩ := h
          obtain ⟨hc, hg⟩ := ih (c + 1) s2 rest r' hrec
          obtain ⟨hl0, hg0⟩ := keyGroups_spec c sample s1 g0 s2 hk
          refine ⟨by simp [hc, List.range'_succ], ?_⟩
          intro g hgm
          rcases List.mem_cons.mp hgm with rfl | hgm
          · refine ⟨hl0, ?_, hg0⟩
            -- the accepted sample lies in 0..2n
            have : ∀ (fuel : Nat) (s : List Nat) (v : Nat) (r : List Nat),
                truncatedSample pInt shift fuel s = some (v, r) → v ≤ 2 * shift := by
              intro fuel
              induction fuel with
              | zero => intro s v r h; simp [truncatedSample] at h
              | succ fuel ihf =>
                intro s v r h
                simp only [truncatedSample] at h
                cases hd : doubleGeometric pInt shift s with
                | none => simp [hd] at h
                | some dr =>
                  obtain ⟨d, rest⟩ := dr
                  simp only [hd] at h
                  split at h
                  · rename_i hrange
                    simp only [Option.some.injEq, Prod.mk.injEq] at h
                    obtain ⟨rfl, _⟩ := h
                    omega
                  · exact ihf rest v r h
            exact this _ _ _ _ hs
          · exact hg g hgm

/-- **oprf_dummies_zero_payload** — every OPRF dummy has breakdown key 0 and value 0. -/
theorem oprf_dummies_zero_payload (pInt shift cap : Nat) (s : List Nat) (gs : List CardGroups) (r : List Nat)
    (h : oprfPass pInt shift cap s = some (gs, r)) :
    ∀ rec ∈ oprfRows gs, rec.bk = 0 ∧ rec.v = 0 := by
  obtain ⟨_, hg⟩ := oprfLoop_spec pInt shift cap 1 s gs r h
  intro rec hrec
  simp only [oprfRows, List.mem_flatten, List.mem_map] at hrec
  obtain ⟨l, ⟨g, hgm, rfl⟩, hl⟩ := hrec
  obtain ⟨grp, hgrp, hin⟩ := List.mem_flatten.mp hl
  obtain ⟨k, _, rfl⟩ := (hg g hgm).2.2 grp hgrp
  have := List.eq_of_mem_replicate hin
  subst this
  exact ⟨rfl, rfl⟩

/-- **oprf_cardinalities** — the cardinalities are exactly `1, 2, …, cap`, in this order. -/
theorem oprf_cardinalities (pInt shift cap : Nat) (s : List Nat) (gs : List CardGroups) (r : List Nat)
    (h : oprfPass pInt shift cap s = some (gs, r)) : gs.map (·.1) = List.range' 1 cap :=
  (oprfLoop_spec pInt shift cap 1 s gs r h).1

/-- **oprf_dummies_grouped** — at cardinality `c` there are exactly `sample_c ≤ 2n` groups (the sampler's draw), and
each group is ONE 64-bit match key repeated exactly `c` times. -/
theorem oprf_dummies_grouped (pInt shift cap : Nat) (s : List Nat) (gs : List CardGroups) (r : List Nat)
    (h : oprfPass pInt shift cap s = some (gs, r)) :
    ∀ g ∈ gs, g.2.2.length = g.2.1 ∧ g.2.1 ≤ 2 * shift ∧
      ∀ grp ∈ g.2.2, grp.length = g.1 ∧ ∃ k, k < 2 ^ 64 ∧ ∀ rec ∈ grp, rec = dummyRec k := by
  obtain ⟨_, hg⟩ := oprfLoop_spec pInt shift cap 1 s gs r h
  intro g hgm
  obtain ⟨h1, h2, h3⟩ := hg g hgm
  refine ⟨h1, h2, ?_⟩
  intro grp hgrp
  obtain ⟨k, hk, rfl⟩ := h3 grp hgrp
  exact ⟨by simp, k, hk, fun rec hrec => List.eq_of_mem_replicate hrec⟩

theorem sum_map_length_flatten {α : Type} (l : List (List α)) : l.flatten.length = (l.map List.length).sum := by
  induction l with
  | nil => rfl
  | cons a as ih => simp [ih]

/-- **oprf_total_is_rows** — the count both generating helpers send to the excluded helper equals the number of rows
they appended (so all three helpers extend their vectors by the same length). -/
theorem oprf_total_is_rows (pInt shift cap : Nat) (s : List Nat) (gs : List CardGroups) (r : List Nat)
    (h : oprfPass pInt shift cap s = some (gs, r)) : oprfTotal gs = (oprfRows gs).length := by
  obtain ⟨_, hg⟩ := oprfLoop_spec pInt shift cap 1 s gs r h
  unfold oprfTotal oprfRows
  rw [sum_map_length_flatten, List.map_map]
  congr 1
  apply List.map_congr_left
  intro g hgm
  obtain ⟨h1, _, h3⟩ := hg g hgm
  simp only [Function.comp]
  rw [sum_map_length_flatten, ← h1]
  have : g.2.2.map List.length = List.replicate g.2.2.length g.1 := by
    apply List.eq_replicate_iff.mpr
    refine ⟨by simp, ?_⟩
    intro x hx
    obtain ⟨grp, hgrp, rfl⟩ := List.mem_map.mp hx
    obtain ⟨k, _, rfl⟩ := h3 grp hgrp
    simp
  rw [this, List.sum_replicate]
  simp [Nat.mul_comm]

/-! ### aggregation padding -/

theorem aggLoop_spec (pInt shift : Nat) : ∀ (n bk : Nat) (s : List Nat) (l : List (Nat × Nat)) (r : List Nat),
    aggLoop pInt shift bk n s = some (l, r) → l.map (·.1) = List.range' bk n := by
  intro n
  induction n with
  | zero => intro bk s l r h; simp [aggLoop] at h; obtain ⟨rfl, _⟩ := h; simp
  | succ n ih =>
    intro bk s l r h
    simp only [aggLoop] at h
    cases hs : truncatedSample pInt shift (s.length + 1) s with
    | none => simp [hs] at h
    | some sr =>
      obtain ⟨sample, s1⟩ := sr
      simp only [hs] at h
      cases hrec : aggLoop pInt shift (bk + 1) n s1 with
      | none => simp [hrec] at h
      | some rr =>
        obtain ⟨rest, r'⟩ := rr
        simp only [hrec, Option.map_some, Option.some.injEq, Prod.mk.injEq] at h
        obtain ⟨rfl, rfl⟩ := h
        simp [ih (bk + 1) s1 rest r' hrec, List.range'_succ]

/-- **agg_covers_breakdowns** — one draw for every breakdown key `0, 1, …, B − 1`, in order. -/
theorem agg_covers_breakdowns (pInt shift b : Nat) (s : List Nat) (l : List (Nat × Nat)) (r : List Nat)
    (h : aggPass pInt shift b s = some (l, r)) : l.map (·.1) = List.range b := by
  rw [List.range_eq_range']; exact aggLoop_spec pInt shift b 0 s l r h

/-- **agg_dummies_zero_value** — every aggregation dummy has value 0 and a breakdown key below `2^BK::BITS`. -/
theorem agg_dummies_zero_value (bkBits : Nat) (l : List (Nat × Nat)) :
    ∀ row ∈ aggRows bkBits l, row.2 = 0 ∧ row.1 < 2 ^ bkBits := by
  intro row hrow
  simp only [aggRows, List.mem_flatten, List.mem_map] at hrow
  obtain ⟨x, ⟨e, _, rfl⟩, hx⟩ := hrow
  have := List.eq_of_mem_replicate hx
  subst this
  exact ⟨rfl, Nat.mod_lt _ (Nat.pow_pos (by decide))⟩

/-- **agg_total_is_rows** — count sent to the excluded helper = rows appended. -/
theorem agg_total_is_rows (bkBits : Nat) (l : List (Nat × Nat)) : aggTotal l = (aggRows bkBits l).length := by
  unfold aggTotal aggRows
  rw [sum_map_length_flatten, List.map_map]
  congr 1
  apply List.map_congr_left
  intro e _
  simp

/-! ### link to C01 -/

/-- **dummy_contributes_nothing** — the modelled padding rows satisfy exactly the hypotheses under which C01's
`pipeline_eq_spec` is proved: OPRF dummies `hzero` (proved here) + `hfresh` (probabilistic, assumed), aggregation
dummies `hd2` (proved here).  Consequently no key-wise total and no bucket sum changes. -/
theorem dummy_contributes_nothing (w : Widths) (pInt shift cap : Nat) (s : List Nat) (gs : List CardGroups)
    (r : List Nat) (h : oprfPass pInt shift cap s = some (gs, r)) (input : List Rec)
    (hfresh : ∀ d ∈ oprfRows gs, ∀ r' ∈ input, r'.key ≠ d.key)
    (bkBits : Nat) (l : List (Nat × Nat)) (b : Nat) :
    C01.keySum w (input ++ oprfRows gs) b = C01.keySum w input b ∧
    C01.bucketSum (aggRows bkBits l) b = 0 :=
  ⟨C01.keySum_append_fresh w input (oprfRows gs) b (oprf_dummies_zero_payload pInt shift cap s gs r h) hfresh,
   C01.bucketSum_zero (aggRows bkBits l) (fun row hrow => (agg_dummies_zero_value bkBits l row hrow).1) b⟩

/-- non-vacuity: a concrete stream on which the OPRF pass succeeds (p_int = 2^63: a draw below it is a success;
shift 1, cap 2: cardinality 1 draws sample 1 and one key, cardinality 2 draws sample 1 and one key). -/
example : (oprfPass (2 ^ 63) 1 2 [0, 0, 77, 5, 0, 0, 88, 6]).map (fun x => oprfRows x.1)
    = some [dummyRec 77, dummyRec 88, dummyRec 88] := by decide

end IpaVerif.C12
