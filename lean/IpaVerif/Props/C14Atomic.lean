import IpaVerif.Proofs.SenderAtomicInv
/-!
# C14 (atomic level) — `OrderingSender` never loses a wake-up under ANY interleaving of the
shared-memory accesses of concurrently running polls

Model: `Model/OrderingSenderAtomic.lean` (one action = one access to `next`, to a `WaitingShard`
under its mutex, or one state-mutex critical section; program order of the actions transcribed from
`next_op` / `Send::poll` / `Close::poll` / `take_next` and pinned by the translator items
`buffers.atomic.*`).  Assumption (by inspection, see the model's header and props/C14.json): the
Rust accesses (`load(Acquire)`, `fetch_add(AcqRel)`, `Mutex`) behave as atomic steps of a
sequentially consistent interleaving.
-/
namespace IpaVerif.C14Atomic
open IpaVerif.OrderingSender IpaVerif.OrderingSenderAtomic

/-- "A wake-up for task `t` is in flight": the `Send` with the preceding index has incremented
`next` and has not yet executed its `waiting.wake(i + 1)`. -/
def PendingWake (c : Cfg) (a : AState) (t : Task) : Prop :=
  ∃ u, c.isClose u = false ∧ a.pc u = .incd ∧ c.idx u + 1 = c.idx t

/-- **No lost wake-up, for every interleaving of atomic actions** (any number of tasks, any
scheduling, spurious polls, the reader's `wake(next)` racing with the senders).  In every reachable
state, for every task `t` parked for its index `i` (its `waiting.add` was accepted, its poll returned
`Pending`) that has not been woken since:
* its turn has not passed (`next ≤ i`);
* its waker is registered in shard `(i >> 6) % 8`, the shard is sorted (so `wake(i)` finds it);
* if its turn HAS come (`next = i`) the wake-up is still in flight (`PendingWake`).
Hence "parked ∧ `next = i` ∧ not woken ∧ no wake-up in flight" is unreachable. -/
theorem no_lost_wakeup_atomic {c : Cfg} (wf : WF c) {cap ws rs : Nat} {s0 : State}
    (h0 : State.new cap ws rs = .ok s0) {a : AState} (hr : Reach c s0 a) (t : Task)
    (hpark : a.pc t = .waitTurn) (hnot : a.woken t = false) :
    a.s.next ≤ c.idx t ∧
    ⟨c.idx t, t⟩ ∈ (a.s.shards (shardIdx (c.idx t))).wakers ∧
    (a.s.shards (shardIdx (c.idx t))).wakers.Pairwise (fun x y => x.i < y.i) ∧
    (a.s.next = c.idx t → PendingWake c a t) := by
  have h := Inv_reach wf h0 hr
  refine ⟨?_, h.parkedIn t hpark hnot, h.sorted _, ?_⟩
  · rcases Nat.lt_or_ge (c.idx t) a.s.next with hlt | hge
    · have := h.pastOf wf (h.wr t (by rw [hpark]; simp)) hlt
      rw [hpark] at this; rcases this with x | x <;> cases x
    · exact hge
  · intro heq
    exact h.parkedPending t hpark hnot (by omega)

/-- The bad state itself is unreachable. -/
theorem parked_at_turn_unreachable {c : Cfg} (wf : WF c) {cap ws rs : Nat} {s0 : State}
    (h0 : State.new cap ws rs = .ok s0) {a : AState} (hr : Reach c s0 a) (t : Task) :
    ¬ (a.pc t = .waitTurn ∧ a.woken t = false ∧ a.s.next = c.idx t ∧ ¬ PendingWake c a t) := by
  rintro ⟨h1, h2, h3, h4⟩
  exact h4 ((no_lost_wakeup_atomic wf h0 hr t h1 h2).2.2.2 h3)

/-- The wake-up in flight is delivered by its very next action: when the `Send` with index `i − 1`
executes `waiting.wake(i)`, a task parked (and not yet woken) for `i` is marked woken. -/
theorem pending_wake_delivers {c : Cfg} (wf : WF c) {cap ws rs : Nat} {s0 : State}
    (h0 : State.new cap ws rs = .ok s0) {a a' : AState} (hr : Reach c s0 a) (t u : Task) {e : Ev}
    (hpark : a.pc t = .waitTurn) (hu : c.idx u + 1 = c.idx t)
    (hstep : astep c a (.wake u) = some (a', e)) : a'.woken t = true := by
  have h := Inv_reach wf h0 hr
  obtain ⟨hp, _, _, _, hwk⟩ := doWake_frame hstep
  rw [hwk]
  cases hw : a.woken t with
  | true => exact mark_of_true hw
  | false =>
    have hin := h.parkedIn t hpark hw
    have sp := waitingWake_spec a.s (c.idx u + 1) h.shardsOk (h.past u (Or.inl hp))
    simp only [] at sp
    rw [← hu] at hin
    exact mark_of_mem (sp.2.2.2.2.2.2 t hin)

/-- **`woken_at` never decreases**, whatever action is taken in whatever state (no invariant
needed).  The proof goes through `shard_wake_matches_source`, i.e. through the `max` in the
definition *generated from the source* (`Generated.SenderAtomic.wokenAtAfterWake`). -/
theorem woken_at_monotone {c : Cfg} {a a' : AState} {act : Act} {e : Ev}
    (hstep : astep c a act = some (a', e)) (k : Nat) :
    (a.s.shards k).wokenAt ≤ (a'.s.shards k).wokenAt := by
  have hwake : ∀ j, (a.s.shards k).wokenAt ≤ ((a.s.waitingWake j).1.shards k).wokenAt := by
    intro j; rw [waitingWake_wokenAt]; split
    · exact Nat.le_max_left _ _
    · exact Nat.le_refl _
  cases act with
  | load t => obtain ⟨_, _, hs, _⟩ := doLoad_frame hstep; rw [hs]; exact Nat.le_refl _
  | panicTwice t => obtain ⟨_, hs, _⟩ := doPanicTwice_frame hstep; rw [hs]; exact Nat.le_refl _
  | cs t => obtain ⟨_, _, _, hs, _⟩ := doCs_frame hstep; rw [hs]; exact Nat.le_refl _
  | add t =>
    obtain ⟨cu, _, _, _, _, hcase⟩ := doAdd_frame hstep
    rcases hcase with ⟨sh, hadd, hs, _⟩ | ⟨_, hs, _⟩
    · rw [hs]; simp only []; split
      · rename_i hk; subst hk
        unfold Shard.add at hadd
        split at hadd
        · cases hadd
        · cases hadd; exact Nat.le_refl _
      · exact Nat.le_refl _
    · rw [hs]; exact Nat.le_refl _
  | inc t => obtain ⟨_, hs, _⟩ := doInc_frame hstep; rw [hs]; exact Nat.le_refl _
  | wake t => obtain ⟨_, hs, _⟩ := doWake_frame hstep; rw [hs]; exact hwake _
  | rTake => obtain ⟨_, _, hs, _⟩ := doRTake_frame hstep; rw [hs]; exact Nat.le_refl _
  | rLoad => obtain ⟨_, _, hs, _⟩ := doRLoad_frame hstep; rw [hs]; exact Nat.le_refl _
  | rWake => obtain ⟨_, _, _, hs, _⟩ := doRWake_frame hstep; rw [hs]; exact hwake _

/-- `woken_at ≤ next` in every shard of every reachable state (`waiting.wake(i + 1)` comes after
`next.fetch_add`; the reader wakes at a value it loaded). -/
theorem woken_at_le_next {c : Cfg} (wf : WF c) {cap ws rs : Nat} {s0 : State}
    (h0 : State.new cap ws rs = .ok s0) {a : AState} (hr : Reach c s0 a) (k : Nat) :
    (a.s.shards k).wokenAt ≤ a.s.next :=
  (Inv_reach wf h0 hr).wokenLe k

/-- The index order is kept by every interleaving: the critical section is entered only by the task
whose index equals `next`, so no task ever observes `curr > i` (no "twice" panic) and the
`debug_assert_eq!(i, curr)` after `fetch_add` cannot fail. -/
theorem turn_is_exclusive {c : Cfg} (wf : WF c) {cap ws rs : Nat} {s0 : State}
    (h0 : State.new cap ws rs = .ok s0) {a : AState} (hr : Reach c s0 a) (t : Task) :
    (a.pc t = .wrote → c.idx t = a.s.next) ∧ (∀ cu, a.pc t = .loaded cu → cu ≤ c.idx t) := by
  have h := Inv_reach wf h0 hr
  refine ⟨h.wrote t, ?_⟩
  intro cu hp
  have hle := h.ldLe t cu hp
  rcases Nat.lt_or_ge (c.idx t) a.s.next with hlt | hge
  · have := h.pastOf wf (h.wr t (by rw [hp]; simp)) hlt
    rw [hp] at this; rcases this with x | x <;> cases x
  · omega

/-! ## Refinement: a poll whose actions are contiguous is one step of the poll-level model -/

/-- The poll-level operation corresponding to task `t`. -/
def pollOp (c : Cfg) (t : Task) : Op :=
  if c.isClose t then .pollClose t (c.idx t) else .pollSend t (c.idx t) (c.msg t)

theorem load_ok {c : Cfg} {a : AState} {t : Task} (hw : c.writer t = true) (hp : (a.pc t).canLoad) :
    ∃ r, astep c a (.load t) = some r ∧ r.2.woken = [] ∧ r.1.s = a.s ∧
      r.1.pc t = .loaded a.s.next ∧ r.1.rpc = a.rpc := by
  cases hq : a.pc t <;> rw [hq] at hp <;> first | exact hp.elim | simp [astep, doLoad, hw, hq]

/-- Outcome of the contiguous run of the remaining actions of a poll, against the poll-level step. -/
def PollOutcome (c : Cfg) (a1 : AState) (t : Task) (acts : List Act) : Prop :=
  match OrderingSender.step a1.s (pollOp c t), runActs c a1 acts with
  | .ok (s', o), some (a', w) => w = o.woken ∧ a'.s = s' ∧ (o.res = .ready → a'.pc t = .done) ∧
      (o.res = .pending → a'.pc t = .waitTurn ∨ a'.pc t = .waitSpace)
  | .error e, some (a', _) => if e = "spin" then a'.pc t = .polling ∧ a'.s = a1.s else a'.pc t = .panicked
  | _, none => False

theorem after_load {c : Cfg} {a1 : AState} {t : Task} (hp : a1.pc t = .loaded a1.s.next)
    (hl : a1.rpc.holdsLock = false) :
    ∃ acts, (∀ x ∈ acts, x.task = some t) ∧ PollOutcome c a1 t acts := by
  unfold PollOutcome pollOp
  by_cases hc : c.isClose t = true
  · rw [if_pos hc]
    simp only [OrderingSender.step]
    by_cases h1 : a1.s.next > c.idx t
    · rw [if_pos h1]
      refine ⟨[.panicTwice t], by simp [Act.task], ?_⟩
      simp [runActs, astep, doPanicTwice, hp, h1]
    · rw [if_neg h1]
      by_cases h2 : a1.s.next = c.idx t
      · rw [if_pos h2]
        cases hcl : a1.s.buf.close with
        | error e =>
          have : e ≠ "spin" := by
            unfold CircularBuf.Buf.close at hcl; split at hcl
            · cases hcl; decide
            · cases hcl
          refine ⟨[.cs t], by simp [Act.task], ?_⟩
          simp [runActs, astep, doCs, hp, h2, hl, hc, csClose, hcl, this]
        | ok b' =>
          refine ⟨[.cs t, .inc t], by simp [Act.task], ?_⟩
          simp [runActs, astep, doCs, hp, h2, hl, hc, csClose, hcl, doInc]
      · rw [if_neg h2]
        have h3 : a1.s.next < c.idx t := by omega
        unfold State.waitingAdd
        cases hadd : (a1.s.shards (shardIdx (c.idx t))).add a1.s.next (c.idx t) t with
        | none =>
          refine ⟨[.add t], by simp [Act.task], ?_⟩
          simp [runActs, astep, doAdd, hp, h3, OrderingSenderAtomic.waitingAdd, shard_add_matches_source, hadd]
        | some sh =>
          refine ⟨[.add t], by simp [Act.task], ?_⟩
          simp [runActs, astep, doAdd, hp, h3, OrderingSenderAtomic.waitingAdd, shard_add_matches_source, hadd]
  · have hc' : c.isClose t = false := by simpa using hc
    rw [if_neg hc]
    simp only [OrderingSender.step]
    by_cases h1 : a1.s.next > c.idx t
    · rw [if_pos h1]
      refine ⟨[.panicTwice t], by simp [Act.task], ?_⟩
      simp [runActs, astep, doPanicTwice, hp, h1]
    · rw [if_neg h1]
      by_cases h2 : a1.s.next = c.idx t
      · rw [if_pos h2]
        by_cases h4 : a1.s.buf.closed = true
        · rw [if_pos h4]
          refine ⟨[.cs t], by simp [Act.task], ?_⟩
          simp [runActs, astep, doCs, hp, h2, hl, hc', csSend, h4]
        · rw [if_neg h4]
          by_cases h5 : (!a1.s.buf.canWrite) = true
          · rw [if_pos h5]
            refine ⟨[.cs t], by simp [Act.task], ?_⟩
            simp [runActs, astep, doCs, hp, h2, hl, hc', csSend, h4, h5]
          · rw [if_neg h5]
            cases hwm : a1.s.buf.writeMsg (c.msg t) with
            | error e =>
              have : e ≠ "spin" := by
                unfold CircularBuf.Buf.writeMsg at hwm
                dsimp only at hwm
                repeat' split at hwm
                all_goals first | (cases hwm; decide) | cases hwm
              refine ⟨[.cs t], by simp [Act.task], ?_⟩
              simp [runActs, astep, doCs, hp, h2, hl, hc', csSend, h4, h5, hwm, this]
            | ok b' =>
              simp only []
              refine ⟨[.cs t, .inc t, .wake t], by simp [Act.task], ?_⟩
              by_cases h6 : b'.canRead = true
              · simp [runActs, astep, doCs, hp, h2, hl, hc', csSend, h4, h5, hwm, h6, doInc, doWake, waitingWake_eq]
              · simp [runActs, astep, doCs, hp, h2, hl, hc', csSend, h4, h5, hwm, h6, doInc, doWake, waitingWake_eq]
      · rw [if_neg h2]
        have h3 : a1.s.next < c.idx t := by omega
        unfold State.waitingAdd
        cases hadd : (a1.s.shards (shardIdx (c.idx t))).add a1.s.next (c.idx t) t with
        | none =>
          refine ⟨[.add t], by simp [Act.task], ?_⟩
          simp [runActs, astep, doAdd, hp, h3, OrderingSenderAtomic.waitingAdd, shard_add_matches_source, hadd]
        | some sh =>
          refine ⟨[.add t], by simp [Act.task], ?_⟩
          simp [runActs, astep, doAdd, hp, h3, OrderingSenderAtomic.waitingAdd, shard_add_matches_source, hadd]

/-- **Runs in which the actions of a poll are contiguous behave as the poll-level model.**  From any
state in which task `t` is not inside a poll (and the reader is not inside its critical section),
the action sequence of one `Send::poll` / `Close::poll` — `load`, then `cs`,`inc`(,`wake`) or `add`
or the panic — executed without interleaving produces exactly the shared state `s'`, the result and
the list of woken tasks of `OrderingSender.step` (the model the suites `c14_sender` tie to the real
code at poll granularity).  The poll-level outcome `spin` (a rejected `add`) corresponds to the task
being back at the `load` with the shared state unchanged. -/
theorem refines_poll_level {c : Cfg} {a : AState} {t : Task} (hw : c.writer t = true)
    (hp : (a.pc t).canLoad) (hl : a.rpc.holdsLock = false) :
    ∃ acts, (∀ x ∈ acts, x.task = some t) ∧ acts.head? = some (.load t) ∧ PollOutcome c a t acts := by
  obtain ⟨r, hr, hwk, hs, hpc, hrp⟩ := load_ok hw hp
  obtain ⟨acts, hall, hout⟩ := after_load (c := c) (a1 := r.1) (t := t) (by rw [hpc, hs])
    (by rw [hrp]; exact hl)
  refine ⟨.load t :: acts, ?_, rfl, ?_⟩
  · intro x hx
    rcases List.mem_cons.mp hx with rfl | hx
    · rfl
    · exact hall x hx
  · unfold PollOutcome at hout ⊢
    rw [hs] at hout
    simp only [runActs, hr]
    cases hrun : runActs c r.1 acts with
    | none =>
      rw [hrun] at hout
      cases hst : OrderingSender.step a.s (pollOp c t) <;> rw [hst] at hout <;> exact hout.elim
    | some q =>
      rw [hrun] at hout
      obtain ⟨a', w⟩ := q
      simp only [hwk, List.nil_append]
      exact hout

@[simp] theorem holdsLock_idle : RPc.idle.holdsLock = false := rfl
@[simp] theorem holdsLock_finished : RPc.finished.holdsLock = false := rfl

/-- The same for the stream: `take_next` = `rTake` (+ `rLoad`, `rWake` when a chunk was taken). -/
theorem refines_poll_level_take {c : Cfg} {a : AState} (hl : a.rpc.holdsLock = false) :
    ∃ acts, (∀ x ∈ acts, x.task = none) ∧
      match OrderingSender.step a.s (.pollTake c.reader), runActs c a acts with
      | .ok (s', o), some (a', w) => w = o.woken ∧ a'.s = s' ∧ a'.rpc.holdsLock = false ∧
          (o.res = .finished ↔ a'.rpc = .finished)
      | _, _ => False := by
  simp only [OrderingSender.step]
  by_cases hcr : a.s.buf.canRead = true
  · rw [if_pos hcr]
    refine ⟨[.rTake, .rLoad, .rWake], by simp [Act.task], ?_⟩
    by_cases hcw : a.s.buf.canWrite = true <;>
      simp [runActs, astep, doRTake, hl, hcr, hcw, doRLoad, doRWake, waitingWake_eq]
  · rw [if_neg hcr]
    refine ⟨[.rTake], by simp [Act.task], ?_⟩
    by_cases hcl : a.s.buf.closed = true <;>
      simp [runActs, astep, doRTake, hl, hcr, hcl]

/-! ## Non-vacuity -/

/-- Three `Send`s with indices 0, 1, 2 (tasks 0, 1, 2), a `Close` at 3 (task 3), the stream is task 9. -/
def exCfg : Cfg :=
  { writer := fun t => decide (t < 4), isClose := fun t => t == 3, idx := fun t => t,
    msg := fun _ => [7], reader := 9 }

example : WF exCfg := by
  refine ⟨?_, ?_, ?_⟩
  · intro t u _ _ h; exact h
  · intro t u ht _ hc hne
    simp [exCfg] at ht hc ⊢
    subst hc
    exact Nat.lt_of_le_of_ne (Nat.le_of_lt_succ ht) hne
  · decide

/-- The schedule of the independent mutation tester (i = 0): T1 = send(0) stops between
`fetch_add` and `wake(1)`; T3 = send(2) stops after loading `next = 1`; T2 = send(1) runs a whole
poll (`wake(2)`); T1's late `wake(1)`; T3's `add(curr = 1, i = 2)` — in the model it is REJECTED
(`woken_at = max(2, 1) = 2 > 1`) and T3 is back at the `load`. -/
def exSchedule : List Act :=
  [.load 0, .cs 0, .inc 0, .load 1, .load 2, .cs 1, .inc 1, .wake 1, .wake 0, .add 2]

example : ∃ s0, State.new 8 1 1 = .ok s0 ∧
    (runActs exCfg (AState.init s0) exSchedule).map
      (fun r => (r.1.pc 2, r.1.s.next, (r.1.s.shards 0).wokenAt)) = some (.polling, 2, 2) :=
  ⟨_, rfl, by decide⟩

end IpaVerif.C14Atomic
