import IpaVerif.Model.Dzkp
import IpaVerif.Props.C08
import IpaVerif.Proofs.C03Indices
import IpaVerif.Proofs.C03Gate
import IpaVerif.Proofs.C03Store
/-!
# C03 — multiplication proofs accept honest batches and reject any altered one

Finite and arithmetic theorems (core Lean only). Everything is stated about the constants, tables and
the straight-line index function regenerated from the sources on every run (`IpaVerif.Generated.Dzkp`).
The polynomial/Lagrange theorems over an arbitrary field are in `IpaVerif.Props.C03Algebra`.
-/
namespace IpaVerif.C03
open IpaVerif.PrimeField IpaVerif.Generated IpaVerif.Generated.Dzkp IpaVerif.Dzkp

/-- `Σ_k u[k]·v[k]` with the field operations of `Fp61BitPrime`. -/
def rowDot (u v : List Nat) : Nat := (u.zip v).foldl (fun acc ab => fadd acc (fmul ab.1 ab.2)) 0

/-- `2·INVERSE_OF_TWO = 1`, `MINUS_ONE_HALF = −INVERSE_OF_TWO`, `MINUS_TWO = −2`, `−1/2 ≠ 1/2`, all canonical. -/
theorem dzkp_constants :
    fmul 2 inverseOfTwo = 1 ∧ minusOneHalf = neg fp61 inverseOfTwo ∧ minusTwo = neg fp61 2 ∧
    fadd minusOneHalf inverseOfTwo = 0 ∧ minusOneHalf ≠ inverseOfTwo ∧
    inverseOfTwo < fp61.p ∧ minusOneHalf < fp61.p ∧ minusTwo < fp61.p := by decide

/-- **table_identity**: for all 64 `(a,b,c,d,e,f)`: `Σ_k U[a,c,e][k]·V[b,d,f][k] = −1/2` if
`e = ab ⊕ cd ⊕ f` and `= +1/2` otherwise. -/
theorem table_identity : ∀ a b c d e f : Bool,
    rowDot (tableURow e c a) (tableVRow f d b) =
      if e = ((a && b) ^^ (c && d) ^^ f) then minusOneHalf else inverseOfTwo := by decide

/-- the 3-bit table index is `a + 2c + 4e` (resp. `b + 2d + 4f`): least significant bit = innermost loop. -/
theorem table_layout : ∀ a c e : Bool,
    tableU[ofBit a + 2 * ofBit c + 4 * ofBit e]? = some (tableURow e c a) ∧
    tableV[ofBit a + 2 * ofBit c + 4 * ofBit e]? = some (tableVRow e c a) := by decide

/-- zero padding of a block contributes a consistent gate: index (0,0) gives `−1/2`. -/
theorem zero_padding : rowDot (tableU.getD 0 []) (tableV.getD 0 []) = minusOneHalf := by decide

/-- **indices_correct**: for every block and every position `j < 256`, each of the three
`table_indices_*` functions emits `i0[j] + 2·i1[j] + 4·i2[j]` for its triple of intermediates
(`(a,c,e)` / `(b,d,f)` as generated from the source), and emits exactly 256 indices. -/
theorem indices_correct (B : Block) (j : Nat) (hj : j < 256) :
    (tableIndicesFromRightProver B)[j]? =
      some (bitN B.xr j + 2 * bitN B.yr j + 4 * bitN ((B.xr &&& B.yr) ^^^ B.pr ^^^ B.zr) j) ∧
    (tableIndicesFromLeftProver B)[j]? = some (bitN B.yl j + 2 * bitN B.xl j + 4 * bitN B.pl j) ∧
    (tableIndicesProver B)[j]? =
      some (bitN B.xl j + 2 * bitN B.yl j + 4 * bitN ((B.xl &&& B.yr) ^^^ (B.yl &&& B.xr) ^^^ B.pr) j,
            bitN B.yr j + 2 * bitN B.xr j + 4 * bitN B.pr j) ∧
    (tableIndicesProver B).length = 256 := by
  have h1 := intermediates_indices B.xr B.yr ((B.xr &&& B.yr) ^^^ B.pr ^^^ B.zr) j hj
  have h2 := intermediates_indices B.yl B.xl B.pl j hj
  have h3 := intermediates_indices B.xl B.yl ((B.xl &&& B.yr) ^^^ (B.yl &&& B.xr) ^^^ B.pr) j hj
  have h4 := intermediates_indices B.yr B.xr B.pr j hj
  refine ⟨h1.1, h2.1, ?_, ?_⟩
  · simp only [tableIndicesProver, triple, proverTriples, List.getElem?_zip_eq_some]
    exact ⟨h3.1, h4.1⟩
  · simp [tableIndicesProver, triple, proverTriples, h3.2, h4.2]

/-- the `e` bit computed by the prover is `ab ⊕ cd ⊕ f` position-wise, the `e′` of the left verifier is
`ac ⊕ prss ⊕ z` position-wise. -/
theorem e_bits (B : Block) (j : Nat) :
    ((B.xl &&& B.yr) ^^^ (B.yl &&& B.xr) ^^^ B.pr).testBit j =
      ((B.xl.testBit j && B.yr.testBit j) ^^ (B.yl.testBit j && B.xr.testBit j) ^^ B.pr.testBit j) ∧
    ((B.xr &&& B.yr) ^^^ B.pr ^^^ B.zr).testBit j =
      ((B.xr.testBit j && B.yr.testBit j) ^^ B.pr.testBit j ^^ B.zr.testBit j) := by
  simp [Nat.testBit_xor, Nat.testBit_and]

/-- **gate_views** (single gate: every gate state, 3 helpers, 8 single-bit deviations):

* honest execution: each prover's `(u, v)` table indices equal what its left verifier (u) and right
  verifier (v) recompute from their own records, the verifiers' triple satisfies `e′ = ab ⊕ cd ⊕ f`, and
  no helper rejects;
* if helper `j` flips any one of its seven recorded bits, or the `z` it transmits, then the set of
  helpers whose check fails is exactly `predictedRejecters j f` — never empty; it contains the helper to the
  left of `j` for `x/y/prss_right` records and for the transmitted `z`; it is `{j+1}` for `prss_left` and
  `{j}` itself for its received `z_right`. -/
theorem gate_views (g : Gate) :
    (∀ i, proverMatches (views g none) i = true ∧ verifierTripleConsistent (views g none) i = true ∧
        rejects (views g none) i = false) ∧
    (∀ j f h, rejects (views g (some (j, f))) h = true ↔ h ∈ predictedRejecters j f) ∧
    (∀ j f, predictedRejecters j f ≠ []) ∧
    (∀ j f, f ∉ [Flip.pl, Flip.zr] → j.prev ∈ predictedRejecters j f) := by
  refine ⟨fun i => honest_sym g i, ?_, ?_, ?_⟩
  · intro j f h
    rw [flip_sym, hid_mem_iff]
  · intro j f; cases f <;> simp [predictedRejecters]
  · intro j f hf; cases f <;> simp [predictedRejecters] at hf ⊢


/-- **segment_packing**: for each of the seven stored intermediates, every previous store content, every
record id and every global bit position `n`:

* a segment of width `1 ≤ w < 256` is written at stride `L = next_power_of_two(w)`: afterwards bit `n` is the
  segment's bit `n − L·id` if `L·id ≤ n < L·id + w` and is unchanged otherwise; the segment never crosses a
  256-bit block boundary;
* a segment of width `w = 256·m` occupies exactly bits `[w·id, w·id + w)` (whole blocks), everything else is
  unchanged (bits of freshly allocated blocks are zero);
* ranges of different record ids are disjoint (stride ≥ width), so pushes in any order never overwrite one
  another. Out-of-range record ids panic in the model (`Store.insert`) as in the code (compared by `c03_store`). -/
theorem segment_packing :
    (∀ p ∈ fieldPairs, ∀ (vec : List Block) (id : Nat) (s : IpaVerif.DzkpStore.Segment) (n : Nat),
      s.width < 256 → 1 ≤ s.width →
      IpaVerif.DzkpStore.storeBit (IpaVerif.DzkpStore.insertSmall vec id s) p.1 n =
        if IpaVerif.DzkpStore.nextPow2 s.width * id ≤ n ∧ n < IpaVerif.DzkpStore.nextPow2 s.width * id + s.width
        then (p.2 s).testBit (n - IpaVerif.DzkpStore.nextPow2 s.width * id)
        else IpaVerif.DzkpStore.storeBit vec p.1 n) ∧
    (∀ w id : Nat, w < 256 → 1 ≤ w → (IpaVerif.DzkpStore.nextPow2 w * id) % 256 + w ≤ 256 ∧ w ≤ IpaVerif.DzkpStore.nextPow2 w) ∧
    (∀ p ∈ fieldPairs, ∀ (vec : List Block) (id m : Nat) (s : IpaVerif.DzkpStore.Segment) (n : Nat),
      s.width = 256 * m →
      IpaVerif.DzkpStore.storeBit (IpaVerif.DzkpStore.insertLarge vec id s) p.1 n =
        if s.width * id ≤ n ∧ n < s.width * id + s.width then (p.2 s).testBit (n - s.width * id)
        else IpaVerif.DzkpStore.storeBit vec p.1 n) ∧
    (∀ L w i j n : Nat, w ≤ L → i ≠ j → (L * i ≤ n ∧ n < L * i + w) → ¬ (L * j ≤ n ∧ n < L * j + w)) := by
  refine ⟨?_, ?_, ?_, ?_⟩
  · intro p hp vec id s n hw h1
    exact insertSmall_bits p.1 p.2 (fieldPairs_ok p hp).1 vec id s hw h1 n
  · intro w id hw h1
    exact ⟨no_crossing w id hw h1, (nextPow2_small w hw h1).1⟩
  · intro p hp vec id m s n hw
    exact insertLarge_bits p.1 p.2 (fieldPairs_ok p hp).1 (fieldPairs_ok p hp).2 vec id m s hw n
  · intro L w i j n hL hij hi
    exact ranges_disjoint L w i j n hL hij hi

/-- a consistent gate contributes `−1/2`, an inconsistent one `+1/2` (`table_identity`). -/
def gateTerm (c : Bool) : Nat := if c then minusOneHalf else inverseOfTwo
def sumTerms (flags : List Bool) : Nat := flags.foldl (fun acc c => fadd acc (gateTerm c)) 0
/-- `sum_of_uv = truncate_from(m) * MINUS_ONE_HALF` of `Batch::validate`. -/
def expectedSum (m : Nat) : Nat := fmul (truncateFrom fp61 m) minusOneHalf

theorem sum_aux (flags : List Bool) : ∀ acc, acc < fp61.p →
    flags.foldl (fun acc c => fadd acc (gateTerm c)) acc
      = (acc + 1152921504606846975 * flags.length + flags.count false) % 2305843009213693951 := by
  induction flags with
  | nil => intro acc h; simp [fp61] at *; omega
  | cons c r ih =>
    intro acc h
    have hs : fadd acc (gateTerm c) = (acc + gateTerm c) % 2305843009213693951 := by
      have hc : gateTerm c < 2 ^ 64 := by cases c <;> decide
      exact IpaVerif.C08.add_spec_fp61 acc (gateTerm c) (by simp [fp61] at h; omega) hc
    have hlt : fadd acc (gateTerm c) < fp61.p := by rw [hs]; simp [fp61]; omega
    simp only [List.foldl_cons, List.length_cons]
    rw [ih _ hlt, hs]
    cases c <;> simp [gateTerm, minusOneHalf, inverseOfTwo] <;> omega

/-- **sum_iff_all_consistent**: for every number `m < p` of (padded) multiplications, with any pattern of
consistent / inconsistent gates, the total `Σ_j ⟨u_j, v_j⟩` equals the verifier's expected
`m · (−1/2)` iff every gate is consistent. -/
theorem sum_iff_all_consistent (flags : List Bool) (h : flags.length < fp61.p) :
    sumTerms flags = expectedSum flags.length ↔ flags.all id = true := by
  have h1 := sum_aux flags 0 (by decide)
  have hp : flags.length < 2305843009213693951 := by simpa [fp61] using h
  have h2 : expectedSum flags.length = (flags.length * 1152921504606846975) % 2305843009213693951 := by
    unfold expectedSum truncateFrom
    rw [IpaVerif.C08.reduce_eq_mod_fp61 _ (by omega)]
    have : flags.length % fp61.p = flags.length := Nat.mod_eq_of_lt h
    rw [this]
    exact IpaVerif.C08.mul_spec_fp61 _ _ (by omega) (by decide)
  have hc : flags.count false ≤ flags.length := List.count_le_length
  have h3 : flags.all id = true ↔ flags.count false = 0 := by
    rw [List.count_eq_zero]; simp
  unfold sumTerms
  rw [h1, h2, h3]
  omega

/-- non-vacuity: a batch with one inconsistent gate among three. -/
example : sumTerms [true, false, true] ≠ expectedSum 3 ∧ sumTerms [true, true, true] = expectedSum 3 := by decide

theorem iters_bound : ∀ fuel k n, n ≤ 3 * 4 ^ k → k + 1 ≤ fuel →
    ∃ r, recursionIters 4 fuel n = some r ∧ 1 ≤ r ∧ r ≤ k + 1 := by
  intro fuel
  induction fuel with
  | zero => intro k n _ h; omega
  | succ f ih =>
    intro k n hn hf
    unfold recursionIters
    by_cases h4 : n < 4
    · exact ⟨1, by simp [h4], by omega, by omega⟩
    · cases k with
      | zero => simp at hn; omega
      | succ k' =>
        have hp : (4 : Nat) ^ (k' + 1) = 4 * 4 ^ k' := by rw [Nat.pow_succ]; omega
        have hn' : (n + 4 - 1) / 4 ≤ 3 * 4 ^ k' := by rw [hp] at hn; omega
        obtain ⟨r, hr, h1, h2⟩ := ih k' _ hn' (by omega)
        have e : n + 4 - 1 = n + 3 := by omega
        rw [e] at hr
        exact ⟨r + 1, by simp [h4, hr], by omega, by omega⟩

/-- **recursion_bound**: whenever `uv_values.len() ≤ max_uv_values` (the code's assertion), the loop
`while !did_set_masks` terminates after `r` iterations with `1 ≤ r ≤ MAX_PROOF_RECURSION − 1`; hence the
number of challenges `r + 1` satisfies the verifier's `MIN_PROOF_RECURSION ≤ · ≤ MAX_PROOF_RECURSION`
assertion, and at most `PRSS_RECORDS_PER_BATCH` PRSS indices are drawn (first proof, two masks, `r` proofs). -/
theorem recursion_bound (n : Nat) (h : n ≤ maxUvValues) :
    ∃ r, recursionIters compressedL maxProofRecursion n = some r ∧ 1 ≤ r ∧ r ≤ maxProofRecursion - 1 ∧
      minProofRecursion ≤ r + 1 ∧ r + 1 ≤ maxProofRecursion ∧
      firstP + 2 + r * compressedP ≤ prssRecordsPerBatch := by
  have hm : maxUvValues = 3 * 4 ^ 12 := by decide
  obtain ⟨r, hr, h1, h2⟩ := iters_bound 14 12 n (by omega) (by omega)
  refine ⟨r, by simpa [compressedL, maxProofRecursion] using hr, h1, ?_⟩
  simp [maxProofRecursion, minProofRecursion, firstP, compressedP, prssRecordsPerBatch]
  omega

/-- the corner cases: a single 256-gate block (`256 = 4^4`, the two-extra-iterations corner) and the
largest admissible batch. -/
example : recursionIters compressedL maxProofRecursion 256 = some 5 ∧
    recursionIters compressedL maxProofRecursion maxUvValues = some 13 ∧
    recursionIters compressedL maxProofRecursion (maxUvValues + 1) = some 14 := by decide

theorem prev_pow2_le (t : Nat) (h : 1 ≤ t) : nonZeroPrevPowerOfTwo t ≤ t := by
  unfold nonZeroPrevPowerOfTwo bitLen
  have h0 : t ≠ 0 := by omega
  simp [h0]
  exact Nat.log2_self_le h0

/-- **batch_sizes_fit** (partial: the *nominal* number of multiplications per record that each formula
divides by; the exact gate counts of the circuits are not modelled).
For both extracted `TARGET_PROOF_SIZE`s: the target itself is within `max_uv_values`; and for each of the
three chunk formulas, chunk × nominal multiplications per record ≤ `TARGET_PROOF_SIZE` whenever the
`max(2, ·)` floor does not bind. Full statement: for every protocol using a DZKP validator, the number of
256-bit-padded multiplications pushed per batch is ≤ `max_uv_values`. -/
theorem batch_sizes_fit_partial :
    targetProofSizeProd ≤ maxUvValues ∧ targetProofSizeTest ≤ maxUvValues ∧
    (∀ T, 2 ≤ T / convChunk / convGates →
      nonZeroPrevPowerOfTwo (max 2 (T / convChunk / convGates)) * convChunk * convGates ≤ T) ∧
    (∀ T width bits, 2 ≤ T / width / (bits + 1) →
      nonZeroPrevPowerOfTwo (max 2 (T / width / (bits + 1))) * width * (bits + 1) ≤ T) ∧
    (∀ T bk v, 1 ≤ T / (bk + v) → nonZeroPrevPowerOfTwo (T / (bk + v)) * (bk + v) ≤ T) := by
  have key : ∀ T a b, 2 ≤ T / a / b → nonZeroPrevPowerOfTwo (max 2 (T / a / b)) * a * b ≤ T := by
    intro T a b h
    have hm : max 2 (T / a / b) = T / a / b := by omega
    rw [hm]
    have h1 := prev_pow2_le (T / a / b) (by omega)
    calc nonZeroPrevPowerOfTwo (T / a / b) * a * b ≤ T / a / b * a * b :=
          Nat.mul_le_mul_right _ (Nat.mul_le_mul_right _ h1)
      _ = T / a / b * b * a := by rw [Nat.mul_assoc, Nat.mul_comm a b, ← Nat.mul_assoc]
      _ ≤ T / a * a := Nat.mul_le_mul_right _ (Nat.div_mul_le_self _ _)
      _ ≤ T := Nat.div_mul_le_self _ _
  refine ⟨by decide, by decide, fun T h => key T _ _ h, fun T w b h => key T _ _ h, ?_⟩
  intro T bk v h
  exact Nat.le_trans (Nat.mul_le_mul_right _ (prev_pow2_le _ h)) (Nat.div_mul_le_self _ _)

/-- the production conversion chunk: 256 records × 256 lanes × 512 gates = 33 554 432 ≤ 50 000 000. -/
example : nonZeroPrevPowerOfTwo (max 2 (targetProofSizeProd / convChunk / convGates)) = 256 ∧
    2 ≤ targetProofSizeProd / convChunk / convGates := by decide

/-- the model's (= the code's) Lagrange denominators for N = 4 and N = 7 are the inverses of
`Π_{j≠i} (i − j)` = −6, 2, −2, 6 resp. 720, −120, 48, −36, 48, −120, 720. -/
theorem lagrange_denominators :
    (∃ d, denominators 4 = some d ∧ d.length = 4 ∧
      ((d.zip [fp61.p - 6, 2, fp61.p - 2, 6]).all fun (a, b) => a < fp61.p && a * b % fp61.p == 1) = true) ∧
    (∃ d, denominators 7 = some d ∧ d.length = 7 ∧
      ((d.zip [720, fp61.p - 120, 48, fp61.p - 36, 48, fp61.p - 120, 720]).all
        fun (a, b) => a < fp61.p && a * b % fp61.p == 1) = true) := by
  refine ⟨⟨(denominators 4).getD [], by decide +kernel, by decide +kernel, by decide +kernel⟩,
          ⟨(denominators 7).getD [], by decide +kernel, by decide +kernel, by decide +kernel⟩⟩

end IpaVerif.C03
