import IpaVerif.Model.Validators
import IpaVerif.Props.C16
/-!
# C16 — the validator wrappers forward to the batcher, so the batcher theorems hold for them

Model: `IpaVerif.Model.Validators` (`MaliciousDZKPValidator` + `DZKPUpgraded::validate_record`, MAC
`BatchValidator` + `Upgraded::validate_record`) over `IpaVerif.Model.Batcher`.

* `set_total_records_forwards`, `wrapper_forwards_total`, `accepted_declaration_is_in_force`: for every
  total of the context the validator was created from and every declared total, the batcher's total
  after `DZKPValidator::set_total_records(b)` is what `TotalRecords::overwrite` yields — the panic
  included (and then the mutex is poisoned: every later call is loud) — never silently the stale one.
* `wrapper_history_is_batcher_history`: every history of wrapper calls is a history of the batcher
  `World` of `Props/C16.lean` (same futures, same bookkeeping), so
* `final_partial_batch_closes_at_declared_total`: after any wrapper history whose declarations agree
  on `n`, a wait completes with `Ok` only if every record of its batch below the DECLARED total `n` has
  asked for validation, and a batch all of whose records below `n` asked has been closed.
-/
namespace IpaVerif.C16
open IpaVerif.Batcher IpaVerif.Validators

theorem overwrite_ok_eq {old new t' : Total} (h : old.overwrite new = .ok t') : t' = new := by
  cases old <;> cases new <;> simp [Total.overwrite] at h <;> exact h.symm

/-- a validator that still owns its batcher `s` behind an unpoisoned mutex. -/
structure Healthy (v : V) (s : State) : Prop where
  inner : v.hasInner = true
  clean : v.poisoned = false
  batcher : v.world.batcher = some s

theorem newDzkp_ok {t0 : Total} {rpb tps : Nat} {v : V} (h : newDzkp t0 rpb tps = .ok v) :
    v = { kind := .dzkp, hasInner := true, poisoned := false, ctxTotal := t0,
          world := World.new rpb t0 tps [] } := by
  unfold newDzkp at h
  split at h
  · cases h; rfl
  · split at h
    · cases h
    · split at h
      · cases h; rfl
      · cases h

theorem newMac_ok {t0 : Total} {aw tps : Nat} {v : V} (h : newMac t0 aw tps = .ok v) :
    ∃ n, t0 = .specified n ∧
      v = { kind := .mac, hasInner := true, poisoned := false, ctxTotal := t0,
            world := World.new aw t0 tps [] } := by
  unfold newMac at h
  cases t0 with
  | specified n => cases h; exact ⟨n, rfl, rfl⟩
  | unspecified => cases h
  | indeterminate => cases h

theorem newDzkp_healthy {t0 : Total} {rpb tps : Nat} {v : V} (h : newDzkp t0 rpb tps = .ok v) :
    Healthy v (State.new rpb t0 tps) := by
  rw [newDzkp_ok h]; exact ⟨rfl, rfl, rfl⟩

/-- **set_total_records_forwards.**  On a healthy validator `DZKPValidator::set_total_records(t)` IS
`TotalRecords::overwrite` on the batcher's current total: accepted ⇒ the batcher's total is the
result; refused ⇒ the batcher panic surfaces, the total is untouched and the mutex is poisoned. -/
theorem set_total_records_forwards {v : V} {s : State} (h : Healthy v s) (t : Total) :
    (∀ t', s.total.overwrite t = .ok t' →
        (v.setTotalRecords t).2 = .ok () ∧ Healthy (v.setTotalRecords t).1 { s with total := t' }) ∧
    (∀ p, s.total.overwrite t = .error p →
        (v.setTotalRecords t).2 = .error (.batcher p) ∧ (v.setTotalRecords t).1.poisoned = true ∧
        (v.setTotalRecords t).1.total = some s.total) := by
  obtain ⟨h1, h2, h3⟩ := h
  constructor
  · intro t' ho
    simp [V.setTotalRecords, h1, h2, h3, setTotal, ho]
    exact ⟨rfl, rfl, rfl⟩
  · intro p ho
    simp [V.setTotalRecords, h1, h2, h3, setTotal, ho, V.total]

/-- **wrapper_forwards_total.**  For every total `t0` of the context the validator was created from
(unspecified / specified / indeterminate), every batch size the constructor accepts and every declared
total `b`: the outcome of `set_total_records(b)` is exactly `t0.overwrite b`. -/
theorem wrapper_forwards_total {t0 : Total} {rpb tps : Nat} {v : V} (h : newDzkp t0 rpb tps = .ok v)
    (b : Total) :
    (∀ t', t0.overwrite b = .ok t' →
        (v.setTotalRecords b).2 = .ok () ∧ (v.setTotalRecords b).1.total = some t' ∧
        (v.setTotalRecords b).1.poisoned = false) ∧
    (∀ p, t0.overwrite b = .error p →
        (v.setTotalRecords b).2 = .error (.batcher p) ∧ (v.setTotalRecords b).1.poisoned = true) := by
  have hh := newDzkp_healthy h
  obtain ⟨hA, hB⟩ := set_total_records_forwards hh b
  constructor
  · intro t' ho
    obtain ⟨a, c⟩ := hA t' (by simpa [State.new] using ho)
    exact ⟨a, by simp [V.total, c.batcher], c.clean⟩
  · intro p ho
    obtain ⟨a, c, _⟩ := hB p (by simpa [State.new] using ho)
    exact ⟨a, c⟩

example : ∃ v, newDzkp (.specified 6) 4 8192 = .ok v ∧
    (v.setTotalRecords (.specified 8)).2 = .error (.batcher .badTransition) := ⟨_, rfl, rfl⟩

/-- **accepted_declaration_is_in_force.**  Whatever the context said: if `set_total_records(b)` returns
normally on a fresh validator, the batcher's total is `b` — a declaration is never silently dropped. -/
theorem accepted_declaration_is_in_force {t0 : Total} {rpb tps : Nat} {v : V}
    (h : newDzkp t0 rpb tps = .ok v) (b : Total) (hok : (v.setTotalRecords b).2 = .ok ()) :
    (v.setTotalRecords b).1.total = some b := by
  obtain ⟨hA, hB⟩ := wrapper_forwards_total h b
  cases ho : t0.overwrite b with
  | ok t' =>
    have := (hA t' ho).2.1
    rw [this, overwrite_ok_eq ho]
  | error p =>
    have := (hB p ho).1
    rw [this] at hok
    cases hok

/-- the seeded change (early return when the context's total is specified) is excluded: declaring 8 on
a validator created from a context with total 6 cannot leave total 6 in force silently. -/
theorem redeclared_total_not_silently_stale {a b rpb tps : Nat} {v : V} (hab : a ≠ b)
    (h : newDzkp (.specified a) rpb tps = .ok v) :
    ¬ ((v.setTotalRecords (.specified b)).2 = .ok () ∧
       (v.setTotalRecords (.specified b)).1.total = some (.specified a)) := by
  intro ⟨h1, h2⟩
  rw [accepted_declaration_is_in_force h _ h1] at h2
  injection h2 with h2
  injection h2 with h2
  exact hab h2.symm

/-! ## Wrapper histories are batcher histories -/

inductive VOp where
  /-- `DZKPValidator::set_total_records(t)` -/
  | setTotal (t : Total)
  /-- `ctx.validate_record(r)`, created and polled once -/
  | validate (r : Nat)
  /-- one more poll of future `i` -/
  | poll (i : Nat)
  /-- future `i` is dropped -/
  | drop (i : Nat)

def vstep (v : V) : VOp → V
  | .setTotal t => (v.setTotalRecords t).1
  | .validate r => (v.validateRecord r).1
  | .poll i => (v.poll i).1
  | .drop i => v.dropFut i

/-- the batcher-level schedule a poll of future `i` amounts to. -/
def pollOps (v : V) (i : Nat) : List WOp :=
  match v.world.futs.getD i .gone with
  | .validator b _ _ => if v.checkCanFinish b then [.release b, .poll i] else [.poll i]
  | _ => [.poll i]

/-- the batcher-level schedule (`WOp`s of `Props/C16.lean`) a wrapper call amounts to; a call that is
refused by the wrapper itself (poisoned mutex, validator gone) touches nothing. -/
def expand (v : V) : VOp → List WOp
  | .setTotal t => if v.hasInner && !v.poisoned && v.world.batcher.isSome then [.setTotal t] else []
  | .validate r =>
    if v.alive && !v.poisoned then
      match (v.world.validate r).2 with
      | .error _ => [.validate r]
      | .ok i =>
        .validate r :: (match v.kind with
          | .dzkp => pollOps { v with world := (v.world.validate r).1 } i
          | .mac => [.poll i])
    else []
  | .poll i => pollOps v i
  | .drop i => [.drop i]

def wrun (w : World) (ops : List WOp) : World := ops.foldl wstep w

theorem wexec_fst : ∀ (ops : List WOp) (w : World) (g : Ghost), (wexec w g ops).1 = wrun w ops := by
  intro ops
  induction ops with
  | nil => intro w g; rfl
  | cons op ops ih => intro w g; simp [wexec, wrun, ih]

theorem wexec_append : ∀ (a b : List WOp) (w : World) (g : Ghost),
    wexec w g (a ++ b) = wexec (wexec w g a).1 (wexec w g a).2 b := by
  intro a
  induction a with
  | nil => intro b w g; rfl
  | cons op a ih => intro b w g; simp [wexec, ih]

theorem poll_world (v : V) (i : Nat) : (v.poll i).1.world = wrun v.world (pollOps v i) := by
  unfold V.poll pollOps
  cases h : v.world.futs.getD i .gone with
  | validator b st x => by_cases hc : v.checkCanFinish b = true <;> simp [hc, wrun, wstep]
  | failed e => simp [wrun, wstep]
  | waiter b => simp [wrun, wstep]
  | gone => simp [wrun, wstep]

/-- every wrapper call changes the batcher world exactly as its expansion does. -/
theorem vstep_world (v : V) (op : VOp) : (vstep v op).world = wrun v.world (expand v op) := by
  cases op with
  | setTotal t =>
    simp only [vstep, expand, V.setTotalRecords]
    cases hi : v.hasInner <;> simp [wrun]
    cases hp : v.poisoned <;> simp
    cases hb : v.world.batcher with
    | none => simp
    | some s =>
      simp [wstep, hb]
      cases setTotal s t <;> simp
  | validate r =>
    simp only [vstep, expand, V.validateRecord]
    cases ha : v.alive <;> simp [wrun]
    cases hp : v.poisoned <;> simp
    cases hv : (v.world.validate r).2 with
    | error p => simp [wstep]
    | ok i =>
      simp only [V.firstPoll]
      cases hk : v.kind with
      | dzkp =>
        simp [wstep]
        have := poll_world { v with world := (v.world.validate r).1 } i
        simpa [wrun, hk, hp] using this
      | mac => simp [wstep]
  | poll i => exact poll_world v i
  | drop i => simp [vstep, expand, V.dropFut, wrun, wstep]

/-- wrapper history with the batcher-level history summary (`Ghost`: `acc` = records whose
`validate_record` was accepted by the batcher, `closed` = batches that became ready). -/
def vexecG : V → Ghost → List VOp → V × Ghost
  | v, g, [] => (v, g)
  | v, g, op :: ops => vexecG (vstep v op) (wexec v.world g (expand v op)).2 ops

/-- every total declared in the history is `n`. -/
def VTotalsAgree (n : Nat) (ops : List VOp) : Prop :=
  ∀ m, VOp.setTotal (.specified m) ∈ ops → m = n

theorem expand_setTotal {v : V} {op : VOp} {t : Total} (h : WOp.setTotal t ∈ expand v op) :
    op = .setTotal t := by
  cases op with
  | setTotal t' =>
    simp only [expand] at h
    split at h <;> simp at h
    rw [h]
  | validate r =>
    simp only [expand] at h
    split at h
    · split at h
      · simp at h
      · simp only [List.mem_cons] at h
        rcases h with h | h
        · cases h
        · split at h
          · unfold pollOps at h
            split at h
            · split at h <;> simp at h
            · simp at h
          · simp at h
    · simp at h
  | poll i =>
    simp only [expand, pollOps] at h
    split at h
    · split at h <;> simp at h
    · simp at h
  | drop i => simp [expand] at h

/-- **wrapper_history_is_batcher_history.**  For every wrapper history there is a batcher-world
schedule with the same world and history summary whose `set_total_records` calls are among the
wrapper's — so every invariant of `Props/C16.lean` holds after every wrapper history. -/
theorem wrapper_history_is_batcher_history : ∀ (ops : List VOp) (v : V) (g : Ghost),
    ∃ wops, wexec v.world g wops = ((vexecG v g ops).1.world, (vexecG v g ops).2) ∧
      ∀ n, VTotalsAgree n ops → WTotalsAgree n wops := by
  intro ops
  induction ops with
  | nil => intro v g; exact ⟨[], rfl, fun n _ t m h => by simp at h⟩
  | cons op ops ih =>
    intro v g
    obtain ⟨wops, h1, h2⟩ := ih (vstep v op) (wexec v.world g (expand v op)).2
    refine ⟨expand v op ++ wops, ?_, ?_⟩
    · rw [wexec_append, wexec_fst, ← vstep_world]
      simpa [vexecG] using h1
    · intro n hn t m hm ht
      rcases List.mem_append.1 hm with hm | hm
      · have := expand_setTotal hm
        subst ht
        exact hn m (by rw [this]; exact List.mem_cons_self)
      · exact h2 n (fun m' hm' => hn m' (List.mem_cons_of_mem _ hm')) t m hm ht

/-- the world of a fresh validator is a fresh batcher world with the CONTEXT's total. -/
theorem fresh_world {t0 : Total} {rpb tps : Nat} {v : V}
    (h : newDzkp t0 rpb tps = .ok v ∨ newMac t0 rpb tps = .ok v) :
    v.world = World.new rpb t0 tps [] := by
  rcases h with h | h
  · rw [newDzkp_ok h]
  · obtain ⟨n, _, hv⟩ := newMac_ok h
    rw [hv]

/-- **final_partial_batch_closes_at_declared_total** (wrapper level; `b` any batch, in particular the
last, partial one).  Let a DZKP or MAC validator be created from a context whose total is unspecified,
`n` or indeterminate, and let every total declared through `set_total_records` be `n`.  After ANY
history of wrapper calls (set_total_records / validate_record / polls / drops, refused calls
included):
(1) if a poll of a wait on batch `b` completes with `Ok`, every record `r' < n` of batch `b` has asked
    for validation — all `min(rpb, n − b·rpb)` of them, not the number a stale total would give;
(2) the future that runs the check of `b` exists only if all those records asked;
(3) conversely a batch all of whose records below `n` asked has been closed (its check was handed out). -/
theorem final_partial_batch_closes_at_declared_total {n rpb tps : Nat} {t0 : Total} {v0 : V}
    (hnew : newDzkp t0 rpb tps = .ok v0 ∨ newMac t0 rpb tps = .ok v0)
    (hrpb : 0 < rpb) (ht0 : t0 = .specified n ∨ t0 = .indeterminate ∨ t0 = .unspecified)
    (ops : List VOp) (hdecl : VTotalsAgree n ops) (i : Nat) :
    let v := (vexecG v0 {} ops).1
    let g := (vexecG v0 {} ops).2
    (∀ b, v.world.futs.getD i .gone = .waiter b → (v.poll i).2 = .ok →
        ∀ r', r' < n → r' / rpb = b → r' ∈ g.acc) ∧
    (∀ b st x, v.world.futs.getD i .gone = .validator b st x →
        ∀ r', r' < n → r' / rpb = b → r' ∈ g.acc) ∧
    (∀ b, b * rpb < n → (∀ r', r' < n → r' / rpb = b → r' ∈ g.acc) → b ∈ g.closed) := by
  intro v g
  obtain ⟨wops, hw, hagree⟩ := wrapper_history_is_batcher_history ops v0 {}
  rw [fresh_world hnew] at hw
  have hset : WSetting n rpb t0 wops := ⟨hrpb, ht0, hagree n hdecl⟩
  have hwr : wreach rpb t0 tps [] wops = (v.world, g) := hw
  have hvm := verdict_matches (tps := tps) (failing := []) hset i
  simp only [hwr] at hvm
  obtain ⟨hA, hB⟩ := hvm
  refine ⟨?_, ?_, ?_⟩
  · intro b hf hok
    have hp : (v.poll i).2 = (v.world.poll i).2 := by unfold V.poll; simp only [hf]
    rw [hp] at hok
    exact ((hA b hf).1 hok).1
  · intro b st x hf
    exact (hB b st x hf).1
  · intro b hb hall
    have hI := wreach_inv (tps := tps) (failing := []) hset
    rw [hwr] at hI
    obtain ⟨s, hs, hinv⟩ := hI.batcher
    have hr : s.rpb = rpb := by
      have := (wreach_static rpb t0 tps [] wops).2
      rw [hwr] at this
      exact this s hs
    apply whole_implies_closed hinv b
    rw [hr]
    exact ⟨by unfold tcOf; omega, (whole_iff_records hrpb _ b).2 hall⟩

example : VTotalsAgree 6 [.setTotal (.specified 6), .validate 4, .validate 5, .poll 0, .setTotal .indeterminate] := by
  intro m h; simp at h; exact h

end IpaVerif.C16
