import IpaVerif.Props.C12
import Mathlib.Analysis.SpecificLimits.Basic
import Mathlib.Topology.Algebra.InfiniteSum.Constructions
/-!
# C12 — `sampler_law`: the accepted sample of the truncated double-geometric sampler has pmf ∝ (1−p)^{|x−n|}

`TruncatedDoubleGeometric::sample` (distributions.rs; model `Dp.truncatedSample`): repeat
`s = n + a₁ − a₂` with two `Geometric::sample` draws (`aᵢ` = number of failed Bernoulli(`p`) trials before the first
success) until `0 ≤ s ≤ 2n`.

Probabilistic reading (the ONLY assumption: the Bernoulli trials are i.i.d. with success probability `p`, see
props/C12.json): a geometric draw returns `k` exactly on the outcome prefix `F^k T` (`geometric_returns_iff`), which
has probability `g k = p (1−p)^k`; the two draws of one iteration read disjoint trials, so the pair `(a₁, a₂)` has the
PRODUCT weight `g a₁ · g a₂`; iterations read disjoint trials, so "rejected `j` times, then `x`" has probability
`ρ^j · m x` with `m y = Pr[n + a₁ − a₂ = y]` and `ρ = 1 − Σ_{y=0}^{2n} m y`.

* `dg_mass` — `m x = Σ_{(a₁,a₂) : n + a₁ = x + a₂} g a₁ g a₂ = p/(2−p) · (1−p)^{|x−n|}` (sum over ℕ × ℕ);
* `sampler_law` — `Σ_j ρ^j · m x = (1−p)^{|x−n|} / Σ_{y=0}^{2n} (1−p)^{|y−n|}` for every `x ≤ 2n`, every `n`, every
  `0 < p ≤ 1`: the documented truncated discrete Laplace law with `1 − p = e^{−ε}` (`weight / mass` of
  `rhs_is_tail_mass`), and the probabilities of `x = 0..2n` add up to 1 (`sampler_law_total`: the loop
  terminates almost surely).
-/
namespace IpaVerif.C12
open IpaVerif.Dp

/-! ### the deterministic part: what a geometric draw reads -/

/-- `Geometric::sample` on the outcome stream (`v < p_int` = success): it returns `k` and leaves `rest` iff the stream is
`k` failures, one success, then `rest`. (`p_int ≠ u64::MAX`, i.e. `p < 1`; for `p = 1` no trial is read.) -/
theorem geometric_returns_iff (pInt : Nat) (hp : pInt ≠ alwaysTrue) : ∀ (fuel : Nat) (s : List Nat) (a k : Nat) (rest : List Nat),
    s.length < fuel →
    (geometric pInt fuel s a = some (a + k, rest) ↔
      ∃ pre v, s = pre ++ v :: rest ∧ pre.length = k ∧ (∀ u ∈ pre, ¬ u < pInt) ∧ v < pInt) := by
  intro fuel
  induction fuel with
  | zero => intro s a k rest h; omega
  | succ fuel ih =>
    intro s a k rest hlen
    cases s with
    | nil =>
      simp [geometric, bernoulli, hp]
    | cons v vs =>
      have hb : bernoulli pInt (v :: vs) = some (decide (v < pInt), vs) := by
        simp [bernoulli, hp]
      simp only [geometric, hb]
      by_cases hv : v < pInt
      · simp only [hv, decide_true]
        constructor
        · intro h
          simp only [Option.some.injEq, Prod.mk.injEq] at h
          obtain ⟨hk, rfl⟩ := h
          exact ⟨[], v, rfl, by simp; omega, by simp, hv⟩
        · rintro ⟨pre, v', hs, hpl, hpre, hv'⟩
          cases pre with
          | nil =>
            simp at hs hpl
            obtain ⟨rfl, rfl⟩ := hs
            simp [← hpl]
          | cons u us =>
            simp at hs
            obtain ⟨rfl, _⟩ := hs
            exact absurd hv (hpre v (by simp))
      · simp only [hv, decide_false]
        cases k with
        | zero =>
          constructor
          · intro h
            -- the recursive call returns at least a + 1
            have : ∀ (f : Nat) (s : List Nat) (a r : Nat) (rest : List Nat), geometric pInt f s a = some (r, rest) → a ≤ r := by
              intro f
              induction f with
              | zero => intro s a r rest h; simp [geometric] at h
              | succ f ihf =>
                intro s a r rest h
                simp only [geometric] at h
                cases hbb : bernoulli pInt s with
                | none => simp [hbb] at h
                | some br =>
                  obtain ⟨b, rr⟩ := br
                  cases b <;> simp only [hbb] at h
                  · have := ihf rr (a + 1) r rest h; omega
                  · simp at h; omega
            have := this fuel vs (a + 1) (a + 0) rest h
            omega
          · rintro ⟨pre, v', hs, hpl, hpre, hv'⟩
            have : pre = [] := List.length_eq_zero_iff.mp hpl
            subst this
            simp at hs
            obtain ⟨rfl, _⟩ := hs
            exact absurd hv' hv
        | succ k =>
          have := ih vs (a + 1) k rest (by simp at hlen; omega)
          rw [show a + (k + 1) = a + 1 + k by omega, this]
          constructor
          · rintro ⟨pre, v', hs, hpl, hpre, hv'⟩
            refine ⟨v :: pre, v', by simp [hs], by simp [hpl], ?_, hv'⟩
            intro u hu
            rcases List.mem_cons.mp hu with rfl | hu
            · exact hv
            · exact hpre u hu
          · rintro ⟨pre, v', hs, hpl, hpre, hv'⟩
            cases pre with
            | nil => simp at hpl
            | cons u us =>
              simp at hs
              obtain ⟨rfl, hs⟩ := hs
              exact ⟨us, v', hs, by simpa using hpl, fun w hw => hpre w (List.mem_cons_of_mem _ hw), hv'⟩

/-- one iteration of the rejection loop reads two geometric draws, one after the other: if
`DoubleGeometric::sample` returns `v` and leaves `rest`, the stream is `F^{a₁} T F^{a₂} T ++ rest` and
`v = n + a₁ − a₂`. -/
theorem doubleGeometric_reads (pInt shift : Nat) (hp : pInt ≠ alwaysTrue) (s : List Nat) (v : Int) (rest : List Nat)
    (h : doubleGeometric pInt shift s = some (v, rest)) :
    ∃ (a1 a2 : Nat) (pre1 pre2 : List Nat) (v1 v2 : Nat),
      s = pre1 ++ v1 :: (pre2 ++ v2 :: rest) ∧ pre1.length = a1 ∧ pre2.length = a2 ∧
      (∀ u ∈ pre1, ¬ u < pInt) ∧ v1 < pInt ∧ (∀ u ∈ pre2, ¬ u < pInt) ∧ v2 < pInt ∧
      v = (shift : Int) + a1 - a2 := by
  unfold doubleGeometric at h
  cases h1 : geometric pInt (s.length + 1) s 0 with
  | none => simp [h1] at h
  | some r1 =>
    obtain ⟨a1, s1⟩ := r1
    simp only [h1] at h
    cases h2 : geometric pInt (s1.length + 1) s1 0 with
    | none => simp [h2] at h
    | some r2 =>
      obtain ⟨a2, s2⟩ := r2
      simp only [h2, Option.some.injEq, Prod.mk.injEq] at h
      obtain ⟨rfl, rfl⟩ := h
      have e1 := (geometric_returns_iff pInt hp (s.length + 1) s 0 a1 s1 (by omega)).mp (by simpa using h1)
      have e2 := (geometric_returns_iff pInt hp (s1.length + 1) s1 0 a2 s2 (by omega)).mp (by simpa using h2)
      obtain ⟨pre1, v1, hs, hl1, hf1, hv1⟩ := e1
      obtain ⟨pre2, v2, hs1, hl2, hf2, hv2⟩ := e2
      exact ⟨a1, a2, pre1, pre2, v1, v2, by rw [hs, hs1], hl1, hl2, hf1, hv1, hf2, hv2, rfl⟩

/-- what `TruncatedDoubleGeometric::sample` reads: a (possibly empty) chain of rejected iterations followed by an
accepted one. -/
inductive Accepts (pInt shift : Nat) : List Nat → Nat → List Nat → Prop
  | now {s : List Nat} {v : Int} {rest : List Nat} : doubleGeometric pInt shift s = some (v, rest) →
      0 ≤ v → v ≤ (2 * shift : Nat) → Accepts pInt shift s v.toNat rest
  | later {s s' : List Nat} {v : Int} {x : Nat} {rest : List Nat} : doubleGeometric pInt shift s = some (v, s') →
      ¬ (0 ≤ v ∧ v ≤ (2 * shift : Nat)) → Accepts pInt shift s' x rest → Accepts pInt shift s x rest

/-- the rejection loop returns `x` only along such a chain (so "rejected `j` times, then `x`" are exactly the ways to
output `x`, the events summed in `sampler_law`). -/
theorem truncated_accepts (pInt shift : Nat) : ∀ (fuel : Nat) (s : List Nat) (x : Nat) (rest : List Nat),
    truncatedSample pInt shift fuel s = some (x, rest) → Accepts pInt shift s x rest := by
  intro fuel
  induction fuel with
  | zero => intro s x rest h; simp [truncatedSample] at h
  | succ fuel ih =>
    intro s x rest h
    simp only [truncatedSample] at h
    cases hd : doubleGeometric pInt shift s with
    | none => simp [hd] at h
    | some dr =>
      obtain ⟨v, s'⟩ := dr
      simp only [hd] at h
      split at h
      · rename_i hr
        simp only [Option.some.injEq, Prod.mk.injEq] at h
        obtain ⟨rfl, rfl⟩ := h
        exact Accepts.now hd hr.1 hr.2
      · rename_i hr
        exact Accepts.later hd hr (ih s' x rest h)

/-! ### the law -/

/-- probability that a geometric draw returns `k`: the prefix `F^k T`. -/
noncomputable def geoProb (p : ℝ) (k : ℕ) : ℝ := p * (1 - p) ^ k

/-- `Pr[n + a₁ − a₂ = y]` for independent geometric `a₁, a₂` (product weights on ℕ × ℕ). -/
noncomputable def dgTerm (p : ℝ) (n y : ℕ) (a : ℕ × ℕ) : ℝ :=
  if n + a.1 = y + a.2 then geoProb p a.1 * geoProb p a.2 else 0

/-- **dg_mass** — the double-geometric mass at `y`: `p/(2−p) · (1−p)^{|y−n|}` (both signs of `y − n`). -/
theorem dg_mass (p : ℝ) (h0 : 0 < p) (h1 : p ≤ 1) (n y : ℕ) :
    HasSum (dgTerm p n y) (p ^ 2 / (1 - (1 - p) ^ 2) * weight (1 - p) n y) := by
  rcases Nat.le_total n y with hny | hyn
  · -- y = n + d: the pairs (k + d, k)
    obtain ⟨d, rfl⟩ := Nat.exists_eq_add_of_le hny
    have hw : weight (1 - p) n (n + d) = (1 - p) ^ d := by
      unfold weight; congr 1; push_cast; simp
    rw [hw]
    let e : ℕ → ℕ × ℕ := fun k => (k + d, k)
    have he : Function.Injective e := fun a b h => by simpa [e] using congrArg Prod.snd h
    have hz : ∀ a ∉ Set.range e, dgTerm p n (n + d) a = 0 := by
      intro a ha
      unfold dgTerm
      rw [if_neg]
      intro h
      exact ha ⟨a.2, by simp only [e]; ext <;> simp; omega⟩
    rw [← he.hasSum_iff hz]
    have hs := double_geometric_series p d h0 h1
    have : (dgTerm p n (n + d)) ∘ e = fun k : ℕ => (p * (1 - p) ^ k) * (p * (1 - p) ^ (k + d)) := by
      funext k
      simp only [Function.comp, dgTerm, e, geoProb]
      rw [if_pos (by omega)]; ring
    rw [this, show p ^ 2 / (1 - (1 - p) ^ 2) * (1 - p) ^ d = p ^ 2 * (1 - p) ^ d / (1 - (1 - p) ^ 2) by ring]
    exact hs
  · -- y = n − d: the pairs (k, k + d)
    obtain ⟨d, rfl⟩ := Nat.exists_eq_add_of_le hyn
    have hw : weight (1 - p) (y + d) y = (1 - p) ^ d := by
      unfold weight; congr 1; push_cast; simp
    rw [hw]
    let e : ℕ → ℕ × ℕ := fun k => (k, k + d)
    have he : Function.Injective e := fun a b h => by simpa [e] using congrArg Prod.fst h
    have hz : ∀ a ∉ Set.range e, dgTerm p (y + d) y a = 0 := by
      intro a ha
      unfold dgTerm
      rw [if_neg]
      intro h
      exact ha ⟨a.1, by simp only [e]; ext <;> simp; omega⟩
    rw [← he.hasSum_iff hz]
    have hs := double_geometric_series p d h0 h1
    have : (dgTerm p (y + d) y) ∘ e = fun k : ℕ => (p * (1 - p) ^ k) * (p * (1 - p) ^ (k + d)) := by
      funext k
      simp only [Function.comp, dgTerm, e, geoProb]
      rw [if_pos (by omega)]
    rw [this, show p ^ 2 / (1 - (1 - p) ^ 2) * (1 - p) ^ d = p ^ 2 * (1 - p) ^ d / (1 - (1 - p) ^ 2) by ring]
    exact hs

/-- `m y = Pr[n + a₁ − a₂ = y]`. -/
noncomputable def dgMass (p : ℝ) (n y : ℕ) : ℝ := ∑' a, dgTerm p n y a

theorem dgMass_eq (p : ℝ) (h0 : 0 < p) (h1 : p ≤ 1) (n y : ℕ) :
    dgMass p n y = p ^ 2 / (1 - (1 - p) ^ 2) * weight (1 - p) n y := (dg_mass p h0 h1 n y).tsum_eq

/-- probability that one iteration of the rejection loop accepts: `Σ_{y=0}^{2n} m y`. -/
noncomputable def acceptProb (p : ℝ) (n : ℕ) : ℝ := sumRange (2 * n + 1) (dgMass p n)

theorem sumRange_congr {K : Type} [Field K] (f g : Nat → K) : ∀ k, (∀ i < k, f i = g i) → sumRange k f = sumRange k g := by
  intro k
  induction k with
  | zero => intro _; rfl
  | succ k ih => intro h; simp only [sumRange]; rw [ih (fun i hi => h i (by omega)), h k (by omega)]

theorem acceptProb_eq (p : ℝ) (h0 : 0 < p) (h1 : p ≤ 1) (n : ℕ) :
    acceptProb p n = p ^ 2 / (1 - (1 - p) ^ 2) * mass (1 - p) n := by
  unfold acceptProb mass
  rw [← sumRange_mul_const]
  exact sumRange_congr _ _ _ (fun i _ => dgMass_eq p h0 h1 n i)

theorem weight_nonneg (q : ℝ) (hq : 0 ≤ q) (n x : ℕ) : 0 ≤ weight q n x := by unfold weight; positivity

theorem sumRange_nonneg (f : Nat → ℝ) : ∀ k, (∀ i < k, 0 ≤ f i) → 0 ≤ sumRange k f := by
  intro k
  induction k with
  | zero => intro _; simp [sumRange]
  | succ k ih =>
    intro h; simp only [sumRange]
    exact add_nonneg (ih (fun i hi => h i (by omega))) (h k (by omega))

theorem sumRange_ge_term (f : Nat → ℝ) : ∀ k, (∀ i < k, 0 ≤ f i) → ∀ j < k, f j ≤ sumRange k f := by
  intro k
  induction k with
  | zero => intro _ j hj; omega
  | succ k ih =>
    intro h j hj
    simp only [sumRange]
    rcases Nat.lt_succ_iff_lt_or_eq.mp hj with hlt | rfl
    · have := ih (fun i hi => h i (by omega)) j hlt
      have := h k (by omega)
      linarith
    · have := sumRange_nonneg f j (fun i hi => h i (by omega))
      linarith

theorem mass_pos (q : ℝ) (hq : 0 ≤ q) (n : ℕ) : 0 < mass q n := by
  have h1 : weight q n n = 1 := by unfold weight; simp
  have := sumRange_ge_term (weight q n) (2 * n + 1) (fun i _ => weight_nonneg q hq n i) n (by omega)
  unfold mass; linarith

/-- the constant `c = p²/(1−(1−p)²) = p/(2−p)` is positive and `c · mass ≤ 1` is not needed: only `0 < c·mass`. -/
theorem c_pos (p : ℝ) (h0 : 0 < p) (h1 : p ≤ 1) : 0 < p ^ 2 / (1 - (1 - p) ^ 2) := by
  have : 0 < 1 - (1 - p) ^ 2 := by nlinarith
  positivity

/-- the acceptance probability is a probability: `0 < accept ≤ 1` (total mass of the double-geometric law is 1). -/
theorem acceptProb_pos (p : ℝ) (h0 : 0 < p) (h1 : p ≤ 1) (n : ℕ) : 0 < acceptProb p n := by
  rw [acceptProb_eq p h0 h1]
  exact mul_pos (c_pos p h0 h1) (mass_pos _ (by linarith) n)

theorem acceptProb_le_one (p : ℝ) (h0 : 0 < p) (h1 : p ≤ 1) (n : ℕ) : acceptProb p n ≤ 1 := by
  rw [acceptProb_eq p h0 h1]
  -- c · mass = c · (1 + q − 2 q^{n+1}) / (1 − q) with c = p/(2−p), 1 − q = p: = (1 + q − 2 q^{n+1}) / (1 + q) ≤ 1
  have hm := mass_closed_form (1 - p) n
  have hq : 0 ≤ 1 - p := by linarith
  have hqn : 0 ≤ (1 - p) ^ (n + 1) := pow_nonneg hq _
  have hd : 0 < 1 - (1 - p) ^ 2 := by nlinarith
  rw [div_mul_eq_mul_div, div_le_one hd]
  have hp : 1 - (1 - p) = p := by ring
  rw [hp] at hm
  -- p * mass = 1 + q − 2 q^{n+1}
  have : p ^ 2 * mass (1 - p) n = p * (1 + (1 - p) - 2 * (1 - p) ^ (n + 1)) := by rw [← hm]; ring
  rw [this]
  nlinarith

/-- **sampler_law** — probability that the rejection loop returns `x` (rejected `j` times, then `x`; summed over `j`):
the documented truncated discrete Laplace pmf `(1−p)^{|x−n|} / Σ_{y=0}^{2n} (1−p)^{|y−n|}`. -/
theorem sampler_law (p : ℝ) (h0 : 0 < p) (h1 : p ≤ 1) (n x : ℕ) :
    HasSum (fun j : ℕ => (1 - acceptProb p n) ^ j * dgMass p n x) (weight (1 - p) n x / mass (1 - p) n) := by
  have hpos := acceptProb_pos p h0 h1 n
  have hle := acceptProb_le_one p h0 h1 n
  have hgeo := (hasSum_geometric_of_lt_one (by linarith : (0 : ℝ) ≤ 1 - acceptProb p n) (by linarith)).mul_right (dgMass p n x)
  have : (1 - (1 - acceptProb p n))⁻¹ * dgMass p n x = weight (1 - p) n x / mass (1 - p) n := by
    rw [sub_sub_cancel, acceptProb_eq p h0 h1, dgMass_eq p h0 h1, inv_mul_eq_div]
    exact mul_div_mul_left _ _ (c_pos p h0 h1).ne'
  rw [this] at hgeo
  exact hgeo

/-- the accepted sample lies in `0..2n` with total probability 1 (the loop terminates almost surely). -/
theorem sampler_law_total (p : ℝ) (h0 : 0 < p) (h1 : p ≤ 1) (n : ℕ) :
    sumRange (2 * n + 1) (fun x => weight (1 - p) n x / mass (1 - p) n) = 1 := by
  have hm := (mass_pos (1 - p) (by linarith) n).ne'
  have : (fun x => weight (1 - p) n x / mass (1 - p) n) = fun x => (mass (1 - p) n)⁻¹ * weight (1 - p) n x := by
    funext x; rw [div_eq_inv_mul]
  rw [this, sumRange_mul_const]
  exact inv_mul_cancel₀ hm

example : (0 : ℝ) < 1 / 2 ∧ (1 / 2 : ℝ) ≤ 1 := by norm_num

end IpaVerif.C12
