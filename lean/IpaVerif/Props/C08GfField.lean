import IpaVerif.Props.C08Gf
import IpaVerif.Proofs.C08GfField
import Mathlib.Tactic.NormNum.Prime
/-!
# C08 — every extracted binary field is a field

For each `bit_array_impl!` polynomial regenerated from `galois_field.rs`: every non-zero canonical
element has a multiplicative inverse and there are no zero divisors. Proof: the general ring theory
(`Proofs/C08GfRing`), the kernel-checked generator-order certificate (`gf*_cert_ok`), primality of the
listed prime factors of `2^BITS - 1` (`norm_num`), and `Proofs/C08GfField.field_of_cert`
(`orderOf` + counting). If a polynomial in the source becomes reducible, the translator emits the
factor pair instead of a generator, `gf*_cert_ok` fails, and the harness replays the zero divisor.
-/
namespace IpaVerif.C08
open IpaVerif.Gf2k IpaVerif.Generated IpaVerif.GfRing IpaVerif.GfField

/-- The field property of one binary field type, in terms of the modelled `Mul`. -/
def IsFieldModel (P : Params) : Prop :=
  (∀ a, a < 2 ^ P.bits → a ≠ 0 → ∃ b, b < 2 ^ P.bits ∧ mul P a b = some 1) ∧
  (∀ a b, a < 2 ^ P.bits → b < 2 ^ P.bits → mul P a b = some 0 → a = 0 ∨ b = 0)

theorem gf2_primes : ∀ qe ∈ gf2Cert.orderFactors, qe.1.Prime := by
  intro qe h; simp [gf2Cert] at h
theorem gf3_primes : ∀ qe ∈ gf3Cert.orderFactors, qe.1.Prime := by
  intro qe h; simp only [gf3Cert, List.mem_cons, List.mem_nil_iff, or_false] at h
  rcases h with rfl; norm_num
theorem gf8_primes : ∀ qe ∈ gf8Cert.orderFactors, qe.1.Prime := by
  intro qe h; simp only [gf8Cert, List.mem_cons, List.mem_nil_iff, or_false] at h
  rcases h with rfl | rfl | rfl <;> norm_num
theorem gf9_primes : ∀ qe ∈ gf9Cert.orderFactors, qe.1.Prime := by
  intro qe h; simp only [gf9Cert, List.mem_cons, List.mem_nil_iff, or_false] at h
  rcases h with rfl | rfl <;> norm_num
theorem gf20_primes : ∀ qe ∈ gf20Cert.orderFactors, qe.1.Prime := by
  intro qe h; simp only [gf20Cert, List.mem_cons, List.mem_nil_iff, or_false] at h
  rcases h with rfl | rfl | rfl | rfl | rfl <;> norm_num
theorem gf32_primes : ∀ qe ∈ gf32Cert.orderFactors, qe.1.Prime := by
  intro qe h; simp only [gf32Cert, List.mem_cons, List.mem_nil_iff, or_false] at h
  rcases h with rfl | rfl | rfl | rfl | rfl <;> norm_num
theorem gf40_primes : ∀ qe ∈ gf40Cert.orderFactors, qe.1.Prime := by
  intro qe h; simp only [gf40Cert, List.mem_cons, List.mem_nil_iff, or_false] at h
  rcases h with rfl | rfl | rfl | rfl | rfl | rfl | rfl <;> norm_num

theorem gf2_is_field : IsFieldModel gf2 := field_of_cert gf2Cert wf_gf2 gf2_cert_ok gf2_primes
theorem gf3_is_field : IsFieldModel gf3 := field_of_cert gf3Cert wf_gf3 gf3_cert_ok gf3_primes
theorem gf8_is_field : IsFieldModel gf8 := field_of_cert gf8Cert wf_gf8 gf8_cert_ok gf8_primes
theorem gf9_is_field : IsFieldModel gf9 := field_of_cert gf9Cert wf_gf9 gf9_cert_ok gf9_primes
theorem gf20_is_field : IsFieldModel gf20 := field_of_cert gf20Cert wf_gf20 gf20_cert_ok gf20_primes
theorem gf32_is_field : IsFieldModel gf32 := field_of_cert gf32Cert wf_gf32 gf32_cert_ok gf32_primes
theorem gf40_is_field : IsFieldModel gf40 := field_of_cert gf40Cert wf_gf40 gf40_cert_ok gf40_primes

/-- **Every binary field type exported by `ff::galois_field` is a field**: each non-zero element has
an inverse and there are no zero divisors (with the commutative-ring laws of `Props/C08Gf`). -/
theorem binary_fields_are_fields (P : Params) (hP : P ∈ binaryFields) : IsFieldModel P := by
  simp only [binaryFields, List.mem_cons, List.mem_nil_iff, or_false] at hP
  rcases hP with rfl | rfl | rfl | rfl | rfl | rfl | rfl
  · exact gf2_is_field
  · exact gf3_is_field
  · exact gf8_is_field
  · exact gf9_is_field
  · exact gf20_is_field
  · exact gf32_is_field
  · exact gf40_is_field

/-- Non-vacuity: `0x53 · 0xCA = 1` in the AES field `Gf8Bit`. -/
example : mul gf8 0x53 0xCA = some 1 := by decide

end IpaVerif.C08
