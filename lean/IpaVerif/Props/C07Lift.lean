import IpaVerif.Model.Circuits
import IpaVerif.Props.C07
import IpaVerif.Props.C07Shares
/-!
# C07 — the lifting lemma

Every circuit of `IpaVerif.Model.Circuits` is built from local xor / not / constants and the interactive
multiplication. A map `f` that commutes with these gates (`IsHom`) commutes with every circuit
(`*_hom`, by induction on the loops — all lengths). Instantiated with the two projections of the algebra of
*consistent* replicated sharings (`Subtype.val` onto the raw three-helper views, `recB` onto the plaintext bit)
this gives, for ALL PRSS masks: `reconstruct ∘ circuit_on_shares = circuit_plain ∘ reconstruct`, and every
output is again a consistent sharing (`*_shares`).
-/
namespace IpaVerif.C07
open IpaVerif.Sharing IpaVerif.Circuits

variable {α β : Type}

/-- `f` commutes with every gate: a homomorphism of secure algebras. -/
structure IsHom (A : SecureAlg α) (B : SecureAlg β) (f : α → β) : Prop where
  zero : f A.zero = B.zero
  one : f A.one = B.one
  xor : ∀ a b, f (A.xor a b) = B.xor (f a) (f b)
  not : ∀ a, f (A.not a) = B.not (f a)
  neg : ∀ a, f (A.neg a) = B.neg (f a)
  mul : ∀ p a b, f (A.mul p a b) = B.mul p (f a) (f b)

variable {A : SecureAlg α} {B : SecureAlg β} {f : α → β}

theorem headD_map (h : IsHom A B f) (y : List α) : (y.map f).headD B.zero = f (y.headD A.zero) := by
  cases y <;> simp [h.zero]

theorem bitAdder_hom (h : IsHom A B f) (p : Path) (x y c : α) :
    bitAdder B p (f x) (f y) (f c) = (f (bitAdder A p x y c).1, f (bitAdder A p x y c).2) := by
  simp [bitAdder, h.xor, h.mul]

theorem bitSubtractor_hom (h : IsHom A B f) (p : Path) (x y c : α) :
    bitSubtractor B p (f x) (f y) (f c) = (f (bitSubtractor A p x y c).1, f (bitSubtractor A p x y c).2) := by
  simp [bitSubtractor, h.xor, h.mul, h.not]

theorem additionCircuit_hom (h : IsHom A B f) (p : Path) (x : List α) : ∀ (i : Nat) (y : List α) (c : α),
    additionCircuit B p i (x.map f) (y.map f) (f c) =
      ((additionCircuit A p i x y c).1.map f, f (additionCircuit A p i x y c).2) := by
  induction x with
  | nil => intro i y c; simp [additionCircuit]
  | cons xb xs ih =>
    intro i y c
    simp only [List.map_cons, additionCircuit, headD_map h, bitAdder_hom h]
    rw [show (List.map f y).tail = List.map f y.tail by cases y <;> rfl, ih]

theorem subtractionCircuit_hom (h : IsHom A B f) (p : Path) (x : List α) : ∀ (i : Nat) (y : List α) (c : α),
    subtractionCircuit B p i (x.map f) (y.map f) (f c) =
      ((subtractionCircuit A p i x y c).1.map f, f (subtractionCircuit A p i x y c).2) := by
  induction x with
  | nil => intro i y c; simp [subtractionCircuit]
  | cons xb xs ih =>
    intro i y c
    simp only [List.map_cons, subtractionCircuit, headD_map h, bitSubtractor_hom h]
    rw [show (List.map f y).tail = List.map f y.tail by cases y <;> rfl, ih]

theorem boolOrAux_hom (h : IsHom A B f) (p : Path) (a : List α) : ∀ (i : Nat) (b : List α),
    boolOrAux B p i (a.map f) (b.map f) = (boolOrAux A p i a b).map f := by
  induction a with
  | nil => intro i b; cases b <;> simp [boolOrAux]
  | cons x xs ih =>
    intro i b
    cases b with
    | nil => simp [boolOrAux]
    | cons y ys => simp [boolOrAux, orGate, h.xor, h.mul, h.neg, ih]

theorem boolAndAux_hom (h : IsHom A B f) (p : Path) (a : List α) : ∀ (i : Nat) (b : List α),
    boolAndAux B p i (a.map f) (b.map f) = (boolAndAux A p i a b).map f := by
  induction a with
  | nil => intro i b; cases b <;> simp [boolAndAux]
  | cons x xs ih =>
    intro i b
    cases b with
    | nil => simp [boolAndAux]
    | cons y ys => simp [boolAndAux, h.mul, ih]

theorem selectAux_hom (h : IsHom A B f) (p : Path) (c : α) (t : List α) : ∀ (i : Nat) (e : List α),
    selectAux B p (f c) i (t.map f) (e.map f) = (selectAux A p c i t e).map f := by
  induction t with
  | nil => intro i e; cases e <;> simp [selectAux]
  | cons x xs ih =>
    intro i e
    cases e with
    | nil => simp [selectAux]
    | cons y ys => simp [selectAux, h.xor, h.mul, ih]

theorem integerAdd_hom (h : IsHom A B f) (p : Path) (x y : List α) :
    integerAdd B p (x.map f) (y.map f) = ((integerAdd A p x y).1.map f, f (integerAdd A p x y).2) := by
  unfold integerAdd; rw [← h.zero, additionCircuit_hom h]

theorem integerSatAdd_hom (h : IsHom A B f) (p : Path) (x y : List α) :
    integerSatAdd B p (x.map f) (y.map f) = (integerSatAdd A p x y).map f := by
  unfold integerSatAdd
  rw [← h.zero, additionCircuit_hom h]
  simp only [List.length_map]
  rw [← List.map_replicate, boolOrAux_hom h]

theorem integerSatSub_hom (h : IsHom A B f) (p : Path) (x y : List α) :
    integerSatSub B p (x.map f) (y.map f) = (integerSatSub A p x y).map f := by
  unfold integerSatSub select
  rw [← h.zero, ← h.not, subtractionCircuit_hom h]
  simp only [List.length_map]
  rw [← List.map_replicate, selectAux_hom h]

theorem compareGt_hom (h : IsHom A B f) (p : Path) (x y : List α) :
    compareGt B p (x.map f) (y.map f) = f (compareGt A p x y) := by
  unfold compareGt; rw [← h.zero, subtractionCircuit_hom h]

theorem compareGeq_hom (h : IsHom A B f) (p : Path) (x y : List α) :
    compareGeq B p (x.map f) (y.map f) = f (compareGeq A p x y) := by
  unfold compareGeq; rw [← h.one, subtractionCircuit_hom h]

theorem integerSub_hom (h : IsHom A B f) (p : Path) (x y : List α) :
    integerSub B p (x.map f) (y.map f) = (integerSub A p x y).map f := by
  unfold integerSub; rw [← h.one, subtractionCircuit_hom h]

theorem mulRow_hom (h : IsHom A B f) (p : Path) (yb : α) (x : List α) : ∀ j,
    mulRow B p (f yb) j (x.map f) = (mulRow A p yb j x).map f := by
  induction x with
  | nil => intro j; simp [mulRow]
  | cons a as ih => intro j; simp [mulRow, h.mul, ih]

theorem mulStep_hom (h : IsHom A B f) (p : Path) (x : List α) (newLen : Nat) (result : List α) (i : Nat) (yb : α) :
    mulStep B p (x.map f) newLen (result.map f) i (f yb) = (mulStep A p x newLen result i yb).map f := by
  unfold mulStep
  simp only [← List.map_take, ← List.map_drop, mulRow_hom h, integerAdd_hom h, ← List.map_append, List.length_map]
  split
  · rfl
  · split <;> simp

theorem mulLoop_hom (h : IsHom A B f) (p : Path) (x : List α) (newLen : Nat) (ys : List α) : ∀ (i : Nat) (result : List α),
    mulLoop B p (x.map f) newLen i (ys.map f) (result.map f) = (mulLoop A p x newLen i ys result).map f := by
  induction ys with
  | nil => intro i r; simp [mulLoop]
  | cons y ys ih => intro i r; simp only [List.map_cons, mulLoop, mulStep_hom h, ih]

theorem resizeLast_hom (y : List α) (len : Nat) (d : α) (hy : y ≠ []) (e : β) :
    resizeLast (y.map f) len e = (resizeLast y len d).map f := by
  unfold resizeLast
  have : (y.map f).getLastD e = f (y.getLastD d) := by
    induction y with
    | nil => exact absurd rfl hy
    | cons a as ih =>
      cases as with
      | nil => simp
      | cons b bs => simpa using ih (by simp)
  rw [this, List.map_append, List.map_take, List.map_replicate, List.length_map]

theorem integerMul_hom (h : IsHom A B f) (p : Path) (x y : List α) :
    integerMul B p (x.map f) (y.map f) = (integerMul A p x y).map (List.map f) := by
  unfold integerMul
  cases y with
  | nil => simp
  | cons a as =>
    simp only [List.map_cons, List.isEmpty_cons, Bool.false_eq_true, if_false, List.length_cons, List.length_map, Option.map_some]
    have := resizeLast_hom (f := f) (a :: as) (x.length + (as.length + 1)) A.zero (by simp) B.zero
    simp only [List.map_cons] at this
    rw [this]
    have := mulLoop_hom h p x (x.length + (as.length + 1)) (resizeLast (a :: as) (x.length + (as.length + 1)) A.zero) 0 []
    simpa using this

theorem aggPair_hom (h : IsHom A B f) (p : Path) (w : Nat) (a b : List α) :
    aggPair B p w (a.map f) (b.map f) = (aggPair A p w a b).map f := by
  unfold aggPair
  simp only [List.length_map, integerAdd_hom h, integerSatAdd_hom h]
  split <;> simp

theorem aggLevel_hom (h : IsHom A B f) (p : Path) (w : Nat) : ∀ (rows : List (List α)) (i : Nat),
    aggLevel B p w i (rows.map (List.map f)) = (aggLevel A p w i rows).map (List.map f)
  | [], i => by simp [aggLevel]
  | [a], i => by simp [aggLevel]
  | a :: b :: rest, i => by
    simp only [List.map_cons, aggLevel, aggPair_hom h, aggLevel_hom h p w rest (i + 1)]

theorem aggLoop_hom (h : IsHom A B f) (p : Path) (w : Nat) : ∀ (fuel depth : Nat) (rows : List (List α)),
    aggLoop B p w fuel depth (rows.map (List.map f)) = (aggLoop A p w fuel depth rows).map (List.map f) := by
  intro fuel
  induction fuel with
  | zero => intro d rows; simp [aggLoop]
  | succ fuel ih =>
    intro d rows
    simp only [aggLoop, List.length_map]
    split
    · rfl
    · rw [aggLevel_hom h, ih]

theorem aggregateValues_hom (h : IsHom A B f) (p : Path) (w : Nat) (rows : List (List α)) :
    aggregateValues B p w (rows.map (List.map f)) = (aggregateValues A p w rows).map f := by
  unfold aggregateValues resizeZero
  rw [List.length_map, aggLoop_hom h]
  generalize aggLoop A p w rows.length 0 rows = r
  cases r with
  | nil => simp [h.zero]
  | cons a as => simp [h.zero, List.map_take]

/-! ### the algebra of consistent replicated sharings and its two projections -/

/-- a consistent replicated sharing of one bit -/
abbrev CShare := {w : World Bool // Consistent w}

def cAlg (ρ : Path → Masks Bool) : SecureAlg CShare :=
  { zero := ⟨zeroS boolAlg, rfl, rfl, rfl⟩
    one := ⟨knownS boolAlg true, rfl, rfl, rfl⟩
    xor := fun a b => ⟨addS boolAlg a.1 b.1, map2_consistent _ _ _ a.2 b.2⟩
    not := fun a => ⟨notS a.1, map1_consistent _ _ a.2⟩
    neg := fun a => ⟨negS boolAlg a.1, map1_consistent _ _ a.2⟩
    mul := fun p a b => ⟨mulS boolAlg (ρ p) a.1 b.1, mul_consistent _ _ _ _⟩ }

/-- reconstruction of a Boolean sharing -/
def recB (w : World Bool) : Bool := reconstruct boolAlg w

theorem val_hom (ρ : Path → Masks Bool) : IsHom (cAlg ρ) (shareAlg ρ) Subtype.val :=
  ⟨rfl, rfl, fun _ _ => rfl, fun _ => rfl, fun _ => rfl, fun _ _ _ => rfl⟩

theorem rec_hom (ρ : Path → Masks Bool) : IsHom (cAlg ρ) plainAlg (fun s => recB s.1) := by
  refine ⟨rfl, rfl, ?_, ?_, ?_, ?_⟩
  · rintro ⟨⟨⟨a1, a2⟩, ⟨a3, a4⟩, ⟨a5, a6⟩⟩, _⟩ ⟨⟨⟨b1, b2⟩, ⟨b3, b4⟩, ⟨b5, b6⟩⟩, _⟩
    simp only [recB, reconstruct, cAlg, addS, map2, boolAlg, plainAlg]
    cases a1 <;> cases a3 <;> cases a5 <;> cases b1 <;> cases b3 <;> cases b5 <;> rfl
  · rintro ⟨⟨⟨a1, a2⟩, ⟨a3, a4⟩, ⟨a5, a6⟩⟩, _⟩
    simp only [recB, reconstruct, cAlg, notS, map1, boolAlg, plainAlg]
    cases a1 <;> cases a3 <;> cases a5 <;> rfl
  · rintro ⟨⟨⟨a1, a2⟩, ⟨a3, a4⟩, ⟨a5, a6⟩⟩, _⟩
    rfl
  · rintro p ⟨a, ha⟩ ⟨b, hb⟩
    exact mul_reconstruct_bool (ρ p) a b ha hb

/-- every element is a consistent sharing -/
def AllC (l : List (World Bool)) : Prop := ∀ w ∈ l, Consistent w

theorem allC_map_val (l : List CShare) : AllC (l.map Subtype.val) := by
  intro w hw
  obtain ⟨s, _, rfl⟩ := List.mem_map.mp hw
  exact s.2

theorem lift_list (l : List (World Bool)) (h : AllC l) : ∃ l' : List CShare, l'.map Subtype.val = l := by
  induction l with
  | nil => exact ⟨[], rfl⟩
  | cons a as ih =>
    obtain ⟨l', hl⟩ := ih (fun w hw => h w (List.mem_cons_of_mem _ hw))
    exact ⟨⟨a, h a (List.mem_cons_self)⟩ :: l', by simp [hl]⟩

theorem map_rec_val (l : List CShare) : (l.map Subtype.val).map recB = l.map (fun s => recB s.1) := by
  simp [List.map_map, Function.comp_def]

/-! ### the lifting lemma, circuit by circuit:
`reconstruct ∘ circuit_on_shares = circuit_plain ∘ reconstruct`, and the outputs are consistent sharings —
for ALL PRSS masks `ρ`, all lengths. -/

theorem add_shares (ρ : Path → Masks Bool) (p : Path) (x y : List (World Bool)) (hx : AllC x) (hy : AllC y) :
    AllC (integerAdd (shareAlg ρ) p x y).1 ∧ Consistent (integerAdd (shareAlg ρ) p x y).2 ∧
    (integerAdd (shareAlg ρ) p x y).1.map recB = (integerAdd plainAlg p (x.map recB) (y.map recB)).1 ∧
    recB (integerAdd (shareAlg ρ) p x y).2 = (integerAdd plainAlg p (x.map recB) (y.map recB)).2 := by
  obtain ⟨x', rfl⟩ := lift_list x hx
  obtain ⟨y', rfl⟩ := lift_list y hy
  rw [integerAdd_hom (val_hom ρ)]; simp only [map_rec_val]; rw [integerAdd_hom (rec_hom ρ)]
  exact ⟨allC_map_val _, (integerAdd (cAlg ρ) p x' y').2.2, by simp, rfl⟩

theorem sat_add_shares (ρ : Path → Masks Bool) (p : Path) (x y : List (World Bool)) (hx : AllC x) (hy : AllC y) :
    AllC (integerSatAdd (shareAlg ρ) p x y) ∧
    (integerSatAdd (shareAlg ρ) p x y).map recB = integerSatAdd plainAlg p (x.map recB) (y.map recB) := by
  obtain ⟨x', rfl⟩ := lift_list x hx
  obtain ⟨y', rfl⟩ := lift_list y hy
  rw [integerSatAdd_hom (val_hom ρ)]; simp only [map_rec_val]; rw [integerSatAdd_hom (rec_hom ρ)]
  exact ⟨allC_map_val _, by simp⟩

theorem sub_shares (ρ : Path → Masks Bool) (p : Path) (x y : List (World Bool)) (hx : AllC x) (hy : AllC y) :
    AllC (integerSub (shareAlg ρ) p x y) ∧
    (integerSub (shareAlg ρ) p x y).map recB = integerSub plainAlg p (x.map recB) (y.map recB) := by
  obtain ⟨x', rfl⟩ := lift_list x hx
  obtain ⟨y', rfl⟩ := lift_list y hy
  rw [integerSub_hom (val_hom ρ)]; simp only [map_rec_val]; rw [integerSub_hom (rec_hom ρ)]
  exact ⟨allC_map_val _, by simp⟩

theorem sat_sub_shares (ρ : Path → Masks Bool) (p : Path) (x y : List (World Bool)) (hx : AllC x) (hy : AllC y) :
    AllC (integerSatSub (shareAlg ρ) p x y) ∧
    (integerSatSub (shareAlg ρ) p x y).map recB = integerSatSub plainAlg p (x.map recB) (y.map recB) := by
  obtain ⟨x', rfl⟩ := lift_list x hx
  obtain ⟨y', rfl⟩ := lift_list y hy
  rw [integerSatSub_hom (val_hom ρ)]; simp only [map_rec_val]; rw [integerSatSub_hom (rec_hom ρ)]
  exact ⟨allC_map_val _, by simp⟩

theorem gt_shares (ρ : Path → Masks Bool) (p : Path) (x y : List (World Bool)) (hx : AllC x) (hy : AllC y) :
    Consistent (compareGt (shareAlg ρ) p x y) ∧
    recB (compareGt (shareAlg ρ) p x y) = compareGt plainAlg p (x.map recB) (y.map recB) := by
  obtain ⟨x', rfl⟩ := lift_list x hx
  obtain ⟨y', rfl⟩ := lift_list y hy
  rw [compareGt_hom (val_hom ρ)]; simp only [map_rec_val]; rw [compareGt_hom (rec_hom ρ)]
  exact ⟨(compareGt (cAlg ρ) p x' y').2, rfl⟩

theorem geq_shares (ρ : Path → Masks Bool) (p : Path) (x y : List (World Bool)) (hx : AllC x) (hy : AllC y) :
    Consistent (compareGeq (shareAlg ρ) p x y) ∧
    recB (compareGeq (shareAlg ρ) p x y) = compareGeq plainAlg p (x.map recB) (y.map recB) := by
  obtain ⟨x', rfl⟩ := lift_list x hx
  obtain ⟨y', rfl⟩ := lift_list y hy
  rw [compareGeq_hom (val_hom ρ)]; simp only [map_rec_val]; rw [compareGeq_hom (rec_hom ρ)]
  exact ⟨(compareGeq (cAlg ρ) p x' y').2, rfl⟩

theorem select_shares (ρ : Path → Masks Bool) (p : Path) (c : World Bool) (t e : List (World Bool))
    (hc : Consistent c) (ht : AllC t) (he : AllC e) :
    AllC (select (shareAlg ρ) p c t e) ∧
    (select (shareAlg ρ) p c t e).map recB = select plainAlg p (recB c) (t.map recB) (e.map recB) := by
  obtain ⟨t', rfl⟩ := lift_list t ht
  obtain ⟨e', rfl⟩ := lift_list e he
  unfold select
  have h1 := selectAux_hom (val_hom ρ) p ⟨c, hc⟩ t' 0 e'
  have h2 := selectAux_hom (rec_hom ρ) p ⟨c, hc⟩ t' 0 e'
  simp only at h1 h2
  rw [h1]; simp only [map_rec_val]; rw [h2]
  exact ⟨allC_map_val _, by simp⟩

theorem or_shares (ρ : Path → Masks Bool) (p : Path) (a b : List (World Bool)) (ha : AllC a) (hb : AllC b) :
    AllC (boolOrAux (shareAlg ρ) p 0 a b) ∧
    (boolOrAux (shareAlg ρ) p 0 a b).map recB = boolOrAux plainAlg p 0 (a.map recB) (b.map recB) := by
  obtain ⟨a', rfl⟩ := lift_list a ha
  obtain ⟨b', rfl⟩ := lift_list b hb
  rw [boolOrAux_hom (val_hom ρ)]; simp only [map_rec_val]; rw [boolOrAux_hom (rec_hom ρ)]
  exact ⟨allC_map_val _, by simp⟩

theorem mul_shares (ρ : Path → Masks Bool) (p : Path) (x y : List (World Bool)) (hx : AllC x) (hy : AllC y) :
    (∀ r, integerMul (shareAlg ρ) p x y = some r → AllC r) ∧
    (integerMul (shareAlg ρ) p x y).map (List.map recB) = integerMul plainAlg p (x.map recB) (y.map recB) := by
  obtain ⟨x', rfl⟩ := lift_list x hx
  obtain ⟨y', rfl⟩ := lift_list y hy
  rw [integerMul_hom (val_hom ρ)]; simp only [map_rec_val]; rw [integerMul_hom (rec_hom ρ)]
  refine ⟨?_, ?_⟩
  · intro r hr
    cases hm : integerMul (cAlg ρ) p x' y' with
    | none => rw [hm] at hr; cases hr
    | some r' => rw [hm] at hr; cases hr; exact allC_map_val _
  · cases integerMul (cAlg ρ) p x' y' <;> simp [List.map_map, Function.comp_def]

theorem lift_rows (rows : List (List (World Bool))) (h : ∀ r ∈ rows, AllC r) :
    ∃ rows' : List (List CShare), rows'.map (List.map Subtype.val) = rows := by
  induction rows with
  | nil => exact ⟨[], rfl⟩
  | cons a as ih =>
    obtain ⟨l', hl⟩ := ih (fun w hw => h w (List.mem_cons_of_mem _ hw))
    obtain ⟨a', ha⟩ := lift_list a (h a List.mem_cons_self)
    exact ⟨a' :: l', by simp [hl, ha]⟩

theorem agg_shares (ρ : Path → Masks Bool) (p : Path) (w : Nat) (rows : List (List (World Bool)))
    (h : ∀ r ∈ rows, AllC r) :
    AllC (aggregateValues (shareAlg ρ) p w rows) ∧
    (aggregateValues (shareAlg ρ) p w rows).map recB = aggregateValues plainAlg p w (rows.map (List.map recB)) := by
  obtain ⟨rows', rfl⟩ := lift_rows rows h
  rw [aggregateValues_hom (val_hom ρ)]
  have : (rows'.map (List.map Subtype.val)).map (List.map recB) = rows'.map (List.map (fun s : CShare => recB s.1)) := by
    simp [List.map_map, Function.comp_def]
  rw [this, aggregateValues_hom (rec_hom ρ)]
  exact ⟨allC_map_val _, by simp⟩

/-- example of the composition with the plaintext value theorems: the shares produced by `integer_sat_add`
reconstruct to `min(x + (y mod 2^n), 2^n − 1)` and are consistent — any masks, any lengths. -/
theorem sat_add_shares_value (ρ : Path → Masks Bool) (p : Path) (x y : List (World Bool)) (hx : AllC x) (hy : AllC y) :
    AllC (integerSatAdd (shareAlg ρ) p x y) ∧
    val ((integerSatAdd (shareAlg ρ) p x y).map recB)
      = min (val (x.map recB) + val (y.map recB) % 2 ^ x.length) (2 ^ x.length - 1) := by
  obtain ⟨h1, h2⟩ := sat_add_shares ρ p x y hx hy
  refine ⟨h1, ?_⟩
  rw [h2, sat_add_value]; simp

example : AllC [zeroS boolAlg, knownS boolAlg true] := by
  intro w hw; simp at hw; rcases hw with rfl | rfl <;> exact ⟨rfl, rfl, rfl⟩

end IpaVerif.C07
