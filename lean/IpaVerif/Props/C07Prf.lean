import Mathlib.Algebra.Module.Basic
import Mathlib.Algebra.Field.Basic
import Mathlib.Data.ZMod.Basic
import Mathlib.Tactic.Ring
import IpaVerif.Props.C07Shares
namespace IpaVerif.C07
open IpaVerif

/-- **prf_value** — `eval_dy_prf`: in any module `M` over a field `K` (Ristretto points over `ZMod ℓ`, by hypothesis),
for a mask `r ≠ 0` and `x + k ≠ 0`: revealing `R = r • G` and `z = r·(x+k)` and computing `z⁻¹ • R` yields
`(x+k)⁻¹ • G` — the Dodis–Yampolskiy value, independent of the mask. -/
theorem prf_value {K M : Type} [Field K] [AddCommGroup M] [Module K M] (G : M) (r x k : K)
    (hr : r ≠ 0) (_hxk : x + k ≠ 0) :
    (r * (x + k))⁻¹ • (r • G) = (x + k)⁻¹ • G := by
  rw [smul_smul, mul_inv, mul_comm r⁻¹, mul_assoc, inv_mul_cancel₀ hr, mul_one]

/-- non-vacuity: `ZMod 7` acting on itself, `r = 3`, `x + k = 5`. -/
example : ((3 : ZMod 7) ≠ 0) ∧ ((2 : ZMod 7) + 3 ≠ 0) := by decide

/-- the masked product the helpers open is `r·(x+k)` for ANY sharing of `x`, `k`, `r` (ring identity; the
multiplication itself is `mul_reconstruct`). -/
theorem prf_masked_product {K : Type} [Field K] (x1 x2 x3 k1 k2 k3 r : K) :
    ((x1 + k1) + (x2 + k2) + (x3 + k3)) * r = r * ((x1 + x2 + x3) + (k1 + k2 + k3)) := by ring

/-- `eval_dy_prf` on the three helpers' views, over any field `K` acting on any module `M` (Ristretto points over
`ZMod ℓ` by hypothesis): `y = x + k` (local), `z = reveal (y · r)` (one interactive multiplication with PRSS
masks `ρ`), `R = reveal (r_left • G)` (the three left components added as points), output `z⁻¹ • R`. -/
noncomputable def evalDyPrf {K M : Type} [Field K] [AddCommGroup M] [Module K M]
    (ρ : Sharing.Masks K) (G : M) (x k r : Sharing.World K) : M :=
  let y := Sharing.addS (ringAlg K) x k
  let z := Sharing.reconstruct (ringAlg K) (Sharing.mulS (ringAlg K) ρ y r)
  let gr := r.h1.l • G + r.h2.l • G + r.h3.l • G
  z⁻¹ • gr

/-- **prf_protocol_value** — for consistent sharings of the match key `x`, the PRF key `k` and the mask `r`, ANY
multiplication masks, `r ≠ 0` and `x + k ≠ 0`: the value every helper computes is `(x + k)⁻¹ • G`. -/
theorem prf_protocol_value {K M : Type} [Field K] [AddCommGroup M] [Module K M]
    (ρ : Sharing.Masks K) (G : M) (x k r : Sharing.World K)
    (hx : Sharing.Consistent x) (hk : Sharing.Consistent k) (hr : Sharing.Consistent r)
    (hr0 : Sharing.reconstruct (ringAlg K) r ≠ 0)
    (hxk : Sharing.reconstruct (ringAlg K) x + Sharing.reconstruct (ringAlg K) k ≠ 0) :
    evalDyPrf ρ G x k r
      = (Sharing.reconstruct (ringAlg K) x + Sharing.reconstruct (ringAlg K) k)⁻¹ • G := by
  unfold evalDyPrf
  simp only
  have hc : Sharing.Consistent (Sharing.addS (ringAlg K) x k) := map2_consistent _ x k hx hk
  rw [mul_reconstruct ρ _ r hc hr, add_reconstruct, ← add_smul, ← add_smul]
  have : r.h1.l + r.h2.l + r.h3.l = Sharing.reconstruct (ringAlg K) r := rfl
  rw [this, mul_comm]
  exact prf_value G _ _ _ hr0 hxk

/-- **prf_injective** — if `G` has full order (`a • G = 0 → a = 0`, true for the Ristretto base point over
`ZMod ℓ`), distinct match keys give distinct points and equal match keys equal points: the pseudonym (before the
final hash) identifies the match key exactly. -/
theorem prf_injective {K M : Type} [Field K] [AddCommGroup M] [Module K M] (G : M)
    (hG : ∀ a : K, a • G = 0 → a = 0) (x x' k : K) (h : x + k ≠ 0) (h' : x' + k ≠ 0) :
    (x + k)⁻¹ • G = (x' + k)⁻¹ • G ↔ x = x' := by
  constructor
  · intro he
    have h0 : ((x + k)⁻¹ - (x' + k)⁻¹) • G = 0 := by rw [sub_smul, he, sub_self]
    have := sub_eq_zero.mp (hG _ h0)
    have := inv_injective this
    exact add_right_cancel this
  · rintro rfl; rfl

example : ∀ a : ZMod 7, a • (1 : ZMod 7) = 0 → a = 0 := by decide

/-- `convert_to_fp25519`: the full statement is `conv_value` in `IpaVerif.Props.C07Conv`; this is its ring-level core:
the output shares `(−s, y, −r)` sum to `x` in any ring the integers map into (`Fp25519 = ZMod ℓ`). -/
theorem conv_shares_sum {R : Type} [CommRing R] (x r s : Nat) :
    (-(s : R)) + ((x + r + s : Nat) : R) + (-(r : R)) = (x : R) := by
  push_cast; ring

/-- the share pattern of the output is consistent: H1 `(−s, y)`, H2 `(y, −r)`, H3 `(−r, −s)`. -/
theorem conv_shares_consistent {R : Type} (ms y mr : R) :
    let h1 := (ms, y); let h2 := (y, mr); let h3 := (mr, ms)
    h1.2 = h2.1 ∧ h2.2 = h3.1 ∧ h3.2 = h1.1 := ⟨rfl, rfl, rfl⟩

end IpaVerif.C07
