import Mathlib.Algebra.Module.Basic
import Mathlib.Algebra.Field.Basic
import Mathlib.Data.ZMod.Basic
import Mathlib.Tactic.Ring
namespace IpaVerif.C07

/-- **prf_value** — `eval_dy_prf`: in any module `M` over a field `K` (Ristretto points over `ZMod ℓ`, by hypothesis),
for a mask `r ≠ 0` and `x + k ≠ 0`: revealing `R = r • G` and `z = r·(x+k)` and computing `z⁻¹ • R` yields
`(x+k)⁻¹ • G` — the Dodis–Yampolskiy value, independent of the mask. -/
theorem prf_value {K M : Type} [Field K] [AddCommGroup M] [Module K M] (G : M) (r x k : K)
    (hr : r ≠ 0) (_hxk : x + k ≠ 0) :
    (r * (x + k))⁻¹ • (r • G) = (x + k)⁻¹ • G := by
  rw [smul_smul, mul_inv, mul_comm r⁻¹, mul_assoc, inv_mul_cancel₀ hr, mul_one]

/-- non-vacuity: `ZMod 7` acting on itself, `r = 3`, `x + k = 5`. -/
example : ((3 : ZMod 7) ≠ 0) ∧ ((2 : ZMod 7) + 3 ≠ 0) := by decide

/-- the masked product the helpers open is `r·(x+k)` for ANY sharing of `x`, `k`, `r` (ring identity; the
multiplication itself is `mul_reconstruct`). -/
theorem prf_masked_product {K : Type} [Field K] (x1 x2 x3 k1 k2 k3 r : K) :
    ((x1 + k1) + (x2 + k2) + (x3 + k3)) * r = r * ((x1 + x2 + x3) + (k1 + k2 + k3)) := by ring

/-- `convert_to_fp25519`: the full statement is `conv_value` in `IpaVerif.Props.C07Conv`; this is its ring-level core:
the output shares `(−s, y, −r)` sum to `x` in any ring the integers map into (`Fp25519 = ZMod ℓ`). -/
theorem conv_shares_sum {R : Type} [CommRing R] (x r s : Nat) :
    (-(s : R)) + ((x + r + s : Nat) : R) + (-(r : R)) = (x : R) := by
  push_cast; ring

/-- the share pattern of the output is consistent: H1 `(−s, y)`, H2 `(y, −r)`, H3 `(−r, −s)`. -/
theorem conv_shares_consistent {R : Type} (ms y mr : R) :
    let h1 := (ms, y); let h2 := (y, mr); let h3 := (mr, ms)
    h1.2 = h2.1 ∧ h2.2 = h3.1 ∧ h3.2 = h1.1 := ⟨rfl, rfl, rfl⟩

end IpaVerif.C07
