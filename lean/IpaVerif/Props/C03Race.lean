import IpaVerif.Props.C03Order
import IpaVerif.Model.DzkpAtomic
/-!
# C03 — "honest batches are accepted" when the multiplications of a batch report CONCURRENTLY

`DZKPUpgraded::push` extends the proof batch of the record under ONE acquisition of the batcher mutex
(`Model/DzkpAtomic.lean`, tied to the sources by `Generated/DzkpAtomic.lean`, items `dzkp.atomic.*`). For every number of
calls, all gates / records / segments and EVERY interleaving of the calls on a helper:

* `concurrent_push_eq_sequential` — every schedule in which each call is scheduled at least once (any order, repetitions and
  foreign ids allowed) ends without an assertion failure, every call has returned, and for every batch and gate the stored
  table is the table of the IN-ORDER single-threaded run `pushAll [op 0, …, op (k-1)]` — the table all other C03 theorems
  (`honest_accept`, the soundness statements) speak about;
* `code_push_is_atomic`, `concurrent_push_code` — the same for `push` AS THE CODE HAS IT (`codeStep` is selected by the generated
  constants);
* `split_push_loses_record` (`decide`) — with fetch and store under separate lock acquisitions two concurrent pushes of two
  records of one batch lose one record's segment (the table then differs from what the other two helpers hold, and the honest
  batch is rejected), although run back to back the split variant is indistinguishable from the atomic one: single-threaded
  suites (`c03_order`, `c03_vstore`) cannot see the difference, suite `c03_race` uses real OS threads.
-/
namespace IpaVerif.C03Race
open IpaVerif.DzkpStore IpaVerif.DzkpValidator IpaVerif.DzkpAtomic IpaVerif.Generated.DzkpValidator IpaVerif.C03Order

/-- the atomic run, seen through its tables, is the single-threaded run of the effective order -/
theorem run_atomic (k : Nat) (opOf : Nat → DzkpAtomic.Op) : ∀ (sched : List Nat) (s : State) (t' : Tables),
    s.t.pushAll ((eff k s.done sched).map opOf) = .ok t' →
    ∃ s', run (atomicStep k opOf) s sched = .ok s' ∧ s'.t = t' ∧ s'.done = (eff k s.done sched).reverse ++ s.done := by
  intro sched
  induction sched with
  | nil =>
    intro s t' h
    simp only [eff, List.map_nil, Tables.pushAll, Outcome.ok.injEq] at h
    exact ⟨s, rfl, h, by simp [eff]⟩
  | cons c rest ih =>
    intro s t' h
    by_cases hc : (s.done.contains c || decide (k ≤ c)) = true
    · have he : eff k s.done (c :: rest) = eff k s.done rest := by simp only [eff, hc, if_true]
      rw [he] at h ⊢
      have hs : atomicStep k opOf s c = .ok s := by simp only [atomicStep, hc, if_true]
      simp only [run, hs]
      exact ih s t' h
    · have he : eff k s.done (c :: rest) = c :: eff k (c :: s.done) rest := by simp only [eff, hc]; rfl
      rw [he] at h ⊢
      rcases hop : opOf c with ⟨g, r, sg⟩
      simp only [List.map_cons, hop, Tables.pushAll] at h
      cases hp : s.t.push g r sg with
      | panic m => rw [hp] at h; exact absurd h (by simp)
      | ok t1 =>
        rw [hp] at h
        have hs : atomicStep k opOf s c = .ok { s with t := t1, done := c :: s.done } := by
          simp only [atomicStep, hc, hop, hp]; rfl
        simp only [run, hs]
        obtain ⟨s', e1, e2, e3⟩ := ih { s with t := t1, done := c :: s.done } t' h
        exact ⟨s', e1, e2, by rw [e3]; simp⟩

theorem eff_props (k : Nat) : ∀ (sched done : List Nat),
    (eff k done sched).Nodup ∧ ∀ c ∈ eff k done sched, c ∉ done ∧ c < k ∧ c ∈ sched := by
  intro sched
  induction sched with
  | nil => intro done; simp [eff]
  | cons a rest ih =>
    intro done
    by_cases hc : (done.contains a || decide (k ≤ a)) = true
    · have he : eff k done (a :: rest) = eff k done rest := by simp only [eff, hc, if_true]
      rw [he]
      obtain ⟨n, m⟩ := ih done
      exact ⟨n, fun c h => ⟨(m c h).1, (m c h).2.1, List.mem_cons_of_mem _ (m c h).2.2⟩⟩
    · have he : eff k done (a :: rest) = a :: eff k (a :: done) rest := by simp only [eff, hc]; rfl
      rw [he]
      obtain ⟨n, m⟩ := ih (a :: done)
      have hc' : a ∉ done ∧ a < k := by
        simp only [Bool.or_eq_true, List.contains_eq_mem, decide_eq_true_eq, not_or] at hc
        exact ⟨by simpa using hc.1, by omega⟩
      refine ⟨List.nodup_cons.mpr ⟨fun h => (m a h).1 List.mem_cons_self, n⟩, ?_⟩
      intro c h
      rcases List.mem_cons.mp h with h | h
      · subst h; exact ⟨hc'.1, hc'.2, List.mem_cons_self⟩
      · exact ⟨fun x => (m c h).1 (List.mem_cons_of_mem _ x), (m c h).2.1, List.mem_cons_of_mem _ (m c h).2.2⟩

theorem eff_mem (k : Nat) : ∀ (sched done : List Nat) (c : Nat), c ∈ sched → c < k → c ∉ done → c ∈ eff k done sched := by
  intro sched
  induction sched with
  | nil => intro done c h; simp at h
  | cons a rest ih =>
    intro done c hm hk hd
    by_cases hc : (done.contains a || decide (k ≤ a)) = true
    · have he : eff k done (a :: rest) = eff k done rest := by simp only [eff, hc, if_true]
      rw [he]
      have hne : c ≠ a := by
        intro e; subst e
        simp only [Bool.or_eq_true, List.contains_eq_mem, decide_eq_true_eq] at hc
        rcases hc with h | h
        · exact hd (by simpa using h)
        · omega
      rcases List.mem_cons.mp hm with h | h
      · exact absurd h hne
      · exact ih done c h hk hd
    · have he : eff k done (a :: rest) = a :: eff k (a :: done) rest := by simp only [eff, hc]; rfl
      rw [he]
      by_cases e : c = a
      · subst e; exact List.mem_cons_self
      · rcases List.mem_cons.mp hm with h | h
        · exact absurd h e
        · exact List.mem_cons_of_mem _ (ih (a :: done) c h hk (fun x => by
            rcases List.mem_cons.mp x with y | y
            · exact e y
            · exact hd y))

theorem eff_perm_range (k : Nat) (sched : List Nat) (hall : ∀ i < k, i ∈ sched) : (List.range k).Perm (eff k [] sched) := by
  obtain ⟨n, m⟩ := eff_props k sched []
  refine (List.perm_ext_iff_of_nodup List.nodup_range n).mpr (fun a => ⟨fun h => ?_, fun h => ?_⟩)
  · have hk : a < k := List.mem_range.mp h
    exact eff_mem k sched [] a (hall a hk) hk (by simp)
  · exact List.mem_range.mpr (m a h).2.1

/-- **concurrent_push_eq_sequential.** One helper, a validator for batches of `rpb` records (`rpb ≠ usize::MAX`: every
`validate_record`-style validator), `k` concurrent `push` calls — call `i` pushes `opOf i = (gate, record, segment)`, one call
per (gate, record), the segments of a gate of one supported width, any number of batches and gates — and EVERY schedule of
their atomic steps in which each call is scheduled at least once: no assertion fires, every call returns, and for every
batch and gate the stored table is the one of the single-threaded in-order run. -/
theorem concurrent_push_eq_sequential (rpb : Nat) (hpos : 0 < rpb) (hmax : rpb ≠ usizeMax) (w : String → Nat)
    (k : Nat) (opOf : Nat → DzkpAtomic.Op)
    (hw : ∀ i < k, (opOf i).2.2.width = w (opOf i).1 ∧ segmentOk (opOf i).2.2 = true)
    (hone : ∀ i < k, ∀ j < k, i ≠ j → ¬ ((opOf i).1 = (opOf j).1 ∧ (opOf i).2.1 = (opOf j).2.1))
    (sched : List Nat) (hall : ∀ i < k, i ∈ sched) :
    ∃ s tseq, run (atomicStep k opOf) (init (Tables.new rpb)) sched = .ok s ∧
      (Tables.new rpb).pushAll ((List.range k).map opOf) = .ok tseq ∧
      (∀ b g, s.t.store b g = tseq.store b g) ∧ (∀ i < k, i ∈ s.done) ∧ s.fetched = [] := by
  have hp := (eff_perm_range k sched hall).map opOf
  have hw' : ∀ op ∈ (List.range k).map opOf, op.2.2.width = w op.1 ∧ segmentOk op.2.2 = true := by
    intro op h
    obtain ⟨i, hi, e⟩ := List.mem_map.mp h
    subst e
    exact hw i (List.mem_range.mp hi)
  have hone' : ((List.range k).map opOf).Pairwise fun x y => ¬ (x.1 = y.1 ∧ x.2.1 = y.2.1) := by
    rw [List.pairwise_map]
    exact List.Pairwise.imp_of_mem (fun {a b} ha hb hne => hone a (List.mem_range.mp ha) b (List.mem_range.mp hb) hne)
      (List.nodup_range (n := k))
  obtain ⟨t₁, t₂, h1, h2, hs⟩ := push_order_irrelevant rpb hpos hmax w _ _ hp hw' hone'
  obtain ⟨s', e1, e2, e3⟩ := run_atomic k opOf sched (init (Tables.new rpb)) t₂ h2
  refine ⟨s', t₁, e1, h1, fun b g => by rw [e2]; exact (hs b g).symm, ?_, ?_⟩
  · intro i hi
    rw [e3]
    exact List.mem_append_left _ (List.mem_reverse.mpr (eff_mem k sched [] i (hall i hi) hi (by simp)))
  · -- the atomic step never touches `fetched`
    have : ∀ (sched : List Nat) (s s' : State), run (atomicStep k opOf) s sched = .ok s' → s'.fetched = s.fetched := by
      intro sched
      induction sched with
      | nil => intro s s' h; simp only [run, Outcome.ok.injEq] at h; rw [← h]
      | cons c rest ih =>
        intro s s' h
        simp only [run] at h
        cases hc : atomicStep k opOf s c with
        | panic m => rw [hc] at h; exact absurd h (by simp)
        | ok s1 =>
          rw [hc] at h
          have h1 : s1.fetched = s.fetched := by
            unfold atomicStep at hc
            split at hc
            · injection hc with hc; rw [← hc]
            · split at hc
              · injection hc with hc; rw [← hc]
              · exact absurd hc (by simp)
          rw [ih s1 s' h, h1]
    exact this sched _ _ e1

/-- the hypotheses are satisfiable in a non-trivial way: two gates of different widths, two batches of two records, every
call scheduled (some twice), a foreign id in the schedule. -/
example :
    let s3 : Segment := { width := 3, xl := 5, xr := 1, yl := 7, yr := 0, pl := 2, pr := 3, zr := 6 }
    let s256 : Segment := { width := 256, xl := 2 ^ 255 + 1, xr := 1, yl := 7, yr := 0, pl := 2, pr := 3, zr := 6 }
    let opOf : Nat → DzkpAtomic.Op := fun i => (if i % 2 = 0 then "a" else "b", i / 2, if i % 2 = 0 then s3 else s256)
    let w : String → Nat := fun g => if g = "a" then 3 else 256
    (∀ i < 8, (opOf i).2.2.width = w (opOf i).1 ∧ segmentOk (opOf i).2.2 = true) ∧
    (∀ i < 8, ∀ j < 8, i ≠ j → ¬ ((opOf i).1 = (opOf j).1 ∧ (opOf i).2.1 = (opOf j).2.1)) ∧
    (∀ i < 8, i ∈ [7, 3, 3, 9, 0, 6, 1, 5, 2, 4, 7]) ∧ (2 : Nat) ≠ usizeMax := by
  refine ⟨by decide, by decide, by decide, by decide⟩

/-- **the code's `push` is the atomic step** (generated constants: one `with_batch`, nothing copied out, nothing stored back,
one lock, closure under the guard, in-place update). -/
theorem code_push_is_atomic : codeIsAtomic = true := by decide

/-- `concurrent_push_eq_sequential` for `DZKPUpgraded::push` as the code has it. -/
theorem concurrent_push_code (rpb : Nat) (hpos : 0 < rpb) (hmax : rpb ≠ usizeMax) (w : String → Nat)
    (k : Nat) (opOf : Nat → DzkpAtomic.Op)
    (hw : ∀ i < k, (opOf i).2.2.width = w (opOf i).1 ∧ segmentOk (opOf i).2.2 = true)
    (hone : ∀ i < k, ∀ j < k, i ≠ j → ¬ ((opOf i).1 = (opOf j).1 ∧ (opOf i).2.1 = (opOf j).2.1))
    (sched : List Nat) (hall : ∀ i < k, i ∈ sched) :
    ∃ s tseq, run (codeStep k opOf) (init (Tables.new rpb)) sched = .ok s ∧
      (Tables.new rpb).pushAll ((List.range k).map opOf) = .ok tseq ∧
      (∀ b g, s.t.store b g = tseq.store b g) ∧ (∀ i < k, i ∈ s.done) ∧ s.fetched = [] := by
  have : codeStep k opOf = atomicStep k opOf := by simp [codeStep, code_push_is_atomic]
  rw [this]
  exact concurrent_push_eq_sequential rpb hpos hmax w k opOf hw hone sched hall

/-- bit `n` of the `x_left` column stored for (batch, gate); `false` if the run panicked or nothing is stored -/
def xlBit (o : Outcome State) (b : Nat) (g : String) (n : Nat) : Bool :=
  match o with
  | .ok s => ((s.t.store b g).map fun st => storeBit st.vec (·.xl) n).getD false
  | .panic _ => false

/-- the run ended without a panic, two calls have returned, nobody holds a private copy any more -/
def bothReturned (o : Outcome State) : Bool :=
  match o with
  | .ok s => s.done.length == 2 && s.fetched.length == 0
  | .panic _ => false

/-- **split_push_loses_record.** Batches of two records, one gate, one-bit segments with `x_left = 1`; call `i` pushes
record `i`. Fetch and store under separate lock acquisitions, schedule fetch₀ fetch₁ store₀ store₁: both calls return, but
record 0's bit is gone from the table (call 1 stored back a copy taken before call 0's push). The atomic step keeps both
bits under the same schedule; and run back to back (`[0,0,1,1]`) the split variant keeps both as well — sequentially the
two are indistinguishable. -/
theorem split_push_loses_record :
    let opOf : Nat → DzkpAtomic.Op := fun i => ("g", i, seg1 1)
    let split := run (splitStep 2 opOf) (init (Tables.new 2)) [0, 1, 0, 1]
    let atomic := run (atomicStep 2 opOf) (init (Tables.new 2)) [0, 1, 0, 1]
    let splitSeq := run (splitStep 2 opOf) (init (Tables.new 2)) [0, 0, 1, 1]
    (xlBit split 0 "g" 0 = false ∧ xlBit split 0 "g" 1 = true) ∧
    (xlBit atomic 0 "g" 0 = true ∧ xlBit atomic 0 "g" 1 = true) ∧
    (xlBit splitSeq 0 "g" 0 = true ∧ xlBit splitSeq 0 "g" 1 = true) ∧
    bothReturned split = true := by
  decide +kernel

end IpaVerif.C03Race
