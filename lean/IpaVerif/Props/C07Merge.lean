import IpaVerif.Props.C07
/-!
# C07 — cross-shard histogram merge (`protocol/basics/shard_fin.rs`, `Histogram::merge`)

The leader folds the per-shard histograms with `integer_sat_add` per bucket, in shard order. `merge_value`: for every number of
shards and all per-shard values, the folded bucket is `min(Σ vᵢ mod 2^w, 2^w − 1)` — saturating, independent of where in the fold
the overflow happens. Suite request `c07.merge` runs the real `FinalizerContext::finalize` against this fold (`Driver/C07.lean: mergeOp`).
-/
namespace IpaVerif.C07
open IpaVerif.Circuits

theorem bitsOf_length' : ∀ (w v : Nat), (bitsOf w v).length = w := by
  intro w; induction w with
  | zero => intro v; rfl
  | succ w ih => intro v; simp [bitsOf, ih]

theorem val_bitsOf' : ∀ (w v : Nat), val (bitsOf w v) = v % 2 ^ w := by
  intro w; induction w with
  | zero => intro v; simp [bitsOf, val, Nat.mod_one]
  | succ w ih =>
    intro v
    have hb : (v % 2 == 1).toNat = v % 2 := by
      rcases Nat.mod_two_eq_zero_or_one v with h | h <;> simp [h]
    simp only [bitsOf, val, ih, hb]
    rw [Nat.pow_succ, Nat.mul_comm (2 ^ w) 2, Nat.mod_mul]

/-- one merge step on values -/
def mergeStep (w acc x : Nat) : Nat := val (integerSatAdd plainAlg [] (bitsOf w acc) (bitsOf w x))

theorem mergeStep_value (w acc x : Nat) (h : acc < 2 ^ w) : mergeStep w acc x = min (acc + x % 2 ^ w) (2 ^ w - 1) := by
  unfold mergeStep
  rw [sat_add_value, bitsOf_length', val_bitsOf', val_bitsOf', Nat.mod_eq_of_lt h, Nat.mod_mod]

/-- **merge_value.** -/
theorem merge_value (w : Nat) : ∀ (rest : List Nat) (v : Nat), v < 2 ^ w →
    rest.foldl (mergeStep w) v = min (v + (rest.map (· % 2 ^ w)).sum) (2 ^ w - 1) := by
  intro rest
  induction rest with
  | nil => intro v h; simp; omega
  | cons x rest ih =>
    intro v h
    have hP : 0 < 2 ^ w := Nat.pow_pos (by omega)
    have hx : x % 2 ^ w < 2 ^ w := Nat.mod_lt _ hP
    simp only [List.foldl_cons, List.map_cons, List.sum_cons]
    rw [mergeStep_value w v x h, ih _ (by omega)]
    omega

/-- seed C07h on the model: 200 + 100 + 3 in an 8-bit bucket is 255, not 47. -/
example : [100, 3].foldl (mergeStep 8) 200 = 255 := by decide

end IpaVerif.C07
