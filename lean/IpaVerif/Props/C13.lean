import IpaVerif.Model.Channel
import IpaVerif.Generated.Gateway
import IpaVerif.Proofs.OrderingSender
/-!
# C13 — each record sent on a channel reaches exactly the matching receive, in any order

The channel is the composition of C14's `OrderingSender` (proved to refine the ordered-queue
specification `Spec`) and `UnorderedReceiver` (proved to hand out `[i·sz, (i+1)·sz)`), configured
by `SendChannelConfig::new_with` and rendezvoused through `StreamCollection`.
-/
namespace IpaVerif.C13
open IpaVerif.Channel

/-! ## `config_aligned` -/

theorem prevPow2_is_pow2 (t : Nat) : ∃ k, prevPow2 t = 2 ^ k := ⟨_, rfl⟩

theorem min_pow_mul (a k rec : Nat) : ∃ m, m ≤ a ∧ min (2 ^ a * rec) (2 ^ k * rec) = 2 ^ m * rec := by
  rcases Nat.le_total a k with h | h
  · refine ⟨a, Nat.le_refl _, Nat.min_eq_left ?_⟩
    exact Nat.mul_le_mul_right _ (Nat.pow_le_pow_right (by decide) h)
  · refine ⟨k, h, Nat.min_eq_right ?_⟩
    exact Nat.mul_le_mul_right _ (Nat.pow_le_pow_right (by decide) h)

/-- **The asserts of `SendChannelConfig::new_with` can never fire.**  For every `active = 2^a`
(`NonZeroU32PowerOfTwo`), every configured `read_size`, every `record_size ≥ 1` and both kinds of
totals the constructor returns a configuration with `total_capacity = active · record_size`,
`read_size ∣ total_capacity` (the ipa#1300 condition), `record_size ∣ read_size`,
`0 < read_size ≤ total_capacity`, and the read size is a power-of-two multiple of the record
size.  (`usize` overflow of `active · record_size` is not modelled.) -/
theorem config_aligned (a readCfg rec : Nat) (indet : Bool) (hrec : 1 ≤ rec) :
    ∃ c, newWith (2 ^ a) readCfg rec indet = .ok c ∧
      c.totalCapacity = 2 ^ a * rec ∧ c.recordSize = rec ∧
      c.readSize ∣ c.totalCapacity ∧ c.recordSize ∣ c.readSize ∧
      0 < c.readSize ∧ c.readSize ≤ c.totalCapacity ∧ ∃ m, m ≤ a ∧ c.readSize = 2 ^ m * rec := by
  have hpa : 0 < 2 ^ a := Nat.two_pow_pos a
  have htot : 0 < 2 ^ a * rec := Nat.mul_pos hpa hrec
  -- the read size is 2^m * rec with m ≤ a
  have hform : ∃ m, m ≤ a ∧
      (if indet = true then rec else min (2 ^ a * rec) (prevPow2 (readCfg / rec) * rec)) = 2 ^ m * rec := by
    cases indet
    · simp only [Bool.false_eq_true, if_false]
      exact min_pow_mul a _ rec
    · exact ⟨0, Nat.zero_le _, by simp⟩
  obtain ⟨m, hm, hread⟩ := hform
  have hdvd : 2 ^ m * rec ∣ 2 ^ a * rec := Nat.mul_dvd_mul_right (Nat.pow_dvd_pow 2 hm) rec
  have hpos : 0 < 2 ^ m * rec := Nat.mul_pos (Nat.two_pow_pos m) hrec
  refine ⟨⟨2 ^ a * rec, rec, 2 ^ m * rec⟩, ?_, rfl, rfl, hdvd, Nat.dvd_mul_left rec (2 ^ m), hpos,
    Nat.le_of_dvd htot hdvd, m, hm, rfl⟩
  unfold newWith
  rw [if_neg (by omega)]
  simp only [hread]
  rw [if_neg (by omega), if_neg (by rw [Nat.mul_comm]; exact fun h => h (Nat.le_refl _)),
    if_neg (by rw [Nat.mod_eq_zero_of_dvd hdvd]; exact fun h => h rfl)]

/-- The hypotheses are satisfiable: 14-byte records, read size 4096, active work 2^15. -/
example : ∃ c, newWith (2 ^ 15) 4096 14 false = .ok c ∧ c.readSize ∣ c.totalCapacity := by
  obtain ⟨c, h, _, _, h2, _⟩ := config_aligned 15 4096 14 false (by decide)
  exact ⟨c, h, h2⟩

/-- The default gateway configuration regenerated from the source (`active = 32768 = 2^15`,
`read_size = 2048`) is aligned for every record size. -/
theorem default_config_aligned (rec : Nat) (indet : Bool) (hrec : 1 ≤ rec) :
    ∃ c, newWith Generated.Gateway.defaultActive Generated.Gateway.defaultReadSize rec indet = .ok c ∧
      c.readSize ∣ c.totalCapacity ∧ c.recordSize ∣ c.readSize ∧ c.readSize ≤ c.totalCapacity := by
  have ha : Generated.Gateway.defaultActive = 2 ^ 15 := by decide
  obtain ⟨c, h, _, _, h2, h3, _, h5, _⟩ := config_aligned 15 Generated.Gateway.defaultReadSize rec indet hrec
  exact ⟨c, by rw [ha]; exact h, h2, h3, h5⟩

/-! ## `window_honoured` (`GatewayConfig::set_active_work`, `Gateway::get_mpc_sender`) -/

/-- **The window a channel is opened with is the window its buffer holds.**  For every gateway
configuration, every requested window `2^a` (`NonZeroU32PowerOfTwo`; no upper bound — DZKP contexts
request `records_per_batch`, far above the gateway default), every record size `≥ 1` and both kinds
of totals, the configuration `get_mpc_sender` derives through `set_active_work` is returned (no
assert fires), has `total_capacity = 2^a · record_size`, so any `k ≤ 2^a` outstanding records fit
into the buffer without waiting for the reader, and is aligned as in `config_aligned`. -/
theorem window_honoured (cfg : GwCfg) (a rec : Nat) (indet : Bool) (hrec : 1 ≤ rec) :
    ∃ c, mpcSendCfg cfg (2 ^ a) rec indet = .ok c ∧
      2 ^ a * rec ≤ c.totalCapacity ∧ (∀ k, k ≤ 2 ^ a → k * rec ≤ c.totalCapacity) ∧
      c.recordSize = rec ∧ c.readSize ∣ c.totalCapacity ∧ c.recordSize ∣ c.readSize ∧
      0 < c.readSize ∧ c.readSize ≤ c.totalCapacity := by
  obtain ⟨c, h, h1, h0, h2, h3, h4, h5, _⟩ := config_aligned a cfg.readSize rec indet hrec
  refine ⟨c, h, by omega, ?_, h0, h2, h3, h4, h5⟩
  intro k hk
  rw [h1]
  exact Nat.mul_le_mul_right rec hk

/-- instance: the window 2^16 above the gateway default 2^15, 1-byte records -/
example : ∃ c, mpcSendCfg ⟨32768, 2048⟩ (2 ^ 16) 1 false = .ok c ∧ 65536 ≤ c.totalCapacity := by
  obtain ⟨c, h, h1, _⟩ := window_honoured ⟨32768, 2048⟩ 16 1 false (by decide)
  exact ⟨c, h, by simpa using h1⟩

/-- `set_active_work` changes nothing but the window. -/
theorem set_active_work_spec (cfg : GwCfg) (w : Nat) :
    (setActiveWork cfg w).active = w ∧ (setActiveWork cfg w).readSize = cfg.readSize := ⟨rfl, rfl⟩

/-- Why there must be no cap in `set_active_work`: with the override capped by the default window
(`min(default.active, active_work)`), a channel opened with the window 65536 and 1-byte records gets
a 32768-byte buffer — the 32769-th outstanding record has to wait for the reader. -/
theorem capped_window_counterexample :
    ∃ c, newWith (min 32768 65536) 2048 1 false = .ok c ∧ ¬ (65536 * 1 ≤ c.totalCapacity) := by
  obtain ⟨c, h, h1, _⟩ := config_aligned 15 2048 1 false (by decide)
  have e : min 32768 65536 = 2 ^ 15 := by decide
  exact ⟨c, by rw [e]; exact h, by omega⟩

theorem le_two_pow_bitLen (n : Nat) : n < 2 ^ bitLen n := by
  unfold bitLen
  split
  · subst_vars; decide
  · exact Nat.lt_log2_self

theorem nextPow2_spec (n : Nat) : (∃ k, nextPow2 n = 2 ^ k) ∧ n ≤ nextPow2 n := by
  unfold nextPow2
  split
  · exact ⟨⟨0, rfl⟩, by omega⟩
  · refine ⟨⟨_, rfl⟩, ?_⟩
    have := le_two_pow_bitLen (n - 1)
    omega

/-- `set_active_work_from_query_config`: the window is a power of two `≥ 2`, at least the query size
capped by the default window, and the read size is untouched. -/
theorem query_window (d : Nat) (cfg : GwCfg) (size : Nat) :
    let c := setActiveWorkFromQuery d cfg size
    (∃ k, 1 ≤ k ∧ c.active = 2 ^ k) ∧ min d size ≤ c.active ∧ c.readSize = cfg.readSize := by
  obtain ⟨⟨k, hk⟩, hle⟩ := nextPow2_spec (max 2 (min d size))
  refine ⟨⟨k, ?_, hk⟩, ?_, rfl⟩
  · rcases k with _ | k
    · simp only [Nat.pow_zero] at hk
      omega
    · omega
  · show min d size ≤ nextPow2 (max 2 (min d size))
    omega

/-! ## `channel_isolation` (`StreamCollection`) -/

theorem get_set_same (c : Coll) (k : Key) (s : StreamState) : (c.set k s).get k = some s := by
  simp [Coll.get, Coll.set]

theorem get_set_other (c : Coll) {k k' : Key} (s : StreamState) (h : k' ≠ k) :
    (c.set k s).get k' = c.get k' := by
  have hb : ((k, s).1 == k') = false := by simpa using fun h' => h h'.symm
  simp only [Coll.get, Coll.set, List.find?_cons, hb]
  congr 1
  induction c with
  | nil => rfl
  | cons x xs ih =>
    simp only [List.filter_cons]
    by_cases hx : x.1 = k
    · have : (x.1 != k) = false := by simp [hx]
      have hx' : (x.1 == k') = false := by rw [hx]; simpa using fun h' => h h'.symm
      simp only [this, List.find?_cons, hx']
      exact ih
    · have : (x.1 != k) = true := by simpa using hx
      simp only [this, if_true, List.find?_cons]
      cases x.1 == k' <;> simp [ih]

/-- **Channels do not leak into each other** (`StreamCollection`, keyed by `(query, peer, gate)`):
1. an operation on one key never changes the state seen under a different key;
2. `add_waker(k)` returns a stream iff that very stream was added under the identical key `k` and
   not yet taken, and taking it leaves a tombstone;
3. adding a second stream under a key (before `clear`) and requesting a stream that was already
   taken are panics; the panic leaves the collection unchanged. -/
theorem channel_isolation (c : Coll) (k : Key) :
    (∀ k' s, k' ≠ k → (collStep c (.addStream k' s)).1.get k = c.get k) ∧
    (∀ k' w, k' ≠ k → (collStep c (.addWaker k' w)).1.get k = c.get k) ∧
    (∀ w s, (collStep c (.addWaker k w)).2 = .got (some s) ↔ c.get k = some (.ready s)) ∧
    (∀ w s, c.get k = some (.ready s) → (collStep c (.addWaker k w)).1.get k = some .completed) ∧
    (∀ s s', c.get k = some (.ready s) → collStep c (.addStream k s') = (c, .panic)) ∧
    (∀ s', c.get k = some .completed → collStep c (.addStream k s') = (c, .panic)) ∧
    (∀ w, c.get k = some .completed → collStep c (.addWaker k w) = (c, .panic)) := by
  refine ⟨?_, ?_, ?_, ?_, ?_, ?_, ?_⟩
  · intro k' s hne
    simp only [collStep]
    split <;> first | exact get_set_other _ _ (Ne.symm hne) | rfl
  · intro k' w hne
    simp only [collStep]
    split <;> first | exact get_set_other _ _ (Ne.symm hne) | rfl
  · intro w s
    simp only [collStep]
    split <;> simp_all
  · intro w s h
    simp only [collStep, h]
    exact get_set_same _ _ _
  · intro s s' h; simp only [collStep, h]
  · intro s' h; simp only [collStep, h]
  · intro w h; simp only [collStep, h]

/-! ## `send_beyond_total_err`, `closes_exactly_at_total` -/

/-- Sending a record id at or beyond the declared count is refused (`TooManyRecords`) before anything
reaches the buffer, and only then. -/
theorem send_beyond_total_err (total : Total) (i : Nat) :
    gatewaySend total i = .tooManyRecords ↔ ∃ n, total = .specified n ∧ n ≤ i := by
  cases total with
  | unspecified => simp [gatewaySend]
  | indeterminate => simp [gatewaySend]
  | specified n =>
    simp only [gatewaySend, Total.specified.injEq, exists_eq_left']
    constructor
    · intro h; split at h
      · assumption
      · split at h <;> cases h
    · intro h; rw [if_pos h]

open IpaVerif.OrderingSender in
/-- **A channel closes exactly when its declared record count has been sent.**  `GatewaySender::send`
issues `close(n)` after, and only after, the send of record `n − 1`; and in the ordered queue a
`close(n)` is accepted exactly when `next = n`, i.e. (by `C14.sender_stream_is_concat`:
acceptance order = index order) when records `0 … n−1` have all been written — earlier polls stay
pending and leave the channel open; once accepted the channel is closed. -/
theorem closes_exactly_at_total (n : Nat) (hn : 0 < n) :
    (∀ i, (∃ c, gatewaySend (.specified n) i = .sentAndClosed c) ↔ i + 1 = n) ∧
    (∀ i c, gatewaySend (.specified n) i = .sentAndClosed c → c = n) ∧
    (∀ (p p' : Spec) t r w, p.step (.pollClose t n) = some (p', r, w) →
      (r = .ready ↔ p.next = n) ∧ (r = .ready → p'.closed = true ∧ p'.next = n + 1) ∧
      (r ≠ .ready → p'.closed = p.closed ∧ p'.next = p.next ∧ p'.q = p.q)) := by
  refine ⟨?_, ?_, ?_⟩
  · intro i
    simp only [gatewaySend]
    constructor
    · rintro ⟨c, h⟩
      split at h
      · cases h
      · split at h
        · omega
        · cases h
    · intro h
      rw [if_neg (by omega), if_pos (by omega)]
      exact ⟨_, rfl⟩
  · intro i c h
    simp only [gatewaySend] at h
    split at h
    · cases h
    · split at h
      · cases h; omega
      · cases h
  · intro p p' t r w h
    simp only [Spec.step] at h
    split at h
    · cases h
    · split at h
      · split at h
        · cases h
        · cases h
          rename_i h1 h2 h3
          exact ⟨⟨fun _ => h2.symm, fun _ => rfl⟩, fun _ => ⟨rfl, by simp only []; omega⟩, fun h => absurd rfl h⟩
      · cases h
        rename_i h1 h2
        refine ⟨⟨fun h => (by cases h), fun h => absurd h.symm h2⟩, fun h => (by cases h), fun _ => ⟨rfl, rfl, rfl⟩⟩

/-! ## `recv_gets_sent` -/

theorem slice_flatten (sz : Nat) : ∀ (msgs : List (List Nat)), (∀ m ∈ msgs, m.length = sz) →
    ∀ i (hi : i < msgs.length), ((msgs.flatten).drop (i * sz)).take sz = msgs[i] := by
  intro msgs
  induction msgs with
  | nil => intro _ i hi; cases hi
  | cons m rest ih =>
    intro hsz i hi
    have hm : m.length = sz := hsz m (by simp)
    cases i with
    | zero =>
      simp only [Nat.zero_mul, List.drop_zero, List.flatten_cons, List.getElem_cons_zero]
      rw [← hm, List.take_left']; rfl
    | succ j =>
      simp only [List.flatten_cons, List.getElem_cons_succ]
      have : (j + 1) * sz = m.length + j * sz := by rw [Nat.succ_mul, hm, Nat.add_comm]
      rw [this, ← List.drop_drop, List.drop_left']
      · exact ih (fun x hx => hsz x (List.mem_cons_of_mem _ hx)) j (by simpa using hi)
      · rfl

/-- **`receive(i)` returns the message passed to `send(i)`.**  Composition step of the channel:
let `msgs` be the messages accepted by the sending buffer in index order, all of the channel's
record size (C14 `sender_stream_is_concat`: emitted ‖ buffered = msg 0 ‖ msg 1 ‖ …, whatever the
order in which `send(i)` futures are polled and whatever the read size); let `fed` be what the
transport has delivered so far — any prefix of the emitted bytes, cut into chunks in any way
(hypothesis `h2`: the transport is an ordered byte pipe); then the bytes
`fed[i·sz, (i+1)·sz)` — which is what `recv(i)` resolves to for every chunking and every order or
timing of requests (C14 `receiver_indexing`) — are exactly `msgs[i]`. -/
theorem recv_gets_sent (sz : Nat) (msgs : List (List Nat)) (hsz : ∀ m ∈ msgs, m.length = sz)
    (emitted buffered fed rest : List Nat) (h1 : emitted ++ buffered = msgs.flatten)
    (h2 : fed ++ rest = emitted) (i : Nat) (hi : (i + 1) * sz ≤ fed.length) (hpos : 0 < sz) :
    ∃ h : i < msgs.length, (fed.drop (i * sz)).take sz = msgs[i] := by
  have hlen : msgs.flatten.length = msgs.length * sz := by
    clear h1
    induction msgs with
    | nil => simp
    | cons m r ih =>
      simp only [List.flatten_cons, List.length_append, List.length_cons]
      rw [ih (fun x hx => hsz x (List.mem_cons_of_mem _ hx)), hsz m (by simp), Nat.succ_mul, Nat.add_comm]
  have hall : fed ++ (rest ++ buffered) = msgs.flatten := by rw [← List.append_assoc, h2, h1]
  have hle : fed.length ≤ msgs.length * sz := by
    rw [← hlen, ← hall]; simp
  have hi' : i < msgs.length := by
    have : (i + 1) * sz ≤ msgs.length * sz := Nat.le_trans hi hle
    exact Nat.lt_of_succ_le (Nat.le_of_mul_le_mul_right this hpos)
  refine ⟨hi', ?_⟩
  rw [← slice_flatten sz msgs hsz i hi', ← hall]
  have h3 : i * sz ≤ fed.length := by rw [Nat.succ_mul] at hi; omega
  rw [List.drop_append_of_le_length h3, List.take_append_of_le_length]
  rw [List.length_drop]; rw [Nat.succ_mul] at hi; omega

/-! ## no deadlock within the window -/

open IpaVerif.OrderingSender in
theorem spec_step_cfg {p p' : Spec} {op : OrderingSender.Op} {r : Res} {w : List Task}
    (h : p.step op = some (p', r, w)) : p'.cap = p.cap ∧ p'.ws = p.ws ∧ p'.rs = p.rs := by
  cases op <;> simp only [Spec.step] at h <;> (repeat' split at h) <;>
    first | (cases h; exact ⟨rfl, rfl, rfl⟩) | cases h

open IpaVerif.OrderingSender IpaVerif.CircularBuf in
theorem exec_SR (ops : List OrderingSender.Op) : ∀ {s1 s : State} {p : Spec}, SR s1 p →
    OrderingSender.exec s1 ops = .ok s → ∃ p', SR s p' ∧ p'.cap = p.cap ∧ p'.ws = p.ws ∧ p'.rs = p.rs := by
  induction ops with
  | nil => intro s1 s p h1 he; cases he; exact ⟨p, h1, rfl, rfl, rfl⟩
  | cons op rest ih =>
    intro s1 s p h1 he
    have hs := sim_step h1 op
    unfold Sim at hs
    simp only [OrderingSender.exec] at he
    cases e1 : OrderingSender.step s1 op with
    | error e => rw [e1] at he; cases he
    | ok x =>
      obtain ⟨s', o⟩ := x
      rw [e1] at he hs
      cases e2 : p.step op with
      | none => rw [e2] at hs; exact hs.elim
      | some y =>
        obtain ⟨p1, r, w⟩ := y
        rw [e2] at hs
        obtain ⟨p', h', a, b, c⟩ := ih hs.2.2 he
        obtain ⟨c1, c2, c3⟩ := spec_step_cfg e2
        exact ⟨p', h', by rw [a, c1], by rw [b, c2], by rw [c, c3]⟩

open IpaVerif.OrderingSender IpaVerif.CircularBuf in
/-- **No deadlock within the window** (at the level carried here).  In every state of a sending
channel reachable by any poll schedule, with the configuration produced by `new_with`
(`read_size ≤ total_capacity`, by `config_aligned`): if the writer whose turn it is finds the
buffer full (`can_write = false` on an open channel) then the stream side can read
(`can_read = true`).  Together with `C14.sender_refines_spec` — that read wakes the blocked writer,
an accepted write wakes the writer of the next index and the stream when `read_size` bytes are
there, the close wakes the stream — every non-final state has an enabled poll whose task has
been woken, as long as the consumer polls the stream and woken tasks are re-polled (fairness is a
hypothesis of this reading, not a Lean statement); on the receive side `C14.receiver_wakeups`
gives the same for requests up to and beyond the capacity. -/
theorem no_deadlock_in_window {cap ws rs : Nat} {s0 s : State}
    (hnew : State.new cap ws rs = .ok s0) (hrs : rs ≤ cap)
    (ops : List OrderingSender.Op) (h : OrderingSender.exec s0 ops = .ok s)
    (hopen : s.buf.closed = false) (hfull : s.buf.canWrite = false) : s.buf.canRead = true := by
  obtain ⟨p', hsr, hc, _, hr⟩ := exec_SR ops (SR_init hnew) h
  have r := hsr.buf
  have hle := len_le r.inv
  have hd := len_dvd r.inv
  rw [canRead_iff r.inv]
  right
  have hnw : ¬ (s.buf.writeSize ≤ s.buf.capacity - s.buf.len) := by
    intro hcw
    have := (canWrite_iff s.buf).mpr ⟨hopen, hcw⟩
    rw [hfull] at this; cases this
  have hlt : ¬ s.buf.len < s.buf.capacity := by
    intro hlt
    have := dvd_step hd r.inv.wsCap hlt
    omega
  have hcap : s.buf.capacity = cap := by rw [r.cap_eq]; exact hc
  have hrd : s.buf.readSize = rs := by rw [r.rs_eq]; exact hr
  omega

end IpaVerif.C13
