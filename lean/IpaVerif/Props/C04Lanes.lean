import IpaVerif.Proofs.C04Run
/-!
# C04 — vectorised (`N`-lane) MAC'd shares: one independent random coefficient per lane

`accumulate_macs` on an `N`-lane share (`eval_dy_prf` runs with 16 lanes of `Fp25519`) draws an `N`-lane random
sharing from PRSS: every lane is protected by its own coefficient (`Generated.Mac.coefficientPerLane`, re-read from
the sources).  `accumulateN_T` is the lane-wise form of `additive_attack_T`; `shared_coefficient_counterexample`
shows what goes wrong if one coefficient were shared by the lanes of a record: any error pattern whose per-lane
discrepancies add up to zero would leave `T` unchanged.
-/
namespace IpaVerif.C04
open IpaVerif.Sharing IpaVerif.Mac IpaVerif.Generated.Mac

variable {R : Type} [CommRing R]

/-! ### vectorised shares -/

theorem foldl_add (l : List R) (a : R) : l.foldl (ringAlg R).add a = a + l.sum := by
  induction l generalizing a with
  | nil => simp
  | cons x xs ih => simp only [List.foldl_cons, List.sum_cons, ih]; simp only [ringAlg]; ring

theorem dotN_eq (as bs : List (HShare R)) :
    dotContributionN (ringAlg R) as bs = (List.zipWith (dotContribution (ringAlg R)) as bs).sum := by
  unfold dotContributionN
  rw [foldl_add]; simp [ringAlg]

theorem contribN_cons (args : Opnd × Opnd) (hargs : args = uContribArgs ∨ args = wContribArgs)
    (l : World R × MShare R) (ls : List (World R × MShare R)) (pick : World R → HShare R) :
    contribN (ringAlg R) args (l :: ls) pick
      = contrib (ringAlg R) args l.1 l.2 pick + contribN (ringAlg R) args ls pick := by
  rcases hargs with rfl | rfl <;>
    simp [contribN, contrib, laneAlphas, coefficientPerLane, uContribArgs, wContribArgs, dotN_eq]

theorem foldl_accumulate_T (rh : R) (α : World R) (hα : Consistent α) (lanes : List (World R × MShare R))
    (h : ∀ l ∈ lanes, MConsistent l.2) (acc : Acc R) :
    accT rh (lanes.foldl (fun a ln => accumulate (ringAlg R) α ln.2 a) acc)
      = accT rh acc + rec α * (lanes.map (fun ln => disc rh ln.2)).sum := by
  induction lanes generalizing acc with
  | nil => simp
  | cons l ls ih =>
    simp only [List.foldl_cons, List.map_cons, List.sum_cons]
    rw [ih (fun l' hl' => h l' (List.mem_cons_of_mem _ hl')), accumulate_T rh α l.2 acc hα (h l List.mem_cons_self)]
    ring



/-! ### vectorised shares: one independent coefficient per lane -/

/-- **accumulateN_T** (lane-wise `additive_attack_T`) — `accumulate_macs` on an `N`-lane share adds to `T` exactly
`Σ_lane α̂_lane·D_lane`: every lane has its own coefficient (`coefficientPerLane`, extracted from the sources), so
with errors `δ_{k,lane}`, `δ′_{k,lane}` on the lanes of the recorded gates,
`T = Σ_k Σ_lane α̂_{k,lane}·D_{k,lane} + (ε_u − ε_w·r̂)`; a vectorised gate is `N` scalar gates of `additive_attack_T`. -/
theorem accumulateN_T (rh : R) (lanes : List (World R × MShare R)) (acc : Acc R)
    (h : ∀ l ∈ lanes, Consistent l.1 ∧ MConsistent l.2) :
    accT rh (accumulateN (ringAlg R) lanes acc)
      = accT rh acc + (lanes.map (fun l => rec l.1 * disc rh l.2)).sum := by
  induction lanes with
  | nil =>
    simp [accumulateN, contribN, laneAlphas, dotContributionN, accT, locSum, ringAlg, uContribArgs, wContribArgs]
  | cons l ls ih =>
    have hl := h l List.mem_cons_self
    have ih' := ih (fun l' hl' => h l' (List.mem_cons_of_mem _ hl'))
    have h1 := accumulate_T rh l.1 l.2 acc hl.1 hl.2
    simp only [List.map_cons, List.sum_cons]
    rw [← add_assoc, ← h1]
    have key : accT rh (accumulateN (ringAlg R) (l :: ls) acc)
        = accT rh (accumulateN (ringAlg R) ls acc) + (accT rh (accumulate (ringAlg R) l.1 l.2 acc) - accT rh acc) := by
      simp only [accT, accumulateN, accumulate, locSum, contribN_cons _ (Or.inl rfl), contribN_cons _ (Or.inr rfl)]
      simp only [ringAlg]; ring
    rw [key, ih']; ring


/-- with ONE coefficient for all lanes of a record, only the SUM of the lanes' discrepancies reaches `T`. -/
theorem accumulateShared_T (rh : R) (l : World R × MShare R) (ls : List (World R × MShare R)) (acc : Acc R)
    (h : ∀ l' ∈ l :: ls, Consistent l'.1 ∧ MConsistent l'.2) :
    accT rh (accumulateShared (ringAlg R) (l :: ls) acc)
      = accT rh acc + rec l.1 * ((l :: ls).map (fun ln => disc rh ln.2)).sum := by
  unfold accumulateShared
  exact foldl_accumulate_T rh l.1 (h l List.mem_cons_self).1 (l :: ls) (fun l' hl' => (h l' hl').2) acc

/-- **shared_coefficient_counterexample** — a zero-sum lane attack (`+d` on the MAC discrepancy of one lane, `−d` on
another lane of the same record) leaves `T` unchanged when the lanes share one coefficient, for every `d`, every
coefficient and every key `r`; with the per-lane coefficients the code draws, the same attack moves `T` by
`(α̂₁ − α̂₂)·d`. -/
theorem shared_coefficient_counterexample (r x1 x2 α1 α2 : World R) (hr : Consistent r) (hx1 : Consistent x1)
    (hx2 : Consistent x2) (hα1 : Consistent α1) (hα2 : Consistent α2) (ρ : Masks R) (d : R) (acc : Acc R) :
    let m1 := upgradeE (ringAlg R) ρ ⟨d, 0, 0⟩ r x1
    let m2 := upgradeE (ringAlg R) ρ ⟨-d, 0, 0⟩ r x2
    disc (rec r) m1 = d ∧ disc (rec r) m2 = -d ∧
    accT (rec r) (accumulateShared (ringAlg R) [(α1, m1), (α2, m2)] acc) = accT (rec r) acc ∧
    accT (rec r) (accumulateN (ringAlg R) [(α1, m1), (α2, m2)] acc) = accT (rec r) acc + (rec α1 - rec α2) * d := by
  intro m1 m2
  obtain ⟨c1, _, d1⟩ := upgrade_props (rec r) ρ ⟨d, 0, 0⟩ r x1 hr hx1 rfl
  obtain ⟨c2, _, d2⟩ := upgrade_props (rec r) ρ ⟨-d, 0, 0⟩ r x2 hr hx2 rfl
  have e1 : disc (rec r) m1 = d := by rw [d1]; simp [errSum]
  have e2 : disc (rec r) m2 = -d := by rw [d2]; simp [errSum]
  have hall : ∀ l' ∈ [(α1, m1), (α2, m2)], Consistent l'.1 ∧ MConsistent l'.2 := by
    intro l' hl'
    simp only [List.mem_cons, List.mem_nil_iff, or_false] at hl'
    rcases hl' with rfl | rfl
    · exact ⟨hα1, c1⟩
    · exact ⟨hα2, c2⟩
  refine ⟨e1, e2, ?_, ?_⟩
  · rw [accumulateShared_T (rec r) _ _ acc hall]
    simp [e1, e2]
  · rw [accumulateN_T (rec r) _ acc hall]
    simp only [List.map_cons, List.map_nil, List.sum_cons, List.sum_nil, e1, e2]; ring



end IpaVerif.C04
