import IpaVerif.Model.ReportWire
import IpaVerif.Proofs.ReportWireLemmas
/-!
# C10 — encrypted reports decrypt only if untouched; bad input never crashes a helper

Theorems about `IpaVerif.Model.ReportWire` (the model of `report/hybrid.rs`, `report/hybrid_info.rs`
over an abstract HPKE). The layout constants are the ones regenerated from the sources
(`IpaVerif.Generated.ReportLayout`, used through `offsets`). HPKE enters only through hypotheses
(`OpenLen`, `OpenSeal`, `SealLen`, `OpenOnlySealed`), each instantiated by an `example`.
-/
namespace IpaVerif.C10
open IpaVerif.ReportWire IpaVerif.Generated

/-! ## Metadata (`hybrid_info.rs`) -/

theorem impInfo_total (b : Bytes) (t : String) : ImpInfo.fromBytes b ≠ .panic t := by
  unfold ImpInfo.fromBytes; split <;> simp

theorem convInfo_total (b : Bytes) (t : String) : ConvInfo.fromBytes b ≠ .panic t := by
  unfold ConvInfo.fromBytes
  split
  · simp
  · rename_i site rest hs
    obtain ⟨hb, _⟩ := splitNul_some hs
    split
    · simp
    · split
      · simp
      · rename_i hlen
        have hl : rest.length = 25 := by
          have := congrArg List.length hb
          simp [Report.convInfoTail] at hlen this
          omega
        have h0 : index rest 0 = .ok rest[0] := index_ok (by omega)
        simp [h0, slice_ok (d := rest) (a := 1) (b := 9) (by omega) (by omega),
          slice_ok (d := rest) (a := 9) (b := 17) (by omega) (by omega),
          slice_ok (d := rest) (a := 17) (b := 25) (by omega) (by omega)]

/-- `from_bytes ∘ to_bytes = id` for impressions. -/
theorem info_roundtrip_imp (i : ImpInfo) : ImpInfo.fromBytes i.toBytes = .ok i := by
  simp [ImpInfo.fromBytes, ImpInfo.toBytes]

/-- `from_bytes ∘ to_bytes = id` for conversions — under `0 ∉ site`, the hypothesis the proof forces (F7). -/
theorem info_roundtrip (c : ConvInfo) (hw : c.Wf) (hn : 0 ∉ c.site) (hu : utf8Valid c.site = true) :
    ConvInfo.fromBytes c.toBytes = .ok c := by
  obtain ⟨h1, h2, h3⟩ := hw
  obtain ⟨p0, p1, p2, p3⟩ := conv_tail_parse c.keyId c.ts c.eps c.sens h1 h2 h3
  simp only [List.append_assoc] at p0 p1 p2 p3
  simp only [ConvInfo.fromBytes, ConvInfo.toBytes, ConvInfo.tail, splitNul_append hn, hu]
  simp [Report.convInfoTail, h1, h2, h3, p0, p1, p2, p3]

/-- What `HybridConversionInfo::new` accepts survives `to_bytes → from_bytes` (this is false without
the NUL check added by the F7 fix: `info_roundtrip_needs_nonul`). -/
theorem new_roundtrip {k : Nat} {site ts eps sens : Bytes} {c : ConvInfo}
    (h : ConvInfo.new k site ts eps sens = .ok c) (h1 : ts.length = 8) (h2 : eps.length = 8)
    (h3 : sens.length = 8) : ConvInfo.fromBytes c.toBytes = .ok c := by
  unfold ConvInfo.new at h
  split at h
  · rename_i hc
    simp at h; subst h
    simp at hc
    exact info_roundtrip _ ⟨h1, h2, h3⟩ (by simpa using hc.2) (utf8Valid_ascii hc.1)
  · simp at h

/-- F7 witness: with a NUL in the site the wire form parses to something else. -/
def nulSite : ConvInfo :=
  { keyId := 0, site := [0], ts := List.replicate 8 0, eps := List.replicate 8 0, sens := List.replicate 8 0 }

theorem info_roundtrip_needs_nonul :
    nulSite.Wf ∧ utf8Valid nulSite.site = true ∧ ConvInfo.fromBytes nulSite.toBytes ≠ .ok nulSite := by
  refine ⟨⟨by decide, by decide, by decide⟩, by decide, by decide⟩

/-- The parser is canonical: accepted bytes are exactly the serialization of the result (no byte of the
info is ignored), the result is well-formed and its site is NUL-free. -/
theorem info_canonical {b : Bytes} {c : ConvInfo} (h : ConvInfo.fromBytes b = .ok c) :
    c.toBytes = b ∧ c.Wf ∧ 0 ∉ c.site := by
  unfold ConvInfo.fromBytes at h
  split at h
  · simp at h
  · rename_i site rest hs
    obtain ⟨hb, hn⟩ := splitNul_some hs
    split at h
    · simp at h
    · split at h
      · simp at h
      · rename_i hlen
        have hl : rest.length = 25 := by
          have := congrArg List.length hb
          simp [Report.convInfoTail] at hlen this
          omega
        have h0 : index rest 0 = .ok rest[0] := index_ok (by omega)
        simp [h0, slice_ok (d := rest) (a := 1) (b := 9) (by omega) (by omega),
          slice_ok (d := rest) (a := 9) (b := 17) (by omega) (by omega),
          slice_ok (d := rest) (a := 17) (b := 25) (by omega) (by omega)] at h
        subst h
        refine ⟨?_, ⟨?_, ?_, ?_⟩, hn⟩
        · simp only [ConvInfo.toBytes, ConvInfo.tail]
          rw [hb]
          congr 2
          have e1 : fld rest 1 9 ++ fld rest 9 17 = fld rest 1 17 := fld_append (by omega) (by omega)
          have e2 : fld rest 1 17 ++ fld rest 17 25 = fld rest 1 25 := fld_append (by omega) (by omega)
          rw [e1, e2]
          have : fld rest 1 25 = rest.drop 1 := by rw [← hl]; exact fld_drop
          rw [this]
          match rest, hl with
          | x :: xs, _ => simp
        · exact fld_length (by omega) (by omega)
        · exact fld_length (by omega) (by omega)
        · exact fld_length (by omega) (by omega)

theorem info_canonical_imp {b : Bytes} {i : ImpInfo} (h : ImpInfo.fromBytes b = .ok i) : i.toBytes = b := by
  unfold ImpInfo.fromBytes at h
  split at h
  · simp at h; subst h; simp [ImpInfo.toBytes]
  · simp at h

/-- `byte_len()` equals `to_bytes().len()` (the `debug_assert` in `byte_len` never fires). -/
theorem byteLen_eq (c : ConvInfo) (hw : c.Wf) : c.byteLen = c.toBytes.length := by
  obtain ⟨h1, h2, h3⟩ := hw
  simp [ConvInfo.byteLen, ConvInfo.toBytes, ConvInfo.tail, h1, h2, h3]; omega

/-- The HPKE info string determines the metadata: equal `to_enc_bytes` ⇒ equal key id, site, timestamp,
ε, sensitivity *and* event kind (an impression never shares its info string with a conversion). -/
theorem info_injective (i1 i2 : Info) (h1 : i1.Wf) (h2 : i2.Wf) (h : i1.toEncBytes = i2.toEncBytes) :
    i1 = i2 := by
  cases i1 with
  | imp a =>
    cases i2 with
    | imp b =>
      simp [Info.toEncBytes, ImpInfo.toEncBytes] at h
      cases a; cases b; simp_all
    | conv c =>
      exfalso
      have := congrArg List.length h
      simp [Info.toEncBytes, ImpInfo.toEncBytes, ConvInfo.toEncBytes, conv_tail_length c h2] at this
  | conv c =>
    cases i2 with
    | imp b =>
      exfalso
      have := congrArg List.length h
      simp [Info.toEncBytes, ImpInfo.toEncBytes, ConvInfo.toEncBytes, conv_tail_length c h1] at this
    | conv d =>
      simp only [Info.toEncBytes, ConvInfo.toEncBytes, List.append_assoc] at h
      have h' := List.append_cancel_left h
      have hl : c.tail.length = d.tail.length := by rw [conv_tail_length c h1, conv_tail_length d h2]
      obtain ⟨hs, ht⟩ := List.append_inj' h' hl
      obtain ⟨c1, c2, c3⟩ := h1
      obtain ⟨d1, d2, d3⟩ := h2
      simp only [ConvInfo.tail, List.cons.injEq] at ht
      obtain ⟨hk, ht⟩ := ht
      obtain ⟨hte, hsens⟩ := List.append_inj' ht (by rw [c3, d3])
      obtain ⟨hts, heps⟩ := List.append_inj hte (by rw [c1, d1])
      cases c; cases d; simp_all

/-! ## Totality (`parse_total`) -/


/-- `open_in_place` works in place: the plaintext is the ciphertext buffer minus the tag. -/
def OpenLen {K : Type} (A : AEAD K) (tag : Nat) : Prop :=
  ∀ k enc ct info m, A.open' k enc ct info = some m → m.length + tag = ct.length

theorem parseInfo_total (k : Kind) (b : Bytes) (t : String) : parseInfo k b ≠ .panic t := by
  cases k
  · simp only [parseInfo]
    have := impInfo_total b
    cases h : ImpInfo.fromBytes b <;> simp_all [Outcome.mapErr]
  · simp only [parseInfo]
    have := convInfo_total b
    cases h : ConvInfo.fromBytes b <;> simp_all [Outcome.mapErr]

theorem decrypt_total {K : Type} (A : AEAD K) (reg : Nat → Option K) (L : Layout) (r : EncReport)
    (hA : OpenLen A L.tag) (h : infoOff L r.kind ≤ r.data.length) (t : String) :
    decrypt A reg L r ≠ .panic t := by
  obtain ⟨o1, o2, o3, o4, o5, o6⟩ := offsets L r.kind
  rw [o6] at h
  have s1 := slice_ok (d := r.data) (a := ctMkOff L r.kind) (b := encapBttOff L r.kind) (by omega) (by omega)
  have l1 : (fld r.data (ctMkOff L r.kind) (encapBttOff L r.kind)).length = L.mkSz + L.tag := by
    rw [fld_length (by omega) (by omega)]; omega
  have s2 := index_ok (d := r.data) (i := keyIdOff L r.kind) (by omega)
  have s3 : sliceFrom r.data (infoOff L r.kind) = .ok (r.data.drop (infoOff L r.kind)) := by
    simp [sliceFrom]; omega
  have s4 := slice_ok (d := r.data) (a := encapMkOff L r.kind) (b := ctMkOff L r.kind) (by omega) (by omega)
  have s5 := slice_ok (d := r.data) (a := ctBttOff L r.kind) (b := keyIdOff L r.kind) (by omega) (by omega)
  have l5 : (fld r.data (ctBttOff L r.kind) (keyIdOff L r.kind)).length = L.btt r.kind + L.tag := by
    rw [fld_length (by omega) (by omega)]; omega
  have s6 := slice_ok (d := r.data) (a := encapBttOff L r.kind) (b := ctBttOff L r.kind) (by omega) (by omega)
  unfold decrypt
  simp only [bind_eq, s1, bind_ok, fromSlice_ok l1, s2, s3, s4, s5, fromSlice_ok l5, s6]
  split
  · simp
  · have := parseInfo_total r.kind (r.data.drop (infoOff L r.kind))
    cases hp : parseInfo r.kind (r.data.drop (infoOff L r.kind)) with
    | panic t' => exact absurd hp (this t')
    | err e => simp
    | ok info =>
      simp only [bind_ok]
      split
      · simp
      · rename_i ptMk hm
        split
        · simp
        · rename_i ptBtt hb
          have lm := hA _ _ _ _ _ hm
          have lb := hA _ _ _ _ _ hb
          rw [l1] at lm
          rw [l5] at lb
          simp only [fromSlice_ok (show ptMk.length = L.mkSz by omega), fromSlice_ok (show ptBtt.length = L.btt r.kind by omega), bind_ok]
          split <;> simp

/-! ## Inversion of a successful decryption -/


theorem bind_eq_ok {α β : Type} {x : Outcome α} {f : α → Outcome β} {b : β} (h : x.bind f = .ok b) :
    ∃ a, x = .ok a ∧ f a = .ok b := by
  cases x <;> simp_all [Outcome.bind]

theorem parseInfo_ok {k : Kind} {b : Bytes} {info : Info} (h : parseInfo k b = .ok info) :
    info.kind = k ∧ info.toBytes = b ∧ info.Wf := by
  cases k
  · simp only [parseInfo] at h
    obtain ⟨i, h1, h2⟩ := bind_eq_ok h
    simp at h2; subst h2
    cases hi : ImpInfo.fromBytes b <;> simp [hi, Outcome.mapErr] at h1
    subst h1
    exact ⟨rfl, info_canonical_imp hi, trivial⟩
  · simp only [parseInfo] at h
    obtain ⟨i, h1, h2⟩ := bind_eq_ok h
    simp at h2; subst h2
    cases hi : ConvInfo.fromBytes b <;> simp [hi, Outcome.mapErr] at h1
    subst h1
    obtain ⟨c1, c2, _⟩ := info_canonical hi
    exact ⟨rfl, c1, c2⟩

/-- Everything that `decrypt … = ok rep` tells us. -/
theorem decrypt_ok_elim {K : Type} {A : AEAD K} {reg : Nat → Option K} {L : Layout} {r : EncReport}
    {rep : PlainReport} (h : decrypt A reg L r = .ok rep) :
    infoOff L r.kind ≤ r.data.length ∧ ∃ kid sk, r.data[keyIdOff L r.kind]? = some kid ∧ reg kid = some sk ∧
      parseInfo r.kind (r.data.drop (infoOff L r.kind)) = .ok rep.info ∧
      A.open' sk (fld r.data (encapMkOff L r.kind) (ctMkOff L r.kind)) (fld r.data (ctMkOff L r.kind) (encapBttOff L r.kind))
        rep.info.toEncBytes = some rep.matchKey ∧
      A.open' sk (fld r.data (encapBttOff L r.kind) (ctBttOff L r.kind)) (fld r.data (ctBttOff L r.kind) (keyIdOff L r.kind))
        rep.info.toEncBytes = some rep.btt ∧
      validShare (L.bttBits r.kind) rep.btt = true := by
  unfold decrypt at h
  simp only [bind_eq] at h
  obtain ⟨ctMk, h1, h⟩ := bind_eq_ok h
  obtain ⟨ctMk0, h1a, h1b⟩ := bind_eq_ok h1
  obtain ⟨kid, h2, h⟩ := bind_eq_ok h
  split at h
  · simp at h
  · rename_i sk hreg
    obtain ⟨ib, h3, h⟩ := bind_eq_ok h
    obtain ⟨info, h4, h⟩ := bind_eq_ok h
    obtain ⟨encMk, h5, h⟩ := bind_eq_ok h
    split at h
    · simp at h
    · rename_i ptMk hm
      obtain ⟨ctBtt, h6, h⟩ := bind_eq_ok h
      obtain ⟨ctBtt0, h6a, h6b⟩ := bind_eq_ok h6
      obtain ⟨encBtt, h7, h⟩ := bind_eq_ok h
      split at h
      · simp at h
      · rename_i ptBtt hb
        obtain ⟨pm, h8, h⟩ := bind_eq_ok h
        obtain ⟨pb, h9, h⟩ := bind_eq_ok h
        split at h
        · rename_i hv
          simp at h; subst h
          obtain ⟨_, _, rfl⟩ := slice_eq_ok h1a
          obtain ⟨_, rfl⟩ := fromSlice_eq_ok h1b
          obtain ⟨_, hk⟩ := index_eq_ok h2
          obtain ⟨hlen, rfl⟩ := sliceFrom_eq_ok h3
          obtain ⟨_, _, rfl⟩ := slice_eq_ok h5
          obtain ⟨_, _, rfl⟩ := slice_eq_ok h6a
          obtain ⟨_, rfl⟩ := fromSlice_eq_ok h6b
          obtain ⟨_, _, rfl⟩ := slice_eq_ok h7
          obtain ⟨_, rfl⟩ := fromSlice_eq_ok h8
          obtain ⟨_, rfl⟩ := fromSlice_eq_ok h9
          exact ⟨hlen, kid, sk, hk, hreg, h4, hm, hb, hv⟩
        · simp at h



theorem fromBytes_ok {L : Layout} {bytes : Bytes} {r : EncReport} (h : fromBytes L bytes = .ok r) :
    bytes = evtByte r.kind :: r.data ∧ infoOff L r.kind ≤ r.data.length := by
  unfold fromBytes at h
  split at h
  · simp at h
  · rename_i e data
    split at h
    · rename_i he
      unfold fromBytesKind at h
      split at h
      · simp at h
      · rename_i hl
        simp at h; subst h
        exact ⟨by simp [evtByte, he], by simpa using hl⟩
    · split at h
      · rename_i he
        unfold fromBytesKind at h
        split at h
        · simp at h
        · rename_i hl
          simp at h; subst h
          exact ⟨by simp [evtByte, he], by simpa using hl⟩
      · simp at h

/-- **parse_total**: for *every* byte string, key registry and (in-place) AEAD, neither the parser nor the
decryptor panics: the outcome is a report or an `InvalidHybridReportError`. -/
theorem parse_total {K : Type} (A : AEAD K) (reg : Nat → Option K) (L : Layout) (hA : OpenLen A L.tag)
    (bytes : Bytes) (t : String) :
    fromBytes L bytes ≠ .panic t ∧ process A reg L bytes ≠ .panic t := by
  have h1 : fromBytes L bytes ≠ .panic t := by
    unfold fromBytes fromBytesKind
    repeat' split
    all_goals simp
  refine ⟨h1, ?_⟩
  unfold process
  cases hf : fromBytes L bytes with
  | panic t' => exact absurd hf (by
      unfold fromBytes fromBytesKind
      repeat' split
      all_goals simp)
  | err e => simp
  | ok r =>
    simp only [bind_ok]
    exact decrypt_total A reg L r hA (fromBytes_ok hf).2 t

/-- A record of kind `k` that passed `from_bytes` is the concatenation of its accessor slices, the key
identifier byte and the info bytes: no byte lies outside the fields. -/
theorem data_decomp (L : Layout) (k : Kind) (d : Bytes) (kid : Nat) (h : infoOff L k ≤ d.length)
    (hk : d[keyIdOff L k]? = some kid) :
    d = fld d (encapMkOff L k) (ctMkOff L k) ++ fld d (ctMkOff L k) (encapBttOff L k) ++
        fld d (encapBttOff L k) (ctBttOff L k) ++ fld d (ctBttOff L k) (keyIdOff L k) ++ [kid] ++
        d.drop (infoOff L k) := by
  obtain ⟨o1, o2, o3, o4, o5, o6⟩ := offsets L k
  have hkid : fld d (keyIdOff L k) (infoOff L k) = [kid] := by
    have : infoOff L k - keyIdOff L k = 1 := by omega
    simp only [fld, this]
    rw [List.getElem?_eq_some_iff] at hk
    obtain ⟨hlt, hv⟩ := hk
    rw [List.drop_eq_getElem_cons hlt]
    simp [hv]
  rw [← hkid, ← fld_drop (d := d) (a := infoOff L k)]
  rw [fld_append (by omega) (by omega), fld_append (by omega) (by omega), fld_append (by omega) (by omega),
    fld_append (by omega) (by omega), fld_append (by omega) (by omega), o1]
  exact (fld_all d).symm


/-! ## Tampering -/


/-- Ideal authenticated encryption relative to the list of everything the honest sender sealed:
`open` succeeds only on a logged (key, info, plaintext, encapsulated key, ciphertext‖tag). -/
def OpenOnlySealed {K : Type} (A : AEAD K) (log : List (K × Bytes × Bytes × Bytes × Bytes)) : Prop :=
  ∀ k enc ct info m, A.open' k enc ct info = some m → (k, info, m, enc, ct) ∈ log

/-- Shape of an honestly produced record: sizes of the sealed parts, well-formed metadata. -/
structure Honest (L : Layout) (rep : PlainReport) (e1 c1 e2 c2 : Bytes) : Prop where
  e1len : e1.length = L.encap
  c1len : c1.length = L.mkSz + L.tag
  e2len : e2.length = L.encap
  c2len : c2.length = L.btt rep.info.kind + L.tag
  wf : rep.info.Wf

/-- the record `HybridReport::encrypt_to` writes, given the two sealed parts -/
def record (rep : PlainReport) (keyId : Nat) (e1 c1 e2 c2 : Bytes) : Bytes :=
  evtByte rep.info.kind :: (e1 ++ c1 ++ e2 ++ c2 ++ [keyId] ++ rep.info.toBytes)

theorem evtByte_inj {a b : Kind} (h : evtByte a = evtByte b) : a = b := by
  cases a <;> cases b <;> simp_all [evtByte, Report.evtImpression, Report.evtConversion]

/-- **tamper_fails** (core form). Let `A` be an ideal AEAD whose sealing log consists of exactly the two
parts of one honest record (match key and breakdown key / value, both sealed to key `k0` under the
report's info string). If *any* byte string `R'` is accepted by a helper — whatever its key registry —
then the report it yields is the original one, and if the registry holds `k0` under a single key id then
`R'` *is* the original record. The side condition `mkSz ≠ bk, v` excludes the swap of the two sealed
parts when both plaintexts have the same size (see `swap_needs_sizes`). -/
theorem tamper_fails {K : Type} (A : AEAD K) (reg : Nat → Option K) (L : Layout) (k0 : K) (keyId : Nat)
    (rep : PlainReport) (e1 c1 e2 c2 : Bytes) (hH : Honest L rep e1 c1 e2 c2)
    (hIdeal : OpenOnlySealed A [(k0, rep.info.toEncBytes, rep.matchKey, e1, c1),
                                (k0, rep.info.toEncBytes, rep.btt, e2, c2)])
    (hSizes : L.mkSz ≠ L.bk ∧ L.mkSz ≠ L.v)
    (R' : Bytes) (rep' : PlainReport) (h : process A reg L R' = .ok rep') :
    rep' = rep ∧ ((∀ kid, reg kid = some k0 → kid = keyId) → R' = record rep keyId e1 c1 e2 c2) := by
  unfold process at h
  obtain ⟨r, hf, hd⟩ := bind_eq_ok h
  obtain ⟨hR, _⟩ := fromBytes_ok hf
  obtain ⟨hlen, kid, sk, hk, hreg, hpi, hm, hb, _⟩ := decrypt_ok_elim hd
  obtain ⟨hkind, hbytes, hwf⟩ := parseInfo_ok hpi
  obtain ⟨o1, o2, o3, o4, o5, o6⟩ := offsets L r.kind
  have hbtt : ∀ k : Kind, L.btt k ≠ L.mkSz := by
    intro k; cases k <;> simp [Layout.btt] <;> omega
  have lC1 : (fld r.data (ctMkOff L r.kind) (encapBttOff L r.kind)).length = L.mkSz + L.tag := by
    rw [fld_length (by omega) (by omega)]; omega
  have lC2 : (fld r.data (ctBttOff L r.kind) (keyIdOff L r.kind)).length = L.btt r.kind + L.tag := by
    rw [fld_length (by omega) (by omega)]; omega
  have m1 := hIdeal _ _ _ _ _ hm
  have m2 := hIdeal _ _ _ _ _ hb
  simp only [List.mem_cons, Prod.mk.injEq, List.not_mem_nil, or_false] at m1 m2
  -- the match-key part can only be the first logged item, the other part only the second
  have m1' : sk = k0 ∧ rep'.info.toEncBytes = rep.info.toEncBytes ∧ rep'.matchKey = rep.matchKey ∧
      fld r.data (encapMkOff L r.kind) (ctMkOff L r.kind) = e1 ∧
      fld r.data (ctMkOff L r.kind) (encapBttOff L r.kind) = c1 := by
    rcases m1 with m | m
    · exact m
    · exfalso
      have := congrArg List.length m.2.2.2.2
      rw [lC1, hH.c2len] at this
      exact hbtt rep.info.kind (by omega)
  have m2' : sk = k0 ∧ rep'.info.toEncBytes = rep.info.toEncBytes ∧ rep'.btt = rep.btt ∧
      fld r.data (encapBttOff L r.kind) (ctBttOff L r.kind) = e2 ∧
      fld r.data (ctBttOff L r.kind) (keyIdOff L r.kind) = c2 := by
    rcases m2 with m | m
    · exfalso
      have := congrArg List.length m.2.2.2.2
      rw [lC2, hH.c1len] at this
      exact hbtt r.kind (by omega)
    · exact m
  obtain ⟨hsk, hie, hmk, hE1, hC1⟩ := m1'
  obtain ⟨_, _, hbt, hE2, hC2⟩ := m2'
  have hinfo : rep'.info = rep.info := info_injective _ _ hwf hH.wf hie
  have hrep : rep' = rep := by
    cases rep'; cases rep; simp_all
  refine ⟨hrep, fun hinj => ?_⟩
  have hkid : kid = keyId := hinj kid (by rw [hreg, hsk])
  have hdec := data_decomp L r.kind r.data kid hlen hk
  rw [hE1, hC1, hE2, hC2, ← hbytes, hinfo, hkid] at hdec
  rw [hR, hdec]
  have : r.kind = rep.info.kind := by rw [← hkind, hinfo]
  simp [record, this]




/-- Changing the record in any way yields an **error** (not a panic, not another report). -/
theorem tamper_fails_err {K : Type} (A : AEAD K) (reg : Nat → Option K) (L : Layout) (k0 : K) (keyId : Nat)
    (rep : PlainReport) (e1 c1 e2 c2 : Bytes) (hH : Honest L rep e1 c1 e2 c2)
    (hIdeal : OpenOnlySealed A [(k0, rep.info.toEncBytes, rep.matchKey, e1, c1),
                                (k0, rep.info.toEncBytes, rep.btt, e2, c2)])
    (hSizes : L.mkSz ≠ L.bk ∧ L.mkSz ≠ L.v) (hLen : OpenLen A L.tag)
    (hinj : ∀ kid, reg kid = some k0 → kid = keyId)
    (R' : Bytes) (hne : R' ≠ record rep keyId e1 c1 e2 c2) :
    ∃ e, process A reg L R' = .err e := by
  cases hp : process A reg L R' with
  | ok rep' => exact absurd ((tamper_fails A reg L k0 keyId rep e1 c1 e2 c2 hH hIdeal hSizes R' rep' hp).2 hinj) hne
  | err e => exact ⟨e, rfl⟩
  | panic t => exact absurd hp (parse_total A reg L hLen R' t).2

/-- flip bit `bit` (0 = least significant bit of byte 0) -/
def flipBit (r : Bytes) (bit : Nat) : Bytes :=
  r.mapIdx (fun i b => if i = bit / 8 then b ^^^ (1 <<< (bit % 8)) else b)

theorem flipBit_ne (r : Bytes) (bit : Nat) (h : bit < 8 * r.length) : flipBit r bit ≠ r := by
  intro heq
  have hi : bit / 8 < r.length := by omega
  have := congrArg (fun l => l[bit / 8]?) heq
  simp [flipBit, hi] at this
  have h3 : 1 <<< (bit % 8) = 0 := by
    have e := congrArg (fun x => r[bit / 8] ^^^ x) this
    simp only [← Nat.xor_assoc, Nat.xor_self, Nat.zero_xor] at e
    exact e
  simp [Nat.shiftLeft_eq] at h3

/-- **Every single-bit flip at every offset of a valid record is rejected with an error.** -/
theorem bitflip_fails {K : Type} (A : AEAD K) (reg : Nat → Option K) (L : Layout) (k0 : K) (keyId : Nat)
    (rep : PlainReport) (e1 c1 e2 c2 : Bytes) (hH : Honest L rep e1 c1 e2 c2)
    (hIdeal : OpenOnlySealed A [(k0, rep.info.toEncBytes, rep.matchKey, e1, c1),
                                (k0, rep.info.toEncBytes, rep.btt, e2, c2)])
    (hSizes : L.mkSz ≠ L.bk ∧ L.mkSz ≠ L.v) (hLen : OpenLen A L.tag)
    (hinj : ∀ kid, reg kid = some k0 → kid = keyId)
    (bit : Nat) (hbit : bit < 8 * (record rep keyId e1 c1 e2 c2).length) :
    ∃ e, process A reg L (flipBit (record rep keyId e1 c1 e2 c2) bit) = .err e :=
  tamper_fails_err A reg L k0 keyId rep e1 c1 e2 c2 hH hIdeal hSizes hLen hinj _ (flipBit_ne _ _ hbit)

/-- **A helper that does not hold the key the report was sealed to rejects every byte string.** -/
theorem wrong_key_fails {K : Type} (A : AEAD K) (reg : Nat → Option K) (L : Layout) (k0 : K)
    (log : List (K × Bytes × Bytes × Bytes × Bytes)) (hlog : ∀ x ∈ log, x.1 = k0)
    (hIdeal : OpenOnlySealed A log) (hLen : OpenLen A L.tag) (hreg : ∀ kid, reg kid ≠ some k0) (R' : Bytes) :
    ∃ e, process A reg L R' = .err e := by
  cases hp : process A reg L R' with
  | ok rep' =>
    exfalso
    unfold process at hp
    obtain ⟨r, hf, hd⟩ := bind_eq_ok hp
    obtain ⟨_, kid, sk, _, hr, _, hm, _, _⟩ := decrypt_ok_elim hd
    have := hlog _ (hIdeal _ _ _ _ _ hm)
    simp at this
    exact hreg kid (by rw [hr, this])
  | err e => exact ⟨e, rfl⟩
  | panic t => exact absurd hp (parse_total A reg L hLen R' t).2



/-! ## Layout -/

theorem fld_mid (x y z : Bytes) : fld (x ++ y ++ z) x.length (x.length + y.length) = y := by
  simp [fld]

theorem fld_first (x z : Bytes) : fld (x ++ z) 0 x.length = x := by
  simp [fld]

/-- **layout_partition**: every byte offset of a record (event byte + `INFO_OFFSET` bytes + `n` info bytes)
lies in exactly one of the seven fields; the fields are listed in order, each starts where the previous
one ends, the first starts at 0 and the last ends at the record length. -/
theorem layout_partition (L : Layout) (k : Kind) (n off : Nat) (h : off < 1 + infoOff L k + n) :
    (∃ f ∈ fields L k n, f.2.1 ≤ off ∧ off < f.2.2) ∧
    (∀ f g, f ∈ fields L k n → g ∈ fields L k n → f.2.1 ≤ off → off < f.2.2 → g.2.1 ≤ off → off < g.2.2 → f = g) := by
  obtain ⟨o1, o2, o3, o4, o5, o6⟩ := offsets L k
  constructor
  · simp only [fields, List.mem_cons, List.not_mem_nil, or_false, exists_eq_or_imp, exists_eq_left]
    omega
  · intro f g hf hg h1 h2 h3 h4
    simp only [fields, List.mem_cons, List.not_mem_nil, or_false] at hf hg
    rcases hf with rfl | rfl | rfl | rfl | rfl | rfl | rfl <;>
    rcases hg with rfl | rfl | rfl | rfl | rfl | rfl | rfl <;>
    first
      | rfl
      | (exfalso; simp only at h1 h2 h3 h4; omega)

/-- The fields tile the record: consecutive, starting at 0, ending at `encrypted_len()`. -/
theorem fields_contiguous (L : Layout) (info : Info) :
    let fs := fields L info.kind info.toBytes.length
    (fs.head?.map (·.2.1) = some 0) ∧ (fs.getLast?.map (·.2.2) = some (encryptedLen L info)) ∧
    (∀ i, i + 1 < fs.length → (fs[i]?.map (·.2.2)) = (fs[i+1]?.map (·.2.1))) := by
  obtain ⟨o1, o2, o3, o4, o5, o6⟩ := offsets L info.kind
  refine ⟨by simp [fields], by simp [fields, encryptedLen]; omega, ?_⟩
  intro i hi
  simp [fields] at hi
  have : i = 0 ∨ i = 1 ∨ i = 2 ∨ i = 3 ∨ i = 4 ∨ i = 5 := by omega
  rcases this with rfl | rfl | rfl | rfl | rfl | rfl <;> simp [fields, o1]




/-! ## Round trip -/

/-- HPKE correctness: what was sealed to `k` under `info` opens under `k` and `info`. -/
def OpenSeal {K : Type} (A : AEAD K) (S : Sealer K) : Prop :=
  ∀ k info m r, A.open' k (S.sealFn k info m r).1 (S.sealFn k info m r).2 info = some m

/-- sizes of the sealed parts: encapsulated key, and plaintext + tag -/
def SealLen {K : Type} (S : Sealer K) (L : Layout) : Prop :=
  ∀ k info m r, (S.sealFn k info m r).1.length = L.encap ∧ (S.sealFn k info m r).2.length = m.length + L.tag

/-- A report as the sender's types guarantee it: share sizes, canonical padding, and metadata accepted by
`HybridConversionInfo::new` (ASCII ⇒ UTF-8; NUL-free after the F7 fix). -/
structure WfReport (L : Layout) (rep : PlainReport) : Prop where
  mkLen : rep.matchKey.length = L.mkSz
  bttLen : rep.btt.length = L.btt rep.info.kind
  share : validShare (L.bttBits rep.info.kind) rep.btt = true
  infoOk : match rep.info with
    | .imp _ => True
    | .conv c => c.Wf ∧ 0 ∉ c.site ∧ utf8Valid c.site = true

theorem parseInfo_toBytes (info : Info)
    (h : match info with | .imp _ => True | .conv c => c.Wf ∧ 0 ∉ c.site ∧ utf8Valid c.site = true) :
    parseInfo info.kind info.toBytes = .ok info := by
  cases info with
  | imp i => simp [parseInfo, Info.kind, Info.toBytes, info_roundtrip_imp, Outcome.mapErr]
  | conv c =>
    obtain ⟨h1, h2, h3⟩ := h
    simp [parseInfo, Info.kind, Info.toBytes, info_roundtrip c h1 h2 h3, Outcome.mapErr]

theorem pieces (e1 c1 e2 c2 ib : Bytes) (kid : Nat) :
    let d := e1 ++ c1 ++ e2 ++ c2 ++ [kid] ++ ib
    fld d 0 e1.length = e1 ∧
    fld d e1.length (e1.length + c1.length) = c1 ∧
    fld d (e1.length + c1.length) (e1.length + c1.length + e2.length) = e2 ∧
    fld d (e1.length + c1.length + e2.length) (e1.length + c1.length + e2.length + c2.length) = c2 ∧
    d[e1.length + c1.length + e2.length + c2.length]? = some kid ∧
    d.drop (e1.length + c1.length + e2.length + c2.length + 1) = ib := by
  refine ⟨?_, ?_, ?_, ?_, ?_, ?_⟩
  · simp only [List.append_assoc]; exact fld_first _ _
  · have := fld_mid e1 c1 (e2 ++ c2 ++ [kid] ++ ib)
    simpa only [List.append_assoc] using this
  · have := fld_mid (e1 ++ c1) e2 (c2 ++ [kid] ++ ib)
    simpa only [List.append_assoc, List.length_append] using this
  · have := fld_mid (e1 ++ c1 ++ e2) c2 ([kid] ++ ib)
    simpa only [List.append_assoc, List.length_append, Nat.add_assoc] using this
  · have : (e1 ++ c1 ++ e2 ++ c2).length = e1.length + c1.length + e2.length + c2.length := by
      simp only [List.length_append]
    rw [← this]
    simp only [List.append_assoc]
    simp
  · have : (e1 ++ c1 ++ e2 ++ c2 ++ [kid]).length = e1.length + c1.length + e2.length + c2.length + 1 := by
      simp only [List.length_append, List.length_cons, List.length_nil]
    rw [← this, List.drop_left]

theorem fromBytes_evt (L : Layout) (k : Kind) (data : Bytes) (h : infoOff L k ≤ data.length) :
    fromBytes L (evtByte k :: data) = .ok { kind := k, data } := by
  cases k <;>
  simp [fromBytes, fromBytesKind, evtByte, Report.evtImpression, Report.evtConversion] <;> omega

/-- **decrypt_encrypt**: a report encrypted to key `k` (registered under `keyId`) decrypts under that
registry to exactly the original shares and metadata. -/
theorem decrypt_encrypt {K : Type} (A : AEAD K) (S : Sealer K) (reg : Nat → Option K) (L : Layout)
    (k : K) (keyId : Nat) (rep : PlainReport) (r1 r2 : Nat)
    (hOS : OpenSeal A S) (hSL : SealLen S L) (hreg : reg keyId = some k) (hw : WfReport L rep) :
    process A reg L (encrypt S k keyId rep r1 r2) = .ok rep := by
  obtain ⟨o1, o2, o3, o4, o5, o6⟩ := offsets L rep.info.kind
  obtain ⟨le1, lc1⟩ := hSL k rep.info.toEncBytes rep.matchKey r1
  obtain ⟨le2, lc2⟩ := hSL k rep.info.toEncBytes rep.btt r2
  have ho1 := hOS k rep.info.toEncBytes rep.matchKey r1
  have ho2 := hOS k rep.info.toEncBytes rep.btt r2
  simp only [encrypt]
  generalize S.sealFn k rep.info.toEncBytes rep.matchKey r1 = s1 at *
  generalize S.sealFn k rep.info.toEncBytes rep.btt r2 = s2 at *
  obtain ⟨p1, p2, p3, p4, p5, p6⟩ := pieces s1.1 s1.2 s2.1 s2.2 rep.info.toBytes keyId
  have hmk := hw.mkLen
  have hbt := hw.bttLen
  generalize hd : s1.1 ++ s1.2 ++ s2.1 ++ s2.2 ++ [keyId] ++ rep.info.toBytes = d at *
  have hdl : d.length = infoOff L rep.info.kind + rep.info.toBytes.length := by
    rw [← hd]
    simp only [List.length_append, List.length_cons, List.length_nil, le1, lc1, le2, lc2, hmk, hbt]; omega
  simp only [le1, lc1, le2, lc2, hmk, hbt] at p1 p2 p3 p4 p5 p6
  have q1 : fld d (encapMkOff L rep.info.kind) (ctMkOff L rep.info.kind) = s1.1 := by rw [o1, o2]; exact p1
  have q2 : fld d (ctMkOff L rep.info.kind) (encapBttOff L rep.info.kind) = s1.2 := by
    rw [o2, o3, show L.encap + L.tag + L.mkSz = L.encap + (L.mkSz + L.tag) by omega]; exact p2
  have q3 : fld d (encapBttOff L rep.info.kind) (ctBttOff L rep.info.kind) = s2.1 := by
    rw [o3, o4, show L.encap + L.tag + L.mkSz = L.encap + (L.mkSz + L.tag) by omega]; exact p3
  have q4 : fld d (ctBttOff L rep.info.kind) (keyIdOff L rep.info.kind) = s2.2 := by
    rw [o4, o5, show L.encap + L.tag + L.mkSz + L.encap = L.encap + (L.mkSz + L.tag) + L.encap by omega,
      show L.encap + (L.mkSz + L.tag) + L.encap + L.tag + L.btt rep.info.kind
        = L.encap + (L.mkSz + L.tag) + L.encap + (L.btt rep.info.kind + L.tag) by omega]
    exact p4
  have q5 : d[keyIdOff L rep.info.kind]? = some keyId := by
    rw [o5, show L.encap + L.tag + L.mkSz + L.encap + L.tag + L.btt rep.info.kind
        = L.encap + (L.mkSz + L.tag) + L.encap + (L.btt rep.info.kind + L.tag) by omega]
    exact p5
  have q6 : d.drop (infoOff L rep.info.kind) = rep.info.toBytes := by
    rw [o6, show L.encap + L.tag + L.mkSz + L.encap + L.tag + L.btt rep.info.kind + 1
        = L.encap + (L.mkSz + L.tag) + L.encap + (L.btt rep.info.kind + L.tag) + 1 by omega]
    exact p6
  have hlen : infoOff L rep.info.kind ≤ d.length := by omega
  unfold process
  rw [fromBytes_evt L rep.info.kind d hlen, bind_ok]
  have s1' := slice_ok (d := d) (a := ctMkOff L rep.info.kind) (b := encapBttOff L rep.info.kind) (by omega) (by omega)
  have s2' : index d (keyIdOff L rep.info.kind) = .ok keyId := by simp [index, q5]
  have s3' : sliceFrom d (infoOff L rep.info.kind) = .ok rep.info.toBytes := by simp [sliceFrom, hlen, q6]
  have s4' := slice_ok (d := d) (a := encapMkOff L rep.info.kind) (b := ctMkOff L rep.info.kind) (by omega) (by omega)
  have s5' := slice_ok (d := d) (a := ctBttOff L rep.info.kind) (b := keyIdOff L rep.info.kind) (by omega) (by omega)
  have s6' := slice_ok (d := d) (a := encapBttOff L rep.info.kind) (b := ctBttOff L rep.info.kind) (by omega) (by omega)
  rw [q2] at s1'
  rw [q1] at s4'
  rw [q4] at s5'
  rw [q3] at s6'
  have hpi := parseInfo_toBytes rep.info hw.infoOk
  have f1 : fromSlice (L.mkSz + L.tag) s1.2 = .ok s1.2 := fromSlice_ok (by rw [lc1, hmk])
  have f2 : fromSlice (L.btt rep.info.kind + L.tag) s2.2 = .ok s2.2 := fromSlice_ok (by rw [lc2, hbt])
  unfold decrypt
  simp only [bind_eq, s1', bind_ok, f1, s2', hreg, s3', hpi, s4', ho1, s5',
    f2, s6', ho2, fromSlice_ok hmk, fromSlice_ok hbt, hw.share, if_true]



/-! ## The hypotheses are satisfiable (non-vacuity) -/

/-- The ideal AEAD whose sealing log is `log`: `open` is a table lookup. -/
def tableAEAD (tag : Nat) (log : List (Nat × Bytes × Bytes × Bytes × Bytes)) : AEAD Nat where
  open' k enc ct info :=
    (log.find? (fun e => e.1 == k && e.2.1 == info && e.2.2.2.1 == enc && e.2.2.2.2 == ct
        && e.2.2.1.length + tag == ct.length)).map (·.2.2.1)

/-- For every log, the table AEAD is ideal w.r.t. that log and works "in place". -/
theorem tableAEAD_ideal (tag : Nat) (log : List (Nat × Bytes × Bytes × Bytes × Bytes)) :
    OpenOnlySealed (tableAEAD tag log) log ∧ OpenLen (tableAEAD tag log) tag := by
  constructor
  · intro k enc ct info m h
    simp only [tableAEAD, Option.map_eq_some_iff] at h
    obtain ⟨e, he, hm⟩ := h
    have hmem := List.mem_of_find?_eq_some he
    have hp := List.find?_some he
    simp only [Bool.and_eq_true, beq_iff_eq] at hp
    obtain ⟨⟨⟨⟨h1, h2⟩, h3⟩, h4⟩, _⟩ := hp
    obtain ⟨a, b, c, d, f⟩ := e
    simp_all
  · intro k enc ct info m h
    simp only [tableAEAD, Option.map_eq_some_iff] at h
    obtain ⟨e, he, hm⟩ := h
    have hp := List.find?_some he
    simp only [Bool.and_eq_true, beq_iff_eq] at hp
    subst hm
    exact hp.2

/-- A toy sealer/opener pair (keyed checksum as "tag") satisfying correctness and the size laws. -/
def toyTag (tag k : Nat) (info plain : Bytes) : Bytes := List.replicate tag ((k + info.length + plain.sum) % 256)

def toySealer (encap tag : Nat) : Sealer Nat where
  sealFn k info plain r := (List.replicate encap (r % 256), plain ++ toyTag tag k info plain)

def toyAEAD (tag : Nat) : AEAD Nat where
  open' k _enc ct info :=
    let plain := ct.take (ct.length - tag)
    if tag ≤ ct.length ∧ ct.drop (ct.length - tag) = toyTag tag k info plain then some plain else none

theorem toy_laws (L : Layout) :
    OpenSeal (toyAEAD L.tag) (toySealer L.encap L.tag) ∧ SealLen (toySealer L.encap L.tag) L ∧
    OpenLen (toyAEAD L.tag) L.tag := by
  refine ⟨?_, ?_, ?_⟩
  · intro k info m r
    simp [toyAEAD, toySealer, toyTag]
  · intro k info m r
    simp [toySealer, toyTag]
  · intro k enc ct info m h
    simp only [toyAEAD] at h
    split at h
    · rename_i hc
      simp at h; subst h
      simp; omega
    · simp at h

def exRep : PlainReport :=
  { matchKey := List.replicate 16 7
    btt := [5, 2]
    info := .conv { keyId := 1, site := [109, 46, 99], ts := List.replicate 8 255, eps := List.replicate 8 0,
                    sens := [127, 248, 0, 0, 0, 0, 0, 0] } }

/-- `decrypt_encrypt` applies: a concrete conversion report with the production layout round-trips. -/
example :
    process (toyAEAD prodLayout.tag) (fun kid => if kid = 1 then some 42 else none) prodLayout
      (encrypt (toySealer prodLayout.encap prodLayout.tag) 42 1 exRep 3 4) = .ok exRep := by
  obtain ⟨h1, h2, _⟩ := toy_laws prodLayout
  exact decrypt_encrypt _ _ _ _ 42 1 exRep 3 4 h1 h2 (by simp) ⟨by decide, by decide, by decide, ⟨⟨by decide, by decide, by decide⟩, by decide, by decide⟩⟩

/-- the production layout satisfies the size side condition of `tamper_fails` -/
theorem prod_sizes : prodLayout.mkSz ≠ prodLayout.bk ∧ prodLayout.mkSz ≠ prodLayout.v := by decide




/-- a miniature layout (1-byte encapsulated keys and tags) for concrete instances -/
def tinyLayout : Layout := { encap := 1, tag := 1, mkSz := 2, bk := 1, bkBits := 8, v := 1, vBits := 8 }
def tinyRep : PlainReport := { matchKey := [1, 2], btt := [3], info := .imp { keyId := 0 } }
def tinyLog : List (Nat × Bytes × Bytes × Bytes × Bytes) :=
  [(5, tinyRep.info.toEncBytes, tinyRep.matchKey, [9], [1, 2, 7]), (5, tinyRep.info.toEncBytes, tinyRep.btt, [8], [3, 6])]
def tinyReg : Nat → Option Nat := fun kid => if kid = 0 then some 5 else none

/-- `tamper_fails`/`bitflip_fails` are not vacuous: all hypotheses hold for the table AEAD, and the honest
record itself is accepted. -/
example : ∀ bit, bit < 8 * (record tinyRep 0 [9] [1, 2, 7] [8] [3, 6]).length →
    ∃ e, process (tableAEAD 1 tinyLog) tinyReg tinyLayout (flipBit (record tinyRep 0 [9] [1, 2, 7] [8] [3, 6]) bit) = .err e := by
  intro bit hbit
  refine bitflip_fails (tableAEAD 1 tinyLog) tinyReg tinyLayout 5 0 tinyRep [9] [1, 2, 7] [8] [3, 6]
    ⟨by decide, by decide, by decide, by decide, trivial⟩ (tableAEAD_ideal 1 tinyLog).1 (by decide)
    (tableAEAD_ideal 1 tinyLog).2 ?_ bit hbit
  intro kid h
  simp only [tinyReg] at h
  split at h
  · assumption
  · simp at h

example : process (tableAEAD 1 tinyLog) tinyReg tinyLayout (record tinyRep 0 [9] [1, 2, 7] [8] [3, 6]) = .ok tinyRep := by
  decide

/-- The size side condition of `tamper_fails` is necessary: when the breakdown key has the size of the
match key, exchanging the two sealed parts (both sealed under the same info string) is accepted and
yields a *different* report. Not reachable with the production types (`prod_sizes`). -/
theorem swap_needs_sizes :
    let L : Layout := { tinyLayout with mkSz := 1 }
    let rep : PlainReport := { matchKey := [1], btt := [3], info := .imp { keyId := 0 } }
    let log := [(5, rep.info.toEncBytes, rep.matchKey, [9], [1, 7]), (5, rep.info.toEncBytes, rep.btt, [8], [3, 6])]
    process (tableAEAD 1 log) tinyReg L (record rep 0 [8] [3, 6] [9] [1, 7]) = .ok { rep with matchKey := [3], btt := [1] } := by
  decide

/-! ## Length-delimited input -/

/-- a zero-length record is an error value -/
theorem empty_record_err {K : Type} (A : AEAD K) (reg : Nat → Option K) (L : Layout) :
    process A reg L [] = .err (.length 0 1) := rfl

/-- **stream_total**: whatever body arrives, framing either fails cleanly or hands over records each of
which is processed without panic. -/
theorem stream_total {K : Type} (A : AEAD K) (reg : Nat → Option K) (L : Layout) (hA : OpenLen A L.tag)
    (body : Bytes) (outs : List (Outcome PlainReport)) (h : processStream A reg L body = some outs) :
    ∀ o ∈ outs, ∀ t, o ≠ .panic t := by
  simp only [processStream, Option.map_eq_some_iff] at h
  obtain ⟨fs, _, rfl⟩ := h
  intro o ho t
  simp only [List.mem_map] at ho
  obtain ⟨f, _, rfl⟩ := ho
  exact (parse_total A reg L hA f t).2


end IpaVerif.C10
