import IpaVerif.Model.Reshard
/-!
# C19 — resharding moves each record to its chosen shard once, in the same order on all helpers

Theorems about `IpaVerif.Reshard` for every shard count `n`, every input, every shard picker and
EVERY merge schedule of the receive side. Core Lean only.
-/
namespace IpaVerif.C19
open IpaVerif.Reshard

/-! ## The order is independent of the message timing -/

theorem recvStep_inv {α : Type} (st : Recv α) (s0 s : Nat) :
    (recvStep st s0).buckets s ++ (recvStep st s0).chans s = st.buckets s ++ st.chans s := by
  unfold recvStep
  cases h : st.chans s0 with
  | nil => rfl
  | cons x rest =>
    simp only [upd]
    by_cases hs : s = s0
    · subst hs; simp [h]
    · simp [hs]

/-- Invariant of the receive loop: what is in a bucket followed by what is still in flight from that
source is constant. -/
theorem runSched_inv {α : Type} (sched : List Nat) : ∀ (st : Recv α) (s : Nat),
    (runSched st sched).buckets s ++ (runSched st sched).chans s = st.buckets s ++ st.chans s := by
  induction sched with
  | nil => intro st s; rfl
  | cons s0 rest ih =>
    intro st s
    have := ih (recvStep st s0) s
    simp only [runSched, List.foldl_cons] at this ⊢
    rw [this, recvStep_inv]

theorem flatMap_congr_range {α : Type} (n : Nat) (f g : Nat → List α) (h : ∀ s, s < n → f s = g s) :
    (List.range n).flatMap f = (List.range n).flatMap g := by
  induction n with
  | zero => rfl
  | succ n ih =>
    rw [List.range_succ, List.flatMap_append, List.flatMap_append, ih (fun s hs => h s (by omega))]
    simp [h n (by omega)]

/-- **reshard_order_deterministic**: for EVERY merge schedule that delivers all messages, shard `d`
ends with `concat over sources s (in index order) of [records of s routed to d, in input order]` —
a function of the inputs and the picker only. Hence the three helpers, which apply the same picker
to aligned shares, hold their shares in the same order whatever the timing of the exchanges. -/
theorem reshard_order_deterministic {α : Type} (n : Nat) (pick : Nat → Nat → α → Nat)
    (inputs : Nat → List α) (d : Nat) (sched : List Nat)
    (hd : drained n (runSched (initRecv pick inputs d) sched)) :
    resultUnder n pick inputs d sched = reshard n pick inputs d := by
  unfold resultUnder reshard flattenBuckets
  apply flatMap_congr_range
  intro s hs
  have := runSched_inv sched (initRecv pick inputs d) s
  rw [hd s hs] at this
  simpa [initRecv] using this

/-- Two helpers (different share values `inputs`/`inputs'`, same picker decisions) under two
different schedules end with position-wise corresponding records: the result lists are both the
schedule-free `reshard`. -/
theorem reshard_same_order_across_helpers {α : Type} (n : Nat) (pick : Nat → Nat → α → Nat)
    (inputs : Nat → List α) (d : Nat) (sched sched' : List Nat)
    (h : drained n (runSched (initRecv pick inputs d) sched))
    (h' : drained n (runSched (initRecv pick inputs d) sched')) :
    resultUnder n pick inputs d sched = resultUnder n pick inputs d sched' := by
  rw [reshard_order_deterministic n pick inputs d sched h, reshard_order_deterministic n pick inputs d sched' h']

-- non-vacuity: two different complete schedules on a concrete instance
example : drained 2 (runSched (initRecv (fun _ i (_ : Nat) => i % 2) (fun s => [10 * s, 10 * s + 1, 10 * s + 2]) 0) [1, 0, 0, 1]) := by
  intro s hs
  match s, hs with
  | 0, _ => decide
  | 1, _ => decide
example : resultUnder 2 (fun _ i (_ : Nat) => i % 2) (fun s => [10 * s, 10 * s + 1, 10 * s + 2]) 0 [1, 0, 0, 1] = [0, 2, 10, 12] := by decide
example : resultUnder 2 (fun _ i (_ : Nat) => i % 2) (fun s => [10 * s, 10 * s + 1, 10 * s + 2]) 0 [0, 1, 1, 0] = [0, 2, 10, 12] := by decide

/-! ## Exactly once, on the chosen shard -/

theorem mem_outgoing {α : Type} (pick : Nat → Nat → α → Nat) (src d : Nat) (xs : List α) :
    ∀ (i : Nat) (x : α), x ∈ outgoing pick src d i xs → ∃ k, xs[k]? = some x ∧ pick src (i + k) x = d := by
  induction xs with
  | nil => intro i x h; simp [outgoing] at h
  | cons y ys ih =>
    intro i x h
    simp only [outgoing] at h
    split at h
    · rename_i hp
      rcases List.mem_cons.mp h with rfl | h
      · exact ⟨0, by simp, by simpa using hp⟩
      · obtain ⟨k, hk, hpk⟩ := ih (i + 1) x h
        exact ⟨k + 1, by simpa using hk, by rw [← hpk]; congr 1; omega⟩
    · obtain ⟨k, hk, hpk⟩ := ih (i + 1) x h
      exact ⟨k + 1, by simpa using hk, by rw [← hpk]; congr 1; omega⟩

def sumN (n : Nat) (f : Nat → Nat) : Nat := ((List.range n).map f).sum

theorem sumN_succ (n : Nat) (f : Nat → Nat) : sumN (n + 1) f = sumN n f + f n := by
  simp [sumN, List.range_succ]

theorem sumN_const_zero (n : Nat) : sumN n (fun _ => 0) = 0 := by
  induction n with
  | zero => simp [sumN]
  | succ n ih => rw [sumN_succ, ih]

theorem sumN_add (n : Nat) (f g : Nat → Nat) : sumN n (fun i => f i + g i) = sumN n f + sumN n g := by
  induction n with
  | zero => simp [sumN]
  | succ n ih => rw [sumN_succ, sumN_succ, sumN_succ, ih]; omega

theorem sumN_congr (n : Nat) (f g : Nat → Nat) (h : ∀ i, i < n → f i = g i) : sumN n f = sumN n g := by
  induction n with
  | zero => simp [sumN]
  | succ n ih =>
    rw [sumN_succ, sumN_succ, ih (fun i hi => h i (by omega)), h n (by omega)]

theorem sumN_swap (n m : Nat) (f : Nat → Nat → Nat) :
    sumN n (fun d => sumN m (fun s => f d s)) = sumN m (fun s => sumN n (fun d => f d s)) := by
  induction n with
  | zero =>
    have : sumN m (fun s => sumN 0 (fun d => f d s)) = sumN m (fun _ => 0) :=
      sumN_congr m _ _ (fun s _ => by simp [sumN])
    rw [this, sumN_const_zero]; simp [sumN]
  | succ n ih =>
    rw [sumN_succ, ih]
    have : sumN m (fun s => sumN (n + 1) (fun d => f d s)) = sumN m (fun s => sumN n (fun d => f d s) + f n s) :=
      sumN_congr m _ _ (fun s _ => sumN_succ n _)
    rw [this, sumN_add]

/-- exactly one `d < n` equals `k` -/
theorem sumN_ite (n k c : Nat) (hk : k < n) : sumN n (fun d => if k = d then c else 0) = c := by
  induction n with
  | zero => omega
  | succ n ih =>
    rw [sumN_succ]
    by_cases h : k = n
    · subst h
      have : sumN k (fun d => if k = d then c else 0) = sumN k (fun _ => 0) :=
        sumN_congr k _ _ (fun i hi => by simp; omega)
      rw [this]
      simp [sumN_const_zero]
    · rw [ih (by omega)]; simp [h]

theorem countP_flatMap_range {α : Type} (p : α → Bool) (n : Nat) (g : Nat → List α) :
    ((List.range n).flatMap g).countP p = sumN n (fun s => (g s).countP p) := by
  induction n with
  | zero => simp [sumN]
  | succ n ih => rw [List.range_succ, List.flatMap_append, List.countP_append, ih, sumN_succ]; simp

/-- per source: the records of `xs` are split among the `n` destinations without loss or duplication -/
theorem outgoing_partition {α : Type} (p : α → Bool) (n : Nat) (pick : Nat → Nat → α → Nat) (src : Nat)
    (hp : ∀ i x, pick src i x < n) (xs : List α) : ∀ i,
    sumN n (fun d => (outgoing pick src d i xs).countP p) = xs.countP p := by
  induction xs with
  | nil => intro i; simp [outgoing, sumN_const_zero]
  | cons x xs ih =>
    intro i
    have : sumN n (fun d => (outgoing pick src d i (x :: xs)).countP p)
         = sumN n (fun d => (if pick src i x = d then (if p x then 1 else 0) else 0) + (outgoing pick src d (i + 1) xs).countP p) := by
      apply sumN_congr
      intro d _
      simp only [outgoing]
      split <;> simp [List.countP_cons] <;> omega
    rw [this, sumN_add, sumN_ite n _ _ (hp i x), ih (i + 1), List.countP_cons]
    omega

/-- **reshard_exact**: (1) whatever shard `d` ends up holding was an input record of some shard whose
picker value is `d` — nothing lands on a shard it was not selected for; (2) for every predicate, the
number of records satisfying it is the same before and after over all shards — nothing is lost or
duplicated (so the multiset of records over all shards is unchanged). -/
theorem reshard_exact {α : Type} (n : Nat) (pick : Nat → Nat → α → Nat) (inputs : Nat → List α)
    (hp : ∀ s i x, pick s i x < n) :
    (∀ d x, x ∈ reshard n pick inputs d → ∃ s k, s < n ∧ (inputs s)[k]? = some x ∧ pick s k x = d) ∧
    (∀ p : α → Bool, sumN n (fun d => (reshard n pick inputs d).countP p) = sumN n (fun s => (inputs s).countP p)) := by
  refine ⟨?_, ?_⟩
  · intro d x hx
    unfold reshard at hx
    obtain ⟨s, hs, hxs⟩ := List.mem_flatMap.mp hx
    obtain ⟨k, hk, hpk⟩ := mem_outgoing pick s d (inputs s) 0 x hxs
    exact ⟨s, k, List.mem_range.mp hs, hk, by simpa using hpk⟩
  · intro p
    have h1 : sumN n (fun d => (reshard n pick inputs d).countP p)
        = sumN n (fun d => sumN n (fun s => (outgoing pick s d 0 (inputs s)).countP p)) :=
      sumN_congr n _ _ (fun d _ => countP_flatMap_range p n _)
    rw [h1, sumN_swap]
    exact sumN_congr n _ _ (fun s _ => outgoing_partition p n pick s (hp s) (inputs s) 0)

/-- Multiset form for types with decidable equality: concatenating all shards' outputs is a
permutation of concatenating all shards' inputs. -/
theorem reshard_perm {α : Type} [DecidableEq α] (n : Nat) (pick : Nat → Nat → α → Nat) (inputs : Nat → List α)
    (hp : ∀ s i x, pick s i x < n) :
    ((List.range n).flatMap (reshard n pick inputs)).Perm ((List.range n).flatMap inputs) := by
  rw [List.perm_iff_count]
  intro a
  have := (reshard_exact n pick inputs hp).2 (fun x : α => x == a)
  simp only [List.count]
  rw [countP_flatMap_range, countP_flatMap_range]
  exact this

example : ∀ (s i x : Nat), (fun (_ i _ : Nat) => i % 3) s i x < 3 := fun _ i _ => Nat.mod_lt i (by decide)

/-! ## Errors fail the operation; short inputs are fine -/

theorem sendLoop_ok {α : Type} (hint : Nat) (items : List (Option α)) : ∀ i,
    (sendLoop hint i items).2 = false →
      (sendLoop hint i items).1 = items.filterMap id ∧ (∀ x ∈ items, x ≠ none) ∧ i + items.length ≤ hint ∨ items = [] := by
  induction items with
  | nil => intro i _; exact Or.inr rfl
  | cons x xs ih =>
    intro i h
    cases x with
    | none => simp [sendLoop] at h
    | some v =>
      simp only [sendLoop] at h ⊢
      split at h
      · simp at h
      · rename_i hlt
        have hlt' : ¬ hint ≤ i := by omega
        simp only at h
        rcases ih (i + 1) h with ⟨h1, h2, h3⟩ | hnil
        · refine Or.inl ⟨by simp [hlt', h1], ?_, by simp; omega⟩
          intro y hy
          rcases List.mem_cons.mp hy with rfl | hy
          · simp
          · exact h2 y hy
        · subst hnil
          refine Or.inl ⟨by simp [sendLoop, hlt'], by simp, by simp; omega⟩

/-- **reshard_error_fails**: if the input stream of ANY shard yields an `Err` item, or more items
than its size hint, no shard returns `Ok` — in particular the failing shard returns `Err`; and
whenever a shard does return `Ok`, every shard's stream was error-free and the result is the
resharding of ALL their items (no record silently dropped). -/
theorem reshard_error_fails {α : Type} (n : Nat) (pick : Nat → Nat → α → Nat)
    (items : Nat → List (Option α)) (hints : Nat → Nat) (d : Nat) :
    (∀ s, s < n → (sendLoop (hints s) 0 (items s)).2 = true → shardResult n pick items hints d = none) ∧
    (∀ l, shardResult n pick items hints d = some l →
        (∀ s, s < n → ∀ x ∈ items s, x ≠ none) ∧
        l = reshard n pick (fun s => (items s).filterMap id) d) := by
  refine ⟨?_, ?_⟩
  · intro s hs hf
    unfold shardResult
    have : (List.range n).any (fun s => (sendLoop (hints s) 0 (items s)).2) = true :=
      List.any_eq_true.mpr ⟨s, List.mem_range.mpr hs, hf⟩
    simp [this]
  · intro l hl
    unfold shardResult at hl
    split at hl
    · cases hl
    · rename_i hany
      have hall : ∀ s, s < n → (sendLoop (hints s) 0 (items s)).2 = false := by
        intro s hs
        cases h : (sendLoop (hints s) 0 (items s)).2 with
        | false => rfl
        | true => exact absurd (List.any_eq_true.mpr ⟨s, List.mem_range.mpr hs, h⟩) hany
      refine ⟨?_, ?_⟩
      · intro s hs x hx
        rcases sendLoop_ok (hints s) (items s) 0 (hall s hs) with ⟨_, h2, _⟩ | hnil
        · exact h2 x hx
        · rw [hnil] at hx; cases hx
      · injection hl with hl
        rw [← hl]
        unfold reshard
        apply flatMap_congr_range
        intro s hs
        show outgoing pick s d 0 (sendLoop (hints s) 0 (items s)).1 = outgoing pick s d 0 ((items s).filterMap id)
        rcases sendLoop_ok (hints s) (items s) 0 (hall s hs) with ⟨h1, _, _⟩ | hnil
        · rw [h1]
        · rw [hnil]; simp [sendLoop]

theorem sendLoop_short {α : Type} (hint : Nat) (xs : List α) : ∀ i, i + xs.length ≤ hint →
    sendLoop hint i (xs.map some) = (xs, false) := by
  induction xs with
  | nil => intro i _; rfl
  | cons x xs ih =>
    intro i h
    simp only [List.map_cons, sendLoop]
    have : ¬ i ≥ hint := by simp at h; omega
    simp only [this, if_false]
    rw [ih (i + 1) (by simp at h; omega)]

/-- **short_input_ok**: streams that are error-free and not longer than their size hint — possibly
much SHORTER than the hint, possibly empty — reshard successfully to exactly `reshard`. -/
theorem short_input_ok {α : Type} (n : Nat) (pick : Nat → Nat → α → Nat) (inputs : Nat → List α)
    (hints : Nat → Nat) (hh : ∀ s, s < n → (inputs s).length ≤ hints s) (d : Nat) :
    shardResult n pick (fun s => (inputs s).map some) hints d = some (reshard n pick inputs d) := by
  unfold shardResult
  have hs : ∀ s, s < n → sendLoop (hints s) 0 ((inputs s).map some) = (inputs s, false) :=
    fun s h => sendLoop_short (hints s) (inputs s) 0 (by simpa using hh s h)
  have : (List.range n).any (fun s => (sendLoop (hints s) 0 ((inputs s).map some)).2) = false := by
    rw [List.any_eq_false]
    intro s hmem
    simp [hs s (List.mem_range.mp hmem)]
  simp only [this]
  simp only [Bool.false_eq_true, if_false]
  congr 1
  unfold reshard
  apply flatMap_congr_range
  intro s h
  show outgoing pick s d 0 (sendLoop (hints s) 0 ((inputs s).map some)).1 = outgoing pick s d 0 (inputs s)
  rw [hs s h]

/-- `shardOutcome` refines `shardResult`: a shard returns `Ok l` in the one iff in the other. -/
theorem shardOutcome_ok_iff {α : Type} (n : Nat) (pick : Nat → Nat → α → Nat)
    (items : Nat → List (Option α)) (hints : Nat → Nat) (d : Nat) (hd : d < n) (l : List α) :
    shardOutcome n pick items hints d = .ok l ↔ shardResult n pick items hints d = some l := by
  unfold shardOutcome shardResult
  by_cases hany : (List.range n).any (ownFails items hints) = true
  · have hany' : (List.range n).any (fun s => (sendLoop (hints s) 0 (items s)).2) = true := hany
    rw [if_pos hany']
    by_cases ho : ownFails items hints d = true
    · simp [ho]
    · simp [ho, hany]
  · have hany' : ¬ (List.range n).any (fun s => (sendLoop (hints s) 0 (items s)).2) = true := hany
    have ho : ¬ ownFails items hints d = true := fun h =>
      hany (List.any_eq_true.mpr ⟨d, List.mem_range.mpr hd, h⟩)
    rw [if_neg hany', if_neg ho, if_neg hany]
    constructor
    · intro h; injection h with h; rw [h]
    · intro h; injection h with h; rw [h]

/-- **reshard_failure_outcomes**: if the input stream of shard `s` fails (an `Err` item or more items
than its size hint), then `s` itself returns `Err`; every shard whose own stream is fine never returns
(it is not told about the failure: the failing shard drops its channels unclosed); hence NO shard
returns `Ok` — no shard continues with a record set from which records of the failed stream are missing. -/
theorem reshard_failure_outcomes {α : Type} (n : Nat) (pick : Nat → Nat → α → Nat)
    (items : Nat → List (Option α)) (hints : Nat → Nat) (s : Nat) (hs : s < n)
    (hf : ownFails items hints s = true) :
    shardOutcome n pick items hints s = .err ∧
    (∀ d, ownFails items hints d = false → shardOutcome n pick items hints d = .hang) ∧
    (∀ d l, shardOutcome n pick items hints d ≠ .ok l) := by
  have hany : (List.range n).any (ownFails items hints) = true :=
    List.any_eq_true.mpr ⟨s, List.mem_range.mpr hs, hf⟩
  refine ⟨by simp [shardOutcome, hf], ?_, ?_⟩
  · intro d hd
    simp [shardOutcome, hd, hany]
  · intro d l
    unfold shardOutcome
    by_cases ho : ownFails items hints d = true
    · simp [ho]
    · simp [ho, hany]

/-- conversely a shard that waits forever or fails witnesses a failed input stream -/
theorem reshard_not_ok_only_on_failure {α : Type} (n : Nat) (pick : Nat → Nat → α → Nat)
    (items : Nat → List (Option α)) (hints : Nat → Nat) (d : Nat) (hd : d < n)
    (h : ∀ l, shardOutcome n pick items hints d ≠ .ok l) :
    ∃ s, s < n ∧ ownFails items hints s = true := by
  unfold shardOutcome at h
  by_cases ho : ownFails items hints d = true
  · exact ⟨d, hd, ho⟩
  · by_cases hany : (List.range n).any (ownFails items hints) = true
    · obtain ⟨s, hs, hf⟩ := List.any_eq_true.mp hany
      exact ⟨s, List.mem_range.mp hs, hf⟩
    · simp [ho, hany] at h

example : shardResult 2 (fun _ i (_ : Nat) => i % 2) (fun s => [some (10 * s), none]) (fun _ => 5) 0 = none := by decide
example : shardResult 2 (fun _ i (_ : Nat) => i % 2) (fun s => [some (10 * s), some 7]) (fun _ => 5) 1 = some [7, 7] := by decide
-- exactly one failing shard (shard 1, `Err` after its first record): it fails, shard 0 waits forever
example : (List.range 2).map (shardOutcome 2 (fun _ i (_ : Nat) => i % 2) (fun s => if s = 1 then [some 10, none, some 11] else [some 1, some 2]) (fun _ => 5))
    = [.hang, .err] := by decide
-- a stream longer than its size hint on shard 0 only
example : (List.range 3).map (shardOutcome 3 (fun s _ (_ : Nat) => s) (fun s => [some s, some (s + 10)]) (fun s => if s = 0 then 1 else 2))
    = [.err, .hang, .hang] := by decide

/-- Documentation of the repaired defect (`c19.reshard try 2 1,1,1,1/0,0,0 0,-1 -`): shard 1 holds three
records, all routed to shard 0, behind a size hint of 2. BEFORE the repair shard 1 failed at its third record
while shard 0 returned `Ok` with two of the three records routed to it — a record was dropped although the
input stream failed. With the repaired code shard 0 does not return `Ok`. -/
theorem shardOutcomeUnfixed_counterexample :
    let pick : Nat → Nat → Nat → Nat := fun s _ _ => 1 - s
    let items : Nat → List (Option Nat) := fun s => if s = 0 then [some 0, some 1, some 2, some 3] else [some 1000, some 1001, some 1002]
    let hints : Nat → Nat := fun s => if s = 0 then 4 else 2
    (List.range 2).map (shardOutcomeUnfixed 2 pick items hints) = [.ok [1000, 1001], .err] ∧
    (List.range 2).map (shardOutcome 2 pick items hints) = [.hang, .err] := by decide

/-- without a failing stream the two models agree (the repair changes nothing for error-free inputs) -/
theorem shardOutcomeUnfixed_eq_of_no_failure {α : Type} (n : Nat) (pick : Nat → Nat → α → Nat)
    (items : Nat → List (Option α)) (hints : Nat → Nat) (d : Nat)
    (h : ∀ s, s < n → ownFails items hints s = false) (hd : d < n) :
    shardOutcomeUnfixed n pick items hints d = shardOutcome n pick items hints d := by
  have h1 : (List.range n).any (ownFails items hints) = false := by
    rw [List.any_eq_false]; intro s hs; simp [h s (List.mem_range.mp hs)]
  have h2 : (List.range n).any (fun s => s != d && ownFails items hints s && !autoClosedUnfixed pick items hints s d) = false := by
    rw [List.any_eq_false]; intro s hs; simp [h s (List.mem_range.mp hs)]
  simp [shardOutcomeUnfixed, shardOutcome, h d hd, h1, h2]

/-! ## Polled input streams: stalls are invisible, the splitter drops nothing -/

/-- **runSplitter_spec** — the splitter is a transparent adapter: the send loop sees through it exactly the tags
of the `Ok` items the raw stream yields up to its first `Err` (then the `Err`), and `k_buf` ends as the data
records of exactly those items, in order — position `i` of `k_buf` belongs to the `i`-th tag handed on. -/
theorem runSplitter_spec {κ α : Type} : ∀ (evs : List (Ev κ α)) (buf : List κ),
    runSplitter buf evs =
      (buf ++ (awaitItems evs).1.map Prod.fst,
       ((awaitItems evs).1.map fun ka => some ka.2) ++ errTail (awaitItems evs).2) := by
  intro evs
  induction evs with
  | nil => intro buf; simp [runSplitter, splitterPoll, awaitItems, errTail]
  | cons ev rest ih =>
    intro buf
    cases ev with
    | pending => simp only [runSplitter, splitterPoll, awaitItems]; exact ih buf
    | ready k a =>
      simp only [runSplitter, splitterPoll, awaitItems]
      rw [ih (buf ++ [k])]
      simp
    | err => simp [runSplitter, splitterPoll, awaitItems, errTail]

theorem awaitItems_strip {κ α : Type} : ∀ (evs : List (Ev κ α)), awaitItems (stripPending evs) = awaitItems evs := by
  intro evs
  induction evs with
  | nil => rfl
  | cons ev rest ih =>
    cases ev with
    | pending => simpa [stripPending, awaitItems] using ih
    | ready k a => simp [stripPending, awaitItems, ih]
    | err => simp [stripPending, awaitItems]

/-- **stalls_invisible** — for EVERY stall pattern: the `k_buf` and the item sequence handed to the resharding are
those of the same stream with all `Pending` answers removed. -/
theorem stalls_invisible {κ α : Type} (evs : List (Ev κ α)) (buf : List κ) :
    runSplitter buf evs = runSplitter buf (stripPending evs) := by
  rw [runSplitter_spec, runSplitter_spec, awaitItems_strip]

/-- two polled streams that differ only in where (and how often) they answer `Pending` -/
theorem stalls_invisible' {κ α : Type} (evs evs' : List (Ev κ α)) (buf : List κ)
    (h : stripPending evs = stripPending evs') : runSplitter buf evs = runSplitter buf evs' := by
  rw [stalls_invisible evs, stalls_invisible evs', h]

/-- inserting any number of `Pending` answers anywhere changes nothing -/
theorem stripPending_insert {κ α : Type} (pre post : List (Ev κ α)) (k : Nat) :
    stripPending (pre ++ List.replicate k .pending ++ post) = stripPending (pre ++ post) := by
  induction pre with
  | nil =>
    induction k with
    | zero => simp
    | succ k ih => simpa [List.replicate_succ, stripPending] using ih
  | cons e pre ih =>
    cases e <;> simp_all [stripPending]

/-- an error-free polled stream: every `Ok` item is kept / handed on, none is dropped, `k_buf` stays aligned -/
theorem splitter_drops_nothing {κ α : Type} (items : List (κ × α)) (evs : List (Ev κ α))
    (h : stripPending evs = items.map fun ka => .ready ka.1 ka.2) :
    runSplitter [] evs = (items.map Prod.fst, items.map fun ka => some ka.2) := by
  rw [stalls_invisible, h, runSplitter_spec]
  have : ∀ l : List (κ × α), awaitItems (l.map fun ka => (Ev.ready ka.1 ka.2 : Ev κ α)) = (l, false) := by
    intro l
    induction l with
    | nil => rfl
    | cons x xs ih => simp [awaitItems, ih]
  rw [this]; simp [errTail]

/-- **aad_stalls_invisible** — `reshard_aad` on every shard: the outcome (kept data records, received tags, or
failure) is the same whatever the timing of every shard's input stream. -/
theorem aad_stalls_invisible {κ α : Type} (n : Nat) (pick : Nat → Nat → α → Nat) (evs evs' : Nat → List (Ev κ α))
    (hints : Nat → Nat) (d : Nat) (h : ∀ s, stripPending (evs s) = stripPending (evs' s)) :
    aadOutcome n pick evs hints d = aadOutcome n pick evs' hints d := by
  have hi : aadItems evs = aadItems evs' := by
    funext s; simp only [aadItems]; rw [stalls_invisible' _ _ _ (h s)]
  simp only [aadOutcome, hi, stalls_invisible' _ _ _ (h d)]

/-- **aad_exact** — error-free input streams within their size hints, ANY stall pattern: every shard returns
`Ok`, keeps ALL its own data records in input order, and receives the schedule-free resharding of ALL tags
(to which `reshard_exact` / `reshard_perm` apply: each tag on its chosen shard, exactly once). -/
theorem aad_exact {κ α : Type} (n : Nat) (pick : Nat → Nat → α → Nat) (inputs : Nat → List (κ × α))
    (evs : Nat → List (Ev κ α)) (hints : Nat → Nat) (d : Nat) (hd : d < n)
    (hev : ∀ s, stripPending (evs s) = (inputs s).map fun ka => .ready ka.1 ka.2)
    (hh : ∀ s, s < n → (inputs s).length ≤ hints s) :
    aadOutcome n pick evs hints d =
      .ok ((inputs d).map Prod.fst) (reshard n pick (fun s => (inputs s).map Prod.snd) d) := by
  have hi : aadItems evs = fun s => ((inputs s).map Prod.snd).map some := by
    funext s; simp only [aadItems]; rw [splitter_drops_nothing (inputs s) (evs s) (hev s)]; simp
  have hso := short_input_ok n pick (fun s => (inputs s).map Prod.snd) hints (by intro s hs; simpa using hh s hs) d
  have hok := (shardOutcome_ok_iff n pick (fun s => ((inputs s).map Prod.snd).map some) hints d hd _).mpr hso
  simp only [aadOutcome, hi, hok]
  rw [splitter_drops_nothing (inputs d) (evs d) (hev d)]

/-- **aad_error_fails** — if the send loop of shard `s` fails on what the splitter hands it (an `Err` answer of its input
stream, wherever it sits among the stalls — `err_answer_fails` — or more items than the size hint), `s` returns `Err`
and NO shard returns `Ok`. -/
theorem aad_error_fails {κ α : Type} (n : Nat) (pick : Nat → Nat → α → Nat) (evs : Nat → List (Ev κ α))
    (hints : Nat → Nat) (s : Nat) (hs : s < n) (hf : ownFails (aadItems evs) hints s = true) :
    aadOutcome n pick evs hints s = .err ∧ ∀ d kept tags, aadOutcome n pick evs hints d ≠ .ok kept tags := by
  obtain ⟨h1, _, h3⟩ := reshard_failure_outcomes n pick (aadItems evs) hints s hs hf
  refine ⟨by simp [aadOutcome, h1], ?_⟩
  intro d kept tags
  unfold aadOutcome
  cases h : shardOutcome n pick (aadItems evs) hints d with
  | ok l => exact absurd h (h3 d l)
  | err => simp
  | hang => simp

/-- an `Err` answer anywhere in the polled stream of shard `s` makes its send loop fail -/
theorem err_answer_fails {κ α : Type} (evs : Nat → List (Ev κ α)) (hints : Nat → Nat) (s : Nat)
    (h : Ev.err ∈ evs s) : ownFails (aadItems evs) hints s = true := by
  have key : ∀ (l : List (Ev κ α)), Ev.err ∈ l → (awaitItems l).2 = true := by
    intro l
    induction l with
    | nil => intro h; cases h
    | cons e rest ih =>
      intro h
      cases e with
      | err => rfl
      | pending => simp only [awaitItems]; exact ih (by simpa using h)
      | ready k a => simp only [awaitItems]; exact ih (by simpa using h)
  have hl : ∀ (hint : Nat) (xs : List α) (i : Nat), (sendLoop hint i (xs.map some ++ [none])).2 = true := by
    intro hint xs
    induction xs with
    | nil => intro i; rfl
    | cons x xs ih =>
      intro i
      simp only [List.map_cons, List.cons_append, sendLoop]
      split
      · rfl
      · exact ih (i + 1)
  simp only [ownFails, aadItems]
  rw [runSplitter_spec, key _ h]
  have := hl (hints s) ((awaitItems (evs s)).1.map Prod.snd) 0
  simpa [List.map_map, Function.comp_def, errTail] using this

/-- the seeded splitter (`done` flag also set by `Pending`): one stall in the middle of a three-record stream and
the last record is gone — `k_buf` and the tags both end after two records, and no error is reported;
the real splitter keeps all three. -/
theorem splitter_done_flag_counterexample :
    runSplitterDoneFlag [] [Ev.ready 10 1, .ready 11 2, .pending, .ready 12 3] = ([10, 11], [some 1, some 2]) ∧
    runSplitter [] [Ev.ready 10 1, .ready 11 2, .pending, .ready 12 3] = ([10, 11, 12], [some 1, some 2, some 3]) := by
  decide

/-- the same for `reshard_try_stream` / `reshard_stream` called directly on a polled stream -/
theorem polled_stalls_invisible {α : Type} (n : Nat) (pick : Nat → Nat → α → Nat) (evs evs' : Nat → List (Ev Unit α))
    (hints : Nat → Nat) (d : Nat) (h : ∀ s, stripPending (evs s) = stripPending (evs' s)) :
    polledOutcome n pick evs hints d = polledOutcome n pick evs' hints d := by
  have hi : polledItems evs = polledItems evs' := by
    funext s; simp only [polledItems]; rw [← awaitItems_strip (evs s), h s, awaitItems_strip]
  simp only [polledOutcome, hi]

/-- the direct call and the call through the splitter hand the same items to the send loop -/
theorem polledItems_eq_aadItems {α : Type} (evs : Nat → List (Ev Unit α)) : polledItems evs = aadItems evs := by
  funext s; simp only [polledItems, aadItems]; rw [runSplitter_spec]

/-- **aad_tags_perm** — multiset form: over all shards, the tags received are a permutation of the tags put in,
for every stall pattern of every shard's input. -/
theorem aad_tags_perm {κ α : Type} [DecidableEq α] (n : Nat) (pick : Nat → Nat → α → Nat) (inputs : Nat → List (κ × α))
    (evs : Nat → List (Ev κ α)) (hints : Nat → Nat) (hp : ∀ s i x, pick s i x < n)
    (hev : ∀ s, stripPending (evs s) = (inputs s).map fun ka => .ready ka.1 ka.2)
    (hh : ∀ s, s < n → (inputs s).length ≤ hints s) :
    ∃ tags : Nat → List α, (∀ d, d < n → aadOutcome n pick evs hints d = .ok ((inputs d).map Prod.fst) (tags d)) ∧
      ((List.range n).flatMap tags).Perm ((List.range n).flatMap fun s => (inputs s).map Prod.snd) :=
  ⟨reshard n pick (fun s => (inputs s).map Prod.snd), fun d hd => aad_exact n pick inputs evs hints d hd hev hh,
    reshard_perm n pick _ hp⟩

-- the hypotheses are satisfiable: a stream that stalls before its first item, twice in the middle and before its end
example : stripPending [Ev.pending, .ready 10 1, .pending, .pending, .ready 11 2, .pending]
    = ([(10, 1), (11, 2)].map fun ka => Ev.ready ka.1 ka.2) := by decide
example : (List.range 2).map (aadOutcome 2 (fun _ _ a => a % 2)
      (fun s => if s = 0 then [Ev.pending, .ready 10 1, .pending, .ready 11 2] else [.ready 20 3, .ready 21 4, .pending]) (fun _ => 2))
    = [.ok [10, 11] [2, 4], .ok [20, 21] [1, 3]] := by decide
example : (List.range 2).map (aadOutcome 2 (fun _ _ a => a % 2)
      (fun s => if s = 0 then [Ev.pending, .ready 10 1, .pending, .err, .ready 11 2] else [.ready 20 3, .ready 21 4, .pending]) (fun _ => 2))
    = [.err, .hang] := by decide

end IpaVerif.C19
