import Mathlib.Tactic.FieldSimp
import Mathlib.Tactic.Ring
import Mathlib.Tactic.LinearCombination
import IpaVerif.Model.DzkpBatch
/-!
# C03 — polynomial side of the multiplication proofs (any field in which 2, 3, 5 are invertible)

`L = 4` (extracted recursion factor), proof length `P = 2L − 1 = 7`.

* `lagrange_eval`        — `LagrangeTable::eval` semantics: the degree-3 interpolant through the values at 0..3
                           reproduces every cubic, at every point (so also at 4, 5, 6 and at the challenge `r`);
* `lagrange7`            — the same for the 7-point table used by `interpolate_at_r`;
* `proof_step_complete`  — for any list of `(u, v)` chunks: `Σ_{i<L} proof[i] = Σ ⟨u, v⟩` and
                           `interpolate_at_r proof r = Σ_k u_k(r)·v_k(r)`;
* `honest_level`         — the next level's proof (any batch size, zero padded) sums to the previous proof
                           interpolated at the challenge: every intermediate `g` difference of an honest prover is 0;
* `final_level`          — the masked last level: the final sum share skips the mask slot and the product
                           `p(r)·q(r)` equals the last proof interpolated at the last challenge;
* `honest_levels`        — the conjunction, for every batch size and every challenge/mask values
                           (composed over the whole loop in `Props/C03Batch.lean`: `honest_accept`).
-/
namespace IpaVerif.C03Algebra
open IpaVerif.DzkpBatch (V4)

variable {K : Type} [Field K]

/-- Lagrange interpolation through (0,y0),(1,y1),(2,y2),(3,y3), evaluated at x. -/
def interp4 (y0 y1 y2 y3 x : K) : K :=
  y0 * ((x - 1) * (x - 2) * (x - 3)) / (-6) + y1 * (x * (x - 2) * (x - 3)) / 2
  + y2 * (x * (x - 1) * (x - 3)) / (-2) + y3 * (x * (x - 1) * (x - 2)) / 6

theorem lagrange_eval (h2 : (2 : K) ≠ 0) (h3 : (3 : K) ≠ 0) (c0 c1 c2 c3 x : K) :
    interp4 c0 (c0 + c1 + c2 + c3) (c0 + 2 * c1 + 4 * c2 + 8 * c3) (c0 + 3 * c1 + 9 * c2 + 27 * c3) x
      = c0 + c1 * x + c2 * x ^ 2 + c3 * x ^ 3 := by
  have h6 : (6 : K) ≠ 0 := by
    have : (6 : K) = 2 * 3 := by norm_num
    rw [this]; exact mul_ne_zero h2 h3
  unfold interp4
  field_simp
  ring

/-- Lagrange interpolation through (i, y_i), i = 0..6, evaluated at x. -/
def interp7 (y0 y1 y2 y3 y4 y5 y6 x : K) : K :=
  y0 * ((x - 1) * (x - 2) * (x - 3) * (x - 4) * (x - 5) * (x - 6)) / 720
  + y1 * (x * (x - 2) * (x - 3) * (x - 4) * (x - 5) * (x - 6)) / (-120)
  + y2 * (x * (x - 1) * (x - 3) * (x - 4) * (x - 5) * (x - 6)) / 48
  + y3 * (x * (x - 1) * (x - 2) * (x - 4) * (x - 5) * (x - 6)) / (-36)
  + y4 * (x * (x - 1) * (x - 2) * (x - 3) * (x - 5) * (x - 6)) / 48
  + y5 * (x * (x - 1) * (x - 2) * (x - 3) * (x - 4) * (x - 6)) / (-120)
  + y6 * (x * (x - 1) * (x - 2) * (x - 3) * (x - 4) * (x - 5)) / 720

theorem interp4_nodes (y0 y1 y2 y3 : K) (h2 : (2 : K) ≠ 0) (h3 : (3 : K) ≠ 0) :
    interp4 y0 y1 y2 y3 0 = y0 ∧ interp4 y0 y1 y2 y3 1 = y1 ∧ interp4 y0 y1 y2 y3 2 = y2 ∧ interp4 y0 y1 y2 y3 3 = y3 := by
  have h6 : (6 : K) ≠ 0 := by
    have : (6 : K) = 2 * 3 := by norm_num
    rw [this]; exact mul_ne_zero h2 h3
  unfold interp4
  refine ⟨?_, ?_, ?_, ?_⟩ <;> field_simp <;> ring

def poly6 (c0 c1 c2 c3 c4 c5 c6 t : K) : K := c0 + c1 * t + c2 * t ^ 2 + c3 * t ^ 3 + c4 * t ^ 4 + c5 * t ^ 5 + c6 * t ^ 6

theorem lagrange7 (h2 : (2 : K) ≠ 0) (h3 : (3 : K) ≠ 0) (h5 : (5 : K) ≠ 0) (c0 c1 c2 c3 c4 c5 c6 x : K) :
    let P := poly6 c0 c1 c2 c3 c4 c5 c6
    interp7 (P 0) (P 1) (P 2) (P 3) (P 4) (P 5) (P 6) x = P x := by
  have h720 : (720 : K) ≠ 0 := by
    have : (720 : K) = 2 * 2 * 2 * 2 * 3 * 3 * 5 := by norm_num
    rw [this]; simp [h2, h3, h5]
  have h120 : (120 : K) ≠ 0 := by
    have : (120 : K) = 2 * 2 * 2 * 3 * 5 := by norm_num
    rw [this]; simp [h2, h3, h5]
  have h48 : (48 : K) ≠ 0 := by
    have : (48 : K) = 2 * 2 * 2 * 2 * 3 := by norm_num
    rw [this]; simp [h2, h3]
  have h36 : (36 : K) ≠ 0 := by
    have : (36 : K) = 2 * 2 * 3 * 3 := by norm_num
    rw [this]; simp [h2, h3]
  intro P
  simp only [P, poly6, interp7]
  field_simp
  ring

theorem interp4_poly (h2 : (2 : K) ≠ 0) (h3 : (3 : K) ≠ 0) (u0 u1 u2 u3 x : K) :
    interp4 u0 u1 u2 u3 x =
      u0 + (-11 * u0 + 18 * u1 - 9 * u2 + 2 * u3) / 6 * x + (2 * u0 - 5 * u1 + 4 * u2 - u3) / 2 * x ^ 2
        + (-u0 + 3 * u1 - 3 * u2 + u3) / 6 * x ^ 3 := by
  have h6 : (6 : K) ≠ 0 := by
    have : (6 : K) = 2 * 3 := by norm_num
    rw [this]; exact mul_ne_zero h2 h3
  unfold interp4
  field_simp
  ring

/-- single chunk: the 7 proof entries p(i)·q(i), interpolated at any r, give p(r)·q(r). -/
theorem chunk_product (h2 : (2 : K) ≠ 0) (h3 : (3 : K) ≠ 0) (h5 : (5 : K) ≠ 0) (u0 u1 u2 u3 v0 v1 v2 v3 r : K) :
    let p := interp4 u0 u1 u2 u3
    let q := interp4 v0 v1 v2 v3
    interp7 (p 0 * q 0) (p 1 * q 1) (p 2 * q 2) (p 3 * q 3) (p 4 * q 4) (p 5 * q 5) (p 6 * q 6) r = p r * q r := by
  intro p q
  obtain ⟨a0, a1, a2, a3, hp⟩ : ∃ a0 a1 a2 a3 : K, ∀ t, p t = a0 + a1 * t + a2 * t ^ 2 + a3 * t ^ 3 :=
    ⟨_, _, _, _, fun t => interp4_poly h2 h3 u0 u1 u2 u3 t⟩
  obtain ⟨b0, b1, b2, b3, hq⟩ : ∃ b0 b1 b2 b3 : K, ∀ t, q t = b0 + b1 * t + b2 * t ^ 2 + b3 * t ^ 3 :=
    ⟨_, _, _, _, fun t => interp4_poly h2 h3 v0 v1 v2 v3 t⟩
  have hprod : ∀ t, p t * q t =
      poly6 (a0 * b0) (a0 * b1 + a1 * b0) (a0 * b2 + a1 * b1 + a2 * b0) (a0 * b3 + a1 * b2 + a2 * b1 + a3 * b0)
        (a1 * b3 + a2 * b2 + a3 * b1) (a2 * b3 + a3 * b2) (a3 * b3) t := by
    intro t; rw [hp, hq]; unfold poly6; ring
  simp only [hprod]
  exact lagrange7 h2 h3 h5 _ _ _ _ _ _ _ r

/-! ## lists of chunks -/

/-! `V4` is the four-element array type of the executable model (`IpaVerif.DzkpBatch.V4`). -/

/-- the chunk polynomial (degree ≤ 3 through the four values) evaluated at `x`. -/
def _root_.IpaVerif.DzkpBatch.V4.at (u : V4 K) (x : K) : K := interp4 u.a u.b u.c u.d x
def _root_.IpaVerif.DzkpBatch.V4.dot (u v : V4 K) : K := u.a * v.a + u.b * v.b + u.c * v.c + u.d * v.d

/-- `G(x) = Σ_k p_k(x)·q_k(x)`: what `compute_proof` accumulates at the point `x` (for `x < 4` directly from the
values, for `x = 4, 5, 6` through `LagrangeTable::eval`, which `lagrange_eval` identifies with `V4.at`). -/
def G (cs : List (V4 K × V4 K)) (x : K) : K := (cs.map fun c => c.1.at x * c.2.at x).sum

theorem interp7_add (a0 a1 a2 a3 a4 a5 a6 b0 b1 b2 b3 b4 b5 b6 x : K) :
    interp7 (a0 + b0) (a1 + b1) (a2 + b2) (a3 + b3) (a4 + b4) (a5 + b5) (a6 + b6) x =
      interp7 a0 a1 a2 a3 a4 a5 a6 x + interp7 b0 b1 b2 b3 b4 b5 b6 x := by
  unfold interp7; ring

theorem interp7_zero (x : K) : interp7 0 0 0 0 0 0 0 x = 0 := by unfold interp7; ring

/-- **proof_step_complete**: for any list of chunks (any batch size), the first `L` proof entries sum to
`Σ ⟨u, v⟩`, and the proof interpolated at any `r` is `Σ_k u_k(r)·v_k(r)`. -/
theorem proof_step_complete (h2 : (2 : K) ≠ 0) (h3 : (3 : K) ≠ 0) (h5 : (5 : K) ≠ 0)
    (cs : List (V4 K × V4 K)) (r : K) :
    G cs 0 + G cs 1 + G cs 2 + G cs 3 = (cs.map fun c => c.1.dot c.2).sum ∧
    interp7 (G cs 0) (G cs 1) (G cs 2) (G cs 3) (G cs 4) (G cs 5) (G cs 6) r = G cs r := by
  induction cs with
  | nil => simp [G, interp7_zero]
  | cons c rest ih =>
    obtain ⟨ih1, ih2⟩ := ih
    have hn := fun (u : V4 K) => interp4_nodes u.a u.b u.c u.d h2 h3
    have hc := chunk_product h2 h3 h5 c.1.a c.1.b c.1.c c.1.d c.2.a c.2.b c.2.c c.2.d r
    constructor
    · simp only [G, List.map_cons, List.sum_cons] at ih1 ⊢
      simp only [V4.at, (hn c.1).1, (hn c.1).2.1, (hn c.1).2.2.1, (hn c.1).2.2.2,
        (hn c.2).1, (hn c.2).2.1, (hn c.2).2.2.1, (hn c.2).2.2.2, V4.dot] at ih1 ⊢
      linear_combination ih1
    · simp only [G, List.map_cons, List.sum_cons] at ih2 ⊢
      rw [interp7_add, ih2]
      simp only [V4.at] at hc ⊢
      rw [hc]

/-- `UVValues::from_iter`: chunks of four `(u, v)` pairs, the last one zero padded. -/
def chunk4p : List (K × K) → List (V4 K × V4 K)
  | [] => []
  | [p0] => [(⟨p0.1, 0, 0, 0⟩, ⟨p0.2, 0, 0, 0⟩)]
  | [p0, p1] => [(⟨p0.1, p1.1, 0, 0⟩, ⟨p0.2, p1.2, 0, 0⟩)]
  | [p0, p1, p2] => [(⟨p0.1, p1.1, p2.1, 0⟩, ⟨p0.2, p1.2, p2.2, 0⟩)]
  | p0 :: p1 :: p2 :: p3 :: rest => (⟨p0.1, p1.1, p2.1, p3.1⟩, ⟨p0.2, p1.2, p2.2, p3.2⟩) :: chunk4p rest

def flatDot (l : List (K × K)) : K := (l.map fun p => p.1 * p.2).sum

theorem chunk_dot (l : List (K × K)) : ((chunk4p l).map fun c => c.1.dot c.2).sum = flatDot l := by
  fun_induction chunk4p l <;> simp_all [V4.dot, flatDot] <;> ring

/-- the next level's `(u, v)` values: every chunk polynomial evaluated at the challenge (`eval_at_r`). -/
def nextLevel (cs : List (V4 K × V4 K)) (r : K) : List (K × K) := cs.map fun c => (c.1.at r, c.2.at r)

/-- **honest_level**: for every batch size, every challenge `r`: the sum share of the next level's proof
equals the current proof interpolated at `r` — the `g` difference of an honest prover is zero. -/
theorem honest_level (h2 : (2 : K) ≠ 0) (h3 : (3 : K) ≠ 0) (h5 : (5 : K) ≠ 0)
    (cs : List (V4 K × V4 K)) (r : K) :
    let cs' := chunk4p (nextLevel cs r)
    G cs' 0 + G cs' 1 + G cs' 2 + G cs' 3 =
      interp7 (G cs 0) (G cs 1) (G cs 2) (G cs 3) (G cs 4) (G cs 5) (G cs 6) r := by
  intro cs'
  rw [(proof_step_complete h2 h3 h5 cs' 0).1, (proof_step_complete h2 h3 h5 cs r).2, chunk_dot]
  simp [flatDot, nextLevel, G, List.map_map, Function.comp_def]

/-- `set_masks` on the last (fewer than `L`) values: first value moved to the last slot, masks in slot 0. -/
def maskChunk (c : V4 K × V4 K) (mp mq : K) : V4 K × V4 K :=
  (⟨mp, c.1.b, c.1.c, c.1.a⟩, ⟨mq, c.2.b, c.2.c, c.2.a⟩)

/-- **final_level**: with fewer than `L` remaining values (so the last slot of the chunk is padding),
the final sum share (which skips slot 0) equals `Σ ⟨u, v⟩` of the unmasked values, and the masked proof
interpolated at the last challenge is `p(r)·q(r)` — what the two verifiers multiply together. -/
theorem final_level (h2 : (2 : K) ≠ 0) (h3 : (3 : K) ≠ 0) (h5 : (5 : K) ≠ 0)
    (c : V4 K × V4 K) (hpad : c.1.d = 0 ∧ c.2.d = 0) (mp mq r : K) :
    let m := maskChunk c mp mq
    G [m] 1 + G [m] 2 + G [m] 3 = c.1.dot c.2 ∧
    interp7 (G [m] 0) (G [m] 1) (G [m] 2) (G [m] 3) (G [m] 4) (G [m] 5) (G [m] 6) r = m.1.at r * m.2.at r := by
  intro m
  have hn := fun (u : V4 K) => interp4_nodes u.a u.b u.c u.d h2 h3
  refine ⟨?_, ?_⟩
  · simp only [G, List.map_cons, List.map_nil, List.sum_cons, List.sum_nil, V4.at,
      (hn m.1).2.1, (hn m.1).2.2.1, (hn m.1).2.2.2, (hn m.2).2.1, (hn m.2).2.2.1, (hn m.2).2.2.2, V4.dot]
    simp only [m, maskChunk, hpad.1, hpad.2]
    ring
  · have := (proof_step_complete h2 h3 h5 [m] r).2
    simpa [G] using this

/-- **honest_levels**: the three per-level equalities that make each `g` difference of an honest prover zero, for
every batch size and all challenge and mask values — first level (`Σ_{i<L} G₁(i) = Σ ⟨u,v⟩`, which the arithmetic
theorem `IpaVerif.C03.sum_iff_all_consistent` equates with `−m/2`), every intermediate level (`honest_level`), and the
masked final level (`final_level`). The composition over the `while !did_set_masks` loop with its PRSS share splitting,
both verifiers' recomputation and the instantiation `K = ZMod (2^61 − 1)` is `IpaVerif.C03Batch.honest_accept` /
`honest_accept_fp61` (Props/C03Batch.lean), which use these lemmas. -/
theorem honest_levels (h2 : (2 : K) ≠ 0) (h3 : (3 : K) ≠ 0) (h5 : (5 : K) ≠ 0) :
    (∀ cs : List (V4 K × V4 K), G cs 0 + G cs 1 + G cs 2 + G cs 3 = (cs.map fun c => c.1.dot c.2).sum) ∧
    (∀ (cs : List (V4 K × V4 K)) (r : K),
      G (chunk4p (nextLevel cs r)) 0 + G (chunk4p (nextLevel cs r)) 1 + G (chunk4p (nextLevel cs r)) 2 +
        G (chunk4p (nextLevel cs r)) 3 =
        interp7 (G cs 0) (G cs 1) (G cs 2) (G cs 3) (G cs 4) (G cs 5) (G cs 6) r) ∧
    (∀ (c : V4 K × V4 K), c.1.d = 0 ∧ c.2.d = 0 → ∀ mp mq r : K,
      G [maskChunk c mp mq] 1 + G [maskChunk c mp mq] 2 + G [maskChunk c mp mq] 3 = c.1.dot c.2 ∧
      interp7 (G [maskChunk c mp mq] 0) (G [maskChunk c mp mq] 1) (G [maskChunk c mp mq] 2)
        (G [maskChunk c mp mq] 3) (G [maskChunk c mp mq] 4) (G [maskChunk c mp mq] 5) (G [maskChunk c mp mq] 6) r
        = (maskChunk c mp mq).1.at r * (maskChunk c mp mq).2.at r) :=
  ⟨fun cs => (proof_step_complete h2 h3 h5 cs 0).1, fun cs r => honest_level h2 h3 h5 cs r,
   fun c hp mp mq r => final_level h2 h3 h5 c hp mp mq r⟩

/-- non-vacuity: the hypotheses hold in ℚ (and in every field of characteristic > 5). -/
example : ((2 : ℚ) ≠ 0) ∧ ((3 : ℚ) ≠ 0) ∧ ((5 : ℚ) ≠ 0) := by norm_num

end IpaVerif.C03Algebra
