import IpaVerif.Model.Prss
import IpaVerif.Generated.Dzkp
/-!
# C06 — shared randomness is pairwise identical, step-separated and never reused

Core Lean only. Cryptographic primitives (X25519, HKDF, AES) are parameters; what is needed from them is a
hypothesis of the theorem that uses it (Diffie–Hellman symmetry; AES being a permutation for a fixed key).
"Unrelated values across steps / indices" is the PRF assumption on AES/HKDF and is *not* proved.
-/
namespace IpaVerif.C06
open IpaVerif.Prss IpaVerif.Generated.Prss

theorem pack_ok (index offset v : Nat) (h : pack index offset = .ok v) :
    offset ≤ 2048 ∧ v = index * 4294967296 + offset := by
  unfold pack at h
  simp only [maxOffset, packShift] at h
  by_cases h1 : offset ≥ 2 ^ 32
  · simp [h1] at h
  · by_cases h2 : offset ≤ 2048
    · simp only [h1, h2, if_true, if_false] at h
      injection h with h
      rw [Nat.shiftLeft_eq] at h
      exact ⟨h2, by omega⟩
    · simp [h1, h2] at h

/-- **index_packing_injective**: distinct `(index, offset)` pairs (index a `u32`, offset within the cap)
are packed into distinct 128-bit AES input blocks. -/
theorem index_packing_injective (i o i' o' v : Nat)
    (h : pack i o = .ok v) (h' : pack i' o' = .ok v) : i = i' ∧ o = o' := by
  obtain ⟨h1, h2⟩ := pack_ok _ _ _ h
  obtain ⟨h3, h4⟩ := pack_ok _ _ _ h'
  omega

/-- packing then `TryFrom<u128>` is the identity on valid indices. -/
theorem pack_unpack (i o v : Nat) (hi : i < 2 ^ 32) (h : pack i o = .ok v) : unpack v = .ok (i, o) := by
  obtain ⟨h1, h2⟩ := pack_ok _ _ _ h
  have hv : v < 2 ^ 64 := by omega
  have e1 : v >>> 32 = i := by rw [Nat.shiftRight_eq_div_pow]; omega
  have e2 : v &&& (2 ^ 32 - 1) = o := by rw [Nat.and_two_pow_sub_one_eq_mod]; omega
  unfold unpack
  simp only [unpackShift, maxOffset, e1, e2]
  have : ¬ v ≥ 2 ^ 64 := by omega
  simp [this, h1]

/-- offsets beyond the cap, or not fitting a `u32`, are rejected (never wrapped). -/
theorem pack_rejects (i o : Nat) (h : o > 2048) : ∃ m, pack i o = .err m := by
  unfold pack
  simp only [maxOffset]
  by_cases h2 : o ≥ 2 ^ 32
  · exact ⟨"conversion", by simp [h2]⟩
  · have h3 : ¬ o ≤ 2048 := by omega
    exact ⟨"out-of-range", by simp [h2, h3]⟩

example : pack 7 2048 = .ok (7 * 4294967296 + 2048) ∧ (∃ m, pack 7 2049 = .err m) := by
  constructor
  · decide
  · exact pack_rejects 7 2049 (by omega)

/-- **chunk_offsets_distinct**: within one `(step, index)`, block `i` of chunk `k` and block `i'` of chunk
`k'` (chunks of width `Z`) use different offsets unless `(k, i) = (k', i')`. -/
theorem chunk_offsets_distinct (Z k i k' i' : Nat) (hi : i < Z) (hi' : i' < Z)
    (h : k * Z + i = k' * Z + i') : k = k' ∧ i = i' := by
  have hz : 0 < Z := by omega
  have d1 : (k * Z + i) / Z = k := by
    rw [Nat.mul_comm, Nat.mul_add_div hz, Nat.div_eq_of_lt hi]; rfl
  have d2 : (k' * Z + i') / Z = k' := by
    rw [Nat.mul_comm, Nat.mul_add_div hz, Nat.div_eq_of_lt hi']; rfl
  have hk : k = k' := by rw [← d1, ← d2, h]
  subst hk
  exact ⟨rfl, by omega⟩

theorem mem_chunkOffsets (Z k o : Nat) : o ∈ chunkOffsets Z k ↔ ∃ i, i < Z ∧ o = k * Z + i := by
  simp [chunkOffsets]
  constructor
  · rintro ⟨a, ha, rfl⟩; exact ⟨a, ha, rfl⟩
  · rintro ⟨a, ha, rfl⟩; exact ⟨a, ha, rfl⟩

/-- different chunks of one `ChunkIter` touch disjoint offsets. -/
theorem chunks_disjoint (Z k k' o : Nat) (hk : k ≠ k') (h : o ∈ chunkOffsets Z k) : o ∉ chunkOffsets Z k' := by
  rw [mem_chunkOffsets] at h ⊢
  rintro ⟨i', hi', e'⟩
  obtain ⟨i, hi, e⟩ := h
  exact hk (chunk_offsets_distinct Z k i k' i' hi hi' (by omega)).1

section crypto
variable {Sk Pk Sec Key : Type} (C : Crypto Sk Pk Sec Key)

theorem fin3_succ_pred : ∀ i : Fin 3, i + 1 - 1 = i := by decide

/-- **pairwise_agreement**: under Diffie–Hellman symmetry, for every step, index and offset, the value helper
`i` derives from the randomness shared with its right neighbour equals the value helper `i+1` derives from
its left-shared randomness. -/
theorem pairwise_agreement (s : Fin 3 → Setup Sk)
    (dh_symm : ∀ a b : Sk, C.dh a (C.pub b) = C.dh b (C.pub a))
    (i : Fin 3) (step : String) (packed : Nat) :
    rightValue C s i step packed = leftValue C s (i + 1) step packed := by
  unfold rightValue leftValue rightSecret leftSecret
  rw [fin3_succ_pred, dh_symm]

/-- non-vacuity: a toy commutative key agreement (`dh a (pub b) = a * b`). -/
example : ∃ C : Crypto Nat Nat Nat Nat, ∀ a b : Nat, C.dh a (C.pub b) = C.dh b (C.pub a) :=
  ⟨{ pub := id, dh := fun a b => a * b, hkdf := fun s _ => s, aes := fun k x => k + x }, fun a b => Nat.mul_comm a b⟩

/-- **cross_shard_agreement**: every shard of a helper uses the seed pair distributed by the leader shard, so
all shards of one helper agree, and if the leaders' pairs match across neighbouring helpers (which
`pairwise_agreement` gives, the seeds being PRSS values), so do the pairs of any two shards. -/
theorem cross_shard_agreement {Seed : Type} (leaderSeeds : Fin 3 → Seed × Seed)
    (h : ∀ i, (leaderSeeds i).2 = (leaderSeeds (i + 1)).1) (shard shard' : Nat) (i : Fin 3) :
    shardSeeds leaderSeeds shard i = shardSeeds leaderSeeds shard' i ∧
    (shardSeeds leaderSeeds shard i).2 = (shardSeeds leaderSeeds shard' (i + 1)).1 := by
  simp [shardSeeds, h]

/-- **distinct_inputs_distinct_blocks**: under one key, different `(index, offset)` feed different AES blocks;
AES being a permutation for a fixed key, the pre-xor outputs differ as well. -/
theorem distinct_inputs_distinct_blocks (K : Key) (aes_inj : ∀ x y, C.aes K x = C.aes K y → x = y)
    (i o i' o' v v' : Nat) (h : pack i o = .ok v) (h' : pack i' o' = .ok v') (hne : (i, o) ≠ (i', o')) :
    v ≠ v' ∧ C.aes K v ≠ C.aes K v' := by
  have hv : v ≠ v' := by
    intro e; subst e
    obtain ⟨a, b⟩ := index_packing_injective _ _ _ _ _ h h'
    exact hne (by rw [a, b])
  exact ⟨hv, fun e => hv (aes_inj _ _ e)⟩

end crypto

/-- **narrow_injective**: descriptive gates are injective in the step path: `narrow` appends `/step`, and a
step string never contains `/` (asserted by the code in debug builds). -/
theorem narrow_injective (g g' s s' : List Char) (hs : '/' ∉ s) (hs' : '/' ∉ s')
    (h : narrow g s = narrow g' s') : g = g' ∧ s = s' := by
  unfold narrow at h
  induction g generalizing g' with
  | nil =>
    cases g' with
    | nil => simp at h; exact ⟨rfl, h⟩
    | cons c r =>
      simp at h
      exact absurd (h.2 ▸ (by simp : '/' ∈ r ++ '/' :: s')) hs
  | cons c r ih =>
    cases g' with
    | nil =>
      simp at h
      exact absurd (h.2 ▸ (by simp : '/' ∈ r ++ '/' :: s)) hs'
    | cons c' r' =>
      simp at h
      obtain ⟨a, b⟩ := ih r' (by simpa using h.2)
      exact ⟨by rw [h.1, a], b⟩

example : narrow "protocol".toList "mul".toList = "protocol/mul".toList := by decide

/-- **dzkp_batch_ranges_disjoint**: the PRSS record ranges `[b·K, (b+1)·K)` of different proof batches are
disjoint, and the `t`-th index drawn by batch `b` (`t < K`; `recursion_bound` of C03 shows at most
`K = PRSS_RECORDS_PER_BATCH` are drawn) lies inside the range of `b` only. -/
theorem dzkp_batch_ranges_disjoint (K b b' t t' : Nat) (hb : b ≠ b') (ht : t < K) (ht' : t' < K) :
    b * K + t ≠ b' * K + t' ∧
    (dzkpRange K b).1 ≤ b * K + t ∧ b * K + t < (dzkpRange K b).2 := by
  refine ⟨fun e => hb (chunk_offsets_distinct K b t b' t' ht ht' e).1, by simp [dzkpRange], ?_⟩
  simp only [dzkpRange, Nat.add_mul]
  omega

/-- the reserved range is the one computed from the extracted constants: 7 + 13·7 + 2 = 100 ids per batch. -/
example : IpaVerif.Generated.Dzkp.prssRecordsPerBatch = 100 := by decide

/-- **mac_records_disjoint**: the PRSS / channel record ids of the MAC validator's batches
(`3·o + {0,1,2}` for u, w, r at creation; `2·o + {0,1}` when propagating u and w; `o` for reveal and
check-zero) never collide between different batch offsets or different roles. -/
theorem mac_records_disjoint (o o' : Nat) :
    (uRecord o macPrssCalls ≠ wRecord o' macPrssCalls) ∧ (uRecord o macPrssCalls ≠ rShareRecord o' macPrssCalls) ∧
    (wRecord o macPrssCalls ≠ rShareRecord o' macPrssCalls) ∧
    (o ≠ o' → uRecord o macPrssCalls ≠ uRecord o' macPrssCalls ∧ wRecord o macPrssCalls ≠ wRecord o' macPrssCalls ∧
      rShareRecord o macPrssCalls ≠ rShareRecord o' macPrssCalls) ∧
    (uRecord o macSends ≠ wRecord o' macSends) ∧
    (o ≠ o' → uRecord o macSends ≠ uRecord o' macSends ∧ wRecord o macSends ≠ wRecord o' macSends) := by
  simp only [uRecord, wRecord, rShareRecord, macPrssCalls, macSends, uRecordAdd, wRecordAdd, rRecordAdd]
  omega

/-! ## record ids of `aggregate_values` -/

theorem foldl_add_init (l : List Nat) (a : Nat) : l.foldl (· + ·) a = a + l.foldl (· + ·) 0 := by
  induction l generalizing a with
  | nil => simp
  | cons x r ih => simp only [List.foldl_cons]; rw [ih (a + x), ih (0 + x)]; omega

theorem baseAfter_append (a b : List Nat) (d : Nat) : baseAfter (a ++ b) d = baseAfter a d + baseAfter b d := by
  unfold baseAfter
  rw [List.map_append, List.foldl_append, foldl_add_init]

/-- **aggregate_record_ids**: over any sequence of `aggregate_values` calls sharing one `record_ids` array
(any chunking of the input), the ids used at one depth by an earlier call (`pre ++ [n]`) and by a later call
(`… ++ [n']`) are different: no `(depth, record id)` pair is ever used twice. -/
theorem aggregate_record_ids (pre mid : List Nat) (n n' d i i' : Nat)
    (hi : i < halves n d) (_hi' : i' < halves n' d) :
    baseAfter pre d + i ≠ baseAfter (pre ++ [n] ++ mid) d + i' := by
  rw [baseAfter_append, baseAfter_append]
  have : baseAfter [n] d = halves n d := by simp [baseAfter]
  omega

theorem aggDepth_le : ∀ fuel d n, n ≤ 2 ^ d → aggDepth fuel n ≤ d := by
  intro fuel
  induction fuel with
  | zero => intro d n _; simp [aggDepth]
  | succ f ih =>
    intro d n h
    unfold aggDepth
    by_cases h1 : n > 1
    · cases d with
      | zero => simp at h; omega
      | succ d' =>
        have hp : (2 : Nat) ^ (d' + 1) = 2 * 2 ^ d' := by rw [Nat.pow_succ]; omega
        have := ih d' ((n + 1) / 2) (by omega)
        simp [h1]; omega
    · simp [h1]

/-- the reduction of at most `2^AGGREGATE_DEPTH` rows needs at most `AGGREGATE_DEPTH` levels, so the index into
the `record_ids` array (`depth = level − 1 < AGGREGATE_DEPTH`) is always in bounds. -/
theorem aggregate_depth_in_bounds (fuel n : Nat) (h : n ≤ 2 ^ aggregateDepth) : aggDepth fuel n ≤ aggregateDepth :=
  aggDepth_le fuel aggregateDepth n h

example : aggDepth 64 (2 ^ 24) = 24 ∧ aggDepth 64 (2 ^ 24 + 1) = 25 ∧ halves 5 0 = 2 ∧ halves 5 1 = 1 ∧ halves 5 2 = 1 := by
  decide

/-! ## never used both ways, never drawn twice (the debug-build detectors of the model) -/

theorem find_set (e : Endpoint) (g : String) (it : Item) : (e.set g it).find g = some it := by
  simp [Endpoint.set, Endpoint.find]

/-- **indexed_xor_sequential**: once a gate has been handed out as sequential, every later indexed access to it
panics, and once it has been used indexed, a sequential request panics: a gate is never used both ways. -/
theorem indexed_xor_sequential (e e' : Endpoint) (g : String) :
    (∀ n, step e (.sequential g n) = .ok e' →
      (∀ idx Z c, ∃ m, step e' (.indexedBoth g idx Z c) = .panic m) ∧
      (∀ l idx Z c, ∃ m, step e' (.indexedOne g l idx Z c) = .panic m) ∧
      (∀ n', ∃ m, step e' (.sequential g n') = .panic m)) ∧
    (∀ a b, e.find g = some (.indexed a b) → ∀ n, ∃ m, step e (.sequential g n) = .panic m) := by
  constructor
  · intro n h
    have hf : e'.find g = some .sequential := by
      simp only [step] at h
      split at h
      · contradiction
      · split at h
        · contradiction
        · injection h with h; rw [← h]; exact find_set _ _ _
    refine ⟨?_, ?_, ?_⟩
    · intro idx Z c; exact ⟨"Attempt to get an indexed PRSS", by simp [step, hf]⟩
    · intro l idx Z c; exact ⟨"Attempt to get an indexed PRSS", by simp [step, hf]⟩
    · intro n'; exact ⟨"Attempt access a sequential PRSS", by simp [step, hf]⟩
  · intro a b h n
    exact ⟨"Attempt access a sequential PRSS", by simp [step, h]⟩

theorem useAll_panic_stays (new : List Nat) (m : String) :
    new.foldl useOne (Outcome.panic m : Outcome (List Nat)) = .panic m := by
  induction new with
  | nil => rfl
  | cons a r ih => simpa [useOne] using ih

/-- **no_reuse**: a successful draw of the packed indices `new` under one key means none of them had been
used before under that key and they are pairwise different; afterwards all of them are recorded. -/
theorem no_reuse (new used used' : List Nat) (h : useAll used new = .ok used') :
    (∀ v ∈ new, v ∉ used) ∧ new.Nodup ∧ (∀ v, v ∈ used' ↔ v ∈ used ∨ v ∈ new) := by
  induction new generalizing used with
  | nil =>
    simp [useAll] at h
    subst h; simp
  | cons a r ih =>
    unfold useAll at h
    simp only [List.foldl_cons, useOne] at h
    by_cases hc : used.contains a = true
    · simp only [hc, if_true] at h
      rw [useAll_panic_stays] at h
      contradiction
    · simp only [hc] at h
      change useAll (a :: used) r = .ok used' at h
      have hna : a ∉ used := by simpa using hc
      obtain ⟨h1, h2, h3⟩ := ih (a :: used) h
      refine ⟨?_, ?_, ?_⟩
      · intro v hv
        rcases List.mem_cons.mp hv with rfl | hv
        · exact hna
        · exact fun hu => h1 v hv (List.mem_cons_of_mem _ hu)
      · exact List.nodup_cons.mpr ⟨fun hm => h1 a hm (List.mem_cons_self), h2⟩
      · intro v; rw [h3]; simp only [List.mem_cons]
        constructor
        · rintro ((h | h) | h) <;> simp [h]
        · rintro (h | h | h) <;> simp [h]

example : useAll [5] [7, 5] = .panic "Generated randomness for index" ∧ useAll [5] [7, 8] = .ok [8, 7, 5] := by
  decide

end IpaVerif.C06
