import IpaVerif.Props.C04
import IpaVerif.Proofs.C04Down
/-!
# C04 — one attacked gate anywhere in a circuit

`single_gate_anywhere_T`: with honest gates before and after ONE attacked multiplication / upgrade (the later gates
may consume the attacked wire), `T = (δ′ − r̂·δ)·(α̂ + c)`, `c` not involving `r`, the attacked gate's `α` or the
check-zero mask.  `single_attack_accept_iff`: such a run is accepted iff `ρ̂·((α̂ + c)·(δ′ − r̂·δ)) = 0` — exactly the
predicate counted by `single_attack_bad_set_card` (`Props/C04Count.lean`).
-/
namespace IpaVerif.C04
open IpaVerif.Sharing IpaVerif.Mac IpaVerif.Generated.Mac

variable {R : Type} [CommRing R]

/-- **single_gate_anywhere_T** — honest gates `gs₀`, then ONE multiplication whose messages carry errors (`e` on the
value part, `e'` on the MAC part), then honest gates `gs₁` (which may consume the attacked wire):
`Σ_k α̂_k·D_k = (δ′ − r̂·δ)·(α̂ + c)` with `c = kterms gs₁ …` — a quantity that does not involve `r`, the attacked
gate's `α`, or the check-zero mask. Likewise for an attacked upgrade (`δ′·(α̂ + c)`). -/
theorem single_gate_anywhere_T (rh : R) (gs₀ gs₁ : List (Gate R)) (h0 : ∀ g ∈ gs₀, GateHonest g)
    (h1 : ∀ g ∈ gs₁, GateHonest g) :
    (∀ i j ρ ρ' α e e',
      termSum (macTerms rh (gs₀ ++ Gate.mul i j ρ ρ' α e e' :: gs₁) [])
        = (errSum e' - rh * errSum e) *
          (rec α + kterms gs₁ (kInit gs₀ ++ [((plain gs₀ []).getD i 0 * (plain gs₀ []).getD j 0 + errSum e, 1)]))) ∧
    (∀ x ρ α e',
      termSum (macTerms rh (gs₀ ++ Gate.upgrade x ρ α e' :: gs₁) [])
        = errSum e' * (rec α + kterms gs₁ (kInit gs₀ ++ [(rec x, 1)]))) := by
  have hget : ∀ D i, pget ((kInit gs₀).map (kToPw D)) i = ⟨(plain gs₀ []).getD i 0, 0⟩ := by
    intro D i
    rw [pget_kmap]
    unfold kget kInit kToPw
    by_cases hi : i < (plain gs₀ []).length
    · simp [List.getD, hi]
    · simp [List.getD, Nat.not_lt.mp hi]
  constructor
  · intro i j ρ ρ' α e e'
    obtain ⟨hpre, hs0⟩ := honest_prefix_kmap rh (errSum e' - rh * errSum e) gs₀ h0
    rw [macTerms_append, termSum_append, hs0, hpre]
    simp only [macTerms, termSum_append, pstep, hget]
    have hk : (List.map (kToPw (errSum e' - rh * errSum e)) (kInit gs₀) ++
          [({ val := (plain gs₀ []).getD i 0 * (plain gs₀ []).getD j 0 + errSum e,
              disc := 0 * (plain gs₀ []).getD j 0 + errSum e' - rh * errSum e } : PW R)])
        = (kInit gs₀ ++ [((plain gs₀ []).getD i 0 * (plain gs₀ []).getD j 0 + errSum e, 1)]).map
            (kToPw (errSum e' - rh * errSum e)) := by
      simp only [List.map_append, List.map_cons, List.map_nil, kToPw]
      congr 2
      congr 1
      ring
    rw [hk, macTerms_kterms rh _ gs₁ h1]
    simp only [termSum, List.map_cons, List.map_nil, List.sum_cons, List.sum_nil]
    ring
  · intro x ρ α e'
    obtain ⟨hpre, hs0⟩ := honest_prefix_kmap rh (errSum e') gs₀ h0
    rw [macTerms_append, termSum_append, hs0, hpre]
    simp only [macTerms, termSum_append, pstep]
    have hk : (List.map (kToPw (errSum e')) (kInit gs₀) ++ [({ val := rec x, disc := errSum e' } : PW R)])
        = (kInit gs₀ ++ [(rec x, 1)]).map (kToPw (errSum e')) := by
      simp only [List.map_append, List.map_cons, List.map_nil, kToPw]
      congr 2
      congr 1
      ring
    rw [hk, macTerms_kterms rh _ gs₁ h1]
    simp only [termSum, List.map_cons, List.map_nil, List.sum_cons, List.sum_nil]
    ring


/-- **single_attack_accept_iff** — one attacked multiplication anywhere, nothing else altered: `validate` returns
`Ok` iff `ρ̂·((α̂ + c)·(δ′ − r̂·δ)) = 0`. -/
theorem single_attack_accept_iff [DecidableEq R] (r : World R) (hr : Consistent r) (mu mw : Masks R)
    (gs₀ gs₁ : List (Gate R)) (hok0 : ∀ g ∈ gs₀, GateOk g) (hok1 : ∀ g ∈ gs₁, GateOk g)
    (h0 : ∀ g ∈ gs₀, GateHonest g) (h1 : ∀ g ∈ gs₁, GateHonest g)
    (i j : Nat) (ρ ρ' : Masks R) (α : World R) (hα : Consistent α) (e e' : Err R)
    (czρ : Masks R) (czMask : World R) (hcz : Consistent czMask) :
    let c := kterms gs₁ (kInit gs₀ ++ [((plain gs₀ []).getD i 0 * (plain gs₀ []).getD j 0 + errSum e, 1)])
    validateE (ringAlg R) r
        (run (ringAlg R) r (gs₀ ++ Gate.mul i j ρ ρ' α e e' :: gs₁) ⟨[], initAcc (ringAlg R) mu mw⟩).acc
        (noValErr (ringAlg R)) czρ czMask = true ↔
      rec czMask * ((rec α + c) * (errSum e' - rec r * errSum e)) = 0 := by
  intro c
  have hok : ∀ g ∈ gs₀ ++ Gate.mul i j ρ ρ' α e e' :: gs₁, GateOk g := by
    intro g hg
    rcases List.mem_append.mp hg with h | h
    · exact hok0 g h
    · rcases List.mem_cons.mp h with rfl | h
      · exact hα
      · exact hok1 g h
  have hacc := attack_accept_iff r hr mu mw _ hok (noValErr (ringAlg R)) czρ czMask hcz
  simp only at hacc
  rw [hacc, (single_gate_anywhere_T (rec r) gs₀ gs₁ h0 h1).1 i j ρ ρ' α e e']
  have z1 : errSum (noValErr (ringAlg R)).eu - errSum (noValErr (ringAlg R)).ew * rec r = 0 := by
    simp [noValErr, noErr, errSum, ringAlg]
  have z2 : errSum (noValErr (ringAlg R)).ecz = 0 := by simp [noValErr, noErr, errSum, ringAlg]
  rw [z1, z2, add_zero, add_zero, mul_comm (errSum e' - rec r * errSum e)]

end IpaVerif.C04
