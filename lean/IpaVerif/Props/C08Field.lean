import IpaVerif.Props.C08
import IpaVerif.Proofs.C08Invert
import Mathlib.NumberTheory.LucasPrimality
import Mathlib.NumberTheory.LucasLehmer
import Mathlib.Tactic.NormNum.Prime
import Mathlib.Tactic.ReduceModChar
import Mathlib.Tactic.Ring
/-!
# C08 — the prime fields are fields (Mathlib part)

* `fp31_prime`, `fp32_prime`, `fp61_prime`: the three moduli regenerated from `prime_field.rs` are
  prime (31: `norm_num`; 2^32-5: Lucas' test with primitive root 2 and 2^32-6 = 2·5·19·22605091;
  2^61-1: Lucas–Lehmer);
* `toZMod_*`: the modelled `+ - * neg` are ring operations of `ZMod p` under `a ↦ (a : ZMod p)`;
* `prime_field_axioms`: all field axioms on canonical representatives, incl. `-0 = 0`,
  `a + (-a) = 0`, existence of inverses, no zero divisors; equal values ⇔ equal representations.
-/
namespace IpaVerif.C08
open IpaVerif.PrimeField IpaVerif.Generated

theorem fp31_prime : Nat.Prime fp31.p := by show Nat.Prime 31; norm_num

theorem fp32_prime : Nat.Prime fp32.p := by
  show Nat.Prime 4294967291
  apply lucas_primality 4294967291 (2 : ZMod 4294967291)
  · reduce_mod_char
  · intro q hq hd
    have hfac : (4294967291 - 1 : ℕ) = 2 * 5 * 19 * 22605091 := by norm_num
    rw [hfac] at hd
    have h22 : Nat.Prime 22605091 := by norm_num
    have : q = 2 ∨ q = 5 ∨ q = 19 ∨ q = 22605091 := by
      rcases (Nat.Prime.dvd_mul hq).mp hd with h | h
      · rcases (Nat.Prime.dvd_mul hq).mp h with h | h
        · rcases (Nat.Prime.dvd_mul hq).mp h with h | h
          · left; exact (Nat.prime_dvd_prime_iff_eq hq (by norm_num)).mp h
          · right; left; exact (Nat.prime_dvd_prime_iff_eq hq (by norm_num)).mp h
        · right; right; left; exact (Nat.prime_dvd_prime_iff_eq hq (by norm_num)).mp h
      · right; right; right; exact (Nat.prime_dvd_prime_iff_eq hq h22).mp h
    rcases this with rfl | rfl | rfl | rfl <;> reduce_mod_char <;> decide

theorem fp61_prime : Nat.Prime fp61.p := by
  show Nat.Prime 2305843009213693951
  have := lucas_lehmer_sufficiency 61 (by norm_num) (by norm_num)
  simpa [mersenne] using this

/-- every modulus extracted from `field_impl!` is prime -/
theorem prime_fields_prime (P : Params) (hP : P ∈ primeFields) : Nat.Prime P.p := by
  simp only [primeFields, List.mem_cons, List.mem_nil_iff, or_false] at hP
  rcases hP with rfl | rfl | rfl
  · exact fp31_prime
  · exact fp32_prime
  · exact fp61_prime

/-- the arithmetic specification shared by the three fields (proved in `Props/C08`) -/
def ArithSpec (P : Params) : Prop :=
  ∀ a b, a < P.p → b < P.p →
    add P a b = (a + b) % P.p ∧ sub P a b = (P.p + a - b) % P.p ∧ mul P a b = (a * b) % P.p ∧
    neg P a = (P.p - a) % P.p

theorem prime_fields_arith (P : Params) (hP : P ∈ primeFields) : ArithSpec P := by
  simp only [primeFields, List.mem_cons, List.mem_nil_iff, or_false] at hP
  rcases hP with rfl | rfl | rfl
  · intro a b _ _; exact ⟨add_spec_fp31 a b, sub_spec_fp31 a b, mul_spec_fp31 a b, rfl⟩
  · intro a b _ _; exact ⟨add_spec_fp32 a b, sub_spec_fp32 a b, mul_spec_fp32 a b, rfl⟩
  · intro a b ha hb
    have ha' : a < 2 ^ 64 := Nat.lt_trans ha (by decide)
    have hb' : b < 2 ^ 64 := Nat.lt_trans hb (by decide)
    exact ⟨add_spec_fp61 a b ha' hb', sub_spec_fp61 a b ha' hb', mul_spec_fp61 a b ha' hb', rfl⟩

section
variable {P : Params} (hs : ArithSpec P)
include hs

/-- ring homomorphism into `ZMod p` -/
theorem toZMod_add {a b : ℕ} (ha : a < P.p) (hb : b < P.p) :
    ((add P a b : ℕ) : ZMod P.p) = (a : ZMod P.p) + b := by
  rw [(hs a b ha hb).1, ZMod.natCast_mod, Nat.cast_add]

theorem toZMod_mul {a b : ℕ} (ha : a < P.p) (hb : b < P.p) :
    ((mul P a b : ℕ) : ZMod P.p) = (a : ZMod P.p) * b := by
  rw [(hs a b ha hb).2.2.1, ZMod.natCast_mod, Nat.cast_mul]

theorem toZMod_sub {a b : ℕ} (ha : a < P.p) (hb : b < P.p) :
    ((sub P a b : ℕ) : ZMod P.p) = (a : ZMod P.p) - b := by
  rw [(hs a b ha hb).2.1, ZMod.natCast_mod, Nat.cast_sub (by omega), Nat.cast_add, ZMod.natCast_self]
  ring

theorem toZMod_neg {a : ℕ} (ha : a < P.p) : ((neg P a : ℕ) : ZMod P.p) = -(a : ZMod P.p) := by
  rw [(hs a a ha ha).2.2.2, ZMod.natCast_mod, Nat.cast_sub (Nat.le_of_lt ha), ZMod.natCast_self]
  ring

theorem canonical_ops {a b : ℕ} (ha : a < P.p) (hb : b < P.p) :
    add P a b < P.p ∧ sub P a b < P.p ∧ mul P a b < P.p ∧ neg P a < P.p := by
  have hpos : 0 < P.p := Nat.lt_of_le_of_lt (Nat.zero_le _) ha
  obtain ⟨h1, h2, h3, h4⟩ := hs a b ha hb
  rw [h1, h2, h3, h4]
  exact ⟨Nat.mod_lt _ hpos, Nat.mod_lt _ hpos, Nat.mod_lt _ hpos, Nat.mod_lt _ hpos⟩
end

/-- equal values ⇔ identical canonical representation -/
theorem eq_of_cast_eq {p x y : ℕ} (hx : x < p) (hy : y < p) (h : (x : ZMod p) = (y : ZMod p)) : x = y := by
  have := (ZMod.natCast_eq_natCast_iff x y p).mp h
  unfold Nat.ModEq at this
  rwa [Nat.mod_eq_of_lt hx, Nat.mod_eq_of_lt hy] at this

/-- **All field axioms on canonical representatives**, for any modelled field whose modulus is prime
and whose operations meet the arithmetic specification. -/
theorem field_axioms_of (P : Params) (hp : Nat.Prime P.p) (hs : ArithSpec P)
    {a b c : ℕ} (ha : a < P.p) (hb : b < P.p) (hc : c < P.p) :
    add P a b = add P b a ∧ add P (add P a b) c = add P a (add P b c) ∧ add P a 0 = a ∧
    neg P 0 = 0 ∧ add P a (neg P a) = 0 ∧ sub P a b = add P a (neg P b) ∧
    mul P a b = mul P b a ∧ mul P (mul P a b) c = mul P a (mul P b c) ∧ mul P a 1 = a ∧
    mul P a (add P b c) = add P (mul P a b) (mul P a c) ∧
    (a ≠ 0 → ∃ x, x < P.p ∧ mul P a x = 1) ∧
    (mul P a b = 0 → a = 0 ∨ b = 0) := by
  have : Fact (Nat.Prime P.p) := ⟨hp⟩
  have h0 : 0 < P.p := hp.pos
  have h1 : 1 < P.p := hp.one_lt
  have can := fun {x y : ℕ} (hx : x < P.p) (hy : y < P.p) => canonical_ops hs hx hy
  have hneg0 : neg P 0 = 0 := by
    rw [(hs 0 0 h0 h0).2.2.2]; simp
  refine ⟨?_, ?_, ?_, hneg0, ?_, ?_, ?_, ?_, ?_, ?_, ?_, ?_⟩
  · apply eq_of_cast_eq (can ha hb).1 (can hb ha).1
    rw [toZMod_add hs ha hb, toZMod_add hs hb ha]; ring
  · apply eq_of_cast_eq (can (can ha hb).1 hc).1 (can ha (can hb hc).1).1
    rw [toZMod_add hs (can ha hb).1 hc, toZMod_add hs ha hb, toZMod_add hs ha (can hb hc).1, toZMod_add hs hb hc]; ring
  · apply eq_of_cast_eq (can ha h0).1 ha
    rw [toZMod_add hs ha h0]; simp
  · apply eq_of_cast_eq (can ha (can ha ha).2.2.2).1 h0
    rw [toZMod_add hs ha (can ha ha).2.2.2, toZMod_neg hs ha]; simp
  · apply eq_of_cast_eq (can ha hb).2.1 (can ha (can hb hb).2.2.2).1
    rw [toZMod_sub hs ha hb, toZMod_add hs ha (can hb hb).2.2.2, toZMod_neg hs hb]; ring
  · apply eq_of_cast_eq (can ha hb).2.2.1 (can hb ha).2.2.1
    rw [toZMod_mul hs ha hb, toZMod_mul hs hb ha]; ring
  · apply eq_of_cast_eq (can (can ha hb).2.2.1 hc).2.2.1 (can ha (can hb hc).2.2.1).2.2.1
    rw [toZMod_mul hs (can ha hb).2.2.1 hc, toZMod_mul hs ha hb, toZMod_mul hs ha (can hb hc).2.2.1, toZMod_mul hs hb hc]; ring
  · apply eq_of_cast_eq (can ha h1).2.2.1 ha
    rw [toZMod_mul hs ha h1]; simp
  · apply eq_of_cast_eq (can ha (can hb hc).1).2.2.1 (can (can ha hb).2.2.1 (can ha hc).2.2.1).1
    rw [toZMod_mul hs ha (can hb hc).1, toZMod_add hs hb hc, toZMod_add hs (can ha hb).2.2.1 (can ha hc).2.2.1,
      toZMod_mul hs ha hb, toZMod_mul hs ha hc]; ring
  · intro ha0
    have hane : (a : ZMod P.p) ≠ 0 := by
      intro h
      apply ha0
      exact eq_of_cast_eq ha h0 (by simpa using h)
    refine ⟨((a : ZMod P.p)⁻¹).val, ZMod.val_lt _, ?_⟩
    apply eq_of_cast_eq (can ha (ZMod.val_lt _)).2.2.1 h1
    rw [toZMod_mul hs ha (ZMod.val_lt _), ZMod.natCast_zmod_val, mul_inv_cancel₀ hane]; simp
  · intro hab
    have : (a : ZMod P.p) * b = 0 := by
      rw [← toZMod_mul hs ha hb, hab]; simp
    rcases mul_eq_zero.mp this with h | h
    · left; exact eq_of_cast_eq ha h0 (by simpa using h)
    · right; exact eq_of_cast_eq hb h0 (by simpa using h)

/-- **Fp31, Fp32BitPrime and Fp61BitPrime are fields with canonical elements.** -/
theorem prime_field_axioms (P : Params) (hP : P ∈ primeFields) {a b c : ℕ} (ha : a < P.p) (hb : b < P.p) (hc : c < P.p) :
    add P a b = add P b a ∧ add P (add P a b) c = add P a (add P b c) ∧ add P a 0 = a ∧
    neg P 0 = 0 ∧ add P a (neg P a) = 0 ∧ sub P a b = add P a (neg P b) ∧
    mul P a b = mul P b a ∧ mul P (mul P a b) c = mul P a (mul P b c) ∧ mul P a 1 = a ∧
    mul P a (add P b c) = add P (mul P a b) (mul P a c) ∧
    (a ≠ 0 → ∃ x, x < P.p ∧ mul P a x = 1) ∧
    (mul P a b = 0 → a = 0 ∨ b = 0) :=
  field_axioms_of P (prime_fields_prime P hP) (prime_fields_arith P hP) ha hb hc

/-! ### `PrimeField::invert` (sign-tracking extended Euclid) and `TryFrom<u128>` -/

theorem bitLen_le_of_lt {v k : ℕ} (h : v < 2 ^ k) : bitLen v ≤ k := by
  unfold bitLen
  split
  · omega
  · rename_i h0
    have := (Nat.log2_lt h0).mpr h
    omega

/-- `try_from` accepts every canonical value unchanged -/
theorem tryFrom_of_lt (P : Params) (hP : P ∈ primeFields) {v : ℕ} (hv : v < P.p) : tryFrom P v = some v := by
  simp only [primeFields, List.mem_cons, List.mem_nil_iff, or_false] at hP
  rcases hP with rfl | rfl | rfl
  · have hb : bitLen v ≤ fp31.bits := bitLen_le_of_lt (Nat.lt_trans hv (by decide))
    simp only [tryFrom, hb, if_true, truncateFrom, reduce_eq_mod_fp31, Nat.mod_eq_of_lt hv]
  · have hb : bitLen v ≤ fp32.bits := bitLen_le_of_lt (Nat.lt_trans hv (by decide))
    simp only [tryFrom, hb, if_true, truncateFrom, reduce_eq_mod_fp32, Nat.mod_eq_of_lt hv]
  · have hb : bitLen v ≤ fp61.bits := bitLen_le_of_lt (Nat.lt_trans hv (by decide))
    have h128 : v < 340282366920938463463374607431768211456 := Nat.lt_trans hv (by decide)
    simp only [tryFrom, hb, if_true, truncateFrom, reduce_eq_mod_fp61 v h128, Nat.mod_eq_of_lt hv]

/-- **`invert` is correct on every non-zero canonical element of the three fields**: the loop
terminates within its fuel, `try_from(..).unwrap()` does not panic, the result is canonical and
`a · invert a = 1`. `invert 0` panics (`assert_ne!`). -/
theorem invert_correct (P : Params) (hP : P ∈ primeFields) {a : ℕ} (ha0 : a ≠ 0) (ha : a < P.p) :
    ∃ b, b < P.p ∧ invert P a = some b ∧ mul P a b = 1 ∧ mul P b a = 1 := by
  have hp := prime_fields_prime P hP
  have hs := prime_fields_arith P hP
  have hfuel : P.p * a < 2 ^ 200 := by
    simp only [primeFields, List.mem_cons, List.mem_nil_iff, or_false] at hP
    rcases hP with rfl | rfl | rfl
    · have : a < 31 := ha
      show 31 * a < 2 ^ 200; omega
    · have : a < 4294967291 := ha
      show 4294967291 * a < 2 ^ 200; omega
    · have : a < 2305843009213693951 := ha
      show 2305843009213693951 * a < 2 ^ 200; omega
  obtain ⟨hinv, hz⟩ := Invert.invLoop_spec 200 _ (Invert.inv_init hp ha0 ha) hfuel
  obtain ⟨hlt, hmul⟩ := Invert.inv_final hp hinv hz
  refine ⟨_, hlt, ?_, ?_, ?_⟩
  · simp only [invert, ha0, if_false]
    exact tryFrom_of_lt P hP hlt
  · apply eq_of_cast_eq (canonical_ops hs ha hlt).2.2.1 hp.one_lt
    rw [toZMod_mul hs ha hlt, mul_comm, hmul]; simp
  · apply eq_of_cast_eq (canonical_ops hs hlt ha).2.2.1 hp.one_lt
    rw [toZMod_mul hs hlt ha, hmul]; simp

theorem invert_zero_panics (P : Params) : invert P 0 = none := by simp [invert]

/-- Non-vacuity: boundary elements of Fp61BitPrime. -/
example : (2305843009213693950 : ℕ) < fp61.p ∧ mul fp61 2305843009213693950 2305843009213693950 = 1 := by decide

end IpaVerif.C08
