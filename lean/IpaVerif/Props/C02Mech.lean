import IpaVerif.Model.Malicious
import IpaVerif.Props.C02
import IpaVerif.Props.C03
import IpaVerif.Props.C04
import IpaVerif.Props.C05
/-!
# C02 — the protected phases, instantiated with the real mechanisms

`Props/C02.lean` proves the composition theorem over abstract phases with a `Sound` hypothesis. This file
builds the `Phase` instances for the five protecting mechanisms of the hybrid query and proves `Sound` for
each **from the mechanism theorems of C03, C04, C05 and C02's own two checks**, with the mechanism's
bad-challenge event as the `bad` predicate:

| phase            | mechanism theorem used                                           | `bad` event                                             |
|------------------|------------------------------------------------------------------|---------------------------------------------------------|
| `countPhase`     | `C02.count_tamper`                                               | none                                                    |
| `openPhase`    | `C02.reveal_tamper` (two-copy opening)                           | none                                                    |
| `dzkpPhase`      | `C03.gate_views`, `C03.sum_iff_all_consistent`                   | a proof of a false batch statement survives the checks  |
| `macPhase`       | `C04.attack_accept_iff`, `C04.honest_validates`, `C04.reveal_two_copies_mac` | `ρ̂·(Σ α̂_k·D_k + ε_u − ε_w·r̂) + δ_cz = 0` with a deviation present |
| `shufflePhase`   | `C05.check_honest` + collision-freeness (as `shuffle_tamper_core`) | an altered row verifies under the secret keys (`tag_detects`) |

**What is abstracted (honest list).** The query state `σ` ("everything the two honest helpers' shares determine")
and the tampering choices `τ` stay type parameters. How a phase's computation is expressed in the mechanism's
terms — the list of AND gates of a DZKP batch, the arithmetic circuit of a MAC batch, the table of a shuffle, the
sharings that are opened — is an *encoding* supplied by the instance (`DzkpEnc`, `MacEnc`, …), not derived from
the Rust circuits. The soundness of the recursive DZKP proof against a forged proof (Fiat–Shamir challenge hits a
root) is the event `forge` and is not proved (C03 registers it as partial). Probabilities of the bad events are
not formalised (C04 counts the single-attack case). Batching (one validator batch per phase here), partial
openings (here both honest helpers open) and the sharded layout are simplified.
-/
namespace IpaVerif.C02
open IpaVerif.Malicious

/-! ## collecting a list of checks that may each fail -/

def collect {α : Type} : List (Option α) → Option (List α)
  | [] => some []
  | none :: _ => none
  | some a :: r => (collect r).map (a :: ·)

theorem collect_none_or {α : Type} (l : List (Option α)) (hon : List α)
    (h : List.Forall₂ (fun o a => o = none ∨ o = some a) l hon) :
    collect l = none ∨ collect l = some hon := by
  induction h with
  | nil => right; rfl
  | cons hd _ ih =>
    rcases hd with rfl | rfl
    · left; rfl
    · rcases ih with h | h
      · left; simp [collect, h]
      · right; simp [collect, h]

/-! ## dummy-count agreement (`apply_dp_padding_pass`) -/

/-- `counts s`: per padding pass, the number of dummy rows the two generating helpers derive from their shared
randomness; `forged t k = (side, v)`: in pass `k` the corrupt generating helper reports `v` instead, `side` says
whether it is the excluded helper's right (`true`) or left peer; `put`: the query continues with these counts. -/
structure CountEnc (σ τ : Type) where
  counts : σ → List Nat
  forged : τ → Nat → Bool × Nat
  put : σ → List Nat → σ

def countPass (honest : Nat) (f : Bool × Nat) : Option Nat :=
  if f.1 then countAt f.2 honest else countAt honest f.2

def countAll (f : Nat → Bool × Nat) : List Nat → Nat → List (Option Nat)
  | [], _ => []
  | c :: r, k => countPass c (f k) :: countAll f r (k + 1)

def countPhase {σ τ : Type} (E : CountEnc σ τ) : Phase σ τ where
  honest s := E.put s (E.counts s)
  run s t := (collect (countAll (E.forged t) (E.counts s) 0)).map (E.put s)
  bad _ _ := False

theorem countAll_forall (f : Nat → Bool × Nat) (cs : List Nat) (k : Nat) :
    List.Forall₂ (fun o a => o = none ∨ o = some a) (countAll f cs k) cs := by
  induction cs generalizing k with
  | nil => exact .nil
  | cons c r ih =>
    refine .cons ?_ (ih (k + 1))
    unfold countPass
    have := count_tamper c (f k).2
    split
    · exact this.2
    · exact this.1

theorem countPhase_sound {σ τ : Type} (E : CountEnc σ τ) : (countPhase E).Sound := by
  intro s t
  rcases collect_none_or _ _ (countAll_forall (E.forged t) (E.counts s) 0) with h | h
  · left; simp [countPhase, h]
  · right; left; simp [countPhase, h]

/-! ## two-copy openings (`malicious_reveal`) -/

/-- `vals s`: the sharings (values mod `m`) opened in this phase; `forged t k = (mL, mR)`: what the corrupt helper
`c` sends to its left / right peer in the `k`-th opening; `put`: the query continues with the opened values. -/
structure RevealEnc (σ τ : Type) where
  m : Nat
  c : Nat
  hc : c < 3
  vals : σ → List (Nat → Nat)
  forged : τ → Nat → Nat × Nat
  put : σ → List Nat → σ

/-- both honest helpers (`c+1`, `c+2`) must obtain the value, otherwise the query aborts. -/
def openBoth (m : Nat) (s : Nat → Nat) (c : Nat) (f : Nat × Nat) : Option Nat :=
  match revealWithCorrupt m s c (nxt c) f.1 f.2, revealWithCorrupt m s c (prv c) f.1 f.2 with
  | some a, some _ => some a
  | _, _ => none

theorem openBoth_sound (m : Nat) (s : Nat → Nat) (c : Nat) (_hc : c < 3) (f : Nat × Nat) :
    openBoth m s c f = none ∨ openBoth m s c f = some (reconstruct m s) := by
  have h1 := reveal_tamper m s c (nxt c) (by unfold nxt; omega) (by unfold nxt; omega) f.1 f.2
  have h2 := reveal_tamper m s c (prv c) (by unfold prv; omega) (by unfold prv; omega) f.1 f.2
  unfold openBoth
  rcases h1 with h1 | h1 <;> rcases h2 with h2 | h2 <;> simp [h1, h2]

def openAll (m c : Nat) (f : Nat → Nat × Nat) : List (Nat → Nat) → Nat → List (Option Nat)
  | [], _ => []
  | s :: r, k => openBoth m s c (f k) :: openAll m c f r (k + 1)

theorem openAll_forall (m c : Nat) (hc : c < 3) (f : Nat → Nat × Nat) (vs : List (Nat → Nat)) (k : Nat) :
    List.Forall₂ (fun o a => o = none ∨ o = some a) (openAll m c f vs k) (vs.map (reconstruct m)) := by
  induction vs generalizing k with
  | nil => exact .nil
  | cons v r ih => exact .cons (openBoth_sound m v c hc (f k)) (ih (k + 1))

def openPhase {σ τ : Type} (E : RevealEnc σ τ) : Phase σ τ where
  honest s := E.put s ((E.vals s).map (reconstruct E.m))
  run s t := (collect (openAll E.m E.c (E.forged t) (E.vals s) 0)).map (E.put s)
  bad _ _ := False

theorem openPhase_sound {σ τ : Type} (E : RevealEnc σ τ) : (openPhase E).Sound := by
  intro s t
  rcases collect_none_or _ _ (openAll_forall E.m E.c E.hc (E.forged t) (E.vals s) 0) with h | h
  · left; simp [openPhase, h]
  · right; left; simp [openPhase, h]

/-! ## DZKP-protected multiplications (`dzkp_validator.rs`) -/

open IpaVerif.Dzkp in
/-- the verifiers' triple of the corrupt prover's gate is inconsistent exactly when the transmitted `z` was
altered (the `sentZ` line of `gate_views`, read on the *verifiers'* records, which the prover does not control). -/
theorem sentZ_inconsistent (g : Gate) (j : Hid) :
    verifierTripleConsistent (views g (some (j, Flip.sentZ))) j = false := by
  cases j <;>
    simp [verifierTripleConsistent, views, honestView, leftVerifierU, rightVerifierV, Hid.next, Hid.prev,
      Hid.same, zOf] <;>
    (generalize g.x .h0 = x0; generalize g.x .h1 = x1; generalize g.x .h2 = x2
     generalize g.y .h0 = y0; generalize g.y .h1 = y1; generalize g.y .h2 = y2
     generalize g.p .h0 = p0; generalize g.p .h1 = p1; generalize g.p .h2 = p2
     revert x0 x1 x2 y0 y1 y2 p0 p1 p2; decide)

/-- One validator batch of AND gates with the corrupt helper `j` as prover.

* `n s`: number of multiplications in the batch; `gate s e k`: the nine share bits of the `k`-th multiplication
  when the outputs of earlier gates carry the additive errors `e` (a GF(2) error is a flip);
* `eval s e`: the query state after the phase when the corrupt helper's transmitted `z` of gate `k` is flipped iff
  `e k` — the honest helpers go on computing with what they received;
* `zflip`, `forge`, `sabotage`: the adversary's choices — which `z` to flip, whether its forged proof of the
  (false) statement survives the verifiers' checks (the unproved soundness event), whether it makes validation
  fail outright. -/
structure DzkpEnc (σ τ : Type) where
  j : IpaVerif.Dzkp.Hid
  n : σ → Nat
  gate : σ → (Nat → Bool) → Nat → IpaVerif.Dzkp.Gate
  eval : σ → (Nat → Bool) → σ
  zflip : τ → Nat → Bool
  forge : τ → Bool
  sabotage : τ → Bool
  hn : ∀ s, n s < IpaVerif.Generated.fp61.p
  eval_ext : ∀ s e, (∀ k, k < n s → e k = false) → eval s e = eval s (fun _ => false)

/-- per gate: is the triple `(u from the left verifier, v from the right verifier)` consistent? -/
def dzkpFlags {σ τ : Type} (E : DzkpEnc σ τ) (s : σ) (t : τ) : List Bool :=
  (List.range (E.n s)).map fun k =>
    IpaVerif.Dzkp.verifierTripleConsistent
      (IpaVerif.Dzkp.views (E.gate s (E.zflip t) k)
        (if E.zflip t k then some (E.j, IpaVerif.Dzkp.Flip.sentZ) else none)) E.j

/-- `Batch::validate`: the proof is about `Σ_k ⟨u_k, v_k⟩ = m·(−1/2)` for the verifiers' `u`, `v`. -/
def dzkpAccept {σ τ : Type} (E : DzkpEnc σ τ) (s : σ) (t : τ) : Bool :=
  !E.sabotage t &&
    (decide (IpaVerif.C03.sumTerms (dzkpFlags E s t) = IpaVerif.C03.expectedSum (dzkpFlags E s t).length)
      || E.forge t)

def dzkpPhase {σ τ : Type} (E : DzkpEnc σ τ) : Phase σ τ where
  honest s := E.eval s (fun _ => false)
  run s t := if dzkpAccept E s t then some (E.eval s (E.zflip t)) else none
  bad s t := E.forge t = true ∧
    IpaVerif.C03.sumTerms (dzkpFlags E s t) ≠ IpaVerif.C03.expectedSum (dzkpFlags E s t).length

theorem dzkpPhase_sound {σ τ : Type} (E : DzkpEnc σ τ) : (dzkpPhase E).Sound := by
  intro s t
  by_cases hacc : dzkpAccept E s t = true
  · by_cases hsum : IpaVerif.C03.sumTerms (dzkpFlags E s t) = IpaVerif.C03.expectedSum (dzkpFlags E s t).length
    · -- the statement is true: every gate is consistent, so no `z` was altered
      right; left
      have hlen : (dzkpFlags E s t).length < IpaVerif.Generated.fp61.p := by
        simp [dzkpFlags]; exact E.hn s
      have hall := (IpaVerif.C03.sum_iff_all_consistent _ hlen).mp hsum
      have hz : ∀ k, k < E.n s → E.zflip t k = false := by
        intro k hk
        by_cases hf : E.zflip t k = true
        · exfalso
          have hmem : IpaVerif.Dzkp.verifierTripleConsistent
              (IpaVerif.Dzkp.views (E.gate s (E.zflip t) k)
                (if E.zflip t k then some (E.j, IpaVerif.Dzkp.Flip.sentZ) else none)) E.j ∈ dzkpFlags E s t := by
            unfold dzkpFlags
            exact List.mem_map.mpr ⟨k, List.mem_range.mpr hk, rfl⟩
          have htrue := List.all_eq_true.mp hall _ hmem
          rw [hf] at htrue
          simp [sentZ_inconsistent] at htrue
        · simpa using hf
      simp only [dzkpPhase, hacc, if_true]
      rw [E.eval_ext s _ hz]
    · right; right
      refine ⟨?_, hsum⟩
      unfold dzkpAccept at hacc
      simp [hsum] at hacc
      exact hacc.2
  · left; simp [dzkpPhase, hacc]

/-! ## shuffle with MAC tags and cross-helper hashes (`shuffle/malicious.rs`) -/

open IpaVerif.C05 in
/-- `rows s`: the table (data words per row) an honest verifier must hold after the honest shuffle, `keys s` the
secret MAC keys, `hash` the collision-free hash of `verify_shuffle` (hypothesis `hinj`, as in
`shuffle_tamper_core`); `held t k = some (w, tag)`: through its altered messages the corrupt helper makes the
honest verifier hold row `w` with tag `tag` at position `k` (`none` = untouched); `eval s rows'`: the query state
when the honest helpers continue with `rows'` (tags are dropped after verification). -/
structure ShuffleEnc (σ τ F H : Type) where
  G : TagField F
  hash : List F → H
  hinj : ∀ a b, hash a = hash b → a = b
  keys : σ → List F
  rows : σ → List (List F)
  held : τ → Nat → Option (List F × F)
  eval : σ → List (List F) → σ

/-- the rows (with tags) the verifier holds: honest rows carry their honest tag `Σ keyᵢ·wordᵢ`. -/
def heldRows {F : Type} (G : IpaVerif.C05.TagField F) (keys : List F) (held : Nat → Option (List F × F)) :
    List (List F) → Nat → List (List F × F)
  | [], _ => []
  | w :: r, k => (match held k with | some x => x | none => (w, IpaVerif.C05.ip G w keys)) :: heldRows G keys held r (k + 1)

def shuffleChecks {σ τ F H : Type} (E : ShuffleEnc σ τ F H) (s : σ) (t : τ) : List F :=
  (heldRows E.G (E.keys s) (E.held t) (E.rows s) 0).map fun x => IpaVerif.C05.check E.G (E.keys s) x.1 x.2

/-- what the neighbour computes from the table the verifier *should* hold -/
def shuffleExpected {σ τ F H : Type} (E : ShuffleEnc σ τ F H) (s : σ) : List F :=
  (E.rows s).map fun w => IpaVerif.C05.check E.G (E.keys s) w (IpaVerif.C05.ip E.G w (E.keys s))

def shufflePhase {σ τ F H : Type} [DecidableEq H] (E : ShuffleEnc σ τ F H) : Phase σ τ where
  honest s := E.eval s (E.rows s)
  run s t :=
    if E.hash (shuffleChecks E s t) = E.hash (shuffleExpected E s) then
      some (E.eval s ((heldRows E.G (E.keys s) (E.held t) (E.rows s) 0).map (·.1)))
    else none
  -- some position holds a *different* row that nevertheless verifies under the secret keys: for a changed data
  -- word this pins the corresponding key to one value (`tag_detects`); a changed tag alone never verifies
  -- (`tag_detects_tag_only`).
  bad s t := ∃ x ∈ (heldRows E.G (E.keys s) (E.held t) (E.rows s) 0).zip (E.rows s),
    x.1.1 ≠ x.2 ∧ IpaVerif.C05.check E.G (E.keys s) x.1.1 x.1.2 = E.G.zero

theorem heldRows_length {F : Type} (G : IpaVerif.C05.TagField F) (keys : List F) (held : Nat → Option (List F × F))
    (rows : List (List F)) (k : Nat) : (heldRows G keys held rows k).length = rows.length := by
  induction rows generalizing k with
  | nil => rfl
  | cons w r ih => simp [heldRows, ih]

theorem shufflePhase_sound {σ τ F H : Type} [DecidableEq H] (E : ShuffleEnc σ τ F H) : (shufflePhase E).Sound := by
  intro s t
  by_cases hacc : E.hash (shuffleChecks E s t) = E.hash (shuffleExpected E s)
  · have heq := E.hinj _ _ hacc
    -- every expected check value is zero (`check_honest`)
    have hexp : ∀ v ∈ shuffleExpected E s, v = E.G.zero := by
      intro v hv
      obtain ⟨w, _, rfl⟩ := List.mem_map.mp hv
      exact IpaVerif.C05.check_honest E.G _ _
    by_cases hdev : ∃ x ∈ (heldRows E.G (E.keys s) (E.held t) (E.rows s) 0).zip (E.rows s), x.1.1 ≠ x.2
    · right; right
      obtain ⟨x, hx, hne⟩ := hdev
      refine ⟨x, hx, hne, ?_⟩
      apply hexp
      rw [← heq]
      exact List.mem_map.mpr ⟨x.1, (List.of_mem_zip hx).1, rfl⟩
    · right; left
      have hsame : (heldRows E.G (E.keys s) (E.held t) (E.rows s) 0).map (·.1) = E.rows s := by
        apply List.ext_getElem
        · simp [heldRows_length]
        · intro i h1 h2
          simp only [List.getElem_map]
          by_contra hne
          apply hdev
          refine ⟨((heldRows E.G (E.keys s) (E.held t) (E.rows s) 0)[i]'(by simpa using h1), (E.rows s)[i]), ?_, hne⟩
          rw [List.mem_iff_getElem]
          exact ⟨i, by simp [heldRows_length]; exact h2, by simp⟩
      simp only [shufflePhase, hacc, if_true, hsame]
  · left; simp [shufflePhase, hacc]

/-- **Key secrecy is necessary (finding F14).** `shufflePhase`'s bad event is rare only for keys the adversary
does not know when it chooses the altered row (`tag_detects`). If it knows the keys, *every* change `d` of the data
words goes through: shift the tag by `Σ keyᵢ·dᵢ` and the row's check value is unchanged — the hash comparison of
`verify_shuffle` cannot notice. In `malicious_sharded_shuffle` H1's part of the shuffle rounds ends (after the
`cardinality` word from H2) before H2 and H3 exchange `c₁`, `c₂`; H1 then opens its key shares, and the share it
sends to H2 is the one H2 lacks. Replayed on the real code by `c02_tamper` (`macshift` cases: accepted, different
histogram). -/
theorem known_key_forgery_counterexample {F : Type} (G : IpaVerif.C05.TagField F) (keys w d : List F) (t : F)
    (h : w.length = d.length) :
    IpaVerif.C05.check G keys (IpaVerif.C05.vadd G w d) (G.add t (IpaVerif.C05.ip G d keys))
      = IpaVerif.C05.check G keys w t := by
  rw [IpaVerif.C05.check_add G keys w d t _ h, IpaVerif.C05.check_honest, G.add_zero]

/-- a concrete forged row over GF(2) with keys `[1, 1]`: data `[1,0] → [0,0]`, tag `1 → 0` verifies like the original -/
example : IpaVerif.C05.check IpaVerif.C05.gf2 [true, true] [false, false] false
    = IpaVerif.C05.check IpaVerif.C05.gf2 [true, true] [true, false] true := by decide

/-! ## MAC-protected arithmetic (`validator.rs`, `prf_eval.rs`) -/

section Mac
open IpaVerif.Sharing IpaVerif.Mac IpaVerif.C04
variable {R : Type} [CommRing R]

/-- only the corrupt helper `c` puts an error on a message -/
def errAt (c : Nat) (v : R) : Err R :=
  match c % 3 with
  | 0 => ⟨v, 0, 0⟩
  | 1 => ⟨0, v, 0⟩
  | _ => ⟨0, 0, v⟩

theorem errSum_errAt (c : Nat) (v : R) : errSum (errAt c v) = v := by
  unfold errAt errSum; split <;> simp

/-- the circuit with the corrupt helper's errors `f k = (δ_k, δ′_k)` put on the messages of gate `k`. -/
def setErrs (c : Nat) (f : Nat → R × R) : List (Gate R) → Nat → List (Gate R)
  | [], _ => []
  | .upgrade x ρ α _ :: gs, k => .upgrade x ρ α (errAt c (f k).2) :: setErrs c f gs (k + 1)
  | .mul i j ρ ρ' α _ _ :: gs, k => .mul i j ρ ρ' α (errAt c (f k).1) (errAt c (f k).2) :: setErrs c f gs (k + 1)
  | .add i j :: gs, k => .add i j :: setErrs c f gs (k + 1)
  | .sub i j :: gs, k => .sub i j :: setErrs c f gs (k + 1)
  | .neg i :: gs, k => .neg i :: setErrs c f gs (k + 1)
  | .mulConst i a :: gs, k => .mulConst i a :: setErrs c f gs (k + 1)

theorem setErrs_ok (c : Nat) (f : Nat → R × R) (gs : List (Gate R)) (k : Nat) (h : ∀ g ∈ gs, GateOk g) :
    ∀ g ∈ setErrs c f gs k, GateOk g := by
  induction gs generalizing k with
  | nil => intro g hg; simp [setErrs] at hg
  | cons g0 r ih =>
    have h0 := h g0 List.mem_cons_self
    have hr := ih (k + 1) (fun g hg => h g (List.mem_cons_of_mem _ hg))
    intro g hg
    cases g0 <;> simp only [setErrs, List.mem_cons] at hg <;> rcases hg with rfl | hg <;>
      first | exact hr g hg | (simp only [GateOk] at h0 ⊢; exact h0) | simp [GateOk]

theorem plain_setErrs (c : Nat) (f : Nat → R × R) (gs : List (Gate R)) (k : Nat) (vs : List R) :
    plain (setErrs c f gs k) vs = plain gs vs := by
  induction gs generalizing k vs with
  | nil => rfl
  | cons g0 r ih => cases g0 <;> simp [setErrs, plain, plainStep, ih]

/-- One MAC validator batch: an arithmetic circuit (`gs s`, any sequence of upgrades / multiplications / linear
operations as in C04) under batch key `r s`, then `validate`, then the two-copy openings of the wires `outs s`.
`errs`, `ve`, `forged` are the corrupt helper's choices: additive errors on every message of every gate, on the
three messages of `validate` (propagate `u`, `w`, check-zero multiplication), and the copies sent in each opening. -/
structure MacEnc (σ τ R : Type) [CommRing R] where
  c : Nat
  hc : c < 3
  r : σ → World R
  mu : σ → Masks R
  mw : σ → Masks R
  gs : σ → List (Gate R)
  czρ : σ → Masks R
  czMask : σ → World R
  outs : σ → List Nat
  put : σ → List R → σ
  errs : τ → Nat → R × R
  ve : τ → R × R × R
  forged : τ → Nat → R × R
  ok : ∀ s, Consistent (r s) ∧ Consistent (czMask s) ∧ ∀ g ∈ gs s, GateOk g

def MacEnc.circuit {σ τ : Type} (E : MacEnc σ τ R) (s : σ) (t : τ) : List (Gate R) :=
  setErrs E.c (E.errs t) (E.gs s) 0

def MacEnc.valErr {σ τ : Type} (E : MacEnc σ τ R) (t : τ) : ValErr R :=
  ⟨errAt E.c (E.ve t).1, errAt E.c (E.ve t).2.1, errAt E.c (E.ve t).2.2⟩

def MacEnc.state {σ τ : Type} (E : MacEnc σ τ R) (s : σ) (t : τ) : St R :=
  run (ringAlg R) (E.r s) (E.circuit s t) ⟨[], initAcc (ringAlg R) (E.mu s) (E.mw s)⟩

/-- both honest helpers open wire `m` -/
def openBothM [DecidableEq R] (m : MShare R) (c : Nat) (f : R × R) : Option R :=
  match revealM (ringAlg R) m c (c + 1) f.1 f.2, revealM (ringAlg R) m c (c + 2) f.1 f.2 with
  | some a, some _ => some a
  | _, _ => none

def openAllM [DecidableEq R] (st : St R) (c : Nat) (f : Nat → R × R) : List Nat → Nat → List (Option R)
  | [], _ => []
  | i :: r, k => openBothM (wire (ringAlg R) st i) c (f k) :: openAllM st c f r (k + 1)

/-- no message of the batch carries a (net) error -/
def MacEnc.NoDev {σ τ : Type} (E : MacEnc σ τ R) (s : σ) (t : τ) : Prop :=
  (∀ g ∈ E.circuit s t, GateHonest g) ∧ E.ve t = (0, 0, 0)

def macPhase {σ τ : Type} [DecidableEq R] (E : MacEnc σ τ R) : Phase σ τ where
  honest s := E.put s ((E.outs s).map fun i => (plain (E.gs s) []).getD i 0)
  run s t :=
    if validateE (ringAlg R) (E.r s) (E.state s t).acc (E.valErr t) (E.czρ s) (E.czMask s) then
      (collect (openAllM (E.state s t) E.c (E.forged t) (E.outs s) 0)).map (E.put s)
    else none
  -- a deviation is present and the secret batch values `r̂`, `α̂_k`, `ρ̂` satisfy the acceptance equation of
  -- `attack_accept_iff` (for one attacked gate at most `3|F|²−3|F|+1` of the `|F|³` triples: `single_attack_bad_set_card`)
  bad s t := ¬ E.NoDev s t ∧
    rec (E.czMask s) * (termSum (macTerms (rec (E.r s)) (E.circuit s t) [])
      + (errSum (E.valErr t).eu - errSum (E.valErr t).ew * rec (E.r s))) + errSum (E.valErr t).ecz = 0

theorem wire_getD (st : St R) (pl : List R) (hc : ∀ m ∈ st.wires, MConsistent m)
    (hv : st.wires.map (fun m => rec m.x) = pl) (i : Nat) :
    MConsistent (wire (ringAlg R) st i) ∧ rec (wire (ringAlg R) st i).x = pl.getD i 0 := by
  unfold wire
  by_cases hi : i < st.wires.length
  · have h1 : st.wires.getD i (zeroM (ringAlg R)) = st.wires[i] := by simp [List.getD_eq_getElem?_getD, hi]
    rw [h1, ← hv]
    refine ⟨hc _ (List.getElem_mem hi), ?_⟩
    simp [List.getD_eq_getElem?_getD, hi]
  · have h1 : st.wires.getD i (zeroM (ringAlg R)) = zeroM (ringAlg R) := by
      have : st.wires[i]? = none := List.getElem?_eq_none (by omega)
      simp [List.getD_eq_getElem?_getD, this]
    have h2 : pl.getD i 0 = 0 := by
      have : st.wires[i]? = none := List.getElem?_eq_none (by omega)
      rw [← hv]; simp [List.getD_eq_getElem?_getD, this]
    rw [h1, h2]
    exact ⟨(zeroM_props (0 : R)).1, (zeroM_props (0 : R)).2.1⟩

theorem openBothM_sound [DecidableEq R] (m : MShare R) (hm : MConsistent m) (c : Nat) (hc : c < 3) (f : R × R) :
    openBothM m c f = none ∨ openBothM m c f = some (rec m.x) := by
  have key : ∀ h, h < 3 → h ≠ c → revealM (ringAlg R) m c h f.1 f.2 = none
      ∨ revealM (ringAlg R) m c h f.1 f.2 = some (rec m.x) :=
    fun h hh hne => reveal_two_copies_mac m hm c h hc hh hne f.1 f.2
  -- `revealM … (c+1)` and `(c+2)` only look at the index mod 3
  have hmod : ∀ h, revealM (ringAlg R) m c h f.1 f.2 = revealM (ringAlg R) m c (h % 3) f.1 f.2 := by
    intro h
    simp [revealM, revealCorrupt, view, Nat.add_mod]
  unfold openBothM
  rw [hmod (c + 1), hmod (c + 2)]
  rcases key ((c + 1) % 3) (Nat.mod_lt _ (by decide)) (by omega) with h1 | h1 <;>
    rcases key ((c + 2) % 3) (Nat.mod_lt _ (by decide)) (by omega) with h2 | h2 <;> simp [h1, h2]

theorem openAllM_forall [DecidableEq R] (st : St R) (pl : List R) (hcw : ∀ m ∈ st.wires, MConsistent m)
    (hv : st.wires.map (fun m => rec m.x) = pl) (c : Nat) (hc : c < 3) (f : Nat → R × R) (outs : List Nat) (k : Nat) :
    List.Forall₂ (fun o a => o = none ∨ o = some a) (openAllM st c f outs k) (outs.map fun i => pl.getD i 0) := by
  induction outs generalizing k with
  | nil => exact .nil
  | cons i r ih =>
    refine .cons ?_ (ih (k + 1))
    have hw := wire_getD st pl hcw hv i
    show _ ∨ _ = some (pl.getD i 0)
    rw [← hw.2]
    exact openBothM_sound _ hw.1 c hc (f k)

theorem macPhase_sound {σ τ : Type} [DecidableEq R] (E : MacEnc σ τ R) : (macPhase E).Sound := by
  intro s t
  obtain ⟨hr, hcz, hok⟩ := E.ok s
  have hok' : ∀ g ∈ E.circuit s t, GateOk g := setErrs_ok _ _ _ _ hok
  by_cases hval : validateE (ringAlg R) (E.r s) (E.state s t).acc (E.valErr t) (E.czρ s) (E.czMask s) = true
  · by_cases hnd : E.NoDev s t
    · -- no deviation: the wires are consistent sharings of the plaintext values (`honest_validates`);
      -- each opening fails or returns the value (`reveal_two_copies_mac`)
      have hh := honest_validates (E.r s) hr (E.mu s) (E.mw s) (E.circuit s t) hok' hnd.1
        (E.czρ s) (E.czMask s) hcz
      simp only at hh
      obtain ⟨hwire, hplain, _, _, _⟩ := hh
      have hpl : (E.state s t).wires.map (fun m => rec m.x) = plain (E.gs s) [] := by
        rw [show plain (E.gs s) [] = plain (E.circuit s t) [] from (plain_setErrs _ _ _ _ _).symm]
        exact hplain
      have hall := openAllM_forall (E.state s t) _ (fun m hm => (hwire m hm).1) hpl E.c E.hc (E.forged t) (E.outs s) 0
      rcases collect_none_or _ _ hall with h | h
      · left; simp [macPhase, hval, h]
      · right; left; simp [macPhase, hval, h]
    · right; right
      refine ⟨hnd, ?_⟩
      exact (attack_accept_iff (E.r s) hr (E.mu s) (E.mw s) (E.circuit s t) hok' (E.valErr t)
        (E.czρ s) (E.czMask s) hcz).mp hval
  · left; simp [macPhase, hval]

end Mac

end IpaVerif.C02
