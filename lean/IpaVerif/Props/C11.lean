import IpaVerif.Model.Dedup
import IpaVerif.Props.C19
import IpaVerif.Generated.Dedup
/-!
# C11 — a report submitted twice in one query is rejected wherever the copies land

"Same encrypted report" is identified with "same 16-byte tag" (hypothesis `TagInjective` of the
design: uniqueness of the AES-GCM ciphertext prefix, https://eprint.iacr.org/2019/624); the theorems
are about tags. Core Lean only (uses the resharding theorems of C19 through the model `routed`).
-/
namespace IpaVerif.C11
open IpaVerif.Dedup IpaVerif.Reshard

/-- **picker_in_range**: for every tag and every shard count `1 ≤ n ≤ u32::MAX + 1`,
`shard_picker` does not panic and returns `tag mod n`, a valid shard index; with `n = 0` it panics. -/
theorem picker_in_range (tag n : Nat) :
    (1 ≤ n → n ≤ 4294967296 → shardPicker tag n = some (tag % n) ∧ tag % n < n) ∧
    (n = 0 → shardPicker tag n = none) := by
  refine ⟨?_, ?_⟩
  · intro h1 h2
    have hlt : tag % n < n := Nat.mod_lt _ (by omega)
    have : ¬ n = 0 := by omega
    simp only [shardPicker, this, if_false]
    have : tag % n < 4294967296 := by omega
    simp [this, hlt]
  · intro h; simp [shardPicker, h]

example : shardPicker (2 ^ 128 - 1) 5 = some 0 := by decide

/-- the tag is 16 bytes, so its little-endian value is exactly a `u128` (regenerated `TAG_SIZE`) -/
theorem tag_is_u128 : IpaVerif.Generated.Dedup.tagSize = 16 := by decide

/-! ## The validator -/

theorem checkDuplicates_none (l : List Nat) : ∀ v : Validator,
    (checkDuplicates v l).2 = none ↔ (l.Nodup ∧ ∀ x ∈ l, x ∉ v.seen) := by
  induction l with
  | nil => intro v; simp [checkDuplicates]
  | cons t rest ih =>
    intro v
    simp only [checkDuplicates, checkDuplicate]
    by_cases hs : t ∈ v.seen
    · simp [hs]
    · simp only [hs, if_false]
      rw [ih]
      simp only [List.nodup_cons, List.mem_cons]
      constructor
      · rintro ⟨hn, hx⟩
        refine ⟨⟨fun hmem => (hx t hmem) (Or.inl rfl), hn⟩, ?_⟩
        intro x hx'
        rcases hx' with rfl | hx'
        · exact hs
        · exact fun h => (hx x hx') (Or.inr h)
      · rintro ⟨⟨hnm, hn⟩, hx⟩
        refine ⟨hn, ?_⟩
        intro x hx' h
        rcases h with rfl | h
        · exact hnm hx'
        · exact hx x (Or.inr hx') h

/-- the counter in `DuplicateBytes(k)` is the 1-based position of the first tag that repeats an
earlier one -/
theorem checkDuplicates_some (l : List Nat) : ∀ (v : Validator) (c : Nat),
    (checkDuplicates v l).2 = some c →
      ∃ k, c = v.counter + k + 1 ∧ k < l.length ∧ (l.getD k 0 ∈ v.seen ∨ l.getD k 0 ∈ l.take k) := by
  induction l with
  | nil => intro v c h; simp [checkDuplicates] at h
  | cons t rest ih =>
    intro v c h
    simp only [checkDuplicates, checkDuplicate] at h
    by_cases hs : t ∈ v.seen
    · simp [hs] at h
      exact ⟨0, by omega, by simp, Or.inl (by simpa using hs)⟩
    · simp only [hs, if_false] at h
      obtain ⟨k, hc, hk, hm⟩ := ih _ c h
      refine ⟨k + 1, by simp at hc; omega, by simp; omega, ?_⟩
      simp only [List.getD_cons_succ, List.take_succ_cons, List.mem_cons]
      rcases hm with hm | hm
      · simp only [List.mem_cons] at hm
        rcases hm with hm | hm
        · exact Or.inr (Or.inl hm)
        · exact Or.inl hm
      · exact Or.inr (Or.inr hm)

/-! ## Routing by tag -/

def allTags (n : Nat) (inputs : Nat → List Nat) : List Nat := (List.range n).flatMap inputs

theorem count_outgoing (n a src d : Nat) (xs : List Nat) : ∀ i,
    (outgoing (pick n) src d i xs).count a = if a % n = d then xs.count a else 0 := by
  induction xs with
  | nil => intro i; simp [outgoing]
  | cons x xs ih =>
    intro i
    simp only [outgoing, pick]
    by_cases hx : x % n = d
    · simp only [hx, if_true, List.count_cons, ih]
      by_cases ha : a % n = d
      · simp [ha]
      · have : ¬ (x == a) = true := by
          intro h; have := eq_of_beq h; subst this; exact ha hx
        simp [ha, this]
    · simp only [hx, if_false, ih, List.count_cons]
      by_cases ha : a % n = d
      · have : ¬ (x == a) = true := by
          intro h; have := eq_of_beq h; subst this; exact hx ha
        simp [ha, this]
      · simp [ha]

theorem count_flatMap_ite (a n d : Nat) (inputs : Nat → List Nat) (L : List Nat) :
    (L.flatMap fun s => outgoing (pick n) s d 0 (inputs s)).count a
      = if a % n = d then (L.flatMap inputs).count a else 0 := by
  induction L with
  | nil => simp
  | cons s L ih =>
    simp only [List.flatMap_cons, List.count_append, ih, count_outgoing]
    split <;> simp

/-- a tag is held, with its full multiplicity, by exactly the shard `tag mod n` -/
theorem count_routed (n a d : Nat) (inputs : Nat → List Nat) :
    (routed n inputs d).count a = if a % n = d then (allTags n inputs).count a else 0 :=
  count_flatMap_ite a n d inputs (List.range n)

theorem not_nodup_iff (l : List Nat) : ¬ l.Nodup ↔ ∃ a, 2 ≤ l.count a := by
  rw [List.nodup_iff_count]
  constructor
  · intro h
    obtain ⟨a, ha⟩ := Classical.not_forall.mp h
    exact ⟨a, by omega⟩
  · rintro ⟨a, ha⟩ h
    have := h a
    omega

/-- **dup_detected_iff**: for every shard count `n ≥ 1` and all per-shard inputs (any sizes, any
positions, copies on the same or on different shards): SOME shard reports `DuplicateBytes` iff the
tags of the whole input are not pairwise distinct. -/
theorem dup_detected_iff (n : Nat) (hn : 1 ≤ n) (inputs : Nat → List Nat) :
    (∃ d, d < n ∧ detect n inputs d ≠ none) ↔ ¬ (allTags n inputs).Nodup := by
  constructor
  · rintro ⟨d, _, hd⟩
    have : ¬ (routed n inputs d).Nodup := by
      intro hnd
      apply hd
      exact (checkDuplicates_none _ {}).mpr ⟨hnd, by simp⟩
    obtain ⟨a, ha⟩ := (not_nodup_iff _).mp this
    rw [count_routed] at ha
    split at ha
    · exact (not_nodup_iff _).mpr ⟨a, ha⟩
    · omega
  · intro h
    obtain ⟨a, ha⟩ := (not_nodup_iff _).mp h
    refine ⟨a % n, Nat.mod_lt _ (by omega), ?_⟩
    intro hnone
    have hnd := ((checkDuplicates_none _ {}).mp hnone).1
    have : 2 ≤ (routed n inputs (a % n)).count a := by rw [count_routed]; simpa using ha
    exact (not_nodup_iff _).mpr ⟨a, this⟩ hnd

/-- **dup_on_picker_shard**: the shard that errs is `shard_picker` of a duplicated tag: if shard `d`
reports `DuplicateBytes(k)`, the `k`-th tag it owns is a tag that occurs at least twice in the whole
input, it repeats one of the first `k-1` tags the shard owns, and `tag mod n = d`. -/
theorem dup_on_picker_shard (n d k : Nat) (inputs : Nat → List Nat) (h : detect n inputs d = some k) :
    ∃ tag, 1 ≤ k ∧ (routed n inputs d)[k - 1]? = some tag ∧ tag ∈ (routed n inputs d).take (k - 1) ∧
      tag % n = d ∧ 2 ≤ (allTags n inputs).count tag := by
  obtain ⟨j, hk, hj, hm⟩ := checkDuplicates_some (routed n inputs d) {} k h
  have hk' : k = j + 1 := by simpa using hk
  subst hk'
  have hmem : (routed n inputs d).getD j 0 ∈ (routed n inputs d).take j := by
    rcases hm with hm | hm
    · simp at hm
    · exact hm
  have hget : (routed n inputs d)[j]? = some ((routed n inputs d).getD j 0) := by
    simp [List.getD, hj]
  refine ⟨(routed n inputs d).getD j 0, by omega, by simpa using hget, by simpa using hmem, ?_, ?_⟩
  · -- it is in routed d, so its count there is positive, so tag % n = d
    have hin : (routed n inputs d).getD j 0 ∈ routed n inputs d := List.mem_of_mem_take hmem
    have := List.count_pos_iff.mpr hin
    rw [count_routed] at this
    split at this
    · assumption
    · omega
  · -- it occurs in take j and at position j: twice in routed d
    have h2 : 2 ≤ (routed n inputs d).count ((routed n inputs d).getD j 0) := by
      have hsplit : routed n inputs d = (routed n inputs d).take j ++ (routed n inputs d).drop j := (List.take_append_drop j _).symm
      have hdrop : (routed n inputs d).getD j 0 ∈ (routed n inputs d).drop j := by
        rw [List.mem_iff_getElem?]
        exact ⟨0, by simpa using hget⟩
      have c1 := List.count_pos_iff.mpr hmem
      have c2 := List.count_pos_iff.mpr hdrop
      rw [hsplit, List.count_append]
      rw [← hsplit]
      omega
    rw [count_routed] at h2
    split at h2
    · exact h2
    · omega

/-- **distinct_never_rejected**: if the tags of the whole input are pairwise distinct, no shard
reports a duplicate — for any shard count, any distribution of the reports over the shards. -/
theorem distinct_never_rejected (n : Nat) (inputs : Nat → List Nat) (h : (allTags n inputs).Nodup) (d : Nat) :
    detect n inputs d = none := by
  apply (checkDuplicates_none _ {}).mpr
  refine ⟨?_, by simp⟩
  rw [List.nodup_iff_count]
  intro a
  rw [count_routed]
  split
  · exact List.nodup_iff_count.mp h a
  · omega

/-! ## Uneven sharding: the shard that owns a duplicated tag may hold nothing of its own (b17)

`dup_detected_iff` and `dup_on_picker_shard` quantify over ALL per-shard inputs `inputs : Nat → List
Nat`, empty and singleton shards included.  The corollaries below make the small-shard case explicit:
what a shard validates are the tags ROUTED to it, whose number is unrelated to the number of reports
it received as its own input (`ownSize`). -/

/-- **dup_detected_on_picker.** Whatever the distribution of the reports over the shards: a tag that
occurs at least twice in the whole input is reported by the shard `tag mod n`, and the index
reported is a position of that shard's routed tags. -/
theorem dup_detected_on_picker (n : Nat) (hn : 1 ≤ n) (inputs : Nat → List Nat) (a : Nat)
    (ha : 2 ≤ (allTags n inputs).count a) :
    a % n < n ∧ ∃ k, detect n inputs (a % n) = some k ∧ 1 ≤ k ∧ k ≤ (routed n inputs (a % n)).length := by
  refine ⟨Nat.mod_lt _ (by omega), ?_⟩
  cases h : detect n inputs (a % n) with
  | none =>
    exfalso
    have hnd := ((checkDuplicates_none _ {}).mp h).1
    have : 2 ≤ (routed n inputs (a % n)).count a := by rw [count_routed]; simpa using ha
    exact (not_nodup_iff _).mpr ⟨a, this⟩ hnd
  | some k =>
    obtain ⟨j, hk, hj, _⟩ := checkDuplicates_some (routed n inputs (a % n)) {} k h
    have hk' : k = j + 1 := by simpa using hk
    exact ⟨k, rfl, by omega, by omega⟩

/-- **dup_detected_on_small_shard.** The shard that owns the duplicated tag rejects it also when it
was handed NO report or exactly ONE report as its own input — both copies submitted on other shards,
or one copy being its only report: `ownSize` plays no role. -/
theorem dup_detected_on_small_shard (n : Nat) (hn : 1 ≤ n) (inputs : Nat → List Nat) (a : Nat)
    (ha : 2 ≤ (allTags n inputs).count a) (_hsmall : ownSize inputs (a % n) ≤ 1) :
    ∃ k, detect n inputs (a % n) = some k :=
  let ⟨_, k, hk, _⟩ := dup_detected_on_picker n hn inputs a ha
  ⟨k, hk⟩

/-- the hypotheses are satisfiable with an EMPTY picker shard (both copies on shard 0, tag 7 owned by
shard 1 of 2) and with a SINGLETON picker shard (one copy is shard 1's only report) -/
example : 2 ≤ (allTags 2 (fun s => [[7, 4, 7], []].getD s [])).count 7 ∧ ownSize (fun s => [[7, 4, 7], []].getD s []) (7 % 2) = 0 ∧
    detect 2 (fun s => [[7, 4, 7], []].getD s []) 1 = some 2 := by decide
example : 2 ≤ (allTags 2 (fun s => [[7, 4], [7]].getD s [])).count 7 ∧ ownSize (fun s => [[7, 4], [7]].getD s []) (7 % 2) = 1 ∧
    detect 2 (fun s => [[7, 4], [7]].getD s []) 1 = some 2 := by decide

/-- **check_is_unconditional.** The code is the unguarded step: the statement
`….check_duplicates(&resharded_tags)?;` regenerated from `Query::execute` is enclosed by no block
(`checkGuards = []`) and is applied to the tags returned by `reshard_aad`; and `detectIf` with the
trivial guard is `detect`, the function all theorems above are about. -/
theorem check_is_unconditional :
    IpaVerif.Generated.Dedup.checkGuards = [] ∧ IpaVerif.Generated.Dedup.checkAppliesToReshardedTags = true ∧
    ∀ n inputs d, detectIf (fun _ _ => true) n inputs d = detect n inputs d := by
  refine ⟨by decide, by decide, ?_⟩
  intro n inputs d; simp [detectIf]

/-- **guarded_check_counterexample** (seed C11d: `if decrypted_reports.len() > 1 { … }`).  With the
validator step guarded by the shard's OWN input size, duplicates are accepted by every shard: two
shards, tag 7 is owned by shard 1; (i) shard 1 has no report of its own and both copies sit on shard
0; (ii) shard 1's single report is one of the copies; (iii) three shards, the copies on two different
other shards.  The unguarded step of the code rejects each of them on shard `7 mod n`. -/
theorem guarded_check_counterexample :
    (let inputs := fun s => [[7, 4, 7], []].getD s []
     ¬ (allTags 2 inputs).Nodup ∧ (∀ d, d < 2 → detectIf ownAtLeastTwo 2 inputs d = none) ∧ detect 2 inputs 1 = some 2) ∧
    (let inputs := fun s => [[7, 4], [7]].getD s []
     ¬ (allTags 2 inputs).Nodup ∧ (∀ d, d < 2 → detectIf ownAtLeastTwo 2 inputs d = none) ∧ detect 2 inputs 1 = some 2) ∧
    (let inputs := fun s => [[7, 9, 2], [], [5, 7, 11]].getD s []
     ¬ (allTags 3 inputs).Nodup ∧ (∀ d, d < 3 → detectIf ownAtLeastTwo 3 inputs d = none) ∧ detect 3 inputs 1 = some 2) := by
  decide

/-- **own_size_guard_misses.**  Not only that guard: ANY guard that skips the validator for some own
size `own` when two tags are routed to the shard accepts a duplicate — two shards, both copies of tag 1
on shard 0, shard 1 holds `own` reports with even (hence distinct, shard-0-owned) tags. -/
theorem own_size_guard_misses (guard : Nat → Nat → Bool) (own : Nat) (hg : guard own 2 = false) :
    let inputs : Nat → List Nat := fun s => if s = 0 then [1, 1] else if s = 1 then (List.range own).map (2 * · + 2) else []
    ¬ (allTags 2 inputs).Nodup ∧ ∀ d, d < 2 → detectIf guard 2 inputs d = none := by
  intro inputs
  have hall : allTags 2 inputs = [1, 1] ++ (List.range own).map (2 * · + 2) := by
    simp [allTags, inputs, List.range_succ]
  have hcnt : ∀ a, (((List.range own).map (2 * · + 2)).count a) ≤ 1 ∧ (a % 2 = 1 → ((List.range own).map (2 * · + 2)).count a = 0) := by
    intro a
    have hnd : ((List.range own).map (2 * · + 2)).Nodup := by
      rw [List.Nodup, List.pairwise_map]
      exact List.Pairwise.imp (fun h => by omega) List.nodup_range
    refine ⟨List.nodup_iff_count.mp hnd a, fun hodd => List.count_eq_zero.mpr ?_⟩
    intro hmem
    obtain ⟨x, _, hx⟩ := List.mem_map.mp hmem
    omega
  refine ⟨?_, ?_⟩
  · rw [hall]; intro h
    have := List.nodup_iff_count.mp h 1
    simp at this
  · intro d hd
    have hd' : d = 0 ∨ d = 1 := by omega
    rcases hd' with rfl | rfl
    · -- shard 0 owns the even tags only: duplicate-free, whatever the guard says
      have : detect 2 inputs 0 = none := by
        apply (checkDuplicates_none _ {}).mpr
        refine ⟨?_, by simp⟩
        rw [List.nodup_iff_count]
        intro a
        rw [count_routed, hall, List.count_append]
        split
        · rename_i hev
          have : ([1, 1] : List Nat).count a = 0 := by
            apply List.count_eq_zero.mpr; intro hm; simp at hm; omega
          have := (hcnt a).1; omega
        · omega
      simp [detectIf, this]
    · -- shard 1: `own` reports of its own, exactly two routed tags (1, 1): the guard skips the step
      have hlen : (routed 2 inputs 1).length = 2 := by
        have hsum : ∀ l : List Nat, (∀ a, l.count a = if a = 1 then 2 else 0) → l.length = 2 := by
          intro l hl
          have h1 : l = List.replicate l.length 1 := by
            apply List.eq_replicate_iff.mpr
            refine ⟨rfl, fun b hb => ?_⟩
            have := List.count_pos_iff.mpr hb
            rw [hl] at this; split at this <;> omega
          have := hl 1
          rw [h1, List.count_replicate_self] at this
          simpa using this
        apply hsum
        intro a
        rw [count_routed, hall, List.count_append]
        by_cases ha : a = 1
        · subst ha; simp [(hcnt 1).2 (by decide)]
        · simp only [ha, if_false]
          split
          · rename_i hodd
            have : ([1, 1] : List Nat).count a = 0 := by
              apply List.count_eq_zero.mpr; intro hm; simp at hm; omega
            rw [this, (hcnt a).2 hodd]
          · rfl
      have hown : ownSize inputs 1 = own := by simp [ownSize, inputs]
      simp [detectIf, hown, hlen, hg]

example : ownAtLeastTwo 1 2 = false ∧ ownAtLeastTwo 0 2 = false := by decide

/-- the check precedes attribution: in `Query::execute` the only thing computed from the reports
between `reshard_aad` and `check_duplicates(..)?` is the validator; the translator item
`dedup.check_before_protocol` pins the statement order. (Recorded here for the evidence.) -/
theorem error_before_attribution (n d k : Nat) (inputs : Nat → List Nat) (h : detect n inputs d = some k) :
    (checkDuplicates {} (routed n inputs d)).2 ≠ none := by
  unfold detect at h; rw [h]; simp

/-! ## Why ONE validator over all tags a shard owns

`Query::execute` builds a single `UniqueTagValidator::new(resharded_tags.len())` and checks all
resharded tags with it.  Validating the tags in chunks, each with a fresh validator (a "bounded
memory" variant), is NOT equivalent: two equal tags in different chunks are never compared. -/

/-- chunk-wise validation: every chunk is checked by its own fresh validator; the first failing
chunk's verdict is returned (`try_for_each`). -/
def chunkedCheck : List (List Nat) → Option Nat
  | [] => none
  | c :: rest =>
    match (checkDuplicates {} c).2 with
    | some k => some k
    | none => chunkedCheck rest

/-- the chunks of size `k` of a list (`slice::chunks(k)`), `fuel ≥ l.length` iterations. -/
def chunksOf (k : Nat) : Nat → List Nat → List (List Nat)
  | 0, _ => []
  | fuel + 1, l => if l.isEmpty then [] else l.take k :: chunksOf k fuel (l.drop k)

theorem chunkedCheck_none (cs : List (List Nat)) : chunkedCheck cs = none ↔ ∀ c ∈ cs, c.Nodup := by
  induction cs with
  | nil => simp [chunkedCheck]
  | cons c rest ih =>
    simp only [chunkedCheck, List.mem_cons, forall_eq_or_imp]
    cases h : (checkDuplicates {} c).2 with
    | none =>
      have := (checkDuplicates_none c {}).1 h
      simp [ih, this.1]
    | some k =>
      have : ¬ c.Nodup := fun hn => by
        have := (checkDuplicates_none c {}).2 ⟨hn, by simp⟩
        rw [h] at this; cases this
      simp [this]

/-- **chunked_validation_counterexample.**  For every tag `t` and all duplicate-free fillers `a`, `b`
not containing `t`: a copy of `t` in the first chunk and another in a later chunk is ACCEPTED by
per-chunk validators, while the single validator of `Query::execute` over the same tags rejects it.
(Instance: `a` = 4095 further tags of the first 4096-chunk, `b ++ [t]` = the second chunk: the first
and the 4097th report of one shard are byte-identical.) -/
theorem chunked_validation_counterexample (t : Nat) (a b : List Nat)
    (ha : a.Nodup) (hb : b.Nodup) (hta : t ∉ a) (htb : t ∉ b) :
    chunkedCheck [t :: a, b ++ [t]] = none ∧
    (checkDuplicates {} ((t :: a) ++ (b ++ [t]))).2 ≠ none := by
  constructor
  · rw [chunkedCheck_none]
    intro c hc
    simp only [List.mem_cons, List.not_mem_nil, or_false] at hc
    rcases hc with rfl | rfl
    · exact List.nodup_cons.2 ⟨hta, ha⟩
    · rw [List.nodup_append]
      refine ⟨hb, by simp, ?_⟩
      intro x hx y hy
      simp only [List.mem_singleton] at hy
      subst hy
      intro e; subst e; exact htb hx
  · intro h
    have := ((checkDuplicates_none _ {}).1 h).1
    rw [List.cons_append, List.nodup_cons] at this
    exact this.1 (by simp)

/-- so chunked validation is not equivalent to the validator of the code, already for chunks of 2. -/
example : chunkedCheck (chunksOf 2 3 [7, 1, 7]) = none ∧ (checkDuplicates {} [7, 1, 7]).2 = some 3 := by decide
example : chunksOf 2 5 [1, 2, 3, 4, 5] = [[1, 2], [3, 4], [5]] := by decide

example : detect 3 (fun s => [[7, 1], [5], [4, 7]].getD s []) 1 = some 4 := by decide
example : detect 3 (fun s => [[7, 1], [5], [4, 7]].getD s []) 0 = none := by decide

end IpaVerif.C11
