import IpaVerif.Model.Conv
import IpaVerif.Props.C07
import IpaVerif.Props.C07Lift
import IpaVerif.Generated.C07Consts
import Mathlib.Data.ZMod.Basic
import Mathlib.Tactic.Ring
/-!
# C07 — `conv_value`: `convert_to_fp25519` converts a Boolean sharing into an `Fp25519` sharing of the same value

`IpaVerif.Conv.convert` transcribes the protocol (mask generation with the two top bits cleared, the two
`integer_add` calls, the forced-zero top share, the partial reveal of `y` to H1/H2, the per-role output shares).

**conv_value** — for every modulus `ℓ > 0` (the dalek group order is a hypothesis-free parameter), every width
`BITS ≥ 2`, every input sharing `x` of `n ≤ BITS − 1` consistent bit shares (the code asserts `n < BITS − 128`,
i.e. `n ≤ 127` for `BITS = 256`: `conv_value_code`), ALL PRSS outputs `r1, r3` (any `BITS` bits each) and ALL
multiplication masks `ρ`:

* `y = x + r + s` is computed by the two bit adders WITHOUT wrap-around modulo `2^BITS` (`r`, `s` = the PRSS
  components after their two top bits are cleared);
* H1 and H2 obtain the same bits of `y` from the partial reveal, and `malicious_reveal`'s comparison passes;
* the three output shares are consistent and sum to `x mod ℓ`.

The input bound used by the proof is `n ≤ BITS − 1`; the stricter `n ≤ 127` of the code is about statistical
hiding of the carry (leakage), which is not a functional-correctness property.
-/
namespace IpaVerif.C07
open IpaVerif.Sharing IpaVerif.Circuits IpaVerif.Conv

/-! ### helper lemmas -/

theorem val_clear_two : ∀ (k : Nat) (l : List Bool), l.length = k + 2 →
    val ((l.set (k + 1) false).set k false) < 2 ^ k := by
  intro k
  induction k with
  | zero =>
    intro l hl
    match l, hl with
    | [a, b], _ => simp [val]
  | succ k ih =>
    intro l hl
    cases l with
    | nil => simp at hl
    | cons a l' =>
      have := ih l' (by simpa using hl)
      simp only [List.set_cons_succ, val, Nat.pow_succ]
      have ha := Bool.toNat_le a
      omega

theorem clearTop2_length (bits : Nat) (r : List Bool) : (clearTop2 bits r).length = r.length := by
  simp [clearTop2]

theorem clearTop2_lt (bits : Nat) (r : List Bool) (hb : 2 ≤ bits) (hr : r.length = bits) :
    val (clearTop2 bits r) < 2 ^ (bits - 2) := by
  unfold clearTop2
  have := val_clear_two (bits - 2) r (by omega)
  rwa [show bits - 2 + 1 = bits - 1 by omega] at this

theorem set_false_of_val_lt : ∀ (l : List Bool) (k : Nat), val l < 2 ^ k → l.set k false = l := by
  intro l
  induction l with
  | nil => intro k _; rfl
  | cons b bs ih =>
    intro k h
    cases k with
    | zero =>
      simp only [val, Nat.pow_zero] at h
      have : b = false := by cases b <;> simp_all
      simp [this]
    | succ k =>
      simp only [val, Nat.pow_succ] at h
      simp only [List.set_cons_succ]
      rw [ih k (by omega)]

theorem recB_shR (l : List Bool) : (shR l).map recB = l := by
  induction l with
  | nil => rfl
  | cons b bs ih =>
    simp only [shR, List.map_cons, List.map_map] at ih ⊢
    rw [ih]; cases b <;> rfl

theorem recB_shS (l : List Bool) : (shS l).map recB = l := by
  induction l with
  | nil => rfl
  | cons b bs ih =>
    simp only [shS, List.map_cons, List.map_map] at ih ⊢
    rw [ih]; cases b <;> rfl

theorem allC_shR (l : List Bool) : AllC (shR l) := by
  intro w hw
  obtain ⟨b, _, rfl⟩ := List.mem_map.mp hw
  exact ⟨rfl, rfl, rfl⟩

theorem allC_shS (l : List Bool) : AllC (shS l) := by
  intro w hw
  obtain ⟨b, _, rfl⟩ := List.mem_map.mp hw
  exact ⟨rfl, rfl, rfl⟩

theorem shS_h1l (l : List Bool) : (shS l).map (·.h1.l) = l := by simp [shS, List.map_map, Function.comp_def]
theorem shS_h3r (l : List Bool) : (shS l).map (·.h3.r) = l := by simp [shS, List.map_map, Function.comp_def]
theorem shR_h2r (l : List Bool) : (shR l).map (·.h2.r) = l := by simp [shR, List.map_map, Function.comp_def]
theorem shR_h3l (l : List Bool) : (shR l).map (·.h3.l) = l := by simp [shR, List.map_map, Function.comp_def]

theorem allC_set (l : List (World Bool)) (k : Nat) (z : World Bool) (hl : AllC l) (hz : Consistent z) :
    AllC (l.set k z) := by
  intro w hw
  rcases List.mem_or_eq_of_mem_set hw with h | h
  · exact hl w h
  · exact h ▸ hz

theorem reveal_of_consistent (w : World Bool) (h : Consistent w) :
    revealH1 w = recB w ∧ revealH2 w = recB w ∧ malCheckH1 w = true ∧ malCheckH2 w = true := by
  obtain ⟨⟨a1, a2⟩, ⟨a3, a4⟩, ⟨a5, a6⟩⟩ := w
  obtain ⟨h1, h2, h3⟩ := h
  simp only at h1 h2 h3
  subst h1 h2 h3
  simp only [revealH1, revealH2, malCheckH1, malCheckH2, recB, reconstruct, boolAlg]
  cases a2 <;> cases a4 <;> cases a6 <;> simp

theorem map_reveal (l : List (World Bool)) (h : AllC l) :
    l.map revealH1 = l.map recB ∧ l.map revealH2 = l.map recB ∧
    l.all (fun w => malCheckH1 w && malCheckH2 w) = true := by
  refine ⟨List.map_congr_left fun w hw => (reveal_of_consistent w (h w hw)).1,
    List.map_congr_left fun w hw => (reveal_of_consistent w (h w hw)).2.1, ?_⟩
  rw [List.all_eq_true]
  intro w hw
  obtain ⟨_, _, h1, h2⟩ := reveal_of_consistent w (h w hw)
  simp [h1, h2]

/-- the additive shares `(−s, y, −r)` over `ℤ/ℓ` (canonical representatives) sum to `x` when `y = x + r + s`. -/
theorem fp_shares_sum (ell x r s : Nat) (hl : 0 < ell) :
    let F := modAlg ell
    F.add (F.add (F.neg (s % ell)) ((x + r + s) % ell)) (F.neg (r % ell)) = x % ell := by
  have hs := Nat.mod_lt s hl
  have hr := Nat.mod_lt r hl
  simp only [modAlg]
  haveI : NeZero ell := ⟨by omega⟩
  apply (ZMod.natCast_eq_natCast_iff' _ _ ell).mp
  simp only [ZMod.natCast_mod, Nat.cast_add, Nat.cast_sub hs.le, Nat.cast_sub hr.le, ZMod.natCast_self]
  ring

/-! ### the theorem -/

/-- **conv_value** — see the module header. `X = val (x.map recB)` is the plaintext input. -/
theorem conv_value (ell bits : Nat) (ρ : Path → Masks Bool) (p : Path) (r1 r3 : List Bool)
    (x : List (World Bool)) (hl : 0 < ell) (hb : 2 ≤ bits) (hr1 : r1.length = bits) (hr3 : r3.length = bits)
    (hx : AllC x) (hn : x.length ≤ bits - 1) :
    let R := convert ell bits ρ p r1 r3 x
    let r := val (clearTop2 bits r3)
    let s := val (clearTop2 bits r1)
    let X := val (x.map recB)
    -- no wrap-around: the revealed bit string is the integer x + r + s (`BITS` bits)
    r + s < 2 ^ (bits - 1) ∧ X + r + s < 2 ^ bits ∧
    R.y1.length = bits ∧ val R.y1 = X + r + s ∧ R.y2 = R.y1 ∧ R.malOk = true ∧
    -- the output is a consistent sharing of x mod ℓ
    Consistent R.out ∧ reconstruct (modAlg ell) R.out = X % ell := by
  intro R r s X
  have hR : R = convert ell bits ρ p r1 r3 x := rfl
  clear_value R
  subst hR
  simp only [convert]
  have hrl := clearTop2_lt bits r3 hb hr3
  have hsl := clearTop2_lt bits r1 hb hr1
  have hXl : X < 2 ^ x.length := by simpa using val_lt (x.map recB)
  have hp1 : 2 ^ (bits - 1) = 2 * 2 ^ (bits - 2) := by
    rw [show bits - 1 = (bits - 2) + 1 by omega, Nat.pow_succ]; omega
  have hp0 : 2 ^ bits = 2 * 2 ^ (bits - 1) := by
    rw [show bits = (bits - 1) + 1 by omega, Nat.pow_succ]; simp; omega
  have hXb : X < 2 ^ (bits - 1) := Nat.lt_of_lt_of_le hXl (Nat.pow_le_pow_right (by omega) hn)
  have hrs : r + s < 2 ^ (bits - 1) := by show val _ + val _ < _; omega
  have hsum : X + r + s < 2 ^ bits := by omega
  -- first addition: r + s
  obtain ⟨a1c, _, a1v, _⟩ := add_shares ρ (p ++ [stepMasks]) (shR (clearTop2 bits r3)) (shS (clearTop2 bits r1))
    (allC_shR _) (allC_shS _)
  have a1len : (integerAdd (shareAlg ρ) (p ++ [stepMasks]) (shR (clearTop2 bits r3)) (shS (clearTop2 bits r1))).1.length = bits := by
    have := congrArg List.length a1v
    rw [List.length_map, recB_shR, recB_shS] at this
    rw [this]
    have := (add_value (p ++ [stepMasks]) 0 (clearTop2 bits r3) (clearTop2 bits r1) false).1
    simpa [integerAdd, plainAlg, clearTop2_length, hr3] using this
  rw [recB_shR, recB_shS] at a1v
  have a1val : val ((integerAdd (shareAlg ρ) (p ++ [stepMasks]) (shR (clearTop2 bits r3)) (shS (clearTop2 bits r1))).1.map recB) = r + s := by
    rw [a1v]
    have hv := integer_add_value (p ++ [stepMasks]) (clearTop2 bits r3) (clearTop2 bits r1)
    rw [clearTop2_length, hr3, Nat.mod_eq_of_lt (by omega : val (clearTop2 bits r1) < 2 ^ bits)] at hv
    have hlt := val_lt (integerAdd plainAlg (p ++ [stepMasks]) (clearTop2 bits r3) (clearTop2 bits r1)).1
    generalize (integerAdd plainAlg (p ++ [stepMasks]) (clearTop2 bits r3) (clearTop2 bits r1)) = q at hv hlt
    have hc := Bool.toNat_le q.2
    show val q.1 = val (clearTop2 bits r3) + val (clearTop2 bits r1)
    rcases (by omega : q.2.toNat = 0 ∨ q.2.toNat = 1) with h | h <;> rw [h] at hv <;> omega
  generalize (integerAdd (shareAlg ρ) (p ++ [stepMasks]) (shR (clearTop2 bits r3)) (shS (clearTop2 bits r1))).1 = rs0
    at a1c a1len a1val ⊢
  -- forced-zero top share: value unchanged, still consistent
  have hrsC : AllC (rs0.set (bits - 1) (zeroS boolAlg)) := allC_set _ _ _ a1c ⟨rfl, rfl, rfl⟩
  have hrsV : (rs0.set (bits - 1) (zeroS boolAlg)).map recB = rs0.map recB := by
    rw [List.map_set]
    exact set_false_of_val_lt _ _ (by rw [a1val]; exact hrs)
  -- second addition: (r + s) + x
  obtain ⟨a2c, _, a2v, _⟩ := add_shares ρ (p ++ [stepX]) (rs0.set (bits - 1) (zeroS boolAlg)) x hrsC hx
  rw [hrsV] at a2v
  have hyv := integer_add_value (p ++ [stepX]) (rs0.map recB) (x.map recB)
  have hyl : (integerAdd plainAlg (p ++ [stepX]) (rs0.map recB) (x.map recB)).1.length = bits := by
    have := (add_value (p ++ [stepX]) 0 (rs0.map recB) (x.map recB) false).1
    simpa [integerAdd, plainAlg, a1len] using this
  simp only [List.length_map, a1len] at hyv
  have hylt := val_lt (integerAdd plainAlg (p ++ [stepX]) (rs0.map recB) (x.map recB)).1
  rw [hyl] at hylt
  obtain ⟨hm1, hm2, hm3⟩ := map_reveal _ a2c
  generalize (integerAdd (shareAlg ρ) (p ++ [stepX]) (rs0.set (bits - 1) (zeroS boolAlg)) x).1 = shy at a2c a2v hm1 hm2 hm3 ⊢
  rw [hm1, hm2, a2v]
  have hyval : val (integerAdd plainAlg (p ++ [stepX]) (rs0.map recB) (x.map recB)).1 = X + r + s := by
    rw [Nat.mod_eq_of_lt (by omega : val (x.map recB) < 2 ^ bits), a1val] at hyv
    generalize (integerAdd plainAlg (p ++ [stepX]) (rs0.map recB) (x.map recB)) = q at hyv hylt
    have hc := Bool.toNat_le q.2
    show val q.1 = val (x.map recB) + val (clearTop2 bits r3) + val (clearTop2 bits r1)
    rcases (by omega : q.2.toNat = 0 ∨ q.2.toNat = 1) with h | h <;> rw [h] at hyv <;> omega
  refine ⟨hrs, hsum, hyl, hyval, rfl, hm3, ⟨rfl, ?_, ?_⟩, ?_⟩
  · show (modAlg ell).neg (fpOfBits ell ((shR (clearTop2 bits r3)).map (·.h2.r)))
        = (modAlg ell).neg (fpOfBits ell ((shR (clearTop2 bits r3)).map (·.h3.l)))
    rw [shR_h2r, shR_h3l]
  · show (modAlg ell).neg (fpOfBits ell ((shS (clearTop2 bits r1)).map (·.h3.r)))
        = (modAlg ell).neg (fpOfBits ell ((shS (clearTop2 bits r1)).map (·.h1.l)))
    rw [shS_h3r, shS_h1l]
  · simp only [reconstruct]
    rw [shS_h1l, shR_h3l]
    unfold fpOfBits
    rw [hyval]
    exact fp_shares_sum ell X r s hl

/-- non-vacuity of the hypotheses: a 3-bit input at `BITS = 8`. -/
example : AllC [knownS boolAlg true, zeroS boolAlg, knownS boolAlg true] ∧ (3 : Nat) ≤ 8 - 1 := by
  refine ⟨?_, by decide⟩
  intro w hw; simp at hw; rcases hw with rfl | rfl | rfl <;> exact ⟨rfl, rfl, rfl⟩

/-- **conv_value_code** — the instance the code runs: `BITS` and the asserted input width are the extracted
constants (`debug_assert!(input_shares.iter().count() < (BITS − 128))`), `ℓ` the order of the Ristretto group. -/
theorem conv_value_code (ell : Nat) (ρ : Path → Masks Bool) (p : Path) (r1 r3 : List Bool) (x : List (World Bool))
    (hl : 0 < ell) (hr1 : r1.length = Generated.C07.convBits) (hr3 : r3.length = Generated.C07.convBits)
    (hx : AllC x) (hn : x.length < Generated.C07.convBits - Generated.C07.convSlack) :
    let R := convert ell Generated.C07.convBits ρ p r1 r3 x
    val R.y1 = val (x.map recB) + val (clearTop2 Generated.C07.convBits r3) + val (clearTop2 Generated.C07.convBits r1) ∧
    R.y2 = R.y1 ∧ R.malOk = true ∧ Consistent R.out ∧
    reconstruct (modAlg ell) R.out = val (x.map recB) % ell := by
  have h := conv_value ell Generated.C07.convBits ρ p r1 r3 x hl (by decide) hr1 hr3 hx
    (by have : Generated.C07.convBits = 256 := rfl
        have : Generated.C07.convSlack = 128 := rfl
        omega)
  exact ⟨h.2.2.2.1, h.2.2.2.2.1, h.2.2.2.2.2.1, h.2.2.2.2.2.2.1, h.2.2.2.2.2.2.2⟩

/-- Why the two top bits must be cleared: with `BITS = 2`-bit masks left uncleared (`r = s = 3`) and `x = 1`,
`x + r + s = 7` wraps modulo `2^2`. -/
theorem conv_uncleared_masks_wrap : (1 + 3 + 3) % 2 ^ 2 ≠ 1 + 3 + 3 := by decide

end IpaVerif.C07
