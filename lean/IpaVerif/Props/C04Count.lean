import Mathlib.Tactic.Ring
import Mathlib.Data.Fintype.Card
import Mathlib.Data.Fintype.Prod
import Mathlib.Algebra.Field.Basic
/-!
# C04 — counting bound for a single attacked gate

Over any finite field `F` with `q` elements: fix the adversary's errors `(δ, δ′) ≠ (0, 0)` at one recorded gate (and
any constant `c`: the contribution of later gates that consume the attacked wire enters `T` as
`(α + c)·(δ′ − r·δ)` with `c` independent of the attacked gate's `α`, of `r` and of `ρ`).  By
`single_gate_attack_T` and `attack_accept_iff_domain` the run is accepted iff `ρ·((α + c)·(δ′ − r·δ)) = 0`.
Among the `q³` equally likely triples `(r, α, ρ)` at most `3q² − 3q + 1` are accepting: probability `≤ 3/q`.
-/
namespace IpaVerif.C04

/-- `q³ − (q−1)³ = 3q² − 3q + 1` in `ℕ` -/
theorem cube_diff (q : Nat) (hq : 0 < q) : q * (q * q) - (q - 1) * ((q - 1) * (q - 1)) = 3 * q ^ 2 - 3 * q + 1 := by
  obtain ⟨n, rfl⟩ : ∃ n, q = n + 1 := ⟨q - 1, by omega⟩
  have h1 : (n + 1) * ((n + 1) * (n + 1)) - (n + 1 - 1) * ((n + 1 - 1) * (n + 1 - 1)) = 3 * n ^ 2 + 3 * n + 1 := by
    simp only [Nat.add_sub_cancel]
    exact Nat.sub_eq_of_eq_add (by ring)
  have h2 : 3 * (n + 1) ^ 2 - 3 * (n + 1) = 3 * n ^ 2 + 3 * n := Nat.sub_eq_of_eq_add (by ring)
  rw [h1, h2]

/-- **single_attack_bad_set_card** — `|{(r, α, ρ) | accepted}| ≤ 3q² − 3q + 1`. -/
theorem single_attack_bad_set_card {F : Type} [Field F] [Fintype F] [DecidableEq F] (δ δ' c : F)
    (h : δ ≠ 0 ∨ δ' ≠ 0) :
    (Finset.univ.filter (fun p : F × F × F => p.2.2 * ((p.2.1 + c) * (δ' - p.1 * δ)) = 0)).card
      ≤ 3 * Fintype.card F ^ 2 - 3 * Fintype.card F + 1 := by
  classical
  let r0 : F := δ' / δ
  let S : Finset (F × F × F) := (Finset.univ.erase r0) ×ˢ ((Finset.univ.erase (-c)) ×ˢ (Finset.univ.erase 0))
  have hsub : Finset.univ.filter (fun p : F × F × F => p.2.2 * ((p.2.1 + c) * (δ' - p.1 * δ)) = 0) ⊆ Sᶜ := by
    intro p hp
    rw [Finset.mem_compl]
    intro hS
    simp only [S, Finset.mem_product, Finset.mem_erase, Finset.mem_univ, and_true] at hS
    obtain ⟨hr, hα, hρ⟩ := hS
    simp only [Finset.mem_filter, Finset.mem_univ, true_and] at hp
    rcases mul_eq_zero.mp hp with h0 | h0
    · exact hρ h0
    rcases mul_eq_zero.mp h0 with h1 | h1
    · exact hα (eq_neg_of_add_eq_zero_left h1)
    · by_cases hδ : δ = 0
      · rw [hδ, mul_zero, sub_zero] at h1
        rcases h with h | h
        · exact h hδ
        · exact h h1
      · apply hr
        show p.1 = δ' / δ
        rw [eq_div_iff hδ]
        exact (sub_eq_zero.mp h1).symm
  have hq : 0 < Fintype.card F := Fintype.card_pos
  calc _ ≤ Sᶜ.card := Finset.card_le_card hsub
    _ = Fintype.card (F × F × F) - S.card := Finset.card_compl S
    _ = Fintype.card F * (Fintype.card F * Fintype.card F)
          - (Fintype.card F - 1) * ((Fintype.card F - 1) * (Fintype.card F - 1)) := by
        simp only [S, Fintype.card_prod, Finset.card_product, Finset.card_erase_of_mem (Finset.mem_univ _),
          Finset.card_univ]
    _ = _ := cube_diff _ hq

/-- non-vacuity of the hypothesis -/
example {F : Type} [Field F] : (1 : F) ≠ 0 ∨ (0 : F) ≠ 0 := Or.inl one_ne_zero

/-- acceptance probability `≤ 3/q`: `|bad|·q ≤ 3·q³`. -/
theorem single_attack_prob_le {F : Type} [Field F] [Fintype F] [DecidableEq F] (δ δ' c : F)
    (h : δ ≠ 0 ∨ δ' ≠ 0) :
    (Finset.univ.filter (fun p : F × F × F => p.2.2 * ((p.2.1 + c) * (δ' - p.1 * δ)) = 0)).card * Fintype.card F
      ≤ 3 * Fintype.card (F × F × F) := by
  have hb := single_attack_bad_set_card δ δ' c h
  have hq : 0 < Fintype.card F := Fintype.card_pos
  obtain ⟨n, hn⟩ : ∃ n, Fintype.card F = n + 1 := ⟨Fintype.card F - 1, by omega⟩
  have h2 : 3 * (n + 1) ^ 2 - 3 * (n + 1) + 1 ≤ 3 * ((n + 1) * (n + 1)) := by
    have h3 : 3 * (n + 1) ^ 2 = 3 * ((n + 1) * (n + 1)) := by ring
    have h4 : n + 1 ≤ (n + 1) * (n + 1) := Nat.le_mul_of_pos_left _ (Nat.succ_pos n)
    clear hb
    generalize (n + 1) * (n + 1) = m at *
    omega
  rw [hn] at hb
  simp only [Fintype.card_prod, hn]
  calc _ ≤ (3 * ((n + 1) * (n + 1))) * (n + 1) := Nat.mul_le_mul_right _ (le_trans hb h2)
    _ = _ := by ring

end IpaVerif.C04
