import IpaVerif.Model.Lifecycle
/-!
# C18 — the query lifecycle is a consistent state machine under any sequence of API calls

All theorems are about `IpaVerif.Lifecycle.step` / `run` (one `Processor`, arbitrary histories of
arbitrary length, arbitrary replies of peers and shards, tasks that return `Ok` or `Err`), whose
tables `minStatus`/`transition`/`kindStatus` are regenerated from `ipa-core/src/query/state.rs`.
Core Lean only.
-/
namespace IpaVerif.C18
open IpaVerif.Lifecycle IpaVerif.Generated.Lifecycle

/-- The order the property states: preparing < awaiting inputs < running < awaiting completion < completed. -/
def rank : Status → Nat
  | .preparing => 0
  | .awaitingInputs => 1
  | .running => 2
  | .awaitingCompletion => 3
  | .completed => 4

def qrank : QS → Nat
  | .preparing => 0
  | .awaitingInputs => 1
  | .running _ _ => 2
  | .awaitingCompletion _ => 3
  | .completed _ => 4

/-! ## The regenerated tables -/

/-- Rust's exhaustiveness: every pair of statuses is matched by some arm of `min_status`. -/
theorem minStatus_arm_found (a b : Status) :
    (minStatusArms.find? (fun arm => pat arm.1 a && pat arm.2.1 b)).isSome = true := by
  cases a <;> cases b <;> rfl

/-- `min_status` is the meet of the status order: commutative, associative, idempotent, and equal to
the minimum of the ranks (all 25 pairs / 125 triples of the regenerated table). -/
theorem min_status_is_meet :
    (∀ a b, minStatus a b = minStatus b a) ∧
    (∀ a b c, minStatus (minStatus a b) c = minStatus a (minStatus b c)) ∧
    (∀ a, minStatus a a = a) ∧
    (∀ a b, rank (minStatus a b) = min (rank a) (rank b)) := by
  refine ⟨?_, ?_, ?_, ?_⟩
  · intro a b; cases a <;> cases b <;> rfl
  · intro a b c; cases a <;> cases b <;> cases c <;> rfl
  · intro a; cases a <;> rfl
  · intro a b; cases a <;> cases b <;> rfl

theorem rank_injective (a b : Status) (h : rank a = rank b) : a = b := by
  cases a <;> cases b <;> simp [rank] at h <;> rfl

/-- The allowed-transition table is exactly: Empty→Preparing, Empty→AwaitingInputs,
Preparing→AwaitingInputs, AwaitingInputs→Running (all 36 pairs of the regenerated table). -/
theorem transition_ok_iff (c n : Kind) :
    transition c n = .ok ↔
      (c = .empty ∧ n = .preparing) ∨ (c = .empty ∧ n = .awaitingInputs) ∨
      (c = .preparing ∧ n = .awaitingInputs) ∨ (c = .awaitingInputs ∧ n = .running) := by
  cases c <;> cases n <;> simp [transition, transitionArms, pat, kindStatus, List.find?]

/-- `transition` panics only when the `InvalidState` error has to name the status of `Empty`
(the processor never asks for such a transition, see `no_panic_no_phantom_state`). -/
theorem transition_panic_iff (c n : Kind) :
    transition c n = .panic ↔ (c = .empty ∧ n ≠ .preparing ∧ n ≠ .awaitingInputs) ∨ (c ≠ .empty ∧ n = .empty) := by
  cases c <;> cases n <;> simp [transition, transitionArms, pat, kindStatus, List.find?]

/-- Every stored state has a status (`QueryStatus::from` panics on `Empty` only). -/
theorem statusOf_stored (q : QS) : ∃ st, statusOf q = some st ∧ rank st = qrank q := by
  cases q <;> simp [statusOf, QS.kind, kindStatus, rank, qrank]

/-! ## Evaluation lemmas used by the case analyses -/

@[simp] theorem tr_to_preparing (e : Option QS) :
    transition (entryKind e) .preparing = if e.isSome then .alreadyRunning else .ok := by
  cases e with
  | none => rfl
  | some q => cases q <;> rfl
@[simp] theorem tr_prep_ai : transition .preparing .awaitingInputs = .ok := rfl
@[simp] theorem tr_empty_ai : transition .empty .awaitingInputs = .ok := rfl
@[simp] theorem st_preparing : statusOf .preparing = some .preparing := rfl
@[simp] theorem st_ai : statusOf .awaitingInputs = some .awaitingInputs := rfl
@[simp] theorem st_running (i r) : statusOf (.running i r) = some .running := rfl
@[simp] theorem st_ac (i) : statusOf (.awaitingCompletion i) = some .awaitingCompletion := rfl
@[simp] theorem st_completed (r) : statusOf (.completed r) = some .completed := rfl

/-! ## Forward only -/

/-- One call never moves an existing query backwards (it may forget it). -/
theorem status_monotone_step (p : Pos) (s : St) (op : Op) (q q' : QS)
    (h : s.entry = some q) (h' : (step p s op).1.entry = some q') : qrank q ≤ qrank q' := by
  obtain ⟨entry, pending, next⟩ := s
  simp only at h
  subst h
  cases op <;> rcases q with _ | _ | ⟨_, _ | _⟩ | _ | _ <;> simp [step, refresh, trErr] at h' ⊢ <;>
    (repeat' split at h') <;> (try simp_all [qrank]) <;> (try subst_vars) <;> (try simp_all [qrank])

/-- **status_monotone**: along every history (any length, any replies, any task outcomes), as long as
the query is not forgotten in between, its status never decreases in the order
preparing < awaiting inputs < running < awaiting completion < completed. -/
theorem status_monotone (p : Pos) (ops : List Op) :
    ∀ (s : St) (q q' : QS), s.entry = some q → (finalState p s ops).entry = some q' →
      (∀ k, k ≤ ops.length → (finalState p s (ops.take k)).entry ≠ none) → qrank q ≤ qrank q' := by
  induction ops with
  | nil =>
    intro s q q' h h' _
    simp [finalState] at h'
    rw [h] at h'
    cases h'
    exact Nat.le_refl _
  | cons op rest ih =>
    intro s q q' h h' hne
    have h1 := hne 1 (by simp)
    simp [finalState] at h1
    cases hq1 : (step p s op).1.entry with
    | none => exact absurd hq1 h1
    | some q1 =>
      have a := status_monotone_step p s op q q1 h hq1
      have b := ih (step p s op).1 q1 q' hq1 (by simpa [finalState] using h') (by
        intro k hk
        have := hne (k + 1) (by simp; omega)
        simpa [finalState] using this)
      exact Nat.le_trans a b

example : finalState ⟨0, true⟩ {} [.newQuery [.accept, .accept] [], .receiveInputs, .taskReturns 0 .ok, .queryStatus []]
    = { entry := some (.completed .ok), pending := [], next := 1 } := by decide

/-! ## Invalid requests are answered with an error and change nothing -/

/-- Errors that mean "not valid in the current state / at this processor". -/
def invalidClass : Err → Bool
  | .alreadyRunning | .invalidState _ _ | .noSuchQuery | .wrongTarget | .notLeader | .leader
  | .differentStatus _ _ => true
  | _ => false

/-- Spec side: is the request valid for a processor at position `p` whose query is in state
`s.entry`? (task events are not requests). -/
def validNow (p : Pos) (s : St) : Op → Bool
  | .newQuery _ _ => s.entry.isNone
  | .prepareHelper _ => p.helper ≠ 0 && p.leader && s.entry.isNone
  | .prepareShard => !p.leader && s.entry.isNone
  | .receiveInputs => s.entry == some .awaitingInputs
  | .queryStatus _ => p.leader && s.entry.isSome
  | .shardStatus req => !p.leader && ((refresh s.entry).bind statusOf == some req)
  | .complete _ => match s.entry with
      | some (.running _ _) | some (.completed _) => true
      | _ => false
  | .kill => s.entry.isSome
  | .taskReturns _ _ => true

/-- **invalid_request_errs_and_preserves**: a request that is invalid in the current state is
answered with an error of the invalid-request class; a valid one never is; and every call answered
with such an error leaves the processor state unchanged (up to the lazy `Running → Completed`
bookkeeping of `get_status`, which does not change what the query *is*). -/
theorem invalid_request_errs_and_preserves (p : Pos) (s : St) (op : Op) :
    (validNow p s op = false → ∃ e, (step p s op).2 = .err e ∧ invalidClass e = true) ∧
    (validNow p s op = true → ∀ e, (step p s op).2 = .err e → invalidClass e = false) ∧
    (∀ e, (step p s op).2 = .err e → invalidClass e = true →
        (step p s op).1 = s ∨ (step p s op).1 = { s with entry := refresh s.entry }) := by
  obtain ⟨entry, pending, next⟩ := s
  refine ⟨?_, ?_, ?_⟩
  · intro hv
    cases op <;> (try rcases entry with _ | _ | _ | ⟨_, _ | _⟩ | _ | _) <;>
      simp_all [validNow, step, refresh, trErr, invalidClass, outcomeResp] <;>
      (repeat' split) <;> simp_all [invalidClass]
  · intro hv e he
    cases op <;> (try rcases entry with _ | _ | _ | ⟨_, _ | _⟩ | _ | _) <;>
      simp_all [validNow, step, refresh, trErr, invalidClass, outcomeResp] <;>
      (repeat' split at he) <;> simp_all [invalidClass] <;> (try subst_vars) <;> simp_all [invalidClass]
  · intro e he hc
    cases op <;> (try rcases entry with _ | _ | _ | ⟨_, _ | _⟩ | _ | _) <;>
      simp_all [step, refresh, trErr, invalidClass, outcomeResp] <;>
      (repeat' split at he) <;> (try simp_all [invalidClass]) <;> (try subst_vars) <;> (try simp_all [invalidClass])

/-! ## A failed creation leaves no trace -/

def isCreate : Op → Bool
  | .newQuery _ _ | .prepareHelper _ | .prepareShard => true
  | _ => false

/-- **failed_create_leaves_no_trace**: if `new_query` / `prepare_helper` / `prepare_shard` does not
succeed (peer or shard rejection, wrong target, already running, …) the processor is in exactly the
state it was in before, so the rest of any history behaves as if the call had never been made. -/
theorem failed_create_leaves_no_trace (p : Pos) (s : St) (op : Op) (rest : List Op)
    (hc : isCreate op = true) (hf : (step p s op).2 ≠ .ok) :
    (step p s op).1 = s ∧ run p s (op :: rest) = ((step p s op).2, s) :: run p s rest := by
  have h1 : (step p s op).1 = s := by
    obtain ⟨entry, pending, next⟩ := s
    cases op <;> simp [isCreate] at hc <;>
      (cases entry with | none => ?_ | some q => ?_) <;>
      simp_all [step, trErr] <;> (repeat' split) <;> simp_all
  refine ⟨h1, ?_⟩
  simp only [run]
  rw [h1]

example : (step ⟨0, true⟩ {} (.newQuery [.accept, .reject] [])).2 ≠ .ok := by decide

/-! ## Results are handed out once, then the query is forgotten -/

def isResult : Resp → Bool
  | .ok | .err .execution => true
  | _ => false

/-- **results_once_then_forgotten**: when `complete` hands out the task's result (directly, or later
when the task returns to a waiting `complete`), the query is gone; a further `complete` is answered
`NoSuchQuery`; and a new query can be created. -/
theorem results_once_then_forgotten (p : Pos) (s : St) :
    (∀ shards r, (step p s (.complete shards)).2 = r → isResult r = true →
        (step p s (.complete shards)).1.entry = none) ∧
    (∀ id o r, (step p s (.taskReturns id o)).2 = .resolved r →
        r = outcomeResp o ∧ id ∈ s.pending ∧
        (s.entry = some (.awaitingCompletion id) → (step p s (.taskReturns id o)).1.entry = none) ∧
        (step p s (.taskReturns id o)).1.pending = s.pending.erase id) ∧
    (s.entry = none →
        (∀ shards, (step p s (.complete shards)).2 = .err .noSuchQuery) ∧
        (∀ peers shards, anyReject peers = false → anyReject shards = false →
          (step p s (.newQuery peers shards)) = ({ s with entry := some .awaitingInputs }, .ok))) := by
  obtain ⟨entry, pending, next⟩ := s
  refine ⟨?_, ?_, ?_⟩
  · intro shards r hr hres
    cases entry with
    | none => simp_all [step, isResult]
    | some q =>
      rcases q with _ | _ | ⟨_, _ | _⟩ | _ | _ <;> simp_all [step, isResult, outcomeResp] <;>
        (repeat' split at hr) <;> (try simp_all [isResult]) <;> (try subst_vars) <;> (try simp_all [isResult]) <;>
        (try (split <;> simp_all))
  · intro id o r hr
    by_cases hmem : id ∈ pending
    · simp [step, hmem] at hr ⊢
      exact ⟨hr.symm, fun h => by simp [h]⟩
    · simp [step, hmem] at hr
      (repeat' split at hr) <;> simp_all
  · intro hnone
    simp only at hnone
    subst hnone
    refine ⟨fun shards => by simp [step], fun peers shards hp hs => by simp [step, hp, hs]⟩

/-! ## The status of a sharded helper is the least advanced status among its shards -/

def differRanks : List SReply → List Nat
  | [] => []
  | .differ s :: rest => rank s :: differRanks rest
  | _ :: rest => differRanks rest

theorem foldStatus_spec (l : List SReply) : ∀ (mine st : Status), foldStatus mine l = some st →
    (∀ r ∈ l, r ≠ .other) ∧ rank st = (differRanks l).foldl min (rank mine) := by
  induction l with
  | nil => intro mine st h; simp [foldStatus] at h; subst h; simp [differRanks]
  | cons r rest ih =>
    intro mine st h
    cases r with
    | same =>
      have := ih mine st (by simpa [foldStatus] using h)
      refine ⟨?_, by simpa [differRanks] using this.2⟩
      intro r hr
      rcases List.mem_cons.mp hr with rfl | hr
      · simp
      · exact this.1 r hr
    | differ s =>
      have := ih (minStatus mine s) st (by simpa [foldStatus] using h)
      refine ⟨?_, ?_⟩
      · intro r hr
        rcases List.mem_cons.mp hr with rfl | hr
        · simp
        · exact this.1 r hr
      · rw [this.2, min_status_is_meet.2.2.2]
        simp [differRanks]
    | other => simp [foldStatus] at h

theorem foldl_min_le (l : List Nat) : ∀ a, l.foldl min a ≤ a ∧ ∀ x ∈ l, l.foldl min a ≤ x := by
  induction l with
  | nil => intro a; simp
  | cons y rest ih =>
    intro a
    have h := ih (min a y)
    refine ⟨Nat.le_trans h.1 (Nat.min_le_left _ _), ?_⟩
    intro x hx
    rcases List.mem_cons.mp hx with rfl | hx
    · exact Nat.le_trans h.1 (Nat.min_le_right _ _)
    · exact h.2 x hx

/-- **sharded_status_is_min**: when the leader's `query_status` answers with a status, no shard
answered with another error, and the reported status is the minimum (in the lifecycle order) of the
leader's own status and the statuses the differing shards reported — in particular it is not more
advanced than any shard. The result does not depend on the order of the replies
(`min_status_is_meet`). -/
theorem sharded_status_is_min (p : Pos) (s : St) (shards : List SReply) (st : Status)
    (h : (step p s (.queryStatus shards)).2 = .status st) :
    ∃ mine, passive (step p s (.queryStatus shards)).1 = some mine ∧
      (∀ r ∈ shards, r ≠ .other) ∧
      rank st = (differRanks shards).foldl min (rank mine) ∧
      rank st ≤ rank mine ∧ ∀ x ∈ differRanks shards, rank st ≤ x := by
  obtain ⟨entry, pending, next⟩ := s
  cases hl : p.leader with
  | false => simp [step, hl] at h
  | true =>
    cases hq : refresh entry with
    | none => simp [step, hl, hq] at h
    | some q =>
      obtain ⟨mine, hm, _⟩ := statusOf_stored q
      cases hf : foldStatus mine shards with
      | none => simp [step, hl, hq, hm, hf] at h
      | some st' =>
        simp [step, hl, hq, hm, hf] at h
        subst h
        have hs := foldStatus_spec shards mine st' hf
        have hle := foldl_min_le (differRanks shards) (rank mine)
        refine ⟨mine, by simp [step, hl, hq, hm, hf, passive], hs.1, hs.2, ?_, ?_⟩
        · rw [hs.2]; exact hle.1
        · intro x hx; rw [hs.2]; exact hle.2 x hx

example : (step ⟨0, true⟩ { entry := some (.running 0 none) } (.queryStatus [.differ .completed, .same, .differ .awaitingInputs])).2
    = .status .awaitingInputs := by decide

/-! ## No panic, no phantom state -/

def isPanicResp : Resp → Bool
  | .panic => true
  | .resolved r => isPanicResp r
  | _ => false

theorem step_no_panic (p : Pos) (s : St) (op : Op) : isPanicResp (step p s op).2 = false := by
  obtain ⟨entry, pending, next⟩ := s
  cases op <;> (try rcases entry with _ | _ | _ | ⟨_, _ | _⟩ | _ | _) <;>
    simp [step, refresh, trErr, isPanicResp, outcomeResp] <;>
    (repeat' split) <;> (try simp_all [isPanicResp, outcomeResp]) <;> (repeat' split) <;> (try simp_all [isPanicResp])

theorem differRanks_all_same (l : List SReply) (h : ∀ r ∈ l, r = .same) : differRanks l = [] := by
  induction l with
  | nil => rfl
  | cons r rest ih =>
    have hr := h r (by simp)
    subst hr
    simpa [differRanks] using ih (fun r hr => h r (by simp [hr]))

theorem step_reports_stored_state (p : Pos) (s : St) (op : Op) (st : Status) :
    (∀ req, op = .shardStatus req → (step p s op).2 = .status st →
        passive (step p s op).1 = some st ∧ req = st) ∧
    (∀ shards, op = .queryStatus shards → (∀ r ∈ shards, r = .same) → (step p s op).2 = .status st →
        passive (step p s op).1 = some st) := by
  refine ⟨?_, ?_⟩
  · intro req hop h
    subst hop
    obtain ⟨entry, pending, next⟩ := s
    cases entry with
    | none => simp [step, refresh] at h; split at h <;> simp at h
    | some q =>
      cases q <;> simp [step, refresh, passive] at h ⊢ <;> (repeat' split at h) <;> simp_all [passive] <;>
        (repeat' split) <;> simp_all
  · intro shards hop hall h
    subst hop
    obtain ⟨mine, hp, _, hr, _, _⟩ := sharded_status_is_min p s shards st h
    have : differRanks shards = [] := differRanks_all_same shards hall
    rw [this] at hr
    simp at hr
    rw [hp, rank_injective _ _ hr]

/-- **no_panic_no_phantom_state**: for every history (any length) of API calls and task events in
which tasks end by returning `Ok` or `Err`, no call panics, and whenever a status is reported
(`shard_status`, or `query_status` with all shards agreeing) it is the status of the state stored
after the call. -/
theorem no_panic_no_phantom_state (p : Pos) (ops : List Op) : ∀ (s : St),
    ∀ x ∈ run p s ops, isPanicResp x.1 = false ∧
      (∀ st, x.1 = .status st → ∃ mine, passive x.2 = some mine ∧ rank st ≤ rank mine) := by
  induction ops with
  | nil => intro s x hx; simp [run] at hx
  | cons op rest ih =>
    intro s x hx
    simp only [run, List.mem_cons] at hx
    rcases hx with rfl | hx
    · refine ⟨step_no_panic p s op, ?_⟩
      intro st hst
      simp only at hst
      cases op with
      | queryStatus shards =>
        obtain ⟨mine, hp, _, _, hle, _⟩ := sharded_status_is_min p s shards st hst
        exact ⟨mine, hp, hle⟩
      | shardStatus req =>
        have := (step_reports_stored_state p s (.shardStatus req) st).1 req rfl hst
        exact ⟨st, this.1, Nat.le_refl _⟩
      | _ =>
        exfalso
        obtain ⟨entry, pending, next⟩ := s
        revert hst
        simp only [step]
        (repeat' split) <;> simp [trErr, outcomeResp] <;> (repeat' split) <;> simp
    · exact ih _ x hx

/-! ## Who may forget a query

Before the repair `fix: a completion's cleanup guard removes only its own AwaitingCompletion entry`
this statement was FALSE (finding F12: create, receive inputs, `complete` (waits), `kill`, create
again, old task returns ⇒ the stale guard deleted the NEW query's state). The model mirrors the
repaired code: the `AwaitingCompletion` state carries the identity of the waiting `complete`. -/

/-- **removal_only_by_request**: in EVERY state, a call forgets an existing query only if it is
`kill`, a `complete` that returned (result, execution error, or shard rejection), or the return of
the task of *this very query* to the `complete` waiting for it. -/
theorem removal_only_by_request (p : Pos) (s : St) (op : Op) (q : QS)
    (hq : s.entry = some q) (hn : (step p s op).1.entry = none) :
    op = .kill ∨
    (∃ sh, op = .complete sh ∧ ((step p s op).2 = .err .shardError ∨ isResult (step p s op).2 = true)) ∨
    (∃ id o, op = .taskReturns id o ∧ q = .awaitingCompletion id ∧ id ∈ s.pending) := by
  obtain ⟨entry, pending, next⟩ := s
  simp only at hq
  subst hq
  cases op <;> rcases q with _ | _ | ⟨_, _ | _⟩ | _ | _ <;>
    simp_all [step, refresh, trErr, isResult, outcomeResp] <;>
    (repeat' split at hn) <;> (try simp_all [isResult]) <;> (repeat' split) <;> (try simp_all [isResult])

/-- History form: along any history, whenever the query present before a call is gone after it, the
call was one of the three kinds above. -/
theorem no_phantom_removal (p : Pos) (ops : List Op) : ∀ (s : St) (k : Nat) (q : QS),
    (finalState p s (ops.take k)).entry = some q → k < ops.length →
    (finalState p s (ops.take (k + 1))).entry = none →
    ∃ op, ops[k]? = some op ∧ (op = .kill ∨ (∃ sh, op = .complete sh) ∨
      (∃ id o, op = .taskReturns id o ∧ q = .awaitingCompletion id)) := by
  induction ops with
  | nil => intro s k q _ hk; simp at hk
  | cons op rest ih =>
    intro s k q h hk hn
    cases k with
    | zero =>
      simp [finalState] at h hn
      refine ⟨op, by simp, ?_⟩
      rcases removal_only_by_request p s op q h hn with h1 | ⟨sh, h2, _⟩ | ⟨id, o, h3, h4, _⟩
      · exact Or.inl h1
      · exact Or.inr (Or.inl ⟨sh, h2⟩)
      · exact Or.inr (Or.inr ⟨id, o, h3, h4⟩)
    | succ k =>
      have := ih (step p s op).1 k q (by simpa [finalState] using h) (by simpa using hk)
        (by simpa [finalState] using hn)
      simpa using this

/-- The history of finding F12 on the repaired code: the stale completion still returns its result
to its caller, but the new query's state survives. -/
theorem stale_completion_leaves_new_query :
    let p : Pos := ⟨0, true⟩
    let h := [Op.newQuery [.accept, .accept] [], .receiveInputs, .complete [], .kill, .newQuery [.accept, .accept] []]
    (finalState p {} h).entry = some .awaitingInputs ∧
    (step p (finalState p {} h) (.taskReturns 0 .ok)) =
      ({ entry := some .awaitingInputs, pending := [], next := 1 }, .resolved .ok) := by
  decide

end IpaVerif.C18
