import IpaVerif.Props.C04
/-!
# C04 — every `Reveal` impl of a malicious-mode context is the two-copy opening

`Generated/MacReveal.lean` lists EVERY `impl … Reveal<Ctx> for Sharing` of `protocol/basics/reveal.rs` with the opening
it delegates to (`malicious_reveal` = `twoCopy`, `semi_honest_reveal` = `oneCopy`, the element type's own impl =
`perElement`), re-read from the sources on every run (the translator also checks that no impl is missed and that no
other file implements `Reveal`).  `Model/Mac.lean` resolves the table to concrete instances (`resolvedImpls`).

* `reveal_impls_two_copy` — every instance for a context of a malicious mode (`UpgradedMaliciousContext`,
  `ShardedUpgradedMaliciousContext`, `DZKPUpgradedMaliciousContext`) delegates to the two-copy opening.
* `reveal_impls_cover` — every upgraded malicious-mode context of `protocol/context/mod.rs` is classified as such and
  has instances for `Replicated` (the impl `eval_dy_prf` uses to open `R = g^r`) and `BitDecomposed<Replicated>`;
  the MAC contexts have one for `MaliciousReplicated`; every context named by an impl is classified; no impl
  delegates to something the translator could not identify.
* `reveal_via_impl_two_copies` — hence an opening through ANY of these instances, with one deviating helper sending
  arbitrary values, fails or returns the shared value on every other helper.
* `reveal_via_impl_honest` — an honest opening through any identified instance returns the shared value.
* `one_copy_reveal_undetected` — why the delegation matters: through a one-copy opening a deviating left peer shifts
  the opened value by any `d` and nothing fails.
-/
namespace IpaVerif.C04
open IpaVerif.Sharing IpaVerif.Mac IpaVerif.Generated.Mac IpaVerif.Generated.MacReveal

variable {R : Type} [CommRing R]

/-- **reveal_impls_two_copy** — `decide` over the regenerated table. -/
theorem reveal_impls_two_copy :
    ∀ r ∈ resolvedImpls, isMaliciousCtx r.1 = true → r.2.2 = RevealFn.twoCopy := by decide

/-- **reveal_impls_cover** -/
theorem reveal_impls_cover :
    (∀ c ∈ upgradedMaliciousContexts, isMaliciousCtx c = true ∧
        resolveImpl c "Replicated" = some RevealFn.twoCopy ∧
        resolveImpl c "BitDecomposed<Replicated>" = some RevealFn.twoCopy) ∧
    resolveImpl "UpgradedMaliciousContext" "MaliciousReplicated" = some RevealFn.twoCopy ∧
    resolveImpl "ShardedUpgradedMaliciousContext" "MaliciousReplicated" = some RevealFn.twoCopy ∧
    (∀ i ∈ revealImpls, i.fn ≠ RevealFn.unknown ∧ (i.ctx = "*" ∨ (contextModules.lookup i.ctx).isSome = true) ∧
        (i.ctx = "*" ↔ i.fn = RevealFn.perElement)) ∧
    (∀ r ∈ resolvedImpls, r.2.2 = RevealFn.twoCopy ∨ r.2.2 = RevealFn.oneCopy) := by decide

/-- **reveal_via_impl_two_copies** — any instance for a malicious-mode context, a consistent sharing, helper `c`
deviating with arbitrary messages: every other helper `h` fails the opening or obtains the shared value. -/
theorem reveal_via_impl_two_copies [DecidableEq R] (r : String × String × RevealFn) (hr : r ∈ resolvedImpls)
    (hm : isMaliciousCtx r.1 = true) (w : World R) (hw : Consistent w) (c h : Nat) (hc : c < 3) (hh : h < 3)
    (hne : h ≠ c) (mL mR : R) :
    revealVia (ringAlg R) r.2.2 w c h mL mR = none ∨ revealVia (ringAlg R) r.2.2 w c h mL mR = some (rec w) := by
  rw [reveal_impls_two_copy r hr hm]
  exact reveal_two_copies w hw c h hc hh hne mL mR

/-- non-vacuity: the impl used by `eval_dy_prf` to open `R = g^r` is such an instance. -/
example : ("UpgradedMaliciousContext", "Replicated", RevealFn.twoCopy) ∈ resolvedImpls ∧
    isMaliciousCtx "UpgradedMaliciousContext" = true := by decide

/-- **reveal_via_impl_honest** — nobody deviates (helper `c` sends what it should): the opening through a two-copy or
a one-copy instance returns the shared value on every helper. -/
theorem reveal_via_impl_honest [DecidableEq R] (fn : RevealFn) (hfn : fn = RevealFn.twoCopy ∨ fn = RevealFn.oneCopy)
    (w : World R) (hw : Consistent w) (c h : Nat) (hh : h < 3) :
    revealVia (ringAlg R) fn w c h (revealMsgToLeft (view w c)) (revealMsgToRight (view w c)) = some (rec w) := by
  have hon := reveal_honest w hw h hh
  obtain ⟨h1, h2, h3⟩ := hw
  have hv : ∀ k, view w k = view w (k % 3) := by
    intro k; simp [view]
  rcases hfn with rfl | rfl
  · -- two copies: substituting the honest messages for the deviating helper's gives the honest opening
    unfold revealHonest at hon
    simp only [revealVia, revealCorrupt]
    by_cases e1 : (h + 2) % 3 = c % 3
    · have e2 : ¬ (h + 1) % 3 = c % 3 := by omega
      simp only [e1, e2, if_true, if_false]
      rw [hv c, ← e1, ← hv (h + 2)]; exact hon
    · by_cases e2 : (h + 1) % 3 = c % 3
      · simp only [e1, e2, if_true, if_false]
        rw [hv c, ← e2, ← hv (h + 1)]; exact hon
      · simp only [e1, e2, if_false]; exact hon
  · simp only [revealVia, revealAtOne, revealMsgToRight, revealToRightSendsLeft, if_true]
    have : (if (h + 2) % 3 = c % 3 then (view w c).l else (view w (h + 2)).l) = (view w (h + 2)).l := by
      split
      · next e => rw [hv c, ← e, ← hv (h + 2)]
      · rfl
    rw [this]
    have h3' : h = 0 ∨ h = 1 ∨ h = 2 := by omega
    rcases h3' with rfl | rfl | rfl <;>
      simp only [view, rec, reconstruct, ringAlg, Option.some.injEq] <;> simp [h1, h2, h3] <;> ring

/-- **one_copy_reveal_undetected** — the variant the table must not contain for a malicious-mode context: with
`semi_honest_reveal` the right neighbour `c+1` of a deviating helper `c` that adds `d` to the share it sends opens
`value + d`, and no helper's opening fails. -/
theorem one_copy_reveal_undetected [DecidableEq R] (w : World R) (hw : Consistent w) (c : Nat) (d mL : R) :
    revealVia (ringAlg R) RevealFn.oneCopy w c (c % 3 + 1) mL ((view w c).l + d) = some (rec w + d) ∧
    (∀ h mR, revealVia (ringAlg R) RevealFn.oneCopy w c h mL mR ≠ none) := by
  obtain ⟨h1, h2, h3⟩ := hw
  refine ⟨?_, fun h mR => by simp [revealVia, revealAtOne]⟩
  have hc : c % 3 = 0 ∨ c % 3 = 1 ∨ c % 3 = 2 := by omega
  simp only [revealVia, revealAtOne]
  rcases hc with e | e | e <;> rw [e] <;>
    simp only [view, e, rec, reconstruct, ringAlg, Option.some.injEq] <;> simp [h1, h2, h3] <;> ring

/-- non-vacuity of `one_copy_reveal_undetected`, Fp31: the sharing of 5 opened as 5 + 9 = 14 by helper 2 when helper 1
deviates. -/
example : revealVia (modAlg 31) RevealFn.oneCopy (share (modAlg 31) 5 1 2) 1 2 0 ((2 + 9) % 31) = some 14 := by decide

end IpaVerif.C04
