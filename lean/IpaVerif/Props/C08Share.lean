import IpaVerif.Props.C08Field
import IpaVerif.Generated.DzkpConstants
/-!
# C08 — replicated-share local arithmetic and the DZKP proof-field constants

* A 3-party replicated sharing of `x` is `s : Fin 3 → F` with helper `i` holding `(s i, s (i+1))`;
  `reconstruct s = s 0 + s 1 + s 2`. The local operations of `AdditiveShare` (`+`, `-`, unary `-`,
  `· const`) act component-wise on the pair, hence helper-wise on `s`: they keep the sharing
  consistent and commute with `reconstruct` (all three prime fields, all canonical shares).
* `INVERSE_OF_TWO`, `MINUS_ONE_HALF`, `MINUS_TWO` of `dzkp_field.rs` (literals regenerated from the
  source): `2·INVERSE_OF_TWO = 1`, `MINUS_ONE_HALF = -INVERSE_OF_TWO`, `MINUS_TWO = -2`, all canonical.
-/
namespace IpaVerif.C08
open IpaVerif.PrimeField IpaVerif.Generated

/-- helper `i`'s pair of a sharing -/
def helperShare (s : Fin 3 → ℕ) (i : Fin 3) : ℕ × ℕ := (s i, s (i + 1))

/-- the local operations of `AdditiveShare` (component-wise on `(left, right)`) -/
def shareAdd (P : Params) (a b : ℕ × ℕ) : ℕ × ℕ := (add P a.1 b.1, add P a.2 b.2)
def shareSub (P : Params) (a b : ℕ × ℕ) : ℕ × ℕ := (sub P a.1 b.1, sub P a.2 b.2)
def shareNeg (P : Params) (a : ℕ × ℕ) : ℕ × ℕ := (neg P a.1, neg P a.2)
def shareMulConst (P : Params) (a : ℕ × ℕ) (c : ℕ) : ℕ × ℕ := (mul P a.1 c, mul P a.2 c)

def reconstruct (P : Params) (s : Fin 3 → ℕ) : ℕ := add P (add P (s 0) (s 1)) (s 2)

/-- local operations keep the replicated sharing consistent: helper `i`'s result is helper `i`'s
pair of the component-wise result. -/
theorem share_ops_consistent (P : Params) (s t : Fin 3 → ℕ) (c : ℕ) (i : Fin 3) :
    shareAdd P (helperShare s i) (helperShare t i) = helperShare (fun j => add P (s j) (t j)) i ∧
    shareSub P (helperShare s i) (helperShare t i) = helperShare (fun j => sub P (s j) (t j)) i ∧
    shareNeg P (helperShare s i) = helperShare (fun j => neg P (s j)) i ∧
    shareMulConst P (helperShare s i) c = helperShare (fun j => mul P (s j) c) i :=
  ⟨rfl, rfl, rfl, rfl⟩

section
variable {P : Params} (hs : ArithSpec P)
include hs

theorem reconstruct_lt {s : Fin 3 → ℕ} (h : ∀ i, s i < P.p) : reconstruct P s < P.p :=
  (canonical_ops hs (canonical_ops hs (h 0) (h 1)).1 (h 2)).1

theorem cast_reconstruct {s : Fin 3 → ℕ} (h : ∀ i, s i < P.p) :
    ((reconstruct P s : ℕ) : ZMod P.p) = s 0 + s 1 + s 2 := by
  rw [reconstruct, toZMod_add hs (canonical_ops hs (h 0) (h 1)).1 (h 2), toZMod_add hs (h 0) (h 1)]

/-- **local share arithmetic commutes with reconstruction** -/
theorem share_arith_reconstructs {s t : Fin 3 → ℕ} {c : ℕ} (hsl : ∀ i, s i < P.p) (htl : ∀ i, t i < P.p) (hc : c < P.p) :
    reconstruct P (fun j => add P (s j) (t j)) = add P (reconstruct P s) (reconstruct P t) ∧
    reconstruct P (fun j => sub P (s j) (t j)) = sub P (reconstruct P s) (reconstruct P t) ∧
    reconstruct P (fun j => neg P (s j)) = neg P (reconstruct P s) ∧
    reconstruct P (fun j => mul P (s j) c) = mul P (reconstruct P s) c := by
  have rs := reconstruct_lt hs hsl
  have rt := reconstruct_lt hs htl
  have ops := fun j => canonical_ops hs (hsl j) (htl j)
  have opc := fun j => canonical_ops hs (hsl j) hc
  refine ⟨?_, ?_, ?_, ?_⟩
  · apply eq_of_cast_eq (reconstruct_lt hs (fun j => (ops j).1)) (canonical_ops hs rs rt).1
    rw [cast_reconstruct hs (fun j => (ops j).1), toZMod_add hs rs rt, cast_reconstruct hs hsl, cast_reconstruct hs htl,
      toZMod_add hs (hsl 0) (htl 0), toZMod_add hs (hsl 1) (htl 1), toZMod_add hs (hsl 2) (htl 2)]
    ring
  · apply eq_of_cast_eq (reconstruct_lt hs (fun j => (ops j).2.1)) (canonical_ops hs rs rt).2.1
    rw [cast_reconstruct hs (fun j => (ops j).2.1), toZMod_sub hs rs rt, cast_reconstruct hs hsl, cast_reconstruct hs htl,
      toZMod_sub hs (hsl 0) (htl 0), toZMod_sub hs (hsl 1) (htl 1), toZMod_sub hs (hsl 2) (htl 2)]
    ring
  · apply eq_of_cast_eq (reconstruct_lt hs (fun j => (ops j).2.2.2)) (canonical_ops hs rs rs).2.2.2
    rw [cast_reconstruct hs (fun j => (ops j).2.2.2), toZMod_neg hs rs, cast_reconstruct hs hsl,
      toZMod_neg hs (hsl 0), toZMod_neg hs (hsl 1), toZMod_neg hs (hsl 2)]
    ring
  · apply eq_of_cast_eq (reconstruct_lt hs (fun j => (opc j).2.2.1)) (canonical_ops hs rs hc).2.2.1
    rw [cast_reconstruct hs (fun j => (opc j).2.2.1), toZMod_mul hs rs hc, cast_reconstruct hs hsl,
      toZMod_mul hs (hsl 0) hc, toZMod_mul hs (hsl 1) hc, toZMod_mul hs (hsl 2) hc]
    ring
end

/-- instantiated at every extracted prime field -/
theorem share_arith_reconstructs_prime_fields (P : Params) (hP : P ∈ primeFields) {s t : Fin 3 → ℕ} {c : ℕ}
    (hsl : ∀ i, s i < P.p) (htl : ∀ i, t i < P.p) (hc : c < P.p) :
    reconstruct P (fun j => add P (s j) (t j)) = add P (reconstruct P s) (reconstruct P t) ∧
    reconstruct P (fun j => sub P (s j) (t j)) = sub P (reconstruct P s) (reconstruct P t) ∧
    reconstruct P (fun j => neg P (s j)) = neg P (reconstruct P s) ∧
    reconstruct P (fun j => mul P (s j) c) = mul P (reconstruct P s) c :=
  share_arith_reconstructs (prime_fields_arith P hP) hsl htl hc

/-- Non-vacuity: a sharing of `30` in Fp31 by boundary shares. -/
example : (∀ i : Fin 3, (![30, 30, 1] i : ℕ) < fp31.p) ∧ reconstruct fp31 ![30, 30, 1] = 30 := by decide

/-! ### DZKP constants (`impl DZKPBaseField for Fp61BitPrime`) -/
theorem dzkp_constants :
    dzkpInverseOfTwo < fp61.p ∧ dzkpMinusOneHalf < fp61.p ∧ dzkpMinusTwo < fp61.p ∧
    mul fp61 2 dzkpInverseOfTwo = 1 ∧
    dzkpMinusOneHalf = neg fp61 dzkpInverseOfTwo ∧
    dzkpMinusTwo = neg fp61 2 ∧
    add fp61 (mul fp61 dzkpMinusOneHalf 2) 1 = 0 ∧
    mul fp61 dzkpMinusTwo dzkpMinusOneHalf = 1 := by decide

end IpaVerif.C08
