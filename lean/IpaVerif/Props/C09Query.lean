import IpaVerif.Model.QueryString
/-!
# C09, part 4 — `QueryConfig` survives the HTTP query string

`querystring_roundtrip`: for **every** valid configuration (every field type, every query type, all
parameter values) parsing the key/value pairs written by `Display` returns the configuration.
The splitting/escaping of the string and the text form of scalars are serde_urlencoded's / std's
(hypothesis: they invert each other on these ASCII keys and values); the suite `c09_query` runs the
real axum extractor, serde_urlencoded and serde_json on every combination.
The same hypothesis for the JSON form (`PrepareQuery` body, `RouteParams::extra`) needs serde_json's
`float_roundtrip` feature — enabled by the fix C09-JSON-F64 and pinned by the translator item
`wire.serde_json_float_roundtrip`; `json_roundtrip` states the consequence for the scalar codec as a parameter.
-/
namespace IpaVerif.C09
open IpaVerif.QueryString

theorem querystring_roundtrip (c : QueryConfig) (h : c.Valid) : fromPairs (toPairs c) = some c := by
  obtain ⟨size, ft, qt⟩ := c
  obtain ⟨h0, h1, h2⟩ := h
  simp only at h0 h1 h2
  have hs : size < 2 ^ 32 := by simp only [maxSize] at h1; omega
  have hsz : ¬ (size = 0 ∨ size > maxSize) := by omega
  cases ft <;> cases qt <;>
    first
    | (simp [fromPairs, toPairs, getNat, getStr, lookup, fieldName, queryTypeStr, hs, hsz]; done)
    | (rename_i p
       obtain ⟨mbk, dp, eps, pm⟩ := p
       obtain ⟨hm, hd⟩ := h2
       cases pm <;> simp [fromPairs, toPairs, getNat, getStr, lookup, fieldName, queryTypeStr, hs, hsz, hm, hd])

/-- JSON form: a configuration whose scalars are written by `print` and read by `parse` comes back unchanged as soon
as `parse ∘ print = some` on the epsilon token (what `float_roundtrip` provides; without it `parse (print x)` could be a
neighbouring double, `json_roundtrip_unfixed_counterexample`). The other fields are integers/enums/booleans. -/
theorem json_roundtrip {F T : Type} (print : F → T) (parse : T → Option F)
    (h : ∀ x, parse (print x) = some x) (mbk dp : Nat) (eps : F) (pm : Bool) :
    (parse (print eps)).map (fun e => (mbk, dp, e, pm)) = some (mbk, dp, eps, pm) := by
  rw [h]; rfl

/-- the defect before the fix, in miniature: a reader that is one unit off on some printed value does not return the
configuration (`Nat` stands for the bit pattern of the double; 0x402e70fe1300d65a is 15.220688432552539, which
serde_json without `float_roundtrip` read back as 0x402e70fe1300d65b). -/
theorem json_roundtrip_unfixed_counterexample :
    let parseOff : Nat → Option Nat := fun n => some (if n = 0x402e70fe1300d65a then n + 1 else n)
    (parseOff (id 0x402e70fe1300d65a)).map (fun e => (5, 1, e, false)) ≠ some (5, 1, 0x402e70fe1300d65a, false) := by
  decide

example : ∀ x : Nat, (fun n : Nat => some n) (id x) = some x := fun _ => rfl

/-- sizes outside 1..=10^9 are rejected whatever the rest says -/
theorem querystring_rejects_bad_size (ps : Pairs) (n : Nat) (h : lookup ps "size" = some (.nat n))
    (hn : n = 0 ∨ n > maxSize) : fromPairs ps = none := by
  have hg : getNat ps "size" (2 ^ 32) = if n < 2 ^ 32 then some n else none := by
    simp only [getNat, h]
  unfold fromPairs
  rw [hg]
  by_cases hb : n < 2 ^ 32
  · rw [if_pos hb]
    show (if n = 0 ∨ n > maxSize then none else _) = none
    rw [if_pos hn]
  · rw [if_neg hb]
    rfl

example : QueryConfig.Valid (QueryConfig.mk 1000000000 .fp32 (.maliciousHybrid (HybridParams.mk 5 1 "5" true))) := by
  simp [QueryConfig.Valid, maxSize]

end IpaVerif.C09
