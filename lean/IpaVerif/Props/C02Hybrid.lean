import IpaVerif.Props.C02Mech
/-!
# C02 — the hybrid query as a concrete list of protected phases

`Generated.phaseOrder` (regenerated on every run from `hybrid/step.rs`, the `MaliciousProtocolSteps` pairings and
the body of `hybrid_protocol`; compared by suite `c02_channels` with the order of first traffic in real runs) lists
the protected steps of the hybrid query in execution order with the mechanism protecting each:

  padding count → shuffle → convert (DZKP) → eval_prf (MAC + openings) → group_by_sum (DZKP) → padding count →
  shuffle → reveal → aggregate (DZKP) → finalize (DZKP) → dp (DZKP)

`hybridPhases I` turns every row into the phase(s) of `Props/C02Mech.lean`:
`count ↦ countPhase`, `shuffle ↦ shufflePhase`, `mac ↦ macPhase` (circuit, validate, then the openings of `z`,
`R`), `dzkp ↦ dzkpPhase` followed by `openPhase` (values are opened only after the batch was validated:
`validated_partial_reveal`, `reveal_breakdowns` after `group_by_sum_validate`; the order is checked on real runs by
the validate-before-open rule of suite `c02_channels`).

`I : HybridInst` supplies, per step, the *encoding* of that step's computation in the mechanism's terms (see the
header of `C02Mech.lean` for what that abstracts). `hybrid_query_abort_or_same_partial` is the composition theorem
for this list with the mechanism-proved `Sound`: for every encoding, every tampering and every initial state the
query aborts, or ends in exactly the honest state, or one of the explicit bad-challenge events happened.

Registered as partial. Missing for the full statement: the encodings are not derived from the Rust circuits (the
functional content of the phases is C01/C07's subject), the DZKP proof system's soundness against forged proofs is
the event `forge`, and no probability is attached to the bad events.
-/
namespace IpaVerif.C02
open IpaVerif.Malicious IpaVerif.Generated

/-- per protected step (keyed by its gate path), how its computation is expressed for the protecting mechanism -/
structure HybridInst (σ τ R F H : Type) [CommRing R] where
  count : List String → CountEnc σ τ
  shuffle : List String → ShuffleEnc σ τ F H
  dzkp : List String → DzkpEnc σ τ
  /-- the openings made after the DZKP step's batch was validated (possibly none) -/
  opens : List String → RevealEnc σ τ
  mac : List String → MacEnc σ τ R

variable {σ τ R F H : Type} [CommRing R] [DecidableEq R] [DecidableEq H]

/-- the phases of one row; `none` for a mechanism this file does not know (there is none in the table:
`phase_kinds_known`) -/
def phasesOf (I : HybridInst σ τ R F H) (row : List String × String) : Option (List (Phase σ τ)) :=
  if row.2 = "count" then some [countPhase (I.count row.1)]
  else if row.2 = "shuffle" then some [shufflePhase (I.shuffle row.1)]
  else if row.2 = "dzkp" then some [dzkpPhase (I.dzkp row.1), openPhase (I.opens row.1)]
  else if row.2 = "mac" then some [macPhase (I.mac row.1)]
  else none

def phasesOfRows (I : HybridInst σ τ R F H) : List (List String × String) → List (Phase σ τ)
  | [] => []
  | row :: rows => (phasesOf I row).getD [] ++ phasesOfRows I rows

/-- the hybrid query: one entry per protected step, in execution order -/
def hybridPhases (I : HybridInst σ τ R F H) : List (Phase σ τ) := phasesOfRows I phaseOrder

/-- every row of the regenerated execution order names one of the four mechanisms (nothing is dropped by
`phasesOfRows`), and the order is the expected one. -/
theorem phase_kinds_known :
    phaseOrder.all (fun row => row.2 ∈ ["count", "shuffle", "dzkp", "mac"]) = true ∧
    phaseOrder.map (·.2) =
      ["count", "shuffle", "dzkp", "mac", "dzkp", "count", "shuffle", "dzkp", "dzkp", "dzkp", "dzkp"] := by
  decide

/-- every step of the execution order has a row in the coverage table with the same mechanism, and every
DZKP / MAC step has its validate step registered -/
theorem phase_order_covered :
    phaseOrder.all (fun row => coverageTable.contains row) = true ∧
    phaseOrder.all (fun row => (row.2 ≠ "dzkp" ∧ row.2 ≠ "mac") ∨ (validateOf.map (·.1)).contains row.1) = true ∧
    (coverageTable.filter (fun r => r.2 ∈ ["count", "shuffle", "dzkp", "mac"])).all
      (fun r => phaseOrder.contains r) = true := by
  decide

theorem phasesOf_sound (I : HybridInst σ τ R F H) (row : List String × String) :
    ∀ p ∈ (phasesOf I row).getD [], p.Sound := by
  intro p hp
  unfold phasesOf at hp
  split at hp
  · simp at hp; subst hp; exact countPhase_sound _
  · split at hp
    · simp at hp; subst hp; exact shufflePhase_sound _
    · split at hp
      · simp at hp
        rcases hp with rfl | rfl
        · exact dzkpPhase_sound _
        · exact openPhase_sound _
      · split at hp
        · simp at hp; subst hp; exact macPhase_sound _
        · simp at hp

theorem phasesOfRows_sound (I : HybridInst σ τ R F H) (rows : List (List String × String)) :
    ∀ p ∈ phasesOfRows I rows, p.Sound := by
  induction rows with
  | nil => intro p hp; simp [phasesOfRows] at hp
  | cons row rows ih =>
    intro p hp
    simp only [phasesOfRows, List.mem_append] at hp
    rcases hp with hp | hp
    · exact phasesOf_sound I row p hp
    · exact ih p hp

/-- the list has the expected shape: 4 DZKP steps with their openings + dp, 2 counts, 2 shuffles, 1 MAC step -/
theorem hybridPhases_length (I : HybridInst σ τ R F H) : (hybridPhases I).length = 17 := by
  simp [hybridPhases, phasesOfRows, phaseOrder, phasesOf]

/-- **hybrid_query_abort_or_same** (partial, see header): for every encoding `I` of the steps, every tampering
choice per phase `ts` and every initial state `s` of the hybrid query: some honest helper aborts, or the query ends in
exactly the state of the untampered run, or one of the mechanisms' bad-challenge events happened on the way. -/
theorem hybrid_query_abort_or_same_partial (I : HybridInst σ τ R F H) (ts : List τ) (s : σ) :
    runAll (hybridPhases I) ts s = none ∨
    runAll (hybridPhases I) ts s = some (honestAll (hybridPhases I) s) ∨
    badAlong (hybridPhases I) ts s :=
  one_tamperer_abort_or_same_partial (hybridPhases I) (phasesOfRows_sound I phaseOrder) ts s

/-- without bad events: abort or the honest result. -/
theorem hybrid_query_abort_or_same (I : HybridInst σ τ R F H) (ts : List τ) (s : σ)
    (hgood : ¬ badAlong (hybridPhases I) ts s) :
    runAll (hybridPhases I) ts s = none ∨ runAll (hybridPhases I) ts s = some (honestAll (hybridPhases I) s) :=
  one_tamperer_abort_or_same (hybridPhases I) (phasesOfRows_sound I phaseOrder) ts s hgood

/-! ## non-vacuity: a toy instance satisfying every hypothesis of the encodings -/
namespace Toy
open IpaVerif.Sharing IpaVerif.Mac IpaVerif.C04

/-- tampering choices of the toy adversary -/
structure T where
  zflip : Nat → Bool := fun _ => false
  forge : Bool := false
  macErr : Nat → Int × Int := fun _ => (0, 0)
  forgedOpen : Nat → Nat × Nat := fun _ => (0, 0)
  forgedCount : Nat → Bool × Nat := fun _ => (false, 0)
  heldRow : Nat → Option (List Bool × Bool) := fun _ => none

/-- state: a list of bits (at most 8 are multiplied) -/
def dz : DzkpEnc (List Bool) T where
  j := .h0
  n s := min s.length 8
  gate s _ k := { x := fun _ => s.getD k false, y := fun _ => true, p := fun _ => false }
  eval s e := (List.range (min s.length 8)).map fun k => (s.getD k false) ^^ e k
  zflip t := t.zflip
  forge t := t.forge
  sabotage _ := false
  hn s := by simp [IpaVerif.Generated.fp61]
  eval_ext s e h := by
    apply List.map_congr_left
    intro k hk
    rw [h k (List.mem_range.mp hk)]

def op : RevealEnc (List Bool) T where
  m := 2
  c := 0
  hc := by decide
  vals s := s.map fun b => fun i => if i = 0 then b.toNat else 0
  forged t := t.forgedOpen
  put _ opened := opened.map (· == 1)

def cn : CountEnc (List Bool) T where
  counts s := [s.length, 3, 0]
  forged t := t.forgedCount
  put s cs := s ++ List.replicate (cs.getD 1 0) false

def sh : ShuffleEnc (List Bool) T Bool (List Bool) where
  G := IpaVerif.C05.gf2
  hash := id
  hinj _ _ h := h
  keys _ := [true, true]
  rows s := s.map fun b => [b, !b]
  held t := t.heldRow
  eval _ rows := rows.map fun w => w.getD 0 false

def mc : MacEnc (List Bool) T Int where
  c := 0
  hc := by decide
  r _ := share (ringAlg Int) 5 1 2
  mu _ := ⟨1, 2, 3⟩
  mw _ := ⟨4, 5, 6⟩
  gs s := [.upgrade (share (ringAlg Int) s.length 7 8) ⟨1, 1, 2⟩ (share (ringAlg Int) 3 1 1) (noErr (ringAlg Int)),
           .upgrade (share (ringAlg Int) 2 0 1) ⟨2, 1, 2⟩ (share (ringAlg Int) 4 1 2) (noErr (ringAlg Int)),
           .mul 0 1 ⟨3, 1, 2⟩ ⟨1, 5, 2⟩ (share (ringAlg Int) 9 4 2) (noErr (ringAlg Int)) (noErr (ringAlg Int))]
  czρ _ := ⟨7, 8, 9⟩
  czMask _ := share (ringAlg Int) 11 3 4
  outs _ := [2]
  put s vs := if vs = [2 * (s.length : Int)] then s else []
  errs t := t.macErr
  ve _ := (0, 0, 0)
  forged _ := fun _ => (0, 0)
  ok s := by
    have hc : ∀ a b c : Int, Consistent (share (ringAlg Int) a b c) := fun _ _ _ => ⟨rfl, rfl, rfl⟩
    refine ⟨hc _ _ _, hc _ _ _, ?_⟩
    intro g hg
    simp only [List.mem_cons, List.mem_nil_iff, or_false] at hg
    rcases hg with rfl | rfl | rfl <;> simp [GateOk, hc]

def inst : HybridInst (List Bool) T Int Bool (List Bool) where
  count _ := cn
  shuffle _ := sh
  dzkp _ := dz
  opens _ := op
  mac _ := mc

/-- the theorem applies to the toy instance … -/
example (ts : List T) (s : List Bool) :=
  hybrid_query_abort_or_same_partial inst ts s

/-- … and the DZKP phase is not trivially aborting or trivially accepting: an honest run is accepted with the
products, a flipped `z` without a surviving forgery aborts, with a surviving forgery it is accepted with the wrong
value — which is exactly the phase's `bad` event. -/
example :
    (dzkpPhase dz).run [true, false] {} = some [true, false] ∧
    (dzkpPhase dz).run [true, false] { zflip := fun k => k == 1 } = none ∧
    (dzkpPhase dz).run [true, false] { zflip := fun k => k == 1, forge := true } = some [true, true] := by
  decide

end Toy

end IpaVerif.C02
