import IpaVerif.Model.Gf2k
import IpaVerif.Generated.BinaryFields
import IpaVerif.Proofs.C08GfRing
/-!
# C08 — binary fields `Gf2 … Gf40Bit` of `ipa-core/src/ff/galois_field.rs` (core Lean part)

* the modelled `Mul` (portable shift-xor `clmul` + reduction loop over `POLYNOMIAL` +
  `try_from(..).unwrap()`) never panics on canonical operands, returns canonical elements, and makes
  the `BITS`-bit values a **commutative ring** under xor — for *every* `BITS ≤ 64` and *every*
  polynomial of degree `BITS` (`gf_mul_total … gf_mul_one`), instantiated at the parameters
  regenerated from the source on every run (`binary_fields_wf`);
* add/sub/neg: characteristic 2 group laws, `-0 = 0`, `a + (-a) = 0`;
* conversions and serialisation are canonical and injective;
* the generator-order certificates emitted by the translator are checked by the kernel
  (`gf*_cert_ok`); `Props/C08GfField` turns them into "every non-zero element is invertible".
-/
namespace IpaVerif.C08
open IpaVerif.Gf2k IpaVerif.Generated IpaVerif.GfRing IpaVerif.Clmul

/-! ### the extracted parameters are well formed -/
theorem wf_gf2 : WF gf2 := ⟨by decide, by decide, by decide, by decide⟩
theorem wf_gf3 : WF gf3 := ⟨by decide, by decide, by decide, by decide⟩
theorem wf_gf8 : WF gf8 := ⟨by decide, by decide, by decide, by decide⟩
theorem wf_gf9 : WF gf9 := ⟨by decide, by decide, by decide, by decide⟩
theorem wf_gf20 : WF gf20 := ⟨by decide, by decide, by decide, by decide⟩
theorem wf_gf32 : WF gf32 := ⟨by decide, by decide, by decide, by decide⟩
theorem wf_gf40 : WF gf40 := ⟨by decide, by decide, by decide, by decide⟩

/-- every extracted binary field has `1 ≤ BITS ≤ 64` and a `POLYNOMIAL` of degree exactly `BITS`. -/
theorem binary_fields_wf (P : Params) (hP : P ∈ binaryFields) : WF P := by
  simp only [binaryFields, List.mem_cons, List.mem_nil_iff, or_false] at hP
  rcases hP with rfl | rfl | rfl | rfl | rfl | rfl | rfl
  · exact wf_gf2
  · exact wf_gf3
  · exact wf_gf8
  · exact wf_gf9
  · exact wf_gf20
  · exact wf_gf32
  · exact wf_gf40

/-! ### general theory: all widths, all polynomials of the right degree -/

/-- The portable `clmul` loop is carry-less (polynomial) multiplication, which is xor-bilinear,
commutative and associative. -/
theorem gf_clmul_spec {k a b : Nat} (hk : k ≤ 64) (ha : a < 2 ^ k) (hb : b < 2 ^ k) :
    clmul k a b = cl a b ∧
    (∀ x y z, cl (x ^^^ y) z = cl x z ^^^ cl y z) ∧ (∀ x y z, cl x (y ^^^ z) = cl x y ^^^ cl x z) ∧
    (∀ x y, cl x y = cl y x) ∧ (∀ x y z, cl (cl x y) z = cl x (cl y z)) :=
  ⟨clmul_eq_cl hk ha hb, cl_xor_left, cl_xor_right, cl_comm, cl_assoc⟩

/-- The reduction loop is xor-linear, maps every multiple `q·P` of `POLYNOMIAL` (of degree `< 2k-1`)
to zero, and returns the canonical representative of its argument modulo `POLYNOMIAL`. -/
theorem gf_reduce_spec {P : Params} (w : WF P) :
    (∀ x, x < 2 ^ (P.bits + (P.bits - 1)) →
        reduceLoop P.bits P.poly (P.bits - 1) x < 2 ^ P.bits ∧ Cong P.poly x (reduceLoop P.bits P.poly (P.bits - 1) x)) ∧
    (∀ x y, x < 2 ^ (P.bits + (P.bits - 1)) → y < 2 ^ (P.bits + (P.bits - 1)) →
        reduceLoop P.bits P.poly (P.bits - 1) (x ^^^ y)
          = reduceLoop P.bits P.poly (P.bits - 1) x ^^^ reduceLoop P.bits P.poly (P.bits - 1) y) ∧
    (∀ q, cl P.poly q < 2 ^ (P.bits + (P.bits - 1)) → reduceLoop P.bits P.poly (P.bits - 1) (cl P.poly q) = 0) := by
  have spec := fun x hx => reduceLoop_spec w.poly_ge w.poly_lt (P.bits - 1) x hx
  refine ⟨spec, ?_, ?_⟩
  · intro x y hx hy
    have hxy := Nat.xor_lt_two_pow hx hy
    apply Cong.eq_of_lt w.poly_ge (spec _ hxy).1 (Nat.xor_lt_two_pow (spec x hx).1 (spec y hy).1)
    exact Cong.trans (Cong.symm (spec _ hxy).2) (Cong.xor (spec x hx).2 (spec y hy).2)
  · intro q hq
    apply Cong.eq_of_lt w.poly_ge (spec _ hq).1 (Nat.two_pow_pos _)
    exact Cong.trans (Cong.symm (spec _ hq).2) ⟨q, by simp⟩

/-- `Mul` never panics on canonical operands; the result is canonical (`< 2^BITS`). -/
theorem gf_mul_total {P : Params} (w : WF P) {a b : Nat} (ha : a < 2 ^ P.bits) (hb : b < 2 ^ P.bits) :
    ∃ r, r < 2 ^ P.bits ∧ mul P a b = some r ∧ r = mulRaw P a b :=
  ⟨mulRaw P a b, (mul_eq_some w ha hb).2, (mul_eq_some w ha hb).1, rfl⟩

/-- the product is polynomial multiplication modulo `POLYNOMIAL` -/
theorem gf_mul_is_poly_mul_mod {P : Params} (w : WF P) {a b : Nat} (ha : a < 2 ^ P.bits) (hb : b < 2 ^ P.bits) :
    ∃ q, cl a b ^^^ mulRaw P a b = cl P.poly q := (mulRaw_spec w ha hb).2

theorem gf_mul_comm {P : Params} (w : WF P) {a b : Nat} (ha : a < 2 ^ P.bits) (hb : b < 2 ^ P.bits) :
    mul P a b = mul P b a := by
  rw [(mul_eq_some w ha hb).1, (mul_eq_some w hb ha).1, mulRaw_comm w ha hb]

theorem gf_mul_assoc {P : Params} (w : WF P) {a b c : Nat} (ha : a < 2 ^ P.bits) (hb : b < 2 ^ P.bits)
    (hc : c < 2 ^ P.bits) :
    (mul P a b).bind (fun ab => mul P ab c) = (mul P b c).bind (fun bc => mul P a bc) := by
  have hab := mul_eq_some w ha hb
  have hbc := mul_eq_some w hb hc
  rw [hab.1, hbc.1]
  simp only [Option.bind_some]
  rw [(mul_eq_some w hab.2 hc).1, (mul_eq_some w ha hbc.2).1, mulRaw_assoc w ha hb hc]

theorem gf_mul_distrib {P : Params} (w : WF P) {a b c : Nat} (ha : a < 2 ^ P.bits) (hb : b < 2 ^ P.bits)
    (hc : c < 2 ^ P.bits) :
    mul P a (add P b c) = (mul P a b).bind (fun x => (mul P a c).map (fun y => add P x y)) := by
  have hbc : add P b c < 2 ^ P.bits := Nat.xor_lt_two_pow hb hc
  rw [(mul_eq_some w ha hb).1, (mul_eq_some w ha hc).1, (mul_eq_some w ha hbc).1]
  simp only [Option.bind_some, Option.map_some, add]
  rw [mulRaw_xor_right w ha hb hc]

theorem gf_mul_one {P : Params} (w : WF P) {a : Nat} (ha : a < 2 ^ P.bits) :
    mul P a 1 = some a ∧ mul P 1 a = some a ∧ mul P a 0 = some 0 := by
  have h1 : 1 < 2 ^ P.bits := by
    have := Nat.pow_le_pow_right (n := 2) (by decide) w.bits_pos
    omega
  refine ⟨?_, ?_, ?_⟩
  · rw [(mul_eq_some w ha h1).1, mulRaw_one w ha]
  · rw [(mul_eq_some w h1 ha).1, mulRaw_comm w h1 ha, mulRaw_one w ha]
  · rw [(mul_eq_some w ha (Nat.two_pow_pos _)).1, mulRaw_zero w ha]

/-- Addition: an abelian group of exponent 2 on the canonical values; `-0 = 0`, `a + (-a) = 0`,
`a - b = a + b`. -/
theorem gf_add_group (P : Params) {a b c : Nat} (ha : a < 2 ^ P.bits) (hb : b < 2 ^ P.bits) :
    add P a b < 2 ^ P.bits ∧ add P a b = add P b a ∧ add P (add P a b) c = add P a (add P b c) ∧
    add P a 0 = a ∧ neg P 0 = 0 ∧ neg P a < 2 ^ P.bits ∧ add P a (neg P a) = 0 ∧ sub P a b = add P a (neg P b) := by
  refine ⟨Nat.xor_lt_two_pow ha hb, Nat.xor_comm _ _, Nat.xor_assoc _ _ _, Nat.xor_zero _, rfl, ha, Nat.xor_self _, rfl⟩

/-! ### no `u128` overflow inside `Mul` -/

/-- every `u128` value computed by the reduction loop of `Mul`, in program order:
`b`, `POLYNOMIAL * b`, `(POLYNOMIAL * b) << i` and the updated `product`. -/
def reduceTrace (bits poly : Nat) : Nat → Nat → List Nat
  | 0, _ => []
  | n + 1, x =>
    let b := x >>> (bits + n)
    [b, poly * b, (poly * b) <<< n, x ^^^ ((poly * b) <<< n)] ++ reduceTrace bits poly n (x ^^^ ((poly * b) <<< n))

theorem reduceTrace_bound {k p : Nat} (hp1 : 2 ^ k ≤ p) (hp2 : p < 2 ^ (k + 1)) (n x : Nat) (hx : x < 2 ^ (k + n)) :
    ∀ v ∈ reduceTrace k p n x, v < 2 ^ (k + n + 1) := by
  induction n generalizing x with
  | zero => intro v hv; simp [reduceTrace] at hv
  | succ n ih =>
    have hmono : 2 ^ (k + n + 1) ≤ 2 ^ (k + (n + 1) + 1) := Nat.pow_le_pow_right (by decide) (by omega)
    have hxn : x < 2 ^ (k + n + 1) := by rw [Nat.add_assoc]; exact hx
    have hstep : x >>> (k + n) ≤ 1 ∧ (p * (x >>> (k + n))) <<< n < 2 ^ (k + n + 1) ∧
        x ^^^ (p * (x >>> (k + n))) <<< n < 2 ^ (k + n) := by
      by_cases hb : x < 2 ^ (k + n)
      · have : x >>> (k + n) = 0 := by rw [Nat.shiftRight_eq_div_pow]; exact Nat.div_eq_of_lt hb
        rw [this]; simp; exact ⟨Nat.two_pow_pos _, hb⟩
      · have hb' : 2 ^ (k + n) ≤ x := Nat.le_of_not_lt hb
        have : x >>> (k + n) = 1 := by
          rw [Nat.shiftRight_eq_div_pow]
          apply Nat.div_eq_of_lt_le <;> simp [Nat.pow_succ] at * <;> omega
        rw [this, Nat.mul_one]
        have hy1 : 2 ^ (k + n) ≤ p <<< n := by
          rw [Nat.shiftLeft_eq, Nat.pow_add]; exact Nat.mul_le_mul_right _ hp1
        have hy2 : p <<< n < 2 ^ (k + n + 1) := by
          rw [Nat.shiftLeft_eq, Nat.add_right_comm, Nat.pow_add]
          exact Nat.mul_lt_mul_of_pos_right hp2 (Nat.two_pow_pos n)
        exact ⟨Nat.le_refl 1, hy2, xor_clears_top hb' hxn hy1 hy2⟩
    obtain ⟨hb1, hsh, hnew⟩ := hstep
    intro v hv
    simp only [reduceTrace, List.cons_append, List.nil_append, List.mem_cons] at hv
    have h1 : 1 < 2 ^ (k + (n + 1) + 1) := Nat.one_lt_two_pow (by omega)
    have hpb : p * (x >>> (k + n)) < 2 ^ (k + (n + 1) + 1) := by
      have : p * (x >>> (k + n)) ≤ p * 1 := Nat.mul_le_mul_left _ hb1
      have : 2 ^ (k + 1) ≤ 2 ^ (k + (n + 1) + 1) := Nat.pow_le_pow_right (by decide) (by omega)
      omega
    rcases hv with rfl | rfl | rfl | rfl | hv
    · omega
    · exact hpb
    · omega
    · have : 2 ^ (k + n) ≤ 2 ^ (k + (n + 1) + 1) := Nat.pow_le_pow_right (by decide) (by omega)
      omega
    · exact Nat.lt_of_lt_of_le (ih _ hnew v hv) hmono

/-- **No `u128` overflow in `Mul`**: for canonical operands of a well-formed field (`BITS ≤ 64`) the
carry-less product and every intermediate value of the reduction loop are below `2^128`
(indeed below `2^(2·BITS)`), and every multiplier `b` is `0` or `1`. -/
theorem gf_mul_no_overflow {P : Params} (w : WF P) {a b : Nat} (ha : a < 2 ^ P.bits) (hb : b < 2 ^ P.bits) :
    clmul P.bits a b < 2 ^ 128 ∧
    ∀ v ∈ reduceTrace P.bits P.poly (P.bits - 1) (clmul P.bits a b), v < 2 ^ 128 := by
  have hb' : b < 2 ^ (P.bits - 1 + 1) := by rw [Nat.sub_add_cancel w.bits_pos]; exact hb
  have hcl : clmul P.bits a b < 2 ^ (P.bits + (P.bits - 1)) := by
    rw [clmul_eq_cl w.bits_le ha hb]; exact cl_lt ha hb'
  have hle : 2 ^ (P.bits + (P.bits - 1) + 1) ≤ 2 ^ 128 :=
    Nat.pow_le_pow_right (by decide) (by have := w.bits_le; have := w.bits_pos; omega)
  refine ⟨Nat.lt_of_lt_of_le (Nat.lt_trans hcl ?_) hle, ?_⟩
  · exact Nat.pow_lt_pow_right (by decide) (by omega)
  · intro v hv
    exact Nat.lt_of_lt_of_le (reduceTrace_bound w.poly_ge w.poly_lt _ _ hcl v hv) hle

/-- the trace really is the loop: its last `product` is `reduceLoop`'s result -/
theorem reduceTrace_last (k p n x : Nat) :
    (reduceTrace k p n x).getLastD x = reduceLoop k p n x := by
  induction n generalizing x with
  | zero => rfl
  | succ n ih =>
    rw [reduceLoop, ← ih]
    simp only [reduceTrace, List.cons_append, List.nil_append]
    cases h : reduceTrace k p n (x ^^^ (p * (x >>> (k + n))) <<< n) with
    | nil => simp [List.getLastD]
    | cons y ys => simp [List.getLastD]

/-! ### conversions and serialisation -/

theorem gf_truncate_canonical (P : Params) (v : Nat) :
    truncateFrom P v < 2 ^ P.bits ∧ truncateFrom P v = v % 2 ^ P.bits := by
  rw [truncateFrom_eq_mod]; exact ⟨Nat.mod_lt _ (Nat.two_pow_pos _), rfl⟩

/-- `try_from` accepts exactly the values below `2^BITS`, unchanged. -/
theorem gf_tryFrom_spec (P : Params) (v : Nat) :
    tryFrom P v = if v < 2 ^ P.bits then some v else none := by
  split
  · rename_i h; exact tryFrom_of_lt P h
  · rename_i h; exact tryFrom_of_ge P (Nat.le_of_not_lt h)

theorem ofLeBytes_leBytes (n len : Nat) : Util.ofLeBytes (Util.leBytes n len) = n % 256 ^ len := by
  induction len generalizing n with
  | zero => simp [Util.leBytes, Util.ofLeBytes, Nat.mod_one]
  | succ len ih =>
    rw [Util.leBytes, Util.ofLeBytes, ih, Nat.pow_succ, Nat.mul_comm (256 ^ len), Nat.mod_mul]

theorem leBytes_length (n len : Nat) : (Util.leBytes n len).length = len := by
  induction len generalizing n with
  | zero => rfl
  | succ len ih => simp [Util.leBytes, ih]

/-- `deserialize ∘ serialize = id` on canonical elements; hence equal values ⇔ identical bytes. -/
theorem gf_serialize_roundtrip (P : Params) (hs : P.bits ≤ 8 * P.storeBytes) {a : Nat} (ha : a < 2 ^ P.bits) :
    deserialize P (serialize P a) = some a := by
  have hlt : a < 256 ^ P.storeBytes := by
    have : (256 : Nat) ^ P.storeBytes = 2 ^ (8 * P.storeBytes) := by
      rw [Nat.pow_mul]
    rw [this]
    exact Nat.lt_of_lt_of_le ha (Nat.pow_le_pow_right (by decide) hs)
  simp [deserialize, serialize, leBytes_length, ofLeBytes_leBytes, Nat.mod_eq_of_lt hlt, ha]

theorem gf_serialize_injective (P : Params) (hs : P.bits ≤ 8 * P.storeBytes) {a b : Nat}
    (ha : a < 2 ^ P.bits) (hb : b < 2 ^ P.bits) (h : serialize P a = serialize P b) : a = b := by
  have h1 := gf_serialize_roundtrip P hs ha
  rw [h, gf_serialize_roundtrip P hs hb] at h1
  exact (Option.some.inj h1).symm

theorem binary_fields_store_fits (P : Params) (hP : P ∈ binaryFields) : P.bits ≤ 8 * P.storeBytes := by
  simp only [binaryFields, List.mem_cons, List.mem_nil_iff, or_false] at hP
  rcases hP with rfl | rfl | rfl | rfl | rfl | rfl | rfl <;> decide

/-- `deserialize` accepts only canonical encodings (zero padding bits). -/
theorem gf_deserialize_canonical (P : Params) (bs : List Nat) (v : Nat) (h : deserialize P bs = some v) :
    v < 2 ^ P.bits := by
  unfold deserialize at h
  split at h
  · cases h
  · simp only at h
    split at h
    · rename_i hv; cases h; exact hv
    · cases h

/-! ### generator-order certificates emitted by the translator, checked by the kernel -/
theorem gf2_cert_ok : certOk gf2Cert = true := by decide +kernel
theorem gf3_cert_ok : certOk gf3Cert = true := by decide +kernel
theorem gf8_cert_ok : certOk gf8Cert = true := by decide +kernel
theorem gf9_cert_ok : certOk gf9Cert = true := by decide +kernel
theorem gf20_cert_ok : certOk gf20Cert = true := by decide +kernel
theorem gf32_cert_ok : certOk gf32Cert = true := by decide +kernel
theorem gf40_cert_ok : certOk gf40Cert = true := by decide +kernel

/-! ### exhaustive confirmation for the two smallest fields (no Mathlib, no certificate) -/
theorem gf2_field_exhaustive :
    ∀ a, a < 2 → a ≠ 0 → ∃ b, b < 2 ∧ mul gf2 a b = some 1 := by decide
theorem gf3_field_exhaustive :
    (∀ a, a < 8 → a ≠ 0 → ∃ b, b < 8 ∧ mul gf3 a b = some 1) ∧
    (∀ a, a < 8 → ∀ b, b < 8 → mul gf3 a b = some 0 → a = 0 ∨ b = 0) ∧
    (∀ a, a < 8 → ∀ b, b < 8 → ∀ c, c < 8 →
      (mul gf3 a b).bind (fun ab => mul gf3 ab c) = (mul gf3 b c).bind (fun bc => mul gf3 a bc)) := by decide

/-! ### the defect F2 (fixed in the repository): the former `Gf20Bit`/`Gf40Bit` polynomials had zero divisors -/
theorem gf20_former_polynomial_zero_divisor :
    mul { gf20 with poly := 0b1_0000_0000_0000_1000_1101 } 19 79339 = some 0 := by decide +kernel
theorem gf40_former_polynomial_zero_divisor :
    mul { gf40 with poly := 0b1_0000_0000_0000_0000_0000_0000_0000_0000_0010_1101 } 13 251069584289 = some 0 := by
  decide +kernel

/-- Non-vacuity of the hypotheses above: boundary elements of the largest field. -/
example : (2 ^ 40 - 1 : Nat) < 2 ^ gf40.bits ∧ (mul gf40 (2 ^ 40 - 1) (2 ^ 40 - 1)).isSome = true := by decide +kernel

end IpaVerif.C08
