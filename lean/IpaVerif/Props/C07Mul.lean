import IpaVerif.Model.Circuits
import IpaVerif.Props.C07
import IpaVerif.Props.C07Lift
import Mathlib.Tactic.Ring
/-!
# C07 — `mul_value`: the plaintext value of `integer_mul` (boolean_ops/multiplication.rs)

Doc comment of the Rust function: *x is assumed to be a positive number, y is assumed to be in two's complement
and can be either signed or unsigned*; the result has `new_len = |x| + |y|` bits.  The model
(`Circuits.integerMul`) transcribes the loop: `y` is sign-extended to `L = n + m` bits (`resizeLast`), for the
`i`-th bit `yb` the partial product `t = yb · x[0 .. L − i)` is added with `integer_add` onto `result[i ..]`, and the
carry is appended **while `result.len() < new_len`**.

Proved here, for bit lists of ARBITRARY lengths `n = |x|`, `m = |y| ≥ 1` (the code panics on empty `y`):

* `mul_value` — `val (integer_mul x y) = (val x · val (sext y)) mod 2^(n+m)` and the output has `n + m` bits
  (if `n ≥ 1`; for `n = 0` the output is an all-zero list of fewer bits — the value statement still holds);
* `mul_value_unsigned` — if the top bit of `y` is clear the result is exactly `val x · val y`;
* `mul_value_signed` — in ℤ: `val result = (val x · sval y) mod 2^(n+m)` with `sval` the two's-complement value.

The loop invariant `MulInv` needs the EXACT carry-append guard: after bit `i ≥ 1` the accumulator has
`min (n + i + 1) L` bits.  With the guard `i < x.len()` (an independent tester's mutant) the accumulator stops
growing after `n` bits of `y`, `result[i ..]` is then shorter than the partial product and the invariant (and the
function) breaks for `m > n`; see `mul_guard_mutant_counterexample`.
-/
namespace IpaVerif.C07
open IpaVerif.Sharing IpaVerif.Circuits

/-! ### little-endian value lemmas -/

theorem val_append (a b : List Bool) : val (a ++ b) = val a + 2 ^ a.length * val b := by
  induction a with
  | nil => simp [val]
  | cons x xs ih =>
    simp only [List.cons_append, val, ih, List.length_cons, Nat.pow_succ]
    ring

theorem val_take (x : List Bool) : ∀ k, val (x.take k) = val x % 2 ^ k := by
  induction x with
  | nil => intro k; simp [val]
  | cons b bs ih =>
    intro k
    cases k with
    | zero => simp [val, Nat.mod_one]
    | succ k => rw [List.take_succ_cons, val_mod_cons, val, ih]

theorem val_take_add_drop (l : List Bool) (i : Nat) (h : i ≤ l.length) :
    val l = val (l.take i) + 2 ^ i * val (l.drop i) := by
  conv => lhs; rw [← List.take_append_drop i l]
  rw [val_append, List.length_take, Nat.min_eq_left h]

theorem val_replicate_false (k : Nat) : val (List.replicate k false) = 0 := by
  induction k with
  | zero => rfl
  | succ k ih => simp [List.replicate_succ, val, ih]

theorem val_replicate_true (k : Nat) : val (List.replicate k true) + 1 = 2 ^ k := by
  induction k with
  | zero => rfl
  | succ k ih => simp only [List.replicate_succ, val, Nat.pow_succ, Bool.toNat_true]; omega

theorem mulRow_plain (p : Path) (yb : Bool) : ∀ (j : Nat) (x : List Bool),
    mulRow plainAlg p yb j x = x.map (fun xb => yb && xb) := by
  intro j x
  induction x generalizing j with
  | nil => rfl
  | cons a as ih => simp only [mulRow, List.map_cons, ih]; rfl

theorem val_map_and (yb : Bool) (x : List Bool) : val (x.map (fun xb => yb && xb)) = yb.toNat * val x := by
  cases yb
  · simpa using val_map_and_false x
  · simp

/-! ### one iteration of the loop (`i ≥ 1`) -/

/-- length of the accumulator when iteration `i ≥ 1` starts (`n` after iteration 0, then `min (n + i) L`). -/
def accLen (n L i : Nat) : Nat := if i = 1 then n else min (n + i) L

theorem mulStep_value (p : Path) (x : List Bool) (L : Nat) (result : List Bool) (i : Nat) (yb : Bool)
    (hn : 1 ≤ x.length) (hnL : x.length < L) (hi : 1 ≤ i) (hiL : i < L)
    (hlen : result.length = accLen x.length L i) :
    (mulStep plainAlg p x L result i yb).length = min (x.length + (i + 1)) L ∧
    val (mulStep plainAlg p x L result i yb) % 2 ^ L = (val result + 2 ^ i * (yb.toNat * val x)) % 2 ^ L := by
  have hil : i ≤ result.length := by
    rw [hlen]; unfold accLen; split <;> omega
  unfold mulStep
  simp only [show ¬ i = 0 by omega, if_false]
  rw [mulRow_plain]
  obtain ⟨hrl, hrv⟩ := add_value (p ++ [i] ++ [stepAdd]) 0
    ((x.take (L - i)).map (fun xb => yb && xb)) (result.drop i) false
  unfold integerAdd
  simp only [show plainAlg.zero = false from rfl]
  generalize additionCircuit plainAlg (p ++ [i] ++ [stepAdd]) 0
    ((x.take (L - i)).map (fun xb => yb && xb)) (result.drop i) false = r at hrl hrv ⊢
  simp only [List.length_map, List.length_take, Bool.toNat_false, Nat.add_zero] at hrl hrv
  rw [val_map_and, val_take] at hrv
  have hsplit := val_take_add_drop result i hil
  have hdl : (result.drop i).length = result.length - i := List.length_drop
  have hdlt := val_lt (result.drop i)
  have htl : (result.take i).length = i := by rw [List.length_take]; omega
  have hxlt := val_lt x
  have hreslen : (result.take i ++ r.1).length = i + min (L - i) x.length := by
    rw [List.length_append, htl, hrl]
  by_cases hcase : x.length + i < L
  · -- the accumulator still grows: the carry is appended, the sum is exact
    have hmin : min (L - i) x.length = x.length := by omega
    rw [hmin] at hrl hrv hreslen
    have hdrop_small : val (result.drop i) < 2 ^ x.length := by
      refine Nat.lt_of_lt_of_le hdlt (Nat.pow_le_pow_right (by omega) ?_)
      rw [hdl, hlen]; unfold accLen; split <;> omega
    have hxsmall : val x % 2 ^ (L - i) = val x :=
      Nat.mod_eq_of_lt (Nat.lt_of_lt_of_le hxlt (Nat.pow_le_pow_right (by omega) (by omega)))
    rw [Nat.mod_eq_of_lt hdrop_small, hxsmall] at hrv
    rw [if_pos (by rw [hreslen]; omega)]
    refine ⟨by rw [List.length_append, hreslen]; simp; omega, ?_⟩
    congr 1
    rw [val_append, val_append, hreslen, htl, hsplit]
    have : val [r.2] = r.2.toNat := by simp [val]
    rw [this, Nat.pow_add]
    calc val (result.take i) + 2 ^ i * val r.1 + 2 ^ i * 2 ^ x.length * r.2.toNat
        = val (result.take i) + 2 ^ i * (val r.1 + 2 ^ x.length * r.2.toNat) := by ring
      _ = val (result.take i) + 2 ^ i * (yb.toNat * val x + val (result.drop i)) := by rw [hrv]
      _ = _ := by ring
  · -- the accumulator is full: no carry, the sum is taken modulo 2^(L-i)
    have hmin : min (L - i) x.length = L - i := by omega
    rw [hmin] at hrl hrv hreslen
    have hdrop_small : val (result.drop i) < 2 ^ (L - i) := by
      refine Nat.lt_of_lt_of_le hdlt (Nat.pow_le_pow_right (by omega) ?_)
      rw [hdl, hlen]; unfold accLen; split <;> omega
    rw [Nat.mod_eq_of_lt hdrop_small] at hrv
    rw [if_neg (by rw [hreslen]; omega)]
    refine ⟨by rw [hreslen]; omega, ?_⟩
    rw [val_append, htl, hsplit]
    have hL : 2 ^ L = 2 ^ i * 2 ^ (L - i) := by rw [← Nat.pow_add]; congr 1; omega
    have hX := Nat.div_add_mod (val x) (2 ^ (L - i))
    generalize val x % 2 ^ (L - i) = X' at hrv hX
    generalize val x / 2 ^ (L - i) = q at hX
    rw [← hX, hL]
    generalize 2 ^ (L - i) = M at *
    generalize 2 ^ i = P at *
    have key : val (result.take i) + P * val (result.drop i) + P * (yb.toNat * (M * q + X'))
        = (val (result.take i) + P * val r.1) + (P * M) * (r.2.toNat + yb.toNat * q) := by
      calc val (result.take i) + P * val (result.drop i) + P * (yb.toNat * (M * q + X'))
          = val (result.take i) + P * (yb.toNat * X' + val (result.drop i)) + P * M * (yb.toNat * q) := by ring
        _ = val (result.take i) + P * (val r.1 + M * r.2.toNat) + P * M * (yb.toNat * q) := by rw [hrv]
        _ = _ := by ring
    rw [key, Nat.add_mul_mod_self_left]

/-! ### the loop -/

theorem mulLoop_value (p : Path) (x : List Bool) (L : Nat) (hn : 1 ≤ x.length) (hnL : x.length < L) :
    ∀ (ys pre result : List Bool), pre.length + ys.length = L → 1 ≤ pre.length →
      result.length = accLen x.length L pre.length →
      val result = (val x * val pre) % 2 ^ L →
      (mulLoop plainAlg p x L pre.length ys result).length = L ∧
      val (mulLoop plainAlg p x L pre.length ys result) = (val x * val (pre ++ ys)) % 2 ^ L := by
  intro ys
  induction ys with
  | nil =>
    intro pre result hL h1 hlen hval
    simp only [List.length_nil, Nat.add_zero] at hL
    simp only [mulLoop, List.append_nil]
    refine ⟨?_, hval⟩
    rw [hlen]; unfold accLen; split <;> omega
  | cons yb ys ih =>
    intro pre result hL h1 hlen hval
    simp only [List.length_cons] at hL
    obtain ⟨hsl, hsv⟩ := mulStep_value p x L result pre.length yb hn hnL h1 (by omega) hlen
    have := ih (pre ++ [yb]) (mulStep plainAlg p x L result pre.length yb)
      (by simp; omega) (by simp)
      (by rw [hsl]; unfold accLen; simp only [List.length_append, List.length_singleton]
          rw [if_neg (by omega)])
      (by
        have hlt : val (mulStep plainAlg p x L result pre.length yb) < 2 ^ L :=
          Nat.lt_of_lt_of_le (val_lt _) (Nat.pow_le_pow_right (by omega) (by rw [hsl]; omega))
        rw [← Nat.mod_eq_of_lt hlt, hsv, hval, val_append]
        have : val [yb] = yb.toNat := by simp [val]
        rw [this, Nat.mod_add_mod]
        congr 1; ring)
    simpa [mulLoop] using this

/-! ### `x` empty: every partial product is empty; the accumulator only collects zero carries -/

def AllFalse (l : List Bool) : Prop := ∀ b ∈ l, b = false

theorem val_allFalse (l : List Bool) (h : AllFalse l) : val l = 0 := by
  induction l with
  | nil => rfl
  | cons b bs ih =>
    have hb := h b List.mem_cons_self
    subst hb
    simp [val, ih (fun c hc => h c (List.mem_cons_of_mem _ hc))]

theorem mulStep_nil (p : Path) (L : Nat) (result : List Bool) (i : Nat) (yb : Bool) (h : AllFalse result) :
    AllFalse (mulStep plainAlg p [] L result i yb) := by
  unfold mulStep
  simp only [List.take_nil, mulRow, integerAdd, additionCircuit, List.append_nil]
  split
  · intro b hb; cases hb
  · split
    · intro b hb
      rcases List.mem_append.mp hb with hb | hb
      · exact h b (List.mem_of_mem_take hb)
      · simp at hb; subst hb; rfl
    · intro b hb; exact h b (List.mem_of_mem_take hb)

theorem mulLoop_nil (p : Path) (L : Nat) : ∀ (ys : List Bool) (i : Nat) (result : List Bool), AllFalse result →
    AllFalse (mulLoop plainAlg p [] L i ys result) := by
  intro ys
  induction ys with
  | nil => intro i r h; simpa [mulLoop] using h
  | cons yb ys ih => intro i r h; simp only [mulLoop]; exact ih _ _ (mulStep_nil p L r i yb h)

/-! ### sign extension -/

/-- two's-complement value of a bit list: `val y − 2^|y|` if the top bit is set. -/
def sval (y : List Bool) : Int := (val y : Int) - (msb y).toNat * 2 ^ y.length

theorem getLastD_eq_msb (y : List Bool) : y.getLastD false = msb y := rfl

theorem val_resizeLast (y : List Bool) (L : Nat) (hL : y.length ≤ L) :
    val (resizeLast y L false) + (msb y).toNat * 2 ^ y.length = val y + (msb y).toNat * 2 ^ L := by
  unfold resizeLast
  rw [List.take_of_length_le hL, val_append, getLastD_eq_msb]
  cases msb y
  · simp [val_replicate_false]
  · have h := val_replicate_true (L - y.length)
    have hp : 2 ^ L = 2 ^ y.length * 2 ^ (L - y.length) := by rw [← Nat.pow_add]; congr 1; omega
    simp only [Bool.toNat_true, Nat.one_mul]
    rw [hp]
    generalize val (List.replicate (L - y.length) true) = v at h
    rw [← h]; ring

theorem resizeLast_length (y : List Bool) (L : Nat) (hL : y.length ≤ L) : (resizeLast y L false).length = L := by
  unfold resizeLast
  simp [List.take_of_length_le hL]; omega

/-! ### the theorems -/

/-- **mul_value** — `integer_mul`, every `n = |x|`, `m = |y| ≥ 1`: the result is the product of the unsigned `x`
with the sign-extended `y`, modulo `2^(n+m)`; it has `n + m` bits whenever `x` is non-empty. -/
theorem mul_value (p : Path) (x y : List Bool) (hy : y ≠ []) :
    ∃ r, integerMul plainAlg p x y = some r ∧
      val r = (val x * val (resizeLast y (x.length + y.length) false)) % 2 ^ (x.length + y.length) ∧
      (1 ≤ x.length → r.length = x.length + y.length) := by
  have hm : 1 ≤ y.length := by cases y with | nil => exact absurd rfl hy | cons _ _ => simp
  unfold integerMul
  rw [if_neg (by cases y <;> simp_all)]
  simp only [show plainAlg.zero = false from rfl]
  refine ⟨_, rfl, ?_⟩
  have hyl := resizeLast_length y (x.length + y.length) (by omega)
  generalize resizeLast y (x.length + y.length) false = y' at hyl ⊢
  generalize hLdef : x.length + y.length = L at *
  cases y' with
  | nil => simp at hyl; omega
  | cons yb ys =>
    by_cases hn : 1 ≤ x.length
    · have h0 : mulStep plainAlg p x L [] 0 yb = x.map (fun xb => yb && xb) := by
        unfold mulStep
        simp only [if_true, Nat.sub_zero, mulRow_plain, List.take_of_length_le (show x.length ≤ L by omega)]
      have := mulLoop_value p x L hn (by omega) ys [yb] (x.map (fun xb => yb && xb))
        (by simpa [Nat.add_comm] using hyl) (by simp) (by simp [accLen])
        (by
          rw [val_map_and]
          have : val [yb] = yb.toNat := by simp [val]
          rw [this, Nat.mul_comm]
          refine (Nat.mod_eq_of_lt ?_).symm
          have hx := val_lt x
          have hb := Bool.toNat_le yb
          have hp : 2 ^ x.length ≤ 2 ^ L := Nat.pow_le_pow_right (by omega) (by omega)
          have : val x * yb.toNat ≤ val x * 1 := Nat.mul_le_mul_left _ hb
          omega)
      simp only [mulLoop, h0]
      simp only [List.length_singleton, List.singleton_append] at this
      exact ⟨this.2, fun _ => this.1⟩
    · have hx : x = [] := by cases x with | nil => rfl | cons _ _ => simp at hn
      subst hx
      refine ⟨?_, fun h => absurd h hn⟩
      have := mulLoop_nil p L (yb :: ys) 0 [] (fun b hb => by cases hb)
      rw [val_allFalse _ this]; simp [val]

/-- **mul_value_unsigned** — documented use with an unsigned `y` (top bit clear): exactly `val x · val y`. -/
theorem mul_value_unsigned (p : Path) (x y : List Bool) (hy : y ≠ []) (hmsb : msb y = false) :
    ∃ r, integerMul plainAlg p x y = some r ∧ val r = val x * val y := by
  obtain ⟨r, hr, hv, _⟩ := mul_value p x y hy
  refine ⟨r, hr, ?_⟩
  have h := val_resizeLast y (x.length + y.length) (by omega)
  simp only [hmsb, Bool.toNat_false, Nat.zero_mul, Nat.add_zero] at h
  rw [hv, h]
  refine Nat.mod_eq_of_lt ?_
  rw [Nat.pow_add]
  exact Nat.mul_lt_mul'' (val_lt x) (val_lt y)

example : msb [true, true, false] = false ∧ [true, true, false] ≠ [] := by decide

/-- **mul_value_signed** — `y` in two's complement: the `(n+m)`-bit result is `val x · sval y` modulo `2^(n+m)`. -/
theorem mul_value_signed (p : Path) (x y : List Bool) (hy : y ≠ []) :
    ∃ r, integerMul plainAlg p x y = some r ∧
      (val r : Int) = ((val x : Int) * sval y) % (2 : Int) ^ (x.length + y.length) := by
  obtain ⟨r, hr, hv, _⟩ := mul_value p x y hy
  refine ⟨r, hr, ?_⟩
  have h := val_resizeLast y (x.length + y.length) (by omega)
  rw [hv]
  have hz : ((val (resizeLast y (x.length + y.length) false) : Nat) : Int)
      = sval y + (msb y).toNat * (2 : Int) ^ (x.length + y.length) := by
    unfold sval
    have : ((val (resizeLast y (x.length + y.length) false) + (msb y).toNat * 2 ^ y.length : Nat) : Int)
        = ((val y + (msb y).toNat * 2 ^ (x.length + y.length) : Nat) : Int) := by rw [h]
    push_cast at this
    omega
  push_cast
  rw [hz, Int.mul_add, ← Int.mul_assoc, Int.add_mul_emod_self_right]

example : sval [true, true] = -1 ∧ sval [true, false] = 1 := by decide

/-- the top bit of a non-empty little-endian list is set iff its value is at least `2^(m−1)`. -/
theorem msb_iff (y : List Bool) (hy : y ≠ []) : msb y = decide (2 ^ (y.length - 1) ≤ val y) := by
  induction y with
  | nil => exact absurd rfl hy
  | cons b bs ih =>
    cases bs with
    | nil => cases b <;> simp [msb, val]
    | cons c cs =>
      have h := ih (by simp)
      have hm : msb (b :: c :: cs) = msb (c :: cs) := by simp [msb, List.getLastD]
      rw [hm, h]
      have hb := Bool.toNat_le b
      simp only [List.length_cons, Nat.add_sub_cancel, val, Nat.pow_succ]
      generalize 2 ^ cs.length = P
      generalize val cs = v
      generalize c.toNat = cn
      generalize b.toNat = bn at hb
      rcases (by omega : bn = 0 ∨ bn = 1) with h | h <;> subst h <;> simp <;> omega

/-- **mul_value_spec** — the statement in the form the correspondence oracle evaluates (`Driver.C07.specLane`):
`y` is read as an `m`-bit two's-complement number, sign-extended to `n + m` bits. -/
theorem mul_value_spec (p : Path) (x y : List Bool) (hy : y ≠ []) :
    ∃ r, integerMul plainAlg p x y = some r ∧
      val r = (val x * (if 2 ^ (y.length - 1) ≤ val y then val y + (2 ^ (x.length + y.length) - 2 ^ y.length) else val y))
        % 2 ^ (x.length + y.length) := by
  obtain ⟨r, hr, hv, _⟩ := mul_value p x y hy
  refine ⟨r, hr, ?_⟩
  have h := val_resizeLast y (x.length + y.length) (by omega)
  have hp : 2 ^ y.length ≤ 2 ^ (x.length + y.length) := Nat.pow_le_pow_right (by omega) (by omega)
  rw [hv]
  congr 2
  rw [msb_iff y hy] at h
  split
  · next hc => simp only [hc, decide_true, Bool.toNat_true, Nat.one_mul] at h; omega
  · next hc => simp only [hc, decide_false, Bool.toNat_false, Nat.zero_mul, Nat.add_zero] at h; exact h

/-- **mul_shares_value** — composition with the lifting lemma `mul_shares`: on consistent replicated sharings, for
ALL PRSS masks and all lengths, `integer_mul` returns consistent sharings that reconstruct to the product. -/
theorem mul_shares_value (ρ : Path → Masks Bool) (p : Path) (x y : List (World Bool)) (hx : AllC x) (hy : AllC y)
    (hne : y ≠ []) :
    ∃ r, integerMul (shareAlg ρ) p x y = some r ∧ AllC r ∧
      val (r.map recB) = (val (x.map recB) * val (resizeLast (y.map recB) (x.length + y.length) false))
        % 2 ^ (x.length + y.length) := by
  obtain ⟨hc, hrec⟩ := mul_shares ρ p x y hx hy
  obtain ⟨r', hr', hv, _⟩ := mul_value p (x.map recB) (y.map recB) (by simpa using hne)
  rw [hr'] at hrec
  cases hm : integerMul (shareAlg ρ) p x y with
  | none => rw [hm] at hrec; cases hrec
  | some r =>
    rw [hm] at hrec
    simp only [Option.map_some, Option.some.injEq] at hrec
    refine ⟨r, rfl, hc r hm, ?_⟩
    rw [hrec, hv]; simp

/-- The tester's mutant (carry appended while `i < x.len()` instead of `result.len() < new_len`): for `x = 3`
(2 bits) and the unsigned `y = 0b0110 = 6` (4 bits) the real loop returns 18, the mutated loop a different value
(the carry out of bit position 3 is lost). -/
def mulStepMutant (A : SecureAlg Bool) (p : Path) (x : List Bool) (newLen : Nat) (result : List Bool) (i : Nat) (yb : Bool) : List Bool :=
  let pi := p ++ [i]
  let t := mulRow A pi yb 0 (x.take (newLen - i))
  if i = 0 then t else
    let r := integerAdd A (pi ++ [stepAdd]) t (result.drop i)
    let res := result.take i ++ r.1
    if i < x.length then res ++ [r.2] else res

def mulLoopMutant (p : Path) (x : List Bool) (newLen : Nat) : Nat → List Bool → List Bool → List Bool
  | _, [], result => result
  | i, yb :: ys, result => mulLoopMutant p x newLen (i + 1) ys (mulStepMutant plainAlg p x newLen result i yb)

theorem mul_guard_mutant_counterexample :
    (integerMul plainAlg [] [true, true] [false, true, true, false]).map val = some 18 ∧
    val (mulLoopMutant [] [true, true] 6 0 (resizeLast [false, true, true, false] 6 false) []) ≠ 18 := by decide

end IpaVerif.C07
