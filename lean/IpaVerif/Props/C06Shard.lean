import IpaVerif.Model.CrossShard
/-!
# C06 — all shards of one helper hold the leader's cross-shard stream, under every fault pattern

`gen_and_distribute` per shard (`Model/CrossShard.lean`). The theorems quantify over every shard count, every
assignment of per-shard seeds (`own`), and every fault pattern of the leader's seed channels (`deliver`): a
shard that comes out `Ok` holds exactly the leader's pair; a shard the record did not reach comes out
`EndOfStream`. The last theorem shows by `decide` what the fallback variant (`None => prss.generate(..)`) does.
-/
namespace IpaVerif.C06Shard
open IpaVerif.CrossShard

/-- **follower_arm_ok** (regenerated from `gen_and_distribute` on every run, plugin `c06_xshard`): the follower
arm is `try_next().await?.ok_or_else(EndOfStream)?` + `from_seeds(..).setup()` and never mentions `prss`. -/
theorem follower_arm_ok :
    IpaVerif.Generated.CrossShard.followerErrOnEmpty = true ∧
    IpaVerif.Generated.CrossShard.followerNeverGenerates = true ∧
    IpaVerif.Generated.CrossShard.recognised = true := by decide

/-- the code's follower arm is the strict one -/
theorem code_follower_strict {Seed : Type} : @codeFollower Seed = followerStrict := by
  unfold codeFollower
  simp [follower_arm_ok.1, follower_arm_ok.2.1]

/-- every `Ok` shard holds the LEADER's pair — any shard count, any per-shard seeds, any fault pattern -/
theorem ok_is_leaders {Seed : Type} (own : Nat → Seed) (deliver : Nat → Bool) (j : Nat) (s : Seed)
    (h : shardOutcome own deliver j = .ok s) : s = own 0 := by
  unfold shardOutcome shardOutcomeWith genAndDistributeWith at h
  rw [code_follower_strict] at h
  cases hj : (j == 0) <;> simp [hj] at h
  · cases hd : deliver j <;> simp [hd, followerStrict] at h
    exact h.symm
  · have : j = 0 := by simpa using hj
    subst this
    exact h.symm

/-- **cross_shard_identical**: any two shards of a helper that return `Ok` derive the same endpoint (same seed
pair, hence the same stream for every gate and index), for EVERY fault pattern of the leader's channels. -/
theorem cross_shard_identical {Seed : Type} (own : Nat → Seed) (deliver : Nat → Bool) (j k : Nat) (a b : Seed)
    (hj : shardOutcome own deliver j = .ok a) (hk : shardOutcome own deliver k = .ok b) : a = b := by
  rw [ok_is_leaders own deliver j a hj, ok_is_leaders own deliver k b hk]

/-- a follower the record did not reach FAILS (it never continues on seeds of its own) -/
theorem no_record_fails {Seed : Type} (own : Nat → Seed) (deliver : Nat → Bool) (j : Nat)
    (hj : j ≠ 0) (hd : deliver j = false) : shardOutcome own deliver j = .endOfStream := by
  unfold shardOutcome shardOutcomeWith genAndDistributeWith
  rw [code_follower_strict]
  have : (j == 0) = false := by simpa using hj
  simp [this, hd, followerStrict]

/-- a shard the record reached, and the leader itself, succeed with the leader's pair (no spurious failure) -/
theorem record_succeeds {Seed : Type} (own : Nat → Seed) (deliver : Nat → Bool) (j : Nat)
    (h : j = 0 ∨ deliver j = true) : shardOutcome own deliver j = .ok (own 0) := by
  unfold shardOutcome shardOutcomeWith genAndDistributeWith
  rw [code_follower_strict]
  cases hj : (j == 0)
  · have hne : j ≠ 0 := by simpa using hj
    rcases h with h | h
    · exact absurd h hne
    · simp [h, followerStrict]
  · have : j = 0 := by simpa using hj
    subst this; simp

/-- **cross_shard_matches_neighbours**: three helpers, each with its own fault pattern; the leaders' pairs are
neighbour-consistent (the leader draws them from shard 0's per-shard PRSS: theorem `C06.pairwise_agreement`).
Then ANY `Ok` shard of helper i and ANY `Ok` shard of helper i+1 — not necessarily the same shard index — agree:
right seed of the one = left seed of the other. -/
theorem cross_shard_matches_neighbours {S : Type} (own : Fin 3 → Nat → S × S) (deliver : Fin 3 → Nat → Bool)
    (hlead : ∀ i, (own i 0).2 = (own (i + 1) 0).1) (i : Fin 3) (j k : Nat) (a b : S × S)
    (hj : shardOutcome (own i) (deliver i) j = .ok a) (hk : shardOutcome (own (i + 1)) (deliver (i + 1)) k = .ok b) :
    a.2 = b.1 := by
  rw [ok_is_leaders _ _ j a hj, ok_is_leaders _ _ k b hk]
  exact hlead i

/-- the hypotheses are satisfiable with pairwise different per-shard seeds: helper i, shard j owns
`(10 i + j, 10 (i+1 mod 3) + j)` -/
example : ∀ i : Fin 3, ((fun (i : Fin 3) (j : Nat) => (10 * i.val + j, 10 * ((i + 1 : Fin 3)).val + j)) i 0).2
    = ((fun (i : Fin 3) (j : Nat) => (10 * i.val + j, 10 * ((i + 1 : Fin 3)).val + j)) (i + 1) 0).1 := by decide

example : shardOutcome (fun j => 10 + j) (fun j => j != 2) 2 = .endOfStream := by decide
example : shardOutcome (fun j => 10 + j) (fun j => j != 2) 1 = .ok 10 := by decide

/-- **fallback_counterexample** (`decide`): with `None => prss.generate(RecordId::FIRST)` in the follower arm,
three shards with own seeds 10, 11, 12 whose leader closed its channels without sending all come out `Ok` — with
three different streams (and a leader that reached shard 1 only leaves shard 2 on a stream of its own); the code
gives one stream and `EndOfStream` on the shards the record did not reach. Fault-free, the two are identical. -/
theorem fallback_counterexample :
    (List.range 3).map (shardOutcomeWith followerFallback (fun j => 10 + j) (fun _ => false))
      = [.ok 10, .ok 11, .ok 12] ∧
    distinctOk ((List.range 3).map (shardOutcomeWith followerFallback (fun j => 10 + j) (fun _ => false))) = 3 ∧
    (List.range 3).map (shardOutcomeWith followerFallback (fun j => 10 + j) (fun j => j == 1))
      = [.ok 10, .ok 10, .ok 12] ∧
    (List.range 3).map (shardOutcome (fun j => 10 + j) (fun _ => false))
      = [.ok 10, .endOfStream, .endOfStream] ∧
    distinctOk ((List.range 3).map (shardOutcome (fun j => 10 + j) (fun j => j == 1))) = 1 ∧
    (List.range 3).map (shardOutcomeWith followerFallback (fun j => 10 + j) (fun _ => true))
      = (List.range 3).map (shardOutcome (fun j => 10 + j) (fun _ => true)) := by
  decide

end IpaVerif.C06Shard
