import IpaVerif.Props.C16
import IpaVerif.Model.BatcherAtomic
import IpaVerif.Proofs.BatcherAccept
/-!
# C16 — one validator, many threads calling `validate_record`: exactly one of them validates each batch

The synchronous part of `validate_record` runs under ONE acquisition of the batcher mutex (`Model/BatcherAtomic.lean`, tied
to the sources by `Generated/BatcherAtomic.lean`, items `batcher.atomic.*`). For every number of calls, all records and EVERY
interleaving of their atomic steps:

* `run_is_history` — the interleaved execution is a sequential history of the batcher model of `Props/C16.lean` (so
  `release_after_whole_batch`, `misuse_is_loud`, … speak about the concurrent execution too);
* `at_most_one_validator` — no batch is answered `Ready::Yes` (taken out and handed to the validation closure) twice,
  whatever the calls are (legitimate or not);
* `exactly_one_validator` — … and with pairwise different records below the total, a batch all of whose records are asked for
  by calls scheduled at least once is answered `Ready::Yes` EXACTLY once. Acceptance of every such call is derived from the
  model (`Batcher.validate_accepts`, `Proofs/BatcherAccept.lean`; invariant `Legit` of the interleaved run);
  `exactly_one_validator_partial` is the step with acceptance as a hypothesis, kept as a lemma under its old name.
* `code_validate_is_atomic` — the generated constants select the atomic step;
* `split_two_validators` (`decide`) — check-then-act (note the request under one guard, compare the count under another): with
  two callers of a two-record batch scheduled note₀ note₁ decide₀ decide₁ BOTH see "ready"; atomic: exactly one; back to back
  the split variant also answers exactly one — single-threaded suites (`c16_batcher`: all permutations) cannot tell, suite
  `c16_race` uses real OS threads.
-/
namespace IpaVerif.C16Race
open IpaVerif.Batcher IpaVerif.BatcherAtomic IpaVerif.C16

/-- the calls that take effect, in the order in which they do -/
def eff (k : Nat) : List Nat → List Nat → List Nat
  | _, [] => []
  | done, c :: rest => if done.contains c || k ≤ c then eff k done rest else c :: eff k (c :: done) rest

/-- ghost of an interleaved state: accepted records and `Ready::Yes` batches, as `Proofs/BatcherTrace.lean` keeps them -/
def ghostOf (recOf : Nat → Nat) (g0 : Ghost) (t : TState) : Ghost :=
  ⟨accepted recOf t.outs ++ g0.acc, readyLog t.outs ++ g0.closed⟩

theorem ghost_step (recOf : Nat → Nat) (g0 : Ghost) (t : TState) (c : Nat) :
    ghostOf recOf g0 (⟨(validateRecord t.s (recOf c)).1, c :: t.done, (c, (validateRecord t.s (recOf c)).2) :: t.outs⟩ : TState) =
      ghostStep (ghostOf recOf g0 t) (.validate (recOf c)) (stepOp t.s (.validate (recOf c))).2 := by
  simp only [ghostOf, stepOp]
  cases h : (validateRecord t.s (recOf c)).2 <;> simp [accepted, readyLog, ghostStep]

/-- **run_is_history.** Every interleaving of atomic `validate_record` steps is the sequential history
`validate (recOf c₁), validate (recOf c₂), …` of the calls in the order in which they took effect. -/
theorem run_is_history (k : Nat) (recOf : Nat → Nat) (g0 : Ghost) : ∀ (sched : List Nat) (t : TState),
    ((run (atomicStep k recOf) t sched).s, ghostOf recOf g0 (run (atomicStep k recOf) t sched)) =
      execG t.s (ghostOf recOf g0 t) ((eff k t.done sched).map fun c => Op.validate (recOf c)) := by
  intro sched
  induction sched with
  | nil => intro t; simp [run, eff, execG]
  | cons c rest ih =>
    intro t
    by_cases hc : (t.done.contains c || decide (k ≤ c)) = true
    · have he : eff k t.done (c :: rest) = eff k t.done rest := by simp only [eff, hc, if_true]
      have hs : atomicStep k recOf t c = t := by simp only [atomicStep, hc, if_true]
      have := ih t
      simp only [run, List.foldl_cons, hs, he] at this ⊢
      exact this
    · have he : eff k t.done (c :: rest) = c :: eff k (c :: t.done) rest := by simp only [eff, hc]; rfl
      have hs : atomicStep k recOf t c = (⟨(validateRecord t.s (recOf c)).1, c :: t.done, (c, (validateRecord t.s (recOf c)).2) :: t.outs⟩ : TState) := by simp only [atomicStep, hc]; rfl
      have := ih (⟨(validateRecord t.s (recOf c)).1, c :: t.done, (c, (validateRecord t.s (recOf c)).2) :: t.outs⟩ : TState)
      simp only [run, List.foldl_cons, hs, he, List.map_cons, execG] at this ⊢
      rw [this, ghost_step]
      rfl

/-- `Ready::Yes` batches stay duplicate-free along every history -/
theorem closed_nodup {n : Nat} : ∀ (ops : List Op) (s : State) (g : Ghost), Inv n s g → TotalsAgree n ops → g.closed.Nodup →
    (execG s g ops).2.closed.Nodup := by
  intro ops
  induction ops with
  | nil => intro s g _ _ h; exact h
  | cons op rest ih =>
    intro s g hI ht hn
    simp only [execG]
    have ht1 : ∀ t m, op = .setTotal t → t = .specified m → m = n := fun t m e => ht t m (by rw [e]; exact List.mem_cons_self)
    have ht2 : TotalsAgree n rest := fun t m h => ht t m (List.mem_cons_of_mem _ h)
    refine ih _ _ (inv_stepOp hI op ht1) ht2 ?_
    cases op with
    | get r x => exact hn
    | setTotal t => simp only [stepOp]; split <;> exact hn
    | validate r =>
      simp only [stepOp]
      have hs := validate_step hI r
      generalize hres : validateRecord s r = res at hs
      obtain ⟨s', o⟩ := res
      cases o with
      | err e => exact hn
      | panic p => exact hn
      | notReady b => exact hn
      | ready b st => exact List.nodup_cons.mpr ⟨hs.2.2.2.1, hn⟩

theorem totals_validate (n : Nat) (l : List Nat) (f : Nat → Nat) : TotalsAgree n (l.map fun c => Op.validate (f c)) := by
  intro t m h
  obtain ⟨c, _, e⟩ := List.mem_map.mp h
  cases e

/-- **at_most_one_validator.** A batcher for batches of `rpb > 0` records created with total `n` (or without a total), ANY
calls `validate_record(recOf c)` (legitimate or not: repeated records, records beyond the total, …) and EVERY schedule of their
atomic steps: no batch is answered `Ready::Yes` twice — at most one caller takes the batch out and runs the validation closure. -/
theorem at_most_one_validator (n rpb : Nat) (t0 : Total) (tps : Nat) (hp : 0 < rpb)
    (ht0 : t0 = .specified n ∨ t0 = .indeterminate ∨ t0 = .unspecified)
    (k : Nat) (recOf : Nat → Nat) (sched : List Nat) :
    (readyLog (run (atomicStep k recOf) (init (State.new rpb t0 tps)) sched).outs).Nodup := by
  have h := run_is_history k recOf {} sched (init (State.new rpb t0 tps))
  have hI := inv_new n rpb tps hp t0 ht0
  have hg : ghostOf recOf {} (init (State.new rpb t0 tps)) = {} := by simp [ghostOf, init, accepted, readyLog]
  rw [hg] at h
  have hn := closed_nodup (n := n) _ _ _ hI (totals_validate n (eff k [] sched) recOf) (by simp)
  rw [show (init (State.new rpb t0 tps)).s = State.new rpb t0 tps from rfl, show (init (State.new rpb t0 tps)).done = [] from rfl] at h
  rw [← h] at hn
  simpa [ghostOf] using hn

/- Full statement: `exactly_one_validator` further down (total `n` specified, the calls `c < k` ask for pairwise different
records `recOf c < n`, every record `< n` of batch `b` is asked for by some call scheduled at least once ⟹ exactly one call is
answered `Ready::Yes` for `b`). The step below takes acceptance as the hypothesis `hacc`; `validate_accepts` discharges it. -/

/-- **exactly_one_validator_partial.** Setting as in `at_most_one_validator`, total `n`; batch `b` exists; every record
`< n` of `b` is the record of some call that took effect and was accepted (`hacc`): then `b` was answered `Ready::Yes`
EXACTLY once. -/
theorem exactly_one_validator_partial (n rpb : Nat) (t0 : Total) (tps : Nat) (hp : 0 < rpb)
    (ht0 : t0 = .specified n ∨ t0 = .indeterminate ∨ t0 = .unspecified)
    (k : Nat) (recOf : Nat → Nat) (sched : List Nat) (b : Nat) (hb : b * rpb < n)
    (hacc : ∀ r, r < n → r / rpb = b →
      r ∈ accepted recOf (run (atomicStep k recOf) (init (State.new rpb t0 tps)) sched).outs) :
    (readyLog (run (atomicStep k recOf) (init (State.new rpb t0 tps)) sched).outs).count b = 1 := by
  have hnd := at_most_one_validator n rpb t0 tps hp ht0 k recOf sched
  have h := run_is_history k recOf {} sched (init (State.new rpb t0 tps))
  have hg : ghostOf recOf {} (init (State.new rpb t0 tps)) = {} := by simp [ghostOf, init, accepted, readyLog]
  rw [hg] at h
  rw [show (init (State.new rpb t0 tps)).s = State.new rpb t0 tps from rfl, show (init (State.new rpb t0 tps)).done = [] from rfl] at h
  have hset : Setting n rpb t0 ((eff k [] sched).map fun c => Op.validate (recOf c)) :=
    ⟨hp, ht0, totals_validate n _ recOf⟩
  have hex := (each_batch_ready_exactly_once (tps := tps) hset).2.1 b hb
  unfold reach at hex
  rw [← h] at hex
  have hmem : b ∈ readyLog (run (atomicStep k recOf) (init (State.new rpb t0 tps)) sched).outs := by
    have := hex (fun r hr hrb => by simpa [ghostOf] using hacc r hr hrb)
    simpa [ghostOf] using this
  have h1 := List.nodup_iff_count.mp hnd b
  have h2 := List.count_pos_iff.mpr hmem
  omega

/-! ### the full statement: `hacc` derived (`Proofs/BatcherAccept.lean`: `validate_accepts`) -/

/-- invariant of an interleaved run all of whose calls are legitimate (distinct records below the total) -/
structure Legit (n rpb k : Nat) (recOf : Nat → Nat) (t : TState) : Prop where
  inv : Inv n t.s (ghostOf recOf {} t)
  tot : t.s.total = .specified n
  rpb : t.s.rpb = rpb
  done_lt : ∀ c, c ∈ t.done → c < k
  acc_done : ∀ r, r ∈ accepted recOf t.outs → ∃ c, c ∈ t.done ∧ recOf c = r
  done_acc : ∀ c, c ∈ t.done → recOf c ∈ accepted recOf t.outs
  all_acc : ∀ p, p ∈ t.outs → p.2.isAccepted = true

theorem accepted_cons (recOf : Nat → Nat) (c : Nat) (o : VOut) (outs : List (Nat × VOut)) (h : o.isAccepted = true) :
    accepted recOf ((c, o) :: outs) = recOf c :: accepted recOf outs := by
  cases o <;> simp_all [accepted, VOut.isAccepted]

theorem legit_step {n rpb k : Nat} {recOf : Nat → Nat} (hlt : ∀ c, c < k → recOf c < n)
    (hinj : ∀ c c', c < k → c' < k → recOf c = recOf c' → c = c') {t : TState} (hL : Legit n rpb k recOf t) (c : Nat) :
    Legit n rpb k recOf (atomicStep k recOf t c) := by
  by_cases hc : (t.done.contains c || decide (k ≤ c)) = true
  · have hs : atomicStep k recOf t c = t := by simp only [atomicStep, hc, if_true]
    rw [hs]; exact hL
  · have hs : atomicStep k recOf t c = (⟨(validateRecord t.s (recOf c)).1, c :: t.done, (c, (validateRecord t.s (recOf c)).2) :: t.outs⟩ : TState) := by
      simp only [atomicStep, hc]; rfl
    rw [hs]
    have hcd : c ∉ t.done ∧ c < k := by
      simp only [Bool.or_eq_true, List.contains_iff_mem, decide_eq_true_eq, not_or] at hc
      exact ⟨hc.1, by omega⟩
    have hp := hL.inv.rpb_pos
    have hacc' : (ghostOf recOf {} t).acc = accepted recOf t.outs := by simp [ghostOf]
    have hna : recOf c ∉ (ghostOf recOf {} t).acc := by
      rw [hacc']
      intro hm
      obtain ⟨c', hc', e⟩ := hL.acc_done _ hm
      have := hinj c' c (hL.done_lt c' hc') hcd.2 e
      subst this
      exact hcd.1 hc'
    have hrn := hlt c hcd.2
    have hnc : recOf c / t.s.rpb ∉ (ghostOf recOf {} t).closed := by
      intro hm
      obtain ⟨_, hall⟩ := hL.inv.closed_all _ hm
      have h1 : recOf c / t.s.rpb * t.s.rpb + recOf c % t.s.rpb = recOf c := Nat.div_add_mod' _ _
      have h2 : recOf c % t.s.rpb < t.s.rpb := Nat.mod_lt _ hp
      have := hall (recOf c % t.s.rpb) (by unfold tcOf; omega)
      rw [h1] at this
      exact hna this
    have ha := validate_accepts hL.inv hL.tot (recOf c) hrn hna hnc
    refine ⟨?_, ?_, ?_, ?_, ?_, ?_, ?_⟩
    rotate_right
    · intro p hp'
      rcases List.mem_cons.1 hp' with h | h
      · subst h; exact ha
      · exact hL.all_acc p h
    · rw [ghost_step]
      exact inv_stepOp hL.inv (.validate (recOf c)) (fun t m e => by cases e)
    · show (validateRecord t.s (recOf c)).1.total = _
      rw [validateRecord_total]; exact hL.tot
    · show (validateRecord t.s (recOf c)).1.rpb = _
      rw [validateRecord_rpb]; exact hL.rpb
    · intro c' hc'
      rcases List.mem_cons.1 hc' with h | h
      · subst h; exact hcd.2
      · exact hL.done_lt c' h
    · intro r hr
      show ∃ c', c' ∈ c :: t.done ∧ recOf c' = r
      rw [show accepted recOf ((c, (validateRecord t.s (recOf c)).2) :: t.outs) = _ from accepted_cons recOf c _ t.outs ha] at hr
      rcases List.mem_cons.1 hr with h | h
      · exact ⟨c, List.mem_cons_self, h.symm⟩
      · obtain ⟨c', h1, h2⟩ := hL.acc_done r h
        exact ⟨c', List.mem_cons_of_mem _ h1, h2⟩
    · intro c' hc'
      show recOf c' ∈ accepted recOf ((c, (validateRecord t.s (recOf c)).2) :: t.outs)
      rw [accepted_cons recOf c _ t.outs ha]
      rcases List.mem_cons.1 hc' with h | h
      · subst h; exact List.mem_cons_self
      · exact List.mem_cons_of_mem _ (hL.done_acc c' h)

theorem legit_run {n rpb k : Nat} {recOf : Nat → Nat} (hlt : ∀ c, c < k → recOf c < n)
    (hinj : ∀ c c', c < k → c' < k → recOf c = recOf c' → c = c') : ∀ (sched : List Nat) (t : TState),
    Legit n rpb k recOf t → Legit n rpb k recOf (run (atomicStep k recOf) t sched) := by
  intro sched
  induction sched with
  | nil => intro t h; exact h
  | cons c rest ih => intro t h; exact ih _ (legit_step hlt hinj h c)

theorem done_mono (k : Nat) (recOf : Nat → Nat) : ∀ (sched : List Nat) (t : TState) (c : Nat),
    c ∈ t.done → c ∈ (run (atomicStep k recOf) t sched).done := by
  intro sched
  induction sched with
  | nil => intro t c h; exact h
  | cons d rest ih =>
    intro t c h
    refine ih _ c ?_
    unfold atomicStep
    split
    · exact h
    · exact List.mem_cons_of_mem _ h

/-- a call that is scheduled at least once has taken effect at the end -/
theorem scheduled_done (k : Nat) (recOf : Nat → Nat) : ∀ (sched : List Nat) (t : TState) (c : Nat),
    c ∈ sched → c < k → c ∈ (run (atomicStep k recOf) t sched).done := by
  intro sched
  induction sched with
  | nil => intro t c h; cases h
  | cons d rest ih =>
    intro t c h hk
    rcases List.mem_cons.1 h with e | e
    · subst e
      refine done_mono k recOf rest _ c ?_
      unfold atomicStep
      split
      · rename_i hc
        simp only [Bool.or_eq_true, List.contains_iff_mem, decide_eq_true_eq] at hc
        rcases hc with hc | hc
        · exact hc
        · omega
      · exact List.mem_cons_self
    · exact ih _ c e hk

/-- **exactly_one_validator** (full statement). A batcher for batches of `rpb > 0` records with total `n`; `k` concurrent
calls `validate_record(recOf c)` for pairwise different records below the total; EVERY schedule of their atomic steps in which,
for batch `b`, every record of `b` is asked for by a call that is scheduled at least once: batch `b` is answered
`Ready::Yes` — taken out and handed to the validation closure — by EXACTLY one caller. Nothing about acceptance is assumed. -/
theorem exactly_one_validator (n rpb tps : Nat) (hp : 0 < rpb) (k : Nat) (recOf : Nat → Nat) (sched : List Nat)
    (hlt : ∀ c, c < k → recOf c < n)
    (hinj : ∀ c c', c < k → c' < k → recOf c = recOf c' → c = c')
    (b : Nat) (hb : b * rpb < n)
    (hall : ∀ r, r < n → r / rpb = b → ∃ c, c < k ∧ recOf c = r ∧ c ∈ sched) :
    (readyLog (run (atomicStep k recOf) (init (State.new rpb (.specified n) tps)) sched).outs).count b = 1 := by
  refine exactly_one_validator_partial n rpb (.specified n) tps hp (Or.inl rfl) k recOf sched b hb ?_
  intro r hr hrb
  obtain ⟨c, hck, hcr, hcs⟩ := hall r hr hrb
  have hg : ghostOf recOf {} (init (State.new rpb (.specified n) tps)) = {} := by simp [ghostOf, init, accepted, readyLog]
  have hL0 : Legit n rpb k recOf (init (State.new rpb (.specified n) tps)) :=
    ⟨by rw [hg]; exact inv_new n rpb tps hp _ (Or.inl rfl), rfl, rfl, (by intro c h; cases h),
     (by intro r h; simp [init, accepted] at h), (by intro c h; cases h), (by intro p h; cases h)⟩
  have hL := legit_run hlt hinj sched _ hL0
  have := hL.done_acc c (scheduled_done k recOf sched _ c hcs hck)
  rw [hcr] at this
  exact this

/-- **legit_calls_never_refused.** Same setting (total `n`, `k` calls for pairwise different records below `n`), EVERY
schedule: no call is answered with a panic (`already validated`, `called twice`, `exceeds`, `expected batch`) or an error —
each call that took effect was answered `Ready::No` or `Ready::Yes`. -/
theorem legit_calls_never_refused (n rpb tps : Nat) (hp : 0 < rpb) (k : Nat) (recOf : Nat → Nat) (sched : List Nat)
    (hlt : ∀ c, c < k → recOf c < n)
    (hinj : ∀ c c', c < k → c' < k → recOf c = recOf c' → c = c') :
    ∀ p, p ∈ (run (atomicStep k recOf) (init (State.new rpb (.specified n) tps)) sched).outs → p.2.isAccepted = true := by
  have hg : ghostOf recOf {} (init (State.new rpb (.specified n) tps)) = {} := by simp [ghostOf, init, accepted, readyLog]
  have hL0 : Legit n rpb k recOf (init (State.new rpb (.specified n) tps)) :=
    ⟨by rw [hg]; exact inv_new n rpb tps hp _ (Or.inl rfl), rfl, rfl, (by intro c h; cases h),
     (by intro r h; simp [init, accepted] at h), (by intro c h; cases h), (by intro p h; cases h)⟩
  exact (legit_run hlt hinj sched _ hL0).all_acc

/-- non-vacuity of `exactly_one_validator`: 5 records in batches of 2, five calls for the records 3,0,4,1,2, a schedule
with repetitions and a foreign id — all hypotheses hold for every batch. -/
example :
    (∀ c, c < 5 → [3, 0, 4, 1, 2].getD c 9 < 5) ∧
    (∀ c, c < 5 → ∀ c', c' < 5 → [3, 0, 4, 1, 2].getD c 9 = [3, 0, 4, 1, 2].getD c' 9 → c = c') ∧
    (∀ r, r < 5 → ∃ c, c < 5 ∧ [3, 0, 4, 1, 2].getD c 9 = r ∧ c ∈ [4, 0, 0, 7, 2, 1, 3, 4]) := by
  decide

/-- the hypotheses are satisfiable, and on a concrete instance everything is computed: batches of 2, total 5, six call
ids for the records 3,0,4,1,2 (+ a foreign id), scheduled with repetitions: every batch is answered `Ready::Yes` once. -/
example :
    let recOf : Nat → Nat := fun c => [3, 0, 4, 1, 2].getD c 9
    let t := run (atomicStep 5 recOf) (init (State.new 2 (.specified 5) 8192)) [4, 0, 0, 7, 2, 1, 3, 4]
    readyLog t.outs = [0, 2, 1] ∧ accepted recOf t.outs = [1, 0, 4, 3, 2] := by
  decide +kernel

/-- **the code's `validate_record` is the atomic step.** -/
theorem code_validate_is_atomic : codeIsAtomic = true := by decide

/-- **split_two_validators.** One batch of two records, two callers. Check-then-act (note under one guard, compare under
another), schedule note₀ note₁ decide₀ decide₁: BOTH callers see `pending_count == 2` and take the batch (in the code: the
second `pop_front` removes the NEXT batch and validates it before its records asked, or `expect_not_yet_validated` panics).
The atomic step answers exactly one under the same schedule, and so does the split variant run back to back. -/
theorem split_two_validators :
    ((List.foldl (simpleSplit 2) Simple.init [0, 1, 0, 1]).taken = 2) ∧
    ((List.foldl (simpleAtomic 2) Simple.init [0, 1, 0, 1]).taken = 1) ∧
    ((List.foldl (simpleSplit 2) Simple.init [0, 0, 1, 1]).taken = 1) ∧
    ((List.foldl (simpleCode 2) Simple.init [0, 1, 0, 1]).taken = 1) := by
  decide

/-- the atomic one-batch abstraction: however `tc` distinct calls are scheduled, the batch is taken exactly when the
`tc`-th request is noted — `taken ≤ 1` as long as at most `tc` calls exist. -/
theorem simple_atomic_taken (tc : Nat) : ∀ (sched : List Nat) (s : Simple),
    (s.taken = if tc ≤ s.count ∧ 0 < tc then 1 else 0) → s.count = s.done.length →
    let s' := List.foldl (simpleAtomic tc) s sched
    (s'.taken = if tc ≤ s'.count ∧ 0 < tc then 1 else 0) ∧ s'.count = s'.done.length := by
  intro sched
  induction sched with
  | nil => intro s h1 h2; exact ⟨h1, h2⟩
  | cons c rest ih =>
    intro s h1 h2
    simp only [List.foldl_cons]
    apply ih
    · unfold simpleAtomic
      by_cases hd : s.done.contains c = true
      · simp only [hd, if_true]; exact h1
      · simp only [hd]
        by_cases e : s.count + 1 = tc
        · have : ¬ (tc ≤ s.count ∧ 0 < tc) := by omega
          simp only [this, if_false] at h1
          simp [e, h1]; omega
        · have e' : (s.count + 1 == tc) = false := by simpa using e
          simp only [e', Bool.false_eq_true, if_false, h1]
          by_cases h : tc ≤ s.count ∧ 0 < tc
          · have : tc ≤ s.count + 1 ∧ 0 < tc := by omega
            simp [h, this]
          · have : ¬ (tc ≤ s.count + 1 ∧ 0 < tc) := by omega
            simp [h, this]
    · unfold simpleAtomic
      by_cases hd : s.done.contains c = true
      · simp only [hd, if_true]; exact h2
      · simp only [hd]; simp [h2]

end IpaVerif.C16Race
