import IpaVerif.Proofs.C04Run
import IpaVerif.Model.MacAtomic
import Mathlib.Algebra.BigOperators.Group.List.Basic
/-!
# C04 — "honest executions always validate" when the records of a batch accumulate CONCURRENTLY

`Upgraded::accumulate_macs` updates the running MACs `(u, w)` of the record's batch under ONE acquisition of the batcher
mutex (`Model/MacAtomic.lean`, tied to the sources by `Generated/MacAtomic.lean`). For every number of calls, all
contributions and EVERY interleaving of the calls on each helper:

* `accumulate_atomic_sum` — the final `(u, w)` of a helper is the initial pair plus the sum of ALL contributions (no call is
  lost, none counted twice), whatever the schedule;
* `concurrent_eq_sequential` — with arbitrary, mutually different schedules on the three helpers the accumulators end up
  exactly as in the sequential model `Mac.accumulate` folded over the calls in index order — so every C04 theorem stated for
  the sequential model (`honest_validates`, `additive_attack_T`, …) speaks about the concurrent execution too;
* `concurrent_honest_validates` — consistent MAC'd sharings `([z_k], [r z_k])` recorded concurrently: `T` reconstructs to `0`
  and `validate` returns `Ok` for every check-zero mask;
* `code_is_atomic`, `accumulate_code_sum` — the same for `accumulate_macs` AS THE CODE HAS IT (`codeStep` is selected by the
  generated constants);
* `split_loses_update` (`decide`; independent seed `C04e`) — with fetch and store under separate lock acquisitions two
  concurrent calls lose one contribution: the helper's `(u, w)` is off by exactly that call's LOCAL contribution pair,
  which on its own does not satisfy `u = r·w`, so an honest batch is rejected (`split_breaks_honest_T`);
* `split_sequential_eq_atomic` — run back to back the two variants are indistinguishable: single-threaded suites cannot
  see the difference, the suite `c04_race` uses real OS threads.
-/
namespace IpaVerif.C04Race
open IpaVerif.MacAtomic IpaVerif.Sharing IpaVerif.Mac IpaVerif.Generated.Mac IpaVerif.C04

variable {R : Type} [CommRing R]

/-- contributions given as lists: call `t` adds `dus[t]` / `dws[t]` -/
def at0 (l : List R) (t : Nat) : R := l.getD t 0

/-- invariant of the atomic model started from `init u0 w0` -/
structure Inv (du dw : Nat → R) (u0 w0 : R) (s : State R) : Prop where
  fetched_nil : s.fetched = []
  nodup : s.done.Nodup
  u_eq : s.u = u0 + (s.done.map du).sum
  w_eq : s.w = w0 + (s.done.map dw).sum

theorem inv_init (du dw : Nat → R) (u0 w0 : R) : Inv du dw u0 w0 (init u0 w0) :=
  ⟨rfl, by simp [init], by simp [init], by simp [init]⟩

theorem inv_step (du dw : Nat → R) (u0 w0 : R) (s : State R) (t : Nat) (h : Inv du dw u0 w0 s) :
    Inv du dw u0 w0 (atomicStep (· + ·) du dw s t) := by
  unfold atomicStep
  by_cases hd : s.done.contains t = true
  · rw [if_pos hd]; exact h
  · rw [if_neg hd]
    have hnm : t ∉ s.done := by simpa using hd
    refine ⟨h.fetched_nil, List.nodup_cons.mpr ⟨hnm, h.nodup⟩, ?_, ?_⟩
    · simp only [List.map_cons, List.sum_cons, h.u_eq]; ring
    · simp only [List.map_cons, List.sum_cons, h.w_eq]; ring

theorem inv_run (du dw : Nat → R) (u0 w0 : R) (sched : List Nat) :
    ∀ s, Inv du dw u0 w0 s → Inv du dw u0 w0 (run (atomicStep (· + ·) du dw) s sched) := by
  induction sched with
  | nil => intro s h; exact h
  | cons t rest ih => intro s h; exact ih _ (inv_step du dw u0 w0 s t h)

theorem step_done_mono (du dw : Nat → R) (s : State R) (a t : Nat) (h : t ∈ s.done) :
    t ∈ (atomicStep (· + ·) du dw s a).done := by
  unfold atomicStep
  by_cases hd : s.done.contains a = true
  · rw [if_pos hd]; exact h
  · rw [if_neg hd]; exact List.mem_cons_of_mem _ h

theorem step_done_self (du dw : Nat → R) (s : State R) (a : Nat) : a ∈ (atomicStep (· + ·) du dw s a).done := by
  unfold atomicStep
  by_cases hd : s.done.contains a = true
  · rw [if_pos hd]; simpa using hd
  · rw [if_neg hd]; exact List.mem_cons_self

theorem step_done_sub (du dw : Nat → R) (s : State R) (a t : Nat) (h : t ∈ (atomicStep (· + ·) du dw s a).done) :
    t = a ∨ t ∈ s.done := by
  unfold atomicStep at h
  by_cases hd : s.done.contains a = true
  · rw [if_pos hd] at h; exact Or.inr h
  · rw [if_neg hd] at h; exact List.mem_cons.mp h

/-- a call returns within its first scheduling slot (it never waits for another call), and only scheduled calls return -/
theorem done_iff (du dw : Nat → R) (sched : List Nat) : ∀ (s : State R) (t : Nat),
    t ∈ (run (atomicStep (· + ·) du dw) s sched).done ↔ t ∈ sched ∨ t ∈ s.done := by
  induction sched with
  | nil => intro s t; simp [MacAtomic.run]
  | cons a rest ih =>
    intro s t
    have := ih (atomicStep (· + ·) du dw s a) t
    simp only [MacAtomic.run, List.foldl_cons] at this ⊢
    rw [this]
    constructor
    · rintro (h | h)
      · exact Or.inl (List.mem_cons_of_mem _ h)
      · rcases step_done_sub du dw s a t h with rfl | h
        · exact Or.inl List.mem_cons_self
        · exact Or.inr h
    · rintro (h | h)
      · rcases List.mem_cons.mp h with rfl | h
        · exact Or.inr (step_done_self du dw s t)
        · exact Or.inl h
      · exact Or.inr (step_done_mono du dw s a t h)

theorem sum_range_at0 (l : List R) : ((List.range l.length).map (at0 l)).sum = l.sum := by
  have : (List.range l.length).map (at0 l) = l := by
    apply List.ext_getElem (by simp)
    intro i h1 h2
    simp only [List.length_map, List.length_range] at h1
    simp [at0, List.getD_eq_getElem?_getD, h1]
  rw [this]

/-- **accumulate_atomic_sum** — ONE helper, `k` concurrent `accumulate_macs` calls for records of one batch, call `t`
contributing `(dus[t], dws[t])`; EVERY schedule in which each of the `k` calls is given the processor at least once
(any order, any repetitions): the helper's running MACs end as the initial pair plus the sum of ALL contributions —
nothing lost, nothing counted twice. -/
theorem accumulate_atomic_sum (dus dws : List R) (hlen : dus.length = dws.length) (u0 w0 : R) (sched : List Nat)
    (hall : ∀ t, t < dus.length → t ∈ sched) (honly : ∀ t ∈ sched, t < dus.length) :
    (run (atomicStep (· + ·) (at0 dus) (at0 dws)) (init u0 w0) sched).u = u0 + dus.sum ∧
    (run (atomicStep (· + ·) (at0 dus) (at0 dws)) (init u0 w0) sched).w = w0 + dws.sum := by
  have h := inv_run (at0 dus) (at0 dws) u0 w0 sched _ (inv_init _ _ u0 w0)
  have hperm : (run (atomicStep (· + ·) (at0 dus) (at0 dws)) (init u0 w0) sched).done.Perm (List.range dus.length) := by
    rw [List.perm_ext_iff_of_nodup h.nodup List.nodup_range]
    intro a
    rw [done_iff, List.mem_range]
    simp only [init, List.not_mem_nil, or_false]
    exact ⟨honly a, hall a⟩
  refine ⟨?_, ?_⟩
  · rw [h.u_eq, (hperm.map (at0 dus)).sum_eq, sum_range_at0]
  · rw [h.w_eq, (hperm.map (at0 dws)).sum_eq, hlen, sum_range_at0]

/-- non-vacuity: a schedule of 3 calls with repetitions and in a scrambled order; the result on concrete numbers -/
example : (∀ t, t < 3 → t ∈ [2, 0, 2, 1, 0]) ∧ (∀ t ∈ [2, 0, 2, 1, 0], t < 3) := by decide
example : let s := run (atomicStep (· + ·) (fun t => [5, 7, 11].getD t 0) (fun t => [1, 2, 3].getD t 0)) (init 100 200) [2, 0, 2, 1, 0]
    (s.u, s.w) = (123, 206) := by decide

/-- the translator's reading of the sources: one `with_batch` call whose closure does the update, nothing copied out or
stored back; `with_batch` locks once and runs the closure under the guard; `u`, `w` updated in place -/
theorem code_is_atomic : codeIsAtomic = true := by decide

/-- the DZKP side (`DZKPUpgraded::push` / `Batch::push`) has the same single-critical-section shape -/
theorem dzkp_push_is_atomic : dzkpPushIsAtomic = true := by decide

/-- **accumulate_code_sum** — `accumulate_atomic_sum` for `Upgraded::accumulate_macs` AS THE CODE HAS IT. -/
theorem accumulate_code_sum (dus dws : List R) (hlen : dus.length = dws.length) (u0 w0 : R) (sched : List Nat)
    (hall : ∀ t, t < dus.length → t ∈ sched) (honly : ∀ t ∈ sched, t < dus.length) :
    (run (codeStep (· + ·) (at0 dus) (at0 dws)) (init u0 w0) sched).u = u0 + dus.sum ∧
    (run (codeStep (· + ·) (at0 dus) (at0 dws)) (init u0 w0) sched).w = w0 + dws.sum := by
  have hc : codeStep (· + ·) (at0 dus) (at0 dws) = atomicStep (· + ·) (at0 dus) (at0 dws) := by
    simp [codeStep, code_is_atomic]
  rw [hc]
  exact accumulate_atomic_sum dus dws hlen u0 w0 sched hall honly

/-! ### three helpers, each with its own interleaving, against the sequential model of `Model/Mac.lean` -/

/-- the recorded wires of a batch: (PRSS coefficient `α_k` of the record, MAC'd sharing) -/
abbrev Call (R : Type) := World R × MShare R

/-- the sequential model: `Mac.accumulate` for the calls in index order (all three helpers in lock-step) -/
def seqAcc (calls : List (Call R)) (acc0 : Acc R) : Acc R :=
  calls.foldl (fun acc c => accumulate (ringAlg R) c.1 c.2 acc) acc0

/-- one helper's local contributions to `u` / to `w`, call by call (`pick` selects the helper's view) -/
def uContribs (calls : List (Call R)) (pick : World R → HShare R) : List R :=
  calls.map fun c => contrib (ringAlg R) uContribArgs c.1 c.2 pick
def wContribs (calls : List (Call R)) (pick : World R → HShare R) : List R :=
  calls.map fun c => contrib (ringAlg R) wContribArgs c.1 c.2 pick

/-- helper `pick`'s final `(u, w)` when its calls are interleaved by `sched` (atomic steps) -/
def helperRun (calls : List (Call R)) (pick : World R → HShare R) (u0 w0 : R) (sched : List Nat) : State R :=
  run (codeStep (· + ·) (at0 (uContribs calls pick)) (at0 (wContribs calls pick))) (init u0 w0) sched

/-- the three helpers' accumulators after the concurrent execution with schedules `s1`, `s2`, `s3` -/
def concAcc (calls : List (Call R)) (acc0 : Acc R) (s1 s2 s3 : List Nat) : Acc R :=
  { u := ⟨(helperRun calls (·.h1) acc0.u.h1 acc0.w.h1 s1).u, (helperRun calls (·.h2) acc0.u.h2 acc0.w.h2 s2).u,
          (helperRun calls (·.h3) acc0.u.h3 acc0.w.h3 s3).u⟩,
    w := ⟨(helperRun calls (·.h1) acc0.u.h1 acc0.w.h1 s1).w, (helperRun calls (·.h2) acc0.u.h2 acc0.w.h2 s2).w,
          (helperRun calls (·.h3) acc0.u.h3 acc0.w.h3 s3).w⟩ }

theorem seqAcc_sums (calls : List (Call R)) : ∀ acc0 : Acc R,
    seqAcc calls acc0 =
      { u := ⟨acc0.u.h1 + (uContribs calls (·.h1)).sum, acc0.u.h2 + (uContribs calls (·.h2)).sum,
              acc0.u.h3 + (uContribs calls (·.h3)).sum⟩,
        w := ⟨acc0.w.h1 + (wContribs calls (·.h1)).sum, acc0.w.h2 + (wContribs calls (·.h2)).sum,
              acc0.w.h3 + (wContribs calls (·.h3)).sum⟩ } := by
  induction calls with
  | nil => intro acc0; simp [seqAcc, uContribs, wContribs]
  | cons c rest ih =>
    intro acc0
    have := ih (accumulate (ringAlg R) c.1 c.2 acc0)
    simp only [seqAcc, List.foldl_cons] at this ⊢
    rw [this]
    simp only [accumulate, uContribs, wContribs, List.map_cons, List.sum_cons, ringAlg, add_assoc]

/-- a schedule of `k` calls: every call is given the processor at least once, nothing else is scheduled -/
def Covers (k : Nat) (sched : List Nat) : Prop := (∀ t, t < k → t ∈ sched) ∧ (∀ t ∈ sched, t < k)

/-- **concurrent_eq_sequential** — any number of recorded wires, ARBITRARY and mutually different interleavings on the three
helpers: the accumulators end up exactly as in the sequential model `Mac.accumulate` folded over the calls in index order.
Hence every statement about `run` / `accumulate` (`honest_validates`, `additive_attack_T`, `attack_accept_iff`, the counting
bound) holds for the concurrent execution. -/
theorem concurrent_eq_sequential (calls : List (Call R)) (acc0 : Acc R) (s1 s2 s3 : List Nat)
    (h1 : Covers calls.length s1) (h2 : Covers calls.length s2) (h3 : Covers calls.length s3) :
    concAcc calls acc0 s1 s2 s3 = seqAcc calls acc0 := by
  rw [seqAcc_sums]
  have key : ∀ (pick : World R → HShare R) (u0 w0 : R) (s : List Nat), Covers calls.length s →
      (helperRun calls pick u0 w0 s).u = u0 + (uContribs calls pick).sum ∧
      (helperRun calls pick u0 w0 s).w = w0 + (wContribs calls pick).sum := by
    intro pick u0 w0 s hs
    have hl : (uContribs calls pick).length = calls.length := by simp [uContribs]
    have hlw : (uContribs calls pick).length = (wContribs calls pick).length := by simp [uContribs, wContribs]
    exact accumulate_code_sum _ _ hlw u0 w0 s (by rw [hl]; exact hs.1) (by rw [hl]; exact hs.2)
  simp only [concAcc, (key _ _ _ s1 h1).1, (key _ _ _ s1 h1).2, (key _ _ _ s2 h2).1, (key _ _ _ s2 h2).2,
    (key _ _ _ s3 h3).1, (key _ _ _ s3 h3).2]

theorem seqAcc_T (rh : R) (calls : List (Call R)) (hc : ∀ c ∈ calls, Consistent c.1 ∧ MConsistent c.2 ∧ disc rh c.2 = 0) :
    ∀ acc0 : Acc R, accT rh (seqAcc calls acc0) = accT rh acc0 := by
  induction calls with
  | nil => intro acc0; rfl
  | cons c rest ih =>
    intro acc0
    have hc0 := hc c List.mem_cons_self
    have := ih (fun c' h' => hc c' (List.mem_cons_of_mem _ h')) (accumulate (ringAlg R) c.1 c.2 acc0)
    simp only [seqAcc, List.foldl_cons] at this ⊢
    rw [this, accumulate_T rh c.1 c.2 acc0 hc0.1 hc0.2.1, hc0.2.2]; ring

/-- **concurrent_honest_validates** — an honest batch whose wires are recorded concurrently validates: every recorded wire a
consistent MAC'd sharing with `rx = r̂·x` (what `honest_validates` shows for every wire of an honest circuit), consistent
coefficients, arbitrary interleavings per helper: `T` reconstructs to `0` and `validate` returns `Ok` for every
check-zero mask. -/
theorem concurrent_honest_validates [DecidableEq R] (r : World R) (mu mw : Masks R) (calls : List (Call R))
    (hc : ∀ c ∈ calls, Consistent c.1 ∧ MConsistent c.2 ∧ rec c.2.rx = rec r * rec c.2.x)
    (s1 s2 s3 : List Nat) (h1 : Covers calls.length s1) (h2 : Covers calls.length s2) (h3 : Covers calls.length s3)
    (czρ : Masks R) (czMask : World R) (hcz : Consistent czMask) :
    let acc := concAcc calls (initAcc (ringAlg R) mu mw) s1 s2 s3
    rec (tOf (ringAlg R) (rec r) acc (noValErr (ringAlg R))) = 0 ∧
    validateE (ringAlg R) r acc (noValErr (ringAlg R)) czρ czMask = true := by
  intro acc
  have hacc : acc = seqAcc calls (initAcc (ringAlg R) mu mw) := concurrent_eq_sequential calls _ s1 s2 s3 h1 h2 h3
  have hT : accT (rec r) acc = 0 := by
    rw [hacc, seqAcc_T (rec r) calls (fun c h => ⟨(hc c h).1, (hc c h).2.1, by
      simp only [disc]; rw [(hc c h).2.2]; ring⟩)]
    exact (init_rel (rec r) mu mw).2.2
  have hT0 : rec (tOf (ringAlg R) (rec r) acc (noValErr (ringAlg R))) = 0 := by
    rw [(tOf_value (rec r) acc _).2, hT]
    simp [noValErr, noErr, errSum, ringAlg]
  refine ⟨hT0, ?_⟩
  simp only [validateE, decide_eq_true_eq]
  rw [checkZero_value czρ czMask _ _ hcz (tOf_value (rec r) acc _).1, hT0]
  simp [noValErr, noErr, errSum, ringAlg]

/-- non-vacuity: schedules for 3 calls that differ between the helpers -/
example : Covers 3 [0, 1, 2] ∧ Covers 3 [2, 2, 0, 1] ∧ Covers 3 [1, 0, 1, 2, 0] := by
  refine ⟨⟨?_, ?_⟩, ⟨?_, ?_⟩, ⟨?_, ?_⟩⟩ <;> decide

/-! ### the fetch / compute / store split (independent seed `C04e`) -/

/-- **split_loses_update** — two calls, contributions `(10, 1)` and `(200, 20)`, schedule fetch₀ fetch₁ store₀ store₁: the
second store overwrites the first, `(u, w)` ends as `(200, 20)` instead of `(210, 21)`; the atomic code gives `(210, 21)` on
the same (and on every) schedule. -/
theorem split_loses_update :
    let du : Nat → Nat := fun t => [10, 200].getD t 0
    let dw : Nat → Nat := fun t => [1, 20].getD t 0
    ((run (splitStep (· + ·) du dw) (init 0 0) [0, 1, 0, 1]).u, (run (splitStep (· + ·) du dw) (init 0 0) [0, 1, 0, 1]).w) = (200, 20) ∧
    (run (splitStep (· + ·) du dw) (init 0 0) [0, 1, 0, 1]).done = [1, 0] ∧
    ((run (atomicStep (· + ·) du dw) (init 0 0) [0, 1, 0, 1]).u, (run (atomicStep (· + ·) du dw) (init 0 0) [0, 1, 0, 1]).w) = (210, 21) := by
  decide

/-- what the lost update does to an HONEST batch (integers, `r = 3`): the wire `z = 5`, `r z = 15` with coefficient `α = 1`
is recorded; the three helpers' local contributions are `(du_i, dw_i) = (4, 1), (5, 2), (6, 2)` — they add up to `(15, 5)`,
`15 = 3·5`, but no single pair satisfies `du = 3·dw`. If helper 1 loses its pair, `T = Σu − r·Σw = 11 − 3·4 = −1 ≠ 0`: the
honest batch is rejected. -/
theorem split_breaks_honest_T :
    ((4 : Int) + 5 + 6) - 3 * (1 + 2 + 2) = 0 ∧ ((0 : Int) + 5 + 6) - 3 * (0 + 2 + 2) ≠ 0 ∧
    (4 : Int) ≠ 3 * 1 := by decide

/-- **split_sequential_eq_atomic** — why no single-threaded suite can see the difference: if every call runs its two steps
back to back, the split variant behaves exactly like the atomic one (any carrier, any addition). -/
theorem split_sequential_eq_atomic {F : Type} (add : F → F → F) (du dw : Nat → F) (sched : List Nat) : ∀ s : State F,
    s.fetched = [] →
    run (splitStep add du dw) s (sched.flatMap fun t => [t, t]) = run (atomicStep add du dw) s sched := by
  induction sched with
  | nil => intro s _; rfl
  | cons t rest ih =>
    intro s hs
    have key : splitStep add du dw (splitStep add du dw s t) t = atomicStep add du dw s t := by
      by_cases hd : s.done.contains t = true
      · have e1 : splitStep add du dw s t = s := by unfold splitStep; rw [if_pos hd]
        rw [e1, e1]; unfold atomicStep; rw [if_pos hd]
      · have e1 : splitStep add du dw s t = { s with fetched := [(t, s.u, s.w)] } := by
          unfold splitStep; rw [if_neg hd, hs]; rfl
        have e2 : atomicStep add du dw s t = { s with u := add s.u (du t), w := add s.w (dw t), done := t :: s.done } := by
          unfold atomicStep; rw [if_neg hd]
        rw [e1, e2]
        unfold splitStep
        simp only []
        rw [if_neg hd]
        simp [List.lookup, hs]
    have hc : (atomicStep add du dw s t).fetched = [] := by
      unfold atomicStep
      by_cases hd : s.done.contains t = true
      · rw [if_pos hd]; exact hs
      · rw [if_neg hd]; exact hs
    simp only [List.flatMap_cons, MacAtomic.run, List.foldl_append, List.foldl_cons, List.foldl_nil]
    rw [key]
    exact ih _ hc

end IpaVerif.C04Race
