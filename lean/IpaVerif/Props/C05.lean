import IpaVerif.Model.Shuffle
import IpaVerif.Proofs.ShuffleLemmas
/-!
# C05 — shuffle outputs a re-shared permutation of its input; tampering is detected

Theorems about `IpaVerif.Model.Shuffle`. `masks_aligned`, `route_perm`, `unmasked_perm` live in
`IpaVerif.Proofs.ShuffleLemmas`.
-/
namespace IpaVerif.C05
open IpaVerif.Shuffle IpaVerif.Generated

theorem shape_prTable (f : Nat → Nat → Row) (sh : List Nat) : shape (prTable f sh) = sh := by
  apply List.ext_getElem
  · simp [shape, prTable]
  · intro i h1 h2
    simp [shape, prTable] at h1 ⊢
    simp [List.getD_eq_getElem?_getD, h1]

/-- the rounds of a run are usable: destinations are real shards, local shuffles are permutations -/
structure ValidRand (S : Nat) (ρ : Rand) : Prop where
  v12 : ρ.r12.Valid S
  v23 : ρ.r23.Valid S
  v31 : ρ.r31.Valid S

/-- **shuffle_multiset.** For every number of destination shards, every per-shard input (including empty
shards and fewer rows than shards), every consistent replicated sharing `(s1,s2,s3)` of it, and all
masks, destinations, local permutations and pseudo-random tables shared pairwise as PRSS prescribes:
the three helpers' outputs are a consistent replicated sharing (adjacent components equal, same shape
everywhere) and the multiset of reconstructed output rows over all shards equals the multiset of input
rows. -/
theorem shuffle_multiset (S : Nat) (ρ : Rand) (hv : ValidRand S ρ) (s1 s2 s3 : Table)
    (e12 : shape s1 = shape s2) (e23 : shape s2 = shape s3) :
    let out := (shuffle S ρ { left := s1, right := s2 } { left := s2, right := s3 }).1
    (out.1.right = out.2.1.left ∧ out.2.1.right = out.2.2.left ∧ out.2.2.right = out.1.left) ∧
    (shape out.1.left = shape out.1.right ∧ shape out.2.1.left = shape out.2.1.right ∧
      shape out.2.2.left = shape out.2.2.right) ∧
    ((reconstruct out).flatten).Perm ((txor (txor s1 s2) s3).flatten) := by
  -- names for the intermediate tables
  let x1 := maskAndShuffle S ρ.r12 (txor s1 s2)
  let x2 := maskAndShuffle S ρ.r31 x1
  let y1 := maskAndShuffle S ρ.r12 s3
  let x3 := maskAndShuffle S ρ.r23 x2
  let y2 := maskAndShuffle S ρ.r31 y1
  let y3 := maskAndShuffle S ρ.r23 y2
  have sh0 : shape (txor s1 s2) = shape s3 := by rw [shape_txor e12, e12, e23]
  have sh1 : shape x1 = shape y1 := by simp only [x1, y1, shape_mas, sh0]
  have sh2 : shape x2 = shape y2 := by simp only [x2, y2, shape_mas, sh1]
  have sh3 : shape x3 = shape y3 := by simp only [x3, y3, shape_mas, sh2]
  let a := prTable ρ.a (shape x3)
  let b := prTable ρ.b (shape x3)
  have sa : shape a = shape x3 := shape_prTable _ _
  have sb : shape b = shape x3 := shape_prTable _ _
  have sc1 : shape (txor x3 b) = shape x3 := shape_txor sb.symm
  have sc2 : shape (txor y3 a) = shape x3 := by rw [shape_txor (sh3.symm.trans sa.symm), sh3]
  have sc : shape (txor (txor x3 b) (txor y3 a)) = shape x3 := by rw [shape_txor (sc1.trans sc2.symm), sc1]
  have sab : shape (txor a b) = shape x3 := by rw [shape_txor (sa.trans sb.symm), sa]
  -- reconstruction collapses to x3 ⊕ y3
  have hrec : txor (txor a b) (txor (txor x3 b) (txor y3 a)) = txor x3 y3 := by
    apply table_ext
    · rw [shape_txor (sab.trans sc.symm), sab, shape_txor sh3]
    · intro p
      rw [get_txor (sab.trans sc.symm), get_txor (sa.trans sb.symm), get_txor (sc1.trans sc2.symm),
        get_txor sb.symm, get_txor (sh3.symm.trans sa.symm), get_txor sh3]
      exact xor4 _ _ _ _
  -- masks cancel round by round
  have r1 : txor x1 y1 = unmasked S ρ.r12 (txor (txor s1 s2) s3) := masks_aligned S ρ.r12 sh0
  have r2 : txor x2 y2 = unmasked S ρ.r31 (txor x1 y1) := masks_aligned S ρ.r31 sh1
  have r3 : txor x3 y3 = unmasked S ρ.r23 (txor x2 y2) := masks_aligned S ρ.r23 sh2
  refine ⟨⟨rfl, rfl, rfl⟩, ⟨?_, ?_, ?_⟩, ?_⟩
  · show shape a = shape b
    rw [sa, sb]
  · show shape b = shape (txor (txor x3 b) (txor y3 a))
    rw [sb, sc]
  · show shape (txor (txor x3 b) (txor y3 a)) = shape a
    rw [sc, sa]
  · show ((txor (txor a b) (txor (txor x3 b) (txor y3 a))).flatten).Perm _
    rw [hrec, r3, r2, r1]
    exact ((unmasked_perm hv.v23 _).trans (unmasked_perm hv.v31 _)).trans (unmasked_perm hv.v12 _)



theorem routeShape_eq (S : Nat) (ρ : Round) (hv : ρ.Valid S) (sh : List Nat) :
    (route S ρ sh).map List.length = routeShape S ρ.dest sh := by
  simp only [route, routeShape, List.map_map]
  apply List.map_congr_left
  intro d _
  exact (hv.shuf_perm d _).length_eq

theorem length_h1Table (a b : Nat → Row) (sz : Nat) : (h1Table a b sz).length = sz := by
  simp [h1Table]

/-- H1's per-shard tables `h1Table` over the announced cardinalities are exactly the `(left, right)`
tables the protocol model assigns to H1. -/
theorem h1Table_eq (ρ : Rand) (sh : List Nat) (d : Nat) (hd : d < sh.length) :
    ((h1Table (ρ.a d) (ρ.b d) (sh.getD d 0)).map Prod.fst = (prTable ρ.a sh).getD d [] ) ∧
    ((h1Table (ρ.a d) (ρ.b d) (sh.getD d 0)).map Prod.snd = (prTable ρ.b sh).getD d [] ) := by
  simp [h1Table, prTable, List.getD_eq_getElem?_getD, hd, Function.comp_def]

/-- **output_sizes_equal.** On every shard the three helpers' output tables (both components) have the
same number of rows, namely the cardinality H2 announces to H1 for that shard (`cardinalities`: the
input shape routed through the three permutation rounds); there is one entry per destination shard and
the announced cardinalities add up to the number of input rows — no row is lost on any helper. -/
theorem output_sizes_equal (S : Nat) (ρ : Rand) (hv : ValidRand S ρ) (s1 s2 s3 : Table)
    (e12 : shape s1 = shape s2) (e23 : shape s2 = shape s3) :
    let out := (shuffle S ρ { left := s1, right := s2 } { left := s2, right := s3 }).1
    let card := cardinalities S ρ (shape s1)
    shape out.1.left = card ∧ shape out.1.right = card ∧
    shape out.2.1.left = card ∧ shape out.2.1.right = card ∧
    shape out.2.2.left = card ∧ shape out.2.2.right = card ∧
    card.length = S ∧ card.sum = (shape s1).sum := by
  intro out card
  have hm := shuffle_multiset S ρ hv s1 s2 s3 e12 e23
  obtain ⟨⟨c1, c2, c3⟩, ⟨q1, q2, q3⟩, hperm⟩ := hm
  have sh0 : shape (txor s1 s2) = shape s1 := shape_txor e12
  -- H1.left = a = prTable over shape x3, and shape x3 = cardinalities
  have ha : shape out.1.left = card := by
    show shape (prTable ρ.a (shape (maskAndShuffle S ρ.r23 (maskAndShuffle S ρ.r31 (maskAndShuffle S ρ.r12 (txor s1 s2)))))) = card
    rw [shape_prTable, shape_mas, routeShape_eq S _ hv.v23, shape_mas, routeShape_eq S _ hv.v31, shape_mas,
      routeShape_eq S _ hv.v12, sh0]
    rfl
  have hb : shape out.1.right = card := q1 ▸ ha
  have hb' : shape out.2.1.left = card := c1 ▸ hb
  have hc : shape out.2.1.right = card := q2 ▸ hb'
  have hc' : shape out.2.2.left = card := c2 ▸ hc
  have ha' : shape out.2.2.right = card := q3 ▸ hc'
  refine ⟨ha, hb, hb', hc, hc', ha', by simp [card, cardinalities, routeShape], ?_⟩
  -- the reconstructed table has shape `card`; its flattening is a permutation of the input rows
  have hrs : shape (reconstruct out) = card := by
    show shape (txor (txor out.1.left out.1.right) out.2.1.right) = card
    rw [shape_txor (by rw [shape_txor (ha.trans hb.symm), ha, hc]), shape_txor (ha.trans hb.symm), ha]
  have hin : shape (txor (txor s1 s2) s3) = shape s1 := by
    rw [shape_txor (sh0.trans (e12.trans e23)), sh0]
  have sum_shape : ∀ t : Table, (shape t).sum = t.flatten.length := by
    intro t
    simp [shape, List.length_flatten]
  rw [← hrs, ← hin, sum_shape, sum_shape]
  exact hperm.length_eq

/-- the hypotheses of `shuffle_multiset` are satisfiable for every positive shard count -/
def exRound (S k : Nat) : Round where
  mask j i := 1000 * k + 10 * j + i
  dest j i := (i + j + k) % S
  shuf _ l := l.reverse

theorem exRound_valid (S k : Nat) (hS : 0 < S) : (exRound S k).Valid S :=
  ⟨fun _ _ => Nat.mod_lt _ hS, fun _ l => List.reverse_perm l⟩

example : (reconstruct (shuffle 3 { r12 := exRound 3 1, r23 := exRound 3 2, r31 := exRound 3 3, a := fun d i => d + i, b := fun d i => 2 * d + i }
      { left := [[1, 2], [], [3]], right := [[4, 5], [], [6]] } { left := [[4, 5], [], [6]], right := [[8, 9], [], [10]] }).1).flatten.Perm
    (txor (txor [[1, 2], [], [3]] [[4, 5], [], [6]]) [[8, 9], [], [10]]).flatten :=
  (shuffle_multiset 3 _ ⟨exRound_valid 3 1 (by decide), exRound_valid 3 2 (by decide), exRound_valid 3 3 (by decide)⟩
    [[1, 2], [], [3]] [[4, 5], [], [6]] [[8, 9], [], [10]] rfl rfl).2.2

/-- instance of `output_sizes_equal`: three shards, one of them empty -/
example : shape (shuffle 3 { r12 := exRound 3 1, r23 := exRound 3 2, r31 := exRound 3 3, a := fun d i => d + i, b := fun d i => 2 * d + i }
      { left := [[1, 2], [], [3]], right := [[4, 5], [], [6]] } { left := [[4, 5], [], [6]], right := [[8, 9], [], [10]] }).1.1.left =
    shape (shuffle 3 { r12 := exRound 3 1, r23 := exRound 3 2, r31 := exRound 3 3, a := fun d i => d + i, b := fun d i => 2 * d + i }
      { left := [[1, 2], [], [3]], right := [[4, 5], [], [6]] } { left := [[4, 5], [], [6]], right := [[8, 9], [], [10]] }).1.2.1.right := by
  have h := output_sizes_equal 3 { r12 := exRound 3 1, r23 := exRound 3 2, r31 := exRound 3 3, a := fun d i => d + i, b := fun d i => 2 * d + i }
    ⟨exRound_valid 3 1 (by decide), exRound_valid 3 2 (by decide), exRound_valid 3 3 (by decide)⟩
    [[1, 2], [], [3]] [[4, 5], [], [6]] [[8, 9], [], [10]] rfl rfl
  exact h.1.trans h.2.2.2.1.symm

/-- Every permutation round is used by exactly the two helpers that share its randomness, looking at each
other (`Right` of `Hi` is `H(i+1)`, `Left` of `H(i+1)` is `Hi`) — checked on the calls extracted from
`sharded.rs`. This is what licenses using one `Round` value for both parties in the model. -/
theorem round_pairing :
    ShuffleC.roundUses.all (fun (h, step, dir) =>
      let peer := if dir == "Right" then h % 3 + 1 else (h + 1) % 3 + 1
      let back := if dir == "Right" then "Left" else "Right"
      ShuffleC.roundUses.contains (peer, step, back) &&
      (ShuffleC.roundUses.filter (fun u => u.2.1 == step)).length == 2) = true ∧
    ShuffleC.roundUses.length = 6 := by decide

/-! ## MAC tags -/

/-- What the tag argument needs from GF(2^32): an additive group of characteristic 2 with a
distributive multiplication without zero divisors (C08 proves these for `Gf32Bit`). -/
structure TagField (F : Type) where
  add : F → F → F
  mul : F → F → F
  zero : F
  add_assoc : ∀ a b c, add (add a b) c = add a (add b c)
  add_comm : ∀ a b, add a b = add b a
  add_zero : ∀ a, add a zero = a
  add_self : ∀ a, add a a = zero
  mul_add : ∀ a b k, mul (add a b) k = add (mul a k) (mul b k)
  add_mul : ∀ w k l, mul w (add k l) = add (mul w k) (mul w l)
  /-- `NoZeroDivisors` -/
  no_zero_div : ∀ a b, mul a b = zero → a = zero ∨ b = zero

variable {F : Type} (G : TagField F)

/-- `Σ keyᵢ · wordᵢ` (`compute_and_add_tags`, `compute_and_hash_tags`) -/
def ip : List F → List F → F
  | w :: ws, k :: ks => G.add (G.mul w k) (ip ws ks)
  | _, _ => G.zero

def vadd : List F → List F → List F
  | a :: as, b :: bs => G.add a b :: vadd as bs
  | _, _ => []

theorem add_zero' (a : F) : G.add G.zero a = a := by rw [G.add_comm, G.add_zero]

theorem add4 (a b c d : F) : G.add (G.add a b) (G.add c d) = G.add (G.add a c) (G.add b d) := by
  rw [G.add_assoc, G.add_assoc, ← G.add_assoc b c d, G.add_comm b c, G.add_assoc c b d]

/-- **tag_linear**: the tag of a sum of rows is the sum of the tags. -/
theorem tag_linear (keys w d : List F) (h : w.length = d.length) :
    ip G (vadd G w d) keys = G.add (ip G w keys) (ip G d keys) := by
  induction w generalizing d keys with
  | nil =>
    cases d with
    | nil => simp [vadd, ip, G.add_zero]
    | cons _ _ => simp at h
  | cons a as ih =>
    cases d with
    | nil => simp at h
    | cons b bs =>
      cases keys with
      | nil => simp [vadd, ip, G.add_zero]
      | cons k ks =>
        simp only [vadd, ip]
        rw [ih ks bs (by simpa using h), G.mul_add, add4]

/-- the value compared (through hashes) by `verify_shuffle` for a row `w` with tag `t` -/
def check (keys w : List F) (t : F) : F := G.add (ip G w keys) t

/-- A correctly tagged row checks to zero. -/
theorem check_honest (keys w : List F) : check G keys w (ip G w keys) = G.zero := G.add_self _

/-- Adding `(d, dt)` to a row changes its check value by `check keys d dt`. -/
theorem check_add (keys w d : List F) (t dt : F) (h : w.length = d.length) :
    check G keys (vadd G w d) (G.add t dt) = G.add (check G keys w t) (check G keys d dt) := by
  simp only [check, tag_linear G keys w d h, add4]

theorem add_left_cancel {a x y : F} (h : G.add a x = G.add a y) : x = y := by
  have h2 := congrArg (fun z => G.add a z) h
  simp only [← G.add_assoc, G.add_self, add_zero'] at h2
  exact h2

theorem ip_append (dpre pre x y : List F) (hl : dpre.length = pre.length) :
    ip G (dpre ++ x) (pre ++ y) = G.add (ip G dpre pre) (ip G x y) := by
  induction dpre generalizing pre with
  | nil =>
    cases pre with
    | nil => simp [ip, add_zero']
    | cons _ _ => simp at hl
  | cons a as ih =>
    cases pre with
    | nil => simp at hl
    | cons k ks =>
      simp only [List.cons_append, ip]
      rw [ih ks (by simpa using hl), G.add_assoc]

/-- **tag_detects (tag part).** If only the tag of a row is changed (by `dt ≠ 0`), its check value changes
for *every* key vector. -/
theorem tag_detects_tag_only (keys w : List F) (t dt : F) (hdt : dt ≠ G.zero) :
    check G keys w (G.add t dt) ≠ check G keys w t := by
  intro h
  simp only [check] at h
  have h2 : G.add t dt = G.add t G.zero := by rw [G.add_zero]; exact add_left_cancel G h
  exact hdt (add_left_cancel G h2)

/-- **tag_detects (data part).** Let a row be changed by `(d, dt)` with word `j` of `d` non-zero
(`d = dpre ++ dj :: dpost`). The change goes unnoticed exactly when `check keys d dt = 0`
(`check_add`, `check_honest`). Along every line of key vectors that differ only in key `j`, at most **one**
key has that property — a `2^-32` fraction of the keys. Uses that the field has no zero divisors. -/
theorem tag_detects (pre post dpre dpost : List F) (k k' dj dt : F) (hl : dpre.length = pre.length)
    (hdj : dj ≠ G.zero)
    (h1 : check G (pre ++ k :: post) (dpre ++ dj :: dpost) dt = G.zero)
    (h2 : check G (pre ++ k' :: post) (dpre ++ dj :: dpost) dt = G.zero) : k = k' := by
  simp only [check, ip_append G dpre pre _ _ hl, ip] at h1 h2
  have e := h1.trans h2.symm
  simp only [G.add_assoc] at e
  have e1 := add_left_cancel G e
  -- mul dj k + rest = mul dj k' + rest
  have e2 : G.mul dj k = G.mul dj k' := by
    rw [G.add_comm (G.mul dj k), G.add_comm (G.mul dj k')] at e1
    exact add_left_cancel G e1
  have e3 : G.mul dj (G.add k k') = G.zero := by rw [G.add_mul, e2, G.add_self]
  rcases G.no_zero_div _ _ e3 with h | h
  · exact absurd h hdj
  · have : G.add k k' = G.add k k := by rw [h, G.add_self]
    exact (add_left_cancel G this).symm

/-- **shuffle_tamper_core.** The verifying helper hashes the list of check values of the table it holds and
compares with the hash its neighbour computed from the table it *should* hold. If one row was changed by
something whose check value `D` is non-zero, and the hash is injective on these lists (collision
resistance, hypothesis), the comparison fails. -/
theorem shuffle_tamper_core {H : Type} (hash : List F → H) (hinj : ∀ a b, hash a = hash b → a = b)
    (vals : List F) (i : Nat) (hi : i < vals.length) (D : F) (hD : D ≠ G.zero) :
    hash (vals.set i (G.add vals[i] D)) ≠ hash vals := by
  intro h
  have hl := hinj _ _ h
  have := congrArg (fun l => l[i]?) hl
  simp [hi] at this
  have h2 : G.add vals[i] D = G.add vals[i] G.zero := by rw [G.add_zero]; exact this
  exact hD (add_left_cancel G h2)

/-- non-vacuity: GF(2) is a `TagField`; the identity is an injective "hash" -/
def gf2 : TagField Bool where
  add := xor
  mul := and
  zero := false
  add_assoc := by decide
  add_comm := by decide
  add_zero := by decide
  add_self := by decide
  mul_add := by decide
  add_mul := by decide
  no_zero_div := by decide

example : check gf2 [true, false] [true, true] (ip gf2 [true, true] [true, false]) = false := check_honest gf2 _ _

example : (fun l : List Bool => l) ([false, true].set 1 (gf2.add true true)) ≠ (fun l : List Bool => l) [false, true] :=
  shuffle_tamper_core gf2 (fun l => l) (fun _ _ h => h) [false, true] 1 (by decide) true (by decide)


/-- the reduction polynomial regenerated from `galois_field.rs` is the one the model multiplies with:
`x · x^31 = x^32 ≡ x^7 + x^3 + x^2 + 1`, and `1` is neutral (the key appended for the tag column). -/
theorem gf32_spot : gfMul 2 2147483648 = 141 ∧ gfMul 4294967295 1 = 4294967295 ∧ gfMul 3 3 = 5 := by decide

end IpaVerif.C05
