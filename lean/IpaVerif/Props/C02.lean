import IpaVerif.Model.Malicious
/-!
# C02 — one tampering helper can abort a query but never change its result
-/
namespace IpaVerif.C02
open IpaVerif.Malicious

/-- An honest opening succeeds with the shared value. -/
theorem reveal_honest (m : Nat) (s : Nat → Nat) (h : Nat) (hh : h < 3) :
    revealAt m s h (honestCopy s h) (honestCopy s h) = some (reconstruct m s) := by
  have hh' : h = 0 ∨ h = 1 ∨ h = 2 := by omega
  rcases hh' with rfl | rfl | rfl <;> simp [revealAt, honestCopy, reconstruct, nxt, prv] <;> congr 1 <;> omega

/-- **Two-copy opening.** With one corrupt helper `c` sending arbitrary values, every honest helper
`h ≠ c` either fails the opening or obtains exactly the shared value. All moduli, all sharings. -/
theorem reveal_tamper (m : Nat) (s : Nat → Nat) (c h : Nat) (hh : h < 3) (_hne : h ≠ c)
    (mL mR : Nat) :
    revealWithCorrupt m s c h mL mR = none ∨ revealWithCorrupt m s c h mL mR = some (reconstruct m s) := by
  have hhon := reveal_honest m s h hh
  unfold revealWithCorrupt
  by_cases h1 : prv h = c
  · by_cases h2 : nxt h = c
    · exfalso; unfold prv nxt at *; omega
    · simp only [h1, h2, if_true, if_false]
      by_cases heq : mR = honestCopy s h
      · right; rw [heq]; exact hhon
      · left; simp [revealAt, heq]
  · by_cases h2 : nxt h = c
    · simp only [h1, h2, if_true, if_false]
      by_cases heq : honestCopy s h = mL
      · right; rw [← heq]; exact hhon
      · left; simp [revealAt, heq]
    · right; simp only [h1, h2, if_false]; exact hhon

/-- **Dummy-count agreement.** The excluded helper receives one count from each generating peer; at
most one of them is corrupt, so it either errs or continues with the honest peer's count. -/
theorem count_tamper (honestCount forged : Nat) :
    (countAt honestCount forged = none ∨ countAt honestCount forged = some honestCount) ∧
    (countAt forged honestCount = none ∨ countAt forged honestCount = some honestCount) := by
  unfold countAt
  constructor <;> (split <;> simp_all)

/-- **Composition.** If every phase is protected by a mechanism with the local guarantee, then for
every tampering strategy of the corrupt helper the query aborts, or ends in exactly the honest state,
or some mechanism's bad-challenge event happened. (Registered as `…_partial`: the probability of the
bad events is not formalised; the property concedes negligible probability only for C04.) -/
theorem one_tamperer_abort_or_same_partial {σ τ : Type} (ps : List (Phase σ τ))
    (hsound : ∀ p ∈ ps, p.Sound) (ts : List τ) (s : σ) :
    runAll ps ts s = none ∨ runAll ps ts s = some (honestAll ps s) ∨ badAlong ps ts s := by
  induction ps generalizing ts s with
  | nil => right; left; rfl
  | cons p ps ih =>
    cases ts with
    | nil => left; rfl
    | cons t ts =>
      have hp := hsound p (List.mem_cons_self)
      have ih' := fun ts s => ih (fun q hq => hsound q (List.mem_cons_of_mem p hq)) ts s
      simp only [runAll, honestAll, badAlong]
      rcases hp s t with h | h | h
      · left; simp [h]
      · rw [h]
        rcases ih' ts (p.honest s) with h' | h' | h'
        · left; exact h'
        · right; left; exact h'
        · right; right; right; exact h'
      · right; right; left; exact h

/-- without bad events: abort or the honest result. -/
theorem one_tamperer_abort_or_same {σ τ : Type} (ps : List (Phase σ τ))
    (hsound : ∀ p ∈ ps, p.Sound) (ts : List τ) (s : σ) (hgood : ¬ badAlong ps ts s) :
    runAll ps ts s = none ∨ runAll ps ts s = some (honestAll ps s) := by
  rcases one_tamperer_abort_or_same_partial ps hsound ts s with h | h | h
  · exact Or.inl h
  · exact Or.inr h
  · exact absurd h hgood

/-- The two-copy opening and the count agreement are sound phases (no bad event at all). -/
def revealPhase (m c h mL mR : Nat) : Phase (Nat → Nat) Unit where
  honest := fun s => s
  run := fun s _ => (revealWithCorrupt m s c h mL mR).map (fun _ => s)
  bad := fun _ _ => False

/-- Non-vacuity: a concrete sharing, a forged copy that is detected, one that is not a forgery. -/
example : revealWithCorrupt 31 (fun i => [5, 7, 11].getD i 0) 0 1 99 3 = none
    ∧ revealWithCorrupt 31 (fun i => [5, 7, 11].getD i 0) 0 1 99 5 = some 23 := by decide

/-- Every row of the coverage table regenerated from the hybrid sources names a protecting mechanism. -/
theorem coverage_rows_protected :
    ∀ row ∈ IpaVerif.Generated.coverageTable, row.2 ∈ protectedKinds := by decide

/-- The steps of the hybrid query that carry helper-to-helper traffic are all covered. -/
theorem hybrid_steps_covered :
    (classify ["convert_fp#", "integer_add_mask_to_x", "bit#"] = some "dzkp") ∧
    (classify ["eval_prf", "malicious_protocol", "reveal_r"] = some "mac") ∧
    (classify ["input_shuffle", "transfer_x_y"] = some "shuffle") ∧
    (classify ["group_by_sum", "add_v", "bit#"] = some "dzkp") ∧
    (classify ["aggregate", "chunks#", "fold#", "add", "bit#"] = some "dzkp") ∧
    (classify ["aggregate", "reveal"] = some "dzkp") ∧
    (classify ["finalize", "add", "add", "bit#"] = some "dzkp") ∧
    (classify ["report_padding_dp", "padding_dp_pass#", "send_num_fake_records"] = some "count") ∧
    (classify ["prf_key_gen", "x"] = none) := by decide

/-- **Every multiplication of a DZKP-validated phase is recorded in the validator's batch** (b14, seed C02c).
Over the call sites regenerated from the sources: (1) a multiplication invoked through the context dispatch
(`SecureMul::multiply`, `BooleanArrayMul::multiply`) under a DZKP-upgraded malicious context is `zkp_multiply`, which
pushes the gate's `(x, y, prss, z)` segment into the batch; (2) every site in non-test code below `protocol/` that
names an unrecorded routine (`semi_honest_multiply`, `sh_multiply`, `multiplication_protocol`) either records the
segment itself (`zkp_multiply`) or belongs to a routine that never runs on a gate of a DZKP phase (semi-honest
context impls, MAC multiplication / upgrade / check-zero, shuffle tags). A protocol function that bypasses the
dispatch (e.g. `bool_or` calling `semi_honest_multiply`) adds a site for which neither holds. -/
theorem dzkp_multiplications_recorded :
    (∀ t ∈ ["SecureMul", "BooleanArrayMul"],
      recorded IpaVerif.Generated.dzkpDispatch IpaVerif.Generated.zkpMultiplyBody (.dispatched t) = true) ∧
    (∀ s ∈ IpaVerif.Generated.directMulSites,
      recorded IpaVerif.Generated.dzkpDispatch IpaVerif.Generated.zkpMultiplyBody (.direct s) = true
        ∨ outsideDzkp s = true) := by decide +kernel

/-- The obligation is not vacuous: the call site introduced by seed C02c is rejected, and a `zkp_multiply` that
forgets to push records nothing. -/
theorem dzkp_multiplications_recorded_counterexamples :
    (let s := ("protocol/boolean/or.rs", "bool_or", "semi_honest_multiply")
     recorded IpaVerif.Generated.dzkpDispatch IpaVerif.Generated.zkpMultiplyBody (.direct s) = false
       ∧ outsideDzkp s = false) ∧
    recorded IpaVerif.Generated.dzkpDispatch
      ["let z = multiplication_protocol(&ctx, record_id, a, b, &prss_left, &prss_right).await?;", "Ok(z)"]
      (.dispatched "SecureMul") = false := by decide +kernel

end IpaVerif.C02
