import IpaVerif.Model.UsedSetAtomic
/-!
# C06 — "never reused" under concurrent callers: `UsedSet::use_index` is one atomic test-and-set

For every number of threads, every assignment of indices to threads and EVERY interleaving: with the code's single
critical section at most one caller per index value is accepted (exactly one once a caller of that value has
returned), and the outcome equals the sequential specification in completion order (linearizable). The
check-then-act variant (lookup and insert under separate guards — independent seed `C06d`) accepts both of two
concurrent callers: `split_accepts_twice`. Core Lean only.
-/
namespace IpaVerif.C06Race
open IpaVerif.UsedSetAtomic

/-- invariant of the atomic model started from `init used0` -/
structure Inv (idx : Nat → Nat) (used0 : List Nat) (s : State) : Prop where
  checked_nil : s.checked = []
  done_used : ∀ t ∈ s.done, idx t ∈ s.used
  used_iff : ∀ v, v ∈ s.used ↔ v ∈ used0 ∨ v ∈ s.accepted.map idx
  nodup : (s.accepted.map idx).Nodup
  fresh : ∀ t ∈ s.accepted, idx t ∉ used0
  acc_done : ∀ t ∈ s.accepted, t ∈ s.done
  lin : (s.used, s.accepted) = seqSpec idx used0 s.done.reverse

theorem inv_init (idx : Nat → Nat) (used0 : List Nat) : Inv idx used0 (init used0) :=
  ⟨rfl, by simp [init], by simp [init], by simp [init], by simp [init], by simp [init], by simp [init, seqSpec]⟩

theorem inv_step (idx : Nat → Nat) (used0 : List Nat) (s : State) (t : Nat) (h : Inv idx used0 s) :
    Inv idx used0 (atomicStep idx s t) := by
  unfold atomicStep
  by_cases hd : s.done.contains t = true
  · rw [if_pos hd]; exact h
  · by_cases hu : s.used.contains (idx t) = true
    · rw [if_neg hd, if_pos hu]
      have hmem : idx t ∈ s.used := by simpa using hu
      refine ⟨h.checked_nil, ?_, h.used_iff, h.nodup, h.fresh, ?_, ?_⟩
      · intro t' ht'
        rcases List.mem_cons.mp ht' with rfl | ht'
        · exact hmem
        · exact h.done_used t' ht'
      · intro t' ht'; exact List.mem_cons_of_mem _ (h.acc_done t' ht')
      · show (s.used, s.accepted) = seqSpec idx used0 (t :: s.done).reverse
        rw [List.reverse_cons]
        unfold seqSpec
        rw [List.foldl_append]
        have := h.lin
        unfold seqSpec at this
        rw [← this]
        simp [hmem]
    · rw [if_neg hd, if_neg hu]
      have hnm : idx t ∉ s.used := by simpa using hu
      refine ⟨h.checked_nil, ?_, ?_, ?_, ?_, ?_, ?_⟩
      · intro t' ht'
        rcases List.mem_cons.mp ht' with rfl | ht'
        · exact List.mem_cons_self
        · exact List.mem_cons_of_mem _ (h.done_used t' ht')
      · intro v
        simp only [List.mem_cons, List.map_cons, h.used_iff v]
        constructor
        · rintro (h1 | h1 | h1) <;> simp [h1]
        · rintro (h1 | h1 | h1) <;> simp [h1]
      · simp only [List.map_cons, List.nodup_cons]
        refine ⟨fun hm => hnm ((h.used_iff _).mpr (Or.inr hm)), h.nodup⟩
      · intro t' ht'
        rcases List.mem_cons.mp ht' with rfl | ht'
        · exact fun h0 => hnm ((h.used_iff _).mpr (Or.inl h0))
        · exact h.fresh t' ht'
      · intro t' ht'
        rcases List.mem_cons.mp ht' with rfl | ht'
        · exact List.mem_cons_self
        · exact List.mem_cons_of_mem _ (h.acc_done t' ht')
      · show (idx t :: s.used, t :: s.accepted) = seqSpec idx used0 (t :: s.done).reverse
        rw [List.reverse_cons]
        unfold seqSpec
        rw [List.foldl_append]
        have := h.lin
        unfold seqSpec at this
        rw [← this]
        simp [hnm]

theorem inv_run (idx : Nat → Nat) (used0 : List Nat) (sched : List Nat) :
    ∀ s, Inv idx used0 s → Inv idx used0 (run (atomicStep idx) s sched) := by
  induction sched with
  | nil => intro s h; exact h
  | cons t rest ih => intro s h; exact ih _ (inv_step idx used0 s t h)

/-- **at_most_one_accept** — any number of threads, any indices, EVERY interleaving: no index value is accepted
twice, and no value that was already in the set is accepted at all. -/
theorem at_most_one_accept (idx : Nat → Nat) (used0 sched : List Nat) (v : Nat) :
    ((run (atomicStep idx) (init used0) sched).accepted.map idx).count v ≤ 1 ∧
    (v ∈ used0 → ((run (atomicStep idx) (init used0) sched).accepted.map idx).count v = 0) := by
  have h := inv_run idx used0 sched _ (inv_init idx used0)
  refine ⟨List.nodup_iff_count.mp h.nodup v, ?_⟩
  intro hv
  rw [List.count_eq_zero]
  intro hm
  obtain ⟨t, ht, rfl⟩ := List.mem_map.mp hm
  exact h.fresh t ht hv

/-- **exactly_one_accept** — once some caller of a fresh value `v` has returned, EXACTLY one caller of `v` has been
accepted, whatever the interleaving of the `k` concurrent draws (in particular: `k` threads released together on
one fresh index — the suite `c06_race` — give `accepted = 1` per round). -/
theorem exactly_one_accept (idx : Nat → Nat) (used0 sched : List Nat) (v : Nat) (hv : v ∉ used0)
    (hdone : ∃ t ∈ (run (atomicStep idx) (init used0) sched).done, idx t = v) :
    ((run (atomicStep idx) (init used0) sched).accepted.map idx).count v = 1 := by
  have h := inv_run idx used0 sched _ (inv_init idx used0)
  obtain ⟨t, ht, rfl⟩ := hdone
  have hm : idx t ∈ (run (atomicStep idx) (init used0) sched).accepted.map idx := by
    rcases (h.used_iff _).mp (h.done_used t ht) with h0 | h0
    · exact absurd h0 hv
    · exact h0
  have h1 := List.nodup_iff_count.mp h.nodup (idx t)
  have h2 := List.count_pos_iff.mpr hm
  omega

/-- **use_index_linearizable** — the concurrent execution under any schedule ends with the set and the accepted
callers of the SEQUENTIAL specification run in completion order. -/
theorem use_index_linearizable (idx : Nat → Nat) (used0 sched : List Nat) :
    let s := run (atomicStep idx) (init used0) sched
    (s.used, s.accepted) = seqSpec idx used0 s.done.reverse :=
  (inv_run idx used0 sched _ (inv_init idx used0)).lin

theorem step_done_mono (idx : Nat → Nat) (s : State) (a t : Nat) (h : t ∈ s.done) : t ∈ (atomicStep idx s a).done := by
  unfold atomicStep
  by_cases hd : s.done.contains a = true
  · rw [if_pos hd]; exact h
  · by_cases hu : s.used.contains (idx a) = true
    · rw [if_neg hd, if_pos hu]; exact List.mem_cons_of_mem _ h
    · rw [if_neg hd, if_neg hu]; exact List.mem_cons_of_mem _ h

theorem step_done_self (idx : Nat → Nat) (s : State) (a : Nat) : a ∈ (atomicStep idx s a).done := by
  unfold atomicStep
  by_cases hd : s.done.contains a = true
  · rw [if_pos hd]; simpa using hd
  · by_cases hu : s.used.contains (idx a) = true
    · rw [if_neg hd, if_pos hu]; exact List.mem_cons_self
    · rw [if_neg hd, if_neg hu]; exact List.mem_cons_self

/-- every scheduled thread has returned: one scheduling slot suffices for a call (the call never blocks others) -/
theorem scheduled_done (idx : Nat → Nat) (sched : List Nat) : ∀ (s : State) (t : Nat), t ∈ sched ∨ t ∈ s.done →
    t ∈ (run (atomicStep idx) s sched).done := by
  induction sched with
  | nil =>
    intro s t h
    rcases h with h | h
    · cases h
    · exact h
  | cons a rest ih =>
    intro s t h
    apply ih
    rcases h with h | h
    · rcases List.mem_cons.mp h with rfl | h
      · exact Or.inr (step_done_self idx s t)
      · exact Or.inl h
    · exact Or.inr (step_done_mono idx s a t h)

/-- the translator's reading of the source: one lock acquisition, the `insert` result decides, no separate lookup -/
theorem code_is_atomic : codeIsAtomic = true := by decide

/-- **use_index_code** — the statements above for `use_index` AS THE CODE HAS IT (`codeStep` is selected by the
generated constants): `k` concurrent draws of the same fresh index, every interleaving in which they all run:
exactly one is accepted. -/
theorem use_index_code (k v : Nat) (hk : 0 < k) (used0 sched : List Nat) (hv : v ∉ used0)
    (hall : ∀ t, t < k → t ∈ sched) :
    ((run (codeStep fun _ => v) (init used0) sched).accepted).length = 1 := by
  have hc : codeStep (fun _ => v) = atomicStep (fun _ => v) := by simp [codeStep, code_is_atomic]
  rw [hc]
  have h1 := exactly_one_accept (fun _ => v) used0 sched v hv
    ⟨0, scheduled_done _ sched _ 0 (Or.inl (hall 0 hk)), rfl⟩
  simpa [List.count_replicate_self, List.map_const'] using h1

example : ∀ t, t < 4 → t ∈ [2, 0, 3, 3, 1, 0] := by decide
example : (run (codeStep fun _ => 7) (init [1, 2]) [2, 0, 3, 3, 1, 0]).accepted = [2] := by decide

/-- **split_accepts_twice** (why atomicity is required; independent seed `C06d`): with the lookup and the insert
under separate guards, two threads drawing the same fresh index are BOTH accepted under the interleaving
lookup₀, lookup₁, insert₀, insert₁ — the set ends up with one entry and nobody is told. -/
theorem split_accepts_twice :
    (run (splitStep fun _ => 7) (init []) [0, 1, 0, 1]).accepted = [1, 0] ∧
    (run (splitStep fun _ => 7) (init []) [0, 1, 0, 1]).used = [7] ∧
    (run (atomicStep fun _ => 7) (init []) [0, 1, 0, 1]).accepted = [0] := by decide

/-- sequentially nothing distinguishes the two (which is why single-threaded tests cannot): if every call runs
its two steps back to back, the check-then-act variant behaves exactly like the atomic one. -/
theorem split_sequential_eq_atomic (idx : Nat → Nat) (sched : List Nat) : ∀ s, s.checked = [] →
    run (splitStep idx) s (sched.flatMap fun t => [t, t]) = run (atomicStep idx) s sched := by
  induction sched with
  | nil => intro s _; rfl
  | cons t rest ih =>
    intro s hs
    have key : splitStep idx (splitStep idx s t) t = atomicStep idx s t := by
      by_cases hd : s.done.contains t = true
      · have e1 : splitStep idx s t = s := by unfold splitStep; rw [if_pos hd]
        rw [e1, e1]; unfold atomicStep; rw [if_pos hd]
      · have hck : ¬ s.checked.contains t = true := by rw [hs]; simp
        by_cases hu : s.used.contains (idx t) = true
        · have e1 : splitStep idx s t = { s with done := t :: s.done } := by
            unfold splitStep; rw [if_neg hd, if_neg hck, if_pos hu]
          have e2 : atomicStep idx s t = { s with done := t :: s.done } := by
            unfold atomicStep; rw [if_neg hd, if_pos hu]
          rw [e1, e2]
          unfold splitStep
          rw [if_pos (by simp)]
        · have e1 : splitStep idx s t = { s with checked := t :: s.checked } := by
            unfold splitStep; rw [if_neg hd, if_neg hck, if_neg hu]
          have e2 : atomicStep idx s t = { s with used := idx t :: s.used, done := t :: s.done, accepted := t :: s.accepted } := by
            unfold atomicStep; rw [if_neg hd, if_neg hu]
          rw [e1, e2]
          unfold splitStep
          rw [if_neg (by simpa using hd), if_pos (by simp), if_neg (by simpa using hu)]
          simp [hs]
    have hc : (atomicStep idx s t).checked = [] := by
      unfold atomicStep
      by_cases hd : s.done.contains t = true
      · rw [if_pos hd]; exact hs
      · by_cases hu : s.used.contains (idx t) = true
        · rw [if_neg hd, if_pos hu]; exact hs
        · rw [if_neg hd, if_neg hu]; exact hs
    simp only [List.flatMap_cons, run, List.foldl_append, List.foldl_cons, List.foldl_nil]
    rw [key]
    exact ih _ hc

end IpaVerif.C06Race
