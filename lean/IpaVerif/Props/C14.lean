import IpaVerif.Model.CircularBuf
import IpaVerif.Proofs.CircularBuf
/-!
# C14 — send and receive buffers behave as an ordered byte queue under all interleavings

Part (a): `CircularBuf` (`ipa-core/src/helpers/buffers/circular.rs`) refines a FIFO byte queue.
-/
namespace IpaVerif.C14
open IpaVerif.CircularBuf

/-- **`CircularBuf` refines a FIFO byte queue.**  For every `(capacity, write_size, read_size)`
accepted by `CircularBuf::new` and EVERY sequence of `next().write(m)` / `take()` / `close()`
operations, the trace of the ring buffer — result of each operation (bytes returned by `take`,
or a panic) together with `len`, `can_read`, `can_write`, `is_closed` after it — is the trace of
the reference queue `specStep` over `List Nat`:
* `len = |queue|`;
* `take` returns exactly the first `min(read_size, len)` queued bytes when
  `(closed ∧ queue ≠ []) ∨ len ≥ read_size` (= `can_read`) and `[]` otherwise;
* a write is accepted iff the buffer is open, `capacity − len ≥ write_size` (= `can_write`) and
  the message has `write_size` bytes, and then appends the message; otherwise it panics;
* `close` panics iff already closed.
Panic messages are compared up to their text (`eraseMsg`). -/
theorem circ_refines_queue {cap ws rs : Nat} {b0 : Buf} (hnew : Buf.new cap ws rs = .ok b0)
    (ops : List Op) :
    (run b0 ops).map (fun p => (p.1.eraseMsg, p.2)) = specRun ⟨cap, ws, rs⟩ ⟨[], false⟩ ops := by
  obtain ⟨hinv, habs, hcl, hcap, hws, hrs⟩ := new_inv hnew
  exact R.run_eq ops ⟨hinv, habs, hcl, hcap, hws, hrs⟩

/-- `new` accepts exactly: all three sizes positive, `write_size ∣ capacity`, `write_size ∣ read_size`
(note: `read_size ≤ capacity` is documented but *not* checked by the code). -/
theorem circ_new_accepts_iff (cap ws rs : Nat) :
    (∃ b, Buf.new cap ws rs = .ok b) ↔ 0 < cap ∧ 0 < ws ∧ 0 < rs ∧ cap % ws = 0 ∧ rs % ws = 0 := by
  unfold Buf.new
  constructor
  · rintro ⟨b, h⟩
    split at h; · cases h
    split at h; · cases h
    split at h; · cases h
    omega
  · rintro ⟨h1, h2, h3, h4, h5⟩
    rw [if_neg (by omega), if_neg (by omega), if_neg (by omega)]
    exact ⟨_, rfl⟩

theorem exec_sim {c : Cfg} (ops : List Op) : ∀ {b b' : Buf} {s : Q}, R c b s → exec b ops = .ok b' →
    ∃ s', R c b' s' := by
  induction ops with
  | nil => intro b b' s r h; cases h; exact ⟨s, r⟩
  | cons op rest ih =>
    intro b b' s r h
    have hs := r.sim op
    simp only [exec] at h
    cases h1 : step b op with
    | error e => rw [h1] at h; cases h
    | ok p =>
      obtain ⟨b1, o⟩ := p
      rw [h1] at h hs
      cases h2 : specStep c s op with
      | none => rw [h2] at hs; exact hs.elim
      | some p' => rw [h2] at hs; exact ih hs.2 h

/-- **Cursor invariant** in every reachable state: both cursors stay in `[0, 2·capacity)` and are
multiples of `write_size`, the write cursor is ahead of the read cursor by `len ≤ capacity`
(mod `2·capacity`), and the capacity never changes. -/
theorem circ_cursor_invariant {cap ws rs : Nat} {b0 b : Buf} (hnew : Buf.new cap ws rs = .ok b0)
    (ops : List Op) (h : exec b0 ops = .ok b) :
    b.read < 2 * cap ∧ b.write < 2 * cap ∧ ws ∣ b.read ∧ ws ∣ b.write ∧ b.len ≤ cap ∧
    b.capacity = cap ∧
    ((b.read ≤ b.write ∧ b.len = b.write - b.read) ∨
     (b.write < b.read ∧ b.len = 2 * cap + b.write - b.read)) := by
  obtain ⟨hinv, habs, hcl, hcap, hws, hrs⟩ := new_inv hnew
  obtain ⟨s', r⟩ := exec_sim (c := ⟨cap, ws, rs⟩) (s := ⟨[], false⟩) ops ⟨hinv, habs, hcl, hcap, hws, hrs⟩ h
  have hl := len_eq r.inv
  have hle := len_le r.inv
  have := r.inv.rLt; have := r.inv.wLt
  have hc : b.capacity = cap := r.cap_eq
  have hw : b.writeSize = ws := r.ws_eq
  subst hc hw
  refine ⟨r.inv.rLt, r.inv.wLt, r.inv.rAl, r.inv.wAl, hle, rfl, ?_⟩
  rcases r.inv.ahead with ⟨h1, h2⟩ | ⟨h1, h2⟩
  · left; exact ⟨h1, by rw [hl, if_pos h1]⟩
  · right; exact ⟨h1, by rw [hl, if_neg (by omega)]⟩

/-- A buffer that refuses a write while open is readable, provided `read_size ≤ capacity`
(the configuration `OrderingSender` is used with — C13 `config_aligned`): a full buffer can always
be drained, so a blocked writer is never blocked forever. -/
theorem circ_full_can_read {cap ws rs : Nat} {b0 b : Buf} (hnew : Buf.new cap ws rs = .ok b0)
    (hrs : rs ≤ cap) (ops : List Op) (h : exec b0 ops = .ok b)
    (hopen : b.closed = false) (hfull : b.canWrite = false) : b.canRead = true := by
  obtain ⟨hinv, habs, hcl, hcap, hws, hrs'⟩ := new_inv hnew
  obtain ⟨s', r⟩ := exec_sim (c := ⟨cap, ws, rs⟩) (s := ⟨[], false⟩) ops ⟨hinv, habs, hcl, hcap, hws, hrs'⟩ h
  have hle := len_le r.inv
  have hd := len_dvd r.inv
  rw [canRead_iff r.inv]
  right
  have hnw : ¬ (b.writeSize ≤ b.capacity - b.len) := by
    intro hc
    have := (canWrite_iff b).mpr ⟨hopen, hc⟩
    rw [hfull] at this; cases this
  -- len is a multiple of ws, strictly above cap - ws, at most cap  ⇒  len = cap
  have hlt : ¬ b.len < b.capacity := by
    intro hlt
    have := dvd_step hd r.inv.wsCap hlt
    omega
  have hc : b.capacity = cap := r.cap_eq
  have hr : b.readSize = rs := r.rs_eq
  omega

/-- Non-vacuity: a concrete accepted configuration with a wrapping read (`read_size ∤ capacity`). -/
example : ∃ b0, Buf.new 6 2 4 = .ok b0 ∧ (run b0 [.write [1, 2], .write [3, 4], .take, .write [5, 6],
    .write [7, 8], .write [9, 10], .take, .close, .take, .take]).map (·.1) =
    [.done, .done, .bytes [1, 2, 3, 4], .done, .done, .done, .bytes [5, 6, 7, 8], .done,
     .bytes [9, 10], .bytes []] := ⟨_, rfl, by decide⟩

end IpaVerif.C14
