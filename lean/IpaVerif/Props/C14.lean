import IpaVerif.Model.CircularBuf
import IpaVerif.Proofs.CircularBuf
import IpaVerif.Proofs.OrderingSender
import IpaVerif.Proofs.UnorderedReceiver
/-!
# C14 — send and receive buffers behave as an ordered byte queue under all interleavings

Part (a): `CircularBuf` (`ipa-core/src/helpers/buffers/circular.rs`) refines a FIFO byte queue.
-/
namespace IpaVerif.C14
open IpaVerif.CircularBuf

/-- **`CircularBuf` refines a FIFO byte queue.**  For every `(capacity, write_size, read_size)`
accepted by `CircularBuf::new` and EVERY sequence of `next().write(m)` / `take()` / `close()`
operations, the trace of the ring buffer — result of each operation (bytes returned by `take`,
or a panic) together with `len`, `can_read`, `can_write`, `is_closed` after it — is the trace of
the reference queue `specStep` over `List Nat`:
* `len = |queue|`;
* `take` returns exactly the first `min(read_size, len)` queued bytes when
  `(closed ∧ queue ≠ []) ∨ len ≥ read_size` (= `can_read`) and `[]` otherwise;
* a write is accepted iff the buffer is open, `capacity − len ≥ write_size` (= `can_write`) and
  the message has `write_size` bytes, and then appends the message; otherwise it panics;
* `close` panics iff already closed.
Panic messages are compared up to their text (`eraseMsg`). -/
theorem circ_refines_queue {cap ws rs : Nat} {b0 : Buf} (hnew : Buf.new cap ws rs = .ok b0)
    (ops : List Op) :
    (run b0 ops).map (fun p => (p.1.eraseMsg, p.2)) = specRun ⟨cap, ws, rs⟩ ⟨[], false⟩ ops := by
  obtain ⟨hinv, habs, hcl, hcap, hws, hrs⟩ := new_inv hnew
  exact R.run_eq ops ⟨hinv, habs, hcl, hcap, hws, hrs⟩

/-- `new` accepts exactly: all three sizes positive, `write_size ∣ capacity`, `write_size ∣ read_size`
(note: `read_size ≤ capacity` is documented but *not* checked by the code). -/
theorem circ_new_accepts_iff (cap ws rs : Nat) :
    (∃ b, Buf.new cap ws rs = .ok b) ↔ 0 < cap ∧ 0 < ws ∧ 0 < rs ∧ cap % ws = 0 ∧ rs % ws = 0 := by
  unfold Buf.new
  constructor
  · rintro ⟨b, h⟩
    split at h; · cases h
    split at h; · cases h
    split at h; · cases h
    omega
  · rintro ⟨h1, h2, h3, h4, h5⟩
    rw [if_neg (by omega), if_neg (by omega), if_neg (by omega)]
    exact ⟨_, rfl⟩

theorem exec_sim {c : Cfg} (ops : List Op) : ∀ {b b' : Buf} {s : Q}, R c b s → exec b ops = .ok b' →
    ∃ s', R c b' s' := by
  induction ops with
  | nil => intro b b' s r h; cases h; exact ⟨s, r⟩
  | cons op rest ih =>
    intro b b' s r h
    have hs := r.sim op
    simp only [exec] at h
    cases h1 : step b op with
    | error e => rw [h1] at h; cases h
    | ok p =>
      obtain ⟨b1, o⟩ := p
      rw [h1] at h hs
      cases h2 : specStep c s op with
      | none => rw [h2] at hs; exact hs.elim
      | some p' => rw [h2] at hs; exact ih hs.2 h

/-- **Cursor invariant** in every reachable state: both cursors stay in `[0, 2·capacity)` and are
multiples of `write_size`, the write cursor is ahead of the read cursor by `len ≤ capacity`
(mod `2·capacity`), and the capacity never changes. -/
theorem circ_cursor_invariant {cap ws rs : Nat} {b0 b : Buf} (hnew : Buf.new cap ws rs = .ok b0)
    (ops : List Op) (h : exec b0 ops = .ok b) :
    b.read < 2 * cap ∧ b.write < 2 * cap ∧ ws ∣ b.read ∧ ws ∣ b.write ∧ b.len ≤ cap ∧
    b.capacity = cap ∧
    ((b.read ≤ b.write ∧ b.len = b.write - b.read) ∨
     (b.write < b.read ∧ b.len = 2 * cap + b.write - b.read)) := by
  obtain ⟨hinv, habs, hcl, hcap, hws, hrs⟩ := new_inv hnew
  obtain ⟨s', r⟩ := exec_sim (c := ⟨cap, ws, rs⟩) (s := ⟨[], false⟩) ops ⟨hinv, habs, hcl, hcap, hws, hrs⟩ h
  have hl := len_eq r.inv
  have hle := len_le r.inv
  have := r.inv.rLt; have := r.inv.wLt
  have hc : b.capacity = cap := r.cap_eq
  have hw : b.writeSize = ws := r.ws_eq
  subst hc hw
  refine ⟨r.inv.rLt, r.inv.wLt, r.inv.rAl, r.inv.wAl, hle, rfl, ?_⟩
  rcases r.inv.ahead with ⟨h1, h2⟩ | ⟨h1, h2⟩
  · left; exact ⟨h1, by rw [hl, if_pos h1]⟩
  · right; exact ⟨h1, by rw [hl, if_neg (by omega)]⟩

/-- A buffer that refuses a write while open is readable, provided `read_size ≤ capacity`
(the configuration `OrderingSender` is used with — C13 `config_aligned`): a full buffer can always
be drained, so a blocked writer is never blocked forever. -/
theorem circ_full_can_read {cap ws rs : Nat} {b0 b : Buf} (hnew : Buf.new cap ws rs = .ok b0)
    (hrs : rs ≤ cap) (ops : List Op) (h : exec b0 ops = .ok b)
    (hopen : b.closed = false) (hfull : b.canWrite = false) : b.canRead = true := by
  obtain ⟨hinv, habs, hcl, hcap, hws, hrs'⟩ := new_inv hnew
  obtain ⟨s', r⟩ := exec_sim (c := ⟨cap, ws, rs⟩) (s := ⟨[], false⟩) ops ⟨hinv, habs, hcl, hcap, hws, hrs'⟩ h
  have hle := len_le r.inv
  have hd := len_dvd r.inv
  rw [canRead_iff r.inv]
  right
  have hnw : ¬ (b.writeSize ≤ b.capacity - b.len) := by
    intro hc
    have := (canWrite_iff b).mpr ⟨hopen, hc⟩
    rw [hfull] at this; cases this
  -- len is a multiple of ws, strictly above cap - ws, at most cap  ⇒  len = cap
  have hlt : ¬ b.len < b.capacity := by
    intro hlt
    have := dvd_step hd r.inv.wsCap hlt
    omega
  have hc : b.capacity = cap := r.cap_eq
  have hr : b.readSize = rs := r.rs_eq
  omega

/-- Non-vacuity: a concrete accepted configuration with a wrapping read (`read_size ∤ capacity`). -/
example : ∃ b0, Buf.new 6 2 4 = .ok b0 ∧ (run b0 [.write [1, 2], .write [3, 4], .take, .write [5, 6],
    .write [7, 8], .write [9, 10], .take, .close, .take, .take]).map (·.1) =
    [.done, .done, .bytes [1, 2, 3, 4], .done, .done, .done, .bytes [5, 6, 7, 8], .done,
     .bytes [9, 10], .bytes []] := ⟨_, rfl, by decide⟩

/-! ## Part (b): `OrderingSender` at poll granularity -/
section Sender
open IpaVerif.OrderingSender


/-- One trace item of the model against one of the specification. -/
def itemOk : Except String OrderingSender.Out → Option (Res × List Task) → Prop
  | .error _, none => True
  | .ok o, some (r, req) => o.res = r ∧ ∀ w ∈ req, w ∈ o.woken
  | _, _ => False

/-- Pointwise `itemOk` on two traces of the same length. -/
def traceOk : List (Except String OrderingSender.Out) → List (Option (Res × List Task)) → Prop
  | [], [] => True
  | a :: as, b :: bs => itemOk a b ∧ traceOk as bs
  | _, _ => False

theorem run_refines (ops : List OrderingSender.Op) : ∀ {s : State} {p : Spec}, SR s p →
    traceOk (OrderingSender.run s ops) (p.run ops) := by
  induction ops with
  | nil => intros; exact trivial
  | cons op rest ih =>
    intro s p h
    have hs := sim_step h op
    unfold Sim at hs
    simp only [OrderingSender.run, Spec.run]
    cases h1 : OrderingSender.step s op with
    | error e =>
      cases h2 : p.step op with
      | none => exact ⟨trivial, trivial⟩
      | some x => rw [h1, h2] at hs; exact hs.elim
    | ok x =>
      obtain ⟨s', o⟩ := x
      cases h2 : p.step op with
      | none => rw [h1, h2] at hs; exact hs.elim
      | some y =>
        obtain ⟨p', r, req⟩ := y
        rw [h1, h2] at hs
        exact ⟨⟨hs.1, hs.2.1⟩, ih hs.2.2⟩

/-- What an observer of the polls sees: bytes emitted by the stream, bytes of the accepted messages
in acceptance order, the indices of the accepted sends/closes in acceptance order, whether a close
was accepted, whether `Ready(None)` was seen, and whether every chunk emitted before the close had
exactly `rs` bytes. -/
structure Ghost where
  emitted : List Nat := []
  accepted : List Nat := []
  readyIdx : List Nat := []
  closedSeen : Bool := false
  finishedSeen : Bool := false
  chunksOk : Bool := true
  drainedAtFinish : Bool := true

def ghostStep (rs : Nat) (g : Ghost) (op : OrderingSender.Op) (r : Res) : Ghost :=
  match op, r with
  | .pollSend _ i m, .ready => { g with accepted := g.accepted ++ m, readyIdx := g.readyIdx ++ [i] }
  | .pollClose _ i, .ready => { g with readyIdx := g.readyIdx ++ [i], closedSeen := true }
  | .pollTake _, .chunk v =>
    { g with emitted := g.emitted ++ v,
             chunksOk := g.chunksOk && (g.closedSeen || (v.length == rs)) }
  | .pollTake _, .finished =>
    { g with finishedSeen := true, drainedAtFinish := g.drainedAtFinish && (g.emitted == g.accepted) }
  | _, _ => g

def observe (rs : Nat) (g : Ghost) : List OrderingSender.Op → List (Except String OrderingSender.Out) → Ghost
  | op :: ops, .ok o :: tr => observe rs (ghostStep rs g op o.res) ops tr
  | _, _ => g

/-- Ghost invariant against the specification state. -/
structure GI (p : Spec) (g : Ghost) : Prop where
  bytes : g.emitted ++ p.q = g.accepted
  idx : g.readyIdx = List.range p.next
  closed : g.closedSeen = p.closed
  chunks : g.chunksOk = true
  drained : g.drainedAtFinish = true

theorem GI_step {p p' : Spec} {g : Ghost} {op : OrderingSender.Op} {r : Res} {req : List Task}
    (h : GI p g) (hs : p.step op = some (p', r, req)) : GI p' (ghostStep p.rs g op r) ∧ p'.rs = p.rs := by
  cases op with
  | pollSend t i m =>
    simp only [Spec.step] at hs
    split at hs; · cases hs
    split at hs
    · split at hs; · cases hs
      split at hs
      · cases hs; exact ⟨⟨h.bytes, h.idx, h.closed, h.chunks, h.drained⟩, rfl⟩
      · split at hs; · cases hs
        cases hs
        rename_i h1 h2 _ _ _
        refine ⟨⟨?_, ?_, h.closed, h.chunks, h.drained⟩, rfl⟩
        · simp only [ghostStep]; rw [← h.bytes]; simp
        · simp only [ghostStep]; rw [h.idx, h2, List.range_succ]
    · cases hs; exact ⟨⟨h.bytes, h.idx, h.closed, h.chunks, h.drained⟩, rfl⟩
  | pollClose t i =>
    simp only [Spec.step] at hs
    split at hs; · cases hs
    split at hs
    · split at hs; · cases hs
      cases hs
      rename_i h1 h2 _
      refine ⟨⟨h.bytes, ?_, rfl, h.chunks, h.drained⟩, rfl⟩
      simp only [ghostStep]; rw [h.idx, h2, List.range_succ]
    · cases hs; exact ⟨⟨h.bytes, h.idx, h.closed, h.chunks, h.drained⟩, rfl⟩
  | pollTake t =>
    simp only [Spec.step] at hs
    split at hs
    · cases hs
      rename_i hcr
      have hcr' : (p.closed = true ∧ p.q ≠ []) ∨ p.rs ≤ p.q.length := by
        simpa [Spec.canRead] using hcr
      refine ⟨⟨?_, h.idx, h.closed, ?_, h.drained⟩, rfl⟩
      · simp only [ghostStep]; rw [← h.bytes]; simp
      · simp only [ghostStep, h.chunks, h.closed, Bool.true_and, Bool.or_eq_true,
          beq_iff_eq, List.length_take]
        rcases hcr' with ⟨hc, _⟩ | hl
        · left; exact hc
        · right; omega
    · cases hs
      rename_i hcr
      split
      · rename_i hc
        refine ⟨⟨h.bytes, h.idx, h.closed, h.chunks, ?_⟩, rfl⟩
        have hcr' : ¬ ((p.closed = true ∧ p.q ≠ []) ∨ p.rs ≤ p.q.length) := by
          simpa [Spec.canRead] using hcr
        have hq : p.q = [] := by
          cases hq : p.q with
          | nil => rfl
          | cons a l => exact absurd (Or.inl ⟨hc, by rw [hq]; simp⟩) hcr'
        simp only [ghostStep, h.drained, Bool.true_and, beq_iff_eq]
        rw [← h.bytes, hq]; simp
      · exact ⟨⟨h.bytes, h.idx, h.closed, h.chunks, h.drained⟩, rfl⟩

theorem observe_inv (ops : List OrderingSender.Op) : ∀ {s : State} {p : Spec} {g : Ghost},
    SR s p → GI p g → ∃ p', GI p' (observe p.rs g ops (OrderingSender.run s ops)) ∧ p'.rs = p.rs := by
  induction ops with
  | nil => intro s p g _ hg; exact ⟨p, hg, rfl⟩
  | cons op rest ih =>
    intro s p g h hg
    have hs := sim_step h op
    unfold Sim at hs
    simp only [OrderingSender.run]
    cases h1 : OrderingSender.step s op with
    | error e => exact ⟨p, hg, rfl⟩
    | ok x =>
      obtain ⟨s', o⟩ := x
      cases h2 : p.step op with
      | none => rw [h1, h2] at hs; exact hs.elim
      | some y =>
        obtain ⟨p', r, req⟩ := y
        rw [h1, h2] at hs
        obtain ⟨hg', hrs⟩ := GI_step hg h2
        obtain ⟨p'', hg'', hrs''⟩ := ih hs.2.2 hg'
        refine ⟨p'', ?_, by rw [hrs'', hrs]⟩
        simp only [observe]
        rw [hs.1]
        rw [hrs] at hg''
        exact hg''

/-- **`OrderingSender` refines the ordered-queue specification, for every poll schedule.**
Any sequence of polls of `send(i, m)` / `close(i)` futures and of the stream — any indices, any
order, re-polls, any number of tasks and wakers — gives, poll by poll, the result (`Ready`,
`Pending`, chunk, end of stream, panic) of the specification `Spec` (a FIFO byte queue plus the index
`next`), and every waker the specification requires to be woken at that poll (the parked poll for
the index that has just become `next`; the parked stream when `read_size` bytes become available or
the sender is closed; the writer parked on a full buffer when a read makes room) is woken by the
implementation at that very poll: **no wake-up is lost**.  In particular `waiting.add` is never
rejected at poll granularity (the outcome `spin` is unreachable). -/
theorem sender_refines_spec {cap ws rs : Nat} {s0 : State} (hnew : State.new cap ws rs = .ok s0)
    (ops : List OrderingSender.Op) :
    traceOk (OrderingSender.run s0 ops) (Spec.run { cap, ws, rs } ops) :=
  run_refines ops (SR_init hnew)

/-- **The emitted stream is `msg 0 ‖ msg 1 ‖ …`** for every poll schedule: with `g` = what an
observer of the polls computes from requests and results alone,
* the messages were accepted in index order `0, 1, 2, …` whatever the order of arrival
  (`readyIdx = range n`; a duplicate or stale index is a panic, see `Spec.step`),
* the concatenation of the emitted chunks is a prefix of the concatenation of the accepted messages
  (in index order), the rest being exactly what is still buffered,
* every chunk emitted before `close` was accepted has exactly `read_size` bytes,
* when the stream reports its end (`Ready(None)`) everything accepted has been emitted. -/
theorem sender_stream_is_concat {cap ws rs : Nat} {s0 : State} (hnew : State.new cap ws rs = .ok s0)
    (ops : List OrderingSender.Op) :
    let g := observe rs {} ops (OrderingSender.run s0 ops)
    (∃ buffered, g.emitted ++ buffered = g.accepted) ∧
    g.readyIdx = List.range g.readyIdx.length ∧ g.chunksOk = true ∧ g.drainedAtFinish = true := by
  have h0 : GI { cap, ws, rs } {} := ⟨rfl, rfl, rfl, rfl, rfl⟩
  obtain ⟨p', hg, _⟩ := observe_inv ops (SR_init hnew) h0
  refine ⟨⟨p'.q, hg.bytes⟩, ?_, hg.chunks, hg.drained⟩
  rw [hg.idx, List.length_range]

/-- Poll-level wake-up invariant of every reachable state (any schedule without panic): the
per-shard waker lists are sorted by index and `woken_at ≤ next` in every shard, so a registration
(`waiting.add`) is never rejected and the waker saved for an index is always found by
`WaitingShard::wake` (the woken-at guard never fires at poll granularity; it exists for the
interleavings *inside* a poll, which are outside this model).  That the right waker is woken at the
right poll is `sender_refines_spec`. -/
theorem no_lost_wakeup {cap ws rs : Nat} {s0 s : State} (hnew : State.new cap ws rs = .ok s0)
    (ops : List OrderingSender.Op) (h : OrderingSender.exec s0 ops = .ok s) :
    (∀ k, (s.shards k).wakers.Pairwise (fun a b => a.i < b.i)) ∧
    (∀ k, (s.shards k).wokenAt ≤ s.next) ∧
    (∀ i t, ∃ s', s.waitingAdd i t = .ok s') := by
  have key : ∀ (ops : List OrderingSender.Op) {s1 : State} {p : Spec}, SR s1 p →
      OrderingSender.exec s1 ops = .ok s → ∃ p', SR s p' := by
    intro ops
    induction ops with
    | nil => intro s1 p h1 he; cases he; exact ⟨p, h1⟩
    | cons op rest ih =>
      intro s1 p h1 he
      have hs := sim_step h1 op
      unfold Sim at hs
      simp only [OrderingSender.exec] at he
      cases e1 : OrderingSender.step s1 op with
      | error e => rw [e1] at he; cases he
      | ok x =>
        obtain ⟨s', o⟩ := x
        rw [e1] at he hs
        cases e2 : p.step op with
        | none => rw [e2] at hs; exact hs.elim
        | some y => rw [e2] at hs; exact ih hs.2.2 he
  obtain ⟨p', hsr⟩ := key ops (SR_init hnew) h
  refine ⟨hsr.shards.sorted, hsr.shards.woken_le, ?_⟩
  intro i t
  obtain ⟨s', hs', _⟩ := waitingAdd_spec s i t hsr.shards
  exact ⟨s', hs'⟩

example : ∃ s0, State.new 4 2 2 = .ok s0 ∧
    (OrderingSender.run s0 [.pollSend 11 1 [3, 4], .pollSend 10 0 [1, 2], .pollTake 99]).map
      (fun r => r.toOption.map (·.res)) = [some .pending, some .ready, some (.chunk [1, 2])] :=
  ⟨_, rfl, by decide⟩

end Sender

/-! ## Part (c): `UnorderedReceiver`

Granularity: unlike `OrderingSender` (whose accesses to `next`, the waiting shards and the state
mutex interleave *inside* a poll — see `Props/C14Atomic.lean`), **all** state of `UnorderedReceiver`
(`next`, `spare`, `wakers`, `overflow_wakers` and the wrapped `stream` itself) lives in one
`Arc<Mutex<OperatingState>>`; `Receiver::poll` takes that lock in its first statement
(`let mut recv = this.shared_state.lock().unwrap();`) and holds the guard until it returns,
including the poll of the underlying stream.  There are no atomics or other shared cells.  Hence two
polls can never interleave: a poll IS an atomic step and the poll-level model below *is* the
atomic-level model; "all interleavings" = all sequences of polls/feeds, which is what
`receiver_indexing` / `receiver_wakeups` quantify over.  The structure this argument rests on is
pinned by the translator items `buffers.atomic.receiver.*`. -/
section Receiver
open IpaVerif.UnorderedReceiver

/-- What an observer knows: bytes fed so far, number of requests fulfilled, whether the stream ended. -/
structure RGhost where
  fed : List Nat := []
  next : Nat := 0
  ended : Bool := false

def RGhost.after (g : RGhost) (op : UnorderedReceiver.Op) (o : UnorderedReceiver.Out) : RGhost :=
  match op, o.res with
  | .feed c, _ => { g with fed := g.fed ++ c }
  | .finish, _ => { g with ended := true }
  | .recv _ _, .ok _ => { g with next := g.next + 1 }
  | .recv _ _, _ => g

/-- The specification of one poll in terms of the observer's knowledge only. -/
def recvItemOk (sz : Nat) (g : RGhost) (op : UnorderedReceiver.Op) (o : UnorderedReceiver.Out) : Prop :=
  match op with
  | .recv _ i =>
    (∀ m, o.res = .ok m → i = g.next ∧ m = (g.fed.drop (i * sz)).take sz ∧ (i + 1) * sz ≤ g.fed.length) ∧
    (∀ n, o.res = .eos n → n = i ∧ i = g.next ∧ g.ended = true ∧ g.fed.length < (i + 1) * sz) ∧
    (o.res = .pending → i > g.next ∨ (i = g.next ∧ g.ended = false ∧ g.fed.length < (i + 1) * sz)) ∧
    o.res ≠ .none
  | _ => True

def recvTraceOk (sz : Nat) : RGhost → List UnorderedReceiver.Op → List (Except String UnorderedReceiver.Out) → Prop
  | _, [], [] => True
  | g, op :: ops, .ok o :: tr => recvItemOk sz g op o ∧ recvTraceOk sz (g.after op o) ops tr
  | g, op :: _, [.error _] => ∃ t i, op = .recv t i ∧ i < g.next
  | _, _, _ => False

theorem recv_run_ok (ops : List UnorderedReceiver.Op) : ∀ {s : State} {g : RGhost},
    RInv s g.fed → s.next = g.next → s.ended = g.ended →
    recvTraceOk s.sz g ops (UnorderedReceiver.run s ops) := by
  induction ops with
  | nil => intros; exact trivial
  | cons op rest ih =>
    intro s g h hn he
    simp only [UnorderedReceiver.run]
    cases hs : UnorderedReceiver.step s op with
    | error e =>
      -- the only panic: a request that was already fulfilled
      cases op with
      | feed c => simp [UnorderedReceiver.step] at hs
      | finish => simp [UnorderedReceiver.step] at hs
      | recv t i =>
        refine ⟨t, i, rfl, ?_⟩
        simp only [UnorderedReceiver.step] at hs
        split at hs
        · split at hs
          · cases hs
          · split at hs
            · cases hs
            · split at hs <;> cases hs
        · split at hs
          · cases hs
          · omega
    | ok x =>
      obtain ⟨s', o⟩ := x
      obtain ⟨hinv', hsz, hcap, hrecv⟩ := recv_step h hs
      refine ⟨?_, ?_⟩
      · cases op with
        | feed c => trivial
        | finish => trivial
        | recv t i =>
          have hr := hrecv t i rfl
          refine ⟨?_, ?_, ?_, hr.not_none⟩
          · intro m hm
            obtain ⟨a, b, c, _⟩ := hr.ok_slice m hm
            exact ⟨by omega, b, c⟩
          · intro n hn'
            obtain ⟨a, b, c, d⟩ := hr.eos_short n hn'
            exact ⟨a, by omega, by rw [← he]; exact c, d⟩
          · intro hp
            rcases hr.pending hp with h1 | ⟨h1, h2, h3⟩
            · left; omega
            · right; exact ⟨by omega, by rw [← he]; exact h2, h3⟩
      · rw [← hsz]
        obtain ⟨hend, hnext⟩ := step_fields hs
        apply ih
        · cases op with
          | feed c => simpa [RGhost.after, fedAfter] using hinv'
          | finish => simpa [RGhost.after, fedAfter] using hinv'
          | recv t i =>
            simp only [fedAfter] at hinv'
            cases hres : o.res <;> simp only [RGhost.after, hres] <;> exact hinv'
        · cases op with
          | feed c => simp only [UnorderedReceiver.step] at hs; cases hs; exact hn
          | finish => simp only [UnorderedReceiver.step] at hs; cases hs; exact hn
          | recv t i => cases hres : o.res <;> simp only [RGhost.after, hres] at hnext ⊢ <;> omega
        · cases op with
          | feed c => simp only [RGhost.after] at hend ⊢; rw [hend, he]
          | finish => simp only [RGhost.after] at hend ⊢; exact hend
          | recv t i => cases hres : o.res <;> simp only [RGhost.after, hres] at hend ⊢ <;> rw [hend, he]

theorem RInv_init {sz cap : Nat} {s0 : State} (h : State.new sz cap = .ok s0) :
    RInv s0 [] ∧ s0.next = 0 ∧ s0.ended = false ∧ s0.sz = sz ∧ s0.cap = cap := by
  unfold State.new Generated.Buffers.receiverMinCapacity at h
  split at h
  · cases h
  · cases h
    refine ⟨⟨by simp only []; omega, Nat.le_refl _, by simp [State.remaining], by simp, ?_, ?_⟩, rfl, rfl, rfl, rfl⟩
    · intro k w j hk; cases hk
    · intro w j hm; cases hm

/-- **Indexing.**  For every message size, capacity ≥ 2, every chunking of the byte stream (empty
chunks included) and every order and timing of `recv(i)` polls relative to the arrival of data:
a poll of `recv(i)` that resolves returns exactly bytes `[i·sz, (i+1)·sz)` of the stream, requests
resolve in index order, `recv(i)` stays pending only while it is not its turn or the bytes have not
arrived, `EndOfStream(i)` is returned only to the request whose turn it is, after the stream ended
with fewer than `(i+1)·sz` bytes, and the only panic is polling a request already fulfilled. -/
theorem receiver_indexing {sz cap : Nat} {s0 : State} (hnew : State.new sz cap = .ok s0)
    (ops : List UnorderedReceiver.Op) :
    recvTraceOk sz {} ops (UnorderedReceiver.run s0 ops) := by
  obtain ⟨h1, h2, h3, h4, _⟩ := RInv_init hnew
  have := recv_run_ok ops (s := s0) (g := {}) h1 h2 h3
  rw [h4] at this
  exact this

theorem exec_inv (ops : List UnorderedReceiver.Op) : ∀ {s s' : State} {fed : List Nat},
    RInv s fed → UnorderedReceiver.exec s ops = .ok s' → ∃ fed', RInv s' fed' ∧ s'.cap = s.cap := by
  induction ops with
  | nil => intro s s' fed h he; cases he; exact ⟨fed, h, rfl⟩
  | cons op rest ih =>
    intro s s' fed h he
    simp only [UnorderedReceiver.exec] at he
    cases hs : UnorderedReceiver.step s op with
    | error e => rw [hs] at he; cases he
    | ok x =>
      obtain ⟨s1, o⟩ := x
      rw [hs] at he
      obtain ⟨hinv', _, hcap, _⟩ := recv_step h hs
      obtain ⟨fed', h', hc'⟩ := ih hinv' he
      exact ⟨fed', h', by rw [hc', hcap]⟩

/-- **Wake-ups.**  In every reachable state (any chunking, any order/timing of polls) a parked
request `j` is strictly ahead of `next`: it sits in ring slot `j % c` if `j ≤ next + c`, otherwise in
the overflow list with `j > ⌊next⌋_{c/2} + c`; so no request whose turn has come is ever left
parked.  When request `next` resolves, the waker parked for `next + 1` (necessarily in the ring, at
the slot `wake_next` looks at) is woken in that same poll, and the whole overflow list is woken
whenever the new `next` is a multiple of `c/2` — before any overflowed index can become `next`. -/
theorem receiver_wakeups {sz cap : Nat} {s0 s : State} (hnew : State.new sz cap = .ok s0)
    (ops : List UnorderedReceiver.Op) (h : UnorderedReceiver.exec s0 ops = .ok s) :
    (∀ k w j, s.ring k = some (w, j) → j % cap = k ∧ s.next < j ∧ j ≤ s.next + cap) ∧
    (∀ w j, (w, j) ∈ s.overflow → j > s.next - s.next % (cap / 2) + cap ∧ j > s.next) ∧
    (∀ t s' o m, UnorderedReceiver.step s (.recv t s.next) = .ok (s', o) → o.res = .ok m →
      (∀ w0 j, s.ring ((s.next + 1) % cap) = some (w0, j) → j = s.next + 1 ∧ w0 ∈ o.woken) ∧
      ((s.next + 1) % (cap / 2) = 0 → ∀ w j, (w, j) ∈ s.overflow → w ∈ o.woken)) := by
  obtain ⟨h1, _, _, _, h5⟩ := RInv_init hnew
  obtain ⟨fed, hinv, hcap⟩ := exec_inv ops h1 h
  rw [h5] at hcap
  rw [← hcap]
  refine ⟨hinv.ring, ?_, ?_⟩
  · intro w j hm
    have := hinv.ov w j hm
    have h2 := Nat.mod_le s.next (s.cap / 2)
    have hh : 0 < s.cap / 2 := Nat.div_pos hinv.hcap (by omega)
    have h3 := Nat.mod_lt s.next hh
    have h4 : s.cap / 2 ≤ s.cap := Nat.div_le_self _ _
    exact ⟨this, by omega⟩
  · intro t s' o m hs hres
    obtain ⟨_, _, _, hrecv⟩ := recv_step hinv hs
    have hr := hrecv t s.next rfl
    exact ⟨hr.wake_ring m hres, fun h0 w j hm => hr.wake_overflow m hres h0 w j hm⟩

example : ∃ s0, State.new 2 2 = .ok s0 ∧
    (UnorderedReceiver.run s0 [.recv 1 1, .recv 3 3, .feed [1], .feed [2, 3, 4], .recv 0 0]).map
      (fun r => r.toOption) =
    [some ⟨.pending, []⟩, some ⟨.pending, []⟩, some ⟨.none, []⟩, some ⟨.none, []⟩, some ⟨.ok [1, 2], [1, 3]⟩] :=
  ⟨_, rfl, by decide⟩

end Receiver
end IpaVerif.C14
