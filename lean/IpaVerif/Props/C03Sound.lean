import IpaVerif.Props.C03Batch
/-!
# C03 — deterministic soundness of the recursive proof check (any prover)

See `accept_implies_consistent_or_bad_challenge` (any field with 2, 3, 5 invertible) and
`accept_implies_all_consistent_or_bad_challenge_fp61` (`Fp61BitPrime`, verifiers' views given by table indices).
-/
namespace IpaVerif.C03Batch
open IpaVerif.DzkpBatch IpaVerif.C03Algebra IpaVerif.PrimeField IpaVerif.Generated IpaVerif.Generated.Dzkp

variable {K : Type} [Field K]

/-! ## deterministic soundness: any prover -/

/-- recombination of the two shares of a proof. -/
def add7 (x y : P7 K) : P7 K :=
  ⟨x.p0 + y.p0, x.p1 + y.p1, x.p2 + y.p2, x.p3 + y.p3, x.p4 + y.p4, x.p5 + y.p5, x.p6 + y.p6⟩

def sub7' (x y : P7 K) : P7 K :=
  ⟨x.p0 - y.p0, x.p1 - y.p1, x.p2 - y.p2, x.p3 - y.p3, x.p4 - y.p4, x.p5 - y.p5, x.p6 - y.p6⟩

/-- the polynomial of degree ≤ 6 through the seven values of `z` at `0..6`. -/
def poly7 (z : P7 K) (x : K) : K := interp7 z.p0 z.p1 z.p2 z.p3 z.p4 z.p5 z.p6 x

theorem sumShare_add (x y : P7 K) :
    sumShare (fieldOps K) x + sumShare (fieldOps K) y = sumShare (fieldOps K) (add7 x y) := by
  simp only [sumShare, add7, fo_add, fo_zero]; ring
theorem finalSumShare_add (x y : P7 K) :
    finalSumShare (fieldOps K) x + finalSumShare (fieldOps K) y = finalSumShare (fieldOps K) (add7 x y) := by
  simp only [finalSumShare, add7, fo_add, fo_zero]; ring
theorem eval7_add (h2 : (2 : K) ≠ 0) (h3 : (3 : K) ≠ 0) (h5 : (5 : K) ≠ 0) (r : K) (x y : P7 K) :
    eval7 (fieldOps K) r x + eval7 (fieldOps K) r y = eval7 (fieldOps K) r (add7 x y) := by
  simp only [eval7_eq h2 h3 h5, add7, interp7]; ring

/-- the two verifiers' difference vectors add up to the difference vector of the recombined proofs. -/
theorem tailD_add (h2 : (2 : K) ≠ 0) (h3 : (3 : K) ≠ 0) (h5 : (5 : K) ≠ 0) (t : K) :
    ∀ (ls rs : List (P7 K)) (cs : List K) (pvL pvR : K), ls.length = rs.length → cs.length = ls.length →
    List.zipWith (· + ·) (tailD pvL ls cs t) (tailD pvR rs cs 0) = tailD (pvL + pvR) (List.zipWith add7 ls rs) cs t := by
  intro ls
  induction ls with
  | nil => intro rs cs pvL pvR h1 h2'; cases rs <;> simp_all [tailD]
  | cons l ls ih =>
    intro rs cs pvL pvR h1 h2'
    cases rs with
    | nil => simp at h1
    | cons r rs =>
      cases cs with
      | nil => simp at h2'
      | cons c cs =>
        cases ls with
        | nil =>
          have hrs : rs = [] := by simpa using h1.symm
          have hcs : cs = [] := by simpa using h2'
          subst hrs hcs
          simp only [tailD, List.zipWith_cons_cons, List.zipWith_nil_right, ← finalSumShare_add, ← eval7_add h2 h3 h5]
          refine congrArg₂ _ (by ring) (congrArg₂ _ (by ring) rfl)
        | cons l' ls' =>
          cases rs with
          | nil => simp at h1
          | cons r' rs' =>
            have := ih (r' :: rs') cs (eval7 (fieldOps K) c l) (eval7 (fieldOps K) c r) (by simpa using h1) (by simpa using h2')
            simp only [tailD, List.zipWith_cons_cons] at this ⊢
            rw [this, eval7_add h2 h3 h5, ← sumShare_add]
            exact congrArg₂ _ (by ring) rfl

/-- the proofs determined by the verifiers' records: what `compute_proof` yields on the level-`k` vectors that the
two verifiers derive (jointly) from their own `u` resp. `v` rows and the challenges so far; the last one masked. -/
def trueLoop (mp mq : K) : List (K × K) → List K → List (P7 K)
  | _, [] => []
  | uv, [_] => [g7 [maskChunk ((chunk4p uv).headD ((⟨0, 0, 0, 0⟩ : V4 K), (⟨0, 0, 0, 0⟩ : V4 K))) mp mq]]
  | uv, r :: r' :: rs => g7 (chunk4p uv) :: trueLoop mp mq (nextLevel (chunk4p uv) r) (r' :: rs)

def trueProofs (mp mq : K) (insV : List (V4 K × V4 K)) : List K → List (P7 K)
  | [] => []
  | c0 :: ctail => g7 insV :: trueLoop mp mq (nextLevel insV c0) ctail

/-- level `k` is *bad*: the submitted proof differs from the true one, yet both agree at the challenge — `r_k` is a
root of the non-zero polynomial `poly7 (G_k − T_k)` of degree ≤ 6 = 2L − 2. -/
def BadAt (Gs Ts : List (P7 K)) (cs : List K) (k : Nat) : Prop :=
  ∃ G T r, Gs[k]? = some G ∧ Ts[k]? = some T ∧ cs[k]? = some r ∧ G ≠ T ∧ poly7 (sub7' G T) r = 0

theorem poly7_sub (G T : P7 K) (r : K) : poly7 (sub7' G T) r = poly7 G r - poly7 T r := by
  simp only [poly7, sub7', interp7]; ring

theorem badAt_succ (G T : P7 K) (c : K) (Gs Ts : List (P7 K)) (cs : List K) (k : Nat)
    (h : BadAt Gs Ts cs k) : BadAt (G :: Gs) (T :: Ts) (c :: cs) (k + 1) := by
  obtain ⟨g, t, r, h1, h2, h3, h4⟩ := h
  exact ⟨g, t, r, by simpa using h1, by simpa using h2, by simpa using h3, h4⟩

/-- soundness of the chain after the first proof (recombined proofs `zs`). -/
theorem tail_sound (h2 : (2 : K) ≠ 0) (h3 : (3 : K) ≠ 0) (h5 : (5 : K) ≠ 0) (mp mq : K) :
    ∀ (cs : List K) (zs : List (P7 K)) (uv : List (K × K)) (pv p q : K), cs.length = zs.length →
    vrec mp (uv.map Prod.fst) cs = some p → vrec mq (uv.map Prod.snd) cs = some q →
    AllZero (tailD pv zs cs (p * q)) →
    pv = flatDot uv ∨ ∃ k, BadAt zs (trueLoop mp mq uv cs) cs k := by
  intro cs
  induction cs with
  | nil => intro zs uv pv p q _ hp; simp [vrec] at hp
  | cons c cs ih =>
    intro zs uv pv p q hlen hp hq hz
    cases zs with
    | nil => simp at hlen
    | cons z zs =>
      cases cs with
      | nil =>
        have hzs : zs = [] := by simpa using hlen.symm
        subst hzs
        simp only [vrec] at hp hq
        have hl4 : uv.length < 4 := by
          by_contra hge
          simp [lastStep, Nat.not_lt.mp hge] at hp
        have hl1 : 1 ≤ uv.length := by
          cases uv with
          | nil => simp [lastStep] at hp
          | cons a b => simp
        obtain ⟨c0, hc, hd1, hd2, hdot, hpp, hqq⟩ := small_uv h2 h3 mp mq uv hl1 hl4
        rw [hpp c] at hp; rw [hqq c] at hq
        have hp' := Option.some.inj hp
        have hq' := Option.some.inj hq
        have hfin := final_level h2 h3 h5 c0 ⟨hd1, hd2⟩ mp mq c
        simp only [tailD] at hz
        have z1 := hz _ (List.mem_cons_self ..)
        have z2 := hz _ (List.mem_cons_of_mem _ (List.mem_cons_self ..))
        by_cases hzT : z = g7 [maskChunk c0 mp mq]
        · left
          have : finalSumShare (fieldOps K) z = flatDot uv := by
            rw [hzT, ← hdot, ← hfin.1]; simp only [finalSumShare, g7, fo_add, fo_zero]; ring
          linear_combination this - z1
        · right
          refine ⟨0, z, g7 [maskChunk c0 mp mq], c, rfl, by simp [trueLoop, hc], rfl, hzT, ?_⟩
          rw [poly7_sub]
          have e : poly7 (g7 [maskChunk c0 mp mq]) c = p * q := by rw [← hp', ← hq']; exact hfin.2
          have e' : poly7 z c = eval7 (fieldOps K) c z := by rw [eval7_eq h2 h3 h5]; rfl
          rw [e, e']; linear_combination -z2
      | cons c' cs' =>
        cases zs with
        | nil => simp at hlen
        | cons z' zs' =>
          simp only [vrec, (recurse_fst h2 h3 c uv).1, (recurse_fst h2 h3 c uv).2] at hp hq
          simp only [tailD] at hz
          have z1 := hz _ (List.mem_cons_self ..)
          have hz' : AllZero (tailD (eval7 (fieldOps K) c z) (z' :: zs') (c' :: cs') (p * q)) :=
            fun d hd => hz d (List.mem_cons_of_mem _ hd)
          have hstep := proof_step_complete h2 h3 h5 (chunk4p uv) c
          rcases ih (z' :: zs') (nextLevel (chunk4p uv) c) (eval7 (fieldOps K) c z) p q (by simpa using hlen) hp hq hz' with
            hgood | ⟨k, hbad⟩
          · by_cases hzT : z = g7 (chunk4p uv)
            · left
              have : sumShare (fieldOps K) z = flatDot uv := by
                rw [hzT, ← chunk_dot, ← hstep.1]; simp only [sumShare, g7, fo_add, fo_zero]; ring
              linear_combination this - z1
            · right
              refine ⟨0, z, g7 (chunk4p uv), c, rfl, by simp [trueLoop], rfl, hzT, ?_⟩
              rw [poly7_sub]
              have e : poly7 (g7 (chunk4p uv)) c = flatDot (nextLevel (chunk4p uv) c) := by
                rw [flatDot_next]; exact hstep.2
              have e' : poly7 z c = eval7 (fieldOps K) c z := by rw [eval7_eq h2 h3 h5]; rfl
              rw [e, e', hgood]; ring
          · right
            exact ⟨k + 1, by simpa [trueLoop] using badAt_succ z (g7 (chunk4p uv)) c _ _ _ k hbad⟩


theorem rows_zip (h2 : (2 : K) ≠ 0) (h3 : (3 : K) ≠ 0) (c0 : K) : ∀ (uL vR : List (V4 K)), uL.length = vR.length →
    uL.map (eval4 (fieldOps K) c0) = (nextLevel (List.zip uL vR) c0).map Prod.fst ∧
    vR.map (eval4 (fieldOps K) c0) = (nextLevel (List.zip uL vR) c0).map Prod.snd := by
  intro uL
  induction uL with
  | nil => intro vR h; cases vR <;> simp_all [nextLevel]
  | cons u us ih =>
    intro vR h
    cases vR with
    | nil => simp at h
    | cons v vs =>
      have := ih vs (by simpa using h)
      simp only [nextLevel, List.zip_cons_cons, List.map_cons, eval4_eq h2 h3] at this ⊢
      exact ⟨by rw [this.1], by rw [this.2]⟩

/-- **accept_implies_consistent_or_bad_challenge** (deterministic soundness, ANY prover — in particular one that
follows the protocol on an altered record set, and the "two-faced" prover that builds the first proof from one set
of records and the recursion from another).

`uL`, `vR`: the `u` rows of the left verifier and the `v` rows of the right verifier (from their own records);
`left`, `right`: the shares of the prover's proofs they hold (arbitrary); `s`: the claimed `sum_of_uv`.
If `BatchToVerify::verify`'s recombined difference vector exists and is all zero (both verifiers accept), then
* `Σ_j ⟨u_j, v_j⟩ = s` — by `sum_iff_all_consistent` (with `s = m·(−1/2)`) every recorded triple is consistent — or
* at some level `k` the submitted proof `G_k = left_k + right_k` differs from the proof `T_k` determined by the
  verifiers' records and the challenges `r_0 … r_{k−1}`, but the challenge `r_k` is a root of
  `x ↦ poly7 (G_k − T_k) x`: a polynomial of degree ≤ 6 = 2L − 2 (`interp7`: a combination of the seven degree-6
  Lagrange basis polynomials) that is non-zero (`poly7_nonzero`: it takes the non-zero value `G_k[i] − T_k[i]` at some
  node `i ∈ {0..6}`) and that is fixed before `r_k = H(k, left_k, right_k)` is derived.
The probability of the second event under a random oracle (≤ (#levels)·6/|F|) is not formalised.
Every link of `compute_g_differences` is used: link 0 (`sum_of_uv`), the link between the first proof's `g(r_0)` and
the sum of the second proof (`firstAtC0`, through `gDiff_eq`), the recursive links and the final `p(r)·q(r)` link. -/
theorem accept_implies_consistent_or_bad_challenge (h2 : (2 : K) ≠ 0) (h3 : (3 : K) ≠ 0) (h5 : (5 : K) ≠ 0)
    (uL vR : List (V4 K)) (huv : uL.length = vR.length) (left right : List (P7 K)) (hlr : left.length = right.length)
    (H : Nat → P7 K → P7 K → K) (mp mq s : K) (diffs : List K)
    (hv : verifyDiffs (fieldOps K) uL vR left right H mp mq s = some diffs) (hz : AllZero diffs) :
    ((List.zip uL vR).map fun c => c.1.dot c.2).sum = s ∨
    ∃ k, BadAt (List.zipWith add7 left right) (trueProofs mp mq (List.zip uL vR) (challenges H left right))
      (challenges H left right) k := by
  cases left with
  | nil => simp [verifyDiffs] at hv
  | cons l0 ls =>
  cases right with
  | nil => simp at hlr
  | cons r0 rs =>
  have hlen : ls.length = rs.length := by simpa using hlr
  have hchs : challenges H (l0 :: ls) (r0 :: rs) = H 0 l0 r0 :: challengesFrom H 1 ls rs := rfl
  have hct : (challengesFrom H 1 ls rs).length = ls.length := challengesFrom_length H ls rs 1 hlen
  rw [hchs]
  generalize hc0 : H 0 l0 r0 = c0 at hchs ⊢
  generalize hctl : challengesFrom H 1 ls rs = ctail at hchs hct ⊢
  unfold verifyDiffs at hv
  rw [hchs] at hv
  cases hp : finalCheck (fieldOps K) uL (c0 :: ctail) mp with
  | none => simp [hp] at hv
  | some p =>
  cases hq : finalCheck (fieldOps K) vR (c0 :: ctail) mq with
  | none => simp [hp, hq] at hv
  | some q =>
  have hcond : 1 ≤ ctail.length ∧ ctail.length + 1 ≤ maxProofRecursion := by
    by_contra hcon
    have hmin : minProofRecursion = 2 := by decide
    have hnot : ¬ (minProofRecursion ≤ (c0 :: ctail).length ∧ (c0 :: ctail).length ≤ maxProofRecursion) := by
      simp only [List.length_cons, hmin]
      intro hab
      exact hcon ⟨by have := hab.1; omega, hab.2⟩
    unfold finalCheck at hp
    rw [if_pos hnot] at hp
    exact absurd hp (by simp)
  have hne : ls ≠ [] := by intro h; have := hcond.1; rw [hct, h] at this; simp at this
  have hners : rs ≠ [] := by intro h; rw [h] at hlen; simp at hlen; exact hne hlen
  simp only [hp, hq] at hv
  rw [finalCheck_eq _ _ _ _ hcond.1 hcond.2, (rows_zip h2 h3 c0 uL vR huv).1] at hp
  rw [finalCheck_eq _ _ _ _ hcond.1 hcond.2, (rows_zip h2 h3 c0 uL vR huv).2] at hq
  rw [gDiff_eq _ _ _ _ _ _ hne (by omega), gDiff_eq _ _ _ _ _ _ hners (by omega)] at hv
  simp only [Option.some.injEq] at hv
  subst hv
  simp only [List.zipWith_cons_cons, fo_add, fo_mul, fo_zero] at hz
  have z0 := hz _ (List.mem_cons_self ..)
  have hz' : AllZero (List.zipWith (· + ·) (tailD (eval7 (fieldOps K) c0 l0) ls ctail (p * q))
      (tailD (eval7 (fieldOps K) c0 r0) rs ctail 0)) := fun d hd => hz d (List.mem_cons_of_mem _ hd)
  rw [tailD_add h2 h3 h5 _ ls rs ctail _ _ hlen hct, eval7_add h2 h3 h5] at hz'
  have hstep := proof_step_complete h2 h3 h5 (List.zip uL vR) c0
  have e' : poly7 (add7 l0 r0) c0 = eval7 (fieldOps K) c0 (add7 l0 r0) := by rw [eval7_eq h2 h3 h5]; rfl
  rcases tail_sound h2 h3 h5 mp mq ctail (List.zipWith add7 ls rs) (nextLevel (List.zip uL vR) c0) _ p q
      (by simp [hct, hlen]) hp hq hz' with hgood | ⟨k, hbad⟩
  · by_cases hG : add7 l0 r0 = g7 (List.zip uL vR)
    · left
      have : sumShare (fieldOps K) (add7 l0 r0) = ((List.zip uL vR).map fun c => c.1.dot c.2).sum := by
        rw [hG, ← hstep.1]; simp only [sumShare, g7, fo_add, fo_zero]; ring
      rw [← this, ← sumShare_add]
      linear_combination z0
    · right
      refine ⟨0, add7 l0 r0, g7 (List.zip uL vR), c0, rfl, by simp [trueProofs], rfl, hG, ?_⟩
      rw [poly7_sub, e', hgood, flatDot_next]
      have : poly7 (g7 (List.zip uL vR)) c0 = G (List.zip uL vR) c0 := hstep.2
      rw [this]; ring
  · right
    exact ⟨k + 1, by simpa [trueProofs] using badAt_succ (add7 l0 r0) (g7 (List.zip uL vR)) c0 _ _ _ k hbad⟩

/-- `poly7 D` is the zero polynomial only for `D = 0`: it takes the value `D[i]` at the node `i`. -/
theorem poly7_nonzero (h2 : (2 : K) ≠ 0) (h3 : (3 : K) ≠ 0) (h5 : (5 : K) ≠ 0) (G T : P7 K) (h : G ≠ T) :
    ∃ i : Nat, i ≤ 6 ∧ poly7 (sub7' G T) (i : K) ≠ 0 := by
  have h720 : (720 : K) ≠ 0 := by
    have : (720 : K) = 2 * 2 * 2 * 2 * 3 * 3 * 5 := by norm_num
    rw [this]; simp [h2, h3, h5]
  have h120 : (120 : K) ≠ 0 := by
    have : (120 : K) = 2 * 2 * 2 * 3 * 5 := by norm_num
    rw [this]; simp [h2, h3, h5]
  have h48 : (48 : K) ≠ 0 := by
    have : (48 : K) = 2 * 2 * 2 * 2 * 3 := by norm_num
    rw [this]; simp [h2, h3]
  have h36 : (36 : K) ≠ 0 := by
    have : (36 : K) = 2 * 2 * 3 * 3 := by norm_num
    rw [this]; simp [h2, h3]
  have nodes : ∀ D : P7 K, poly7 D 0 = D.p0 ∧ poly7 D 1 = D.p1 ∧ poly7 D 2 = D.p2 ∧ poly7 D 3 = D.p3 ∧
      poly7 D 4 = D.p4 ∧ poly7 D 5 = D.p5 ∧ poly7 D 6 = D.p6 := by
    intro D
    simp only [poly7, interp7]
    refine ⟨?_, ?_, ?_, ?_, ?_, ?_, ?_⟩ <;> field_simp <;> ring
  by_contra hall
  apply h
  have hv : ∀ i : Nat, i ≤ 6 → poly7 (sub7' G T) (i : K) = 0 := by
    intro i hi; by_contra hne; exact hall ⟨i, hi, hne⟩
  have n := nodes (sub7' G T)
  have e0 := hv 0 (by omega); have e1 := hv 1 (by omega); have e2 := hv 2 (by omega); have e3 := hv 3 (by omega)
  have e4 := hv 4 (by omega); have e5 := hv 5 (by omega); have e6 := hv 6 (by omega)
  simp only [Nat.cast_zero, Nat.cast_one, Nat.cast_ofNat] at e0 e1 e2 e3 e4 e5 e6
  rw [n.1] at e0; rw [n.2.1] at e1; rw [n.2.2.1] at e2; rw [n.2.2.2.1] at e3; rw [n.2.2.2.2.1] at e4
  rw [n.2.2.2.2.2.1] at e5; rw [n.2.2.2.2.2.2] at e6
  simp only [sub7'] at e0 e1 e2 e3 e4 e5 e6
  cases G; cases T
  simp only [P7.mk.injEq]
  exact ⟨sub_eq_zero.mp e0, sub_eq_zero.mp e1, sub_eq_zero.mp e2, sub_eq_zero.mp e3, sub_eq_zero.mp e4,
    sub_eq_zero.mp e5, sub_eq_zero.mp e6⟩


/-! ## soundness for `K = ZMod (2^61 − 1)`: "accepted ⇒ every recorded triple is consistent, or a bad challenge" -/

theorem rowDot_two_values : ∀ i, i < 8 → ∀ j, j < 8 →
    IpaVerif.C03.rowDot (tableU.getD i []) (tableV.getD j []) = minusOneHalf ∨
    IpaVerif.C03.rowDot (tableU.getD i []) (tableV.getD j []) = inverseOfTwo := by decide

theorem cast_sumTerms : ∀ (flags : List Bool) (acc : Nat), acc < fp61.p →
    (flags.foldl (fun acc c => fadd acc (IpaVerif.C03.gateTerm c)) acc) < fp61.p ∧
    (((flags.foldl (fun acc c => fadd acc (IpaVerif.C03.gateTerm c)) acc : Nat)) : F61) =
      (acc : F61) + (flags.map fun c => ((IpaVerif.C03.gateTerm c : Nat) : F61)).sum := by
  intro flags
  induction flags with
  | nil => intro acc h; simp [h]
  | cons c rest ih =>
    intro acc h
    have hg : IpaVerif.C03.gateTerm c < fp61.p := by cases c <;> decide
    have h1 := (IpaVerif.C08.canonical_ops hs61 h hg).1
    have := ih (fadd acc (IpaVerif.C03.gateTerm c)) h1
    simp only [List.foldl_cons, List.map_cons, List.sum_cons]
    refine ⟨this.1, ?_⟩
    rw [this.2]
    have e : ((fadd acc (IpaVerif.C03.gateTerm c) : Nat) : F61) = (acc : F61) + ((IpaVerif.C03.gateTerm c : Nat) : F61) :=
      IpaVerif.C08.toZMod_add hs61 h hg
    rw [e]; ring

/-- is the multiplication with table indices `(i, j)` consistent (`Σ_k U[i][k]·V[j][k] = −1/2`)? -/
def flagOf (ij : Nat × Nat) : Bool :=
  decide (IpaVerif.C03.rowDot (tableU.getD ij.1 []) (tableV.getD ij.2 []) = minusOneHalf)

theorem dot_row_eq (ij : Nat × Nat) (hr : ij.1 < 8 ∧ ij.2 < 8) :
    (castRow (tableU.getD ij.1 [])).dot (castRow (tableV.getD ij.2 [])) = ((IpaVerif.C03.gateTerm (flagOf ij) : Nat) : F61) := by
  obtain ⟨a, b, c, d, hu, hua, hub, huc, hud⟩ := (table_rows_canonical ij.1 hr.1).1
  obtain ⟨a', b', c', d', hvv, hva, hvb, hvc, hvd⟩ := (table_rows_canonical ij.2 hr.2).2
  have hd := dot_castRow a b c d a' b' c' d' ⟨hua, hub, huc, hud⟩ ⟨hva, hvb, hvc, hvd⟩
  rw [hu, hvv, hd, ← hu, ← hvv]
  rcases rowDot_two_values ij.1 hr.1 ij.2 hr.2 with h | h
  · have hf : flagOf ij = true := by unfold flagOf; rw [h]; decide
    rw [hf, h]; rfl
  · have hf : flagOf ij = false := by unfold flagOf; rw [h]; decide
    rw [hf, h]; rfl

theorem dots_eq_terms : ∀ (idx : List (Nat × Nat)), (∀ ij ∈ idx, ij.1 < 8 ∧ ij.2 < 8) →
    ((rowsF61 idx).map fun c => c.1.dot c.2).sum =
      ((idx.map flagOf).map fun c => ((IpaVerif.C03.gateTerm c : Nat) : F61)).sum := by
  intro idx
  induction idx with
  | nil => intro _; rfl
  | cons ij rest ih =>
    intro hr
    have ihr := ih (fun x hx => hr x (List.mem_cons_of_mem _ hx))
    have h0 := dot_row_eq ij (hr ij (List.mem_cons_self ..))
    simp only [rowsF61, List.map_cons, List.sum_cons] at ihr ⊢
    rw [ihr, h0]

/-- **accepted ⇒ all triples consistent, or a bad challenge** (`Fp61BitPrime`, the verifiers' views given by their
table indices, claimed sum `m·(−1/2)` as `Batch::validate` computes it). -/
theorem accept_implies_all_consistent_or_bad_challenge_fp61 (idx : List (Nat × Nat))
    (hr : ∀ ij ∈ idx, ij.1 < 8 ∧ ij.2 < 8) (hm : idx.length < fp61.p)
    (left right : List (P7 F61)) (hlr : left.length = right.length)
    (H : Nat → P7 F61 → P7 F61 → F61) (mp mq : F61) (diffs : List F61)
    (hv : verifyDiffs (fieldOps F61) ((rowsF61 idx).map Prod.fst) ((rowsF61 idx).map Prod.snd) left right H mp mq
      ((IpaVerif.C03.expectedSum idx.length : Nat) : F61) = some diffs) (hz : AllZero diffs) :
    (∀ ij ∈ idx, IpaVerif.C03.rowDot (tableU.getD ij.1 []) (tableV.getD ij.2 []) = minusOneHalf) ∨
    ∃ k, BadAt (List.zipWith add7 left right) (trueProofs mp mq (rowsF61 idx) (challenges H left right))
      (challenges H left right) k := by
  have hzip : List.zip ((rowsF61 idx).map Prod.fst) ((rowsF61 idx).map Prod.snd) = rowsF61 idx := by
    rw [← List.unzip_fst, ← List.unzip_snd]; exact List.zip_unzip _
  have := accept_implies_consistent_or_bad_challenge f61_235.1 f61_235.2.1 f61_235.2.2
    ((rowsF61 idx).map Prod.fst) ((rowsF61 idx).map Prod.snd) (by simp) left right hlr H mp mq _ diffs hv hz
  rw [hzip] at this
  rcases this with hsum | hbad
  · left
    let flags := idx.map flagOf
    have hflen : flags.length = idx.length := by simp [flags]
    have hdots := dots_eq_terms idx hr
    have hcs := cast_sumTerms flags 0 (by decide)
    have hsT : ((IpaVerif.C03.sumTerms flags : Nat) : F61) = ((IpaVerif.C03.expectedSum flags.length : Nat) : F61) := by
      unfold IpaVerif.C03.sumTerms
      rw [hcs.2, ← hdots, hsum, hflen]; simp
    have hexp : IpaVerif.C03.expectedSum flags.length < fp61.p := by
      unfold IpaVerif.C03.expectedSum
      have ht : truncateFrom fp61 flags.length < fp61.p := by
        unfold truncateFrom
        rw [IpaVerif.C08.reduce_eq_mod_fp61 _ (by rw [hflen]; exact Nat.lt_trans hm (by decide))]
        exact Nat.mod_lt _ (by decide)
      exact (IpaVerif.C08.canonical_ops hs61 ht (by decide : minusOneHalf < fp61.p)).2.2.1
    have heq := IpaVerif.C08.eq_of_cast_eq (show IpaVerif.C03.sumTerms flags < fp61.p from hcs.1) hexp hsT
    have hall := (IpaVerif.C03.sum_iff_all_consistent flags (by rw [hflen]; exact hm)).mp heq
    intro ij hij
    have : flagOf ij = true := by
      have := List.all_eq_true.mp hall (flagOf ij) (List.mem_map.mpr ⟨ij, hij, rfl⟩)
      simpa using this
    exact of_decide_eq_true this
  · right; exact hbad

end IpaVerif.C03Batch
