import IpaVerif.Proofs.BatcherTrace
import IpaVerif.Proofs.BatcherWorld
import IpaVerif.Props.C15
import IpaVerif.Generated.BatcherConsts
/-!
# C16 — a record is released only after its whole batch is validated, with its verdict

Model: `IpaVerif.Model.Batcher` (transcription of `protocol/context/batcher.rs`).
The theorems quantify over **every** history `ops` of `get_batch` / `validate_record` /
`set_total_records` calls issued to a fresh batcher — any number of records, any
`records_per_batch ≥ 1`, any total (multiples of the batch size or not), any arrival order of records
and batches (so including out-of-order batch completion with `None` slots), duplicates and
out-of-range calls included.  `(reach …).1` is the batcher state after the history and
`(reach …).2` the history summary: `acc` = records whose `validate_record` was accepted so far,
`closed` = batches for which `Ready::Yes` was answered so far (see `ghostStep`).
-/
namespace IpaVerif.C16
open IpaVerif.Batcher

/-- state and history summary after the calls `ops` on `Batcher::new(rpb, t0, …)`. -/
def reach (rpb : Nat) (t0 : Total) (tps : Nat) (ops : List Op) : State × Ghost :=
  execG (State.new rpb t0 tps) {} ops

/-- `n` is the total number of records: the batcher was created with it or without a total, and
every `set_total_records(Specified m)` in the history has `m = n`. -/
structure Setting (n rpb : Nat) (t0 : Total) (ops : List Op) : Prop where
  rpb_pos : 0 < rpb
  t0_ok : t0 = .specified n ∨ t0 = .indeterminate ∨ t0 = .unspecified
  totals : TotalsAgree n ops

example : Setting 5 2 (.specified 5) [.get 0 0, .validate 0, .validate 3, .setTotal .indeterminate] :=
  ⟨by decide, Or.inl rfl, by intro t m h e; subst e; simp at h⟩

theorem reach_inv {n rpb t0 tps ops} (h : Setting n rpb t0 ops) :
    Inv n (reach rpb t0 tps ops).1 (reach rpb t0 tps ops).2 :=
  inv_execG ops _ _ (inv_new n rpb tps h.rpb_pos t0 h.t0_ok) h.totals

theorem reach_rpb (rpb t0 tps ops) : (reach rpb t0 tps ops).1.rpb = rpb := by
  unfold reach; rw [execG_rpb]; rfl

/-- records `r' < n` of batch `b` are exactly `b*rpb + j` for `j < min(rpb, n - b*rpb)`. -/
theorem whole_iff_records {n rpb : Nat} (hp : 0 < rpb) (acc : List Nat) (b : Nat) :
    (∀ j, j < tcOf n rpb b → b * rpb + j ∈ acc) ↔ (∀ r', r' < n → r' / rpb = b → r' ∈ acc) := by
  constructor
  · intro h r' hr hb
    have h1 : b * rpb + r' % rpb = r' := by rw [← hb]; exact Nat.div_add_mod' r' rpb
    have h2 : r' % rpb < rpb := Nat.mod_lt _ hp
    rw [← h1]
    apply h
    unfold tcOf; omega
  · intro h j hj
    unfold tcOf at hj
    exact h _ (by omega) (div_offset _ _ _ (by omega))

/-- **release_after_whole_batch.**  In every reachable state, `validate_record(r)` answers
`Ready::Yes{batch b}` (the only way the batch check can start, hence the only way anyone waiting on
`b` can be released) only if `b` is `r`'s batch, built by constructor call `b`, and *every* record of
`b` below the total has asked for validation (accepted earlier in the history, or is `r` itself);
and it answers `Ready::No` (the caller must wait) only while some record of the batch is missing. -/
theorem release_after_whole_batch {n rpb t0 tps ops} (h : Setting n rpb t0 ops) (r : Nat) :
    let s := (reach rpb t0 tps ops).1
    let g := (reach rpb t0 tps ops).2
    (∀ s' b st, validateRecord s r = (s', .ready b st) →
        b = r / rpb ∧ st.ctor = b ∧ r < n ∧ ∀ r', r' < n → r' / rpb = b → r' = r ∨ r' ∈ g.acc) ∧
    (∀ s' b, validateRecord s r = (s', .notReady b) →
        b = r / rpb ∧ r < n ∧ ∃ r', r' < n ∧ r' / rpb = b ∧ r' ≠ r ∧ r' ∉ g.acc) := by
  intro s g
  have hI := reach_inv (tps := tps) h
  have hr := reach_rpb rpb t0 tps ops
  have hs := validate_step hI r
  constructor
  · intro s' b st he
    rw [he] at hs
    simp only [StepSpec, hr] at hs
    obtain ⟨h1, h2, _, _, _, h6, _, h8⟩ := hs
    refine ⟨h1, h8, h2, fun r' hr' hb => ?_⟩
    have := (whole_iff_records h.rpb_pos _ b).1 h6 r' hr' hb
    simpa using this
  · intro s' b he
    rw [he] at hs
    simp only [StepSpec, hr] at hs
    obtain ⟨h1, h2, _, _, _, h6⟩ := hs
    refine ⟨h1, h2, ?_⟩
    rw [whole_iff_records h.rpb_pos] at h6
    apply Classical.byContradiction
    intro hne
    apply h6
    intro r' hr' hb
    apply Classical.byContradiction
    intro hm
    apply hne
    refine ⟨r', hr', hb, ?_, ?_⟩
    · intro e; apply hm; rw [e]; exact List.mem_cons_self
    · intro hm'; exact hm (List.mem_cons_of_mem _ hm')

/-- **each_batch_ready_exactly_once.**  For every arrival order of records and batches:
(1) `Ready::Yes` is never answered twice for the same batch; (2) as soon as all records of a batch
have asked for validation, `Ready::Yes` *has* been answered for it (so it is checked exactly once);
(3) slot `k` of the deque is batch `first_batch + k`, and the popped prefix `b < first_batch`
consists of completed batches only. -/
theorem each_batch_ready_exactly_once {n rpb t0 tps ops} (h : Setting n rpb t0 ops) :
    let s := (reach rpb t0 tps ops).1
    let g := (reach rpb t0 tps ops).2
    (∀ r s' b st, validateRecord s r = (s', .ready b st) → b ∉ g.closed) ∧
    (∀ b, b * rpb < n → (∀ r', r' < n → r' / rpb = b → r' ∈ g.acc) → b ∈ g.closed) ∧
    (∀ k bs, s.batches[k]? = some (some bs) → bs.ctor = s.firstBatch + k) ∧
    (∀ b, b < s.firstBatch → b ∈ g.closed) ∧
    (∀ b, b ∈ g.closed → ∀ r', r' < n → r' / rpb = b → r' ∈ g.acc) := by
  intro s g
  have hI := reach_inv (tps := tps) h
  have hr := reach_rpb rpb t0 tps ops
  refine ⟨?_, ?_, ?_, ?_, ?_⟩
  · intro r s' b st he
    have hs := validate_step hI r
    rw [he] at hs
    exact hs.2.2.2.1
  · intro b hb hall
    apply whole_implies_closed hI b
    rw [hr]
    exact ⟨by unfold tcOf; have := h.rpb_pos; omega, (whole_iff_records h.rpb_pos _ b).2 hall⟩
  · intro k bs hk; exact (hI.live k bs hk).ctor
  · intro b hb; exact (hI.closed_iff b).2 (Or.inl hb)
  · intro b hb
    have := (hI.closed_all b hb).2
    rw [hr] at this
    exact (whole_iff_records h.rpb_pos _ b).1 this

/-- **final_partial_batch_closes_at_total.**  The last batch `(n-1)/rpb` holds `n - last*rpb`
records (between 1 and `rpb`, fewer than `rpb` when `n` is not a multiple), and an accepted
`validate_record` of one of its records answers `Ready::Yes` exactly when all records up to the
declared total have asked — not when `rpb` records have. -/
theorem final_partial_batch_closes_at_total {n rpb t0 tps ops} (h : Setting n rpb t0 ops) (hn : 0 < n)
    (r : Nat) (hlast : r / rpb = (n - 1) / rpb) :
    let s := (reach rpb t0 tps ops).1
    let g := (reach rpb t0 tps ops).2
    let last := (n - 1) / rpb
    (tcOf n rpb last = n - last * rpb ∧ 0 < n - last * rpb ∧ n - last * rpb ≤ rpb) ∧
    (∀ s' b st, validateRecord s r = (s', .ready b st) → ∀ r', last * rpb ≤ r' → r' < n → r' = r ∨ r' ∈ g.acc) ∧
    (∀ s' b, validateRecord s r = (s', .notReady b) → ∃ r', last * rpb ≤ r' ∧ r' < n ∧ r' ≠ r ∧ r' ∉ g.acc) := by
  intro s g last
  have hp := h.rpb_pos
  have h1 : last * rpb + (n - 1) % rpb = n - 1 := Nat.div_add_mod' (n - 1) rpb
  have h2 : (n - 1) % rpb < rpb := Nat.mod_lt _ hp
  have hdiv : ∀ r', last * rpb ≤ r' → r' < n → r' / rpb = last := by
    intro r' ha hb
    have : r' = last * rpb + (r' - last * rpb) := by omega
    rw [this]; exact div_offset _ _ _ (by omega)
  obtain ⟨hA, hB⟩ := release_after_whole_batch (tps := tps) h r
  refine ⟨⟨by unfold tcOf; omega, by omega, by omega⟩, ?_, ?_⟩
  · intro s' b st he r' ha hb
    obtain ⟨e, _, _, hall⟩ := hA s' b st he
    exact hall r' hb (by rw [hdiv r' ha hb, e, hlast])
  · intro s' b he
    obtain ⟨e, _, r', hr', hb', hne, hm⟩ := hB s' b he
    refine ⟨r', ?_, hr', hne, hm⟩
    have h3 : last * rpb + r' % rpb = r' := by
      have := Nat.div_add_mod' r' rpb
      rw [hb', e, hlast] at this; exact this
    omega

/-- **misuse_is_loud.**  In every reachable state: validating a record that already asked, a
record at or beyond the total, a record of a batch that already became ready, or validating without
a total, is answered by an error or a panic — never by `Ready::No`/`Ready::Yes`; `get_batch` on a
batch that already became ready panics. -/
theorem misuse_is_loud {n rpb t0 tps ops} (h : Setting n rpb t0 ops) (r : Nat) :
    let s := (reach rpb t0 tps ops).1
    let g := (reach rpb t0 tps ops).2
    ((r ∈ g.acc ∨ n ≤ r ∨ r / rpb ∈ g.closed ∨ s.total.count = none) →
        (∃ e, (validateRecord s r).2 = .err e) ∨ (∃ p, (validateRecord s r).2 = .panic p)) ∧
    (r / rpb ∈ g.closed → ∀ x, ∃ p, (getBatchPush s r x).2 = .error p) := by
  intro s g
  have hI := reach_inv (tps := tps) h
  have hr := reach_rpb rpb t0 tps ops
  constructor
  · intro hm
    have hs := validate_step hI r
    generalize hres : validateRecord s r = res at hs
    obtain ⟨s', o⟩ := res
    cases o with
    | err e => exact Or.inl ⟨e, rfl⟩
    | panic p => exact Or.inr ⟨p, rfl⟩
    | notReady b =>
      exfalso
      obtain ⟨h1, h2, h3, h4, _⟩ := hs
      rcases hm with hm | hm | hm | hm
      · exact h3 hm
      · omega
      · rw [← hr, ← h1] at hm; exact h4 hm
      · unfold validateRecord at hres; rw [hm] at hres; cases hres
    | ready b st =>
      exfalso
      obtain ⟨h1, h2, h3, h4, _⟩ := hs
      rcases hm with hm | hm | hm | hm
      · exact h3 hm
      · omega
      · rw [← hr, ← h1] at hm; exact h4 hm
      · unfold validateRecord at hres; rw [hm] at hres; cases hres
  · intro hc x
    have := (inv_getBatchPush hI r x).2.1
    rw [hr] at this
    exact this hc


/-! ## The asynchronous tail: futures, the watch channel, the validation closure

`wreach` runs any schedule of batcher calls, single polls of any of the returned futures, the
environment letting the check of a batch finish (`release`) and futures being dropped. -/

/-- world and history summary after the schedule `ops`; `failing` = batches whose check returns `Err`. -/
def wreach (rpb : Nat) (t0 : Total) (tps : Nat) (failing : List Nat) (ops : List WOp) : World × Ghost :=
  wexec (World.new rpb t0 tps failing) {} ops

structure WSetting (n rpb : Nat) (t0 : Total) (ops : List WOp) : Prop where
  rpb_pos : 0 < rpb
  t0_ok : t0 = .specified n ∨ t0 = .indeterminate ∨ t0 = .unspecified
  totals : WTotalsAgree n ops

example : WSetting 3 2 (.specified 3) [.validate 0, .poll 0, .validate 1, .release 0, .poll 1, .poll 0] :=
  ⟨by decide, Or.inl rfl, by intro t m h; simp at h⟩

theorem wreach_inv {n rpb t0 tps failing ops} (h : WSetting n rpb t0 ops) :
    WInv n (wreach rpb t0 tps failing ops).1 (wreach rpb t0 tps failing ops).2 :=
  winv_wexec ops _ _ (winv_new n rpb tps h.rpb_pos t0 h.t0_ok failing) h.totals

theorem wreach_static (rpb t0 tps failing ops) :
    (wreach rpb t0 tps failing ops).1.failing = failing ∧
    ∀ s, (wreach rpb t0 tps failing ops).1.batcher = some s → s.rpb = rpb := by
  obtain ⟨a, b⟩ := wexec_static ops (World.new rpb t0 tps failing) {}
  refine ⟨a, fun s hs => ?_⟩
  unfold wreach at hs
  rw [hs] at b
  simpa [World.new, State.new] using b

/-- **verdict_matches** (and the asynchronous half of *release after the whole batch*).
After any schedule: if a poll of a future waiting on batch `b` completes, then every record of `b`
below the total has asked for validation, the check of `b` has been invoked and allowed to finish,
and the result is `Ok` exactly when the check succeeded (`ParallelDZKPValidationFailed` otherwise);
the future that runs the check returns the check's own result. -/
theorem verdict_matches {n rpb t0 tps failing ops} (h : WSetting n rpb t0 ops) (i : Nat) :
    let w := (wreach rpb t0 tps failing ops).1
    let g := (wreach rpb t0 tps failing ops).2
    (∀ b, w.futs.getD i .gone = .waiter b →
      ((w.poll i).2 = .ok →
        (∀ r', r' < n → r' / rpb = b → r' ∈ g.acc) ∧ b ∈ invokedKeys w ∧ b ∈ w.released ∧ b ∉ failing) ∧
      (∀ e, (w.poll i).2 = .err e → e = .parallelFailed ∧
        (∀ r', r' < n → r' / rpb = b → r' ∈ g.acc) ∧ b ∈ invokedKeys w ∧ b ∈ w.released ∧ b ∈ failing)) ∧
    (∀ b st x, w.futs.getD i .gone = .validator b st x →
      (∀ r', r' < n → r' / rpb = b → r' ∈ g.acc) ∧ st.ctor = b ∧
      ((w.poll i).2 = .ok → b ∈ w.released ∧ b ∉ failing) ∧
      (∀ e, (w.poll i).2 = .err e → e = .validationFailed ∧ b ∈ w.released ∧ b ∈ failing)) := by
  intro w g
  have hI := wreach_inv (tps := tps) (failing := failing) h
  obtain ⟨hfail, hrpb⟩ := wreach_static rpb t0 tps failing ops
  obtain ⟨s, hs, hinv⟩ := hI.batcher
  have hr := hrpb s hs
  have hwhole : ∀ b, b ∈ g.closed → ∀ r', r' < n → r' / rpb = b → r' ∈ g.acc := by
    intro b hb
    have := (hinv.closed_all b hb).2
    rw [hr] at this
    exact (whole_iff_records h.rpb_pos _ b).1 this
  obtain ⟨hA, hB⟩ := poll_spec hI i
  rw [hfail] at hA hB
  constructor
  · intro b hf
    obtain ⟨h1, h2⟩ := hA b hf
    constructor
    · intro hok
      obtain ⟨a, b2, c, d⟩ := h1 hok
      exact ⟨hwhole b a, b2, c, by simpa using d⟩
    · intro e he
      obtain ⟨a0, a, b2, c, d⟩ := h2 e he
      exact ⟨a0, hwhole b a, b2, c, by simpa using d⟩
  · intro b st x hf
    obtain ⟨h0, hc, h1, h2⟩ := hB b st x hf
    refine ⟨hwhole b h0, hc, ?_, ?_⟩
    · intro hok
      obtain ⟨c, d⟩ := h1 hok
      exact ⟨c, by simpa using d⟩
    · intro e he
      obtain ⟨a0, c, d⟩ := h2 e he
      exact ⟨a0, c, by simpa using d⟩

/-- **each batch is checked at most once, and only when complete.**  After any schedule the log of
invocations of the validation closure has no batch twice; every logged batch had all its records ask
for validation; the closure received the batch built by constructor call `b`; verdicts are
broadcast at most once per batch and only for checked, finished batches. -/
theorem batch_checked_at_most_once {n rpb t0 tps failing ops} (h : WSetting n rpb t0 ops) :
    let w := (wreach rpb t0 tps failing ops).1
    let g := (wreach rpb t0 tps failing ops).2
    (invokedKeys w).Nodup ∧
    (∀ b, b ∈ invokedKeys w → ∀ r', r' < n → r' / rpb = b → r' ∈ g.acc) ∧
    (∀ b c p, (b, c, p) ∈ w.invoked → c = b) ∧
    (verdictKeys w).Nodup ∧
    (∀ b v, (b, v) ∈ w.verdicts → b ∈ invokedKeys w ∧ b ∈ w.released ∧ (v = true ↔ b ∉ failing)) := by
  intro w g
  have hI := wreach_inv (tps := tps) (failing := failing) h
  obtain ⟨hfail, hrpb⟩ := wreach_static rpb t0 tps failing ops
  obtain ⟨s, hs, hinv⟩ := hI.batcher
  have hr := hrpb s hs
  refine ⟨hI.invoked_nodup, ?_, hI.invoked_ctor, hI.verdict_nodup, ?_⟩
  · intro b hb
    have := (hinv.closed_all b (hI.invoked_closed b hb)).2
    rw [hr] at this
    exact (whole_iff_records h.rpb_pos _ b).1 this
  · intro b v hv
    obtain ⟨a, b2, c⟩ := hI.verdict_ok b v hv
    rw [hfail] at c
    refine ⟨a, b2, ?_⟩
    rw [c]; simp

/-- **active_work_equals_batch.** `DZKPUpgraded::new` sets `active_work = records_per_batch`, and
`validated_seq_join` chains `validate_record(k)` to task `k`, so task `k` can only finish once the
later records of its batch — at most `rpb − 1` positions ahead — have reached validation.  With the
window equal to the batch size this cannot stall: under the (stronger) requirement that *all* of
the next `rpb − 1` tasks have started, the sequential join (C15 model) finishes within `2n + 2`
polls with every result in order.  A window smaller than the batch would not do: see the
`c15.dep` cases of suite `c15_local` with `d ≥ w`. -/
theorem active_work_equals_batch (n rpb : Nat) (hrpb : 0 < rpb) :
    let obs := (IpaVerif.SeqJoin.run (IpaVerif.SeqJoin.State.new n rpb)
      (List.replicate (2 * n + 2) (IpaVerif.SeqJoin.depEnv n (rpb - 1) (rpb + 1)))).2
    (∃ o, o ∈ obs ∧ o.out = .finished) ∧ IpaVerif.SeqJoin.items obs = List.range n := by
  exact IpaVerif.C15.window_dependency_progress n rpb (rpb - 1) hrpb (by omega)

/-- `records_per_batch = 0` is loud as well: every call panics (division by zero). -/
theorem zero_batch_size_is_loud (s : State) (h0 : s.rpb = 0) (r n : Nat) (ht : s.total = .specified n) :
    validateRecord s r = (s, .panic .divZero) := by
  simp [validateRecord, ht, Total.count, batchOffset, h0]

/-- The modelled constant is the one in the source (regenerated on every run). -/
theorem target_proof_size_test : IpaVerif.Generated.targetProofSizeTest = 8192 := rfl

end IpaVerif.C16
