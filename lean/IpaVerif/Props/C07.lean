import IpaVerif.Model.Circuits
/-!
# C07 — secure arithmetic and Boolean circuits compute the stated plaintext functions (plaintext instance)

The circuits of `IpaVerif.Model.Circuits` instantiated with plaintext bits (`plainAlg`), for bit lists of
ARBITRARY lengths `n = |x|`, `m = |y|` (least significant bit first).  `y' = val y mod 2^n` is the value
of `y` truncated / zero-extended to the width of `x`, which is what the Rust loops do
(`x.zip(y.chain(repeat(ZERO)))`).  Core Lean only.  The share-level statements (reconstruction,
consistency, lifting lemma) are in `IpaVerif.Props.C07Shares`.
-/
namespace IpaVerif.C07
open IpaVerif.Sharing IpaVerif.Circuits

theorem val_lt (l : List Bool) : val l < 2 ^ l.length := by
  induction l with
  | nil => simp [val]
  | cons b bs ih =>
    simp only [val, List.length_cons, Nat.pow_succ]
    cases b <;> simp <;> omega

theorem bit_mod (b v P : Nat) (hb : b ≤ 1) (hP : 0 < P) : (b + 2 * v) % (P * 2) = b + 2 * (v % P) := by
  have h1 := Nat.div_add_mod v P
  have h2 := Nat.mod_lt v hP
  generalize v % P = r at *
  generalize v / P = q at *
  subst h1
  have : b + 2 * (P * q + r) = (b + 2 * r) + (P * 2) * q := by
    rw [Nat.mul_add, Nat.mul_assoc P 2 q, Nat.mul_left_comm 2 P q]; omega
  rw [this, Nat.add_mul_mod_self_left, Nat.mod_eq_of_lt (by omega)]

theorem val_mod_cons (b : Bool) (bs : List Bool) (n : Nat) :
    val (b :: bs) % 2 ^ (n + 1) = b.toNat + 2 * (val bs % 2 ^ n) := by
  simp only [val, Nat.pow_succ]
  exact bit_mod _ _ _ (Bool.toNat_le b) (Nat.pow_pos (by omega))

theorem val_mod_headD (y : List Bool) (n : Nat) :
    val y % 2 ^ (n + 1) = (y.headD false).toNat + 2 * (val y.tail % 2 ^ n) := by
  cases y with
  | nil => simp [val]
  | cons yb ys => simpa using val_mod_cons yb ys n

theorem full_adder (x y c : Bool) :
    (xor (xor x y) c).toNat + 2 * (xor c ((xor x c) && (xor y c))).toNat = x.toNat + y.toNat + c.toNat := by
  cases x <;> cases y <;> cases c <;> rfl

theorem addCirc_cons (p : Path) (i : Nat) (xb : Bool) (xs y : List Bool) (c : Bool) :
    additionCircuit plainAlg p i (xb :: xs) y c =
      (xor (xor xb (y.headD false)) c ::
        (additionCircuit plainAlg p (i + 1) xs y.tail (xor c ((xor xb c) && (xor (y.headD false) c)))).1,
        (additionCircuit plainAlg p (i + 1) xs y.tail (xor c ((xor xb c) && (xor (y.headD false) c)))).2) := rfl

theorem addCirc_value (p : Path) (x : List Bool) : ∀ (i : Nat) (y : List Bool) (c : Bool),
    (additionCircuit plainAlg p i x y c).1.length = x.length ∧
    val (additionCircuit plainAlg p i x y c).1 + 2 ^ x.length * (additionCircuit plainAlg p i x y c).2.toNat
      = val x + val y % 2 ^ x.length + c.toNat := by
  induction x with
  | nil => intro i y c; simp [additionCircuit, val, Nat.mod_one]
  | cons xb xs ih =>
    intro i y c
    have hfa := full_adder xb (y.headD false) c
    have hy := val_mod_headD y xs.length
    rw [addCirc_cons]
    obtain ⟨hl, hv⟩ := ih (i + 1) y.tail (xor c ((xor xb c) && (xor (y.headD false) c)))
    generalize additionCircuit plainAlg p (i + 1) xs y.tail _ = r at hl hv ⊢
    simp only [List.length_cons, val, Nat.pow_succ] at hy ⊢
    have hcf := Bool.toNat_le r.2
    generalize r.2.toNat = cf at *
    generalize (xor c ((xor xb c) && (xor (y.headD false) c))).toNat = c1 at *
    generalize (xor (xor xb (y.headD false)) c).toNat = s0 at *
    refine ⟨by omega, ?_⟩
    generalize 2 ^ xs.length = P at *
    generalize val y % (P * 2) = vy at *
    rcases (by omega : cf = 0 ∨ cf = 1) with h | h <;> subst h <;> simp only [Nat.mul_zero, Nat.mul_one] at hv ⊢ <;> omega

/-! ### subtraction / comparison -/

theorem full_subtractor (x y c : Bool) :
    (xor x (!(xor y c))).toNat + 2 * (xor c ((xor x c) && !(xor y c))).toNat + y.toNat = x.toNat + 1 + c.toNat := by
  cases x <;> cases y <;> cases c <;> rfl

theorem subCirc_cons (p : Path) (i : Nat) (xb : Bool) (xs y : List Bool) (c : Bool) :
    subtractionCircuit plainAlg p i (xb :: xs) y c =
      (xor xb (!(xor (y.headD false) c)) ::
        (subtractionCircuit plainAlg p (i + 1) xs y.tail (xor c ((xor xb c) && !(xor (y.headD false) c)))).1,
        (subtractionCircuit plainAlg p (i + 1) xs y.tail (xor c ((xor xb c) && !(xor (y.headD false) c)))).2) := rfl

/-- `subtraction_circuit` on plaintext bits, all lengths: with `y' = val y mod 2^|x|`,
`val diff + 2^n·carry_out + y' + 1 = val x + 2^n + carry_in` (i.e. `x + (2^n − 1 − y') + c₀`). -/
theorem subCirc_value (p : Path) (x : List Bool) : ∀ (i : Nat) (y : List Bool) (c : Bool),
    (subtractionCircuit plainAlg p i x y c).1.length = x.length ∧
    val (subtractionCircuit plainAlg p i x y c).1 + 2 ^ x.length * (subtractionCircuit plainAlg p i x y c).2.toNat
      + val y % 2 ^ x.length + 1 = val x + 2 ^ x.length + c.toNat := by
  induction x with
  | nil => intro i y c; simp [subtractionCircuit, val, Nat.mod_one, Nat.add_comm]
  | cons xb xs ih =>
    intro i y c
    have hfa := full_subtractor xb (y.headD false) c
    have hy := val_mod_headD y xs.length
    rw [subCirc_cons]
    obtain ⟨hl, hv⟩ := ih (i + 1) y.tail (xor c ((xor xb c) && !(xor (y.headD false) c)))
    generalize subtractionCircuit plainAlg p (i + 1) xs y.tail _ = r at hl hv ⊢
    simp only [List.length_cons, val, Nat.pow_succ] at hy ⊢
    have hcf := Bool.toNat_le r.2
    generalize r.2.toNat = cf at *
    generalize (xor c ((xor xb c) && !(xor (y.headD false) c))).toNat = c1 at *
    generalize (xor xb (!(xor (y.headD false) c))).toNat = s0 at *
    refine ⟨by omega, ?_⟩
    generalize 2 ^ xs.length = P at *
    generalize val y % (P * 2) = vy at *
    rcases (by omega : cf = 0 ∨ cf = 1) with h | h <;> subst h <;> simp only [Nat.mul_zero, Nat.mul_one] at hv ⊢ <;> omega


/-! ### the property theorems -/

/-- **add_value** — `integer_add` (and `addition_circuit` with any carry-in `c₀`), every `n`, `m`:
`val(sum) + 2^n·carry = val x + (val y mod 2^n) + c₀`, and the sum has `n` bits. -/
theorem add_value (p : Path) (i : Nat) (x y : List Bool) (c0 : Bool) :
    (additionCircuit plainAlg p i x y c0).1.length = x.length ∧
    val (additionCircuit plainAlg p i x y c0).1 + 2 ^ x.length * (additionCircuit plainAlg p i x y c0).2.toNat
      = val x + val y % 2 ^ x.length + c0.toNat := addCirc_value p x i y c0

theorem integer_add_value (p : Path) (x y : List Bool) :
    val (integerAdd plainAlg p x y).1 + 2 ^ x.length * (integerAdd plainAlg p x y).2.toNat
      = val x + val y % 2 ^ x.length := by
  have := (add_value p 0 x y false).2
  simpa [integerAdd, plainAlg] using this

/-- documented corollary: if `y` fits in `|x|` bits the result is the `(n+1)`-bit sum. -/
theorem integer_add_value_fits (p : Path) (x y : List Bool) (h : val y < 2 ^ x.length) :
    val (integerAdd plainAlg p x y).1 + 2 ^ x.length * (integerAdd plainAlg p x y).2.toNat = val x + val y := by
  rw [integer_add_value, Nat.mod_eq_of_lt h]

example : val [true, true] < 2 ^ [false, true, true].length := by decide

theorem orAux_const (p : Path) (c : Bool) : ∀ (i : Nat) (l : List Bool),
    boolOrAux plainAlg p i l (List.replicate l.length c) = l.map (fun a => a || c) := by
  intro i l
  induction l generalizing i with
  | nil => rfl
  | cons a as ih =>
    simp only [List.length_cons, List.replicate_succ, boolOrAux, List.map_cons, ih]
    congr 1
    cases a <;> cases c <;> rfl

theorem val_map_or_true (l : List Bool) : val (l.map (fun a => a || true)) + 1 = 2 ^ l.length := by
  induction l with
  | nil => rfl
  | cons a as ih =>
    have h1 : (a || true).toNat = 1 := by cases a <;> rfl
    simp only [List.map_cons, val, List.length_cons, Nat.pow_succ, h1]; omega

theorem map_or_false (l : List Bool) : l.map (fun a => a || false) = l := by
  simp

/-- **sat_add_value** — `integer_sat_add`, every `n`, `m`: `min(val x + (val y mod 2^n), 2^n − 1)`. -/
theorem sat_add_value (p : Path) (x y : List Bool) :
    val (integerSatAdd plainAlg p x y) = min (val x + val y % 2 ^ x.length) (2 ^ x.length - 1) := by
  obtain ⟨hl, hv⟩ := add_value (p ++ [stepAdd]) 0 x y false
  have hlt := val_lt (additionCircuit plainAlg (p ++ [stepAdd]) 0 x y false).1
  unfold integerSatAdd
  simp only [show plainAlg.zero = false from rfl]
  generalize additionCircuit plainAlg (p ++ [stepAdd]) 0 x y false = r at *
  rw [show List.replicate x.length r.2 = List.replicate r.1.length r.2 by rw [hl], orAux_const]
  have h1 := val_map_or_true r.1
  rw [hl] at hlt h1
  have hP : 0 < 2 ^ x.length := Nat.pow_pos (by omega)
  simp only [Bool.toNat_false, Nat.add_zero] at hv
  generalize 2 ^ x.length = P at *
  generalize val y % P = y' at *
  rw [Nat.min_def]
  cases hc : r.2 <;> simp only [hc, Bool.toNat_true, Bool.toNat_false, Nat.mul_zero, Nat.mul_one, Nat.add_zero] at hv
  · rw [map_or_false]; split <;> omega
  · split <;> omega

/-- **sub_value** — `subtraction_circuit` with any carry-in, every `n`, `m`. -/
theorem sub_value (p : Path) (i : Nat) (x y : List Bool) (c0 : Bool) :
    (subtractionCircuit plainAlg p i x y c0).1.length = x.length ∧
    val (subtractionCircuit plainAlg p i x y c0).1 + 2 ^ x.length * (subtractionCircuit plainAlg p i x y c0).2.toNat
      + val y % 2 ^ x.length + 1 = val x + 2 ^ x.length + c0.toNat := subCirc_value p x i y c0

/-- `integer_sub`: `(val x + 2^n − y') mod 2^n` with `y' = val y mod 2^n` ("it computes `(x+2^|x|)−y`,
considering only the least-significant `length(x)` bits of `y`"). -/
theorem integer_sub_value (p : Path) (x y : List Bool) :
    val (integerSub plainAlg p x y) = (val x + 2 ^ x.length - val y % 2 ^ x.length) % 2 ^ x.length := by
  obtain ⟨hl, hv⟩ := sub_value p 0 x y true
  have hlt := val_lt (subtractionCircuit plainAlg p 0 x y true).1
  have hP : 0 < 2 ^ x.length := Nat.pow_pos (by omega)
  have hy := Nat.mod_lt (val y) hP
  unfold integerSub
  simp only [show plainAlg.one = true from rfl]
  generalize subtractionCircuit plainAlg p 0 x y true = r at *
  rw [hl] at hlt
  generalize 2 ^ x.length = P at *
  generalize val y % P = y' at *
  cases hc : r.2 <;> simp only [hc, Bool.toNat_true, Bool.toNat_false, Nat.mul_zero, Nat.mul_one] at hv
  · rw [Nat.mod_eq_of_lt (by omega)]; omega
  · have : val x + P - y' = val r.1 + P := by omega
    rw [this, Nat.add_mod_right, Nat.mod_eq_of_lt hlt]

/-- **geq_value** — `compare_geq`: `val x ≥ y'`. -/
theorem geq_value (p : Path) (x y : List Bool) :
    compareGeq plainAlg p x y = decide (val x ≥ val y % 2 ^ x.length) := by
  obtain ⟨hl, hv⟩ := sub_value p 0 x y true
  have hlt := val_lt (subtractionCircuit plainAlg p 0 x y true).1
  have hy := Nat.mod_lt (val y) (Nat.pow_pos (n := x.length) (show 0 < 2 by omega))
  unfold compareGeq
  simp only [show plainAlg.one = true from rfl]
  generalize subtractionCircuit plainAlg p 0 x y true = r at *
  rw [hl] at hlt
  generalize 2 ^ x.length = P at *
  cases hc : r.2 <;> simp only [hc, Bool.toNat_true, Bool.toNat_false, Nat.mul_zero, Nat.mul_one] at hv <;>
    simp <;> omega

/-- **gt_value** — `compare_gt`: `val x > y'`. -/
theorem gt_value (p : Path) (x y : List Bool) :
    compareGt plainAlg p x y = decide (val x > val y % 2 ^ x.length) := by
  obtain ⟨hl, hv⟩ := sub_value p 0 x y false
  have hlt := val_lt (subtractionCircuit plainAlg p 0 x y false).1
  have hy := Nat.mod_lt (val y) (Nat.pow_pos (n := x.length) (show 0 < 2 by omega))
  unfold compareGt
  simp only [show plainAlg.zero = false from rfl]
  generalize subtractionCircuit plainAlg p 0 x y false = r at *
  rw [hl] at hlt
  generalize 2 ^ x.length = P at *
  cases hc : r.2 <;> simp only [hc, Bool.toNat_true, Bool.toNat_false, Nat.mul_zero, Nat.mul_one] at hv <;>
    simp <;> omega

/-- documented corollaries ("Outputs x>=y / x>y for length(x) >= log2(y)"). -/
theorem geq_value_fits (p : Path) (x y : List Bool) (h : val y < 2 ^ x.length) :
    compareGeq plainAlg p x y = decide (val x ≥ val y) := by rw [geq_value, Nat.mod_eq_of_lt h]
theorem gt_value_fits (p : Path) (x y : List Bool) (h : val y < 2 ^ x.length) :
    compareGt plainAlg p x y = decide (val x > val y) := by rw [gt_value, Nat.mod_eq_of_lt h]

theorem selectAux_zero (p : Path) (c : Bool) : ∀ (i : Nat) (l : List Bool),
    selectAux plainAlg p c i l (List.replicate l.length false) = l.map (fun a => c && a) := by
  intro i l
  induction l generalizing i with
  | nil => rfl
  | cons a as ih =>
    simp only [List.length_cons, List.replicate_succ, selectAux, List.map_cons, ih]
    congr 1
    cases a <;> cases c <;> rfl

theorem map_and_true (l : List Bool) : l.map (fun a => true && a) = l := by
  simp

theorem val_map_and_false (l : List Bool) : val (l.map (fun a => false && a)) = 0 := by
  induction l with
  | nil => rfl
  | cons a as ih =>
    have h1 : (false && a).toNat = 0 := rfl
    simp only [List.map_cons, val, h1, ih]

/-- **sat_sub_value** — `integer_sat_sub`: `max(val x − y', 0)` (truncated subtraction). -/
theorem sat_sub_value (p : Path) (x y : List Bool) :
    val (integerSatSub plainAlg p x y) = val x - val y % 2 ^ x.length := by
  obtain ⟨hl, hv⟩ := sub_value (p ++ [stepSubtract]) 0 x y true
  have hlt := val_lt (subtractionCircuit plainAlg (p ++ [stepSubtract]) 0 x y true).1
  have hy := Nat.mod_lt (val y) (Nat.pow_pos (n := x.length) (show 0 < 2 by omega))
  unfold integerSatSub select
  simp only [show plainAlg.zero = false from rfl, show plainAlg.not false = true from rfl]
  generalize subtractionCircuit plainAlg (p ++ [stepSubtract]) 0 x y true = r at *
  rw [show List.replicate x.length false = List.replicate r.1.length false by rw [hl], selectAux_zero]
  rw [hl] at hlt
  generalize 2 ^ x.length = P at *
  cases hc : r.2 <;> simp only [hc, Bool.toNat_true, Bool.toNat_false, Nat.mul_zero, Nat.mul_one] at hv
  · rw [val_map_and_false]; omega
  · rw [map_and_true]; omega

/-- **select_value** — `select`: the multiplexer returns `true_value` or `false_value` (same length). -/
theorem select_value (p : Path) (c : Bool) : ∀ (i : Nat) (t f : List Bool), t.length = f.length →
    selectAux plainAlg p c i t f = if c then t else f := by
  intro i t
  induction t generalizing i with
  | nil => intro f h; cases f <;> simp_all [selectAux]
  | cons a as ih =>
    intro f h
    cases f with
    | nil => simp at h
    | cons b bs =>
      have := ih (i + 1) bs (by simpa using h)
      simp only [selectAux, this]
      cases c <;> cases a <;> cases b <;> simp [plainAlg]

example : [true, false].length = [false, false].length := rfl

/-- **or_value** — `bool_or`: bitwise or (equal lengths; otherwise the code panics = `none`). -/
theorem or_value (p : Path) : ∀ (i : Nat) (a b : List Bool),
    boolOrAux plainAlg p i a b = List.zipWith (· || ·) a b := by
  intro i a
  induction a generalizing i with
  | nil => intro b; cases b <;> rfl
  | cons x xs ih =>
    intro b
    cases b with
    | nil => rfl
    | cons y ys =>
      simp only [boolOrAux, List.zipWith_cons_cons, ih]
      congr 1
      cases x <;> cases y <;> rfl

theorem or_panics_iff (p : Path) (a b : List Bool) : boolOr plainAlg p a b = none ↔ a.length ≠ b.length := by
  unfold boolOr; split <;> simp_all

theorem and_value (p : Path) : ∀ (i : Nat) (a b : List Bool),
    boolAndAux plainAlg p i a b = List.zipWith (· && ·) a b := by
  intro i a
  induction a generalizing i with
  | nil => intro b; cases b <;> rfl
  | cons x xs ih =>
    intro b
    cases b with
    | nil => rfl
    | cons y ys => simp only [boolAndAux, List.zipWith_cons_cons, ih]; rfl

end IpaVerif.C07
