import IpaVerif.Proofs.StreamsSpec
import IpaVerif.Generated.StreamConsts
/-!
# C17 — byte-stream parsers are independent of chunking and total on arbitrary input

Model: `IpaVerif.Model.Streams` (transcription of `helpers/transport/stream/{input,buffered}.rs`
and `helpers/stream/{chunks,exact}.rs`).  The upstream is any list of `chunk bytes | err` items
(empty chunks allowed); `upBytes up` is the concatenation of the chunks before the first upstream
error and `upErr up` says whether there is one.  Every theorem is for **all** byte strings, all
chunkings, all record sizes `sz ≥ 1`.  `flattenItems` forgets how records were grouped into vectors
(`Batch` mode / `LengthDelimitedStream` return `Vec`s whose boundaries *do* depend on the chunking).
Deserialisation of the record type is applied on top of the raw records (see `Driver/C17.render`).
-/
namespace IpaVerif.C17
open IpaVerif.Streams

/-- **records_chunking_independent.** `RecordsStream` (`Single`: exactly; `Batch`: after flattening
the vectors) yields the `sz`-byte records of the concatenated input followed by the terminal item
determined by the concatenation alone — so any two chunkings of the same bytes give the same records,
and the same error after the same number of records. -/
theorem records_chunking_independent (sz : Nat) (hsz : 0 < sz) (up up' : List Up)
    (hb : upBytes up = upBytes up') (he : upErr up = upErr up') :
    records false sz up = records false sz up' ∧
    flattenItems (records true sz up) = flattenItems (records true sz up') ∧
    records false sz up = specRecords sz (upBytes up) (upErr up) ∧
    flattenItems (records true sz up) = specRecords sz (upBytes up) (upErr up) := by
  have a := records_spec false sz hsz up
  have a' := records_spec false sz hsz up'
  have b := records_spec true sz hsz up
  have b' := records_spec true sz hsz up'
  refine ⟨?_, ?_, a.2 rfl, b.1⟩
  · rw [a.2 rfl, a'.2 rfl, hb, he]
  · rw [b.1, b'.1, hb, he]

example : upBytes [.chunk [1, 2], .chunk [], .chunk [3]] = upBytes [.chunk [1], .chunk [2, 3]] ∧
    upErr [.chunk [1, 2], .chunk [], .chunk [3]] = upErr [.chunk [1], .chunk [2, 3]] := by decide

/-- **length_delimited_chunking_independent.** `LengthDelimitedStream`, after flattening the
vectors, yields exactly what the chunk-free wire-format specification `specLd` says about the
concatenated input (lengths 0 and > 255, headers split across chunks, empty chunks included). -/
theorem length_delimited_chunking_independent (up up' : List Up)
    (hb : upBytes up = upBytes up') (he : upErr up = upErr up') :
    flattenItems (lengthDelimited up) = flattenItems (lengthDelimited up') ∧
    flattenItems (lengthDelimited up) = specLd (upErr up) none (upBytes up) := by
  refine ⟨?_, lengthDelimited_spec up⟩
  rw [lengthDelimited_spec, lengthDelimited_spec, hb, he]

/-- **records_exact.** The records are exactly the encoded ones — none lost, duplicated, reordered or
altered: fixed-size records concatenate back to the input (up to the incomplete tail) and each has
`sz` bytes; length-delimited parsing inverts the encoder `encodeLd` for every list of records
(each shorter than 2^16), whatever follows. -/
theorem records_exact (sz : Nat) (hsz : 0 < sz) (R : Bytes) (recs : List Bytes) (tail : Bytes) (e : Bool)
    (hrecs : ∀ r, r ∈ recs → r.length < 65536) :
    ((chunksOf sz (R.length / sz) R).flatten = R.take (R.length / sz * sz) ∧
      (∀ r, r ∈ chunksOf sz (R.length / sz) R → r.length = sz) ∧
      (chunksOf sz (R.length / sz) R).length = R.length / sz) ∧
    specLd e none (encodeLd recs ++ tail) = recs.map .record ++ specLd e none tail := by
  have h := chunksOf_flatten sz (R.length / sz) R (Nat.div_mul_le_self _ _)
  have hlen : ∀ (k : Nat) (R : Bytes), (chunksOf sz k R).length = k := by
    intro k
    induction k with
    | zero => intro R; rfl
    | succ k ih => intro R; simp [chunksOf, ih]
  exact ⟨⟨h.1, h.2, hlen _ _⟩, specLd_encode e recs tail hrecs⟩

example : ∀ r, r ∈ [[1, 2, 3], [], [255]] → r.length < 65536 := by decide

/-- **trailing_partial_is_error.** Without an upstream error, input that does not end on a record
boundary ends in an error item (never in a clean `None`), and input that does ends cleanly. -/
theorem trailing_partial_is_error (sz : Nat) (hsz : 0 < sz) (up : List Up) (hne : upErr up = false) :
    ((upBytes up).length % sz ≠ 0 →
      (records false sz up).getLast? = some (.errTrailing ((upBytes up).length % sz)) ∧
      (flattenItems (records true sz up)).getLast? = some (.errTrailing ((upBytes up).length % sz))) ∧
    ((upBytes up).length % sz = 0 →
      (records false sz up).getLast? = some .done ∧ (flattenItems (records true sz up)).getLast? = some .done) ∧
    -- length-delimited: a lone header byte, or a header whose payload is incomplete
    (∀ recs tail, (∀ r, r ∈ recs → r.length < 65536) → upBytes up = encodeLd recs ++ tail →
      (tail = [] → (flattenItems (lengthDelimited up)).getLast? = some .done) ∧
      (tail.length = 1 → (flattenItems (lengthDelimited up)).getLast? = some (.errTrailing 1)) ∧
      (2 ≤ tail.length → tail.length - 2 < le16 (tail.take 2) →
        ∃ k, 0 < k ∧ (flattenItems (lengthDelimited up)).getLast? = some (.errTrailing k))) := by
  have a := (records_spec false sz hsz up).2 rfl
  have b := (records_spec true sz hsz up).1
  refine ⟨?_, ?_, ?_⟩
  · intro h
    rw [a, b, hne]
    simp [specRecords, terminal, Nat.pos_of_ne_zero h]
  · intro h
    rw [a, b, hne]
    simp [specRecords, terminal, h]
  · intro recs tail hr hb
    rw [lengthDelimited_spec, hb, specLd_encode _ recs tail hr, hne]
    refine ⟨?_, ?_, ?_⟩
    · intro ht; subst ht
      rw [specLd_none]; simp [ldTerminal]
    · intro ht
      rw [specLd_none]; simp [ht, ldTerminal]
    · intro h2 hlt
      rw [specLd_none, if_neg (by omega), specLd_some]
      rw [if_pos (by rw [List.length_drop]; exact hlt)]
      unfold ldTerminal
      simp only [Bool.false_eq_true, if_false, Option.isSome_some, if_true]
      split
      · exact ⟨_, by rename_i h; exact h, by simp⟩
      · exact ⟨2, by omega, by simp⟩

example : upErr [.chunk [1, 2, 3]] = false ∧ (upBytes [.chunk [1, 2, 3]]).length % 2 ≠ 0 := by decide

/-- **parsers_total.** For every input and chunking the parsers never panic (no index out of
bounds in `read_bytes`, no `unwrap` on an empty deque, no exhausted loop). -/
theorem parsers_total (sz : Nat) (hsz : 0 < sz) (up : List Up) :
    Item.panic ∉ records false sz up ∧ Item.panic ∉ records true sz up ∧
    Item.panic ∉ lengthDelimited up ∧ Item.panic ∉ buffered sz up := by
  have hspecR : Item.panic ∉ specRecords sz (upBytes up) (upErr up) := by
    unfold specRecords
    simp only [List.mem_append, List.mem_map, List.mem_singleton, not_or]
    exact ⟨fun ⟨_, _, h⟩ => (by cases h), fun h => terminal_ne_panic _ _ h.symm⟩
  refine ⟨?_, ?_, ?_, ?_⟩
  · rw [(records_spec false sz hsz up).2 rfl]; exact hspecR
  · intro h
    have := panic_mem_flatten h
    rw [(records_spec true sz hsz up).1] at this
    exact hspecR this
  · intro h
    have := panic_mem_flatten h
    rw [lengthDelimited_spec] at this
    exact specLd_no_panic _ _ none _ (Nat.lt_succ_self _) this
  · unfold buffered
    rw [bufferedRun_spec sz hsz _ _ (by
      have := upBytes_le_total up
      simp [BState.rest]; omega)]
    unfold specBuffered
    simp only [List.mem_append, List.mem_map, not_or]
    refine ⟨fun ⟨_, _, h⟩ => (by cases h), ?_⟩
    split
    · simp
    · split <;> simp

/-- **buffered_rechunk.** `BufferedBytesStream` re-chunks without touching the bytes: whole
`sz`-byte items of the concatenated input, then — only at a clean end of the input — the shorter
non-empty remainder, then the end; an upstream error is passed on after the whole items. -/
theorem buffered_rechunk (sz : Nat) (hsz : 0 < sz) (up : List Up) :
    buffered sz up = specBuffered sz (upBytes up) (upErr up) ∧
    ((chunksOf sz ((upBytes up).length / sz) (upBytes up)).flatten ++
        (upBytes up).drop ((upBytes up).length / sz * sz) = upBytes up) ∧
    (∀ r, r ∈ chunksOf sz ((upBytes up).length / sz) (upBytes up) → r.length = sz) ∧
    ((upBytes up).drop ((upBytes up).length / sz * sz)).length = (upBytes up).length % sz := by
  have h := chunksOf_flatten sz ((upBytes up).length / sz) (upBytes up) (Nat.div_mul_le_self _ _)
  refine ⟨?_, ?_, h.2, ?_⟩
  · unfold buffered
    rw [bufferedRun_spec sz hsz _ _ (by
      have := upBytes_le_total up
      simp [BState.rest]; omega)]
    simp [BState.rest]
  · rw [h.1, List.take_append_drop]
  · rw [List.length_drop]
    have := Nat.div_add_mod' (upBytes up).length sz
    omega

/-- **chunks_tail_padding.** `process_slice_by_chunks::<N>` yields `⌈n/N⌉` chunks of exactly `N`
items, indexed `0,1,…`, all `Full` except a final `Partial(n mod N)` when `N ∤ n`, padded with
defaults; iterating the chunks (`Chunk::into_iter`) gives back exactly the input — the padding is
dropped and nothing else. -/
theorem chunks_tail_padding {α} (N : Nat) (hN : 0 < N) (dflt : α) (l : List α) :
    (sliceChunks N dflt l).length = (l.length + N - 1) / N ∧
    (∀ c, c ∈ sliceChunks N dflt l → c.2.2.length = N) ∧
    (sliceChunks N dflt l).flatMap (fun c => chunkIter N c.2) = l ∧
    (sliceChunks N dflt l).map (·.2.1) =
      List.replicate (l.length / N) .full ++ (if l.length % N ≠ 0 then [.part (l.length % N)] else []) ∧
    (sliceChunks N dflt l).map (·.1) = List.range ((l.length + N - 1) / N) := by
  have h := sliceChunksFrom_spec N hN dflt (l.length + 1) 0 l (Nat.lt_succ_self _)
  refine ⟨h.1, h.2.1, h.2.2.1, h.2.2.2.1, ?_⟩
  have := h.2.2.2.2
  simpa [sliceChunks] using this

/-- **unpack_precondition_holds.** For a chunk produced by a chunk processor (`Full`, or
`Partial(len)` with `len ≤ N`) whose data was split into `N / M` sub-chunks (`M ∣ N`, `M ≥ 1`),
`Chunk::unpack::<M>` does not panic; the sub-chunk lengths add up to the chunk's length and the
sub-chunks are the first `⌈len/M⌉` payloads in order. -/
theorem unpack_precondition_holds {α} (N M : Nat) (hM : 0 < M) (hdiv : N % M = 0) (ct : ChunkType)
    (data : List α) (hdata : data.length = N / M) (hct : ctLen N ct ≤ N) :
    ∃ subs, unpack N M ct data = .ok subs ∧
      (subs.map (fun c => ctLen M c.1)).sum = ctLen N ct ∧
      subs.map (·.2) = data.take ((ctLen N ct + M - 1) / M) := by
  have hNM : N / M * M = N := by
    have := Nat.div_add_mod' N M
    omega
  unfold unpack
  simp only [show M ≠ 0 by omega, if_false, hdiv, ne_eq, not_true_eq_false]
  cases ct with
  | full =>
    simp only [hdata, decide_true, Bool.not_true, Bool.false_eq_true, if_false]
    obtain ⟨h1, h2⟩ := unpackGo_sum M hM data N
    refine ⟨_, rfl, ?_, h2⟩
    rw [h1, hdata, hNM]; simp [ctLen]
  | part len =>
    simp only [ctLen] at hct
    have hle : (len + M - 1) / M ≤ N / M := by
      apply (Nat.div_le_iff_le_mul_add_pred hM).2
      rw [Nat.mul_comm, hNM]; omega
    simp only [hdata, hle, Nat.le_refl, and_self, decide_true, Bool.not_true, Bool.false_eq_true, if_false]
    obtain ⟨h1, h2⟩ := unpackGo_sum M hM data len
    refine ⟨_, rfl, ?_, h2⟩
    rw [h1, hdata, hNM]; simp [ctLen]; omega

example : (8 : Nat) % 4 = 0 ∧ ([10, 11] : List Nat).length = 8 / 4 ∧ ctLen 8 (.part 5) ≤ 8 := by decide

/-- `TryFlattenIters` yields the concatenation of the iterables before the first error, then the
error, then ends; `process_stream_by_chunks` cuts the items before the first error into chunks of
`N` (the partial tail padded only at a clean end) and passes an upstream error on. -/
theorem try_flatten_and_stream_chunks {α} (N : Nat) (hN : 0 < N) (dflt : α)
    (ls : List (TItem (List α))) (l : List (TItem α)) :
    tryFlatten ls =
      ((ls.takeWhile (· matches .ok _)).flatMap (fun | .ok x => x.map TItem.ok | .err => [])) ++
        (if (ls.all (· matches .ok _)) then [] else [.err]) ∧
    ((streamChunks N dflt l).flatMap (chunkVals N) =
      if hasErrT l then (okPrefix l).take ((okPrefix l).length / N * N) else okPrefix l) ∧
    (hasErrT l = true → (streamChunks N dflt l).getLast? = some .err) := by
  have h := streamChunksGo_spec N hN dflt l [] 0 (by simpa using hN)
  exact ⟨tryFlatten_spec ls, by simpa [streamChunks] using h.1, h.2.1⟩

/-- The modelled constants are the ones in the source (regenerated on every run). -/
theorem length_header_is_u16 : IpaVerif.Generated.lengthHeaderSize = 2 := rfl

end IpaVerif.C17
