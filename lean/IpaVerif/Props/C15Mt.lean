import IpaVerif.Model.SeqJoinMt
import IpaVerif.Generated.SeqJoinMt
/-!
# C15 — the multi-threaded sequential join yields every result once, in input order, none dropped (b17)

Model: `IpaVerif.Model.SeqJoinMt` (transcription of `seq_join/multi_thread.rs`: `poll_next` over an
`async_scoped` scope).  The theorems quantify over **every** number of tasks `n`, every capacity and
every schedule `envs`: per `poll_next` call, how many items the SOURCE is willing to yield before it
answers `Pending` (0 = the source itself is pending — at any moment, in particular when every task
drawn so far has completed and been yielded), and which spawned tasks have completed on their worker
threads.  Core Lean only.
-/
namespace IpaVerif.C15Mt
open IpaVerif.SeqJoinMt

/-- the invariant: emitted ++ in flight ++ not yet drawn = the input, in order; `len()` counts the
emitted and the in-flight tasks; a source that answered `None` has nothing left -/
structure Inv (n : Nat) (s : State) (em : List Nat) : Prop where
  order : em ++ s.futs ++ s.src = List.range n
  len : s.len = em.length + s.futs.length
  done : s.srcDone = true → s.src = []

theorem inv_new (n cap : Nat) : Inv n (State.new n cap) [] :=
  ⟨by simp [State.new], by simp [State.new], by simp [State.new]⟩

theorem refill_inv {n : Nat} {em : List Nat} : ∀ (fuel : Nat) (s : State) (pulled budget : Nat),
    Inv n s em → Inv n (refill fuel s pulled budget).1 em ∧ (refill fuel s pulled budget).1.cap = s.cap ∧
      (refill fuel s pulled budget).1.futs.length + (refill fuel s pulled budget).1.src.length = s.futs.length + s.src.length ∧
      (s.futs ≠ [] → (refill fuel s pulled budget).1.futs ≠ []) := by
  intro fuel
  induction fuel with
  | zero => intro s pulled budget h; exact ⟨h, rfl, rfl, id⟩
  | succ fuel ih =>
    intro s pulled budget h
    unfold refill
    split
    · split
      · exact ⟨h, rfl, rfl, id⟩
      · split
        · rename_i hsrc
          exact ⟨⟨by simpa [hsrc] using h.order, h.len, fun _ => hsrc⟩, rfl, by simp, id⟩
        · rename_i t rest hsrc
          split
          · exact ⟨h, rfl, rfl, id⟩
          · have h' : Inv n { s with src := rest, futs := s.futs ++ [t], len := s.len + 1 } em :=
              ⟨by have := h.order; rw [hsrc] at this; simpa using this,
               by simp [h.len]; omega,
               fun hd => by have := h.done hd; rw [hsrc] at this; cases this⟩
            obtain ⟨a, b, c, d⟩ := ih { s with src := rest, futs := s.futs ++ [t], len := s.len + 1 } (pulled + 1) (budget - 1) h'
            refine ⟨a, b, ?_, fun _ => d (by simp)⟩
            rw [c, hsrc]; simp; omega
    · exact ⟨h, rfl, rfl, id⟩

/-- one call of `poll_next` (the code's guard): the invariant is kept with the emitted item appended;
`Ready(None)` is answered only when the source is done and nothing is in flight or left — at that
point everything has been emitted. -/
theorem step_spec {n : Nat} {s : State} {em : List Nat} (h : Inv n s em) (env : Env) :
    (step s env).1.cap = s.cap ∧
    (∀ i, (step s env).2.1 = .item i → Inv n (step s env).1 (em ++ [i])) ∧
    ((step s env).2.1 = .pending → Inv n (step s env).1 em) ∧
    ((step s env).2.1 = .finished → Inv n (step s env).1 em ∧ (step s env).1.srcDone = true ∧
      (step s env).1.futs = [] ∧ (step s env).1.src = [] ∧ em = List.range n) := by
  have key : ∀ r : State × Out × Nat, r = step s env →
      r.1.cap = s.cap ∧ (∀ i, r.2.1 = .item i → Inv n r.1 (em ++ [i])) ∧ (r.2.1 = .pending → Inv n r.1 em) ∧
      (r.2.1 = .finished → Inv n r.1 em ∧ r.1.srcDone = true ∧ r.1.futs = [] ∧ r.1.src = [] ∧ em = List.range n) := by
    intro r hr
    obtain ⟨h1, hcap, _, _⟩ := refill_inv (n := n) (em := em) (s.cap + 1) s 0 env.budget h
    unfold step stepWith at hr
    generalize hrf : refill (s.cap + 1) s 0 env.budget = rf at hr h1 hcap
    obtain ⟨s1, pulled⟩ := rf
    simp only at hr h1 hcap
    by_cases hg : guardRemaining s1 = true
    · simp only [hg, if_true] at hr
      unfold pollScope at hr
      cases hf : s1.futs with
      | nil => simp [guardRemaining, hf] at hg
      | cons hd rest =>
        simp only [hf] at hr
        by_cases hd' : env.done hd = true
        · simp only [hd', if_true] at hr
          subst hr
          refine ⟨hcap, ?_, (by intro hp; cases hp), (by intro hp; cases hp)⟩
          intro i hi
          have : i = hd := by simpa using hi.symm
          subst this
          exact ⟨by have := h1.order; rw [hf] at this; simpa using this,
                 by have := h1.len; rw [hf] at this; simp at this ⊢; omega,
                 h1.done⟩
        · simp only [hd', Bool.false_eq_true, if_false] at hr
          subst hr
          exact ⟨hcap, (by intro i hi; cases hi), fun _ => h1, (by intro hp; cases hp)⟩
    · simp only [hg, Bool.false_eq_true, if_false] at hr
      have hf : s1.futs = [] := by
        cases hf : s1.futs with
        | nil => rfl
        | cons a b => simp [guardRemaining, hf] at hg
      by_cases hdn : s1.srcDone = true
      · simp only [hdn, if_true] at hr
        subst hr
        refine ⟨hcap, (by intro i hi; cases hi), (by intro hp; cases hp), fun _ => ⟨h1, hdn, hf, h1.done hdn, ?_⟩⟩
        have := h1.order
        rw [hf, h1.done hdn] at this
        simpa using this
      · simp only [hdn, Bool.false_eq_true, if_false] at hr
        subst hr
        exact ⟨hcap, (by intro i hi; cases hi), fun _ => h1, (by intro hp; cases hp)⟩
  exact key _ rfl

theorem items_append (a b : List Out) : items (a ++ b) = items a ++ items b := by
  induction a with
  | nil => rfl
  | cons x xs ih => cases x <;> simp [items, ih]

theorem run_spec {n : Nat} : ∀ (envs : List Env) (s : State) (em : List Nat), Inv n s em →
    Inv n (run s envs).1 (em ++ items (run s envs).2) ∧ (run s envs).1.cap = s.cap ∧
    (∀ pre o post, (run s envs).2 = pre ++ o :: post → o = .finished → em ++ items pre = List.range n) := by
  intro envs
  induction envs with
  | nil => intro s em h; exact ⟨by simpa [run, runWith, items] using h, rfl, by intro pre o post hh; simp [run, runWith] at hh⟩
  | cons e es ih =>
    intro s em h
    obtain ⟨hcap, hitem, hpend, hfin⟩ := step_spec h e
    have hrun : run s (e :: es) = ((run (step s e).1 es).1, (step s e).2.1 :: (run (step s e).1 es).2) := by
      simp [run, runWith, step]
    rw [hrun]
    cases ho : (step s e).2.1 with
    | item i =>
      obtain ⟨a, b, c⟩ := ih (step s e).1 (em ++ [i]) (hitem i ho)
      refine ⟨by simpa [items, List.append_assoc] using a, by rw [b, hcap], ?_⟩
      intro pre o post hsplit hfo
      cases pre with
      | nil => simp at hsplit; rw [← hsplit.1] at hfo; cases hfo
      | cons p ps =>
        simp at hsplit
        have := c ps o post hsplit.2 hfo
        rw [← hsplit.1]; simpa [items, List.append_assoc] using this
    | pending =>
      obtain ⟨a, b, c⟩ := ih (step s e).1 em (hpend ho)
      refine ⟨by simpa [items] using a, by rw [b, hcap], ?_⟩
      intro pre o post hsplit hfo
      cases pre with
      | nil => simp at hsplit; rw [← hsplit.1] at hfo; cases hfo
      | cons p ps =>
        simp at hsplit
        have := c ps o post hsplit.2 hfo
        rw [← hsplit.1]; simpa [items] using this
    | finished =>
      obtain ⟨hI, _, _, _, hem⟩ := hfin ho
      obtain ⟨a, b, c⟩ := ih (step s e).1 em hI
      refine ⟨by simpa [items] using a, by rw [b, hcap], ?_⟩
      intro pre o post hsplit hfo
      cases pre with
      | nil => simpa [items] using hem
      | cons p ps =>
        simp at hsplit
        have := c ps o post hsplit.2 hfo
        rw [← hsplit.1]; simpa [items] using this

theorem prefix_of_range {n : Nat} {a b : List Nat} (h : a ++ b = List.range n) :
    a = List.range a.length ∧ a.length ≤ n := by
  have hlen : a.length ≤ n := by
    have := congrArg List.length h; simp at this; omega
  refine ⟨?_, hlen⟩
  apply List.ext_getElem (by simp)
  intro i h1 h2
  have : (a ++ b)[i]'(by simp; omega) = a[i] := List.getElem_append_left h1
  rw [← this]
  simp [h]

/-- **mt_yields_all_in_order.**  Whatever the schedule — the source pending at any moment, also right
after the window has been fully drained; tasks completing on their threads in any order — the results
handed out by the multi-threaded join are `0,1,…,k-1` in this order (every task's result at most once,
in input order), and end-of-stream (`Ready(None)`) is answered only after ALL `n` results: nothing is
dropped. -/
theorem mt_yields_all_in_order (n cap : Nat) (envs : List Env) :
    let outs := (run (State.new n cap) envs).2
    items outs = List.range (items outs).length ∧ (items outs).length ≤ n ∧
    (∀ pre o post, outs = pre ++ o :: post → o = .finished → items pre = List.range n) := by
  intro outs
  obtain ⟨hI, _, hfin⟩ := run_spec envs (State.new n cap) [] (inv_new n cap)
  have hord := hI.order
  simp only [List.nil_append] at hord hfin
  have := prefix_of_range (show items outs ++ ((run (State.new n cap) envs).1.futs ++ (run (State.new n cap) envs).1.src)
      = List.range n by rw [← List.append_assoc]; exact hord)
  exact ⟨this.1, this.2, hfin⟩

/-- **mt_no_early_end.**  In every reachable state, a call that answers `Ready(None)` finds the
source done (`Fuse::is_done`), the scope empty and no task left: a source that is merely PENDING
never ends the stream. -/
theorem mt_no_early_end (n cap : Nat) (envs : List Env) (env : Env) :
    let s := (run (State.new n cap) envs).1
    (step s env).2.1 = .finished →
      (step s env).1.srcDone = true ∧ (step s env).1.futs = [] ∧ (step s env).1.src = [] ∧
      items (run (State.new n cap) envs).2 = List.range n := by
  intro s hf
  obtain ⟨hI, _, _⟩ := run_spec envs (State.new n cap) [] (inv_new n cap)
  obtain ⟨_, _, _, hfin⟩ := step_spec hI env
  obtain ⟨_, a, b, c, d⟩ := hfin hf
  exact ⟨a, b, c, by simpa using d⟩

/-- **mt_pending_when_drained_and_source_pending.**  The call the seeded variant gets wrong: every task
drawn so far has completed and been yielded (`futs = []`), the source is open and answers `Pending` now
(`budget = 0`): the join answers `Pending` and its state is unchanged — for EVERY such state, whatever
was spawned before (`len`). -/
theorem mt_pending_when_drained_and_source_pending (s : State) (env : Env)
    (hf : s.futs = []) (hd : s.srcDone = false) (hs : s.src ≠ []) (hb : env.budget = 0) (hc : 0 < s.cap) :
    step s env = (s, .pending, 0) := by
  obtain ⟨t, rest, hsrc⟩ := List.exists_cons_of_ne_nil hs
  have hr : refill (s.cap + 1) s 0 env.budget = (s, 0) := by
    unfold refill
    simp [hf, hc, hd, hsrc, hb]
  unfold step stepWith
  rw [hr]
  simp [guardRemaining, hf, hd]

example : (0 : Nat) < 3 ∧ ({ src := [1, 2], srcDone := false, futs := [], len := 1, cap := 3 } : State).src ≠ [] := by decide

/-! ## Liveness: a willing environment drains everything -/

theorem willing_step {n : Nat} {s : State} {em : List Nat} (h : Inv n s em) (hc : 0 < s.cap) :
    (s.futs.length + s.src.length = 0 → (step s willing).2.1 = .finished) ∧
    (0 < s.futs.length + s.src.length →
      (step s willing).1.futs.length + (step s willing).1.src.length + 1 = s.futs.length + s.src.length) := by
  have hr : step s willing = step s willing := rfl
  obtain ⟨h1, hcap, hsum, hne⟩ := refill_inv (n := n) (em := em) (s.cap + 1) s 0 willing.budget h
  -- the refilled queue is non-empty whenever something is left
  have hfill : 0 < s.futs.length + s.src.length → (refill (s.cap + 1) s 0 willing.budget).1.futs ≠ [] := by
    intro hpos
    by_cases hf : s.futs = []
    · have hs : s.src ≠ [] := by intro hs; simp [hf, hs] at hpos
      obtain ⟨t, rest, hsrc⟩ := List.exists_cons_of_ne_nil hs
      have hd : s.srcDone = false := by
        cases hd : s.srcDone with
        | false => rfl
        | true => have := h.done hd; rw [hsrc] at this; cases this
      unfold refill
      simp only [hf, List.length_nil, hc, if_true, hd, Bool.false_eq_true, if_false, hsrc, willing]
      simp only [Nat.one_ne_zero, if_false]
      exact (refill_inv (n := n) (em := em) s.cap _ _ _
        ⟨by have := h.order; rw [hsrc, hf] at this; simpa [hf] using this,
         by simp [h.len, hf],
         fun hd' => by simp at hd'⟩).2.2.2 (by simp)
    · exact hne hf
  unfold step stepWith
  generalize hrf : refill (s.cap + 1) s 0 willing.budget = rf at h1 hcap hsum hfill
  obtain ⟨s1, pulled⟩ := rf
  simp only at h1 hcap hsum hfill ⊢
  refine ⟨?_, ?_⟩
  · intro hz
    have hf : s1.futs = [] := by
      cases hf : s1.futs with
      | nil => rfl
      | cons a b => rw [hf] at hsum; simp at hsum; omega
    have hs0 : s.src = [] := by cases hs0 : s.src with | nil => rfl | cons a b => rw [hs0] at hz; simp at hz
    have hf0 : s.futs = [] := by cases hf0 : s.futs with | nil => rfl | cons a b => rw [hf0] at hz; simp at hz
    -- the source answers `None` (or did already)
    have hdone : s1.srcDone = true := by
      have : refill (s.cap + 1) s 0 willing.budget = (s1, pulled) := hrf
      unfold refill at this
      simp only [hf0, List.length_nil, hc, if_true, hs0] at this
      by_cases hd : s.srcDone = true
      · simp only [hd, if_true] at this
        have := congrArg Prod.fst this; simp at this; rw [← this]; exact hd
      · simp only [hd, Bool.false_eq_true, if_false] at this
        have := congrArg Prod.fst this; simp at this; rw [← this]
    simp [guardRemaining, hf, hdone]
  · intro hpos
    have hne1 := hfill hpos
    obtain ⟨hd, rest, hfut⟩ := List.exists_cons_of_ne_nil hne1
    simp [guardRemaining, hfut, pollScope, willing]
    rw [hfut] at hsum; simp at hsum; omega

theorem willing_drains {n : Nat} : ∀ (m : Nat) (s : State) (em : List Nat), Inv n s em → 0 < s.cap →
    s.futs.length + s.src.length = m →
    Out.finished ∈ (run s (List.replicate (m + 1) willing)).2 := by
  intro m
  induction m with
  | zero =>
    intro s em h hc hm
    have := (willing_step h hc).1 hm
    simp [run, runWith, List.replicate] at this ⊢
    simpa [step] using this.symm
  | succ m ih =>
    intro s em h hc hm
    have hstep := (willing_step h hc).2 (by omega)
    obtain ⟨hcap, hitem, hpend, hfin⟩ := step_spec h willing
    have hrun : run s (List.replicate (m + 1 + 1) willing)
        = ((run (step s willing).1 (List.replicate (m + 1) willing)).1,
           (step s willing).2.1 :: (run (step s willing).1 (List.replicate (m + 1) willing)).2) := by
      simp [run, runWith, step, List.replicate]
    rw [hrun]
    have hI : ∃ em', Inv n (step s willing).1 em' := by
      cases ho : (step s willing).2.1 with
      | item i => exact ⟨_, hitem i ho⟩
      | pending => exact ⟨_, hpend ho⟩
      | finished => exact ⟨_, (hfin ho).1⟩
    obtain ⟨em', hI'⟩ := hI
    exact List.mem_cons_of_mem _ (ih (step s willing).1 em' hI' (by rw [hcap]; exact hc) (by omega))

/-- **mt_completes_when_willing.**  After ANY schedule (pending sources, unfinished tasks, …), once the
source yields again and the tasks complete, the join hands out everything that is left and only then
answers end-of-stream: all `n` results, in input order. -/
theorem mt_completes_when_willing (n cap : Nat) (hc : 0 < cap) (envs : List Env) :
    let s := (run (State.new n cap) envs).1
    let outs := (run (State.new n cap) (envs ++ List.replicate (s.futs.length + s.src.length + 1) willing)).2
    Out.finished ∈ outs ∧ items outs = List.range n := by
  intro s outs
  obtain ⟨hI, hcap, _⟩ := run_spec envs (State.new n cap) [] (inv_new n cap)
  have hrun_app : ∀ (a b : List Env) (s0 : State), (run s0 (a ++ b)).2 = (run s0 a).2 ++ (run (run s0 a).1 b).2 := by
    intro a
    induction a with
    | nil => intro b s0; simp [run, runWith]
    | cons e es ih =>
      intro b s0
      have := ih b (stepWith guardRemaining s0 e).1
      simp [run, runWith] at this ⊢
      exact this
  have hfin : Out.finished ∈ outs := by
    show Out.finished ∈ (run (State.new n cap) (envs ++ List.replicate (s.futs.length + s.src.length + 1) willing)).2
    rw [hrun_app]
    exact List.mem_append_right _ (willing_drains _ s _ hI (by rw [hcap]; exact hc) rfl)
  refine ⟨hfin, ?_⟩
  obtain ⟨h1, h2, h3⟩ := mt_yields_all_in_order n cap (envs ++ List.replicate (s.futs.length + s.src.length + 1) willing)
  obtain ⟨pre, post, hsplit⟩ := List.append_of_mem hfin
  have hpre := h3 pre .finished post hsplit rfl
  have hlen : n ≤ (items outs).length := by
    have : items outs = items pre ++ items (Out.finished :: post) := by rw [hsplit, items_append]
    rw [this, hpre]; simp
  have : (items outs).length = n := by
    have : (items outs).length ≤ n := h2
    omega
  show items (run (State.new n cap) (envs ++ List.replicate (s.futs.length + s.src.length + 1) willing)).2 = List.range n
  rw [h1, this]

example : (0 : Nat) < 3 := by decide

/-! ## The guard -/

/-- **mt_guard_is_remaining.**  The guard in front of the scope poll regenerated from
`multi_thread.rs` is `this.spawner.remaining() > 0` (tasks IN FLIGHT), the refill loop runs while
`remaining() < capacity`, and the three arms are the modelled ones, in order. -/
theorem mt_guard_is_remaining :
    IpaVerif.Generated.SeqJoinMt.pollGuard = "this.spawner.remaining() > 0" ∧
    IpaVerif.Generated.SeqJoinMt.refillCondition = "this.spawner.remaining() < *this.capacity" ∧
    IpaVerif.Generated.SeqJoinMt.pollArms =
      ["if this.spawner.remaining() > 0 => this.spawner.as_mut().poll_next(cx).map(..)",
       "else if this.source.is_done() => Poll::Ready(None)",
       "else => Poll::Pending"] := by decide

/-- **len_guard_counterexample** (seed C15d: `if this.spawner.len() > 0`).  Three tasks, window 3: the
source hands out task 0, which completes and is yielded; at the next call the source is PENDING and
nothing is in flight — the variant polls the empty scope, gets `Ready(None)` and ends the stream with
tasks 1 and 2 never drawn, although the source is not done; later calls keep answering end-of-stream
even when the source would yield again.  The code's guard answers `Pending` there and yields all three. -/
theorem len_guard_counterexample :
    let drained : Env := { budget := 0, done := fun _ => true }
    let envs := [{ budget := 1, done := fun _ => true }, drained, { budget := 5, done := fun _ => true },
      willing, willing, willing]
    (runWith guardLen (State.new 3 3) envs).2.take 2 = [.item 0, .finished] ∧
    (runWith guardLen (State.new 3 3) (envs.take 2)).1.srcDone = false ∧
    (runWith guardLen (State.new 3 3) (envs.take 2)).1.src = [1, 2] ∧
    (run (State.new 3 3) envs).2 = [.item 0, .pending, .item 1, .item 2, .finished, .finished] := by
  decide

end IpaVerif.C15Mt
