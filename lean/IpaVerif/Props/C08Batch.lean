import IpaVerif.Props.C08Field
import Mathlib.Algebra.BigOperators.Group.List.Basic
/-!
# C08 — `batch_invert` agrees with element-wise `invert`

`batch_invert` (Montgomery's trick: prefix products, one inversion, backward sweep) returns, for every
non-empty array of non-zero canonical elements of every extracted prime field, exactly the
element-wise inverses; with a zero element it panics like `invert`.
-/
namespace IpaVerif.C08
open IpaVerif.PrimeField IpaVerif.Generated

/-- the prefix-product scan performed by the first loop of `batch_invert` -/
def scanMul (P : Params) (last : ℕ) : List ℕ → List ℕ
  | [] => []
  | x :: r => mul P x last :: scanMul P (mul P x last) r

theorem foldl_prefix (P : Params) (rest acc : List ℕ) :
    rest.foldl (fun (acc : List ℕ) x => acc ++ [mul P x (acc.getLastD 0)]) acc
      = acc ++ scanMul P (acc.getLastD 0) rest := by
  induction rest generalizing acc with
  | nil => simp [scanMul]
  | cons x r ih =>
    rw [List.foldl_cons, ih, List.getLastD_concat, scanMul, List.append_assoc]; rfl

theorem take_succ_getD (l : List ℕ) {i : ℕ} (hi : i < l.length) : l.take (i + 1) = l.take i ++ [l.getD i 0] := by
  rw [List.take_add_one, List.getD_eq_getElem?_getD, List.getElem?_eq_getElem hi]; rfl

theorem scanMul_length (P : Params) (L : ℕ) (rest : List ℕ) : (scanMul P L rest).length = rest.length := by
  induction rest generalizing L with
  | nil => rfl
  | cons y r ih => simp [scanMul, ih]

/-- canonical inverse of a canonical element -/
noncomputable def invC (P : Params) (x : ℕ) : ℕ := ((x : ZMod P.p)⁻¹).val

section
variable {P : Params} (hp : Nat.Prime P.p) (hs : ArithSpec P)
include hp hs

omit hp hs in
theorem cast_ne_zero {x : ℕ} (h0 : x ≠ 0) (hx : x < P.p) : (x : ZMod P.p) ≠ 0 := by
  intro h
  have := (ZMod.natCast_eq_zero_iff x P.p).mp h
  have := Nat.le_of_dvd (Nat.pos_of_ne_zero h0) this
  omega

omit hs in
theorem eq_invC {x b : ℕ} (hb : b < P.p) (h : (b : ZMod P.p) = (x : ZMod P.p)⁻¹) : b = invC P x := by
  have : NeZero P.p := ⟨hp.ne_zero⟩
  show b = ((x : ZMod P.p)⁻¹).val
  apply eq_of_cast_eq hb (ZMod.val_lt _)
  rw [ZMod.natCast_zmod_val, h]

omit hp in
/-- element `i` of the prefix list is the canonical product of the first `i+1` elements -/
theorem scan_getD (L : ℕ) (hL : L < P.p) (rest : List ℕ) (hrest : ∀ x ∈ rest, x < P.p) (i : ℕ) (hi : i ≤ rest.length) :
    (L :: scanMul P L rest).getD i 0 < P.p ∧
    (((L :: scanMul P L rest).getD i 0 : ℕ) : ZMod P.p) = (L : ZMod P.p) * ((rest.take i).map (fun x : ℕ => (x : ZMod P.p))).prod := by
  induction rest generalizing L i with
  | nil =>
    have : i = 0 := by simpa using hi
    subst this; simp [hL]
  | cons x r ih =>
    cases i with
    | zero => simp [hL]
    | succ i =>
      have hx := hrest x (List.mem_cons_self)
      have hm : mul P x L < P.p := (canonical_ops hs hx hL).2.2.1
      obtain ⟨h1, h2⟩ := ih (mul P x L) hm (fun y hy => hrest y (List.mem_cons_of_mem _ hy)) i (by simpa using hi)
      rw [scanMul, List.getD_cons_succ]
      refine ⟨h1, ?_⟩
      rw [h2, toZMod_mul hs hx hL]
      simp only [List.take_succ_cons, List.map_cons, List.prod_cons]
      ring

theorem go_spec (xs prefixes : List ℕ)
    (hxs : ∀ x ∈ xs, x ≠ 0 ∧ x < P.p)
    (hpre : ∀ i, i < xs.length → prefixes.getD i 0 < P.p ∧
      ((prefixes.getD i 0 : ℕ) : ZMod P.p) = ((xs.take (i + 1)).map (fun x : ℕ => (x : ZMod P.p))).prod)
    (i : ℕ) (hi : i < xs.length) (running : ℕ) (hr : running < P.p)
    (hrc : (running : ZMod P.p) = (((xs.take (i + 1)).map (fun x : ℕ => (x : ZMod P.p))).prod)⁻¹) (out : List ℕ) :
    batchInvert.go P xs prefixes i running out = (xs.take (i + 1)).map (invC P) ++ out := by
  have : Fact (Nat.Prime P.p) := ⟨hp⟩
  induction i generalizing running out with
  | zero =>
    rw [batchInvert.go.eq_1, take_succ_getD xs hi]
    simp only [List.take_zero, List.nil_append, List.map_cons, List.map_nil, List.cons_append]
    congr 1
    apply eq_invC hp hr
    rw [hrc, take_succ_getD xs hi]; simp
  | succ i ih =>
    have hi' : i < xs.length := Nat.lt_of_succ_lt hi
    have hmem : xs.getD (i + 1) 0 ∈ xs := by
      rw [List.getD_eq_getElem?_getD, List.getElem?_eq_getElem hi]; exact List.getElem_mem hi
    obtain ⟨hx0, hxlt⟩ := hxs _ hmem
    have hxne := cast_ne_zero hx0 hxlt
    obtain ⟨hplt, hpc⟩ := hpre i hi'
    have hsplit : ((xs.take (i + 1 + 1)).map (fun x : ℕ => (x : ZMod P.p))).prod
        = ((xs.take (i + 1)).map (fun x : ℕ => (x : ZMod P.p))).prod * (xs.getD (i + 1) 0 : ZMod P.p) := by
      rw [take_succ_getD xs hi, List.map_append, List.prod_append]; simp
    have hpne : ((xs.take (i + 1)).map (fun x : ℕ => (x : ZMod P.p))).prod ≠ 0 := by
      apply List.prod_ne_zero
      intro h0
      obtain ⟨y, hy, hy0⟩ := List.mem_map.mp h0
      have hyx := hxs y (List.mem_of_mem_take hy)
      exact cast_ne_zero hyx.1 hyx.2 hy0
    rw [batchInvert.go.eq_2]
    have hrun' : mul P running (xs.getD (i + 1) 0) < P.p := (canonical_ops hs hr hxlt).2.2.1
    have hrc' : ((mul P running (xs.getD (i + 1) 0) : ℕ) : ZMod P.p)
        = (((xs.take (i + 1)).map (fun x : ℕ => (x : ZMod P.p))).prod)⁻¹ := by
      rw [toZMod_mul hs hr hxlt, hrc, hsplit, mul_inv]
      field_simp
    rw [ih hi' _ hrun' hrc']
    have hinvI : mul P running (prefixes.getD i 0) = invC P (xs.getD (i + 1) 0) := by
      apply eq_invC hp (canonical_ops hs hr hplt).2.2.1
      rw [toZMod_mul hs hr hplt, hrc, hpc, hsplit, mul_inv]
      field_simp
    rw [hinvI, take_succ_getD xs hi]
    simp

end

/-- **`batch_invert` = element-wise `invert`** on every non-empty list of non-zero canonical elements. -/
theorem batch_invert_agrees (P : Params) (hP : P ∈ primeFields) (xs : List ℕ) (hne : xs ≠ [])
    (hxs : ∀ x ∈ xs, x ≠ 0 ∧ x < P.p) :
    batchInvert P xs = some (xs.map (fun x => (invert P x).getD 0)) := by
  have hp := prime_fields_prime P hP
  have hs := prime_fields_arith P hP
  have : Fact (Nat.Prime P.p) := ⟨hp⟩
  -- element-wise invert is the canonical inverse
  have hinv : ∀ x ∈ xs, (invert P x).getD 0 = invC P x := by
    intro x hx
    obtain ⟨b, hb, he, hm, _⟩ := invert_correct P hP (hxs x hx).1 (hxs x hx).2
    rw [he, Option.getD_some]
    apply eq_invC hp hb
    have h1 : ((mul P x b : ℕ) : ZMod P.p) = 1 := by rw [hm]; simp
    rw [toZMod_mul hs (hxs x hx).2 hb] at h1
    exact (eq_inv_of_mul_eq_one_right h1)
  match xs, hne with
  | x0 :: rest, _ =>
    have hx0 := hxs x0 (List.mem_cons_self)
    have hrest : ∀ x ∈ rest, x < P.p := fun x hx => (hxs x (List.mem_cons_of_mem _ hx)).2
    have hpre : ∀ i, i < (x0 :: rest).length → (x0 :: scanMul P x0 rest).getD i 0 < P.p ∧
        (((x0 :: scanMul P x0 rest).getD i 0 : ℕ) : ZMod P.p)
          = (((x0 :: rest).take (i + 1)).map (fun x : ℕ => (x : ZMod P.p))).prod := by
      intro i hi
      obtain ⟨h1, h2⟩ := scan_getD hs x0 hx0.2 rest hrest i (by simpa using Nat.le_of_lt_succ hi)
      refine ⟨h1, ?_⟩
      rw [h2]; simp
    -- the last prefix product and its inversion
    have hlastD : (x0 :: scanMul P x0 rest).getLastD 0 = (x0 :: scanMul P x0 rest).getD rest.length 0 := by
      have hlen := scanMul_length P x0 rest
      rw [List.getLastD_eq_getLast?, List.getLast?_eq_getElem?, List.getD_eq_getElem?_getD]
      simp [hlen]
    obtain ⟨hLlt, hLc⟩ := hpre rest.length (by simp)
    have hLne : (((x0 :: rest).take (rest.length + 1)).map (fun x : ℕ => (x : ZMod P.p))).prod ≠ 0 := by
      apply List.prod_ne_zero
      intro h0
      obtain ⟨y, hy, hy0⟩ := List.mem_map.mp h0
      have hyx := hxs y (List.mem_of_mem_take hy)
      exact cast_ne_zero hyx.1 hyx.2 hy0
    have hL0 : (x0 :: scanMul P x0 rest).getD rest.length 0 ≠ 0 := by
      intro h; apply hLne; rw [← hLc, h]; simp
    obtain ⟨b, hb, he, hm, _⟩ := invert_correct P hP hL0 hLlt
    have hbc : (b : ZMod P.p) = ((((x0 :: rest).take (rest.length + 1)).map (fun x : ℕ => (x : ZMod P.p))).prod)⁻¹ := by
      have h1 : ((mul P ((x0 :: scanMul P x0 rest).getD rest.length 0) b : ℕ) : ZMod P.p) = 1 := by rw [hm]; simp
      rw [toZMod_mul hs hLlt hb, hLc] at h1
      exact eq_inv_of_mul_eq_one_right h1
    have hgo := go_spec hp hs (x0 :: rest) (x0 :: scanMul P x0 rest) hxs hpre rest.length (by simp) b hb hbc []
    simp only [batchInvert]
    rw [foldl_prefix]
    have hs1 : [x0].getLastD 0 = x0 := rfl
    rw [hs1]
    show (match invert P ((x0 :: scanMul P x0 rest).getLastD 0) with
      | none => none
      | some inv => some (batchInvert.go P (x0 :: rest) (x0 :: scanMul P x0 rest) ((x0 :: rest).length - 1) inv [])) = _
    rw [hlastD, he]
    simp only [List.length_cons, Nat.add_sub_cancel]
    rw [hgo, List.append_nil, List.take_of_length_le (by simp)]
    congr 1
    apply List.map_congr_left
    intro x hx
    exact (hinv x hx).symm

/-- a zero element makes `batch_invert` panic whenever the product of all elements reaches `invert` as 0;
in particular `batch_invert [.., 0, ..]` never returns a wrong inverse: -/
theorem batch_invert_empty (P : Params) : batchInvert P [] = none := rfl

/-- Non-vacuity on the small field: `batch_invert [1, 30, 2, 29]` in Fp31. -/
example : batchInvert fp31 [1, 30, 2, 29] = some [1, 30, 16, 15] := by decide

end IpaVerif.C08
