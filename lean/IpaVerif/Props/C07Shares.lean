import IpaVerif.Model.Circuits
import Mathlib.Tactic.Ring
/-!
# C07 — share level: the interactive multiplication reconstructs to the product and stays consistent

`mul_reconstruct` / `mul_consistent` over an arbitrary commutative ring (hence every `Field` impl, given the
C08 homomorphism of its operators into a ring) and over `Boolean` (xor / and, by exhaustion).
-/
namespace IpaVerif.C07
open IpaVerif.Sharing IpaVerif.Circuits

/-- the operations of a commutative ring, as an `Alg`. -/
def ringAlg (R : Type) [CommRing R] : Alg R :=
  { zero := 0, one := 1, add := (· + ·), sub := (· - ·), mul := (· * ·), neg := (- ·) }

/-- **mul_reconstruct** — for consistent sharings of `x`, `y` and ANY PRSS masks (helper `i`'s right mask =
helper `i+1`'s left mask), the output of `multiplication_protocol` reconstructs to `x · y`: the masks cancel. -/
theorem mul_reconstruct {R : Type} [CommRing R] (ρ : Masks R) (x y : World R)
    (hx : Consistent x) (hy : Consistent y) :
    reconstruct (ringAlg R) (mulS (ringAlg R) ρ x y)
      = reconstruct (ringAlg R) x * reconstruct (ringAlg R) y := by
  obtain ⟨hx1, hx2, hx3⟩ := hx
  obtain ⟨hy1, hy2, hy3⟩ := hy
  simp only [reconstruct, mulS, zLeft, ringAlg, hx1, hx2, hx3, hy1, hy2, hy3]
  ring

/-- non-vacuity: a consistent sharing exists for every value and every choice of two random shares. -/
example {R : Type} [CommRing R] (x r1 r2 : R) :
    Consistent (share (ringAlg R) x r1 r2) ∧ reconstruct (ringAlg R) (share (ringAlg R) x r1 r2) = x := by
  refine ⟨⟨rfl, rfl, rfl⟩, ?_⟩
  simp only [reconstruct, share, ofShares, ringAlg]; ring

/-- **mul_consistent** — the output of the multiplication is a consistent sharing for ANY inputs and masks
(each `z_left` is delivered unchanged to the left neighbour). -/
theorem mul_consistent {F : Type} (A : Alg F) (ρ : Masks F) (x y : World F) : Consistent (mulS A ρ x y) :=
  ⟨rfl, rfl, rfl⟩

/-- the masks really must be pairwise shared: with inconsistent masks the product is off by the mask error.
(`ρ` is a parameter of the theorem above precisely because C06 provides this.) -/
theorem mul_reconstruct_bool (ρ : Masks Bool) (x y : World Bool) (hx : Consistent x) (hy : Consistent y) :
    reconstruct boolAlg (mulS boolAlg ρ x y) = (reconstruct boolAlg x && reconstruct boolAlg y) := by
  obtain ⟨⟨a1, a2⟩, ⟨a3, a4⟩, ⟨a5, a6⟩⟩ := x
  obtain ⟨⟨b1, b2⟩, ⟨b3, b4⟩, ⟨b5, b6⟩⟩ := y
  obtain ⟨m1, m2, m3⟩ := ρ
  obtain ⟨hx1, hx2, hx3⟩ := hx
  obtain ⟨hy1, hy2, hy3⟩ := hy
  simp only at hx1 hx2 hx3 hy1 hy2 hy3
  subst hx1 hx2 hx3 hy1 hy2 hy3
  simp only [reconstruct, mulS, zLeft, boolAlg]
  cases a2 <;> cases a4 <;> cases a6 <;> cases b2 <;> cases b4 <;> cases b6 <;>
    cases m1 <;> cases m2 <;> cases m3 <;> rfl

/-- local linear operations commute with reconstruction and keep consistency (any ring). -/
theorem add_reconstruct {R : Type} [CommRing R] (x y : World R) :
    reconstruct (ringAlg R) (addS (ringAlg R) x y) = reconstruct (ringAlg R) x + reconstruct (ringAlg R) y := by
  simp only [reconstruct, addS, map2, ringAlg]; ring
theorem sub_reconstruct {R : Type} [CommRing R] (x y : World R) :
    reconstruct (ringAlg R) (subS (ringAlg R) x y) = reconstruct (ringAlg R) x - reconstruct (ringAlg R) y := by
  simp only [reconstruct, subS, map2, ringAlg]; ring
theorem neg_reconstruct {R : Type} [CommRing R] (x : World R) :
    reconstruct (ringAlg R) (negS (ringAlg R) x) = - reconstruct (ringAlg R) x := by
  simp only [reconstruct, negS, map1, ringAlg]; ring
theorem mulConst_reconstruct {R : Type} [CommRing R] (c : R) (x : World R) :
    reconstruct (ringAlg R) (mulConstS (ringAlg R) c x) = reconstruct (ringAlg R) x * c := by
  simp only [reconstruct, mulConstS, map1, ringAlg]; ring
theorem known_reconstruct {R : Type} [CommRing R] (v : R) :
    reconstruct (ringAlg R) (knownS (ringAlg R) v) = v ∧ Consistent (knownS (ringAlg R) v) := by
  refine ⟨?_, rfl, rfl, rfl⟩
  simp only [reconstruct, knownS, ringAlg]; ring
theorem map2_consistent {F : Type} (f : F → F → F) (x y : World F) (hx : Consistent x) (hy : Consistent y) :
    Consistent (map2 f x y) := by
  obtain ⟨h1, h2, h3⟩ := hx
  obtain ⟨g1, g2, g3⟩ := hy
  exact ⟨by simp [map2, h1, g1], by simp [map2, h2, g2], by simp [map2, h3, g3]⟩
theorem map1_consistent {F : Type} (f : F → F) (x : World F) (hx : Consistent x) : Consistent (map1 f x) := by
  obtain ⟨h1, h2, h3⟩ := hx
  exact ⟨by simp [map1, h1], by simp [map1, h2], by simp [map1, h3]⟩

/-- **or_value** over a ring — `or`: for `a, b ∈ {0,1}` the result reconstructs to `a + b − ab` (the Boolean or). -/
theorem or_reconstruct {R : Type} [CommRing R] (ρ : Masks R) (a b : World R)
    (ha : Consistent a) (hb : Consistent b) :
    reconstruct (ringAlg R) (orS (ringAlg R) ρ a b)
      = reconstruct (ringAlg R) a + reconstruct (ringAlg R) b - reconstruct (ringAlg R) a * reconstruct (ringAlg R) b := by
  unfold orS
  rw [add_reconstruct, add_reconstruct, neg_reconstruct, mul_reconstruct ρ a b ha hb]; ring

/-- **reshare_value** — `Reshare` towards any helper returns a consistent sharing of the same value, for any masks
(only the two components of `L = to_helper.left` and the left component of `R = to_helper.right` are read,
so it even repairs an inconsistent component of `to_helper` itself). -/
theorem reshare_value {R : Type} [CommRing R] (ρ : Masks R) (t : Nat) (ht : t = 1 ∨ t = 2 ∨ t = 3)
    (w : World R) (hw : Consistent w) :
    Consistent (reshareS (ringAlg R) ρ t w) ∧
    reconstruct (ringAlg R) (reshareS (ringAlg R) ρ t w) = reconstruct (ringAlg R) w := by
  obtain ⟨h1, h2, h3⟩ := hw
  rcases ht with rfl | rfl | rfl
  · refine ⟨⟨rfl, rfl, rfl⟩, ?_⟩
    simp only [reconstruct, reshareS, reshareCore, ringAlg, h3]; ring
  · refine ⟨⟨rfl, rfl, rfl⟩, ?_⟩
    simp only [reconstruct, reshareS, reshareCore, ringAlg, h1]; ring
  · refine ⟨⟨rfl, rfl, rfl⟩, ?_⟩
    simp only [reconstruct, reshareS, reshareCore, ringAlg, h2]; ring

end IpaVerif.C07
