import IpaVerif.Proofs.C09Transpose
/-!
# C09, part 2 — bit-matrix transposition is a lossless inverse of itself for every supported shape

The theorems live in `IpaVerif.Proofs.C09Transpose` (namespace `IpaVerif.C09`):
`t8_kernel`, `t16_kernel` (per bit, every input word), `tiled8_eq_ref`, `tiled16_eq_ref` (any number of
tiles), `transpose_eq_ref` (every kernel, all shapes that are multiples of the tile; arbitrary shapes
for the padded variant), `padded_transpose_zero_fill`, `transpose_involutive`,
`generated_impls_shape_ok` (every extracted `impl_transpose_*!` invocation). Here: non-vacuity.
-/
namespace IpaVerif.C09
open IpaVerif.Transpose

example : ShapeOk 16 256 64 ∧ ShapeOk 8 8 256 ∧ ShapeOk 0 256 3 := by decide
example : RowsBytes [[1, 2], [255, 0]] := by
  intro row hrow b hb
  simp only [List.mem_cons, List.mem_nil_iff, or_false] at hrow
  rcases hrow with rfl | rfl <;> simp only [List.mem_cons, List.mem_nil_iff, or_false] at hb <;> omega

/-- The round trip used by aggregation (`[AdditiveShare<BA8>; 256]` → vectorized → back), as an instance. -/
example (m : Rows) (hm : RowsBytes m) (r c : Nat) (hr : r < 256) (hc : c < 8) :
    bitAt (transposeImpl 8 8 256 (transposeImpl 0 256 8 m)) r c = bitAt m r c :=
  transpose_involutive 0 8 256 8 (by decide) (by decide) m hm r c hr hc

end IpaVerif.C09
