import IpaVerif.Generated.HybridConsts
/-!
# C01 — facts about the translated constants of the hybrid pipeline

`Generated/HybridConsts.lean` is regenerated from the sources on every check (constants `CONV_CHUNK`,
`PRF_CHUNK`, `AGGREGATE_DEPTH`, both `TARGET_PROOF_SIZE`s, the chunk formulas, the type instantiation of
`hybrid_protocol` in `Query::execute`, the stage order and the empty-shard branches). The theorems below
are re-checked whenever one of them changes.
-/
namespace IpaVerif.C01
open IpaVerif.Generated.Hybrid

theorem bitLenAux_spec : ∀ (fuel n : Nat), 0 < n → n < 2 ^ fuel →
    2 ^ (bitLenAux fuel n - 1) ≤ n ∧ n < 2 ^ bitLenAux fuel n ∧ 1 ≤ bitLenAux fuel n
  | 0, n, h0, h => by simp at h; omega
  | fuel + 1, n, h0, h => by
    unfold bitLenAux
    rw [if_neg (by omega)]
    by_cases h1 : n / 2 = 0
    · have : n = 1 := by omega
      subst this
      cases fuel <;> simp [bitLenAux]
    · have ih := bitLenAux_spec fuel (n / 2) (by omega) (by rw [Nat.pow_succ] at h; omega)
      obtain ⟨a, b, c⟩ := ih
      refine ⟨?_, ?_, by omega⟩
      · have : 1 + bitLenAux fuel (n / 2) - 1 = (bitLenAux fuel (n / 2) - 1) + 1 := by omega
        rw [this, Nat.pow_succ]; omega
      · rw [Nat.add_comm, Nat.pow_succ]; omega

/-- `non_zero_prev_power_of_two(n)` is the largest power of two `≤ n`, for every non-zero `usize`. -/
theorem prevPow2_spec (n : Nat) (h0 : 0 < n) (h : n < 2 ^ 64) :
    (∃ k, prevPow2 n = 2 ^ k) ∧ prevPow2 n ≤ n ∧ n < 2 * prevPow2 n := by
  obtain ⟨a, b, c⟩ := bitLenAux_spec 64 n h0 h
  unfold prevPow2 bitLen
  rw [Nat.max_eq_right c]
  refine ⟨⟨_, rfl⟩, a, ?_⟩
  have : bitLenAux 64 n = (bitLenAux 64 n - 1) + 1 := by omega
  rw [this, Nat.pow_succ] at b
  omega

/-- … and 1 for zero. -/
theorem prevPow2_zero : prevPow2 0 = 1 := by decide

/-- `aggregate_values_proof_chunk` is a power of two ≥ 2 for EVERY target proof size, input width and
item width (so the outer `chunks(agg_proof_chunk)` loop of `breakdown_reveal_aggregation` always
makes progress: every chunk of ≥ 2 rows shrinks to one). -/
theorem aggregateValuesProofChunk_ge_two (tps width bits : Nat) (h : tps < 2 ^ 64) :
    (∃ k, aggregateValuesProofChunk tps width bits = 2 ^ k) ∧ 2 ≤ aggregateValuesProofChunk tps width bits := by
  unfold aggregateValuesProofChunk
  have hle : tps / width / (bits + 1) ≤ tps :=
    Nat.le_trans (Nat.div_le_self _ _) (Nat.div_le_self _ _)
  obtain ⟨hk, _, h2⟩ := prevPow2_spec (max 2 (tps / width / (bits + 1))) (by omega) (by omega)
  exact ⟨hk, by omega⟩

theorem convProofChunk_ge_two (tps : Nat) (h : tps < 2 ^ 64) :
    (∃ k, convProofChunk tps = 2 ^ k) ∧ 2 ≤ convProofChunk tps := by
  unfold convProofChunk
  have hle : tps / convChunk / 512 ≤ tps :=
    Nat.le_trans (Nat.div_le_self _ _) (Nat.div_le_self _ _)
  obtain ⟨hk, _, h2⟩ := prevPow2_spec (max 2 (tps / convChunk / 512)) (by omega) (by omega)
  exact ⟨hk, by omega⟩

/-- **chunk_sizes_fit** — for both `TARGET_PROOF_SIZE`s (cfg(test) = harness builds, and production):
the three proof-chunk sizes of the hybrid pipeline are the stated powers of two; the aggregation chunk
needs no more tree levels than `AGGREGATE_DEPTH` provides record-id slots for
("This value must be at least the log of the aggregation chunk size"); the bucket count is `2^BK::BITS`;
the output width fits the adder step (`assert!(OV::BITS <= AdditionStep::BITS)`); the value width is
not wider than the output width (needed by `aggTree_value`). -/
theorem chunk_sizes_fit :
    aggProofChunk targetProofSizeTest = 2 ^ 3 ∧ aggProofChunk targetProofSizeProd = 2 ^ 15 ∧
    3 ≤ aggregateDepth ∧ 15 ≤ aggregateDepth ∧
    convProofChunk targetProofSizeTest = 2 ^ 1 ∧ convProofChunk targetProofSizeProd = 2 ^ 8 ∧
    aggregateReportsChunk targetProofSizeTest bkBits vBits = 2 ^ 9 ∧
    aggregateReportsChunk targetProofSizeProd bkBits vBits = 2 ^ 22 ∧
    buckets = 2 ^ bkBits ∧ hvBits ≤ additionStepBits ∧ vBits ≤ hvBits ∧
    targetProofSizeTest < 2 ^ 64 ∧ targetProofSizeProd < 2 ^ 64 := by
  decide

/-- the instantiation used by `Query::execute` / `execute_hybrid_protocol`. -/
theorem instantiation : (bkBits, vBits, hvBits, ssBits, buckets) = (8, 3, 32, 3, 256) := by decide

/-- vectorisation constants (`CONV_CHUNK` records per share-conversion chunk, `PRF_CHUNK` per PRF
evaluation): the conversion chunk is a whole number of PRF chunks (`Chunk::unpack::<PRF_CHUNK>`). -/
theorem chunk_consts : convChunk = 256 ∧ prfChunk = 16 ∧ convChunk % prfChunk = 0 := by decide

/-- the stages of `hybrid_protocol` occur in the order the model composes them. -/
theorem stage_order_as_modelled :
    stageOrder = ["padding", "shuffle", "prf_reshard", "aggregate_reports",
      "breakdown_reveal_aggregation", "finalize", "dp"] ∧
    breakdownStageOrder = ["padding", "shuffle", "reveal", "aggregate"] := by decide

/-- the four places where the code branches on an empty shard, in the shape the model assumes (F8
repaired): only a LONE shard returns early from `hybrid_protocol`; an empty shard reshards an empty stream
in `compute_prf_and_reshard`; `aggregate_reports` (purely local) returns no rows (F11 fix);
`breakdown_reveal_aggregation` checks for emptiness only AFTER its collective shuffle. -/
theorem early_return_sites :
    earlyReturnSites = ["hybrid_protocol.input_rows_empty_and_single_shard",
      "compute_prf_and_reshard.empty_reshards_empty_stream",
      "aggregate_reports.report_pairs_empty", "breakdown_reveal_aggregation.attributions_empty_after_shuffle"] := by decide

end IpaVerif.C01
