import IpaVerif.Model.ValidatedJoin
/-!
C15 for `DZKPValidator::validated_seq_join` (b14, seed C15c): **the first error is not withheld by validation**.

"… yields every task's result exactly once and in input order … and ends the output after the first error for the
fallible variant."  `validated_seq_join` chains `validate_record(i)` to every task; with the malicious validator that
call completes only when the whole batch of record `i` has asked.  A failed task must therefore hand out its error
BEFORE asking: otherwise the error waits for records that may never come.

* `validated_continuation_error_first` — the statement order regenerated from the source is
  `let item = res?; ctx.validate_record(..).await?; Ok(item)`;
* `failed_task_error_at_once` — with that order the continuation of a failed task is `Ready(Err)` at the poll at which
  the task completes, for every state of the batch, and the batch state is untouched (the record never asks);
* `front_error_yielded` — whenever the record at the front of the window has failed, `poll_next` answers its error at
  this very poll: for every window, batch size, total, validation state of every batch and state of all other tasks
  (which may never complete);
* `validated_outputs_in_order`, `error_after_exactly_the_earlier_items` — for every script of polls and environments the
  stream hands out records `0, 1, 2, …` in input order, each once; so the error of task `i` comes after exactly the
  items `< i`;
* `withheld_error_counterexample` — with the other order (validate, then return `res`: seed C15c) the error of a failed
  front task of a 4-record batch is never reported while the three other records stay pending.
-/
namespace IpaVerif.C15V
open IpaVerif.VJoin

theorem validated_continuation_error_first :
    contErrorFirst IpaVerif.Generated.validatedContinuation = true := by decide +kernel

/-- the join as the code builds it has the error-first continuation -/
theorem cfgOf_errFirst (mal : Bool) (n rpb w : Nat) : (cfgOf mal n rpb w).errFirst = true :=
  validated_continuation_error_first

theorem failed_task_error_at_once (c : Cfg) (h : c.errFirst = true) (done : Nat → Option TaskRes) (bs : BatchSt)
    (i : Nat) (hd : done i = some .err) :
    contPoll c done bs i .task = (.doneErr, bs) := by
  simp [contPoll, hd, h]

/-- the window after "draw more values from the input" -/
def window (c : Cfg) (s : State) : List Slot := (refill c c.w s.next s.active).2

theorem front_error_yielded (c : Cfg) (h : c.errFirst = true) (done : Nat → Option TaskRes) (s : State)
    (hlive : s.ended = false) (i : Nat) (rest : List Slot)
    (hfront : window c s = { id := i, ph := .task } :: rest) (hd : done i = some .err) :
    (step c done s).2 = .err i ∧ (step c done s).1.bs = s.bs := by
  unfold window at hfront
  unfold step
  simp only [hlive, Bool.false_eq_true, if_false]
  generalize hr : refill c c.w s.next s.active = r at hfront
  obtain ⟨nx, act⟩ := r
  simp only at hfront
  subst hfront
  simp [failed_task_error_at_once c h done s.bs i hd]

/-! ### what `refill` does: it appends fresh task slots `next, next+1, …` -/

theorem refill_spec (c : Cfg) : ∀ (fuel next : Nat) (act : List Slot),
    ∃ k, (refill c fuel next act).1 = next + k ∧
      (refill c fuel next act).2 = act ++ (List.range' next k).map (fun j => { id := j, ph := .task }) := by
  intro fuel
  induction fuel with
  | zero => intro next act; exact ⟨0, by simp [refill]⟩
  | succ f ih =>
    intro next act
    unfold refill
    by_cases hc : act.length < c.w ∧ next < c.n
    · rw [if_pos hc]
      obtain ⟨k, h1, h2⟩ := ih (next + 1) (act ++ [{ id := next, ph := .task }])
      refine ⟨k + 1, by omega, ?_⟩
      rw [h2, List.range'_succ]
      simp [List.append_assoc]
    · rw [if_neg hc]
      exact ⟨0, by simp⟩

/-- a record already in the window stays at the front -/
theorem window_front_kept (c : Cfg) (s : State) (a : Slot) (l : List Slot) (h : s.active = a :: l) :
    ∃ l', window c s = a :: l' := by
  obtain ⟨k, _, h2⟩ := refill_spec c c.w s.next s.active
  refine ⟨l ++ (List.range' s.next k).map (fun j => { id := j, ph := .task }), ?_⟩
  simp only [window]
  rw [h2, h]
  simp

/-- corollary: a failed record that is at the front of the window and has not asked yet is reported at this poll -/
theorem front_error_yielded' (c : Cfg) (h : c.errFirst = true) (done : Nat → Option TaskRes) (s : State)
    (hlive : s.ended = false) (i : Nat) (l : List Slot) (hact : s.active = { id := i, ph := .task } :: l)
    (hd : done i = some .err) : (step c done s).2 = .err i := by
  obtain ⟨l', hw⟩ := window_front_kept c s _ l hact
  exact (front_error_yielded c h done s hlive i l' hw hd).1

/-! ### input order -/

def ids (l : List Slot) : List Nat := l.map (·.id)

theorem pollRest_ids (c : Cfg) (done : Nat → Option TaskRes) : ∀ (l : List Slot) (bs : BatchSt),
    ids (pollRest c done l bs).1 = ids l := by
  intro l
  induction l with
  | nil => intro bs; simp [pollRest, ids]
  | cons a l ih =>
    intro bs
    simp only [pollRest, ids, List.map_cons]
    have := ih (contPoll c done bs a.id a.ph).2
    simp only [ids] at this
    rw [this]

/-- number of records handed out so far -/
def base (s : State) : Nat := s.next - s.active.length

def Inv (s : State) : Prop :=
  ids s.active = List.range' (base s) s.active.length ∧ s.active.length ≤ s.next

theorem inv_init : Inv State.init := by simp [Inv, State.init, ids, base]

/-- one poll: the invariant is kept; an emitted record is number `base`, and `base` advances by one -/
theorem step_inv (c : Cfg) (done : Nat → Option TaskRes) (s : State) (hinv : Inv s) :
    Inv (step c done s).1 ∧
      (match (step c done s).2 with
        | .ok i => i = base s ∧ base (step c done s).1 = base s + 1
        | .err i => i = base s ∧ base (step c done s).1 = base s + 1
        | _ => base (step c done s).1 = base s) := by
  obtain ⟨hids, hlen⟩ := hinv
  unfold step
  by_cases he : s.ended = true
  · simp [he, Inv, hids, hlen]
  · simp only [he, Bool.false_eq_true, if_false]
    obtain ⟨k, h1, h2⟩ := refill_spec c c.w s.next s.active
    generalize hr : refill c c.w s.next s.active = r at h1 h2
    obtain ⟨nx, act⟩ := r
    simp only at h1 h2
    -- the window after the refill is `base s, base s + 1, …`
    have hall : ids act = List.range' (base s) (s.active.length + k) := by
      rw [h2]
      simp only [ids, List.map_append, List.map_map]
      have : (List.map ((fun x : Slot => x.id) ∘ fun j => ({ id := j, ph := Phase.task } : Slot)) (List.range' s.next k))
          = List.range' s.next k := by simp [Function.comp_def]
      rw [this]
      have hids' : List.map (fun x : Slot => x.id) s.active = List.range' (base s) s.active.length := hids
      rw [hids']
      have hb : s.next = base s + 1 * s.active.length := by simp [base]; omega
      rw [hb, List.range'_append]
    have hlen2 : act.length = s.active.length + k := by
      have := congrArg List.length hall
      simpa [ids] using this
    cases hact : act with
    | nil =>
      simp only
      subst hact
      simp only [List.length_nil] at hlen2
      refine ⟨by simp [Inv, ids, base], ?_⟩
      by_cases hd : dropOk s.bs = true
      · simp [hd, base]; omega
      · simp [hd, base]; omega
    | cons front rest =>
      simp only
      subst hact
      simp only [List.length_cons] at hlen2
      have hfr : front.id = base s ∧ ids rest = List.range' (base s + 1) (s.active.length + k - 1) := by
        have hk : s.active.length + k = (s.active.length + k - 1) + 1 := by omega
        rw [hk, List.range'_succ] at hall
        simp only [ids, List.map_cons, List.cons.injEq] at hall
        exact ⟨hall.1, by simpa [ids] using hall.2⟩
      have hrl : rest.length = s.active.length + k - 1 := by omega
      have hbs : base s = s.next - s.active.length := rfl
      cases hph : (contPoll c done s.bs front.id front.ph).1 with
      | doneOk =>
        simp only
        refine ⟨⟨?_, ?_⟩, hfr.1, ?_⟩
        · simp only [base]; rw [hfr.2, hrl]; congr 1; omega
        · simp only; omega
        · simp only [base]; omega
      | doneErr =>
        simp only
        refine ⟨⟨?_, ?_⟩, hfr.1, ?_⟩
        · simp only [base]; rw [hfr.2, hrl]; congr 1; omega
        · simp only; omega
        · simp only [base]; omega
      | task =>
        simp only
        have hpr := pollRest_ids c done rest (contPoll c done s.bs front.id front.ph).2
        have hpl : (pollRest c done rest (contPoll c done s.bs front.id front.ph).2).1.length = rest.length := by
          have := congrArg List.length hpr; simpa [ids] using this
        refine ⟨⟨?_, ?_⟩, ?_⟩
        · simp only [base, ids, List.map_cons, List.length_cons]
          simp only [ids] at hpr
          rw [hpr, hpl]
          have : nx - (rest.length + 1) = base s := by simp only [base]; omega
          rw [this, List.range'_succ, hfr.1]
          have h2' := hfr.2
          simp only [ids] at h2'
          rw [h2', hrl]
        · simp only [List.length_cons]; omega
        · simp only [base, List.length_cons]; omega
      | waiting res =>
        simp only
        have hpr := pollRest_ids c done rest (contPoll c done s.bs front.id front.ph).2
        have hpl : (pollRest c done rest (contPoll c done s.bs front.id front.ph).2).1.length = rest.length := by
          have := congrArg List.length hpr; simpa [ids] using this
        refine ⟨⟨?_, ?_⟩, ?_⟩
        · simp only [base, ids, List.map_cons, List.length_cons]
          simp only [ids] at hpr
          rw [hpr, hpl]
          have : nx - (rest.length + 1) = base s := by simp only [base]; omega
          rw [this, List.range'_succ, hfr.1]
          have h2' := hfr.2
          simp only [ids] at h2'
          rw [h2', hrl]
        · simp only [List.length_cons]; omega
        · simp only [base, List.length_cons]; omega

theorem run_emitted (c : Cfg) : ∀ (ds : List (Nat → Option TaskRes)) (s : State), Inv s →
    emitted (run c s ds).2 = List.range' (base s) (emitted (run c s ds).2).length := by
  intro ds
  induction ds with
  | nil => intro s _; simp [run, emitted]
  | cons d ds ih =>
    intro s hinv
    obtain ⟨hinv', hout⟩ := step_inv c d s hinv
    have ih' := ih (step c d s).1 hinv'
    simp only [run]
    cases ho : (step c d s).2 with
    | ok i =>
      rw [ho] at hout
      simp only [emitted, List.length_cons]
      rw [List.range'_succ, ← hout.1]
      congr 1
      rw [hout.2] at ih'
      rw [hout.1]; exact ih'
    | err i =>
      rw [ho] at hout
      simp only [emitted, List.length_cons]
      rw [List.range'_succ, ← hout.1]
      congr 1
      rw [hout.2] at ih'
      rw [hout.1]; exact ih'
    | pending => rw [ho] at hout; simp only [emitted]; simp only at hout; rw [hout] at ih'; exact ih'
    | finished => rw [ho] at hout; simp only [emitted]; simp only at hout; rw [hout] at ih'; exact ih'
    | finishedUnverified => rw [ho] at hout; simp only [emitted]; simp only at hout; rw [hout] at ih'; exact ih'
    | done => rw [ho] at hout; simp only [emitted]; simp only at hout; rw [hout] at ih'; exact ih'

/-- **Input order, each record once**: for every configuration (window, batch size, total, validator kind, even for
either statement order) and every script of environments, the records handed out (as `Ok` or as `Err`) are
`0, 1, 2, …`. -/
theorem validated_outputs_in_order (c : Cfg) (ds : List (Nat → Option TaskRes)) :
    emitted (run c State.init ds).2 = List.range (emitted (run c State.init ds).2).length := by
  have := run_emitted c ds State.init inv_init
  rw [List.range_eq_range']
  simpa [base, State.init] using this

theorem emitted_append (a b : List Out) : emitted (a ++ b) = emitted a ++ emitted b := by
  induction a with
  | nil => simp [emitted]
  | cons x a ih => cases x <;> simp [emitted, ih]

theorem range'_split : ∀ (l1 : List Nat) (x : Nat) (l2 : List Nat) (a n : Nat),
    l1 ++ x :: l2 = List.range' a n → l1 = List.range' a l1.length ∧ x = a + l1.length := by
  intro l1
  induction l1 with
  | nil =>
    intro x l2 a n h
    cases n with
    | zero => simp at h
    | succ n => rw [List.range'_succ] at h; simp at h; simp [h.1]
  | cons y l1 ih =>
    intro x l2 a n h
    cases n with
    | zero => simp at h
    | succ n =>
      rw [List.range'_succ] at h
      simp only [List.cons_append, List.cons.injEq] at h
      obtain ⟨h1, h2⟩ := ih x l2 (a + 1) n h.2
      refine ⟨?_, by simp only [List.length_cons]; omega⟩
      simp only [List.length_cons]
      rw [List.range'_succ, h.1, ← h1]

/-- **The error of task `i` comes after exactly the items `< i`**: if some poll of a script answers the error of
record `i`, the records handed out before it are `0, …, i-1`. -/
theorem error_after_exactly_the_earlier_items (c : Cfg) (ds : List (Nat → Option TaskRes)) (pre post : List Out) (i : Nat)
    (h : (run c State.init ds).2 = pre ++ .err i :: post) : emitted pre = List.range i := by
  have hord := validated_outputs_in_order c ds
  rw [h, emitted_append] at hord
  simp only [emitted] at hord
  rw [List.range_eq_range'] at hord
  obtain ⟨h1, h2⟩ := range'_split _ _ _ _ _ hord
  rw [List.range_eq_range']
  have : i = (emitted pre).length := by omega
  rw [this]; exact h1

/-! ### concrete scripts (non-vacuity, and what the other order does) -/

/-- environment: the listed tasks have completed (`true` = Ok) -/
def envOf (l : List (Nat × Bool)) : Nat → Option TaskRes := fun i =>
  match l.lookup i with
  | some true => some .ok
  | some false => some .err
  | none => none

/-- malicious validator, one batch of four records, window four; task 0 failed, the others never complete: the very
first poll answers the error (the code's order). -/
example : (run (cfgOf true 4 4 4) State.init [envOf [(0, false)]]).2 = [.err 0] := by decide +kernel

/-- error at the start of the second batch, first batch complete: `Pending` (record 3 completes the batch), then
`0 1 2 3`, then the error of record 4 although records 5..7 never complete. -/
example : (run (cfgOf true 8 4 4) State.init
      (List.replicate 6 (envOf [(0, true), (1, true), (2, true), (3, true), (4, false)]))).2
    = [.pending, .ok 0, .ok 1, .ok 2, .ok 3, .err 4] := by decide +kernel

/-- **Seed C15c** (validate first, then return `res`): the failed front task asks for validation and waits for the
three records that never come — the error is never reported. -/
theorem withheld_error_counterexample :
    (run { n := 4, rpb := 4, w := 4, mal := true, errFirst := false } State.init
      (List.replicate 5 (envOf [(0, false)]))).2 = List.replicate 5 .pending := by decide +kernel

end IpaVerif.C15V
