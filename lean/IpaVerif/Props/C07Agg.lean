import IpaVerif.Props.C07
/-!
# C07 — `aggregate_values`: pairwise tree reduction with carry growth, then saturation

Proved by carrying the true sums along the tree (`aggLevelG`, `aggLoopG`) with the invariant `Good`:
every row has width `≤ w` and value `min(true sum, 2^w − 1)`, and widths never increase along the list
(the odd pass-through row is the narrowest, so it is always the zero-extended second operand).
-/
namespace IpaVerif.C07
open IpaVerif.Sharing IpaVerif.Circuits

/-- a row of width `≤ w` whose value is the saturated true sum `S` of the inputs it aggregates -/
def Inv (w : Nat) (r : List Bool) (S : Nat) : Prop := r.length ≤ w ∧ val r = min S (2 ^ w - 1)

theorem val_append_single (l : List Bool) (c : Bool) : val (l ++ [c]) = val l + 2 ^ l.length * c.toNat := by
  induction l with
  | nil => simp [val]
  | cons a as ih => simp only [List.cons_append, val, ih, List.length_cons, Nat.pow_succ]; 
                    generalize 2 ^ as.length = P; cases c <;> simp <;> omega

theorem val_append_zeros (l : List Bool) (k : Nat) : val (l ++ List.replicate k false) = val l := by
  induction l with
  | nil => induction k with
    | zero => rfl
    | succ k ih => simp only [List.nil_append] at ih; simp [List.replicate_succ, val, ih]
  | cons a as ih => simp only [List.cons_append, val, ih]

theorem satAdd_length (p : Path) (x y : List Bool) : (integerSatAdd plainAlg p x y).length = x.length := by
  have hl := (add_value (p ++ [stepAdd]) 0 x y false).1
  unfold integerSatAdd
  simp only [show plainAlg.zero = false from rfl]
  generalize additionCircuit plainAlg (p ++ [stepAdd]) 0 x y false = r at *
  rw [show List.replicate x.length r.2 = List.replicate r.1.length r.2 by rw [hl], orAux_const, List.length_map, hl]

theorem aggPair_inv (p : Path) (w : Nat) (a b : List Bool) (Sa Sb : Nat)
    (ha : Inv w a Sa) (hb : Inv w b Sb) (hab : b.length ≤ a.length) :
    Inv w (aggPair plainAlg p w a b) (Sa + Sb) ∧ (aggPair plainAlg p w a b).length = min (a.length + 1) w := by
  obtain ⟨ha1, ha2⟩ := ha
  obtain ⟨hb1, hb2⟩ := hb
  have hva := val_lt a
  have hvb := val_lt b
  have hpb : 2 ^ b.length ≤ 2 ^ a.length := Nat.pow_le_pow_right (by omega) hab
  unfold aggPair
  by_cases h : a.length < w
  · simp only [h, if_true]
    have hv := integer_add_value (p ++ [stepAdd]) a b
    have hl : (integerAdd plainAlg (p ++ [stepAdd]) a b).1.length = a.length := (add_value (p ++ [stepAdd]) 0 a b false).1
    have hpw : 2 ^ (a.length + 1) ≤ 2 ^ w := Nat.pow_le_pow_right (by omega) h
    rw [Nat.pow_succ] at hpw
    rw [Nat.mod_eq_of_lt (by omega)] at hv
    generalize integerAdd plainAlg (p ++ [stepAdd]) a b = r at *
    refine ⟨⟨by simp [hl]; omega, ?_⟩, by simp [hl]; omega⟩
    rw [val_append_single, hl, hv]
    generalize 2 ^ a.length = P at *
    generalize 2 ^ w = Q at *
    generalize 2 ^ b.length = Pb at *
    rw [Nat.min_def] at ha2 hb2 ⊢
    split at ha2 <;> split at hb2 <;> split <;> omega
  · have hw : a.length = w := by omega
    simp only [h, if_false]
    have hv := sat_add_value (p ++ [stepSatAdd]) a b
    have hl := satAdd_length (p ++ [stepSatAdd]) a b
    rw [hw] at hv hpb hva
    rw [Nat.mod_eq_of_lt (by omega)] at hv
    refine ⟨⟨by omega, ?_⟩, by omega⟩
    rw [hv, ha2, hb2]
    generalize 2 ^ w = Q at *
    simp only [Nat.min_def]
    by_cases c1 : Sa ≤ Q - 1 <;> by_cases c2 : Sb ≤ Q - 1 <;> by_cases c3 : Sa + Sb ≤ Q - 1 <;>
      simp only [c1, c2, c3, if_true, if_false] <;> (try split) <;> omega

/-- ghost version of `aggLevel` that carries the true sums along -/
def aggLevelG (p : Path) (w : Nat) : Nat → List (List Bool × Nat) → List (List Bool × Nat)
  | i, (a, sa) :: (b, sb) :: rest => (aggPair plainAlg (p ++ [i]) w a b, sa + sb) :: aggLevelG p w (i + 1) rest
  | _, [x] => [x]
  | _, [] => []

theorem aggLevelG_fst (p : Path) (w : Nat) : ∀ (l : List (List Bool × Nat)) (i : Nat),
    (aggLevelG p w i l).map Prod.fst = aggLevel plainAlg p w i (l.map Prod.fst)
  | [], i => rfl
  | [x], i => rfl
  | (a, sa) :: (b, sb) :: rest, i => by
    simp only [aggLevelG, List.map_cons, aggLevel, aggLevelG_fst p w rest (i + 1)]

theorem aggLevelG_sum (p : Path) (w : Nat) : ∀ (l : List (List Bool × Nat)) (i : Nat),
    ((aggLevelG p w i l).map Prod.snd).sum = (l.map Prod.snd).sum
  | [], i => rfl
  | [x], i => rfl
  | (a, sa) :: (b, sb) :: rest, i => by
    simp only [aggLevelG, List.map_cons, List.sum_cons, aggLevelG_sum p w rest (i + 1)]; omega

theorem aggLevelG_length (p : Path) (w : Nat) : ∀ (l : List (List Bool × Nat)) (i : Nat),
    (aggLevelG p w i l).length = (l.length + 1) / 2
  | [], i => by simp [aggLevelG]
  | [x], i => by simp [aggLevelG]
  | (a, sa) :: (b, sb) :: rest, i => by
    simp only [aggLevelG, List.length_cons, aggLevelG_length p w rest (i + 1)]; omega

def headLen : List (List Bool × Nat) → Nat
  | [] => 0
  | (r, _) :: _ => r.length

/-- all rows satisfy `Inv`, and widths never increase along the list (the pass-through row is the narrowest) -/
def Good (w : Nat) : List (List Bool × Nat) → Prop
  | [] => True
  | (a, sa) :: rest => Inv w a sa ∧ headLen rest ≤ a.length ∧ Good w rest

theorem aggLevelG_good (p : Path) (w : Nat) : ∀ (l : List (List Bool × Nat)) (i : Nat), Good w l →
    Good w (aggLevelG p w i l) ∧ headLen (aggLevelG p w i l) ≤ min (headLen l + 1) w
  | [], i, _ => ⟨trivial, by simp [aggLevelG, headLen]⟩
  | [(a, sa)], i, h => by
    refine ⟨h, ?_⟩
    have := h.1.1
    simp only [aggLevelG, headLen]; omega
  | (a, sa) :: (b, sb) :: rest, i, h => by
    obtain ⟨ia, hba, ib, hrb, hrest⟩ := h
    simp only [headLen] at hba
    obtain ⟨ih1, ih2⟩ := aggLevelG_good p w rest (i + 1) hrest
    obtain ⟨ip, lp⟩ := aggPair_inv (p ++ [i]) w a b sa sb ia ib hba
    simp only [aggLevelG, headLen]
    refine ⟨⟨ip, ?_, ih1⟩, by omega⟩
    have := ia.1
    omega

/-- ghost version of the `while num_rows > 1` loop -/
def aggLoopG (p : Path) (w : Nat) : Nat → Nat → List (List Bool × Nat) → List (List Bool × Nat)
  | 0, _, l => l
  | fuel + 1, depth, l => if l.length ≤ 1 then l else aggLoopG p w fuel (depth + 1) (aggLevelG (p ++ [depth]) w 0 l)

theorem aggLoopG_spec (p : Path) (w : Nat) : ∀ (fuel depth : Nat) (l : List (List Bool × Nat)), Good w l →
    l.length ≤ fuel + 1 →
    (aggLoopG p w fuel depth l).map Prod.fst = aggLoop plainAlg p w fuel depth (l.map Prod.fst) ∧
    Good w (aggLoopG p w fuel depth l) ∧ (aggLoopG p w fuel depth l).length ≤ 1 ∧
    ((aggLoopG p w fuel depth l).map Prod.snd).sum = (l.map Prod.snd).sum ∧
    ((aggLoopG p w fuel depth l) = [] ↔ l = []) := by
  intro fuel
  induction fuel with
  | zero =>
    intro d l hg hl
    have e1 : aggLoopG p w 0 d l = l := rfl
    have e2 : aggLoop plainAlg p w 0 d (l.map Prod.fst) = l.map Prod.fst := rfl
    rw [e1, e2]; exact ⟨rfl, hg, by omega, rfl, Iff.rfl⟩
  | succ fuel ih =>
    intro d l hg hl
    by_cases h : l.length ≤ 1
    · have e1 : aggLoopG p w (fuel + 1) d l = l := by simp [aggLoopG, h]
      have e2 : aggLoop plainAlg p w (fuel + 1) d (l.map Prod.fst) = l.map Prod.fst := by simp [aggLoop, h]
      rw [e1, e2]; exact ⟨rfl, hg, h, rfl, Iff.rfl⟩
    · have e1 : aggLoopG p w (fuel + 1) d l = aggLoopG p w fuel (d + 1) (aggLevelG (p ++ [d]) w 0 l) := by
        simp [aggLoopG, h]
      have e2 : aggLoop plainAlg p w (fuel + 1) d (l.map Prod.fst)
          = aggLoop plainAlg p w fuel (d + 1) (aggLevel plainAlg (p ++ [d]) w 0 (l.map Prod.fst)) := by
        simp [aggLoop, h]
      rw [e1, e2]
      have hlen := aggLevelG_length (p ++ [d]) w l 0
      obtain ⟨i1, i2, i3, i4, i5⟩ := ih (d + 1) (aggLevelG (p ++ [d]) w 0 l) (aggLevelG_good _ w l 0 hg).1 (by omega)
      refine ⟨?_, i2, i3, ?_, ?_⟩
      · rw [i1, aggLevelG_fst]
      · rw [i4, aggLevelG_sum]
      · rw [i5]
        constructor
        · intro he; have : (aggLevelG (p ++ [d]) w 0 l).length = 0 := by rw [he]; rfl
          omega
        · intro he; subst he; simp at h

theorem good_init (w tv : Nat) (htv : tv ≤ w) : ∀ (rows : List (List Bool)), (∀ r ∈ rows, r.length = tv) →
    Good w (rows.map fun r => (r, val r)) ∧ headLen (rows.map fun r => (r, val r)) ≤ tv
  | [], _ => ⟨trivial, by simp [headLen]⟩
  | r :: rest, h => by
    have hr := h r List.mem_cons_self
    obtain ⟨g, hl⟩ := good_init w tv htv rest (fun x hx => h x (List.mem_cons_of_mem _ hx))
    have hv := val_lt r
    have hp : 2 ^ r.length ≤ 2 ^ w := Nat.pow_le_pow_right (by omega) (by omega)
    have hmin : val r = min (val r) (2 ^ w - 1) := by rw [Nat.min_def]; split <;> omega
    show (Inv w r (val r) ∧ headLen (rest.map fun r => (r, val r)) ≤ r.length ∧ Good w (rest.map fun r => (r, val r))) ∧ r.length ≤ tv
    exact ⟨⟨⟨by omega, hmin⟩, by omega, g⟩, by omega⟩

/-- **aggTree_value** — `aggregate_values::<_, OV, B>` (one histogram column; the `B` columns are independent
lanes): for ANY number of rows (0, 1, odd, even — the odd row passes through levels unchanged) of ANY common width
`tv ≤ w = OV::BITS`, the result has exactly `w` bits and equals `min(Σ rows, 2^w − 1)`. -/
theorem aggTree_value (p : Path) (w tv : Nat) (htv : tv ≤ w) (rows : List (List Bool))
    (h : ∀ r ∈ rows, r.length = tv) :
    (aggregateValues plainAlg p w rows).length = w ∧
    val (aggregateValues plainAlg p w rows) = min ((rows.map val).sum) (2 ^ w - 1) := by
  obtain ⟨g, _⟩ := good_init w tv htv rows h
  obtain ⟨s1, s2, s3, s4, s5⟩ := aggLoopG_spec p w rows.length 0 (rows.map fun r => (r, val r)) g (by simp)
  have hfst : (rows.map fun r => (r, val r)).map Prod.fst = rows := by simp [List.map_map, Function.comp_def]
  have hsnd : (rows.map fun r => (r, val r)).map Prod.snd = rows.map val := by simp [List.map_map, Function.comp_def]
  rw [hfst] at s1
  rw [hsnd] at s4
  unfold aggregateValues resizeZero
  rw [← s1]
  generalize aggLoopG p w rows.length 0 (rows.map fun r => (r, val r)) = fin at *
  match fin, s2, s3, s4, s5 with
  | [], _, _, s4, s5 =>
    have : rows = [] := by simpa using s5.mp rfl
    subst this
    simp [show plainAlg.zero = false from rfl]
    exact (val_append_zeros [] w)
  | [(r, S)], s2, _, s4, _ =>
    obtain ⟨⟨hl, hv⟩, _⟩ := s2
    simp only [List.map_cons, List.map_nil, List.sum_cons, List.sum_nil, Nat.add_zero] at s4
    simp only [List.map_cons, List.map_nil, List.headD_cons, show plainAlg.zero = false from rfl]
    rw [List.take_of_length_le hl, val_append_zeros, hv, s4]
    refine ⟨by simp; omega, rfl⟩
  | _ :: _ :: _, _, s3, _, _ => simp at s3

example : ∀ r ∈ [[true, false], [true, true], [false, true]], r.length = 2 := by decide

end IpaVerif.C07
