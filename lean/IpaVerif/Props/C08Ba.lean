import IpaVerif.Model.BoolArray
import IpaVerif.Generated.BoolArrays
import IpaVerif.Props.C08Gf
/-!
# C08 — `Boolean` and the Boolean arrays `BA3 … BA256` (`ff/boolean.rs`, `ff/boolean_array.rs`)

An array is modelled by the value of its whole store, padding bits included. `ba_canonical_*`:
**every operation keeps the padding bits zero** (result `< 2^BITS`), for every width and store size
with `BITS ≤ 8·storeBytes`. For `Not` this needs the padding to be cleared after complementing the
store — the flag `notClearsPadding` is extracted from the source (defect F3, fixed in the repository;
`ba_not_raw_counterexample` documents the behaviour of the former code).
Further: `(BA, xor, and)` is a Boolean ring, `!` is the complement within `BITS`, `as_u128`, equality
and serialisation are injective on canonical elements, `Boolean` is the field GF(2).
-/
namespace IpaVerif.C08
open IpaVerif.BoolArray IpaVerif.Generated

theorem ba_mask_lt (P : Params) : mask P < 2 ^ P.bits := by
  have := Nat.two_pow_pos P.bits
  unfold mask; omega

theorem ba_and_mask (P : Params) {a : Nat} (ha : a < 2 ^ P.bits) : a &&& mask P = a := by
  unfold mask; rw [Nat.and_two_pow_sub_one_eq_mod, Nat.mod_eq_of_lt ha]

/-! ### every operation keeps the padding bits zero -/
theorem ba_canonical_add (P : Params) {a b : Nat} (ha : a < 2 ^ P.bits) (hb : b < 2 ^ P.bits) :
    BoolArray.add P a b < 2 ^ P.bits ∧ BoolArray.sub P a b < 2 ^ P.bits :=
  ⟨Nat.xor_lt_two_pow ha hb, Nat.xor_lt_two_pow ha hb⟩

theorem ba_canonical_mul (P : Params) {a : Nat} (b : Nat) (ha : a < 2 ^ P.bits) :
    BoolArray.mul P a b < 2 ^ P.bits := Nat.lt_of_le_of_lt Nat.and_le_left ha

theorem ba_canonical_neg (P : Params) {a : Nat} (ha : a < 2 ^ P.bits) : BoolArray.neg P a < 2 ^ P.bits := ha

theorem ba_canonical_mulBool (P : Params) {a : Nat} (c : Bool) (ha : a < 2 ^ P.bits) :
    mulBool P a c < 2 ^ P.bits := by
  unfold mulBool; split
  · exact ha
  · exact Nat.two_pow_pos _

/-- `Not` keeps the padding zero — for *any* input store — because the code clears `[$bits..]`. -/
theorem ba_canonical_not (P : Params) (hnot : P.notClearsPadding = true) (a : Nat) :
    BoolArray.not P a < 2 ^ P.bits := by
  simp only [BoolArray.not, hnot, if_true]
  exact Nat.and_lt_two_pow _ (ba_mask_lt P)

theorem ba_canonical_truncate (P : Params) (v : Nat) : BoolArray.truncateFrom P v < 2 ^ P.bits := by
  unfold BoolArray.truncateFrom
  exact Nat.lt_of_lt_of_le (Nat.mod_lt _ (Nat.two_pow_pos _)) (Nat.pow_le_pow_right (by decide) (Nat.min_le_right _ _))

theorem ba_canonical_tryFrom (P : Params) (v r : Nat) (h : BoolArray.tryFrom P v = some r) : r < 2 ^ P.bits := by
  unfold BoolArray.tryFrom at h
  split at h
  · cases h; exact ba_canonical_truncate P v
  · cases h

theorem ba_canonical_expand (P : Params) (b : Bool) : expand P b < 2 ^ P.bits := by
  unfold expand; split
  · exact ba_mask_lt P
  · exact Nat.two_pow_pos _

theorem ba_canonical_set (P : Params) {a i : Nat} (b : Bool) (ha : a < 2 ^ P.bits) (hi : i < P.bits) :
    BoolArray.set P a i b < 2 ^ P.bits := by
  unfold BoolArray.set; split
  · exact ha
  · exact Nat.xor_lt_two_pow ha (Nat.pow_lt_pow_right (by decide) hi)

theorem ofBits_lt (bs : List Bool) : ofBits bs < 2 ^ bs.length := by
  induction bs with
  | nil => simp [ofBits]
  | cons b rest ih =>
    simp only [ofBits, List.length_cons, Nat.pow_succ]
    split <;> omega

theorem ba_canonical_fromIter (P : Params) (bs : List Bool) (r : Nat) (h : fromIter P bs = some r) :
    r < 2 ^ P.bits := by
  unfold fromIter at h
  split at h
  · cases h
  · rename_i hl
    cases h
    have := ofBits_lt (bs.take P.bits)
    rw [List.length_take, Nat.min_eq_left (Nat.le_of_not_lt hl)] at this
    exact this

theorem ba_canonical_tryFromVec (P : Params) (bs : List Bool) (r : Nat) (h : tryFromVec P bs = some r) :
    r < 2 ^ P.bits := by
  unfold tryFromVec at h
  split at h
  · rename_i hl; cases h; rw [← hl]; exact ofBits_lt bs
  · cases h

theorem ofLeBytes_lt (bs : List Nat) (h : ∀ b ∈ bs, b < 256) : Util.ofLeBytes bs < 256 ^ bs.length := by
  induction bs with
  | nil => simp [Util.ofLeBytes]
  | cons b rest ih =>
    have hb := h b (List.mem_cons_self)
    have hr := ih (fun x hx => h x (List.mem_cons_of_mem _ hx))
    simp only [Util.ofLeBytes, List.length_cons, Nat.pow_succ]
    omega

/-- `deserialize` yields canonical elements only: the fallible flavour checks the padding, the
infallible flavour has none (`BITS = 8·storeBytes`). -/
theorem ba_canonical_deserialize (P : Params) (hinf : P.fallible = false → P.bits = 8 * P.storeBytes)
    (bs : List Nat) (hbytes : ∀ b ∈ bs, b < 256) (v : Nat) (h : BoolArray.deserialize P bs = some v) :
    v < 2 ^ P.bits := by
  unfold BoolArray.deserialize at h
  split at h
  · cases h
  · rename_i hl
    simp only at h
    by_cases hf : P.fallible = true
    · simp only [hf, if_true] at h
      split at h
      · rename_i hv; cases h; exact hv
      · cases h
    · have hf' : P.fallible = false := by simpa using hf
      simp only [hf'] at h
      cases h
      have := ofLeBytes_lt bs hbytes
      have hl' : bs.length = P.storeBytes := by simpa using hl
      rw [hinf hf', Nat.pow_mul, ← hl']
      exact this

/-! ### `Not` is the complement within `BITS` -/
theorem ba_not_spec (P : Params) (hfit : P.bits ≤ 8 * P.storeBytes) (hnot : P.notClearsPadding = true)
    {a : Nat} (ha : a < 2 ^ P.bits) : BoolArray.not P a = a ^^^ mask P := by
  simp only [BoolArray.not, hnot, if_true]
  apply Nat.eq_of_testBit_eq
  intro i
  simp only [Nat.testBit_and, Nat.testBit_xor, storeMask, mask, Nat.testBit_two_pow_sub_one]
  by_cases hi : i < P.bits
  · have : i < 8 * P.storeBytes := Nat.lt_of_lt_of_le hi hfit
    simp [hi, this, Bool.xor_comm]
  · have hz : a.testBit i = false :=
      Nat.testBit_lt_two_pow (Nat.lt_of_lt_of_le ha (Nat.pow_le_pow_right (by decide) (Nat.le_of_not_lt hi)))
    simp [hi, hz]

theorem ba_not_laws (P : Params) (hfit : P.bits ≤ 8 * P.storeBytes) (hnot : P.notClearsPadding = true)
    {a : Nat} (ha : a < 2 ^ P.bits) :
    BoolArray.not P (BoolArray.not P a) = a ∧ BoolArray.add P a (BoolArray.not P a) = mask P ∧
    BoolArray.mul P a (BoolArray.not P a) = 0 := by
  have hn := ba_canonical_not P hnot a
  rw [ba_not_spec P hfit hnot hn, ba_not_spec P hfit hnot ha]
  refine ⟨?_, ?_, ?_⟩
  · rw [Nat.xor_assoc, Nat.xor_self, Nat.xor_zero]
  · simp only [BoolArray.add]; rw [← Nat.xor_assoc, Nat.xor_self, Nat.zero_xor]
  · simp only [BoolArray.mul]; rw [Nat.and_xor_distrib_left, Nat.and_self, ba_and_mask P ha, Nat.xor_self]

/-- The former code (`Self(self.0.not())`, defect F3): the complement of `BA3::ZERO` has all five
padding bits set, so it is not the canonical element `7`. -/
theorem ba_not_raw_counterexample :
    BoolArray.not { ba3 with notClearsPadding := false } 0 = 255 ∧ ¬ (255 < 2 ^ ba3.bits) ∧
    BoolArray.not ba3 0 = 7 := by decide

/-! ### algebra: `(BA, xor, and)` is a Boolean ring with unit `mask` -/
theorem ba_boolean_ring (P : Params) {a : Nat} (b c : Nat) (ha : a < 2 ^ P.bits) :
    BoolArray.add P a b = BoolArray.add P b a ∧
    BoolArray.add P (BoolArray.add P a b) c = BoolArray.add P a (BoolArray.add P b c) ∧
    BoolArray.add P a 0 = a ∧ BoolArray.add P a (BoolArray.neg P a) = 0 ∧ BoolArray.neg P 0 = 0 ∧
    BoolArray.sub P a b = BoolArray.add P a (BoolArray.neg P b) ∧
    BoolArray.mul P a b = BoolArray.mul P b a ∧
    BoolArray.mul P (BoolArray.mul P a b) c = BoolArray.mul P a (BoolArray.mul P b c) ∧
    BoolArray.mul P a (BoolArray.add P b c) = BoolArray.add P (BoolArray.mul P a b) (BoolArray.mul P a c) ∧
    BoolArray.mul P a a = a ∧ BoolArray.mul P a (mask P) = a ∧
    mulBool P a true = a ∧ mulBool P a false = 0 :=
  ⟨Nat.xor_comm _ _, Nat.xor_assoc _ _ _, Nat.xor_zero _, Nat.xor_self _, rfl, rfl, Nat.and_comm _ _,
   Nat.and_assoc _ _ _, Nat.and_xor_distrib_left, Nat.and_self _, ba_and_mask P ha, rfl, rfl⟩

theorem ba_get_set (P : Params) (a : Nat) {i : Nat} (b : Bool) (hi : i < P.bits) :
    BoolArray.get P (BoolArray.set P a i b) i = some b ∧
    (∀ j, j ≠ i → (BoolArray.set P a i b).testBit j = a.testBit j) := by
  unfold BoolArray.get BoolArray.set
  simp only [hi, if_true]
  by_cases h : a.testBit i = b
  · simp [h]
  · simp only [h, if_false]
    constructor
    · rw [Nat.testBit_xor, Nat.testBit_two_pow]
      simp
      cases hb : b <;> cases ha : a.testBit i <;> simp_all
    · intro j hj
      rw [Nat.testBit_xor, Nat.testBit_two_pow]
      have : decide (i = j) = false := by simp; exact fun e => hj e.symm
      rw [this]; simp

/-! ### conversions, equality and serialisation -/
theorem ba_truncate_spec (P : Params) (hs : P.bits ≤ 128) (v : Nat) :
    BoolArray.truncateFrom P v = v % 2 ^ P.bits := by
  unfold BoolArray.truncateFrom; rw [Nat.min_eq_right hs]

/-- `as_u128 ∘ truncate_from = id` below `2^BITS`; `as_u128` of a canonical element is its value. -/
theorem ba_as_u128_truncate (P : Params) (hs : P.bits ≤ 128) {v : Nat} (hv : v < 2 ^ P.bits) :
    asU128 P (BoolArray.truncateFrom P v) = v := by
  rw [ba_truncate_spec P hs, Nat.mod_eq_of_lt hv]; rfl

theorem ba_serialize_roundtrip (P : Params) (hfit : P.bits ≤ 8 * P.storeBytes) {a : Nat} (ha : a < 2 ^ P.bits) :
    BoolArray.deserialize P (BoolArray.serialize P a) = some a := by
  have hlt : a < 256 ^ P.storeBytes := by
    have : (256 : Nat) ^ P.storeBytes = 2 ^ (8 * P.storeBytes) := by rw [Nat.pow_mul]
    rw [this]
    exact Nat.lt_of_lt_of_le ha (Nat.pow_le_pow_right (by decide) hfit)
  simp [BoolArray.deserialize, BoolArray.serialize, leBytes_length, ofLeBytes_leBytes, Nat.mod_eq_of_lt hlt, ha]

/-- equal values ⇔ identical stores ⇔ identical serialisations (canonical elements) -/
theorem ba_serialize_injective (P : Params) (hfit : P.bits ≤ 8 * P.storeBytes) {a b : Nat}
    (ha : a < 2 ^ P.bits) (hb : b < 2 ^ P.bits) (h : BoolArray.serialize P a = BoolArray.serialize P b) : a = b := by
  have h1 := ba_serialize_roundtrip P hfit ha
  rw [h, ba_serialize_roundtrip P hfit hb] at h1
  exact (Option.some.inj h1).symm

/-! ### the extracted array types -/
theorem bool_arrays_wf (P : Params) (hP : P ∈ boolArrays) :
    1 ≤ P.bits ∧ P.bits ≤ 8 * P.storeBytes ∧ 8 * P.storeBytes < P.bits + 8 ∧ P.notClearsPadding = true ∧
    (P.fallible = false → P.bits = 8 * P.storeBytes) ∧ (P.small = true → P.bits ≤ 128) := by
  simp only [boolArrays, List.mem_cons, List.mem_nil_iff, or_false] at hP
  rcases hP with rfl | rfl | rfl | rfl | rfl | rfl | rfl | rfl | rfl | rfl | rfl | rfl | rfl | rfl <;> decide

/-- **Every operation of every extracted Boolean array type keeps the padding bits zero.** -/
theorem ba_canonical_all (P : Params) (hP : P ∈ boolArrays) {a b : Nat} (ha : a < 2 ^ P.bits) (hb : b < 2 ^ P.bits)
    (c : Bool) (v : Nat) :
    BoolArray.add P a b < 2 ^ P.bits ∧ BoolArray.sub P a b < 2 ^ P.bits ∧ BoolArray.mul P a b < 2 ^ P.bits ∧
    BoolArray.neg P a < 2 ^ P.bits ∧ BoolArray.not P a < 2 ^ P.bits ∧ mulBool P a c < 2 ^ P.bits ∧
    BoolArray.truncateFrom P v < 2 ^ P.bits ∧ expand P c < 2 ^ P.bits ∧
    (∀ i, i < P.bits → BoolArray.set P a i c < 2 ^ P.bits) ∧
    BoolArray.not P a = a ^^^ mask P :=
  have w := bool_arrays_wf P hP
  ⟨(ba_canonical_add P ha hb).1, (ba_canonical_add P ha hb).2, ba_canonical_mul P b ha, ha,
   ba_canonical_not P w.2.2.2.1 a, ba_canonical_mulBool P c ha, ba_canonical_truncate P v, ba_canonical_expand P c,
   fun _ hi => ba_canonical_set P c ha hi, ba_not_spec P w.2.1 w.2.2.2.1 ha⟩

/-- Non-vacuity: the all-ones element of `BA20` satisfies the hypotheses, and `!` of it is zero. -/
example : (1048575 : Nat) < 2 ^ ba20.bits ∧ BoolArray.not ba20 1048575 = 0 ∧ BoolArray.not ba20 0 = 1048575 := by decide

/-! ### `Boolean` is the field GF(2) with canonical encodings -/
theorem boolean_is_field :
    (∀ a b c : Bool,
      Boolean.add a b = Boolean.add b a ∧ Boolean.add (Boolean.add a b) c = Boolean.add a (Boolean.add b c) ∧
      Boolean.add a false = a ∧ Boolean.add a (Boolean.neg a) = false ∧ Boolean.neg false = false ∧
      Boolean.sub a b = Boolean.add a (Boolean.neg b) ∧
      Boolean.mul a b = Boolean.mul b a ∧ Boolean.mul (Boolean.mul a b) c = Boolean.mul a (Boolean.mul b c) ∧
      Boolean.mul a true = a ∧ Boolean.mul a (Boolean.add b c) = Boolean.add (Boolean.mul a b) (Boolean.mul a c) ∧
      (a ≠ false → ∃ x, Boolean.mul a x = true) ∧
      (Boolean.mul a b = false → a = false ∨ b = false) ∧
      Boolean.deserialize (Boolean.serialize a) = some a ∧ Boolean.tryFrom (Boolean.asU128 a) = some a ∧
      Boolean.truncateFrom (Boolean.asU128 a) = a) := by decide

end IpaVerif.C08
