import IpaVerif.Model.PrimeField
import IpaVerif.Generated.PrimeFields
/-!
# C08 — every value type advertised as a field is a field with canonical elements

Property theorems about the prime fields, core Lean only (the ring/field structure that needs
Mathlib is in `IpaVerif.Props.C08Field`). All statements are about the constants regenerated from
`ipa-core/src/ff/prime_field.rs` on every run (`IpaVerif.Generated.PrimeFields`).
-/
namespace IpaVerif.C08
open IpaVerif.PrimeField IpaVerif.Generated

theorem and_shift_61 (x : Nat) :
    (x &&& 2305843009213693951) = x % 2305843009213693952 ∧ (x >>> 61) = x / 2305843009213693952 := by
  constructor
  · have := Nat.and_two_pow_sub_one_eq_mod x 61
    simpa using this
  · simp [Nat.shiftRight_eq_div_pow]

/-- The hand-written Mersenne reduction of `Fp61BitPrime` equals `% PRIME` on **every** `u128`
(2^128 = 340282366920938463463374607431768211456), and its intermediate sums fit in a `u128`. -/
theorem mersenne_reduce_correct (val : Nat) (h : val < 340282366920938463463374607431768211456) :
    mersenneReduce fp61 val = val % fp61.p := by
  obtain ⟨h1, h2⟩ := and_shift_61 val
  obtain ⟨h3, h4⟩ := and_shift_61 (val % 2305843009213693952 + val / 2305843009213693952)
  simp only [mersenneReduce, fp61, h1, h2, h3, h4]
  split <;> omega

/-- The pre-fix code (`if val == PRIME {0} else {val}`) was wrong: documented counterexample. -/
theorem mersenne_two_rounds_need_ge :
    let val := 2 ^ 122 + 2 ^ 61 - 1
    let v1 := (val &&& fp61.p) + (val >>> fp61.bits)
    let v2 := (v1 &&& fp61.p) + (v1 >>> fp61.bits)
    v2 = fp61.p + 1 := by decide

/-- `reduce` is `% PRIME` for every value that fits the operation store of the field. -/
theorem reduce_eq_mod_fp31 (x : Nat) : reduce fp31 x = x % fp31.p := by simp [reduce, fp31]
theorem reduce_eq_mod_fp32 (x : Nat) : reduce fp32 x = x % fp32.p := by simp [reduce, fp32]
theorem reduce_eq_mod_fp61 (x : Nat) (h : x < 340282366920938463463374607431768211456) :
    reduce fp61 x = x % fp61.p := by
  have := mersenne_reduce_correct x h
  simpa [reduce, fp61] using this

/-- No intermediate value of `+`, `-`, `*` overflows the operation store (`u16`/`u64`/`u128`),
for *any* contents of the backing store (not only canonical ones). -/
theorem no_overflow_fp31 (a b : Nat) (ha : a < 2 ^ 8) (hb : b < 2 ^ 8) :
    a + b < 2 ^ 16 ∧ fp31.p + a - b < 2 ^ 16 ∧ a * b < 2 ^ 16 := by
  have : a * b ≤ 255 * 255 := Nat.mul_le_mul (by omega) (by omega)
  simp [fp31]; omega
theorem no_overflow_fp32 (a b : Nat) (ha : a < 2 ^ 32) (hb : b < 2 ^ 32) :
    a + b < 2 ^ 64 ∧ fp32.p + a - b < 2 ^ 64 ∧ a * b < 2 ^ 64 := by
  have : a * b ≤ 4294967295 * 4294967295 := Nat.mul_le_mul (by omega) (by omega)
  simp [fp32]; omega
theorem no_overflow_fp61 (a b : Nat) (ha : a < 2 ^ 64) (hb : b < 2 ^ 64) :
    a + b < 2 ^ 128 ∧ fp61.p + a - b < 2 ^ 128 ∧ a * b < 2 ^ 128 := by
  have : a * b ≤ 18446744073709551615 * 18446744073709551615 := Nat.mul_le_mul (by omega) (by omega)
  simp [fp61]; omega

/-- Every field operation returns the canonical representative of the arithmetic result. -/
theorem add_spec_fp31 (a b : Nat) : add fp31 a b = (a + b) % 31 := by simp [add, reduce, fp31]
theorem sub_spec_fp31 (a b : Nat) : sub fp31 a b = (31 + a - b) % 31 := by simp [sub, reduce, fp31]
theorem mul_spec_fp31 (a b : Nat) : mul fp31 a b = (a * b) % 31 := by simp [mul, reduce, fp31]
theorem add_spec_fp32 (a b : Nat) : add fp32 a b = (a + b) % 4294967291 := by simp [add, reduce, fp32]
theorem sub_spec_fp32 (a b : Nat) : sub fp32 a b = (4294967291 + a - b) % 4294967291 := by simp [sub, reduce, fp32]
theorem mul_spec_fp32 (a b : Nat) : mul fp32 a b = (a * b) % 4294967291 := by simp [mul, reduce, fp32]
theorem add_spec_fp61 (a b : Nat) (ha : a < 2 ^ 64) (hb : b < 2 ^ 64) :
    add fp61 a b = (a + b) % 2305843009213693951 := by
  have := reduce_eq_mod_fp61 (a + b) (by omega)
  simpa [add, fp61] using this
theorem sub_spec_fp61 (a b : Nat) (ha : a < 2 ^ 64) (hb : b < 2 ^ 64) :
    sub fp61 a b = (2305843009213693951 + a - b) % 2305843009213693951 := by
  have := reduce_eq_mod_fp61 (2305843009213693951 + a - b) (by omega)
  simpa [sub, fp61] using this
theorem mul_spec_fp61 (a b : Nat) (ha : a < 2 ^ 64) (hb : b < 2 ^ 64) :
    mul fp61 a b = (a * b) % 2305843009213693951 := by
  have hlt : a * b < 340282366920938463463374607431768211456 := by
    have : a * b ≤ 18446744073709551615 * 18446744073709551615 := Nat.mul_le_mul (by omega) (by omega)
    omega
  have := reduce_eq_mod_fp61 (a * b) hlt
  simpa [mul, fp61] using this

/-- Negation is canonical, `-0 = 0`, and `a + (-a) = 0`, in every generated prime field. -/
theorem neg_spec (P : Params) (hP : P ∈ primeFields) (a : Nat) (ha : a < P.p) :
    neg P a < P.p ∧ neg P 0 = 0 ∧ (a + neg P a) % P.p = 0 := by
  simp only [primeFields, List.mem_cons, List.mem_nil_iff, or_false] at hP
  rcases hP with rfl | rfl | rfl <;> simp [neg, fp31, fp32, fp61] at * <;> omega

/-- Non-vacuity: the boundary element `PRIME - 1` satisfies the hypotheses. -/
example : (30 : Nat) < fp31.p ∧ neg fp31 30 = 1 := by decide

end IpaVerif.C08
