import IpaVerif.Props.C20
import IpaVerif.Generated.AcceptCert
/-!
# C20 — under TLS the identity comes only from the certificate the caller proved possession of

A TLS client presents a *chain*: a list of certificates of its choosing. The handshake
authenticates the first one only (webpki validates it against the trust anchors, CertificateVerify
proves possession of its key); everything after it is unauthenticated bytes.
`ClientCertRecognizingAcceptor::accept` hands `peer_certificates().first()` — and nothing else — to
`identify_cert`. The theorems below hold for EVERY identify function, certificate type, chain
length and tail; the last section shows by `decide` that the variant "first certificate of the chain
that is on file" lets a caller choose its identity.
-/
namespace IpaVerif.C20Chain
open IpaVerif.Auth IpaVerif.Generated.Routes IpaVerif.C20

/-- **accept_selection_ok** (regenerated from `accept` and `identify_cert` on every run): the certificate
handed to `identify_cert` is `peer_certificates().and_then(<[_]>::first)`, `identify_cert` is applied
exactly once and its result alone becomes the `ClientIdentity`, and `identify_cert` compares by exact
DER equality in peer order. -/
theorem accept_selection_ok :
    IpaVerif.Generated.AcceptCert.acceptSelect
      = { firstOnly := true, identifyOnce := true, exactMatch := true, recognised := true } := by
  decide

/-! ## `accept`: the identity is a function of the head of the chain -/

/-- **identity_from_authenticated_cert_only**: for every `identify`, every authenticated head `c` and
all tails `t`, `t'` (whatever the caller appends, in whatever order, of whatever length):
the identity is `identify (some c)`; it does not change with the tail; a head that is not on file
leaves the caller anonymous whatever certificates of real peers follow it; no certificate at all ⇒
`identify none`. -/
theorem identity_from_authenticated_cert_only {Cert Ident : Type} (identify : Option Cert → Option Ident) :
    (∀ (c : Cert) (t : List Cert), acceptFirst identify (c :: t) = identify (some c)) ∧
    (∀ (c : Cert) (t t' : List Cert), acceptFirst identify (c :: t) = acceptFirst identify (c :: t')) ∧
    (∀ (c : Cert) (t t' : List Cert), t.Perm t' → acceptFirst identify (c :: t) = acceptFirst identify (c :: t')) ∧
    (∀ (c : Cert) (t : List Cert), identify (some c) = none → acceptFirst identify (c :: t) = none) ∧
    acceptFirst identify [] = identify none :=
  ⟨fun _ _ => rfl, fun _ _ _ => rfl, fun _ _ _ _ => rfl, fun _ _ h => h, rfl⟩

/-- `identify_cert` answers only for a certificate that is byte-identical to the one pinned for that
peer, and never without a certificate. -/
theorem identifyCert_exact {Cert Ident : Type} [DecidableEq Cert] (peers : List (Ident × Option Cert)) :
    identifyCert peers none = none ∧
    (∀ (c : Cert) (id : Ident), identifyCert peers (some c) = some id → (id, some c) ∈ peers) ∧
    (∀ (c : Cert), (∀ p ∈ peers, p.2 ≠ some c) → identifyCert peers (some c) = none) := by
  refine ⟨rfl, ?_, ?_⟩
  · intro c id h
    unfold identifyCert at h
    cases hf : peers.find? (fun p => p.2 == some c) with
    | none => simp [hf] at h
    | some p =>
      have hm := List.mem_of_find?_eq_some hf
      have hp := List.find?_some hf
      simp [hf] at h
      have h2 : p.2 = some c := by simpa using hp
      have : p = (id, some c) := by
        cases p with
        | mk a b => simp_all
      exact this ▸ hm
  · intro c hall
    unfold identifyCert
    have : peers.find? (fun p => p.2 == some c) = none := by
      apply List.find?_eq_none.mpr
      intro p hp
      simpa using hall p hp
    simp [this]

/-- An unpinned peer (`certificate: None`) never matches — in particular not a connection without
certificate. -/
example : identifyCert (testPeers .helper) none = none ∧ identifyCert (testPeers .helper) (some (.onFile 2)) = none := by decide

/-! ## Whole connections -/

/-- **live_chain_tail_irrelevant**: over a server started with https enabled (either arm, regenerated
`rustls_config`), the outcome of any request — status AND the identity the request is processed
under — is the same for `c :: t` as for `c :: t'`, whatever the identity header: it is a function of
the end-entity certificate and the key the client holds. -/
theorem live_chain_tail_irrelevant {Cert Key Ident : Type} [DecidableEq Key] (l : Bool) (a : StartArm)
    (ha : armFor false l = some a) (f : Flavor) (routes : List Entry)
    (identify : Option Cert → Option Ident) (keyOf : Cert → Key) (anchored : Cert → Bool)
    (key : Key) (c : Cert) (t t' : List Cert) (h h' : Option (Option Ident)) (path : List String) (m : Method) :
    serveChain f routes a identify keyOf anchored key (c :: t) h path m
      = serveChain f routes a identify keyOf anchored key (c :: t') h' path m := by
  rw [armFor_eq] at ha
  cases ha
  simp only [serveChain, serveChainWith, handshakeChain, wantedArm, tls_setup_ok]
  by_cases hk : (keyOf c == key && anchored c) = true <;> simp [hk, deriveIdentity, acceptFirst]

/-- **live_chain_key_possession**: if a request is processed under identity `id` (any arm with https,
any route table, chain, header), then the client holds the key of the FIRST certificate it presented,
that certificate chains to a trust anchor, and `identify` maps exactly that certificate to `id`. -/
theorem live_chain_key_possession {Cert Key Ident : Type} [DecidableEq Key] (l : Bool) (a : StartArm)
    (ha : armFor false l = some a) (f : Flavor) (routes : List Entry)
    (identify : Option Cert → Option Ident) (keyOf : Cert → Key) (anchored : Cert → Bool)
    (hnone : identify none = none)
    (key : Key) (chain : List Cert) (h : Option (Option Ident)) (path : List String) (m : Method) (id : Ident)
    (hid : (serveChain f routes a identify keyOf anchored key chain h path m).attributed = some id) :
    ∃ c t, chain = c :: t ∧ keyOf c = key ∧ anchored c = true ∧ identify (some c) = some id := by
  rw [armFor_eq] at ha
  cases ha
  cases chain with
  | nil =>
    simp only [serveChain, serveChainWith, handshakeChain, wantedArm, tls_setup_ok] at hid
    simp [deriveIdentity, acceptFirst, hnone] at hid
    split at hid <;> simp_all
  | cons c t =>
    refine ⟨c, t, rfl, ?_⟩
    simp only [serveChain, serveChainWith, handshakeChain, wantedArm, tls_setup_ok] at hid
    by_cases hk : (keyOf c == key && anchored c) = true
    · simp [hk, deriveIdentity, acceptFirst] at hid
      have hk' : keyOf c = key ∧ anchored c = true := by simpa using hk
      refine ⟨hk'.1, hk'.2, ?_⟩
      split at hid <;> simp_all
    · simp [hk] at hid

/-- the hypotheses are satisfiable: `identify_cert` of the suite's MPC network; helper B's own
certificate followed by helper A's is processed as B -/
example : identifyCert (testPeers .helper) none = none := rfl
example : (serveChain .helper (flatten mpcRouter) (wantedArm false false) (identifyCert (testPeers .helper))
    TestCert.key (testAnchored .helper) 1 [.onFile 1, .onFile 0] none ["query", "0", "step", "a"] .post).attributed = some 1 := by decide

/-- **live_chain_requires_authenticated_identity**: on a server started with https enabled (either
arm), a request matching an h2h (MPC server) / s2s (shard server) route from a client whose FIRST
certificate is not on file for any peer (or that presents none) is answered 401 or not at all and
is processed under no identity — whatever certificates follow, e.g. the public certificates of
real peers. -/
theorem live_chain_requires_authenticated_identity {Cert Key Ident : Type} [DecidableEq Key] (l : Bool) (a : StartArm)
    (ha : armFor false l = some a)
    (identify : Option Cert → Option Ident) (keyOf : Cert → Key) (anchored : Cert → Bool)
    (key : Key) (chain : List Cert) (h : Option (Option Ident)) (path : List String) (m : Method)
    (hno : identify chain.head? = none) :
    (∀ pe ∈ h2hMounted, matchPath pe.path path = true → pe.method = m →
      serveChain .helper (flatten mpcRouter) a identify keyOf anchored key chain h path m = ⟨.connErr, none⟩ ∨
      serveChain .helper (flatten mpcRouter) a identify keyOf anchored key chain h path m = ⟨.resp .unauthorized, none⟩) ∧
    (∀ pe ∈ s2sMounted, matchPath pe.path path = true → pe.method = m →
      serveChain .shard (flatten shardRouter) a identify keyOf anchored key chain h path m = ⟨.connErr, none⟩ ∨
      serveChain .shard (flatten shardRouter) a identify keyOf anchored key chain h path m = ⟨.resp .unauthorized, none⟩) := by
  rw [armFor_eq] at ha
  cases ha
  have key_ : ∀ (f : Flavor) (routes : List Entry),
      serveChain f routes (wantedArm false l) identify keyOf anchored key chain h path m = ⟨.connErr, none⟩ ∨
      serveChain f routes (wantedArm false l) identify keyOf anchored key chain h path m
        = ⟨.resp (respond routes ⟨path, m, false, false⟩), none⟩ := by
    intro f routes
    simp only [serveChain, serveChainWith, wantedArm, tls_setup_ok]
    cases hh : handshakeChain ⟨true, true, true, true⟩ keyOf anchored key chain with
    | none => left; simp
    | some presented =>
      right
      have hp : presented = chain := by
        unfold handshakeChain at hh
        cases chain with
        | nil => simp at hh; exact hh
        | cons c t =>
          simp at hh
          exact hh.2.symm
      subst hp
      simp [deriveIdentity, acceptFirst, hno]
      try (split <;> rfl)
  refine ⟨?_, ?_⟩
  · intro pe hpe hm hmeth
    rcases key_ .helper (flatten mpcRouter) with hk | hk
    · exact Or.inl hk
    · refine Or.inr ?_
      rw [hk, (h2h_s2s_require_identity ⟨path, m, false, false⟩).1 pe hpe hm hmeth rfl]
  · intro pe hpe hm hmeth
    rcases key_ .shard (flatten shardRouter) with hk | hk
    · exact Or.inl hk
    · refine Or.inr ?_
      rw [hk, (h2h_s2s_require_identity ⟨path, m, false, false⟩).2 pe hpe hm hmeth rfl]

/-- the hypothesis is satisfiable and the conclusion not vacuous: helper B, with a certificate it
re-issued for its own key (passes the handshake, is not on file), followed by helper A's public
certificate, gets 401 on the step route -/
example : identifyCert (testPeers .helper) ([TestCert.reissued 1, .onFile 0].head?) = none := by decide
example : serveChain .helper (flatten mpcRouter) (wantedArm false false) (identifyCert (testPeers .helper))
    TestCert.key (testAnchored .helper) 1 [.reissued 1, .onFile 0] none ["query", "0", "step", "a"] .post
      = ⟨.resp .unauthorized, none⟩ := by decide

/-! ## The find-any variant chooses the caller's identity for it -/

/-- **find_any_counterexample** (`decide`): with `accept := acceptAny` ("first certificate of the
presented chain that is on file") on the suite's MPC and shard networks, a caller holding only
helper B's key (re-issued certificate for that key: valid handshake, not on file) that appends helper
A's PUBLIC certificate is processed as A on the step route — it never proved possession of A's key —
while the code's rule answers 401; and even `acceptAny` differs from `acceptFirst` on the bare
selection. -/
theorem find_any_counterexample :
    (serveChainWith acceptAny tlsSetup .helper (flatten mpcRouter) (wantedArm false false) (identifyCert (testPeers .helper))
        TestCert.key (testAnchored .helper) 1 [.reissued 1, .onFile 0] none ["query", "0", "step", "a"] .post
      = ⟨.resp (.handled "query::step::router:handler::<F>"), some 0⟩) ∧
    (serveChainWith acceptAny tlsSetup .shard (flatten shardRouter) (wantedArm false true) (identifyCert (testPeers .shard))
        TestCert.key (testAnchored .shard) 0 [.reissued 0, .onFile 1] none ["query", "0", "step", "a"] .post).attributed = some 1 ∧
    (serveChainWith acceptFirst tlsSetup .helper (flatten mpcRouter) (wantedArm false false) (identifyCert (testPeers .helper))
        TestCert.key (testAnchored .helper) 1 [.reissued 1, .onFile 0] none ["query", "0", "step", "a"] .post
      = ⟨.resp .unauthorized, none⟩) ∧
    TestCert.key (.onFile 0) ≠ 1 ∧
    acceptAny (identifyCert (testPeers .helper)) [.reissued 1, .onFile 0] = some 0 ∧
    acceptFirst (identifyCert (testPeers .helper)) [.reissued 1, .onFile 0] = none := by
  decide

/-- the two rules agree on every chain of length ≤ 1 — which is all that ordinary clients (and every
pre-existing test) ever send -/
theorem find_any_agrees_on_single {Cert Ident : Type} (identify : Option Cert → Option Ident)
    (hnone : identify none = none) (c : Cert) :
    acceptAny identify [c] = acceptFirst identify [c] ∧ acceptAny identify [] = acceptFirst identify [] := by
  refine ⟨?_, ?_⟩
  · simp only [acceptAny, acceptFirst, List.findSome?, List.head?]
    cases identify (some c) <;> rfl
  · simp [acceptAny, acceptFirst, hnone]

end IpaVerif.C20Chain
