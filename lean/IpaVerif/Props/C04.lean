import IpaVerif.Proofs.C04Run
/-!
# C04 — MAC-checked arithmetic and openings detect any additive deviation

Model: `Model/Mac.lean` (formulas and operand choices regenerated from the sources: `Generated/MacConsts.lean`).
All theorems hold over an **arbitrary commutative ring** `R` (hence Fp31, Fp32BitPrime, Fp25519 given that their
operators are ring operations — property C08), for **every** circuit (`List (Gate R)`: any sequence of upgrades,
multiplications and local linear operations on earlier wires), all PRSS masks, all random constants `α_k`, all
batch keys `r`, and all additive errors on all messages.

Notation: `rec w` = the value a consistent replicated sharing reconstructs to; `errSum e` = the total error put on
the (three) messages of one communication round — with a single deviating helper this is that helper's error;
`r̂ = rec r`; `α̂_k = rec α_k`.

* `dot_contribution_sum` — the three helpers' `compute_dot_product_contribution` values add up to `(Σa)(Σb)`.
* `honest_validates` — no errors ⇒ every wire is a consistent sharing of its plaintext value with `rx = r̂·x`,
  `T` reconstructs to `0`, the check-zero accepts for every mask, every opening returns the value.
* `additive_attack_T` — with arbitrary errors, `T = Σ_k α̂_k·D_k + (ε_u − ε_w·r̂)` where `D_k` is the MAC discrepancy
  (`rx − r̂·x`) of the k-th recorded wire: `δ′` for an upgrade, `D_a·y + δ′ − r̂·δ` for a multiplication
  (`macTerms`); `additive_attack_T_flat`: `= Σ_k α̂_k(δ′_k − r̂·δ_k) + …` when no altered MAC feeds the left operand of
  a later multiplication; `single_gate_attack_T`: one attacked gate.
* `accumulateN_T` — the vectorised (`N`-lane) `accumulate_macs` contributes `Σ_lane α̂_lane·D_lane` (independent per-lane
  coefficients); `shared_coefficient_counterexample`: with one coefficient per record a zero-sum lane attack leaves
  `T` unchanged (both in `Props/C04Lanes.lean`).
* `attack_accept_iff` — validation returns `Ok` iff `ρ̂·T + δ_cz = 0`; `attack_accept_iff_domain`: iff `T = 0 ∨ ρ̂ = 0`.
* `reveal_only_if_equal`, `reveal_two_copies`, `reveal_two_copies_mac` — two-copy opening.
* `record_ids_disjoint` — `3·o+{0,1,2}`, `2·o+{0,1}`, `o`.
The counting bound `single_attack_bad_set_card` is in `Props/C04Count.lean`.
-/
namespace IpaVerif.C04
open IpaVerif.Sharing IpaVerif.Mac IpaVerif.Generated.Mac

variable {R : Type} [CommRing R]
/-- **dot_contribution_sum** — for consistent replicated sharings `a`, `b`: the sum over the three helpers of
`(a_l + a_r)(b_l + b_r) − a_r·b_r` (the formula extracted from `compute_dot_product_contribution`) is `(Σa)·(Σb)`. -/
theorem dot_contribution_sum (a b : World R) (ha : Consistent a) (hb : Consistent b) :
    dotContribution (ringAlg R) a.h1 b.h1 + dotContribution (ringAlg R) a.h2 b.h2
      + dotContribution (ringAlg R) a.h3 b.h3 = rec a * rec b := by
  obtain ⟨ha1, ha2, ha3⟩ := ha
  obtain ⟨hb1, hb2, hb3⟩ := hb
  rw [dot_eq, dot_eq, dot_eq]
  simp only [rec, reconstruct, ringAlg, ha1, ha2, ha3, hb1, hb2, hb3]; ring

/-- non-vacuity: consistent sharings of any two values exist, for any choice of the random shares. -/
example (x y r1 r2 s1 s2 : R) :
    Consistent (share (ringAlg R) x r1 r2) ∧ Consistent (share (ringAlg R) y s1 s2) ∧
      rec (share (ringAlg R) x r1 r2) * rec (share (ringAlg R) y s1 s2) = x * y := by
  refine ⟨⟨rfl, rfl, rfl⟩, ⟨rfl, rfl, rfl⟩, ?_⟩
  simp only [rec, reconstruct, share, ofShares, ringAlg]; ring


/-! ### honest runs -/

/-- **honest_validates** — any circuit, any masks, no (net) error on any message: every wire is a consistent sharing
of its plaintext value (`plain`) whose MAC part reconstructs to `r̂·value`; the helpers' `T` reconstructs to `0`;
`validate` returns `Ok` whatever the check-zero mask; every opening returns the wire's value on every helper. -/
theorem honest_validates [DecidableEq R] (r : World R) (hr : Consistent r) (mu mw : Masks R)
    (gs : List (Gate R)) (hok : ∀ g ∈ gs, GateOk g) (hh : ∀ g ∈ gs, GateHonest g)
    (czρ : Masks R) (czMask : World R) (hcz : Consistent czMask) :
    let st := run (ringAlg R) r gs ⟨[], initAcc (ringAlg R) mu mw⟩
    (∀ m ∈ st.wires, MConsistent m ∧ rec m.rx = rec r * rec m.x) ∧
    st.wires.map (fun m => rec m.x) = plain gs [] ∧
    rec (tOf (ringAlg R) (rec r) st.acc (noValErr (ringAlg R))) = 0 ∧
    validateE (ringAlg R) r st.acc (noValErr (ringAlg R)) czρ czMask = true ∧
    (∀ m ∈ st.wires, ∀ h, h < 3 → revealHonest (ringAlg R) m.x h = some (rec m.x)) := by
  intro st
  have hrel : Rel (rec r) st (prun (rec r) gs ([], 0)) :=
    run_rel (rec r) r hr rfl gs hok _ _ (init_rel (rec r) mu mw)
  obtain ⟨hz, ht, hv⟩ := prun_honest (rec r) gs hh ([], 0) (by simp)
  obtain ⟨hc, hmap, hT⟩ := hrel
  have hwire : ∀ m ∈ st.wires, MConsistent m ∧ rec m.rx = rec r * rec m.x := by
    intro m hm
    refine ⟨hc m hm, ?_⟩
    have : pwOf (rec r) m ∈ (prun (rec r) gs ([], 0)).1 := by
      rw [← hmap]; exact List.mem_map_of_mem hm
    have hd := hz _ this
    simp only [pwOf, disc] at hd
    exact sub_eq_zero.mp hd
  have hT0 : rec (tOf (ringAlg R) (rec r) st.acc (noValErr (ringAlg R))) = 0 := by
    rw [(tOf_value (rec r) st.acc _).2, hT, ht]
    simp [noValErr, noErr, errSum, ringAlg]
  refine ⟨hwire, ?_, hT0, ?_, ?_⟩
  · have : st.wires.map (fun m => rec m.x) = (st.wires.map (pwOf (rec r))).map PW.val := by
      simp [List.map_map, pwOf, Function.comp_def]
    rw [this, hmap, hv]; rfl
  · simp only [validateE, decide_eq_true_eq]
    rw [checkZero_value czρ czMask _ _ hcz (tOf_value (rec r) st.acc _).1, hT0]
    simp [noValErr, noErr, errSum, ringAlg]
  · intro m hm h hh3
    exact reveal_honest m.x (hc m hm).1 h hh3


/-! ### deviating runs -/

/-- **additive_attack_T** — arbitrary errors on the messages of upgrades, multiplications (value part `e`, MAC part
`e'`) and of `propagate_u_and_w`: the sharing of `T` the helpers hold is consistent and reconstructs to
`Σ_k α̂_k·D_k + (ε_u − ε_w·r̂)`, `(α̂_k, D_k)` = `macTerms`. -/
theorem additive_attack_T (r : World R) (hr : Consistent r) (mu mw : Masks R)
    (gs : List (Gate R)) (hok : ∀ g ∈ gs, GateOk g) (ve : ValErr R) :
    let st := run (ringAlg R) r gs ⟨[], initAcc (ringAlg R) mu mw⟩
    Consistent (tOf (ringAlg R) (rec r) st.acc ve) ∧
    rec (tOf (ringAlg R) (rec r) st.acc ve)
      = termSum (macTerms (rec r) gs []) + (errSum ve.eu - errSum ve.ew * rec r) := by
  intro st
  have hrel : Rel (rec r) st (prun (rec r) gs ([], 0)) :=
    run_rel (rec r) r hr rfl gs hok _ _ (init_rel (rec r) mu mw)
  refine ⟨(tOf_value (rec r) st.acc ve).1, ?_⟩
  rw [(tOf_value (rec r) st.acc ve).2, hrel.2.2, prun_T_sum]; ring

/-- `validate` returns `Ok` iff the opened check-zero value `ρ̂·T + δ_cz` is zero (any ring, any errors). -/
theorem attack_accept_iff [DecidableEq R] (r : World R) (hr : Consistent r) (mu mw : Masks R)
    (gs : List (Gate R)) (hok : ∀ g ∈ gs, GateOk g) (ve : ValErr R)
    (czρ : Masks R) (czMask : World R) (hcz : Consistent czMask) :
    let st := run (ringAlg R) r gs ⟨[], initAcc (ringAlg R) mu mw⟩
    validateE (ringAlg R) r st.acc ve czρ czMask = true ↔
      rec czMask * (termSum (macTerms (rec r) gs []) + (errSum ve.eu - errSum ve.ew * rec r)) + errSum ve.ecz = 0 := by
  intro st
  obtain ⟨hc, hv⟩ := additive_attack_T r hr mu mw gs hok ve
  simp only [validateE, decide_eq_true_eq]
  rw [checkZero_value czρ czMask _ _ hcz hc, hv]
  rfl

/-- over a domain, with an untouched check-zero multiplication: accepted iff `T = 0` or the mask is `0`. -/
theorem attack_accept_iff_domain [DecidableEq R] [IsDomain R] (r : World R) (hr : Consistent r) (mu mw : Masks R)
    (gs : List (Gate R)) (hok : ∀ g ∈ gs, GateOk g) (ve : ValErr R) (hecz : errSum ve.ecz = 0)
    (czρ : Masks R) (czMask : World R) (hcz : Consistent czMask) :
    let st := run (ringAlg R) r gs ⟨[], initAcc (ringAlg R) mu mw⟩
    validateE (ringAlg R) r st.acc ve czρ czMask = true ↔
      (termSum (macTerms (rec r) gs []) + (errSum ve.eu - errSum ve.ew * rec r) = 0 ∨ rec czMask = 0) := by
  intro st
  have := attack_accept_iff r hr mu mw gs hok ve czρ czMask hcz
  simp only at this
  rw [this, hecz, add_zero, mul_eq_zero]
  exact Or.comm


/-! ### openings -/

/-- **reveal_two_copies** (1): a value is returned only if the two received copies are identical, and it is their
sum with the receiver's own two shares. -/
theorem reveal_only_if_equal [DecidableEq R] (own : HShare R) (fromLeft fromRight v : R)
    (h : revealAt (ringAlg R) own fromLeft fromRight = some v) :
    fromLeft = fromRight ∧ v = fromLeft + own.l + own.r := by
  unfold revealAt at h
  split at h
  · next heq => exact ⟨heq, by simpa [ringAlg] using h.symm⟩
  · exact absurd h (by simp)

theorem reveal_fails_if_different [DecidableEq R] (own : HShare R) (fromLeft fromRight : R)
    (h : fromLeft ≠ fromRight) : revealAt (ringAlg R) own fromLeft fromRight = none := by
  simp [revealAt, h]

/-- **reveal_two_copies** (2): one deviating helper `c` sending arbitrary values `mL`, `mR`: every other helper
`h` fails the opening or obtains exactly the shared value. -/
theorem reveal_two_copies [DecidableEq R] (w : World R) (hw : Consistent w) (c h : Nat) (hc : c < 3) (hh : h < 3)
    (hne : h ≠ c) (mL mR : R) :
    revealCorrupt (ringAlg R) w c h mL mR = none ∨ revealCorrupt (ringAlg R) w c h mL mR = some (rec w) := by
  have hon := reveal_honest w hw h hh
  unfold revealCorrupt
  unfold revealHonest at hon
  by_cases h1 : (h + 2) % 3 = c % 3
  · have h2 : ¬ (h + 1) % 3 = c % 3 := by omega
    simp only [h1, h2, if_true, if_false]
    by_cases heq : mR = revealMsgToRight (view w (h + 2))
    · right; rw [heq]; exact hon
    · left
      have hcopy : revealMsgToRight (view w (h + 2)) = revealMsgToLeft (view w (h + 1)) := by
        unfold revealAt at hon
        split at hon
        · next e => exact e
        · exact absurd hon (by simp)
      rw [← hcopy]
      exact reveal_fails_if_different _ _ _ heq
  · by_cases h2 : (h + 1) % 3 = c % 3
    · simp only [h1, h2, if_true, if_false]
      by_cases heq : revealMsgToRight (view w (h + 2)) = mL
      · right; rw [← heq]
        have hcopy : revealMsgToRight (view w (h + 2)) = revealMsgToLeft (view w (h + 1)) := by
          unfold revealAt at hon
          split at hon
          · next e => exact e
          · exact absurd hon (by simp)
        rw [hcopy] at hon ⊢
        exact hon
      · left; exact reveal_fails_if_different _ _ _ heq
    · exfalso; omega

/-- the MAC'd variant: opening a `MaliciousReplicated` opens its `x` part with the same two-copy rule. -/
theorem reveal_two_copies_mac [DecidableEq R] (m : MShare R) (hm : MConsistent m) (c h : Nat) (hc : c < 3)
    (hh : h < 3) (hne : h ≠ c) (mL mR : R) :
    revealM (ringAlg R) m c h mL mR = none ∨ revealM (ringAlg R) m c h mL mR = some (rec m.x) :=
  reveal_two_copies m.x hm.1 c h hc hh hne mL mR

/-! ### record ids -/

/-- **record_ids_disjoint** — with the extracted multipliers (`TOTAL_CALLS_TO_PRSS = 3`, `TOTAL_SEND = 2`). -/
theorem record_ids_disjoint (o o' : Nat) :
    -- the three PRSS indices of a batch are distinct, and batches do not share any
    (rShareRecord o totalCallsToPrss ≠ uRecord o totalCallsToPrss ∧
      rShareRecord o totalCallsToPrss ≠ wRecord o totalCallsToPrss ∧
      uRecord o totalCallsToPrss ≠ wRecord o totalCallsToPrss) ∧
    (o ≠ o' → ∀ a ∈ prssRecords o, ∀ b ∈ prssRecords o', a ≠ b) ∧
    -- the two records a batch sends on the propagate channel are distinct, and batches do not share any
    uRecord o totalSend ≠ wRecord o totalSend ∧
    (o ≠ o' → ∀ a ∈ sendRecords o, ∀ b ∈ sendRecords o', a ≠ b) ∧
    -- reveal-r / check-zero record ids are injective in the batch offset
    (revealCheckZeroRecord o = revealCheckZeroRecord o' → o = o') := by
  simp only [rShareRecord, uRecord, wRecord, revealCheckZeroRecord, prssRecords, sendRecords, totalCallsToPrss,
    totalSend, uRecordAdd, wRecordAdd, rShareRecordAdd, List.mem_cons, List.mem_nil_iff, or_false]
  refine ⟨⟨by omega, by omega, by omega⟩, ?_, by omega, ?_, fun h => h⟩
  · intro hne a ha b hb
    rcases ha with rfl | rfl | rfl <;> rcases hb with rfl | rfl | rfl <;> omega
  · intro hne a ha b hb
    rcases ha with rfl | rfl <;> rcases hb with rfl | rfl <;> omega


/-! ### closed form when no altered MAC feeds a later multiplication -/

/-- **additive_attack_T**, closed form: `T = Σ_k α̂_k·(δ′_k − r̂·δ_k) + (ε_u − ε_w·r̂)`. -/
theorem additive_attack_T_flat (r : World R) (hr : Consistent r) (mu mw : Masks R)
    (gs : List (Gate R)) (hok : ∀ g ∈ gs, GateOk g) (hnf : NoFeed (rec r) gs []) (ve : ValErr R) :
    let st := run (ringAlg R) r gs ⟨[], initAcc (ringAlg R) mu mw⟩
    rec (tOf (ringAlg R) (rec r) st.acc ve)
      = termSum (flatTerms (rec r) gs) + (errSum ve.eu - errSum ve.ew * rec r) := by
  intro st
  rw [← macTerms_flat (rec r) gs [] hnf]
  exact (additive_attack_T r hr mu mw gs hok ve).2

/-- a single attacked gate after an honest prefix: `T = α̂·(δ′ − r̂·δ)` for a multiplication (`δ` = error on the
value part, `δ′` on the MAC part), `T = α̂·δ′` for an upgrade. -/
theorem single_gate_attack_T (r : World R) (hr : Consistent r) (mu mw : Masks R)
    (gs : List (Gate R)) (hok : ∀ g ∈ gs, GateOk g) (hh : ∀ g ∈ gs, GateHonest g) :
    (∀ x ρ α e', GateOk (Gate.upgrade x ρ α e') →
      rec (tOf (ringAlg R) (rec r) (run (ringAlg R) r (gs ++ [Gate.upgrade x ρ α e'])
          ⟨[], initAcc (ringAlg R) mu mw⟩).acc (noValErr (ringAlg R))) = rec α * errSum e') ∧
    (∀ i j ρ ρ' α e e', GateOk (Gate.mul i j ρ ρ' α e e') →
      rec (tOf (ringAlg R) (rec r) (run (ringAlg R) r (gs ++ [Gate.mul i j ρ ρ' α e e'])
          ⟨[], initAcc (ringAlg R) mu mw⟩).acc (noValErr (ringAlg R)))
        = rec α * (errSum e' - rec r * errSum e)) := by
  obtain ⟨hz, ht, _⟩ := prun_honest (rec r) gs hh ([], 0) (by simp)
  have hsum0 : termSum (macTerms (rec r) gs []) = 0 := by
    have := prun_T_sum (rec r) gs [] 0
    rw [ht] at this
    simpa using this.symm
  have hall : ∀ g, GateOk g → ∀ g' ∈ gs ++ [g], GateOk g' := by
    intro g hg g' hg'
    rcases List.mem_append.mp hg' with h | h
    · exact hok _ h
    · rw [List.mem_singleton.mp h]; exact hg
  have hnoerr : errSum (noValErr (ringAlg R)).eu - errSum (noValErr (ringAlg R)).ew * rec r = 0 := by
    simp [noValErr, noErr, errSum, ringAlg]
  constructor
  · intro x ρ α e' hg
    rw [(additive_attack_T r hr mu mw _ (hall _ hg) _).2, macTerms_append, termSum_append, hsum0, hnoerr]
    simp [macTerms, termSum]
  · intro i j ρ ρ' α e e' hg
    rw [(additive_attack_T r hr mu mw _ (hall _ hg) _).2, macTerms_append, termSum_append, hsum0, hnoerr]
    simp [macTerms, termSum, pget_disc_zero _ hz]

/-! ### non-vacuity -/

/-- a concrete circuit satisfying the hypotheses of `honest_validates`: two upgraded inputs, their product, a
linear combination, with arbitrary masks; and of `additive_attack_T`: the same with an error on the product. -/
example (x y r1 r2 s1 s2 a1 a2 a3 k1 k2 k3 t1 t2 δ : R) :
    let X := share (ringAlg R) x r1 r2
    let Y := share (ringAlg R) y s1 s2
    let α := share (ringAlg R) a1 a2 a3
    let ρ : Masks R := ⟨k1, k2, k3⟩
    let z := noErr (ringAlg R)
    let gs : List (Gate R) := [.upgrade X ρ α z, .upgrade Y ρ α z, .mul 0 1 ρ ρ α z z, .add 2 0, .mulConst 3 t1]
    let gs' : List (Gate R) := [.upgrade X ρ α z, .upgrade Y ρ α z, .mul 0 1 ρ ρ α ⟨δ, 0, 0⟩ z]
    Consistent (share (ringAlg R) t1 t2 t2) ∧ (∀ g ∈ gs, GateOk g) ∧ (∀ g ∈ gs, GateHonest g) ∧
      plain gs [] = [x, y, x * y, x * y + x, (x * y + x) * t1] ∧
      (∀ g ∈ gs', GateOk g) ∧ NoFeed t1 gs' [] := by
  intro X Y α ρ z gs gs'
  have hc : ∀ a b c : R, Consistent (share (ringAlg R) a b c) := fun _ _ _ => ⟨rfl, rfl, rfl⟩
  have hv : ∀ a b c : R, rec (share (ringAlg R) a b c) = a := by
    intro a b c; simp only [rec, reconstruct, share, ofShares, ringAlg]; ring
  refine ⟨hc _ _ _, ?_, ?_, ?_, ?_, ?_⟩
  · intro g hg
    simp only [gs, List.mem_cons, List.mem_nil_iff, or_false] at hg
    rcases hg with rfl | rfl | rfl | rfl | rfl <;> simp [GateOk, X, Y, α, hc]
  · intro g hg
    simp only [gs, List.mem_cons, List.mem_nil_iff, or_false] at hg
    rcases hg with rfl | rfl | rfl | rfl | rfl <;> simp [GateHonest, z, noErr, errSum, ringAlg]
  · simp [gs, plain, plainStep, X, Y, hv]
  · intro g hg
    simp only [gs', List.mem_cons, List.mem_nil_iff, or_false] at hg
    rcases hg with rfl | rfl | rfl <;> simp [GateOk, X, Y, α, hc]
  · simp [gs', NoFeed, pstep, pget, z, noErr, errSum, ringAlg]


end IpaVerif.C04
