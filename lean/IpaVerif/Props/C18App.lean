import IpaVerif.Model.LifecycleApp
import IpaVerif.Generated.LifecycleApp
import IpaVerif.Props.C18
/-!
# C18 at the `HelperApp` / request-handler level: the handler layer adds no behaviour

`LifecycleApp.handle` transcribes the two `RequestHandler` impls of `app.rs::Inner` arm by arm;
`malformed`, `procOp`, `served`, `needsId`, `expects` are the spec-side tables (what the API promises).
The theorems connect the two for EVERY request (well-formed or not), position and processor state,
and lift the processor-level theorems of `IpaVerif.C18` to histories of requests of any length.
Core Lean only.
-/
namespace IpaVerif.C18
open IpaVerif.Lifecycle IpaVerif.LifecycleApp IpaVerif.Generated.Lifecycle

def isErr : HResp → Bool
  | .err _ => true
  | _ => false

def isProcErr : Resp → Bool
  | .err _ => true
  | _ => false

/-- Errors that do not depend on the processor state. -/
def stateIndependent : HErr → Bool
  | .badRequest | .deserialization => true
  | .api _ _ => false

def isApiOp : Op → Bool
  | .taskReturns _ _ => false
  | _ => true

/-- The answer of an API call is never a task-event answer. -/
theorem step_api_resp (p : Pos) (s : St) (op : Op) (h : isApiOp op = true) :
    (step p s op).2 ≠ .stored ∧ (step p s op).2 ≠ .dropped ∧ ∀ r, (step p s op).2 ≠ .resolved r := by
  obtain ⟨entry, pending, next⟩ := s
  cases op <;> simp [isApiOp] at h <;>
    (try rcases entry with _ | _ | _ | ⟨_, _ | _⟩ | _ | _) <;>
    simp [step, refresh, trErr, outcomeResp] <;>
    (repeat' split) <;> (try simp_all [outcomeResp]) <;> (repeat' split) <;> (try simp_all)

theorem wrap_ne_panic (a : Api) (okp : Payload) (x : Resp)
    (h1 : isPanicResp x = false) (h2 : x ≠ .stored) (h3 : x ≠ .dropped) (h4 : ∀ r, x ≠ .resolved r) :
    wrap a okp x ≠ .panic := by
  cases x <;> simp_all [wrap, isPanicResp]

theorem wrap_isErr (a : Api) (okp : Payload) (x : Resp) : isErr (wrap a okp x) = isProcErr x := by
  cases x <;> rfl

theorem wrap_err (a : Api) (okp : Payload) (x : Resp) (e : HErr) (h : wrap a okp x = .err e) :
    ∃ e', x = .err e' ∧ e = .api a e' := by
  cases x <;> simp_all [wrap]

/-- A well-formed request that is not Metrics stands for exactly one processor call. -/
theorem procOp_api (r : Req) (a : Api) (op : Op) (h : procOp r = some (a, op)) : isApiOp op = true := by
  obtain ⟨side, route, hasId, origin, params, env⟩ := r
  cases side <;> cases route <;> simp [procOp] at h <;>
    (try (obtain ⟨_, rfl⟩ := h; rfl))
  all_goals (obtain ⟨st, _, _, rfl⟩ := h; rfl)

/-- The payload class of the `HelperResponse::from` the arm of `route` uses. -/
def okPayload : Route → Payload
  | .receiveQuery => .prepared
  | .completeQuery => .result
  | .killQuery => .killed
  | _ => .empty

/-- **handler_total** — the handler layer adds no behaviour. For every request (well-formed or
malformed), position and processor state:
1. the modelled handler returns a response, never `panic`;
2. a malformed request (route not served, `query_id` missing where `ext_query_id` needs it, `params`
   that do not deserialize) is answered with a state-independent error (`BadRequest` /
   `DeserializationFailure`) and leaves the state unchanged;
3. a well-formed Metrics request is answered `ok` and leaves the state unchanged;
4. any other well-formed request does exactly the one processor call `procOp` names: same next
   state, the response is that call's response under `wrap`, so it is an error iff the processor
   call is one, and then it is `ApiError::<variant of that call>(the processor's error)`. -/
theorem handler_total (p : Pos) (s : St) (r : Req) :
    (handle p s r).2 ≠ .panic ∧
    (malformed r = true →
      (∃ e, (handle p s r).2 = .err e ∧ stateIndependent e = true) ∧ (handle p s r).1 = s) ∧
    (malformed r = false → procOp r = none →
      (handle p s r).2 = .ok .metrics ∧ (handle p s r).1 = s) ∧
    (malformed r = false → ∀ a op, procOp r = some (a, op) →
      handle p s r = ((step p s op).1, wrap a (okPayload r.route) (step p s op).2) ∧
      (isErr (handle p s r).2 = isProcErr (step p s op).2) ∧
      (∀ e, (handle p s r).2 = .err e → ∃ e', (step p s op).2 = .err e' ∧ e = .api a e')) := by
  have key : ∀ (a : Api) (okp : Payload) (op : Op), isApiOp op = true →
      wrap a okp (step p s op).2 ≠ .panic := by
    intro a okp op hop
    obtain ⟨h2, h3, h4⟩ := step_api_resp p s op hop
    exact wrap_ne_panic a okp _ (step_no_panic p s op) h2 h3 h4
  obtain ⟨side, route, hasId, origin, params, env⟩ := r
  refine ⟨?_, ?_, ?_, ?_⟩
  · -- never panics
    cases side <;> cases route <;>
      simp only [handle, handleMpc, handleShard, withId] <;>
      (repeat' split) <;> (try simp) <;> (try exact key _ _ _ rfl)
  · intro hm
    cases side <;> cases route <;> cases hasId <;>
      simp_all [malformed, served, needsId, expects, handle, handleMpc, handleShard, withId, stateIndependent] <;>
      (split <;> simp_all [stateIndependent])
  · intro hm hp
    cases side <;> cases route <;> cases hasId <;>
      simp_all [malformed, served, needsId, expects, procOp, handle, handleMpc, handleShard, withId]
  · intro hm a op hop
    have h1 : handle p s ⟨side, route, hasId, origin, params, env⟩ =
        ((step p s op).1, wrap a (okPayload route) (step p s op).2) := by
      cases side <;> cases route <;> cases hasId <;>
        simp_all [malformed, served, needsId, expects, procOp, handle, handleMpc, handleShard, withId, okPayload] <;>
       
        (try (split <;> simp_all))
    refine ⟨h1, ?_, ?_⟩
    · rw [h1]; exact wrap_isErr _ _ _
    · intro e he
      rw [h1] at he
      exact wrap_err _ _ _ _ he

/-! ## Histories of requests -/

theorem method_is_call (p : Pos) (s : St) (m : Method) (env : Env) :
    callMethod p s m env =
      ((step p s (methodOp m env).2).1,
       wrap (methodOp m env).1 (match m with | .startQuery => .prepared | .completeQuery => .result | _ => .empty)
         (step p s (methodOp m env).2).2) ∧ isApiOp (methodOp m env).2 = true := by
  cases m <;> exact ⟨rfl, rfl⟩

/-- The state after one app-level item is the state after the processor operation it stands for
(unchanged if it stands for none: malformed requests, Metrics). -/
theorem appStep_state (p : Pos) (s : St) (op : AppOp) :
    (appStep p s op).1 = match toOp? op with
      | some o => (step p s o).1
      | none => s := by
  cases op with
  | request r =>
    have h := handler_total p s r
    cases hm : malformed r with
    | true => simp [appStep, toOp?, hm, (h.2.1 hm).2]
    | false =>
      cases hp : procOp r with
      | none => simp [appStep, toOp?, hm, hp, (h.2.2.1 hm hp).2]
      | some ao =>
        obtain ⟨a, o⟩ := ao
        simp [appStep, toOp?, hm, hp, (h.2.2.2 hm a o hp).1]
  | method m env => simp [appStep, toOp?, (method_is_call p s m env).1]
  | taskReturns id o => simp [appStep, toOp?]

/-- **handler_refines_processor**: a history of requests, `HelperApp` method calls and task events of
any length drives the processor through exactly the states of the processor-level history obtained by
dropping the malformed / Metrics requests and replacing every other request by the call it stands for.
Hence every state-level theorem of `IpaVerif.C18` about `finalState` (forward-only status, failed
create leaves no trace, results once, removal only by request) holds for request histories. -/
theorem handler_refines_processor (p : Pos) (ops : List AppOp) : ∀ s : St,
    finalStateApp p s ops = finalState p s (ops.filterMap toOp?) := by
  induction ops with
  | nil => intro s; rfl
  | cons op rest ih =>
    intro s
    have h := appStep_state p s op
    simp only [finalStateApp, List.foldl_cons] at *
    cases ho : toOp? op with
    | none =>
      rw [ho] at h
      simp only [List.filterMap_cons, ho]
      rw [h]; exact ih s
    | some o =>
      rw [ho] at h
      simp only [List.filterMap_cons, ho, finalState, List.foldl_cons]
      rw [h]; exact ih _

/-- A task event is answered `resolved (the task's outcome)`, `stored` or `dropped`. -/
theorem step_task_resp (p : Pos) (s : St) (id : Nat) (o : Outcome) :
    (step p s (.taskReturns id o)).2 = .resolved (outcomeResp o) ∨
    (step p s (.taskReturns id o)).2 = .stored ∨ (step p s (.taskReturns id o)).2 = .dropped := by
  obtain ⟨entry, pending, next⟩ := s
  simp only [step]
  (repeat' split) <;> simp

def isPanicA : AResp → Bool
  | .resp .panic | .resolved .panic => true
  | _ => false

theorem isPanicA_resp (h : HResp) (hn : h ≠ .panic) : isPanicA (.resp h) = false := by
  cases h <;> simp_all [isPanicA]

theorem appStep_no_panic (p : Pos) (s : St) (op : AppOp) : isPanicA (appStep p s op).2 = false := by
  cases op with
  | request r =>
    show isPanicA (AResp.resp (handle p s r).2) = false
    exact isPanicA_resp _ (handler_total p s r).1
  | method m env =>
    obtain ⟨h1, h2⟩ := method_is_call p s m env
    obtain ⟨a2, a3, a4⟩ := step_api_resp p s _ h2
    show isPanicA (AResp.resp (callMethod p s m env).2) = false
    rw [h1]
    exact isPanicA_resp _ (wrap_ne_panic _ _ _ (step_no_panic p s _) a2 a3 a4)
  | taskReturns id o =>
    rcases step_task_resp p s id o with h | h | h <;> simp only [appStep, h] <;>
      (try rfl) <;> (cases o <;> rfl)

/-- **app_no_panic**: along every app-level history (any length; requests well-formed or not, any
origins, any replies of peers and shards, tasks returning Ok/Err) no request is answered by a panic,
and an item that stands for no processor call leaves the state as it was. -/
theorem app_no_panic (p : Pos) (ops : List AppOp) : ∀ (s : St), ∀ x ∈ runApp p s ops, isPanicA x.1 = false := by
  induction ops with
  | nil => intro s x hx; simp [runApp] at hx
  | cons op rest ih =>
    intro s x hx
    simp only [runApp, List.mem_cons] at hx
    rcases hx with rfl | hx
    · exact appStep_no_panic p s op
    · exact ih _ x hx

/-- **origin_irrelevant**: `Addr.origin` is never read: two requests that differ only in the origin
get the same response and lead to the same state (authentication is the layer above, C20). -/
theorem origin_irrelevant (p : Pos) (s : St) (r : Req) (o : Option Nat) :
    handle p s { r with origin := o } = handle p s r := by
  obtain ⟨side, route, hasId, origin, params, env⟩ := r
  cases side <;> cases route <;> rfl

/-- One app-level item never moves an existing query backwards (lifted `status_monotone_step`). -/
theorem app_status_monotone_step (p : Pos) (s : St) (op : AppOp) (q q' : QS)
    (h : s.entry = some q) (h' : (appStep p s op).1.entry = some q') : qrank q ≤ qrank q' := by
  rw [appStep_state] at h'
  cases ho : toOp? op with
  | none =>
    rw [ho] at h'
    simp only at h'
    rw [h] at h'
    cases h'
    exact Nat.le_refl _
  | some o =>
    rw [ho] at h'
    exact status_monotone_step p s o q q' h h'

example : malformed ⟨.mpc, .killQuery, false, none, .other, {}⟩ = true := by decide
example : malformed ⟨.shard, .queryStatus, true, some 1, .proper .prepareQuery .running, {}⟩ = true := by decide
example : malformed ⟨.shard, .queryStatus, false, some 1, .extra .compareStatus .running, {}⟩ = false := by decide
example : (handle ⟨0, true⟩ {} ⟨.mpc, .receiveQuery, false, none, .proper .queryConfig .running, ⟨[.accept, .accept], [], []⟩⟩)
    = ({ entry := some .awaitingInputs }, .ok .prepared) := by decide

/-! ## The tables above are the arms of app.rs

`IpaVerif.Generated.LifecycleApp.{mpcArms, shardArms}` are regenerated from the two
`impl RequestHandler<…> for Inner` blocks of `ipa-core/src/app.rs` on every run. -/

open IpaVerif.Generated.LifecycleApp in
def routeName : Route → String
  | .records => "Records"
  | .receiveQuery => "ReceiveQuery"
  | .prepareQuery => "PrepareQuery"
  | .queryInput => "QueryInput"
  | .queryStatus => "QueryStatus"
  | .completeQuery => "CompleteQuery"
  | .killQuery => "KillQuery"
  | .metrics => "Metrics"

def allRoutes : List Route :=
  [.records, .receiveQuery, .prepareQuery, .queryInput, .queryStatus, .completeQuery, .killQuery, .metrics]

/-- Rust `match`: first arm whose pattern is this variant or the catch-all. -/
def lookupArm (arms : List Generated.LifecycleApp.Arm) (r : Route) : Option Generated.LifecycleApp.Arm :=
  arms.find? (fun a => a.route == routeName r || a.route == "_")

/-- The arm that finally handles the request (the shard handler's CompleteQuery arm hands over to the
MPC handler). -/
def effectiveArm (side : Side) (r : Route) : Option Generated.LifecycleApp.Arm :=
  match side with
  | .mpc => lookupArm Generated.LifecycleApp.mpcArms r
  | .shard =>
    match lookupArm Generated.LifecycleApp.shardArms r with
    | some a => if a.call == "mpc" then lookupArm Generated.LifecycleApp.mpcArms r else some a
    | none => none

def opMethod : Op → String
  | .newQuery _ _ => "new_query"
  | .prepareHelper _ => "prepare_helper"
  | .prepareShard => "prepare_shard"
  | .receiveInputs => "receive_inputs"
  | .queryStatus _ => "query_status"
  | .shardStatus _ => "shard_status"
  | .complete _ => "complete"
  | .kill => "kill"
  | .taskReturns _ _ => ""

def ptypeName : Option PType → String
  | some .queryConfig => "QueryConfig"
  | some .prepareQuery => "PrepareQuery"
  | some .compareStatus => "CompareStatusRequest"
  | none => ""

/-- a well-formed request for `(side, route)` -/
def canonicalReq (side : Side) (route : Route) : Req :=
  { side, route, hasId := true, origin := none,
    params := match expects side route with
      | some t => .proper t .running
      | none => .other }

/-- Does the source arm for `(side, route)` say what the spec tables / the model say? -/
def armAgrees (side : Side) (route : Route) : Bool :=
  match effectiveArm side route with
  | none => false
  | some a =>
    (served side route == (a.call != "reject")) &&
    (needsId side route == a.extId) &&
    (ptypeName (expects side route) == a.into) &&
    (match procOp (canonicalReq side route) with
     | some (_, op) => a.call == opMethod op && a.propagates
     | none => a.call == "reject" || a.call == "metrics")

/-- **source_arms_match_spec_tables**: for both handlers and every `RouteId`, the arm of app.rs (as
regenerated by the translator) serves the route iff `served` says so, takes the id through
`ext_query_id` iff `needsId`, deserializes exactly the type `expects` names, calls exactly the
`Processor` method of `procOp` and lets its result leave through `?` / `HelperResponse::from`; a
missing id is `BadRequest`; the shard handler hands exactly CompleteQuery over to the MPC handler. -/
theorem source_arms_match_spec_tables :
    (∀ side, ∀ route ∈ allRoutes, armAgrees side route = true) ∧
    (∀ route, route ∈ allRoutes) ∧
    Generated.LifecycleApp.extQueryIdErr = "BadRequest" ∧
    (∀ route ∈ allRoutes, ((lookupArm Generated.LifecycleApp.shardArms route).map (·.call) == some "mpc") = (route == .completeQuery)) := by
  refine ⟨?_, ?_, by decide, by decide⟩
  · intro side; cases side <;> decide
  · intro route; cases route <;> decide

end IpaVerif.C18
