import IpaVerif.Model.DzkpValidator
import IpaVerif.Proofs.C03Order
/-!
# C03 — honest batches are accepted whatever the order in which records are pushed

`MaliciousDZKPValidator::new` hands the `Batcher` a constructor closure that decides, per proof batch, the
record id every per-gate store of that batch lays its segments out against (`first_record`). The closure is
machine-translated (`IpaVerif.Generated.DzkpValidator.firstRecordOf`); the validator's tables are modelled in
`IpaVerif.Model.DzkpValidator`.

* `firstRecordOf_explicit` — the code as it is: for every batch size other than `usize::MAX` batch `b` is
  anchored at record `b · records_per_batch`, batch 0 included.
* `push_order_irrelevant` — for every batch size `rpb ≠ usize::MAX`, every number of batches and gates, every
  segment width the store supports and **every permutation** of the pushes `(gate, record, segment)` of a run
  (one push per gate and record): no assertion of `insert_segment` fires, and for every batch and gate the stored
  table is literally the same as for any other order (in particular the in-order one, whose content
  `segment_packing` describes bit by bit). Together with `C03Batch.honest_accept` (a batch whose table holds
  consistent multiplications is accepted): honest batches are accepted whatever the push order.
* `anchor_on_first_pushed_counterexample` — why the explicit anchor is needed: with "anchor on the first pushed
  record" (what `Batch::new(None, …)` does) two records pushed as 1, 0 hit
  `assert!(record_id >= first_record)`, while 0, 1 is fine; the same for the variant that supplies the anchor
  only for `batch_index > 0`.
* `single_shot_lowest_first` — what remains true for single-shot validators (`usize::MAX`, no explicit anchor):
  if the lowest record of a gate is pushed first, every order of the remaining pushes gives one table.
-/
namespace IpaVerif.C03Order
open IpaVerif.DzkpStore IpaVerif.DzkpValidator IpaVerif.Generated.DzkpValidator IpaVerif.C03

/-! ## the anchor the code supplies -/

theorem firstRecordOf_explicit (rpb b : Nat) (h : rpb ≠ usizeMax) : firstRecordOf rpb b = some (b * rpb) := by
  unfold firstRecordOf
  simp [h]

theorem firstRecordOf_single_shot (b : Nat) : firstRecordOf usizeMax b = none := by
  unfold firstRecordOf
  simp

/-! ## folds with explicit failure, invariant under permutation -/

def foldO {σ α : Type} (f : σ → α → Outcome σ) : σ → List α → Outcome σ
  | s, [] => .ok s
  | s, a :: l => match f s a with
    | .ok s' => foldO f s' l
    | .panic m => .panic m

theorem foldO_ok {σ α : Type} (f : σ → α → Outcome σ) (Inv : σ → Prop) (P : α → Prop)
    (hstep : ∀ s a, Inv s → P a → ∃ s', f s a = .ok s' ∧ Inv s') :
    ∀ (l : List α) (s : σ), Inv s → (∀ a ∈ l, P a) → ∃ s', foldO f s l = .ok s' ∧ Inv s' := by
  intro l
  induction l with
  | nil => intro s hs _; exact ⟨s, rfl, hs⟩
  | cons a l ih =>
    intro s hs hP
    obtain ⟨s', e, hs'⟩ := hstep s a hs (hP a (by simp))
    obtain ⟨s'', e', hs''⟩ := ih s' hs' (fun x hx => hP x (by simp [hx]))
    exact ⟨s'', by simp only [foldO, e, e'], hs''⟩

theorem foldO_perm {σ α : Type} (f : σ → α → Outcome σ) (Inv : σ → Prop) (P : α → Prop) (R : α → α → Prop)
    (hsymm : ∀ {a b}, R a b → R b a)
    (hstep : ∀ s a, Inv s → P a → ∃ s', f s a = .ok s' ∧ Inv s')
    (hcomm : ∀ s a b, Inv s → P a → P b → R a b →
      ∃ sa sb sab, f s a = .ok sa ∧ f sa b = .ok sab ∧ f s b = .ok sb ∧ f sb a = .ok sab)
    {l₁ l₂ : List α} (hp : l₁.Perm l₂) :
    (∀ a ∈ l₁, P a) → l₁.Pairwise R → ∀ s, Inv s → foldO f s l₁ = foldO f s l₂ := by
  induction hp with
  | nil => intros; rfl
  | cons a _ ih =>
    intro hP hR s hs
    obtain ⟨s', e, hs'⟩ := hstep s a hs (hP a (by simp))
    simp only [foldO, e]
    exact ih (fun x hx => hP x (by simp [hx])) (List.pairwise_cons.1 hR).2 s' hs'
  | swap a b l =>
    intro hP hR s hs
    have hab : R b a := (List.pairwise_cons.1 hR).1 a (by simp)
    obtain ⟨sa, sb, sab, e1, e2, e3, e4⟩ := hcomm s b a hs (hP b (by simp)) (hP a (by simp)) hab
    simp only [foldO, e1, e2, e3, e4]
  | trans p₁ p₂ ih₁ ih₂ =>
    intro hP hR s hs
    rw [ih₁ hP hR s hs]
    exact ih₂ (fun x hx => hP x (p₁.mem_iff.2 hx)) ((p₁.pairwise_iff hsymm).1 hR) s hs

/-! ## what a push observes and changes -/

/-- Everything `Tables.push` reads and writes: the batch size, the header `(max, first_record)` of every batch
and the per-gate stores. -/
structure Obs where
  rpb : Nat
  hdr : Nat → Nat × Option Nat
  store : Nat → String → Option Store

def obs (t : Tables) : Obs :=
  { rpb := t.rpb, hdr := fun b => ((t.get b).max, (t.get b).first), store := fun b g => t.store b g }

abbrev Op := String × Nat × Segment

def stepObs (o : Obs) (op : Op) : Outcome Obs :=
  let b := op.2.1 / o.rpb
  if ¬ segmentOk op.2.2 then .panic "needs to be smaller or a multiple of 256" else
  match ((o.store b op.1).getD { first := (o.hdr b).2, max := (o.hdr b).1, width := op.2.2.width, vec := [] }).insert
      op.2.1 op.2.2 with
  | .ok st' => .ok { o with store := fun b' g' => if b' = b ∧ g' = op.1 then some st' else o.store b' g' }
  | .panic m => .panic m

def Outcome.map {α β : Type} (f : α → β) : Outcome α → Outcome β
  | .ok a => .ok (f a)
  | .panic m => .panic m

theorem find_insertSorted (g : String) (st : Store) (g' : String) : ∀ l : List (String × Store),
    ((insertSorted g st l).find? (·.1 == g')).map (·.2) =
      if g' = g then some st else (l.find? (·.1 == g')).map (·.2) := by
  intro l
  induction l with
  | nil =>
    by_cases h : g' = g
    · subst h; simp [insertSorted]
    · have : ¬ g = g' := fun e => h e.symm
      simp [insertSorted, h, this]
  | cons hd rest ih =>
    obtain ⟨h, s⟩ := hd
    unfold insertSorted
    by_cases h1 : g < h
    · simp only [h1, if_true]
      by_cases e : g' = g
      · subst e; simp
      · have : ¬ g = g' := fun x => e x.symm
        simp [e, this]
    · simp only [h1, if_false]
      by_cases h2 : g = h
      · subst h2
        simp only [if_true]
        by_cases e : g' = g
        · subst e; simp
        · have : ¬ g = g' := fun x => e x.symm
          simp [e, this]
      · simp only [h2, if_false]
        by_cases e : g' = g
        · subst e
          have hb : (h == g') = false := beq_eq_false_iff_ne.2 (fun x => h2 x.symm)
          simpa [List.find?_cons, hb] using ih
        · by_cases e2 : h = g'
          · subst e2; simp [e]
          · have hb : (h == g') = false := beq_eq_false_iff_ne.2 e2
            simpa [List.find?_cons, hb, e] using ih

theorem get_cons (t : Tables) (b : Nat) (bt : Batch) (b' : Nat) :
    ({ t with batches := (b, bt) :: t.batches } : Tables).get b' = if b' = b then bt else t.get b' := by
  unfold Tables.get Tables.fresh
  by_cases h : b' = b
  · subst h; simp
  · have : ¬ b = b' := fun x => h x.symm
    simp [h, this]

/-- **a push reads and writes only what `Obs` shows**: the model's `Tables.push`, seen through `obs`, is
`stepObs`. -/
theorem obs_push (t : Tables) (g : String) (r : Nat) (s : Segment) :
    Outcome.map obs (t.push g r s) = stepObs (obs t) (g, r, s) := by
  unfold Tables.push Tables.pushAt Batch.push stepObs
  simp only [obs]
  by_cases hok : segmentOk s = true
  · simp only [hok, not_true_eq_false, if_false]
    have hcur : (((t.get (r / t.rpb)).inner.find? (·.1 == g)).map (·.2)) = t.store (r / t.rpb) g := rfl
    rw [hcur]
    cases hins : ((t.store (r / t.rpb) g).getD
        { first := (t.get (r / t.rpb)).first, max := (t.get (r / t.rpb)).max, width := s.width, vec := [] }).insert r s with
    | panic m => simp only [Outcome.map]
    | ok st' =>
      simp only [Outcome.map, obs]
      congr 1
      have hget := get_cons t (r / t.rpb)
        { (t.get (r / t.rpb)) with inner := insertSorted g st' (t.get (r / t.rpb)).inner }
      congr 1
      · funext b'
        rw [hget b']
        by_cases hb : b' = r / t.rpb
        · subst hb; simp
        · simp [hb]
      · funext b' g'
        unfold Tables.store
        rw [hget b']
        by_cases hb : b' = r / t.rpb
        · subst hb
          simp only [if_true, true_and]
          exact find_insertSorted g st' g' _
        · simp [hb]
  · simp only [hok, Bool.false_eq_true, not_false_eq_true, if_true, Outcome.map]

theorem obs_pushAll : ∀ (ops : List Op) (t : Tables),
    Outcome.map obs (t.pushAll ops) = foldO stepObs (obs t) ops := by
  intro ops
  induction ops with
  | nil => intro t; rfl
  | cons op rest ih =>
    intro t
    obtain ⟨g, r, s⟩ := op
    have h := obs_push t g r s
    unfold Tables.pushAll foldO
    cases hp : t.push g r s with
    | panic m =>
      rw [hp] at h
      simp only [Outcome.map] at h
      simp only [← h, Outcome.map]
    | ok t' =>
      rw [hp] at h
      simp only [Outcome.map] at h
      simp only [← h]
      exact ih t'

/-! ## anchored tables: no assertion fires, pushes commute -/

/-- every batch `b` is anchored at `b · rpb`, and so is every store created so far. -/
structure OInv (w : String → Nat) (o : Obs) : Prop where
  pos : 0 < o.rpb
  hdr : ∀ b, o.hdr b = (o.rpb, some (b * o.rpb))
  stores : ∀ b g st, o.store b g = some st → st.first = some (b * o.rpb) ∧ st.max = o.rpb ∧ st.width = w g

def OpOk (w : String → Nat) (op : Op) : Prop := op.2.2.width = w op.1 ∧ segmentOk op.2.2 = true

/-- the store a push of gate `g` into batch `b` works on. -/
def cur (o : Obs) (b : Nat) (g : String) (width : Nat) : Store :=
  (o.store b g).getD { first := (o.hdr b).2, max := (o.hdr b).1, width := width, vec := [] }

theorem cur_anchored {w : String → Nat} {o : Obs} (hI : OInv w o) (b : Nat) (g : String) :
    (cur o b g (w g)).first = some (b * o.rpb) ∧ (cur o b g (w g)).max = o.rpb ∧ (cur o b g (w g)).width = w g := by
  unfold cur
  cases h : o.store b g with
  | none => simp [hI.hdr b]
  | some st => simpa using hI.stores b g st h

theorem in_batch (rpb r : Nat) (hpos : 0 < rpb) : r / rpb * rpb ≤ r ∧ r < rpb + r / rpb * rpb := by
  have h1 := Nat.div_mul_le_self r rpb
  have h2 := Nat.lt_div_mul_add (a := r) hpos
  omega

theorem stepObs_ok {w : String → Nat} (o : Obs) (op : Op) (hI : OInv w o) (hop : OpOk w op) :
    ∃ st', (cur o (op.2.1 / o.rpb) op.1 (w op.1)).insert op.2.1 op.2.2 = .ok st' ∧
      st'.first = some (op.2.1 / o.rpb * o.rpb) ∧ st'.max = o.rpb ∧ st'.width = w op.1 ∧
      stepObs o op = .ok { o with store := fun b' g' =>
        if b' = op.2.1 / o.rpb ∧ g' = op.1 then some st' else o.store b' g' } := by
  obtain ⟨g, r, s⟩ := op
  obtain ⟨hw, hok⟩ := hop
  simp only at hw hok ⊢
  obtain ⟨hf, hm, hwd⟩ := cur_anchored hI (r / o.rpb) g
  obtain ⟨h1, h2⟩ := in_batch o.rpb r hI.pos
  have e := insert_ok (cur o (r / o.rpb) g (w g)) _ r s hf (by rw [hwd, hw]) h1 (by rw [hm]; exact h2)
  refine ⟨_, e, rfl, hm, hwd, ?_⟩
  unfold stepObs
  simp only [hok, not_true_eq_false, if_false]
  have : ((o.store (r / o.rpb) g).getD { first := (o.hdr (r / o.rpb)).2, max := (o.hdr (r / o.rpb)).1, width := s.width, vec := [] })
      = cur o (r / o.rpb) g (w g) := by rw [hw]; rfl
  rw [this, e]

theorem stepObs_inv {w : String → Nat} (o : Obs) (op : Op) (hI : OInv w o) (hop : OpOk w op) :
    ∃ o', stepObs o op = .ok o' ∧ OInv w o' := by
  obtain ⟨st', _, hf, hm, hwd, e⟩ := stepObs_ok o op hI hop
  refine ⟨_, e, ⟨hI.pos, hI.hdr, ?_⟩⟩
  intro b g st h
  simp only at h
  by_cases hk : b = op.2.1 / o.rpb ∧ g = op.1
  · simp only [hk, and_self, if_true, Option.some.injEq] at h
    subst h
    obtain ⟨hb, hg⟩ := hk
    subst hb; subst hg
    exact ⟨hf, hm, hwd⟩
  · simp only [hk, if_false] at h
    exact hI.stores b g st h

theorem stepObs_comm {w : String → Nat} (o : Obs) (x y : Op) (hI : OInv w o) (hx : OpOk w x) (hy : OpOk w y)
    (hne : ¬ (x.1 = y.1 ∧ x.2.1 = y.2.1)) :
    ∃ ox oy oxy, stepObs o x = .ok ox ∧ stepObs ox y = .ok oxy ∧ stepObs o y = .ok oy ∧ stepObs oy x = .ok oxy := by
  obtain ⟨sx, ex, hfx, hmx, hwx, eox⟩ := stepObs_ok o x hI hx
  obtain ⟨sy, ey, hfy, hmy, hwy, eoy⟩ := stepObs_ok o y hI hy
  obtain ⟨ox, eox', hIx⟩ := stepObs_inv o x hI hx
  obtain ⟨oy, eoy', hIy⟩ := stepObs_inv o y hI hy
  obtain ⟨sxy, exy, _, _, _, eoxy⟩ := stepObs_ok ox y hIx hy
  obtain ⟨syx, eyx, _, _, _, eoyx⟩ := stepObs_ok oy x hIy hx
  rw [eox] at eox'
  rw [eoy] at eoy'
  have hox : ox = { o with store := fun b' g' => if b' = x.2.1 / o.rpb ∧ g' = x.1 then some sx else o.store b' g' } := by
    injection eox' with h; exact h.symm
  have hoy : oy = { o with store := fun b' g' => if b' = y.2.1 / o.rpb ∧ g' = y.1 then some sy else o.store b' g' } := by
    injection eoy' with h; exact h.symm
  refine ⟨ox, oy, _, by rw [eox, hox], eoxy, by rw [eoy, hoy], ?_⟩
  rw [eoyx]
  congr 1
  subst hox; subst hoy
  simp only at exy eyx ⊢
  by_cases hk : x.2.1 / o.rpb = y.2.1 / o.rpb ∧ x.1 = y.1
  · -- same batch, same gate, different records: the two inserts commute
    obtain ⟨hb, hg⟩ := hk
    have hr : x.2.1 ≠ y.2.1 := fun h => hne ⟨hg, h⟩
    have cxy : cur { o with store := fun b' g' => if b' = x.2.1 / o.rpb ∧ g' = x.1 then some sx else o.store b' g' }
        (y.2.1 / o.rpb) y.1 (w y.1) = sx := by
      unfold cur; simp [hb, hg]
    have cyx : cur { o with store := fun b' g' => if b' = y.2.1 / o.rpb ∧ g' = y.1 then some sy else o.store b' g' }
        (x.2.1 / o.rpb) x.1 (w x.1) = sy := by
      unfold cur; simp [hb, hg]
    rw [cxy] at exy
    rw [cyx] at eyx
    obtain ⟨hfc, hmc, hwc⟩ := cur_anchored hI (x.2.1 / o.rpb) x.1
    have hcy : cur o (y.2.1 / o.rpb) y.1 (w y.1) = cur o (x.2.1 / o.rpb) x.1 (w x.1) := by rw [hb, hg]
    rw [hcy] at ey
    obtain ⟨i1, i2⟩ := in_batch o.rpb x.2.1 hI.pos
    obtain ⟨j1, j2⟩ := in_batch o.rpb y.2.1 hI.pos
    obtain ⟨a, b, ab, c1, c2, c3, c4⟩ := insert_comm (cur o (x.2.1 / o.rpb) x.1 (w x.1)) _ x.2.1 y.2.1 x.2.2 y.2.2 hfc
      (by rw [hwc]; exact hx.1) (by rw [hwc, hg]; exact hy.1) hx.2 ⟨i1, by rw [hmc]; exact i2⟩
      ⟨by rw [hb]; exact j1, by rw [hmc, hb]; exact j2⟩ hr
    rw [ex] at c1; rw [ey] at c3
    injection c1 with c1; injection c3 with c3
    subst c1; subst c3
    rw [exy] at c2; rw [eyx] at c4
    injection c2 with c2; injection c4 with c4
    congr 1
    funext b' g'
    by_cases h1 : b' = x.2.1 / o.rpb ∧ g' = x.1
    · have h2 : b' = y.2.1 / o.rpb ∧ g' = y.1 := ⟨by rw [← hb]; exact h1.1, by rw [← hg]; exact h1.2⟩
      simp only [if_pos h1, if_pos h2]
      rw [c2, c4]
    · have h2 : ¬ (b' = y.2.1 / o.rpb ∧ g' = y.1) := fun h => h1 ⟨by rw [hb]; exact h.1, by rw [hg]; exact h.2⟩
      simp only [if_neg h1, if_neg h2]
  · -- different batch or gate: each push works on its own store
    have hk' : ¬ (y.2.1 / o.rpb = x.2.1 / o.rpb ∧ y.1 = x.1) := fun h => hk ⟨h.1.symm, h.2.symm⟩
    have cxy : cur { o with store := fun b' g' => if b' = x.2.1 / o.rpb ∧ g' = x.1 then some sx else o.store b' g' }
        (y.2.1 / o.rpb) y.1 (w y.1) = cur o (y.2.1 / o.rpb) y.1 (w y.1) := by
      unfold cur; simp [hk']
    have cyx : cur { o with store := fun b' g' => if b' = y.2.1 / o.rpb ∧ g' = y.1 then some sy else o.store b' g' }
        (x.2.1 / o.rpb) x.1 (w x.1) = cur o (x.2.1 / o.rpb) x.1 (w x.1) := by
      unfold cur; simp [hk]
    rw [cxy, ey] at exy
    rw [cyx, ex] at eyx
    injection exy with exy; injection eyx with eyx
    subst exy; subst eyx
    congr 1
    funext b' g'
    by_cases h1 : b' = x.2.1 / o.rpb ∧ g' = x.1 <;> by_cases h2 : b' = y.2.1 / o.rpb ∧ g' = y.1
    · exfalso; exact hk ⟨h1.1.symm.trans h2.1, h1.2.symm.trans h2.2⟩
    · simp only [if_pos h1, if_neg h2]
    · simp only [if_neg h1, if_pos h2]
    · simp only [if_neg h1, if_neg h2]

theorem obs_new_inv (w : String → Nat) (rpb : Nat) (hpos : 0 < rpb) (hmax : rpb ≠ usizeMax) :
    OInv w (obs (Tables.new rpb)) := by
  refine ⟨hpos, ?_, ?_⟩
  · intro b
    simp [obs, Tables.new, Tables.get, Tables.fresh, firstRecordOf_explicit rpb b hmax]
  · intro b g st h
    simp [obs, Tables.new, Tables.store, Tables.get, Tables.fresh] at h

theorem map_ok {α β : Type} {f : α → β} {x : Outcome α} {b : β} (h : Outcome.map f x = .ok b) :
    ∃ a, x = .ok a ∧ f a = b := by
  cases x with
  | ok a => simp only [Outcome.map, Outcome.ok.injEq] at h; exact ⟨a, rfl, h⟩
  | panic m => simp [Outcome.map] at h

/-- **push_order_irrelevant.** A validator for batches of `rpb` records (`rpb ≠ usize::MAX`, i.e. every
`validate_record`-style validator), any list of pushes `(gate, record, segment)` — any number of batches and
gates, one push per gate and record, segments of a gate of one supported width — and any permutation of it:
both runs finish without an assertion failure and for every batch and gate the stored tables are equal. -/
theorem push_order_irrelevant (rpb : Nat) (hpos : 0 < rpb) (hmax : rpb ≠ usizeMax) (w : String → Nat)
    (ops₁ ops₂ : List Op) (hp : ops₁.Perm ops₂)
    (hw : ∀ op ∈ ops₁, op.2.2.width = w op.1 ∧ segmentOk op.2.2 = true)
    (hone : ops₁.Pairwise fun x y => ¬ (x.1 = y.1 ∧ x.2.1 = y.2.1)) :
    ∃ t₁ t₂, (Tables.new rpb).pushAll ops₁ = .ok t₁ ∧ (Tables.new rpb).pushAll ops₂ = .ok t₂ ∧
      ∀ b g, t₁.store b g = t₂.store b g := by
  have hI := obs_new_inv w rpb hpos hmax
  have heq := foldO_perm stepObs (OInv w) (OpOk w) (fun x y => ¬ (x.1 = y.1 ∧ x.2.1 = y.2.1))
    (fun {a b} h hab => h ⟨hab.1.symm, hab.2.symm⟩)
    (fun o op => stepObs_inv o op) (fun o x y hI hx hy hne => stepObs_comm o x y hI hx hy hne)
    hp hw hone _ hI
  obtain ⟨o, e1, _⟩ := foldO_ok stepObs (OInv w) (OpOk w) (fun o op => stepObs_inv o op) ops₁ _ hI hw
  have e2 : foldO stepObs (obs (Tables.new rpb)) ops₂ = .ok o := by rw [← heq, e1]
  rw [← obs_pushAll] at e1 e2
  obtain ⟨t₁, h1, o1⟩ := map_ok e1
  obtain ⟨t₂, h2, o2⟩ := map_ok e2
  refine ⟨t₁, t₂, h1, h2, fun b g => ?_⟩
  have : (obs t₁).store b g = (obs t₂).store b g := by rw [o1, o2]
  exact this

/-- the hypotheses of `push_order_irrelevant` are satisfiable in a non-trivial way: two batches of two
records, two gates of different widths, pushed backwards. -/
example :
    let s3 : Segment := { width := 3, xl := 5, xr := 1, yl := 7, yr := 0, pl := 2, pr := 3, zr := 6 }
    let s256 : Segment := { width := 256, xl := 2 ^ 255 + 1, xr := 1, yl := 7, yr := 0, pl := 2, pr := 3, zr := 6 }
    let ops : List Op := [("a", 3, s3), ("b", 3, s256), ("a", 2, s3), ("a", 1, s3), ("b", 0, s256), ("a", 0, s3)]
    (∀ op ∈ ops, op.2.2.width = (fun g => if g = "a" then 3 else 256) op.1 ∧ segmentOk op.2.2 = true) ∧
    ops.Pairwise (fun x y => ¬ (x.1 = y.1 ∧ x.2.1 = y.2.1)) ∧ (2 : Nat) ≠ usizeMax := by
  refine ⟨by decide, by decide, by decide⟩

/-! ## why the anchor has to be explicit -/

def seg1 (v : Nat) : Segment := { width := 1, xl := v, xr := 0, yl := 0, yr := 0, pl := 0, pr := 0, zr := v }

/-- **anchor_on_first_pushed_counterexample.** Batches of two records, one gate, one-bit segments.
(1) "No explicit anchor" (`Batch::new(None, 2)`: each gate anchors at the first record pushed): pushing record 1
and then record 0 panics (`assert!(record_id >= first_record)`), pushing 0 and then 1 does not.
(2) The same for the rule "explicit anchor only for `batch_index > 0`" — in the first batch; its later batches
and (3) the rule the code uses accept both orders. -/
theorem anchor_on_first_pushed_counterexample :
    let back : List Op := [("g", 1, seg1 1), ("g", 0, seg1 0)]
    let fwd : List Op := [("g", 0, seg1 0), ("g", 1, seg1 1)]
    let later : List Op := [("g", 3, seg1 1), ("g", 2, seg1 0)]
    let lazy (rpb : Nat) : Nat → Option Nat := fun b => if b > 0 then some (b * rpb) else none
    Outcome.isPanic ((Tables.newWith 2 (fun _ => none)).pushAll back) = true ∧
    Outcome.isPanic ((Tables.newWith 2 (fun _ => none)).pushAll fwd) = false ∧
    Outcome.isPanic ((Tables.newWith 2 (lazy 2)).pushAll back) = true ∧
    Outcome.isPanic ((Tables.newWith 2 (lazy 2)).pushAll fwd) = false ∧
    Outcome.isPanic ((Tables.newWith 2 (lazy 2)).pushAll later) = false ∧
    Outcome.isPanic ((Tables.new 2).pushAll back) = false ∧
    Outcome.isPanic ((Tables.new 2).pushAll later) = false := by
  decide +kernel

/-! ## single-shot validators (`usize::MAX`): no explicit anchor -/

/-- the pushes of one gate into one store. -/
def insertAll (st : Store) (l : List (Nat × Segment)) : Outcome Store :=
  foldO (fun st x => st.insert x.1 x.2) st l

/-- **single_shot_lowest_first.** A store without explicit anchor (single-shot validators: the constructor
closure passes `None` for `usize::MAX`): if the lowest record `r₀` of the gate is pushed first, the remaining
pushes (distinct records of `(r₀, r₀ + max)`) may come in any order — no assertion fires and the table is the
same. (If a record below the first pushed one follows, `insert_segment` panics:
`anchor_on_first_pushed_counterexample`.) -/
theorem single_shot_lowest_first (max w r₀ : Nat) (s₀ : Segment) (l₁ l₂ : List (Nat × Segment))
    (hp : l₁.Perm l₂) (hmax : 0 < max) (hs₀ : s₀.width = w)
    (hl : ∀ x ∈ l₁, x.2.width = w ∧ segmentOk x.2 = true ∧ r₀ ≤ x.1 ∧ x.1 < max + r₀)
    (hone : l₁.Pairwise fun x y => x.1 ≠ y.1) :
    ∃ st, insertAll { first := none, max := max, width := w, vec := [] } ((r₀, s₀) :: l₁) = .ok st ∧
          insertAll { first := none, max := max, width := w, vec := [] } ((r₀, s₀) :: l₂) = .ok st := by
  let Inv : Store → Prop := fun st => st.first = some r₀ ∧ st.max = max ∧ st.width = w
  let P : Nat × Segment → Prop := fun x => x.2.width = w ∧ segmentOk x.2 = true ∧ r₀ ≤ x.1 ∧ x.1 < max + r₀
  have hstep : ∀ st x, Inv st → P x → ∃ st', st.insert x.1 x.2 = .ok st' ∧ Inv st' := by
    intro st x hI hx
    refine ⟨_, insert_ok st r₀ x.1 x.2 hI.1 (by rw [hx.1, hI.2.2]) hx.2.2.1 (by rw [hI.2.1]; exact hx.2.2.2), rfl, hI.2.1, hI.2.2⟩
  have hcomm : ∀ st x y, Inv st → P x → P y → x.1 ≠ y.1 →
      ∃ sa sb sab, st.insert x.1 x.2 = .ok sa ∧ sa.insert y.1 y.2 = .ok sab ∧
        st.insert y.1 y.2 = .ok sb ∧ sb.insert x.1 x.2 = .ok sab := by
    intro st x y hI hx hy hne
    exact insert_comm st r₀ x.1 y.1 x.2 y.2 hI.1 (by rw [hx.1, hI.2.2]) (by rw [hy.1, hI.2.2]) hx.2.1
      ⟨hx.2.2.1, by rw [hI.2.1]; exact hx.2.2.2⟩ ⟨hy.2.2.1, by rw [hI.2.1]; exact hy.2.2.2⟩ hne
  have h0 : (⟨none, max, w, []⟩ : Store).insert r₀ s₀ =
      .ok ⟨some r₀, max, w, if s₀.width < 256 then insertSmall [] 0 s₀ else insertLarge [] 0 s₀⟩ := by
    unfold Store.insert
    have a : ¬ s₀.width ≠ w := by simp [hs₀]
    have c : ¬ ¬ r₀ < max + r₀ := by omega
    simp only [a, c, Option.getD_none, Nat.lt_irrefl, if_false, Nat.sub_self]
  have hI0 : Inv ⟨some r₀, max, w, if s₀.width < 256 then insertSmall [] 0 s₀ else insertLarge [] 0 s₀⟩ := ⟨rfl, rfl, rfl⟩
  have heq := foldO_perm (fun (st : Store) (x : Nat × Segment) => st.insert x.1 x.2) Inv P (fun x y => x.1 ≠ y.1)
    (fun {a b} h => h.symm) hstep hcomm hp hl hone _ hI0
  obtain ⟨st, e, _⟩ := foldO_ok (fun (st : Store) (x : Nat × Segment) => st.insert x.1 x.2) Inv P hstep l₁ _ hI0 hl
  refine ⟨st, ?_, ?_⟩
  · simp only [insertAll, foldO, h0]; exact e
  · simp only [insertAll, foldO, h0]; rw [← heq]; exact e

example :
    let l : List (Nat × Segment) := [(6, seg1 1), (5, seg1 0), (9, seg1 1)]
    (∀ x ∈ l, x.2.width = 1 ∧ segmentOk x.2 = true ∧ 4 ≤ x.1 ∧ x.1 < 18446744073709551615 + 4) ∧
    l.Pairwise (fun x y => x.1 ≠ y.1) ∧ (seg1 1).width = 1 := by
  refine ⟨by decide, by decide, rfl⟩

end IpaVerif.C03Order
