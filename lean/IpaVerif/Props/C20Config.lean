import IpaVerif.Props.C20
import IpaVerif.Generated.ServerCtor
/-!
# C20 — the identity header is honoured only when TLS was EXPLICITLY disabled

`start_on` installs `SetClientIdentityFromHeader` in the arms with `self.config.disable_https == true`
(theorems `arm_*`, `header_only_without_tls`). That is worth exactly as much as the guarantee that
`self.config.disable_https` is what the caller of `IpaHttpServer::new_mpc` / `new_shards` wrote. The
theorems below quantify over ALL configurations `(disable_https, tls present)`, both listener modes, both
server flavors, all clients and requests; the last one shows by `decide` what the "normalising"
constructor `config.disable_https |= config.tls.is_none()` does to the configuration (false, None).
-/
namespace IpaVerif.C20Config
open IpaVerif.Auth IpaVerif.Generated.Routes IpaVerif.C20

/-- **server_ctor_ok** (regenerated on every run, plugin `c20_ctor`): the constructors store `config`
unmodified, nothing under net/server assigns to `disable_https` / `tls`, an HTTPS arm without key material
panics. This is what makes `boot = bootWith ctorStore` the model of the code. -/
theorem server_ctor_ok :
    IpaVerif.Generated.ServerCtor.serverCtor
      = { storesConfig := true, neverAssigned := true, tlsNeedsMaterial := true, recognised := true } := by
  decide

/-- **boot_table**: what each of the four configurations does, for either listener mode: `disable_https`
⇒ the plain arm WITH the header layer (key material, if any, is not used); HTTPS with key material ⇒ the TLS
arm WITHOUT the header layer; HTTPS without key material ⇒ refuses to start. -/
theorem boot_table (l t : Bool) :
    boot ⟨true, t⟩ l = some (.serves (wantedArm true l)) ∧
    boot ⟨false, true⟩ l = some (.serves (wantedArm false l)) ∧
    boot ⟨false, false⟩ l = some .refuses := by
  simp [boot, bootWith, ctorStore, startOn, armFor_eq, wantedArm]

/-- the serving mode is a function of the configuration as the caller wrote it: a running server has the
header layer iff `disable_https` was `true`, the TLS acceptor iff it was `false` -/
theorem boot_mode (c : SrvConfig) (l : Bool) (a : StartArm) (h : boot c l = some (.serves a)) :
    a.headerLayer = c.disableHttps ∧ a.tlsAcceptor = !c.disableHttps := by
  obtain ⟨d, t⟩ := c
  cases d <;> cases t <;> simp [boot, bootWith, ctorStore, startOn, armFor_eq, wantedArm] at h <;>
    subst h <;> simp

/-- **header_only_when_https_explicitly_disabled**: for EVERY configuration handed to the constructor,
either listener mode, every client that presents no certificate of a configured peer — whatever protocol it
speaks and whatever identity header it sends — and every request matching a route of `h2h_router` (MPC
server) / `s2s_router` (shard server): unless `disable_https` was explicitly `true`, the only answers are
401 or none at all. (Contrapositive: an identity header is honoured ⇒ `disable_https == true`.) -/
theorem header_only_when_https_explicitly_disabled {Ident : Type} (c : SrvConfig) (l : Bool)
    (tls : Bool) (cert : ClientCert Ident) (h : Option (Option Ident)) (path : List String) (m : Method)
    (hcert : cert.identity = none) :
    c.disableHttps = true ∨
    ((∀ pe ∈ h2hMounted, matchPath pe.path path = true → pe.method = m →
        serveBooted .helper (flatten mpcRouter) (boot c l) ⟨tls, cert, h⟩ path m = .connErr ∨
        serveBooted .helper (flatten mpcRouter) (boot c l) ⟨tls, cert, h⟩ path m = .resp .unauthorized) ∧
     (∀ pe ∈ s2sMounted, matchPath pe.path path = true → pe.method = m →
        serveBooted .shard (flatten shardRouter) (boot c l) ⟨tls, cert, h⟩ path m = .connErr ∨
        serveBooted .shard (flatten shardRouter) (boot c l) ⟨tls, cert, h⟩ path m = .resp .unauthorized)) := by
  obtain ⟨d, t⟩ := c
  cases d
  · right
    cases t
    · -- HTTPS without key material: nothing is running
      have hb : boot ⟨false, false⟩ l = some .refuses := (boot_table l false).2.2
      simp [hb, serveBooted]
    · have hb : boot ⟨false, true⟩ l = some (.serves (wantedArm false l)) := (boot_table l true).2.1
      have hl := live_requires_verified_identity false l (wantedArm false l) (armFor_eq false l) tls cert h path m
        (by simpa using hcert)
      simpa [hb, serveBooted] using hl
  · left; rfl

/-- the hypotheses are satisfiable and the disjunction is not vacuous: (false, None), pre-bound, a plain
client claiming helper B in the header gets no answer on the step route -/
example : serveBooted .helper (flatten mpcRouter) (boot ⟨false, false⟩ true) ⟨false, .none, some (some 1)⟩
    ["query", "0", "step", "a"] .post = .connErr := by decide

/-- with TLS explicitly disabled the same client IS served (the test-only mode the property allows) -/
example : serveBooted .helper (flatten mpcRouter) (boot ⟨true, false⟩ true) ⟨false, .none, some (some 1)⟩
    ["query", "0", "step", "a"] .post = .resp (.handled "query::step::router:handler::<F>") := by decide

/-- key material present but TLS explicitly disabled: the material is not used, the header counts -/
example : boot ⟨true, true⟩ false = some (.serves (wantedArm true false)) := by decide

/-- **normalising_ctor_counterexample** (`decide`): with the constructor variant
`config.disable_https |= config.tls.is_none()` the configuration (disable_https = false, tls = None) no
longer refuses to start; it serves plain HTTP with the header layer, and a caller that merely CLAIMS to be
helper B / shard 1 reaches the step handler of the MPC / shard server — although TLS was never explicitly
disabled. Under the code's constructor the same configuration refuses to start. -/
theorem normalising_ctor_counterexample :
    bootWith ctorNormalise ⟨false, false⟩ true = some (.serves (wantedArm true true)) ∧
    serveBooted .helper (flatten mpcRouter) (bootWith ctorNormalise ⟨false, false⟩ true)
      ⟨false, .none, some (some 1)⟩ ["query", "0", "step", "a"] .post
      = .resp (.handled "query::step::router:handler::<F>") ∧
    serveBooted .shard (flatten shardRouter) (bootWith ctorNormalise ⟨false, false⟩ false)
      ⟨false, .none, some (some 1)⟩ ["query", "0", "step", "a"] .post
      = .resp (.handled "query::step::router:handler::<F>") ∧
    boot ⟨false, false⟩ true = some .refuses ∧
    -- the two constructors agree on every configuration a launcher with the `tls.is_some() == !disable_https`
    -- assertion produces, which is why no existing test can tell them apart
    (∀ l, bootWith ctorNormalise ⟨true, false⟩ l = boot ⟨true, false⟩ l) ∧
    (∀ l, bootWith ctorNormalise ⟨false, true⟩ l = boot ⟨false, true⟩ l) := by
  decide

end IpaVerif.C20Config
