import Mathlib.Algebra.BigOperators.Group.Finset.Basic
import IpaVerif.Proofs.C01Shard
/-!
# C01 — hybrid attribution result equals the in-the-clear reference

`spec` (Model/Hybrid.lean) is written from the statement of the property; `pipeline` transcribes the
stages of `hybrid_protocol`. The main theorem `pipeline_eq_spec` holds for every input multiset, every
number of shards ≥ 1, every assignment of reports to shards and both shuffles (any permutations), any
PRF that is injective on the match keys present, any OPRF-padding dummies with fresh keys and zero
payload, and any aggregation-padding dummies with zero value.
-/
namespace IpaVerif.C01
open IpaVerif.Hybrid

theorem satAdd_comm (m a b : Nat) : satAdd m a b = satAdd m b a := by
  simp [satAdd, Nat.add_comm]

theorem satAdd_assoc (m a b c : Nat) : satAdd m (satAdd m a b) c = satAdd m a (satAdd m b c) := by
  simp only [satAdd]; omega

theorem satAdd_min (m a b : Nat) : satAdd m (min a m) (min b m) = min (a + b) m := by
  simp only [satAdd]; omega

theorem dedupKeys_mem : ∀ (ks : List Nat) (x : Nat), x ∈ dedupKeys ks ↔ x ∈ ks
  | [], x => by simp [dedupKeys]
  | k :: ks, x => by
      have ih := dedupKeys_mem ks
      simp only [dedupKeys]
      split
      · rename_i hk
        simp only [List.mem_cons, ih]
        constructor
        · intro h; exact Or.inr h
        · rintro (rfl | h)
          · exact (ih _).mp hk
          · exact h
      · simp [ih]

theorem dedupKeys_nodup : ∀ ks : List Nat, (dedupKeys ks).Nodup
  | [] => by simp [dedupKeys]
  | k :: ks => by
      have ih := dedupKeys_nodup ks
      simp only [dedupKeys]
      split
      · exact ih
      · rename_i hk; exact List.nodup_cons.mpr ⟨hk, ih⟩

/-- the specification's per-bucket total as a key-wise sum. -/
theorem specBucket_eq (w : Widths) (input : List Rec) (b : Nat) :
    specBucket w input b = min (keySum w input b) (2 ^ w.hvW - 1) := by
  unfold specBucket keySum
  congr 1
  have hset : (dedupKeys (input.map (·.key))).toFinset = (input.map (·.key)).toFinset := by
    ext x; simp [dedupKeys_mem]
  rw [← hset, List.sum_toFinset _ (dedupKeys_nodup _)]
  apply congrArg
  apply List.map_congr_left
  intro k _
  exact keyBucketValue_eq_listVal w input k b

/-- OPRF-padding dummies (fresh keys, zero payload) do not change any key-wise total. -/
theorem keySum_append_fresh (w : Widths) (input dummies : List Rec) (b : Nat)
    (hzero : ∀ r ∈ dummies, r.bk = 0 ∧ r.v = 0)
    (hfresh : ∀ r ∈ dummies, ∀ r' ∈ input, r'.key ≠ r.key) :
    keySum w (input ++ dummies) b = keySum w input b := by
  unfold keySum
  have hdisj : Disjoint (input.map (·.key)).toFinset (dummies.map (·.key)).toFinset := by
    rw [Finset.disjoint_left]
    intro k hk hk'
    simp only [List.mem_toFinset, List.mem_map] at hk hk'
    obtain ⟨r', hr', rfl⟩ := hk
    obtain ⟨r, hr, h⟩ := hk'
    exact hfresh r hr r' hr' h.symm
  rw [List.map_append, List.toFinset_append, Finset.sum_union hdisj]
  have happ : ∀ k, keyRows (input ++ dummies) k = keyRows input k ++ keyRows dummies k := by
    intro k; simp [keyRows]
  have hin : ∀ k ∈ (input.map (·.key)).toFinset,
      listVal w b (keyRows (input ++ dummies) k) = listVal w b (keyRows input k) := by
    intro k hk
    simp only [List.mem_toFinset, List.mem_map] at hk
    obtain ⟨r', hr', rfl⟩ := hk
    have hnil : keyRows dummies r'.key = [] := by
      simp only [keyRows, List.filter_eq_nil_iff, beq_iff_eq]
      intro r hr h
      exact hfresh r hr r' hr' h.symm
    rw [happ, hnil, List.append_nil]
  have hd : ∀ k ∈ (dummies.map (·.key)).toFinset, listVal w b (keyRows (input ++ dummies) k) = 0 := by
    intro k hk
    simp only [List.mem_toFinset, List.mem_map] at hk
    obtain ⟨r0, hr0, rfl⟩ := hk
    have hnil : keyRows input r0.key = [] := by
      simp only [keyRows, List.filter_eq_nil_iff, beq_iff_eq]
      intro r' hr' h
      exact hfresh r0 hr0 r' hr' h
    have hz1 : ((keyRows dummies r0.key).map (·.bk)).sum = 0 := by
      apply List.sum_eq_zero
      intro x hx
      simp only [keyRows, List.mem_map, List.mem_filter] at hx
      obtain ⟨r, ⟨hr, _⟩, rfl⟩ := hx
      exact (hzero r hr).1
    have hz2 : ((keyRows dummies r0.key).map (·.v)).sum = 0 := by
      apply List.sum_eq_zero
      intro x hx
      simp only [keyRows, List.mem_map, List.mem_filter] at hx
      obtain ⟨r, ⟨hr, _⟩, rfl⟩ := hx
      exact (hzero r hr).2
    rw [happ, hnil, List.nil_append, listVal_eq, hz1, hz2]
    simp only [Nat.zero_mod]
    by_cases h1 : (keyRows dummies r0.key).length = 2 <;> by_cases h2 : 0 = b <;> simp [h1, h2]
  rw [Finset.sum_congr rfl hin, Finset.sum_congr rfl hd]
  simp

/-- **C01, main theorem, relational form.** The two shuffles (with their DP padding) are arbitrary
relations: `afterShuffle1` is any assignment to ≥ 1 shards of any permutation of the input plus fresh
zero-payload dummies, `afterShuffle2` any assignment to shards of any permutation of the aggregated rows
of all shards plus zero-value dummies. The leader's histogram equals the in-the-clear specification. -/
theorem pipeline_eq_spec_rel (w : Widths) (chunk : Nat) (f : Nat → Nat)
    (input dummies1 : List Rec) (afterShuffle1 : List (List Rec))
    (afterShuffle2 : List (List Row)) (dummies2 : List Row)
    (hshards : 0 < afterShuffle1.length)
    (hsh1 : afterShuffle1.flatten.Perm (input ++ dummies1))
    (hzero : ∀ r ∈ dummies1, r.bk = 0 ∧ r.v = 0)
    (hfresh : ∀ r ∈ dummies1, ∀ r' ∈ input, r'.key ≠ r.key)
    (hf : ∀ r ∈ input ++ dummies1, ∀ r' ∈ input ++ dummies1, f r.key = f r'.key → r.key = r'.key)
    (hsh2 : afterShuffle2.flatten.Perm
      (((List.range afterShuffle1.length).map
        (fun d => aggregateReports w (reshardByPrf afterShuffle1.length f afterShuffle1 d))).flatten ++ dummies2))
    (hd2 : ∀ r ∈ dummies2, r.2 = 0) :
    finalize w (afterShuffle2.map (shardHistogram w chunk)) = spec w input := by
  unfold spec
  rw [finalize_shardHistograms]
  apply List.map_congr_left
  intro b _
  rw [specBucket_eq, bucketSum_perm hsh2 b, bucketSum_append, bucketSum_zero dummies2 hd2 b, Nat.add_zero,
    shardedSum w afterShuffle1.length hshards f afterShuffle1
      (fun r hr r' hr' => hf r (hsh1.mem_iff.mp hr) r' (hsh1.mem_iff.mp hr')) b,
    keySum_perm w b hsh1, keySum_append_fresh w input dummies1 b hzero hfresh]

/-- **C01, main theorem.** For every input, every number of shards ≥ 1 and assignment of records to
shards, both shuffles (arbitrary permutations across shards), any PRF injective on the match keys
present, any OPRF-padding dummies (fresh keys, zero payload) and aggregation-padding dummies (zero
value), the histogram computed by the pipeline equals the in-the-clear specification. -/
theorem pipeline_eq_spec (w : Widths) (chunk : Nat) (f : Nat → Nat)
    (input dummies1 : List Rec) (afterShuffle1 : List (List Rec))
    (shuffle2 : List (List Row) → List (List Row)) (dummies2 : List Row)
    (hshards : 0 < afterShuffle1.length)
    (hsh1 : afterShuffle1.flatten.Perm (input ++ dummies1))
    (hzero : ∀ r ∈ dummies1, r.bk = 0 ∧ r.v = 0)
    (hfresh : ∀ r ∈ dummies1, ∀ r' ∈ input, r'.key ≠ r.key)
    (hf : ∀ r ∈ input ++ dummies1, ∀ r' ∈ input ++ dummies1, f r.key = f r'.key → r.key = r'.key)
    (hsh2 : ∀ rows, (shuffle2 rows).flatten.Perm (rows.flatten ++ dummies2))
    (hd2 : ∀ r ∈ dummies2, r.2 = 0) :
    pipeline w chunk f afterShuffle1 shuffle2 = spec w input := by
  unfold pipeline
  exact pipeline_eq_spec_rel w chunk f input dummies1 afterShuffle1 _ dummies2 hshards hsh1 hzero hfresh hf
    (hsh2 _) hd2

/-- Corollary used by the driver: the canonical run (no dummies, identity shuffles, identity PRF) on
any assignment of the records to ≥ 1 shards equals the specification of the flattened input. -/
theorem run_eq_spec (w : Widths) (chunk : Nat) (shards : List (List Rec)) (h : 0 < shards.length) :
    run w chunk shards = spec w shards.flatten := by
  unfold run
  split
  · rename_i hempty
    have hnil : shards.flatten = [] := by
      rw [Bool.and_eq_true] at hempty
      exact List.isEmpty_iff.mp hempty.2
    rw [hnil]
    have hz : ∀ b, specBucket w [] b = 0 := by
      intro b; simp [specBucket, dedupKeys]
    apply List.ext_getElem <;> simp [spec, hz]
  · exact pipeline_eq_spec w chunk id shards.flatten [] shards id [] h (by simp) (by simp) (by simp)
      (by intro r _ r' _ h; exact h) (by intro rows; simp) (by simp)

/-- With the repaired code every shard takes part in every collective step, whatever it holds. -/
theorem collSteps_allJoin (n : Nat) (obs : List Counts) (hn : 0 < n) (hobs : obs.length = n) :
    allJoin (obs.map (collSteps n)) = true := by
  by_cases h1 : n = 1
  · subst h1
    match obs, hobs with
    | [c], _ => simp [allJoin, collSteps]; split <;> rfl
  · have hall : ∀ c, collSteps n c = ([.inputShuffle, .reshardByPrf, .aggShuffle, .finalize], .ok) := by
      intro c; simp [collSteps, h1]
    cases obs with
    | nil => rfl
    | cons c cs => simp [allJoin, hall]

/-- **C01, completion (F8 repaired).** For every input, every number of shards ≥ 1, every assignment
of the reports to the shards — including shards without any row — and whatever row counts the shards
observe after the two shuffles and after pairing (shards running empty at any stage), the query
completes and its result is the in-the-clear specification. -/
theorem query_completes_with_spec (w : Widths) (chunk : Nat) (shards : List (List Rec)) (obs : List Counts)
    (h : 0 < shards.length) (hobs : obs.length = shards.length) :
    runOutcome w chunk shards obs = some (spec w shards.flatten) := by
  unfold runOutcome runOutcomeWith
  rw [collSteps_allJoin shards.length obs h hobs, if_pos rfl, run_eq_spec w chunk shards h]

/-- the counts of the canonical run are admissible observations -/
theorem canonicalCounts_length (w : Widths) (shards : List (List Rec)) :
    (canonicalCounts w shards).length = shards.length := by
  simp [canonicalCounts]

/-- Whenever the modelled query completes — repaired or not — its result is the specification. -/
theorem runOutcome_eq_spec (steps : Counts → List Coll × Exit) (w : Widths) (chunk : Nat) (shards : List (List Rec))
    (obs : List Counts) (h : 0 < shards.length)
    (res : List Nat) (hres : runOutcomeWith steps w chunk shards obs = some res) : res = spec w shards.flatten := by
  unfold runOutcomeWith at hres
  split at hres
  · cases hres; exact run_eq_spec w chunk shards h
  · cases hres

/-- Documentation of known finding F8 (now repaired): the statement above was FALSE of the code as it
was. With two shards and all four reports on the first, the second shard returned at once and the first
waited for it in the input shuffle forever — whatever the first shard observed later. -/
theorem runOutcomeUnfixed_counterexample (c0 c1 : Counts) (h0 : c0.entry = 4) (h1 : c1.entry = 0) :
    runOutcomeUnfixed { bkW := 8, vW := 3, hvW := 32, buckets := 256 } 8
      [[⟨1, 2, 0⟩, ⟨1, 0, 3⟩, ⟨2, 2, 0⟩, ⟨2, 0, 4⟩], []] [c0, c1] = none := by
  have e1 : collStepsUnfixed c1 = ([], .ok) := by simp [collStepsUnfixed, h1]
  have e0 : collStepsUnfixed c0 ≠ ([], .ok) := by
    simp only [collStepsUnfixed, h0]
    repeat' split
    all_goals simp_all
  unfold runOutcomeUnfixed runOutcomeWith
  rw [if_neg]
  simp only [List.map_cons, List.map_nil, allJoin, e1, List.all_cons, List.all_nil, Bool.and_true, Bool.and_eq_true,
    beq_iff_eq, not_and]
  intro _ h; exact e0 h.symm

/-- … and so did a shard that the input shuffle, the pairing or the second shuffle left without rows
although it had entered with rows (three shards with rows on entry; the last one has no pair). -/
theorem runOutcomeUnfixed_counterexample_late :
    allJoin ([⟨2, 2, 1, 1⟩, ⟨2, 2, 1, 1⟩, ⟨1, 1, 0, 0⟩].map collStepsUnfixed) = false ∧
    allJoin ([⟨2, 3, 1, 1⟩, ⟨2, 0, 0, 0⟩].map collStepsUnfixed) = false ∧
    allJoin ([⟨2, 2, 1, 2⟩, ⟨2, 2, 1, 0⟩].map collStepsUnfixed) = false := by decide

/-- the pre-repair code did complete with the specification when no shard ran empty anywhere -/
theorem runOutcomeUnfixed_of_nonempty (w : Widths) (chunk : Nat) (shards : List (List Rec)) (obs : List Counts)
    (h : 0 < shards.length)
    (hne : ∀ c ∈ obs, c.entry ≠ 0 ∧ c.afterShuffle1 ≠ 0 ∧ c.pairs ≠ 0 ∧ c.afterShuffle2 ≠ 0) :
    runOutcomeUnfixed w chunk shards obs = some (spec w shards.flatten) := by
  have hall : ∀ c ∈ obs, collStepsUnfixed c = ([.inputShuffle, .reshardByPrf, .aggShuffle, .finalize], .ok) := by
    intro c hc
    obtain ⟨a, b, c', d⟩ := hne c hc
    simp [collStepsUnfixed, a, b, c', d]
  have hj : allJoin (obs.map collStepsUnfixed) = true := by
    cases obs with
    | nil => rfl
    | cons c cs =>
      simp only [List.map_cons, allJoin, hall c (by simp), Bool.and_eq_true, List.all_eq_true, List.mem_map]
      refine ⟨by decide, ?_⟩
      rintro x ⟨y, hy, rfl⟩
      simp [hall y (by simp [hy])]
  unfold runOutcomeUnfixed runOutcomeWith
  rw [hj, if_pos rfl, run_eq_spec w chunk shards h]

/-- Non-vacuity: a 3-shard input with a duplicate conversion pair, a triple, a lone impression,
colliding breakdown sums and wrap-around, an EMPTY shard, and the canonical counts: the result is not all zero. -/
example :
    let w : Widths := { bkW := 8, vW := 3, hvW := 8, buckets := 4 }
    let shards : List (List Rec) := [[⟨1, 2, 0⟩, ⟨9, 0, 7⟩, ⟨5, 3, 0⟩, ⟨1, 0, 3⟩, ⟨9, 0, 7⟩, ⟨7, 1, 0⟩], [], [⟨7, 255, 0⟩, ⟨4, 1, 0⟩, ⟨7, 0, 1⟩, ⟨8, 2, 0⟩, ⟨8, 0, 5⟩]]
    runOutcome w 2 shards (canonicalCounts w shards) = some [6, 0, 8, 0] ∧
    runOutcomeUnfixed w 2 shards (canonicalCounts w shards) = none := by
  decide

end IpaVerif.C01
