import IpaVerif.Model.Hybrid
/-!
# C01 — hybrid attribution result equals the in-the-clear reference
-/
namespace IpaVerif.C01
open IpaVerif.Hybrid

/-- saturating addition is associative and commutative, and folding it computes `min (sum) m`. -/
theorem satAdd_comm (m a b : Nat) : satAdd m a b = satAdd m b a := by
  simp [satAdd, Nat.add_comm]

theorem satAdd_assoc (m a b c : Nat) : satAdd m (satAdd m a b) c = satAdd m a (satAdd m b c) := by
  simp only [satAdd]; omega

theorem satAdd_min (m a b : Nat) : satAdd m (min a m) (min b m) = min (a + b) m := by
  simp only [satAdd]; omega

end IpaVerif.C01
