import Mathlib.Algebra.BigOperators.Group.Finset.Basic
import IpaVerif.Proofs.C01Shard
/-!
# C01 — hybrid attribution result equals the in-the-clear reference

`spec` (Model/Hybrid.lean) is written from the statement of the property; `pipeline` transcribes the
stages of `hybrid_protocol`. The main theorem `pipeline_eq_spec` holds for every input multiset, every
number of shards ≥ 1, every assignment of reports to shards and both shuffles (any permutations), any
PRF that is injective on the match keys present, any OPRF-padding dummies with fresh keys and zero
payload, and any aggregation-padding dummies with zero value.
-/
namespace IpaVerif.C01
open IpaVerif.Hybrid

theorem satAdd_comm (m a b : Nat) : satAdd m a b = satAdd m b a := by
  simp [satAdd, Nat.add_comm]

theorem satAdd_assoc (m a b c : Nat) : satAdd m (satAdd m a b) c = satAdd m a (satAdd m b c) := by
  simp only [satAdd]; omega

theorem satAdd_min (m a b : Nat) : satAdd m (min a m) (min b m) = min (a + b) m := by
  simp only [satAdd]; omega

theorem dedupKeys_mem : ∀ (ks : List Nat) (x : Nat), x ∈ dedupKeys ks ↔ x ∈ ks
  | [], x => by simp [dedupKeys]
  | k :: ks, x => by
      have ih := dedupKeys_mem ks
      simp only [dedupKeys]
      split
      · rename_i hk
        simp only [List.mem_cons, ih]
        constructor
        · intro h; exact Or.inr h
        · rintro (rfl | h)
          · exact (ih _).mp hk
          · exact h
      · simp [ih]

theorem dedupKeys_nodup : ∀ ks : List Nat, (dedupKeys ks).Nodup
  | [] => by simp [dedupKeys]
  | k :: ks => by
      have ih := dedupKeys_nodup ks
      simp only [dedupKeys]
      split
      · exact ih
      · rename_i hk; exact List.nodup_cons.mpr ⟨hk, ih⟩

/-- the specification's per-bucket total as a key-wise sum. -/
theorem specBucket_eq (w : Widths) (input : List Rec) (b : Nat) :
    specBucket w input b = min (keySum w input b) (2 ^ w.hvW - 1) := by
  unfold specBucket keySum
  congr 1
  have hset : (dedupKeys (input.map (·.key))).toFinset = (input.map (·.key)).toFinset := by
    ext x; simp [dedupKeys_mem]
  rw [← hset, List.sum_toFinset _ (dedupKeys_nodup _)]
  apply congrArg
  apply List.map_congr_left
  intro k _
  exact keyBucketValue_eq_listVal w input k b

/-- OPRF-padding dummies (fresh keys, zero payload) do not change any key-wise total. -/
theorem keySum_append_fresh (w : Widths) (input dummies : List Rec) (b : Nat)
    (hzero : ∀ r ∈ dummies, r.bk = 0 ∧ r.v = 0)
    (hfresh : ∀ r ∈ dummies, ∀ r' ∈ input, r'.key ≠ r.key) :
    keySum w (input ++ dummies) b = keySum w input b := by
  unfold keySum
  have hdisj : Disjoint (input.map (·.key)).toFinset (dummies.map (·.key)).toFinset := by
    rw [Finset.disjoint_left]
    intro k hk hk'
    simp only [List.mem_toFinset, List.mem_map] at hk hk'
    obtain ⟨r', hr', rfl⟩ := hk
    obtain ⟨r, hr, h⟩ := hk'
    exact hfresh r hr r' hr' h.symm
  rw [List.map_append, List.toFinset_append, Finset.sum_union hdisj]
  have happ : ∀ k, keyRows (input ++ dummies) k = keyRows input k ++ keyRows dummies k := by
    intro k; simp [keyRows]
  have hin : ∀ k ∈ (input.map (·.key)).toFinset,
      listVal w b (keyRows (input ++ dummies) k) = listVal w b (keyRows input k) := by
    intro k hk
    simp only [List.mem_toFinset, List.mem_map] at hk
    obtain ⟨r', hr', rfl⟩ := hk
    have hnil : keyRows dummies r'.key = [] := by
      simp only [keyRows, List.filter_eq_nil_iff, beq_iff_eq]
      intro r hr h
      exact hfresh r hr r' hr' h.symm
    rw [happ, hnil, List.append_nil]
  have hd : ∀ k ∈ (dummies.map (·.key)).toFinset, listVal w b (keyRows (input ++ dummies) k) = 0 := by
    intro k hk
    simp only [List.mem_toFinset, List.mem_map] at hk
    obtain ⟨r0, hr0, rfl⟩ := hk
    have hnil : keyRows input r0.key = [] := by
      simp only [keyRows, List.filter_eq_nil_iff, beq_iff_eq]
      intro r' hr' h
      exact hfresh r0 hr0 r' hr' h
    have hz1 : ((keyRows dummies r0.key).map (·.bk)).sum = 0 := by
      apply List.sum_eq_zero
      intro x hx
      simp only [keyRows, List.mem_map, List.mem_filter] at hx
      obtain ⟨r, ⟨hr, _⟩, rfl⟩ := hx
      exact (hzero r hr).1
    have hz2 : ((keyRows dummies r0.key).map (·.v)).sum = 0 := by
      apply List.sum_eq_zero
      intro x hx
      simp only [keyRows, List.mem_map, List.mem_filter] at hx
      obtain ⟨r, ⟨hr, _⟩, rfl⟩ := hx
      exact (hzero r hr).2
    rw [happ, hnil, List.nil_append, listVal_eq, hz1, hz2]
    simp only [Nat.zero_mod]
    by_cases h1 : (keyRows dummies r0.key).length = 2 <;> by_cases h2 : 0 = b <;> simp [h1, h2]
  rw [Finset.sum_congr rfl hin, Finset.sum_congr rfl hd]
  simp

/-- **C01, main theorem, relational form.** The two shuffles (with their DP padding) are arbitrary
relations: `afterShuffle1` is any assignment to ≥ 1 shards of any permutation of the input plus fresh
zero-payload dummies, `afterShuffle2` any assignment to shards of any permutation of the aggregated rows
of all shards plus zero-value dummies. The leader's histogram equals the in-the-clear specification. -/
theorem pipeline_eq_spec_rel (w : Widths) (chunk : Nat) (f : Nat → Nat)
    (input dummies1 : List Rec) (afterShuffle1 : List (List Rec))
    (afterShuffle2 : List (List Row)) (dummies2 : List Row)
    (hshards : 0 < afterShuffle1.length)
    (hsh1 : afterShuffle1.flatten.Perm (input ++ dummies1))
    (hzero : ∀ r ∈ dummies1, r.bk = 0 ∧ r.v = 0)
    (hfresh : ∀ r ∈ dummies1, ∀ r' ∈ input, r'.key ≠ r.key)
    (hf : ∀ r ∈ input ++ dummies1, ∀ r' ∈ input ++ dummies1, f r.key = f r'.key → r.key = r'.key)
    (hsh2 : afterShuffle2.flatten.Perm
      (((List.range afterShuffle1.length).map
        (fun d => aggregateReports w (reshardByPrf afterShuffle1.length f afterShuffle1 d))).flatten ++ dummies2))
    (hd2 : ∀ r ∈ dummies2, r.2 = 0) :
    finalize w (afterShuffle2.map (shardHistogram w chunk)) = spec w input := by
  unfold spec
  rw [finalize_shardHistograms]
  apply List.map_congr_left
  intro b _
  rw [specBucket_eq, bucketSum_perm hsh2 b, bucketSum_append, bucketSum_zero dummies2 hd2 b, Nat.add_zero,
    shardedSum w afterShuffle1.length hshards f afterShuffle1
      (fun r hr r' hr' => hf r (hsh1.mem_iff.mp hr) r' (hsh1.mem_iff.mp hr')) b,
    keySum_perm w b hsh1, keySum_append_fresh w input dummies1 b hzero hfresh]

/-- **C01, main theorem.** For every input, every number of shards ≥ 1 and assignment of records to
shards, both shuffles (arbitrary permutations across shards), any PRF injective on the match keys
present, any OPRF-padding dummies (fresh keys, zero payload) and aggregation-padding dummies (zero
value), the histogram computed by the pipeline equals the in-the-clear specification. -/
theorem pipeline_eq_spec (w : Widths) (chunk : Nat) (f : Nat → Nat)
    (input dummies1 : List Rec) (afterShuffle1 : List (List Rec))
    (shuffle2 : List (List Row) → List (List Row)) (dummies2 : List Row)
    (hshards : 0 < afterShuffle1.length)
    (hsh1 : afterShuffle1.flatten.Perm (input ++ dummies1))
    (hzero : ∀ r ∈ dummies1, r.bk = 0 ∧ r.v = 0)
    (hfresh : ∀ r ∈ dummies1, ∀ r' ∈ input, r'.key ≠ r.key)
    (hf : ∀ r ∈ input ++ dummies1, ∀ r' ∈ input ++ dummies1, f r.key = f r'.key → r.key = r'.key)
    (hsh2 : ∀ rows, (shuffle2 rows).flatten.Perm (rows.flatten ++ dummies2))
    (hd2 : ∀ r ∈ dummies2, r.2 = 0) :
    pipeline w chunk f afterShuffle1 shuffle2 = spec w input := by
  unfold pipeline
  exact pipeline_eq_spec_rel w chunk f input dummies1 afterShuffle1 _ dummies2 hshards hsh1 hzero hfresh hf
    (hsh2 _) hd2

/-- Corollary used by the driver: the canonical run (no dummies, identity shuffles, identity PRF) on
any assignment of the records to ≥ 1 shards equals the specification of the flattened input. -/
theorem run_eq_spec (w : Widths) (chunk : Nat) (shards : List (List Rec)) (h : 0 < shards.length) :
    run w chunk shards = spec w shards.flatten := by
  unfold run
  split
  · rename_i hempty
    have hnil : shards.flatten = [] := by simpa using hempty
    rw [hnil]
    have hz : ∀ b, specBucket w [] b = 0 := by
      intro b; simp [specBucket, dedupKeys]
    apply List.ext_getElem <;> simp [spec, hz]
  · exact pipeline_eq_spec w chunk id shards.flatten [] shards id [] h (by simp) (by simp) (by simp)
      (by intro r _ r' _ h; exact h) (by intro rows; simp) (by simp)

/-- Whenever the modelled query completes, its result is the specification. -/
theorem runOutcome_eq_spec (w : Widths) (chunk : Nat) (shards : List (List Rec)) (h : 0 < shards.length)
    (res : List Nat) (hres : runOutcome w chunk shards = some res) : res = spec w shards.flatten := by
  unfold runOutcome at hres
  split at hres
  · cases hres
  · cases hres; exact run_eq_spec w chunk shards h

/-- The full statement of C01 (every query completes with the specification) is FALSE of the code as it
is: known finding F8. With two shards and all reports on the first, the query never completes. -/
theorem runOutcome_noEmptyShard_counterexample :
    runOutcome { bkW := 8, vW := 3, hvW := 32, buckets := 256 } 8
      [[⟨1, 2, 0⟩, ⟨1, 0, 3⟩, ⟨2, 2, 0⟩, ⟨2, 0, 4⟩], []] = none := by
  decide

/-- `pipeline_eq_spec_partial`: the property restricted to executions in which no shard is left
without rows (hypothesis excluded by F8) — every such execution completes with the specification. -/
theorem pipeline_eq_spec_partial (w : Widths) (chunk : Nat) (shards : List (List Rec)) (h : 0 < shards.length)
    (hne : ∀ s ∈ shards, s ≠ []) : runOutcome w chunk shards = some (spec w shards.flatten) := by
  have : shards.any (·.isEmpty) = false := by
    simp only [List.any_eq_false, List.isEmpty_iff]
    intro s hs; exact hne s hs
  unfold runOutcome
  simp only [this, Bool.and_false, Bool.false_and, Bool.false_eq_true, ↓reduceIte]
  rw [run_eq_spec w chunk shards h]

/-- Non-vacuity: a 3-shard input with a duplicate conversion pair, a triple, a lone impression,
colliding breakdown sums and wrap-around satisfies the hypotheses, and the result is not all zero. -/
example :
    let w : Widths := { bkW := 8, vW := 3, hvW := 8, buckets := 4 }
    let shards : List (List Rec) := [[⟨1, 2, 0⟩, ⟨9, 0, 7⟩, ⟨5, 3, 0⟩], [⟨1, 0, 3⟩, ⟨9, 0, 7⟩, ⟨7, 1, 0⟩], [⟨7, 255, 0⟩, ⟨4, 1, 0⟩, ⟨7, 0, 1⟩, ⟨8, 2, 0⟩, ⟨8, 0, 5⟩]]
    (∀ s ∈ shards, s ≠ []) ∧ runOutcome w 2 shards = some [6, 0, 8, 0] := by
  decide

end IpaVerif.C01
