import IpaVerif.Model.Auth
/-!
# C20 — helper-to-helper and shard-to-shard endpoints refuse unauthenticated callers

Theorems about the route trees regenerated from `net/server/handlers/**` (with the position of the
`HelperAuthentication` layer), flattened by axum's rule, and about the identity-deriving layers that
`start_on` installs. Core Lean only.
-/
namespace IpaVerif.C20
open IpaVerif.Auth IpaVerif.Generated.Routes

/-- Can two templates match a common path? (conservative: `true` whenever they might) -/
def overlap : List Seg → List Seg → Bool
  | [], [] => true
  | [.wildcard], _ :: _ => true
  | _ :: _, [.wildcard] => true
  | .lit a :: s, .lit b :: t => a == b && overlap s t
  | .lit _ :: s, .param :: t => overlap s t
  | .param :: s, .lit _ :: t => overlap s t
  | .param :: s, .param :: t => overlap s t
  | _, _ => false

/-- **Path-matching lemma**: if one request path matches two templates, the templates overlap. -/
theorem overlap_of_match (p : List String) : ∀ (a b : List Seg),
    matchPath a p = true → matchPath b p = true → overlap a b = true := by
  induction p with
  | nil =>
    intro a b h1 h2
    cases a with
    | nil =>
      cases b with
      | nil => rfl
      | cons y ys => cases y <;> cases ys <;> simp [matchPath] at h2
    | cons x xs => cases x <;> cases xs <;> simp [matchPath] at h1
  | cons q qs ih =>
    intro a b h1 h2
    cases a with
    | nil => simp [matchPath] at h1
    | cons x xs =>
      cases b with
      | nil => simp [matchPath] at h2
      | cons y ys =>
        cases x <;> cases y <;> cases xs <;> cases ys <;>
          simp_all [matchPath, overlap] <;>
          (first
            | (apply ih <;> simp_all [matchPath])
            | (cases qs <;> simp_all [matchPath] <;>
                (rename_i hd tl; cases hd <;> cases tl <;> simp_all [matchPath]))
            | skip)

def hasAuth (f : Flavor) (e : Entry) : Bool := e.layers.any (· == .auth f)

/-- every entry of `table` that could serve a request of `prot` (same method, overlapping
template) carries the authentication layer of flavor `f` -/
def guarded (f : Flavor) (prot table : List Entry) : Bool :=
  prot.all fun pe => table.all fun e => !(e.method == pe.method && overlap pe.path e.path) || hasAuth f e

/-- General dispatch lemma: if every entry that can serve the request carries the auth layer and the
identity is missing, the answer is 401 — the handler is not invoked. -/
theorem respond_unauthorized (f : Flavor) (table : List Entry) (r : Req) (pe : Entry)
    (hg : (table.all fun e => !(e.method == pe.method && overlap pe.path e.path) || hasAuth f e) = true)
    (hin : pe ∈ table) (hm : matchPath pe.path r.path = true) (hmeth : pe.method = r.method)
    (hid : r.hasId f = false) : respond table r = .unauthorized := by
  unfold respond
  have hne : table.filter (fun e => matchPath e.path r.path) ≠ [] := by
    intro h
    have : pe ∈ table.filter (fun e => matchPath e.path r.path) := List.mem_filter.mpr ⟨hin, hm⟩
    rw [h] at this
    cases this
  cases hc : table.filter (fun e => matchPath e.path r.path) with
  | nil => exact absurd hc hne
  | cons c cs =>
    simp only
    have hpe : pe ∈ c :: cs := by rw [← hc]; exact List.mem_filter.mpr ⟨hin, hm⟩
    cases hf : (c :: cs).find? (fun e => e.method == r.method) with
    | none =>
      have := List.find?_eq_none.mp hf pe hpe
      simp [hmeth] at this
    | some e =>
      simp only
      have he_mem : e ∈ c :: cs := List.mem_of_find?_eq_some hf
      have he_meth : (e.method == r.method) = true := by
        have := List.find?_some hf
        simpa using this
      rw [← hc] at he_mem
      obtain ⟨he_tab, he_match⟩ := List.mem_filter.mp he_mem
      have hov := overlap_of_match r.path pe.path e.path hm he_match
      have hge := List.all_eq_true.mp hg e he_tab
      have hmm : (e.method == pe.method) = true := by rw [hmeth]; exact he_meth
      have hauth : hasAuth f e = true := by
        rw [hmm, hov] at hge
        simpa using hge
      have : blockedBy e.layers r = true := by
        unfold blockedBy
        unfold hasAuth at hauth
        obtain ⟨l, hl, hla⟩ := List.any_eq_true.mp hauth
        refine List.any_eq_true.mpr ⟨l, hl, ?_⟩
        have hl' : l = .auth f := by simpa using hla
        subst hl'
        simp [hid]
      simp [this]

/-- the h2h routes as mounted in the MPC server (`nest("/query", … h2h_router …)`) -/
def h2hMounted : List Entry := flatten (.nest .new [.lit "query"] h2hRouter)
def s2sMounted : List Entry := flatten (.nest .new [.lit "query"] s2sRouter)

theorem h2h_table_guarded : guarded .helper h2hMounted (flatten mpcRouter) = true := by decide
theorem s2s_table_guarded : guarded .shard s2sMounted (flatten shardRouter) = true := by decide
theorem h2h_mounted_sub : h2hMounted.all (fun e => (flatten mpcRouter).contains e) = true := by decide
theorem s2s_mounted_sub : s2sMounted.all (fun e => (flatten shardRouter).contains e) = true := by decide

/-- **h2h_s2s_require_identity**: for EVERY request (any query id, step, parameters — the body never
reaches the layer) whose path and method match a route of the regenerated `h2h_router`
(resp. `s2s_router`) table, if the request carries no `ClientIdentity` extension of that flavor the
MPC (resp. shard) server answers 401 and no handler runs. -/
theorem h2h_s2s_require_identity (r : Req) :
    (∀ pe ∈ h2hMounted, matchPath pe.path r.path = true → pe.method = r.method → r.helperId = false →
        respond (flatten mpcRouter) r = .unauthorized) ∧
    (∀ pe ∈ s2sMounted, matchPath pe.path r.path = true → pe.method = r.method → r.shardId = false →
        respond (flatten shardRouter) r = .unauthorized) := by
  refine ⟨?_, ?_⟩
  · intro pe hpe hm hmeth hid
    have hg := List.all_eq_true.mp h2h_table_guarded pe hpe
    have hin : pe ∈ flatten mpcRouter := by
      have := List.all_eq_true.mp h2h_mounted_sub pe hpe
      simpa using this
    exact respond_unauthorized .helper _ r pe hg hin hm hmeth (by simpa [Req.hasId] using hid)
  · intro pe hpe hm hmeth hid
    have hg := List.all_eq_true.mp s2s_table_guarded pe hpe
    have hin : pe ∈ flatten shardRouter := by
      have := List.all_eq_true.mp s2s_mounted_sub pe hpe
      simpa using this
    exact respond_unauthorized .shard _ r pe hg hin hm hmeth (by simpa [Req.hasId] using hid)

example : (⟨[.lit "query", .param, .lit "step", .wildcard], .post, "query::step::router:handler::<F>", [.auth .helper, .extension]⟩ : Entry) ∈ h2hMounted := by decide
example : respond (flatten mpcRouter) ⟨["query", "0", "step", "a", "b"], .post, false, true⟩ = .unauthorized := by decide

/-- **collector_routes_open**: no route of `query_router` (report-collector API), nor echo/metrics,
is behind an authentication layer in the MPC server; a request without any identity reaches the
handler. -/
theorem collector_routes_open :
    ((flatten queryRouter).all fun e => !hasAuth .helper e && !hasAuth .shard e) = true ∧
    ((flatten (.nest .new [.lit "query"] queryRouter)).all fun e => (flatten mpcRouter).contains e) = true ∧
    respond (flatten mpcRouter) ⟨["query", "0", "complete"], .get, false, false⟩
      = .handled "query::results::router:handler::<F>" ∧
    respond (flatten mpcRouter) ⟨["query", "0"], .get, false, false⟩ = .handled "query::status::router:handler" := by
  decide

/-- **no_route_outside_tables**: the MPC server serves exactly echo, metrics, the collector routes
and the authenticated h2h routes; the shard server exactly echo and the authenticated s2s routes;
and every route that is not echo/metrics/collector carries its authentication layer. (The translator
additionally checks that every `.route(` call under `net/server/handlers` is inside one of the
extracted router functions and that all of them are mounted.) -/
theorem no_route_outside_tables :
    flatten mpcRouter =
      flatten (.route .new [.lit "echo"] .get "echo::router:handler") ++
      (flatten (.route .new [.lit "metrics"] .get "metrics::router:handler")).map (fun e => { e with layers := [.extension] }) ++
      flatten (.nest .new [.lit "query"] queryRouter) ++ h2hMounted ∧
    flatten shardRouter = flatten (.route .new [.lit "echo"] .get "echo::router:handler") ++ s2sMounted ∧
    (h2hMounted.all (hasAuth .helper)) = true ∧ (s2sMounted.all (hasAuth .shard)) = true := by
  decide

/-- What the property demands of the arm `(disable_https, listener)` of `start_on`: the header
layer exactly when https is disabled, the certificate-recognising TLS acceptor exactly when enabled. -/
def wantedArm (d l : Bool) : StartArm :=
  { disableHttps := d, listener := l, headerLayer := d, tlsAcceptor := !d, recognised := true }

/-! One `decide` per regenerated arm of `start_on`, so that a broken arm is named by the failing
theorem (`listener = false` is the self-bound server: `start_on(.., None, ..)`, the helper binary's
default path, which no in-crate test executes). -/
theorem arm_tls_prebound : armFor false true = some (wantedArm false true) := by decide
theorem arm_tls_selfbound : armFor false false = some (wantedArm false false) := by decide
theorem arm_plain_prebound : armFor true true = some (wantedArm true true) := by decide
theorem arm_plain_selfbound : armFor true false = some (wantedArm true false) := by decide

theorem armFor_eq (d l : Bool) : armFor d l = some (wantedArm d l) := by
  cases d <;> cases l
  · exact arm_tls_selfbound
  · exact arm_tls_prebound
  · exact arm_plain_selfbound
  · exact arm_plain_prebound

/-- **header_only_without_tls** (the four regenerated arms of `start_on`, pre-bound and self-bound):
the header layer is installed exactly when https is disabled, and the certificate-recognising TLS
acceptor exactly when it is enabled; every arm was recognised by the translator. -/
theorem header_only_without_tls :
    startOnArms.length = 4 ∧
    (startOnArms.all fun a => a.recognised && a.headerLayer == a.disableHttps && a.tlsAcceptor == !a.disableHttps) = true ∧
    (∀ d l, armFor d l = some (wantedArm d l)) := by
  refine ⟨by decide, by decide, armFor_eq⟩

/-- **tls_ignores_header**: with `disable_https = false` — whether the listener is pre-bound or the
server binds itself — the identity extension is a function of the client certificate only: whatever
identity header the caller supplies (absent, malformed, or claiming any identity) has no effect; in
particular no certificate ⇒ no identity ⇒ 401 on every h2h/s2s route. -/
theorem tls_ignores_header {Ident : Type} (l : Bool) (a : StartArm) (ha : armFor false l = some a)
    (cert : Option Ident) (h h' : Option (Option Ident)) :
    deriveIdentity a ⟨cert, h⟩ = deriveIdentity a ⟨cert, h'⟩ ∧ deriveIdentity a ⟨cert, h⟩ = .ext cert := by
  rw [armFor_eq] at ha
  cases ha
  simp [deriveIdentity, wantedArm]

/-- Without TLS the identity is exactly what the header says (absent ⇒ none; malformed ⇒ the request
is rejected before routing); a certificate cannot exist on such a connection and is ignored. -/
theorem plain_identity_from_header {Ident : Type} (l : Bool) (a : StartArm) (ha : armFor true l = some a)
    (cert : Option Ident) (id : Ident) :
    deriveIdentity a ⟨cert, none⟩ = .ext none ∧
    deriveIdentity a ⟨cert, some none⟩ = .rejected ∧
    deriveIdentity a ⟨cert, some (some id)⟩ = .ext (some id) := by
  rw [armFor_eq] at ha
  cases ha
  simp [deriveIdentity, wantedArm]

example : armFor false true = some ⟨false, true, false, true, true⟩ := by decide

/-! ## Whole connections (`serve`): every arm, every request -/

/-- **tls_setup_ok** (regenerated from `rustls_config`): the client verifier's trust anchors are
exactly the peers' certificates, client authentication is optional (report collectors have no
certificate) and the verifier is installed in the rustls server config. -/
theorem tls_setup_ok :
    tlsSetup = { anchorsFromPeers := true, clientAuthOptional := true, verifierInstalled := true, recognised := true } := by
  decide

/-- **live_tls_ignores_header**: over a server started with https enabled (either arm), the answer to
ANY request (any route table, path, method, certificate, client protocol) is the same whatever the
identity header. -/
theorem live_tls_ignores_header {Ident : Type} (l : Bool) (a : StartArm) (ha : armFor false l = some a)
    (f : Flavor) (routes : List Entry) (tls : Bool) (cert : ClientCert Ident)
    (h h' : Option (Option Ident)) (path : List String) (m : Method) :
    serve f routes a ⟨tls, cert, h⟩ path m = serve f routes a ⟨tls, cert, h'⟩ path m := by
  rw [armFor_eq] at ha
  cases ha
  simp [serve, serveWith, deriveIdentity, wantedArm]

/-- **live_requires_verified_identity**: on a server started through ANY of the four arms, a request
matching a route of `h2h_router` (MPC server) / `s2s_router` (shard server) from a client that
presents no certificate of a configured peer (https) resp. no identity header (plain http) gets no
answer other than 401 (or no HTTP answer at all). -/
theorem live_requires_verified_identity {Ident : Type} (d l : Bool) (a : StartArm) (ha : armFor d l = some a)
    (tls : Bool) (cert : ClientCert Ident) (h : Option (Option Ident)) (path : List String) (m : Method)
    (hno : if d then h = none else cert.identity = none) :
    (∀ pe ∈ h2hMounted, matchPath pe.path path = true → pe.method = m →
        serve .helper (flatten mpcRouter) a ⟨tls, cert, h⟩ path m = .connErr ∨
        serve .helper (flatten mpcRouter) a ⟨tls, cert, h⟩ path m = .resp .unauthorized) ∧
    (∀ pe ∈ s2sMounted, matchPath pe.path path = true → pe.method = m →
        serve .shard (flatten shardRouter) a ⟨tls, cert, h⟩ path m = .connErr ∨
        serve .shard (flatten shardRouter) a ⟨tls, cert, h⟩ path m = .resp .unauthorized) := by
  rw [armFor_eq] at ha
  cases ha
  have key : ∀ (f : Flavor) (routes : List Entry),
      serve f routes (wantedArm d l) ⟨tls, cert, h⟩ path m = .connErr ∨
      serve f routes (wantedArm d l) ⟨tls, cert, h⟩ path m
        = .resp (respond routes ⟨path, m, false, false⟩) := by
    intro f routes
    cases d
    · -- https: the header layer is absent, the identity is the certificate's
      simp only [Bool.false_eq_true, if_false] at hno
      cases tls <;> cases cert <;> simp_all [serve, serveWith, handshake, tls_setup_ok, deriveIdentity, wantedArm, ClientCert.identity]
    · -- plain http: no certificate is looked at, the header is absent
      simp only [if_true] at hno
      subst hno
      cases tls <;> simp [serve, serveWith, deriveIdentity, wantedArm]
  refine ⟨?_, ?_⟩
  · intro pe hpe hm hmeth
    rcases key .helper (flatten mpcRouter) with hk | hk
    · exact Or.inl hk
    · refine Or.inr ?_
      rw [hk]
      exact congrArg _ ((h2h_s2s_require_identity ⟨path, m, false, false⟩).1 pe hpe hm hmeth rfl)
  · intro pe hpe hm hmeth
    rcases key .shard (flatten shardRouter) with hk | hk
    · exact Or.inl hk
    · refine Or.inr ?_
      rw [hk]
      exact congrArg _ ((h2h_s2s_require_identity ⟨path, m, false, false⟩).2 pe hpe hm hmeth rfl)

/-- the hypotheses are satisfiable and the conclusion is not vacuous: the mutation tester's request
(https, self-bound, no certificate, header claiming helper 1, the step route) is answered 401 -/
example : serve .helper (flatten mpcRouter) (wantedArm false false) ⟨true, .none, some (some 1)⟩
    ["query", "0", "step", "protocol", "alpha"] .post = .resp .unauthorized := by decide

/-! ## Report-collector routes stay reachable: every request, every arm -/

def noAuth (e : Entry) : Bool := !hasAuth .helper e && !hasAuth .shard e

theorem not_blocked_of_noAuth (e : Entry) (r : Req) (h : noAuth e = true) : blockedBy e.layers r = false := by
  unfold noAuth hasAuth at h
  unfold blockedBy
  rw [List.any_eq_false]
  intro l hl
  cases l with
  | extension => simp
  | auth f =>
    exfalso
    cases f
    · have : (e.layers.any fun x => x == Layer.auth Flavor.helper) = true :=
        List.any_eq_true.mpr ⟨_, hl, by simp⟩
      simp [this] at h
    · have : (e.layers.any fun x => x == Layer.auth Flavor.shard) = true :=
        List.any_eq_true.mpr ⟨_, hl, by simp⟩
      simp [this] at h

/-- Dispatch lemma, open side: if every entry that can serve the request carries no authentication
layer, the request reaches a handler whatever identity it carries. -/
theorem respond_open (table : List Entry) (r : Req) (pe : Entry)
    (hg : (table.all fun e => !(e.method == pe.method && overlap pe.path e.path) || noAuth e) = true)
    (hin : pe ∈ table) (hm : matchPath pe.path r.path = true) (hmeth : pe.method = r.method) :
    ∃ h, respond table r = .handled h := by
  unfold respond
  cases hc : table.filter (fun e => matchPath e.path r.path) with
  | nil =>
    have : pe ∈ table.filter (fun e => matchPath e.path r.path) := List.mem_filter.mpr ⟨hin, hm⟩
    rw [hc] at this
    cases this
  | cons c cs =>
    simp only
    have hpe : pe ∈ c :: cs := by rw [← hc]; exact List.mem_filter.mpr ⟨hin, hm⟩
    cases hf : (c :: cs).find? (fun e => e.method == r.method) with
    | none =>
      have := List.find?_eq_none.mp hf pe hpe
      simp [hmeth] at this
    | some e =>
      simp only
      have he_mem : e ∈ c :: cs := List.mem_of_find?_eq_some hf
      have he_meth : (e.method == r.method) = true := by
        have := List.find?_some hf
        simpa using this
      rw [← hc] at he_mem
      obtain ⟨he_tab, he_match⟩ := List.mem_filter.mp he_mem
      have hov := overlap_of_match r.path pe.path e.path hm he_match
      have hge := List.all_eq_true.mp hg e he_tab
      have hmm : (e.method == pe.method) = true := by rw [hmeth]; exact he_meth
      have hno : noAuth e = true := by
        rw [hmm, hov] at hge
        simpa using hge
      exact ⟨e.handler, by simp [not_blocked_of_noAuth e r hno]⟩

/-- the report-collector API as mounted in the MPC server, plus echo and metrics -/
def collectorMounted : List Entry :=
  flatten (.nest .new [.lit "query"] queryRouter) ++
  flatten (.route .new [.lit "echo"] .get "echo::router:handler") ++
  (flatten (.route .new [.lit "metrics"] .get "metrics::router:handler")).map (fun e => { e with layers := [.extension] })

theorem collector_table_open :
    (collectorMounted.all fun pe => (flatten mpcRouter).all fun e =>
      !(e.method == pe.method && overlap pe.path e.path) || noAuth e) = true ∧
    (collectorMounted.all fun e => (flatten mpcRouter).contains e) = true := by decide

/-- **live_collector_reachable**: on an MPC server started through ANY of the four arms, a client
that speaks the server's protocol and has neither certificate nor identity header — a report
collector — reaches the handler of every report-collector route (any query id / parameters). -/
theorem live_collector_reachable {Ident : Type} (d l : Bool) (a : StartArm) (ha : armFor d l = some a)
    (path : List String) (m : Method) :
    ∀ pe ∈ collectorMounted, matchPath pe.path path = true → pe.method = m →
      ∃ h, serve (Ident := Ident) .helper (flatten mpcRouter) a ⟨!d, .none, none⟩ path m = .resp (.handled h) := by
  intro pe hpe hm hmeth
  rw [armFor_eq] at ha
  cases ha
  have hs : serve (Ident := Ident) .helper (flatten mpcRouter) (wantedArm d l) ⟨!d, .none, none⟩ path m
      = .resp (respond (flatten mpcRouter) ⟨path, m, false, false⟩) := by
    cases d <;> simp [serve, serveWith, handshake, tls_setup_ok, deriveIdentity, wantedArm]
  have hg := List.all_eq_true.mp collector_table_open.1 pe hpe
  have hin : pe ∈ flatten mpcRouter := by
    have := List.all_eq_true.mp collector_table_open.2 pe hpe
    simpa using this
  obtain ⟨h, hh⟩ := respond_open (flatten mpcRouter) ⟨path, m, false, false⟩ pe hg hin hm hmeth
  exact ⟨h, by rw [hs, hh]⟩

example : (⟨[.lit "query", .param, .lit "complete"], .get, "query::results::router:handler::<F>", [.extension]⟩ : Entry) ∈ collectorMounted := by decide

end IpaVerif.C20
