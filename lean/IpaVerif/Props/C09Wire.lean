import IpaVerif.Proofs.C09Serde
import IpaVerif.Model.ReportPack
import IpaVerif.Generated.C09Wire
import IpaVerif.Generated.PrimeFields
/-!
# C09, part 3 — composite wire types, field packing, report plaintext layouts

* the proof / hash arrays, `ProofDiff`, `UniqueTag`, `PrfHybridReport<BA8, BA3>` are type expressions of
  `Ty` (arrays, pairs, raw byte strings): the four laws are instances of `lawful_codecOf`;
* `pack_roundtrip`: `split_fields ∘ join_fields = id` for every list of field widths (and the converse
  modulo the share width), which is `Shuffleable::new(x.left(), x.right()) = x`;
* `Hybrid*Info::to_bytes / from_bytes` round-trip and accept only what `to_bytes` produces.
-/
namespace IpaVerif.C09
open IpaVerif.Util IpaVerif.Serde IpaVerif.ReportPack IpaVerif.Generated.Wire

def rawTy (bytes : Nat) : Ty := .bits { name := "raw", bits := 8 * bytes, bytes := bytes, fallible := false }

theorem rawTy_wf (n : Nat) : (rawTy n).WF := ⟨Nat.le_refl _, fun _ => rfl⟩

/-- `[Hash; MAX_PROOF_RECURSION]`, `ProofDiff`, `Box<Array>`, `UniqueTag`, `PrfHybridReport<BA8, BA3>` -/
def hashArrTy : Ty := .arr maxProofRecursion (rawTy 32)
def proofDiffTy : Ty := .arr (maxProofRecursion + 1) (.prime IpaVerif.Generated.fp61)
def proofArrTy : Ty := .arr proofArrayLen (.prime IpaVerif.Generated.fp61)
def uniqueTagTy : Ty := rawTy uniqueTagBytes
def prfTy : Ty :=
  .pair (rawTy prfMatchKeyBytes)
    (.pair (.share (.bits { name := "BA3", bits := 3, bytes := 1, fallible := true }))
      (.share (.bits { name := "BA8", bits := 8, bytes := 1, fallible := false })))

theorem composite_wf : hashArrTy.WF ∧ proofDiffTy.WF ∧ proofArrTy.WF ∧ uniqueTagTy.WF ∧ prfTy.WF := by
  refine ⟨rawTy_wf _, ?_, ?_, rawTy_wf _, rawTy_wf _, ?_, ?_⟩
  · simp [proofDiffTy, Ty.WF, IpaVerif.Generated.fp61]
  · simp [proofArrTy, Ty.WF, IpaVerif.Generated.fp61]
  · simp [Ty.WF, BitTy.WF]
  · simp [Ty.WF, BitTy.WF]

/-- All four laws for every composite wire type (round trip, length, only canonical accepted, total). -/
theorem composite_lawful :
    Lawful (codecOf hashArrTy) ∧ Lawful (codecOf proofDiffTy) ∧ Lawful (codecOf proofArrTy) ∧
      Lawful (codecOf uniqueTagTy) ∧ Lawful (codecOf prfTy) :=
  ⟨lawful_codecOf _ composite_wf.1, lawful_codecOf _ composite_wf.2.1, lawful_codecOf _ composite_wf.2.2.1,
    lawful_codecOf _ composite_wf.2.2.2.1, lawful_codecOf _ composite_wf.2.2.2.2⟩

/-- the advertised sizes (`U448`, `U120`, `U<ARRAY_LEN>·8`, `U16`, `U12`) are the sizes of the codecs -/
theorem composite_sizes :
    (codecOf hashArrTy).size = hashArrayBytes ∧ (codecOf proofDiffTy).size = proofDiffBytes ∧
      (codecOf proofArrTy).size = 8 * proofArrayLen ∧ (codecOf uniqueTagTy).size = uniqueTagBytes ∧
      (codecOf prfTy).size = prfReportBytes := by decide

/-- `Vec<T>::to_bytes` has length `len · T::Size` and decodes back row by row. -/
theorem vec_to_bytes_roundtrip (t : Ty) (h : t.WF) (rows : List t.Val) (hc : ∀ v ∈ rows, (codecOf t).canon v) :
    (encAll (codecOf t) rows).length = (codecOf t).size * rows.length ∧
      decAll (codecOf t) rows.length (encAll (codecOf t) rows) = .ok rows :=
  ⟨(encAll_length (lawful_codecOf t h) rows hc).1, decAll_encAll (lawful_codecOf t h) rows hc⟩

/-! ### field packing -/

theorem split_join (fs : List (Nat × Nat)) :
    splitFields (fs.map (·.1)) (joinFields fs) = fs.map (fun f => f.2 % 2 ^ f.1) := by
  induction fs with
  | nil => rfl
  | cons f fs ih =>
    obtain ⟨w, v⟩ := f
    have hpos : 0 < 2 ^ w := Nat.two_pow_pos w
    have h1 : (v % 2 ^ w + 2 ^ w * joinFields fs) % 2 ^ w = v % 2 ^ w := by
      rw [Nat.add_mul_mod_self_left, Nat.mod_mod]
    have h2 : (v % 2 ^ w + 2 ^ w * joinFields fs) / 2 ^ w = joinFields fs := by
      rw [Nat.add_mul_div_left _ _ hpos, Nat.div_eq_of_lt (Nat.mod_lt _ hpos), Nat.zero_add]
    simp only [List.map_cons, joinFields, splitFields, h1, h2, ih]

/-- **pack_roundtrip**: reading back the fields written by `join_fields` returns them, for every list
of field widths and all field values that fit their width. -/
theorem pack_roundtrip (fs : List (Nat × Nat)) (h : ∀ f ∈ fs, f.2 < 2 ^ f.1) :
    splitFields (fs.map (·.1)) (joinFields fs) = fs.map (·.2) := by
  rw [split_join]
  apply List.map_congr_left
  intro f hf
  exact Nat.mod_eq_of_lt (h f hf)

/-- the packed share uses exactly the bits of the fields -/
theorem join_lt (fs : List (Nat × Nat)) : joinFields fs < 2 ^ (fs.map (·.1)).sum := by
  induction fs with
  | nil => simp [joinFields]
  | cons f fs ih =>
    obtain ⟨w, v⟩ := f
    have hpos : 0 < 2 ^ w := Nat.two_pow_pos w
    have hv : v % 2 ^ w < 2 ^ w := Nat.mod_lt _ hpos
    simp only [joinFields, List.map_cons, List.sum_cons, Nat.pow_add]
    have : 2 ^ w * joinFields fs + 2 ^ w ≤ 2 ^ w * 2 ^ (fs.map (·.1)).sum := by
      rw [← Nat.mul_succ]; exact Nat.mul_le_mul_left _ ih
    omega

/-- conversely, re-packing the fields read from a share returns the share (modulo its used width):
`Shuffleable::new` followed by `left()` loses nothing below `Σ widths`. -/
theorem join_split (ws : List Nat) (x : Nat) :
    joinFields (ws.zip (splitFields ws x)) = x % 2 ^ ws.sum := by
  induction ws generalizing x with
  | nil => simp [joinFields, splitFields, Nat.mod_one]
  | cons w ws ih =>
    simp only [splitFields, List.zip_cons_cons, joinFields, ih, Nat.mod_mod, List.sum_cons]
    rw [Nat.pow_add, Nat.mod_mul]

example : ∀ f ∈ [(64, 5), (3, 7), (8, 255)], f.2 < 2 ^ f.1 := by decide

/-! ### Hybrid*Info -/

theorem impInfo_roundtrip (k : Nat) : impInfoDec (impInfoEnc k) = .ok k := rfl

theorem impInfo_canonical (bs : List Nat) (k : Nat) (h : impInfoDec bs = .ok k) : impInfoEnc k = bs := by
  match bs, h with
  | [x], h => simp only [impInfoDec] at h; cases h; rfl

theorem splitNul_append (d t : List Nat) (hd : ∀ b ∈ d, b ≠ 0) : splitNul (d ++ 0 :: t) = some (d, t) := by
  induction d with
  | nil => simp [splitNul]
  | cons b d ih =>
    have hb : b ≠ 0 := hd b (by simp)
    simp [splitNul, hb, ih (fun x hx => hd x (by simp [hx]))]

theorem splitNul_some (bs d t : List Nat) (h : splitNul bs = some (d, t)) : bs = d ++ 0 :: t ∧ ∀ b ∈ d, b ≠ 0 := by
  induction bs generalizing d with
  | nil => simp [splitNul] at h
  | cons b bs ih =>
    simp only [splitNul] at h
    split at h
    · rename_i hb
      cases h
      exact ⟨by simp [hb], by simp⟩
    · rename_i hb
      cases hs : splitNul bs with
      | none => simp [hs] at h
      | some p =>
        obtain ⟨d', t'⟩ := p
        simp only [hs, Option.some.injEq, Prod.mk.injEq] at h
        obtain ⟨rfl, rfl⟩ := h
        obtain ⟨e, hn⟩ := ih d' hs
        refine ⟨by rw [e]; rfl, ?_⟩
        intro x hx
        rcases List.mem_cons.1 hx with rfl | hx
        · exact hb
        · exact hn x hx

theorem ofBe_beBytes (v n : Nat) : ofBeBytes (beBytes v n) = v % 256 ^ n := by
  simp [ofBeBytes, beBytes, ofLeBytes_leBytes]

theorem beBytes_ofBe (bs : List Nat) (hb : Bytes bs) : beBytes (ofBeBytes bs) bs.length = bs := by
  have hr : Bytes bs.reverse := fun x hx => hb x (List.mem_reverse.1 hx)
  have := leBytes_ofLeBytes bs.reverse hr
  simp only [List.length_reverse] at this
  simp [ofBeBytes, beBytes, this]

/-- canonical values of `HybridConversionInfo`: fields within their integer widths, the site domain
valid UTF-8 without NUL (the delimiter). -/
def _root_.IpaVerif.ReportPack.ConvInfo.Canon (c : ConvInfo) : Prop :=
  c.keyId < 256 ∧ c.timestamp < 256 ^ 8 ∧ c.epsilon < 256 ^ 8 ∧ c.sensitivity < 256 ^ 8 ∧
    utf8Valid c.domain = true ∧ ∀ b ∈ c.domain, b ≠ 0

theorem convInfo_length (c : ConvInfo) : (convInfoEnc c).length = c.domain.length + 1 + 1 + 8 + 8 + 8 := by
  simp [convInfoEnc, beBytes, leBytes_length]

/-- `from_bytes (to_bytes c) = c` for every canonical `HybridConversionInfo`. -/
theorem convInfo_roundtrip (c : ConvInfo) (h : c.Canon) : convInfoDec (convInfoEnc c) = .ok c := by
  obtain ⟨hk, ht, he, hs, hu, hn⟩ := h
  have henc : convInfoEnc c = c.domain ++ 0 :: ([c.keyId] ++ beBytes c.timestamp 8 ++ beBytes c.epsilon 8 ++ beBytes c.sensitivity 8) := by
    simp [convInfoEnc]
  have l8 : ∀ v, (beBytes v 8).length = 8 := fun v => by simp [beBytes, leBytes_length]
  rw [convInfoDec, henc, splitNul_append _ _ hn]
  simp only [hu, Bool.not_true, Bool.false_eq_true, if_false]
  have hlen : ([c.keyId] ++ beBytes c.timestamp 8 ++ beBytes c.epsilon 8 ++ beBytes c.sensitivity 8).length = 25 := by
    simp [l8]
  simp only [hlen, ne_eq, not_true_eq_false, if_false]
  have d1 : (([c.keyId] ++ beBytes c.timestamp 8 ++ beBytes c.epsilon 8 ++ beBytes c.sensitivity 8).drop 1).take 8 = beBytes c.timestamp 8 := by
    simp [List.append_assoc, l8]
  have d9 : (([c.keyId] ++ beBytes c.timestamp 8 ++ beBytes c.epsilon 8 ++ beBytes c.sensitivity 8).drop 9).take 8 = beBytes c.epsilon 8 := by
    have : [c.keyId] ++ beBytes c.timestamp 8 ++ beBytes c.epsilon 8 ++ beBytes c.sensitivity 8
        = ([c.keyId] ++ beBytes c.timestamp 8) ++ (beBytes c.epsilon 8 ++ beBytes c.sensitivity 8) := by simp
    rw [this, List.drop_left' (by simp [l8])]
    simp [l8]
  have d17 : (([c.keyId] ++ beBytes c.timestamp 8 ++ beBytes c.epsilon 8 ++ beBytes c.sensitivity 8).drop 17).take 8 = beBytes c.sensitivity 8 := by
    rw [List.drop_left' (by simp [l8])]
    have := l8 c.sensitivity
    rw [← this]; exact List.take_length
  rw [d1, d9, d17, ofBe_beBytes, ofBe_beBytes, ofBe_beBytes, Nat.mod_eq_of_lt ht, Nat.mod_eq_of_lt he, Nat.mod_eq_of_lt hs]
  simp

theorem tail25 (t : List Nat) (h : t.length = 25) :
    t = [t.getD 0 0] ++ (t.drop 1).take 8 ++ (t.drop 9).take 8 ++ (t.drop 17).take 8 := by
  have e17 : (t.drop 17).take 8 = t.drop 17 := by
    apply List.take_of_length_le; simp [h]
  have e9 : t.drop 9 = (t.drop 9).take 8 ++ t.drop 17 := by
    have := (List.take_append_drop 8 (t.drop 9)).symm
    simpa [List.drop_drop] using this
  have e1 : t.drop 1 = (t.drop 1).take 8 ++ t.drop 9 := by
    have := (List.take_append_drop 8 (t.drop 1)).symm
    simpa [List.drop_drop] using this
  have e0 : t = [t.getD 0 0] ++ t.drop 1 := by
    match t, h with
    | x :: xs, _ => simp
  rw [e17]
  conv => lhs; rw [e0, e1, e9]
  simp [List.append_assoc]

/-- `from_bytes` accepts a byte string only if it is exactly what `to_bytes` produces for the decoded
value (no trailing bytes, no truncation), and the decoded value is canonical. -/
theorem convInfo_canonical (bs : List Nat) (c : ConvInfo) (hb : Bytes bs) (h : convInfoDec bs = .ok c) :
    convInfoEnc c = bs ∧ c.Canon := by
  unfold convInfoDec at h
  cases hs : splitNul bs with
  | none => simp [hs] at h
  | some p =>
    obtain ⟨d, t⟩ := p
    obtain ⟨ebs, hn⟩ := splitNul_some bs d t hs
    simp only [hs] at h
    split at h
    · cases h
    · rename_i hu
      split at h
      · cases h
      · rename_i hl
        have hl : t.length = 25 := by simpa using hl
        have hu : utf8Valid d = true := by simpa using hu
        cases h
        have hbt : Bytes t := fun x hx => hb x (by rw [ebs]; simp [hx])
        have bsub : ∀ a, Bytes ((t.drop a).take 8) := fun a x hx =>
          hbt x (List.mem_of_mem_drop (List.mem_of_mem_take hx))
        have l1 : ((t.drop 1).take 8).length = 8 := by simp [hl]
        have l9 : ((t.drop 9).take 8).length = 8 := by simp [hl]
        have l17 : ((t.drop 17).take 8).length = 8 := by simp [hl]
        have b1 := beBytes_ofBe _ (bsub 1); rw [l1] at b1
        have b9 := beBytes_ofBe _ (bsub 9); rw [l9] at b9
        have b17 := beBytes_ofBe _ (bsub 17); rw [l17] at b17
        have lt8 : ∀ a, ((t.drop a).take 8).length = 8 → ofBeBytes ((t.drop a).take 8) < 256 ^ 8 := by
          intro a hla
          have hr : Bytes ((t.drop a).take 8).reverse := fun x hx => bsub a x (List.mem_reverse.1 hx)
          have := ofLeBytes_lt _ hr
          simpa [ofBeBytes, hla] using this
        have hk : t.getD 0 0 < 256 := by
          match t, hl with
          | x :: xs, _ => simpa using hbt x (by simp)
        refine ⟨?_, hk, lt8 1 l1, lt8 9 l9, lt8 17 l17, hu, hn⟩
        simp only [convInfoEnc, b1, b9, b17]
        rw [ebs]
        conv => rhs; rw [tail25 t hl]
        simp [List.append_assoc]

end IpaVerif.C09
