import IpaVerif.Props.C01
import IpaVerif.Proofs.C01BitsAgg
/-!
# C01 at the share level — `pipeline_eq_spec_shares`

Composition of C01's value-level theorem with C07's circuit theorems. The secure-computation stages of
`hybrid_protocol` run on replicated Boolean shares (`Model/HybridShares.lean`, circuits of
`Model/Circuits.lean` over `shareAlg ρ` for arbitrary PRSS masks `ρ`):

* `addPair_bits`    — the two `integer_add`s of `aggregate_reports` (carry dropped) reconstruct to
                      `Hybrid.addPair` (`(a + b) % 2^w`), outputs consistent, widths preserved;
* `aggTree_bits`    — `aggregate_values` reconstructs to `Hybrid.aggTree` = `min (Σ) (2^w − 1)`;
* `sChunkedAgg_bits`, `sShardHistogram_rec`, `sFinalize_rec`, `sHead_rec` — the stage compositions.

What is modelled at the reconstructed level (and said so in the statement): the PRF pseudonym of a record
(`key`, revealed by the protocol; injectivity on the keys present is the hypothesis `hf` as in
`pipeline_eq_spec`), the opened breakdown key (`reveal = recBits`: a reveal returns the reconstruction,
C04/C07), and the two shuffles with their DP padding, which are arbitrary *relations*: any re-sharing
(arbitrary fresh, consistent shares of the right widths) of any permutation of the reconstructed records
plus dummies.
-/
namespace IpaVerif.C01
open IpaVerif.Sharing IpaVerif.Circuits IpaVerif.Hybrid IpaVerif.HybridShares IpaVerif.C07

/-- **second half of the pipeline on shares**: reveal + `ValueHistogram` + chunked trees per shard, then
the cross-shard finalize. -/
theorem sTail_rec (ρ : Path → Masks Bool) (p : Path) (W : Widths) (hW : W.vW ≤ W.hvW) (chunk : Nat)
    (afterShuffle2 : List (List (SRow SW))) (hne : afterShuffle2 ≠ [])
    (hg : ∀ s ∈ afterShuffle2, ∀ r ∈ s, GoodRow W r) :
    GoodHist W (sTail (shareAlg ρ) recBits p W chunk afterShuffle2) ∧
    (sTail (shareAlg ρ) recBits p W chunk afterShuffle2).map recBits
      = finalize W ((afterShuffle2.map (List.map recRow)).map (shardHistogram W chunk)) := by
  have hgood : ∀ h ∈ List.zipWith (fun d rows => sShardHistogram (shareAlg ρ) recBits (p ++ [d]) W chunk rows)
      (List.range afterShuffle2.length) afterShuffle2, GoodHist W h :=
    zipWith_idx_all _ (fun h : List (List SW) => GoodHist W h) _ _ (fun d rows hr =>
      ⟨(sShardHistogram_rec ρ (p ++ [d]) W hW chunk rows (hg rows hr)).2.1,
       (sShardHistogram_rec ρ (p ++ [d]) W hW chunk rows (hg rows hr)).1⟩)
  have hmap : (List.zipWith (fun d rows => sShardHistogram (shareAlg ρ) recBits (p ++ [d]) W chunk rows)
      (List.range afterShuffle2.length) afterShuffle2).map (List.map recBits)
      = afterShuffle2.map (fun rows => shardHistogram W chunk (rows.map recRow)) :=
    zipWith_idx_map _ _ _ _ _ (by simp) (fun d rows hr =>
      (sShardHistogram_rec ρ (p ++ [d]) W hW chunk rows (hg rows hr)).2.2)
  have hne' : List.zipWith (fun d rows => sShardHistogram (shareAlg ρ) recBits (p ++ [d]) W chunk rows)
      (List.range afterShuffle2.length) afterShuffle2 ≠ [] := by
    intro h
    rw [h] at hmap
    simp only [List.map_nil] at hmap
    exact hne (List.map_eq_nil_iff.mp hmap.symm)
  obtain ⟨r1, r2⟩ := sFinalize_rec ρ (p ++ [stepFinalize]) W _ hne' hgood
  refine ⟨r1, ?_⟩
  unfold sTail
  rw [r2, hmap, List.map_map]
  rfl

/-- **C01 on shares.** For every input, every number of shards ≥ 1, every PRSS mask family `ρ`, every
outcome of the two shuffles/paddings (any consistent re-sharing, with the right bit widths, of any
permutation across shards of the reconstructed records plus fresh zero-payload dummies, resp. of the
aggregated rows plus zero-value dummies), any PRF injective on the keys present: the shares of the
histogram that the leader shard outputs are consistent replicated sharings of `HV::BITS` bits per bucket
and **reconstruct to the in-the-clear specification of the input**. -/
theorem pipeline_eq_spec_shares (W : Widths) (hW : W.vW ≤ W.hvW) (chunk : Nat) (f : Nat → Nat)
    (ρ : Path → Masks Bool) (p1 p2 : Path)
    (input dummies1 : List Rec) (afterShuffle1 : List (List (SRec SW)))
    (afterShuffle2 : List (List (SRow SW))) (dummies2 : List Row)
    (hshards : 0 < afterShuffle1.length) (hshards2 : afterShuffle2 ≠ [])
    (hg1 : ∀ s ∈ afterShuffle1, ∀ r ∈ s, GoodRec W r)
    (hsh1 : (afterShuffle1.flatten.map recRec).Perm (input ++ dummies1))
    (hzero : ∀ r ∈ dummies1, r.bk = 0 ∧ r.v = 0)
    (hfresh : ∀ r ∈ dummies1, ∀ r' ∈ input, r'.key ≠ r.key)
    (hf : ∀ r ∈ input ++ dummies1, ∀ r' ∈ input ++ dummies1, f r.key = f r'.key → r.key = r'.key)
    (hg2 : ∀ s ∈ afterShuffle2, ∀ r ∈ s, GoodRow W r)
    (hsh2 : (afterShuffle2.flatten.map recRow).Perm
      ((sHead (shareAlg ρ) p1 f afterShuffle1).flatten.map recRow ++ dummies2))
    (hd2 : ∀ r ∈ dummies2, r.2 = 0) :
    (sTail (shareAlg ρ) recBits p2 W chunk afterShuffle2).map recBits = spec W input ∧
    GoodHist W (sTail (shareAlg ρ) recBits p2 W chunk afterShuffle2) := by
  obtain ⟨t1, t2⟩ := sTail_rec ρ p2 W hW chunk afterShuffle2 hshards2 hg2
  obtain ⟨_, h2⟩ := sHead_rec ρ p1 W f afterShuffle1 hg1
  refine ⟨?_, t1⟩
  rw [t2]
  apply pipeline_eq_spec_rel W chunk f input dummies1 (afterShuffle1.map (List.map recRec))
    (afterShuffle2.map (List.map recRow)) dummies2
  · simpa using hshards
  · rw [← List.map_flatten]; exact hsh1
  · exact hzero
  · exact hfresh
  · exact hf
  · rw [← List.map_flatten, List.length_map, ← h2, ← List.map_flatten]
    exact hsh2
  · exact hd2

/-- the output sharing is consistent: helper `i`'s right component is helper `i+1`'s left component, for
every bit of every bucket (what `reconstruct` asserts in the test fixture). -/
theorem pipeline_shares_consistent (W : Widths) (h : List (List SW)) (hg : GoodHist W h) :
    h.length = W.buckets ∧ ∀ x ∈ h, x.length = W.hvW ∧ ∀ s ∈ x, Consistent s :=
  ⟨hg.1, fun x hx => ⟨(hg.2 x hx).2, (hg.2 x hx).1⟩⟩

/-- Corollary / joint satisfiability of the hypotheses: the canonical run on shares (identity shuffles,
identity PRF, no dummies) of ANY consistent, width-correct sharing of any records on ≥ 1 shards
reconstructs to the specification of the reconstructed records. -/
theorem run_shares_eq_spec (W : Widths) (hW : W.vW ≤ W.hvW) (chunk : Nat) (ρ : Path → Masks Bool) (p1 p2 : Path)
    (shards : List (List (SRec SW))) (h : 0 < shards.length) (hg : ∀ s ∈ shards, ∀ r ∈ s, GoodRec W r) :
    (sTail (shareAlg ρ) recBits p2 W chunk (sHead (shareAlg ρ) p1 id shards)).map recBits
      = spec W (shards.flatten.map recRec) ∧
    GoodHist W (sTail (shareAlg ρ) recBits p2 W chunk (sHead (shareAlg ρ) p1 id shards)) := by
  apply pipeline_eq_spec_shares W hW chunk id ρ p1 p2 (shards.flatten.map recRec) [] shards _ [] h
  · intro hnil
    have : (sHead (shareAlg ρ) p1 id shards).length = shards.length := by simp [sHead]
    rw [hnil] at this
    simp at this
    omega
  · exact hg
  · simp
  · simp
  · simp
  · intro r _ r' _ hk; exact hk
  · exact (sHead_rec ρ p1 W id shards hg).1
  · simp
  · simp

/-- bit `b` shared as `(r1, r2, b ⊕ r1 ⊕ r2)`. -/
def shB (b r1 r2 : Bool) : SW := share boolAlg b r1 r2

/-- Non-vacuity: two shards, a pair split across the shards whose breakdown keys wrap
(3+2 mod 4 = 1, value 0+3), a second pair in the same bucket whose values wrap (2+3 mod 4 = 1), a lone record; non-trivial shares
and masks. The hypotheses hold and the reconstructed output is `[0, 4, 0, 0]`. -/
example :
    let W : Widths := { bkW := 2, vW := 2, hvW := 3, buckets := 4 }
    let ρ : Path → Masks Bool := fun p => ⟨p.length % 2 == 0, true, p.sum % 3 == 1⟩
    let shards : List (List (SRec SW)) :=
      [[⟨7, [shB true true false, shB true false true], [shB false false false, shB false true true]⟩,
        ⟨9, [shB true false false, shB false true false], [shB false true false, shB true false true]⟩,
        ⟨4, [shB true true true, shB true true true], [shB false false false, shB false false false]⟩],
       [⟨7, [shB false true true, shB true true false], [shB true false true, shB true true true]⟩,
        ⟨9, [shB false false false, shB false false false], [shB true true false, shB true false false]⟩]]
    (∀ s ∈ shards, ∀ r ∈ s, GoodRec W r) ∧
    (sTail (shareAlg ρ) recBits [] W 2 (sHead (shareAlg ρ) [] id shards)).map recBits = [0, 4, 0, 0] := by
  intro W ρ shards
  constructor
  · intro s hs r hr
    simp only [shards, List.mem_cons, List.not_mem_nil, or_false] at hs
    rcases hs with rfl | rfl <;>
    · simp only [List.mem_cons, List.not_mem_nil, or_false] at hr
      rcases hr with rfl | rfl | rfl <;>
      · refine ⟨?_, ?_, rfl, rfl⟩ <;>
        · intro w hw
          simp only [List.mem_cons, List.not_mem_nil, or_false] at hw
          rcases hw with rfl | rfl <;> exact ⟨rfl, rfl, rfl⟩
  · decide

/-- Non-vacuity of `aggTree_bits` / `addPair_bits`: three consistent 2-bit rows (2, 3, 3) aggregate to the
saturated 3-bit value 7 (the third row passes through the first level); a pair whose sums wrap. -/
example :
    let ρ : Path → Masks Bool := fun p => ⟨true, p.length % 2 == 1, false⟩
    let rows : List (List SW) := [[shB false true false, shB true true true], [shB true false false, shB true true false],
      [shB true false true, shB true false false]]
    (∀ r ∈ rows, AllC r) ∧ (∀ r ∈ rows, r.length = 2) ∧
    recBits (aggregateValues (shareAlg ρ) [] 3 rows) = 7 ∧
    recRow (sAddPair (shareAlg ρ) [] 0
      (⟨1, [shB true true false, shB true false true], [shB true false false, shB true true true]⟩,
       ⟨1, [shB false true true, shB true true false], [shB true false true, shB true true true]⟩)) = (1, 2) := by
  intro ρ rows
  refine ⟨?_, by decide, by decide, by decide⟩
  intro r hr
  simp only [rows, List.mem_cons, List.not_mem_nil, or_false] at hr
  rcases hr with rfl | rfl | rfl <;>
  · intro w hw
    simp only [List.mem_cons, List.not_mem_nil, or_false] at hw
    rcases hw with rfl | rfl <;> exact ⟨rfl, rfl, rfl⟩

end IpaVerif.C01
