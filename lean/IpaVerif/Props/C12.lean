import IpaVerif.Model.Dp
import IpaVerif.Props.C07
import Mathlib.Algebra.Order.Field.Basic
import Mathlib.Algebra.Order.Archimedean.Basic
import Mathlib.Analysis.SpecificLimits.Basic
import Mathlib.Tactic.Ring
import Mathlib.Tactic.Linarith
import Mathlib.Tactic.Positivity
import Mathlib.Tactic.FieldSimp
/-!
# C12 — privacy noise and dummy records follow the documented (ε, δ) law

Theorems about `IpaVerif.Model.Dp` interpreted in a linearly ordered field (`fieldArith`; ℚ, ℝ): the hand-written
power loop is exponentiation, `right_hand_side` is the mass of the `Δ` outermost support points of the truncated
discrete Laplace law, it is antitone in `n`, the linear search returns the smallest admissible truncation point and
terminates, the constructors accept exactly their documented ranges, the sample-to-share mapping represents
`sample − n` modulo `2^w` for every width `w ≤ 32` (every residue incl. −1 reachable), the three noise passes add up,
and the double-geometric difference has the pmf `∝ (1−p)^{|d|}` (`double_geometric_series`; the law of the accepted
sample of the rejection loop is assembled in `IpaVerif.Props.C12Sampler`: `sampler_law`).
f64 rounding is outside these statements; it is measured by the correspondence suite `c12_shift`
(bit-exact model over IEEE doubles + exact dyadic oracle with a 1e-9 band).
-/
namespace IpaVerif.C12
open IpaVerif.Dp

/-! ### sample-to-share mapping -/

theorem symmetric_eq (w s n : Nat) (hw : w ≤ 32) :
    symmetricSample (2 ^ w) w s n = (s + 2 ^ 32 - n) % 2 ^ w := by
  unfold symmetricSample
  rw [Nat.mod_mod, Nat.mod_mod_of_dvd _ (Nat.pow_dvd_pow 2 hw)]

theorem share_mapping (w s n : Nat) (hw : w ≤ 32) (hn : n ≤ 1000000) :
    (symmetricSample (2 ^ w) w s n + n) % 2 ^ w = s % 2 ^ w ∧ symmetricSample (2 ^ w) w s n < 2 ^ w := by
  rw [symmetric_eq w s n hw]
  have hpos : 0 < 2 ^ w := Nat.pow_pos (by omega)
  refine ⟨?_, Nat.mod_lt _ hpos⟩
  obtain ⟨c, hc⟩ := Nat.pow_dvd_pow 2 hw
  rw [Nat.mod_add_mod, show s + 2 ^ 32 - n + n = s + 2 ^ 32 by omega, hc, Nat.add_mul_mod_self_left]

/-- every residue of the support is hit, in particular noise `−1` (sample `n − 1`) is `2^w − 1`. -/
theorem minus_one_reachable (w n : Nat) (hw : w ≤ 32) (_hw1 : 1 ≤ w) (hn1 : 1 ≤ n) (hn : n ≤ 1000000) :
    symmetricSample (2 ^ w) w (n - 1) n = 2 ^ w - 1 := by
  rw [symmetric_eq w _ n hw]
  obtain ⟨c, hc⟩ := Nat.pow_dvd_pow 2 hw
  have hpos : 0 < 2 ^ w := Nat.pow_pos (by omega)
  have hcpos : 0 < c := by
    rcases Nat.eq_zero_or_pos c with h | h
    · subst h; simp at hc
    · exact h
  have : n - 1 + 2 ^ 32 - n = 2 ^ w - 1 + 2 ^ w * (c - 1) := by
    have : 2 ^ w * c = 2 ^ w * (c - 1) + 2 ^ w := by
      rw [← Nat.mul_succ]; congr 1; omega
    omega
  rw [this, Nat.add_mul_mod_self_left, Nat.mod_eq_of_lt (by omega)]

/-- F5 (unfixed code, modulus `u32::MAX` at 32 bits): noise `−1` was mapped to `0`. -/
theorem share_mapping_unfixed_counterexample :
    laplaceModulusUnfixed 32 = some (2 ^ 32 - 1) ∧ symmetricSample (2 ^ 32 - 1) 32 13 14 = 0 ∧
    symmetricSample (2 ^ 32) 32 13 14 = 2 ^ 32 - 1 := by decide


variable {K : Type} [Field K] [LinearOrder K]
set_option linter.unusedSectionVars false

/-- the `f64` operations interpreted in a linearly ordered field (`ℚ`, `ℝ`); `mp` plays `f64::MIN_POSITIVE`. -/
def fieldArith (K : Type) [Field K] [LinearOrder K] (mp : K) : Arith K :=
  { zero := 0, one := 1, two := 2, add := (· + ·), sub := (· - ·), mul := (· * ·), div := (· / ·),
    lt := fun a b => decide (a < b), le := fun a b => decide (a ≤ b), eq := fun a b => decide (a = b), minPos := mp }

/-! ### `pow_u32` is exponentiation -/

theorem powEven_spec (mp b : K) : ∀ (f e : Nat), 0 < e →
    (powEven (fieldArith K mp) f b e).1 ^ (powEven (fieldArith K mp) f b e).2 = b ^ e ∧
    0 < (powEven (fieldArith K mp) f b e).2 ∧
    (e < 2 ^ f → (powEven (fieldArith K mp) f b e).2 % 2 = 1) ∧ (powEven (fieldArith K mp) f b e).2 ≤ e := by
  intro f
  induction f generalizing b with
  | zero => intro e he; simp only [powEven]; refine ⟨trivial, he, ?_, le_refl _⟩; intro h; omega
  | succ f ih =>
    intro e he
    simp only [powEven]
    split
    · rename_i h
      have h2 : e % 2 = 0 := by simpa using h
      obtain ⟨i1, i2, i3, i4⟩ := ih ((fieldArith K mp).mul b b) (e / 2) (by omega)
      refine ⟨?_, i2, ?_, by omega⟩
      · rw [i1]; show (b * b) ^ (e / 2) = b ^ e
        rw [← pow_two, ← pow_mul]; congr 1; omega
      · intro hlt; apply i3; omega
    · rename_i h
      refine ⟨rfl, he, ?_, le_refl _⟩
      intro _; simp at h; omega

theorem powOdd_spec (mp : K) : ∀ (f : Nat) (b acc : K) (e : Nat), e < 2 ^ f →
    powOdd (fieldArith K mp) f b acc e = acc * (b * b) ^ (e / 2) := by
  intro f
  induction f with
  | zero => intro b acc e he; simp only [powOdd]; have : e = 0 := by omega
            subst this; simp
  | succ f ih =>
    intro b acc e he
    simp only [powOdd]
    split
    · rename_i h
      rw [ih _ _ _ (by omega)]
      show (if (e / 2) % 2 == 1 then acc * (b * b) else acc) * (b * b * (b * b)) ^ (e / 2 / 2) = acc * (b * b) ^ (e / 2)
      have hd := Nat.div_add_mod (e / 2) 2
      split
      · rename_i h1
        have h1' : e / 2 % 2 = 1 := by simpa using h1
        have : e / 2 = 2 * (e / 2 / 2) + 1 := by omega
        conv_rhs => rw [this]
        rw [pow_succ, pow_mul]; ring
      · rename_i h1
        have h1' : e / 2 % 2 = 0 := by
          have : ¬ (e / 2 % 2 = 1) := by simpa using h1
          omega
        have : e / 2 = 2 * (e / 2 / 2) := by omega
        conv_rhs => rw [this]
        rw [pow_mul]; ring
    · rename_i h
      have : e / 2 = 0 := by omega
      rw [this]; simp

/-- **pow_u32_eq** — the hand-written square-and-multiply loop is exponentiation for every `u32` exponent. -/
theorem pow_u32_eq (mp b : K) (e : Nat) (he : e < 2 ^ 32) : powU32 (fieldArith K mp) b e = b ^ e := by
  unfold powU32
  split
  · rename_i h; have : e = 0 := by simpa using h
    subst this; simp [fieldArith]
  · rename_i h
    have hpos : 0 < e := by
      have : ¬ e = 0 := by simpa using h
      omega
    obtain ⟨i1, i2, i3, i4⟩ := powEven_spec mp b 32 e hpos
    generalize powEven (fieldArith K mp) 32 b e = r at *
    simp only []
    split
    · rename_i h1; have : r.2 = 1 := by simpa using h1
      rw [← i1, this, pow_one]
    · rw [powOdd_spec mp 32 r.1 r.1 r.2 (by omega), ← i1]
      have hodd := i3 he
      have : r.2 = 2 * (r.2 / 2) + 1 := by omega
      conv_rhs => rw [this]
      rw [pow_succ, pow_mul, pow_two]; ring

/-! ### the truncated discrete Laplace law on `0..2n`, centred at `n`: weights `r^{|x−n|}` -/

/-- `Σ_{x < k} f x` -/
def sumRange {K : Type} [Field K] : Nat → (Nat → K) → K
  | 0, _ => 0
  | k + 1, f => sumRange k f + f k

/-- `Σ_{j < d} r^(a+j)` -/
def sumFrom {K : Type} [Field K] (r : K) (a : Nat) : Nat → K
  | 0 => 0
  | d + 1 => sumFrom r a d + r ^ (a + d)

/-- unnormalised weight of support point `x` -/
def weight (r : K) (n x : Nat) : K := r ^ (Int.natAbs ((x : Int) - n))

/-- total mass `Σ_{x=0}^{2n} r^{|x−n|}` -/
def mass (r : K) (n : Nat) : K := sumRange (2 * n + 1) (weight r n)

theorem sumFrom_closed (r : K) (a d : Nat) : (1 - r) * sumFrom r a d = r ^ a - r ^ (a + d) := by
  induction d with
  | zero => simp [sumFrom]
  | succ d ih => simp only [sumFrom, mul_add, ih]; rw [← Nat.add_assoc, pow_succ]; ring

theorem sumFrom_shift (r : K) (a d : Nat) : sumFrom r a (d + 1) = r ^ a + sumFrom r (a + 1) d := by
  induction d with
  | zero => simp [sumFrom]
  | succ d ih =>
    rw [sumFrom, ih, sumFrom]
    have : a + 1 + d = a + (d + 1) := by omega
    rw [this]; ring

/-- the `k ≤ n + 1` lowest support points carry the weights `r^n, r^{n−1}, …`. -/
theorem sumRange_low (r : K) (n : Nat) : ∀ k, k ≤ n + 1 → sumRange k (weight r n) = sumFrom r (n + 1 - k) k := by
  intro k
  induction k with
  | zero => intro _; rfl
  | succ k ih =>
    intro hk
    rw [sumRange, ih (by omega), sumFrom_shift]
    have h1 : n + 1 - (k + 1) + 1 = n + 1 - k := by omega
    have h2 : weight r n k = r ^ (n + 1 - (k + 1)) := by
      unfold weight; congr 1; omega
    rw [h1, h2]; ring

theorem sumRange_high (r : K) (n : Nat) : ∀ m, sumRange (n + 1 + m) (weight r n) = sumFrom r 0 (n + 1) + sumFrom r 1 m := by
  intro m
  induction m with
  | zero => rw [sumRange_low r n (n + 1) (le_refl _)]; simp [sumFrom]
  | succ m ih =>
    have : weight r n (n + 1 + m) = r ^ (1 + m) := by unfold weight; congr 1; omega
    rw [← Nat.add_assoc, sumRange, ih, this]
    show _ = _ + (sumFrom r 1 m + r ^ (1 + m))
    ring

/-- **mass_closed_form** — `(1 − r) · Σ_{x=0}^{2n} r^{|x−n|} = 1 + r − 2 r^{n+1}`; for `r ≠ 1` the total mass is
`(1 + r − 2 r^{n+1}) / (1 − r)`, the reciprocal of the constant `a` of `right_hand_side`. -/
theorem mass_closed_form (r : K) (n : Nat) : (1 - r) * mass r n = 1 + r - 2 * r ^ (n + 1) := by
  unfold mass
  rw [show 2 * n + 1 = n + 1 + n by omega, sumRange_high, mul_add, sumFrom_closed, sumFrom_closed]
  rw [show 1 + n = n + 1 by omega]; simp only [Nat.zero_add, pow_zero, pow_one]; ring

theorem mass_eq (r : K) (n : Nat) (hr : r ≠ 1) : mass r n = (1 + r - 2 * r ^ (n + 1)) / (1 - r) := by
  have h : (1 - r) ≠ 0 := sub_ne_zero.mpr (Ne.symm hr)
  rw [eq_div_iff h, mul_comm, mass_closed_form]

/-! ### `right_hand_side` is the mass of the `Δ` outermost support points on one side -/

theorem tailSum_eq (mp r : K) (n bigDelta : Nat) (hn : n + 1 < 2 ^ 32) (hd : bigDelta ≤ n) :
    tailSum (fieldArith K mp) r n bigDelta = sumFrom r (n - bigDelta + 1) bigDelta := by
  unfold tailSum
  have key : ∀ d, d ≤ bigDelta →
      (List.range d).foldl (fun acc j => (fieldArith K mp).add acc (powU32 (fieldArith K mp) r (n - bigDelta + 1 + j))) (fieldArith K mp).zero
        = sumFrom r (n - bigDelta + 1) d := by
    intro d
    induction d with
    | zero => intro _; rfl
    | succ d ih =>
      intro hdd
      rw [List.range_succ, List.foldl_append, ih (by omega)]
      simp only [List.foldl_cons, List.foldl_nil, sumFrom]
      rw [pow_u32_eq mp r _ (by omega)]; rfl
  exact key bigDelta (le_refl _)

/-- `right_hand_side` in closed form (exact arithmetic). -/
theorem rhs_closed (mp r : K) (n bigDelta : Nat) (hn : n + 1 < 2 ^ 32) (hd : bigDelta ≤ n) (hr : r ≠ 1) :
    rightHandSide (fieldArith K mp) n bigDelta r = (r ^ (n - bigDelta + 1) - r ^ (n + 1)) / (1 + r - 2 * r ^ (n + 1)) := by
  have h1 : (1 - r) ≠ 0 := sub_ne_zero.mpr (Ne.symm hr)
  unfold rightHandSide
  rw [tailSum_eq mp r n bigDelta hn hd, pow_u32_eq mp r _ hn]
  show (1 - r) / (1 + r - 2 * r ^ (n + 1)) * sumFrom r (n - bigDelta + 1) bigDelta = _
  have := sumFrom_closed r (n - bigDelta + 1) bigDelta
  rw [show n - bigDelta + 1 + bigDelta = n + 1 by omega] at this
  rw [div_mul_eq_mul_div, this]

/-- **rhs_is_tail_mass** — `right_hand_side(n, Δ, ε)` is the total probability of the `Δ` outermost support points
`0, …, Δ−1` (equivalently `2n−Δ+1, …, 2n`) under the law `Pr[x] = r^{|x−n|} / Σ_y r^{|y−n|}`, `r = e^{-ε}`. -/
theorem rhs_is_tail_mass (mp r : K) (n bigDelta : Nat) (hn : n + 1 < 2 ^ 32) (hd : bigDelta ≤ n) (hr : r ≠ 1) :
    rightHandSide (fieldArith K mp) n bigDelta r = sumRange bigDelta (weight r n) / mass r n := by
  have h1 : (1 - r) ≠ 0 := sub_ne_zero.mpr (Ne.symm hr)
  rw [rhs_closed mp r n bigDelta hn hd hr, mass_eq r n hr, sumRange_low r n bigDelta (by omega),
    show n + 1 - bigDelta = n - bigDelta + 1 by omega]
  have := sumFrom_closed r (n - bigDelta + 1) bigDelta
  rw [show n - bigDelta + 1 + bigDelta = n + 1 by omega] at this
  rw [← this]; field_simp

section order
variable [IsStrictOrderedRing K]

theorem den_pos (r : K) (n : Nat) (h0 : 0 < r) (h1 : r < 1) : 0 < 1 + r - 2 * r ^ (n + 1) := by
  have : r ^ (n + 1) ≤ r := by
    calc r ^ (n + 1) = r ^ n * r := pow_succ r n
      _ ≤ 1 * r := by
        apply mul_le_mul_of_nonneg_right _ h0.le
        exact pow_le_one₀ h0.le h1.le
      _ = r := one_mul r
  linarith

/-- **rhs_antitone** — for `0 < r < 1` the tail mass decreases with the truncation point, so the linear search of
`find_smallest_n` finds THE smallest admissible `n`. -/
theorem rhs_antitone (mp r : K) (n bigDelta : Nat) (hn : n + 2 < 2 ^ 32) (hd : bigDelta ≤ n) (h0 : 0 < r) (h1 : r < 1) :
    rightHandSide (fieldArith K mp) (n + 1) bigDelta r ≤ rightHandSide (fieldArith K mp) n bigDelta r := by
  rw [rhs_closed mp r (n + 1) bigDelta (by omega) (by omega) (ne_of_lt h1),
    rhs_closed mp r n bigDelta (by omega) hd (ne_of_lt h1)]
  have hD0 := den_pos r n h0 h1
  have hD1 := den_pos r (n + 1) h0 h1
  rw [div_le_div_iff₀ hD1 hD0]
  have e1 : n + 1 - bigDelta + 1 = (n - bigDelta + 1) + 1 := by omega
  rw [e1]
  -- numerator_n = r^a (1 − r^Δ) ≥ 0 with a = n − Δ + 1
  generalize hA : n - bigDelta + 1 = a
  have hn1 : n + 1 = a + bigDelta := by omega
  have hpa : 0 < r ^ a := pow_pos h0 a
  have hpd : r ^ bigDelta ≤ 1 := pow_le_one₀ h0.le h1.le
  have hnum : 0 ≤ r ^ a - r ^ (n + 1) := by
    rw [hn1, pow_add]
    have := mul_nonneg hpa.le (sub_nonneg.mpr hpd)
    linarith
  have hpow : r ^ (n + 1 + 1) = r * r ^ (n + 1) := by rw [pow_succ]; ring
  have hpow2 : r ^ (a + 1) = r * r ^ a := by rw [pow_succ]; ring
  have hrn : 0 < r ^ (n + 1) := pow_pos h0 _
  rw [hpow, hpow2]
  -- r·N·D_n ≤ N·D_{n+1}  with D_{n+1} − r·D_n = (1 − r)(1 + r) + ... ≥ 0
  have : r * r ^ a - r * r ^ (n + 1) = r * (r ^ a - r ^ (n + 1)) := by ring
  rw [this]
  have hD : r * (1 + r - 2 * r ^ (n + 1)) ≤ 1 + r - 2 * (r * r ^ (n + 1)) := by nlinarith
  calc r * (r ^ a - r ^ (n + 1)) * (1 + r - 2 * r ^ (n + 1))
      = (r ^ a - r ^ (n + 1)) * (r * (1 + r - 2 * r ^ (n + 1))) := by ring
    _ ≤ (r ^ a - r ^ (n + 1)) * (1 + r - 2 * (r * r ^ (n + 1))) := mul_le_mul_of_nonneg_left hD hnum

end order

/-! ### the search -/

/-- **findSmallestN_spec** — whatever the arithmetic: a returned `n` is `≥` the start, satisfies the criterion
`tail n ≤ δ`, and every candidate before it fails it. -/
theorem findSmallestN_spec {α : Type} (A : Arith α) (bigDelta : Nat) (r delta : α) :
    ∀ (steps start n : Nat), findSmallestN A bigDelta r delta steps start = some n →
      start ≤ n ∧ n < start + steps ∧ A.le (rightHandSide A n bigDelta r) delta = true ∧
      ∀ m, start ≤ m → m < n → A.le (rightHandSide A m bigDelta r) delta = false := by
  intro steps
  induction steps with
  | zero => intro start n h; simp [findSmallestN] at h
  | succ steps ih =>
    intro start n h
    simp only [findSmallestN] at h
    split at h
    · rename_i hle
      have : start = n := by simpa using h
      subst this
      exact ⟨le_refl _, by omega, hle, fun m h1 h2 => by omega⟩
    · rename_i hle
      obtain ⟨i1, i2, i3, i4⟩ := ih (start + 1) n h
      refine ⟨by omega, by omega, i3, ?_⟩
      intro m h1 h2
      rcases Nat.eq_or_lt_of_le h1 with rfl | hlt
      · simpa using hle
      · exact i4 m hlt h2

/-- and conversely the search does not miss an admissible candidate inside its window. -/
theorem findSmallestN_complete {α : Type} (A : Arith α) (bigDelta : Nat) (r delta : α) :
    ∀ (steps start m : Nat), start ≤ m → m < start + steps → A.le (rightHandSide A m bigDelta r) delta = true →
      ∃ n, findSmallestN A bigDelta r delta steps start = some n ∧ n ≤ m := by
  intro steps
  induction steps with
  | zero => intro start m h1 h2; omega
  | succ steps ih =>
    intro start m h1 h2 h3
    simp only [findSmallestN]
    split
    · exact ⟨start, rfl, h1⟩
    · rename_i hle
      rcases Nat.eq_or_lt_of_le h1 with rfl | hlt
      · exact absurd h3 hle
      · exact ih (start + 1) m hlt (by omega) h3

section order2
variable [IsStrictOrderedRing K]

/-- **tail_vanishes** (termination of the search over an Archimedean field such as ℝ or ℚ): for `0 < δ` and
`0 < r < 1` some truncation point `n ≥ Δ` (below any bound `B` that is large enough) meets the criterion. -/
theorem tail_vanishes [Archimedean K] (mp r delta : K) (bigDelta : Nat) (h0 : 0 < r) (h1 : r < 1) (hdelta : 0 < delta) :
    ∃ k : Nat, ∀ n, bigDelta ≤ n → n + 1 < 2 ^ 32 → k ≤ n - bigDelta + 1 →
      rightHandSide (fieldArith K mp) n bigDelta r ≤ delta := by
  have h1r : 0 < 1 - r := by linarith
  obtain ⟨k, hk⟩ := exists_pow_lt_of_lt_one (mul_pos hdelta h1r) h1
  refine ⟨k, fun n hd hn hkn => ?_⟩
  rw [rhs_closed mp r n bigDelta hn hd (ne_of_lt h1)]
  have hD := den_pos r n h0 h1
  rw [div_le_iff₀ hD]
  have hpk : r ^ (n - bigDelta + 1) ≤ r ^ k := pow_le_pow_of_le_one h0.le h1.le hkn
  have hrn : 0 < r ^ (n + 1) := pow_pos h0 _
  have hrn' : r ^ (n + 1) ≤ r := by
    calc r ^ (n + 1) = r ^ n * r := pow_succ r n
      _ ≤ 1 * r := mul_le_mul_of_nonneg_right (pow_le_one₀ h0.le h1.le) h0.le
      _ = r := one_mul r
  have hDge : 1 - r ≤ 1 + r - 2 * r ^ (n + 1) := by linarith
  calc r ^ (n - bigDelta + 1) - r ^ (n + 1) ≤ r ^ k := by linarith
    _ ≤ delta * (1 - r) := hk.le
    _ ≤ delta * (1 + r - 2 * r ^ (n + 1)) := mul_le_mul_of_nonneg_left hDge hdelta.le

end order2


section order2
variable [IsStrictOrderedRing K]

/-! ### constructors: decision tables (**constructors_accept_iff**) -/

macro "close_table" : tactic => `(tactic|
  (push Not at * <;>
   first
   | omega
   | linarith
   | (refine ⟨?_, ?_⟩ <;> first | omega | linarith)
   | (refine ⟨?_, ?_, ?_⟩ <;> first | omega | linarith)
   | (intros; first | omega | linarith | exact lt_of_le_of_ne (by assumption) (Ne.symm (by assumption)) | exact lt_of_le_of_ne (by assumption) (by assumption))))

theorem oprfRange_accept_iff (mp eps delta : K) (cap sens : Nat) :
    oprfRange (fieldArith K mp) cap eps delta sens = .ok () ↔ (mp ≤ eps ∧ mp ≤ delta ∧ delta ≤ 1 - mp ∧ sens ≤ cap) := by
  unfold oprfRange
  simp only [fieldArith]
  by_cases h1 : eps < mp <;> by_cases h2 : mp ≤ delta <;> by_cases h3 : delta ≤ 1 - mp <;> by_cases h4 : sens > cap <;>
    simp [h1, h2, h3, h4] <;> close_table

theorem geometric_accept_iff (mp p : K) (hmp : 0 < mp) :
    geometricNew (fieldArith K mp) p = .ok () ↔ (mp ≤ p ∧ p ≤ 1) := by
  unfold geometricNew bernoulliOk
  simp only [fieldArith]
  by_cases h1 : p < mp <;> by_cases h2 : 0 ≤ p <;> by_cases h3 : p < 1 <;> by_cases h4 : p = 1 <;>
    simp [h1, h2, h3, h4] <;> close_table

theorem truncated_accept_iff (mp s p : K) (cap shift : Nat) (hmp : 0 < mp) :
    (∃ d, truncatedNew (fieldArith K mp) cap s shift p = .ok d) ↔ (mp ≤ s ∧ shift ≤ cap ∧ mp ≤ p ∧ p ≤ 1) := by
  have hg := geometric_accept_iff mp p hmp
  have hlt : (fieldArith K mp).lt s (fieldArith K mp).minPos = decide (s < mp) := rfl
  unfold truncatedNew doubleGeometricNew
  rw [hlt]
  by_cases h1 : s < mp
  · simp [h1]
  · by_cases h2 : shift > cap
    · simp [h1, h2] <;> (intros; omega)
    · simp only [h1, h2, decide_false, Bool.false_eq_true, if_false]
      cases hgn : geometricNew (fieldArith K mp) p with
      | ok u =>
        have := hg.mp hgn
        exact ⟨fun _ => ⟨not_lt.mp h1, by omega, this.1, this.2⟩, fun _ => ⟨_, rfl⟩⟩
      | error e =>
        simp only [reduceCtorEq, exists_false, false_iff]
        intro ⟨_, _, hp1, hp2⟩
        have := hg.mpr ⟨hp1, hp2⟩
        rw [hgn] at this; cases this

theorem noise_accept_iff (mp eps delta succ dims qs l1 l2 linf : K) :
    noiseParamsNew (fieldArith K mp) eps delta succ dims qs l1 l2 linf = .ok () ↔
      (0 < eps ∧ 0 < delta ∧ 0 ≤ succ ∧ succ ≤ 1 ∧ 0 < dims ∧ 0 < qs ∧ 0 < l1 ∧ 0 < l2 ∧ 0 < linf) := by
  unfold noiseParamsNew
  simp only [fieldArith]
  by_cases a : 0 < eps
  swap
  · simp [a]
  by_cases b : 0 < delta
  swap
  · simp [a, b]
  by_cases c : 0 ≤ succ ∧ succ ≤ 1
  swap
  · have : (decide (0 ≤ succ) && decide (succ ≤ 1)) = false := by
      simp only [Bool.and_eq_false_iff, decide_eq_false_iff_not]; tauto
    simp [a, b, this] <;> (intro h1 h2; exact absurd ⟨h1, h2⟩ c)
  by_cases d : 0 < dims
  swap
  · simp [a, b, c, d]
  by_cases e : 0 < qs
  swap
  · simp [a, b, c, d, e]
  by_cases f : 0 < l1
  swap
  · simp [a, b, c, d, e, f]
  by_cases g : 0 < l2
  swap
  · simp [a, b, c, d, e, f, g]
  by_cases i : 0 < linf
  swap
  · simp [a, b, c, d, e, f, g, i]
  simp [a, b, c, d, e, f, g, i]

/-- F4: the unfixed δ check rejected exactly the non-zero values. -/
theorem noise_delta_unfixed_counterexample (mp delta : K) :
    noiseParamsDeltaCheckUnfixed (fieldArith K mp) delta = true ↔ delta ≠ 0 := by
  simp [noiseParamsDeltaCheckUnfixed, fieldArith]

/-- **F13, any arithmetic** (in particular IEEE doubles, where every comparison with NaN is `false`): `NoiseParams::new`
accepts iff each written comparison *holds* — `0 < x` for the seven range-checked parameters, `0 ≤ p ≤ 1` for
`success_prob`.  Nothing is assumed about `lt`/`le` (no totality, no relation between them). -/
theorem noise_accept_any {α : Type} (A : Arith α) (eps delta succ dims qs l1 l2 linf : α) :
    noiseParamsNew A eps delta succ dims qs l1 l2 linf = .ok () ↔
      (A.lt A.zero eps = true ∧ A.lt A.zero delta = true ∧ A.le A.zero succ = true ∧ A.le succ A.one = true ∧
       A.lt A.zero dims = true ∧ A.lt A.zero qs = true ∧ A.lt A.zero l1 = true ∧ A.lt A.zero l2 = true ∧
       A.lt A.zero linf = true) := by
  unfold noiseParamsNew
  cases A.lt A.zero eps <;> cases A.lt A.zero delta <;> cases A.le A.zero succ <;> cases A.le succ A.one <;>
    cases A.lt A.zero dims <;> cases A.lt A.zero qs <;> cases A.lt A.zero l1 <;> cases A.lt A.zero l2 <;>
    cases A.lt A.zero linf <;> simp

/-- a value that is not greater than zero under the arithmetic's own `<` (NaN for IEEE doubles) is rejected in every
range-checked slot, whatever the other parameters are. -/
theorem noise_rejects_unordered {α : Type} (A : Arith α) (x : α) (hx : A.lt A.zero x = false)
    (eps delta succ dims qs l1 l2 linf : α)
    (hslot : eps = x ∨ delta = x ∨ dims = x ∨ qs = x ∨ l1 = x ∨ l2 = x ∨ linf = x) :
    noiseParamsNew A eps delta succ dims qs l1 l2 linf ≠ .ok () := by
  intro h
  obtain ⟨h1, h2, _, _, h5, h6, h7, h8, h9⟩ := (noise_accept_any A eps delta succ dims qs l1 l2 linf).mp h
  rcases hslot with rfl | rfl | rfl | rfl | rfl | rfl | rfl <;> simp_all

/-- a three-point arithmetic with an unordered element (`none` plays NaN: every comparison with it is `false`,
as for IEEE doubles) — the witness domain for F13. -/
def nanArith : Arith (Option Int) :=
  { zero := some 0, one := some 1, two := some 2,
    add := fun a b => do pure ((← a) + (← b)), sub := fun a b => do pure ((← a) - (← b)),
    mul := fun a b => do pure ((← a) * (← b)), div := fun a b => do pure ((← a) / (← b)),
    lt := fun a b => match a, b with | some a, some b => decide (a < b) | _, _ => false,
    le := fun a b => match a, b with | some a, some b => decide (a ≤ b) | _, _ => false,
    eq := fun a b => match a, b with | some a, some b => decide (a = b) | _, _ => false,
    minPos := some 1 }

/-- F13 (unfixed code, checks written `x <= 0.0`): an unordered value passed the range check; the fixed check
`!(x > 0.0)` rejects it.  On an ordered field the two forms agree (`noise_range_fixed_eq_unfixed`). -/
theorem noise_range_unfixed_counterexample :
    noiseRangeRejectUnfixed nanArith none = false ∧ noiseRangeReject nanArith none = true ∧
    noiseParamsNew nanArith none (some 1) (some 1) (some 1) (some 1) (some 1) (some 1) (some 1)
      = .error "epsilon must be > 0.0" := by decide

theorem noise_range_fixed_eq_unfixed (mp x : K) :
    noiseRangeReject (fieldArith K mp) x = noiseRangeRejectUnfixed (fieldArith K mp) x := by
  simp only [noiseRangeReject, noiseRangeRejectUnfixed, fieldArith]
  by_cases h : 0 < x
  · simp [h, not_le.mpr h]
  · simp [h, not_lt.mp h]

example : nanArith.lt nanArith.zero none = false := rfl

theorem binomial_eps_iff (mp maxEps eps : K) :
    binomialEpsOk (fieldArith K mp) maxEps eps = true ↔ (0 < eps ∧ eps ≤ maxEps) := by
  simp [binomialEpsOk, fieldArith]

end order2

/-! ### sampler law: the series behind `sampler_law` (Props/C12Sampler.lean) -/

/-- **double_geometric_series** — with i.i.d. Bernoulli(`p`) outcomes the two geometric draws `a₁, a₂` have
`Pr[a = k] = p (1−p)^k`; the law of the difference `a₁ − a₂ = d ≥ 0` (symmetric for `−d`) is the series
`Σ_k p(1−p)^k · p(1−p)^{k+d} = p² (1−p)^d / (1 − (1−p)²)`, i.e. proportional to `(1−p)^{|d|}` with `1 − p = e^{-ε}`.
(The full law — `truncatedSample` returns `x ∈ 0..2n` with probability `weight (1−p) n x / mass (1−p) n` — is
`sampler_law` in `IpaVerif.Props.C12Sampler`.) -/
theorem double_geometric_series (p : ℝ) (d : ℕ) (h0 : 0 < p) (h1 : p ≤ 1) :
    HasSum (fun k : ℕ => (p * (1 - p) ^ k) * (p * (1 - p) ^ (k + d))) (p ^ 2 * (1 - p) ^ d / (1 - (1 - p) ^ 2)) := by
  have hq0 : 0 ≤ (1 - p) ^ 2 := by positivity
  have hq1 : (1 - p) ^ 2 < 1 := by nlinarith
  have h := (hasSum_geometric_of_lt_one hq0 hq1).mul_left (p ^ 2 * (1 - p) ^ d)
  have e1 : (fun k : ℕ => (p * (1 - p) ^ k) * (p * (1 - p) ^ (k + d))) = fun i => p ^ 2 * (1 - p) ^ d * ((1 - p) ^ 2) ^ i := by
    funext k; rw [← pow_mul]; ring
  rw [e1, div_eq_mul_inv]
  exact h

example : (0 : ℝ) < 1 / 2 ∧ (1 / 2 : ℝ) ≤ 1 := by norm_num

theorem sumRange_mul_const {K : Type} [Field K] (c : K) (f : Nat → K) : ∀ k, sumRange k (fun y => c * f y) = c * sumRange k f := by
  intro k
  induction k with
  | zero => simp [sumRange]
  | succ k ih => simp only [sumRange, ih]; ring

/-- rejection sampling renormalises: any law proportional to the weights on `0..2n` IS `weight / mass`. -/
theorem rejection_renormalises {K : Type} [Field K] [LinearOrder K] (c r : K) (n x : Nat) (hc : c ≠ 0) :
    (c * weight r n x) / sumRange (2 * n + 1) (fun y => c * weight r n y) = weight r n x / mass r n := by
  rw [sumRange_mul_const, mass, mul_div_mul_left _ _ hc]

/-! ### the three noise passes -/

open IpaVerif.Circuits IpaVerif.C07 in
/-- **noisy_bucket** (one pass) — `integer_add(noise, histogram)` on `w`-bit values is addition modulo `2^w`. -/
theorem noisy_bucket_pass (p : Path) (noise hist : List Bool) (h : hist.length = noise.length) :
    val (integerAdd plainAlg p noise hist).1 = (val noise + val hist) % 2 ^ noise.length := by
  have hv := integer_add_value p noise hist
  have hl := (add_value p 0 noise hist false).1
  have h1 := val_lt (integerAdd plainAlg p noise hist).1
  have h2 := val_lt hist
  rw [h] at h2
  rw [Nat.mod_eq_of_lt h2] at hv
  have hl' : (integerAdd plainAlg p noise hist).1.length = noise.length := hl
  rw [hl'] at h1
  generalize (integerAdd plainAlg p noise hist) = r at *
  generalize 2 ^ noise.length = P at *
  cases hc : r.2 <;> simp only [hc, Bool.toNat_true, Bool.toNat_false, Nat.mul_zero, Nat.mul_one, Nat.add_zero] at hv
  · rw [← hv, Nat.mod_eq_of_lt h1]
  · rw [← hv, Nat.add_mod_right, Nat.mod_eq_of_lt h1]

/-- **noisy_bucket** — three passes: the released bucket is `(exact + d₁ + d₂ + d₃) mod 2^w`. -/
theorem noisy_bucket (M exact v1 v2 v3 : Nat) :
    (v3 + (v2 + (v1 + exact) % M) % M) % M = (exact + v1 + v2 + v3) % M := by
  have key : ∀ a b, (a + b % M) % M = (a + b) % M := fun a b => by rw [Nat.add_mod, Nat.mod_mod, ← Nat.add_mod]
  rw [key, ← Nat.add_assoc, key]; congr 1; omega

open IpaVerif.Circuits IpaVerif.C07 in
theorem bitsOf_length : ∀ (w v : Nat), (bitsOf w v).length = w := by
  intro w; induction w with
  | zero => intro v; rfl
  | succ w ih => intro v; simp [bitsOf, ih]

open IpaVerif.Circuits IpaVerif.C07 in
theorem val_bitsOf : ∀ (w v : Nat), val (bitsOf w v) = v % 2 ^ w := by
  intro w; induction w with
  | zero => intro v; simp [bitsOf, val, Nat.mod_one]
  | succ w ih =>
    intro v
    have hb : (v % 2 == 1).toNat = v % 2 := by
      rcases Nat.mod_two_eq_zero_or_one v with h | h <;> simp [h]
    simp only [bitsOf, val, ih, hb]
    rw [Nat.pow_succ, Nat.mul_comm (2 ^ w) 2, Nat.mod_mul]

open IpaVerif.Circuits IpaVerif.C07 in
/-- **e2e_pass_value** — the executable model of one `apply_laplace_noise_pass` over `B` buckets (`Dp.e2ePass`, the
model side of suite `c12_noise_e2e`): whenever the stream suffices, the output has one value per bucket and bucket `i`
is `(noiseᵢ + histᵢ) mod 2^w`, where `noiseᵢ < 2^w` is the placed value of the `i`-th accepted sample
(`share_mapping`: `noiseᵢ + n ≡ sampleᵢ (mod 2^w)`). Stated as a list relation to avoid indices. -/
theorem e2e_pass_value (pInt shift w : Nat) : ∀ (hist script out : List Nat),
    e2ePass pInt shift w (2 ^ w) hist script = some out →
    List.Forall₂ (fun h o => ∃ sample, sample ≤ 2 * shift ∧
      o = (symmetricSample (2 ^ w) w sample shift + h) % 2 ^ w) hist out := by
  intro hist
  induction hist with
  | nil => intro script out h; simp [e2ePass] at h; subst h; exact List.Forall₂.nil
  | cons h hs ih =>
    intro script out hout
    simp only [e2ePass] at hout
    cases hs' : truncatedSample pInt shift (script.length + 1) script with
    | none => simp [hs'] at hout
    | some sr =>
      obtain ⟨sample, rest⟩ := sr
      simp only [hs'] at hout
      cases hrec : e2ePass pInt shift w (2 ^ w) hs rest with
      | none => simp [hrec] at hout
      | some out' =>
        simp only [hrec, Option.map_some, Option.some.injEq] at hout
        subst hout
        refine List.Forall₂.cons ⟨sample, ?_, ?_⟩ (ih rest out' hrec)
        · -- accepted samples lie in 0..2n
          have : ∀ (fuel : Nat) (s : List Nat) (v : Nat) (r : List Nat),
              truncatedSample pInt shift fuel s = some (v, r) → v ≤ 2 * shift := by
            intro fuel
            induction fuel with
            | zero => intro s v r h; simp [truncatedSample] at h
            | succ fuel ihf =>
              intro s v r h
              simp only [truncatedSample] at h
              cases hd : doubleGeometric pInt shift s with
              | none => simp [hd] at h
              | some dr =>
                obtain ⟨d, rest⟩ := dr
                simp only [hd] at h
                split at h
                · simp only [Option.some.injEq, Prod.mk.injEq] at h
                  obtain ⟨rfl, _⟩ := h
                  omega
                · exact ihf rest v r h
          exact this _ _ _ _ hs'
        · have hp := noisy_bucket_pass [] (bitsOf w (symmetricSample (2 ^ w) w sample shift)) (bitsOf w h)
            (by rw [bitsOf_length, bitsOf_length])
          rw [hp, val_bitsOf, val_bitsOf, bitsOf_length, Nat.mod_add_mod, Nat.add_mod_mod]

/-- each draw is generated by exactly the two helpers other than the excluded one, the excluded helper contributes
the zero share, the three views are consistent and reconstruct (xor of the left components) to the drawn value. -/
theorem pass_shares (modulus ov sample shift : Nat) (e : Nat) (he : e < 3) :
    let v := symmetricSample modulus ov sample shift
    let h0 := passShares modulus ov sample shift e 0
    let h1 := passShares modulus ov sample shift e 1
    let h2 := passShares modulus ov sample shift e 2
    passShares modulus ov sample shift e e = (0, 0) ∧
    h0.2 = h1.1 ∧ h1.2 = h2.1 ∧ h2.2 = h0.1 ∧ (h0.1 ^^^ h1.1 ^^^ h2.1) = v := by
  have : e = 0 ∨ e = 1 ∨ e = 2 := by omega
  rcases this with rfl | rfl | rfl <;> simp [passShares, sampleShares]

/-! ### the cap of the search: sentinel `MAX_SHIFT + 1` and its rejection (seed `C12d`) -/

/-- **find_smallest_n_cap** — any arithmetic, `Δ ≤ cap`: the search returns either a truncation point `n ∈ [Δ, cap]` that
meets the criterion `tail(n) ≤ δ` and before which no candidate meets it, or — exactly when NO candidate in `[Δ, cap]`
meets it — the sentinel `cap + 1`. It never returns `cap` (or anything `≤ cap`) for a parameter set whose tail mass at
that point is above `δ`. -/
theorem find_smallest_n_cap {α : Type} (A : Arith α) (cap bigDelta : Nat) (r delta : α) (hd : bigDelta ≤ cap) :
    let n := findSmallestNCapped A cap bigDelta r delta
    (n ≤ cap → bigDelta ≤ n ∧ A.le (rightHandSide A n bigDelta r) delta = true ∧
        ∀ m, bigDelta ≤ m → m < n → A.le (rightHandSide A m bigDelta r) delta = false) ∧
    (n ≤ cap ∨ n = cap + 1) ∧
    (n = cap + 1 ↔ ∀ m, bigDelta ≤ m → m ≤ cap → A.le (rightHandSide A m bigDelta r) delta = false) := by
  intro n
  have hn : n = (findSmallestN A bigDelta r delta (cap + 1 - bigDelta) bigDelta).getD (cap + 1) := rfl
  cases hf : findSmallestN A bigDelta r delta (cap + 1 - bigDelta) bigDelta with
  | none =>
    rw [hf] at hn
    simp only [Option.getD_none] at hn
    have hall : ∀ m, bigDelta ≤ m → m ≤ cap → A.le (rightHandSide A m bigDelta r) delta = false := by
      intro m h1 h2
      cases hm : A.le (rightHandSide A m bigDelta r) delta with
      | false => rfl
      | true =>
        obtain ⟨k, hk, _⟩ := findSmallestN_complete A bigDelta r delta (cap + 1 - bigDelta) bigDelta m h1 (by omega) hm
        rw [hf] at hk; cases hk
    refine ⟨fun h => by omega, Or.inr hn, fun _ => hall, fun _ => hn⟩
  | some k =>
    rw [hf] at hn
    simp only [Option.getD_some] at hn
    obtain ⟨h1, h2, h3, h4⟩ := findSmallestN_spec A bigDelta r delta (cap + 1 - bigDelta) bigDelta k hf
    have hk : k ≤ cap := by omega
    refine ⟨fun _ => ?_, Or.inl (by omega), ?_⟩
    · rw [hn]; exact ⟨h1, h3, h4⟩
    · constructor
      · intro h; omega
      · intro h
        have := h k h1 hk
        rw [h3] at this; cases this

/-- **oprf_rejects_sentinel** — any arithmetic: if no truncation point up to the cap meets the criterion, `OPRFPaddingDp::new`
returns an error (`BadShiftValue`, unless an earlier check already failed) — it never hands out a distribution truncated at
the cap whose tail mass is above `δ`. -/
theorem oprf_rejects_sentinel {α : Type} (A : Arith α) (cap : Nat) (eps delta : α) (sens : Nat) (r p : α)
    (hall : ∀ m, sens ≤ m → m ≤ cap → A.le (rightHandSide A m sens r) delta = false) :
    (∀ n, oprfNew A cap eps delta sens r p ≠ .ok n) ∧
    (oprfRange A cap eps delta sens = .ok () → A.lt (A.div A.one eps) A.minPos = false →
      oprfNew A cap eps delta sens r p = .error .badShiftValue) := by
  unfold oprfNew
  cases hr : oprfRange A cap eps delta sens with
  | error e => exact ⟨fun n h => by simp at h, fun h => by cases h⟩
  | ok u =>
    have hs : sens ≤ cap := by
      unfold oprfRange at hr
      by_cases h1 : A.lt eps A.minPos = true
      · simp [h1] at hr
      · by_cases h2 : (A.le A.minPos delta && A.le delta (A.sub A.one A.minPos)) = true
        · by_cases h3 : sens > cap
          · simp [h1, h2, h3] at hr
          · omega
        · simp [h1, h2] at hr
    have hsent : findSmallestNCapped A cap sens r delta = cap + 1 :=
      ((find_smallest_n_cap A cap sens r delta hs).2.2).mpr hall
    simp only [hsent]
    unfold truncatedNew
    by_cases hS : A.lt (A.div A.one eps) A.minPos = true
    · simp [hS]
    · simp [hS]

/-- **oprf_accept_meets_delta** — any arithmetic: whenever `OPRFPaddingDp::new` accepts, the shift it hands out is `≤ cap`,
`≥ Δ`, meets `tail(n) ≤ δ` under the arithmetic's own comparison, and no smaller candidate does. -/
theorem oprf_accept_meets_delta {α : Type} (A : Arith α) (cap : Nat) (eps delta : α) (sens : Nat) (r p : α) (n : Nat)
    (h : oprfNew A cap eps delta sens r p = .ok n) :
    sens ≤ n ∧ n ≤ cap ∧ A.le (rightHandSide A n sens r) delta = true ∧
      ∀ m, sens ≤ m → m < n → A.le (rightHandSide A m sens r) delta = false := by
  unfold oprfNew at h
  cases hr : oprfRange A cap eps delta sens with
  | error e => rw [hr] at h; cases h
  | ok u =>
    rw [hr] at h
    simp only at h
    have hs : sens ≤ cap := by
      unfold oprfRange at hr
      by_cases h1 : A.lt eps A.minPos = true
      · simp [h1] at hr
      · by_cases h2 : (A.le A.minPos delta && A.le delta (A.sub A.one A.minPos)) = true
        · by_cases h3 : sens > cap
          · simp [h1, h2, h3] at hr
          · omega
        · simp [h1, h2] at hr
    generalize hk : findSmallestNCapped A cap sens r delta = k at h
    have hcap := find_smallest_n_cap A cap sens r delta hs
    simp only [hk] at hcap
    unfold truncatedNew at h
    by_cases hS : A.lt (A.div A.one eps) A.minPos = true
    · simp [hS] at h
    · by_cases hgt : k > cap
      · simp [hS, hgt] at h
      · simp only [hS, hgt] at h
        cases hdg : doubleGeometricNew A cap (A.div A.one eps) k p with
        | error e => simp [hdg] at h
        | ok u =>
          simp [hdg] at h
          have hkn : k = n := by omega
          subst hkn
          obtain ⟨h1, h2, h3⟩ := hcap.1 (by omega)
          exact ⟨h1, by omega, h2, h3⟩

/-- the search of seed `C12d`: `(Δ..=MAX_SHIFT).find(…).unwrap_or(MAX_SHIFT)` — "not found" clamped to the cap -/
def findSmallestNClamped {α : Type} (A : Arith α) (cap bigDelta : Nat) (r smallDelta : α) : Nat :=
  (findSmallestN A bigDelta r smallDelta (cap + 1 - bigDelta) bigDelta).getD cap

/-- **clamped_search_counterexample** — with a criterion that never holds (tail mass above `δ` at every candidate) the
clamped search answers `cap`, an admissible shift, where the code answers the sentinel `cap + 1`: "not found" has become
indistinguishable from "the cap meets the criterion" (`find_smallest_n_cap` fails for it). -/
theorem clamped_search_counterexample :
    findSmallestNClamped nanArith 5 1 none (some 0) = 5 ∧ findSmallestNCapped nanArith 5 1 none (some 0) = 6 ∧
    nanArith.le (rightHandSide nanArith 5 1 none) (some 0) = false := by decide

end IpaVerif.C12
