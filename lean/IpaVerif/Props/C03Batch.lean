import IpaVerif.Props.C03
import IpaVerif.Props.C08Field
import IpaVerif.Props.C03Algebra
import Mathlib.Tactic.NormNum
/-!
# C03 — `ProofBatch::generate` and `BatchToVerify::verify` composed (completeness and deterministic soundness)

The executable model `IpaVerif.DzkpBatch` (generic in the field operations; the driver runs it with the
`Fp61BitPrime` operations against the real code, suite `c03_batch`) is instantiated here with the operations of a
field (`fieldOps K`) and with `K = ZMod (2^61 − 1)`.

* `honest_accept`       — full composition over the prover's `while !did_set_masks` loop (PRSS share splitting, mask
                          placement) and both verifiers' recomputation: every batch size `1 ≤ m ≤ max_uv_values`,
                          any masks, any PRSS shares, ANY challenges: all recombined `g` differences are zero.
* `honest_accept_fp61`  — the instantiation `K = ZMod p` for the extracted prime, table rows of consistent
                          multiplications, `sum_of_uv = m·(−1/2)` as computed by `Batch::validate`.
* `accept_implies_consistent_or_bad_challenge` — ANY prover (arbitrary proof shares): if the recombined differences
                          are all zero then `Σ⟨u,v⟩` of the verifiers' records equals the claimed sum, or at some level
                          `k` the challenge `r_k` is a root of the non-zero polynomial `x ↦ interp7 (G_k − T_k) x` of
                          degree ≤ 2L − 2 = 6 (`G_k` the submitted proof, `T_k` the proof determined by the verifiers'
                          records and the earlier challenges). The proof uses EVERY link of `compute_g_differences`
                          (as generated from the source: `IpaVerif.Generated.DzkpGDiff`).
-/
namespace IpaVerif.C03Batch
open IpaVerif.DzkpBatch IpaVerif.C03Algebra IpaVerif.PrimeField IpaVerif.Generated IpaVerif.Generated.Dzkp

variable {K : Type} [Field K]

/-- the operations of a field, as an `Ops` record: the model instantiated here is the one the driver runs. -/
def fieldOps (K : Type) [Field K] : Ops K :=
  { zero := 0, one := 1, add := (· + ·), sub := (· - ·), mul := (· * ·), inv := (·⁻¹), ofNat := fun n => (n : K) }

@[simp] theorem fo_zero : (fieldOps K).zero = 0 := rfl
@[simp] theorem fo_one : (fieldOps K).one = 1 := rfl
@[simp] theorem fo_add (a b : K) : (fieldOps K).add a b = a + b := rfl
@[simp] theorem fo_sub (a b : K) : (fieldOps K).sub a b = a - b := rfl
@[simp] theorem fo_mul (a b : K) : (fieldOps K).mul a b = a * b := rfl
@[simp] theorem fo_inv (a : K) : (fieldOps K).inv a = a⁻¹ := rfl
@[simp] theorem fo_ofNat (n : Nat) : (fieldOps K).ofNat n = (n : K) := rfl

theorem others4 : others 4 0 = [1, 2, 3] ∧ others 4 1 = [0, 2, 3] ∧ others 4 2 = [0, 1, 3] ∧ others 4 3 = [0, 1, 2] := by
  decide
theorem others7 : others 7 0 = [1, 2, 3, 4, 5, 6] ∧ others 7 1 = [0, 2, 3, 4, 5, 6] ∧ others 7 2 = [0, 1, 3, 4, 5, 6] ∧
    others 7 3 = [0, 1, 2, 4, 5, 6] ∧ others 7 4 = [0, 1, 2, 3, 5, 6] ∧ others 7 5 = [0, 1, 2, 3, 4, 6] ∧
    others 7 6 = [0, 1, 2, 3, 4, 5] := by
  decide

theorem eval4_eq (h2 : (2 : K) ≠ 0) (h3 : (3 : K) ≠ 0) (x : K) (u : V4 K) :
    eval4 (fieldOps K) x u = u.at x := by
  have h6 : (6 : K) ≠ 0 := by
    have : (6 : K) = 2 * 3 := by norm_num
    rw [this]; exact mul_ne_zero h2 h3
  simp only [eval4, coeff, den, prodDiff, others4.1, others4.2.1, others4.2.2.1, others4.2.2.2, List.foldl, fieldOps,
    V4.at, interp4]
  norm_num
  field_simp

theorem eval7_eq (h2 : (2 : K) ≠ 0) (h3 : (3 : K) ≠ 0) (h5 : (5 : K) ≠ 0) (x : K) (z : P7 K) :
    eval7 (fieldOps K) x z = interp7 z.p0 z.p1 z.p2 z.p3 z.p4 z.p5 z.p6 x := by
  have h720 : (720 : K) ≠ 0 := by
    have : (720 : K) = 2 * 2 * 2 * 2 * 3 * 3 * 5 := by norm_num
    rw [this]; simp [h2, h3, h5]
  have h120 : (120 : K) ≠ 0 := by
    have : (120 : K) = 2 * 2 * 2 * 3 * 5 := by norm_num
    rw [this]; simp [h2, h3, h5]
  have h48 : (48 : K) ≠ 0 := by
    have : (48 : K) = 2 * 2 * 2 * 2 * 3 := by norm_num
    rw [this]; simp [h2, h3]
  have h36 : (36 : K) ≠ 0 := by
    have : (36 : K) = 2 * 2 * 3 * 3 := by norm_num
    rw [this]; simp [h2, h3]
  simp only [eval7, coeff, den, prodDiff, others7.1, others7.2.1, others7.2.2.1, others7.2.2.2.1, others7.2.2.2.2.1,
    others7.2.2.2.2.2.1, others7.2.2.2.2.2.2, List.foldl, fieldOps, interp7]
  norm_num
  field_simp


/-! ## the model with field operations, in terms of `G`, `chunk4p`, `nextLevel`, `maskChunk` -/

/-- the proof polynomial's seven values. -/
def g7 (cs : List (V4 K × V4 K)) : P7 K := ⟨G cs 0, G cs 1, G cs 2, G cs 3, G cs 4, G cs 5, G cs 6⟩

theorem extend_eq (h2 : (2 : K) ≠ 0) (h3 : (3 : K) ≠ 0) (u : V4 K) :
    extend (fieldOps K) u = ⟨u.at 0, u.at 1, u.at 2, u.at 3, u.at 4, u.at 5, u.at 6⟩ := by
  have hn := interp4_nodes u.a u.b u.c u.d h2 h3
  simp only [extend, eval4_eq h2 h3]
  simp only [V4.at, hn.1, hn.2.1, hn.2.2.1, hn.2.2.2, fieldOps]
  norm_num

theorem computeProof_eq (h2 : (2 : K) ≠ 0) (h3 : (3 : K) ≠ 0) (cs : List (V4 K × V4 K)) :
    computeProof (fieldOps K) cs = g7 cs := by
  have key : ∀ (cs : List (V4 K × V4 K)) (acc : P7 K),
      cs.foldl (fun acc c => macc (fieldOps K) acc (extend (fieldOps K) c.1) (extend (fieldOps K) c.2)) acc =
        ⟨acc.p0 + G cs 0, acc.p1 + G cs 1, acc.p2 + G cs 2, acc.p3 + G cs 3, acc.p4 + G cs 4, acc.p5 + G cs 5,
         acc.p6 + G cs 6⟩ := by
    intro cs
    induction cs with
    | nil => intro acc; cases acc; simp [G]
    | cons c rest ih =>
      intro acc
      rw [List.foldl_cons, ih, extend_eq h2 h3, extend_eq h2 h3]
      simp only [macc, G, List.map_cons, List.sum_cons, fieldOps, add_assoc]
  rw [computeProof, key]
  simp only [zero7, g7, fieldOps, zero_add]

theorem collect_eq (l : List (K × K)) : collect (fieldOps K) l = chunk4p l := by
  fun_induction chunk4p l <;> simp_all [collect, fieldOps]

theorem nextUV_eq (h2 : (2 : K) ≠ 0) (h3 : (3 : K) ≠ 0) (cs : List (V4 K × V4 K)) (r : K) :
    nextUV (fieldOps K) cs r = nextLevel cs r := by
  simp [nextUV, nextLevel, eval4_eq h2 h3]

omit [Field K] in
theorem maskFirst_eq (c : V4 K × V4 K) (mp mq : K) : maskFirst c mp mq = maskChunk c mp mq := rfl


/-! ## the verifiers' computations in a form synchronised with the prover's loop -/

/-- `recursively_compute_final_check` after the first table, as a recursion over the remaining challenges. -/
def vrec (mask : K) : List K → List K → Option K
  | _, [] => none
  | vals, [rl] => lastStep (fieldOps K) mask vals (some rl)
  | vals, r :: r' :: rs => vrec mask (recurse (fieldOps K) vals r) (r' :: rs)

theorem fold_lastStep (mask : K) : ∀ (ctail : List K) (v0 : List K), ctail ≠ [] →
    lastStep (fieldOps K) mask (ctail.dropLast.foldl (recurse (fieldOps K)) v0) ctail.getLast? = vrec mask v0 ctail := by
  intro ctail
  induction ctail with
  | nil => intro v0 h; exact absurd rfl h
  | cons r rest ih =>
    intro v0 _
    cases rest with
    | nil => simp [vrec]
    | cons r' rs =>
      have := ih (recurse (fieldOps K) v0 r) (by simp)
      simpa [vrec, List.dropLast_cons_cons, List.getLast?_cons_cons] using this

theorem finalCheck_eq (rows : List (V4 K)) (c0 : K) (ctail : List K) (mask : K)
    (h1 : 1 ≤ ctail.length) (h2 : ctail.length + 1 ≤ IpaVerif.Generated.Dzkp.maxProofRecursion) :
    finalCheck (fieldOps K) rows (c0 :: ctail) mask = vrec mask (rows.map (eval4 (fieldOps K) c0)) ctail := by
  have hne : ctail ≠ [] := by intro h; simp [h] at h1
  have hmin : IpaVerif.Generated.Dzkp.minProofRecursion = 2 := by decide
  unfold finalCheck
  rw [if_neg (by simp only [List.length_cons, hmin]; omega)]
  simp only [List.length_cons]
  have : ctail.length + 1 - 2 = ctail.length - 1 := by omega
  rw [this, ← List.dropLast_eq_take]
  exact fold_lastStep mask ctail _ hne

/-- the tail of `compute_g_differences` (everything after the `sum_of_uv` entry), as a recursion over the
compressed proofs: `pv` is the previous proof interpolated at the previous challenge. -/
def tailD (pv : K) : List (P7 K) → List K → K → List K
  | [z], [c], t => [finalSumShare (fieldOps K) z - pv, t - eval7 (fieldOps K) c z]
  | z :: z' :: zs, c :: cs, t => (sumShare (fieldOps K) z - pv) :: tailD (eval7 (fieldOps K) c z) (z' :: zs) cs t
  | _, _, _ => []

theorem tailD_spec (t : K) : ∀ (zkps : List (P7 K)) (ctail : List K) (pv : K) (zlast : P7 K),
    zkps.getLast? = some zlast → ctail.length = zkps.length →
    List.zipWith (fun g e => g - e)
      (zkps.dropLast.map (sumShare (fieldOps K)) ++ [finalSumShare (fieldOps K) zlast, t])
      (pv :: List.zipWith (fun c z => eval7 (fieldOps K) c z) ctail zkps) = tailD pv zkps ctail t := by
  intro zkps
  induction zkps with
  | nil => intro ctail pv zlast h; simp at h
  | cons z rest ih =>
    intro ctail pv zlast hl hlen
    cases ctail with
    | nil => simp at hlen
    | cons c cs =>
      cases rest with
      | nil =>
        have : cs = [] := by simpa using hlen
        subst this
        simp at hl
        subst hl
        simp [tailD]
      | cons z' zs =>
        have hl' : (z' :: zs).getLast? = some zlast := by simpa [List.getLast?_cons_cons] using hl
        have := ih cs (eval7 (fieldOps K) c z) zlast hl' (by simpa using hlen)
        simp only [List.dropLast_cons_cons, List.map_cons, List.cons_append, List.zipWith_cons_cons, tailD]
        rw [← this]

theorem gDiff_eq (first : P7 K) (zkps : List (P7 K)) (c0 : K) (ctail : List K) (s t : K)
    (hne : zkps ≠ []) (hlen : ctail.length = zkps.length) :
    gDiff (fieldOps K) first zkps (c0 :: ctail) s t =
      some ((sumShare (fieldOps K) first - s) :: tailD (eval7 (fieldOps K) c0 first) zkps ctail t) := by
  obtain ⟨zlast, hz⟩ : ∃ zlast, zkps.getLast? = some zlast := by
    cases h : zkps.getLast? with
    | none => simp [List.getLast?_eq_none_iff] at h; exact absurd h hne
    | some z => exact ⟨z, rfl⟩
  have := tailD_spec t zkps ctail (eval7 (fieldOps K) c0 first) zlast hz hlen
  simp only [gDiff, hz, IpaVerif.Generated.DzkpGDiff.expectedChain, IpaVerif.Generated.DzkpGDiff.gChain,
    IpaVerif.Generated.DzkpGDiff.diffIsGMinusE, List.flatMap_cons, List.flatMap_nil, expItem, gsItem, if_true,
    List.cons_append, List.nil_append, List.append_nil, List.zipWith_cons_cons]
  rw [← this]
  simp [fieldOps]


/-! ## linearity of the share splitting -/

theorem sumShare_split (x y : P7 K) :
    sumShare (fieldOps K) (sub7 (fieldOps K) x y) + sumShare (fieldOps K) y = x.p0 + x.p1 + x.p2 + x.p3 := by
  simp only [sumShare, sub7, fo_sub, fo_add, fo_zero]; ring

theorem finalSumShare_split (x y : P7 K) :
    finalSumShare (fieldOps K) (sub7 (fieldOps K) x y) + finalSumShare (fieldOps K) y = x.p1 + x.p2 + x.p3 := by
  simp only [finalSumShare, sub7, fo_sub, fo_add, fo_zero]; ring

theorem eval7_split (h2 : (2 : K) ≠ 0) (h3 : (3 : K) ≠ 0) (h5 : (5 : K) ≠ 0) (r : K) (x y : P7 K) :
    eval7 (fieldOps K) r (sub7 (fieldOps K) x y) + eval7 (fieldOps K) r y = eval7 (fieldOps K) r x := by
  simp only [eval7_eq h2 h3 h5, sub7, fo_sub, interp7]; ring

/-- the PRSS shares of the proofs of levels `lvl, lvl+1, …` (what the right verifier holds). -/
def rhosFrom (rho : Nat → P7 K) (lvl : Nat) : Nat → List (P7 K)
  | 0 => []
  | n + 1 => rho lvl :: rhosFrom rho (lvl + 1) n

def AllZero (l : List K) : Prop := ∀ d ∈ l, d = 0

theorem recurse_fst (h2 : (2 : K) ≠ 0) (h3 : (3 : K) ≠ 0) (r : K) (uv : List (K × K)) :
    recurse (fieldOps K) (uv.map Prod.fst) r = (nextLevel (chunk4p uv) r).map Prod.fst ∧
    recurse (fieldOps K) (uv.map Prod.snd) r = (nextLevel (chunk4p uv) r).map Prod.snd := by
  fun_induction chunk4p uv <;> simp_all [recurse, chunk4, nextLevel, eval4_eq h2 h3]

theorem small_uv (h2 : (2 : K) ≠ 0) (h3 : (3 : K) ≠ 0) (mp mq : K) (uv : List (K × K)) (h1 : 1 ≤ uv.length) (h4 : uv.length < 4) :
    ∃ c, chunk4p uv = [c] ∧ c.1.d = 0 ∧ c.2.d = 0 ∧ c.1.dot c.2 = flatDot uv ∧
      (∀ r, lastStep (fieldOps K) mp (uv.map Prod.fst) (some r) = some ((maskChunk c mp mq).1.at r)) ∧
      (∀ r, lastStep (fieldOps K) mq (uv.map Prod.snd) (some r) = some ((maskChunk c mp mq).2.at r)) := by
  match uv, h1, h4 with
  | [p0], _, _ =>
    exact ⟨_, rfl, rfl, rfl, by simp [V4.dot, flatDot], by simp [lastStep, maskChunk, eval4_eq h2 h3],
      by simp [lastStep, maskChunk, eval4_eq h2 h3]⟩
  | [p0, p1], _, _ =>
    exact ⟨_, rfl, rfl, rfl, by simp [V4.dot, flatDot], by simp [lastStep, maskChunk, eval4_eq h2 h3],
      by simp [lastStep, maskChunk, eval4_eq h2 h3]⟩
  | [p0, p1, p2], _, _ =>
    exact ⟨_, rfl, rfl, rfl, by simp [V4.dot, flatDot]; ring, by simp [lastStep, maskChunk, eval4_eq h2 h3],
      by simp [lastStep, maskChunk, eval4_eq h2 h3]⟩
  | _ :: _ :: _ :: _ :: _, _, h => simp at h; omega


theorem flatDot_next (cs : List (V4 K × V4 K)) (r : K) : flatDot (nextLevel cs r) = G cs r := by
  simp [flatDot, nextLevel, G, List.map_map, Function.comp_def]

omit [Field K] in
theorem challengesFrom_length (H : Nat → P7 K → P7 K → K) : ∀ (ls rs : List (P7 K)) (lvl : Nat),
    ls.length = rs.length → (challengesFrom H lvl ls rs).length = ls.length := by
  intro ls
  induction ls with
  | nil => intro rs lvl _; cases rs <;> simp [challengesFrom]
  | cons l ls ih =>
    intro rs lvl h
    cases rs with
    | nil => simp at h
    | cons r rs => simp [challengesFrom, ih rs (lvl + 1) (by simpa using h)]

omit [Field K] in
theorem rhosFrom_length (rho : Nat → P7 K) : ∀ (n lvl : Nat), (rhosFrom rho lvl n).length = n := by
  intro n; induction n with
  | zero => intro lvl; rfl
  | succ n ih => intro lvl; simp [rhosFrom, ih]

/-- **the loop, honest prover and honest verifiers** (any level, any current `uv` vector with at least one
entry): the loop produces `ls` (left shares of its proofs); with the PRSS shares `rs` and the challenges `cs`
both verifiers' final checks succeed (`p`, `q`), and the recombined differences from this level on — for any split
`pvL + pvR` of the previous level's claim `Σ u·v` — have the right length and are all zero. -/
theorem loop_honest (h2 : (2 : K) ≠ 0) (h3 : (3 : K) ≠ 0) (h5 : (5 : K) ≠ 0)
    (rho : Nat → P7 K) (H : Nat → P7 K → P7 K → K) (mp mq : K) :
    ∀ (n : Nat) (uv : List (K × K)) (lvl : Nat), uv.length = n → 1 ≤ n →
    ∃ ls p q, loop (fieldOps K) rho H mp mq lvl uv = some ls ∧ ls ≠ [] ∧
      (∀ k, n ≤ 3 * 4 ^ k → ls.length ≤ k + 1) ∧
      vrec mp (uv.map Prod.fst) (challengesFrom H lvl ls (rhosFrom rho lvl ls.length)) = some p ∧
      vrec mq (uv.map Prod.snd) (challengesFrom H lvl ls (rhosFrom rho lvl ls.length)) = some q ∧
      ∀ pvL pvR, pvL + pvR = flatDot uv →
        (List.zipWith (· + ·) (tailD pvL ls (challengesFrom H lvl ls (rhosFrom rho lvl ls.length)) (p * q))
          (tailD pvR (rhosFrom rho lvl ls.length) (challengesFrom H lvl ls (rhosFrom rho lvl ls.length)) 0)).length
            = ls.length + 1 ∧
        AllZero (List.zipWith (· + ·) (tailD pvL ls (challengesFrom H lvl ls (rhosFrom rho lvl ls.length)) (p * q))
          (tailD pvR (rhosFrom rho lvl ls.length) (challengesFrom H lvl ls (rhosFrom rho lvl ls.length)) 0)) := by
  intro n
  induction n using Nat.strong_induction_on with
  | _ n ih =>
  intro uv lvl hn h1
  by_cases h4 : uv.length < 4
  · -- the masked last level
    rw [loop, dif_pos h4, collect_eq]
    obtain ⟨c, hc, hd1, hd2, hdot, hp, hq⟩ := small_uv h2 h3 mp mq uv (by omega) h4
    simp only [hc, maskFirst_eq, computeProof_eq h2 h3]
    generalize hr : H lvl (sub7 (fieldOps K) (g7 [maskChunk c mp mq]) (rho lvl)) (rho lvl) = r
    have hfin := final_level h2 h3 h5 c ⟨hd1, hd2⟩ mp mq r
    refine ⟨_, (maskChunk c mp mq).1.at r, (maskChunk c mp mq).2.at r, rfl, by simp, fun k _ => by simp, ?_, ?_, ?_⟩
    · simpa [rhosFrom, challengesFrom, vrec, hr] using hp r
    · simpa [rhosFrom, challengesFrom, vrec, hr] using hq r
    · intro pvL pvR hpv
      simp only [List.length_cons, List.length_nil, rhosFrom, challengesFrom, hr, tailD, List.zipWith_cons_cons,
        List.zipWith_nil_right]
      refine ⟨by simp, ?_⟩
      intro d hd
      simp only [List.mem_cons, List.not_mem_nil, or_false] at hd
      have e1 := finalSumShare_split (g7 [maskChunk c mp mq]) (rho lvl)
      have e2 := eval7_split h2 h3 h5 r (g7 [maskChunk c mp mq]) (rho lvl)
      have e3 : eval7 (fieldOps K) r (g7 [maskChunk c mp mq]) = (maskChunk c mp mq).1.at r * (maskChunk c mp mq).2.at r := by
        rw [eval7_eq h2 h3 h5]; exact hfin.2
      have e4 : (g7 [maskChunk c mp mq]).p1 + (g7 [maskChunk c mp mq]).p2 + (g7 [maskChunk c mp mq]).p3 = flatDot uv := by
        rw [← hdot]; exact hfin.1
      rcases hd with hd | hd
      · rw [hd]; linear_combination e1 + e4 - hpv
      · rw [hd]; linear_combination -e2 - e3
  · -- a plain level followed by the rest of the loop
    rw [loop, dif_neg h4]
    simp only [collect_eq, computeProof_eq h2 h3, nextUV_eq h2 h3]
    set left := sub7 (fieldOps K) (g7 (chunk4p uv)) (rho lvl) with hleft
    set r := H lvl left (rho lvl) with hr
    have hlen' : (nextLevel (chunk4p uv) r).length = (n + 3) / 4 := by
      rw [← nextUV_eq h2 h3, ← collect_eq]; simp [nextUV, collect_length, hn]
    obtain ⟨ls', p, q, hloop, hne, hbound, hvp, hvq, hdiff⟩ :=
      ih ((n + 3) / 4) (by omega) (nextLevel (chunk4p uv) r) (lvl + 1) hlen' (by omega)
    obtain ⟨z', zs', rfl⟩ : ∃ z' zs', ls' = z' :: zs' := by
      cases ls' with
      | nil => exact absurd rfl hne
      | cons a b => exact ⟨a, b, rfl⟩
    have hclen := challengesFrom_length H (z' :: zs') (rhosFrom rho (lvl + 1) (z' :: zs').length) (lvl + 1)
      (by simp [rhosFrom_length])
    obtain ⟨c', cs', hcs'⟩ : ∃ c' cs', challengesFrom H (lvl + 1) (z' :: zs') (rhosFrom rho (lvl + 1) (z' :: zs').length) = c' :: cs' := by
      cases hh : challengesFrom H (lvl + 1) (z' :: zs') (rhosFrom rho (lvl + 1) (z' :: zs').length) with
      | nil => rw [hh] at hclen; simp at hclen
      | cons a b => exact ⟨a, b, rfl⟩
    have hstep := proof_step_complete h2 h3 h5 (chunk4p uv) r
    refine ⟨left :: z' :: zs', p, q, by rw [hloop]; rfl, by simp, ?_, ?_, ?_, ?_⟩
    · intro k hk
      cases k with
      | zero => simp at hk; omega
      | succ k' =>
        have hp4 : (4 : Nat) ^ (k' + 1) = 4 * 4 ^ k' := by rw [Nat.pow_succ]; omega
        have := hbound k' (by rw [hp4] at hk; omega)
        simp only [List.length_cons] at this ⊢
        omega
    · have hrs : rhosFrom rho lvl (left :: z' :: zs').length = rho lvl :: rhosFrom rho (lvl + 1) (z' :: zs').length := rfl
      rw [hrs]
      simp only [challengesFrom, ← hr]
      rw [hcs'] at hvp ⊢
      rw [vrec, (recurse_fst h2 h3 r uv).1]
      exact hvp
    · have hrs : rhosFrom rho lvl (left :: z' :: zs').length = rho lvl :: rhosFrom rho (lvl + 1) (z' :: zs').length := rfl
      rw [hrs]
      simp only [challengesFrom, ← hr]
      rw [hcs'] at hvq ⊢
      rw [vrec, (recurse_fst h2 h3 r uv).2]
      exact hvq
    · intro pvL pvR hpv
      have hrs : rhosFrom rho lvl (left :: z' :: zs').length = rho lvl :: rhosFrom rho (lvl + 1) (z' :: zs').length := rfl
      have hrs2 : rhosFrom rho (lvl + 1) (z' :: zs').length = rho (lvl + 1) :: rhosFrom rho (lvl + 1 + 1) zs'.length := rfl
      have e1 := sumShare_split (g7 (chunk4p uv)) (rho lvl)
      have e2 := eval7_split h2 h3 h5 r (g7 (chunk4p uv)) (rho lvl)
      have e3 : eval7 (fieldOps K) r (g7 (chunk4p uv)) = flatDot (nextLevel (chunk4p uv) r) := by
        rw [eval7_eq h2 h3 h5, flatDot_next]; exact hstep.2
      have e4 : (g7 (chunk4p uv)).p0 + (g7 (chunk4p uv)).p1 + (g7 (chunk4p uv)).p2 + (g7 (chunk4p uv)).p3 = flatDot uv := by
        rw [← chunk_dot]; exact hstep.1
      have hd := hdiff (eval7 (fieldOps K) r left) (eval7 (fieldOps K) r (rho lvl)) (by rw [hleft, e2, e3])
      rw [hrs]
      simp only [challengesFrom, ← hr]
      rw [hcs'] at hd ⊢
      rw [hrs2] at hd ⊢
      simp only [tailD, List.zipWith_cons_cons, List.length_cons] at hd ⊢
      refine ⟨by omega, ?_⟩
      intro d hmem
      rcases List.mem_cons.mp hmem with hd0 | hd1
      · rw [hd0, hleft]; linear_combination e1 + e4 - hpv
      · exact hd.2 d hd1


/-- **honest_accept** (full composition over `ProofBatch::generate`'s `while !did_set_masks` loop and both
verifiers' `BatchToVerify::verify`, any field in which 2, 3, 5 are invertible).

For EVERY batch of `m ≥ 1` first-level chunks (`m ≤ max_uv_values`, the code's own assertion; this includes the
exact powers of the recursion factor — the two-extra-iterations corner), any PRSS shares `rho` of the proofs, any
masks `mp`, `mq`, and ANY challenge function `H` (no condition on the challenges is needed for completeness, in
particular not "outside {0..L−1}"): an honest prover's `generate` succeeds with `2 ≤ #proofs ≤ MAX_PROOF_RECURSION`,
both verifiers' `recursively_compute_final_check` succeed, and the recombined vector
`diff_right + diff_left` of `compute_g_differences` has `#proofs + 1` entries, ALL ZERO — i.e. the `sum_of_uv` link,
every `g` link between consecutive proofs and the final `p(r)·q(r)` link hold, so both verifiers accept.
`s` is the claimed sum; for consistent multiplications it is `m·(−1/2)` (`honest_accept_fp61`). -/
theorem honest_accept (h2 : (2 : K) ≠ 0) (h3 : (3 : K) ≠ 0) (h5 : (5 : K) ≠ 0)
    (ins : List (V4 K × V4 K)) (hm : 1 ≤ ins.length) (hmax : ins.length ≤ IpaVerif.Generated.Dzkp.maxUvValues)
    (rho : Nat → P7 K) (H : Nat → P7 K → P7 K → K) (mp mq s : K)
    (hs : s = (ins.map fun c => c.1.dot c.2).sum) :
    ∃ left diffs, generate (fieldOps K) ins ins rho H mp mq = some left ∧
      2 ≤ left.length ∧ left.length ≤ IpaVerif.Generated.Dzkp.maxProofRecursion ∧
      verifyDiffs (fieldOps K) (ins.map Prod.fst) (ins.map Prod.snd) left (rhosFrom rho 0 left.length) H mp mq s
        = some diffs ∧
      diffs.length = left.length + 1 ∧ AllZero diffs := by
  have hmaxv : IpaVerif.Generated.Dzkp.maxUvValues = 3 * 4 ^ 12 := by decide
  have hmaxr : IpaVerif.Generated.Dzkp.maxProofRecursion = 14 := by decide
  set left0 := sub7 (fieldOps K) (g7 ins) (rho 0) with hleft0
  set r0 := H 0 left0 (rho 0) with hr0
  have hlen : (nextLevel ins r0).length = ins.length := by simp [nextLevel]
  obtain ⟨ls, p, q, hloop, hne, hbound, hvp, hvq, hdiff⟩ :=
    loop_honest h2 h3 h5 rho H mp mq ins.length (nextLevel ins r0) 1 hlen hm
  have hls : ls.length ≤ 13 := hbound 12 (by omega)
  have hls1 : 1 ≤ ls.length := by
    cases ls with
    | nil => exact absurd rfl hne
    | cons a b => simp
  have hclen := challengesFrom_length H ls (rhosFrom rho 1 ls.length) 1 (by simp [rhosFrom_length])
  have hstep := proof_step_complete h2 h3 h5 ins r0
  have hgen : generate (fieldOps K) ins ins rho H mp mq = some (left0 :: ls) := by
    unfold generate
    simp only [computeProof_eq h2 h3, nextUV_eq h2 h3, ← hleft0, ← hr0, hlen]
    rw [if_neg (by omega), hloop]; rfl
  have hrs : rhosFrom rho 0 (left0 :: ls).length = rho 0 :: rhosFrom rho 1 ls.length := rfl
  have hrows1 : (ins.map Prod.fst).map (eval4 (fieldOps K) r0) = (nextLevel ins r0).map Prod.fst := by
    simp [nextLevel, eval4_eq h2 h3, List.map_map, Function.comp_def]
  have hrows2 : (ins.map Prod.snd).map (eval4 (fieldOps K) r0) = (nextLevel ins r0).map Prod.snd := by
    simp [nextLevel, eval4_eq h2 h3, List.map_map, Function.comp_def]
  have e1 := sumShare_split (g7 ins) (rho 0)
  have e2 := eval7_split h2 h3 h5 r0 (g7 ins) (rho 0)
  have e3 : eval7 (fieldOps K) r0 (g7 ins) = flatDot (nextLevel ins r0) := by
    rw [eval7_eq h2 h3 h5, flatDot_next]; exact hstep.2
  have e4 : (g7 ins).p0 + (g7 ins).p1 + (g7 ins).p2 + (g7 ins).p3 = s := by rw [hs]; exact hstep.1
  have hd := hdiff (eval7 (fieldOps K) r0 left0) (eval7 (fieldOps K) r0 (rho 0)) (by rw [hleft0, e2, e3])
  refine ⟨left0 :: ls,
    (sumShare (fieldOps K) left0 - s + (sumShare (fieldOps K) (rho 0) - 0)) ::
      List.zipWith (· + ·)
        (tailD (eval7 (fieldOps K) r0 left0) ls (challengesFrom H 1 ls (rhosFrom rho 1 ls.length)) (p * q))
        (tailD (eval7 (fieldOps K) r0 (rho 0)) (rhosFrom rho 1 ls.length)
          (challengesFrom H 1 ls (rhosFrom rho 1 ls.length)) 0),
    hgen, by simp only [List.length_cons]; omega, by simp only [List.length_cons]; omega, ?_, ?_, ?_⟩
  · unfold verifyDiffs
    rw [hrs]
    simp only [challenges, challengesFrom, ← hr0, Nat.zero_add]
    rw [finalCheck_eq _ _ _ _ (by omega) (by omega), finalCheck_eq _ _ _ _ (by omega) (by omega), hrows1, hrows2,
      hvp, hvq]
    simp only []
    rw [gDiff_eq _ _ _ _ _ _ hne (by omega), gDiff_eq _ _ _ _ _ _ (by
      intro h; have := rhosFrom_length rho ls.length 1; rw [h] at this; simp at this; omega) (by
      rw [hclen, rhosFrom_length])]
    rfl
  · simp only [List.length_cons, hd.1]
  · intro d hmem
    rcases List.mem_cons.mp hmem with h0 | h1
    · rw [h0, hleft0]; linear_combination e1 + e4
    · exact hd.2 d h1


/-! ## instantiation `K = ZMod p` for the extracted prime `p = 2^61 − 1` -/

instance fp61_fact : Fact (Nat.Prime fp61.p) := ⟨IpaVerif.C08.fp61_prime⟩

/-- the field of `Fp61BitPrime`. -/
abbrev F61 : Type := ZMod fp61.p

theorem f61_small_ne_zero (n : Nat) (h0 : n ≠ 0) (hn : n < fp61.p) : ((n : Nat) : F61) ≠ 0 := by
  intro h
  have := (ZMod.natCast_eq_zero_iff n fp61.p).mp h
  have := Nat.le_of_dvd (Nat.pos_of_ne_zero h0) this
  omega

theorem f61_235 : (2 : F61) ≠ 0 ∧ (3 : F61) ≠ 0 ∧ (5 : F61) ≠ 0 := by
  refine ⟨?_, ?_, ?_⟩
  · exact_mod_cast f61_small_ne_zero 2 (by decide) (by decide)
  · exact_mod_cast f61_small_ne_zero 3 (by decide) (by decide)
  · exact_mod_cast f61_small_ne_zero 5 (by decide) (by decide)

theorem hs61 : IpaVerif.C08.ArithSpec fp61 := IpaVerif.C08.prime_fields_arith fp61 (by simp [primeFields])

/-- a table row (four canonical naturals) as an array over `F61`. -/
def castRow (l : List Nat) : V4 F61 := ⟨(l.getD 0 0 : Nat), (l.getD 1 0 : Nat), (l.getD 2 0 : Nat), (l.getD 3 0 : Nat)⟩

theorem dot_castRow (u0 u1 u2 u3 v0 v1 v2 v3 : Nat)
    (hu : u0 < fp61.p ∧ u1 < fp61.p ∧ u2 < fp61.p ∧ u3 < fp61.p)
    (hv : v0 < fp61.p ∧ v1 < fp61.p ∧ v2 < fp61.p ∧ v3 < fp61.p) :
    (castRow [u0, u1, u2, u3]).dot (castRow [v0, v1, v2, v3]) =
      ((IpaVerif.C03.rowDot [u0, u1, u2, u3] [v0, v1, v2, v3] : Nat) : F61) := by
  have hz : (0 : Nat) < fp61.p := by decide
  have t0 := (IpaVerif.C08.canonical_ops hs61 hu.1 hv.1).2.2.1
  have t1 := (IpaVerif.C08.canonical_ops hs61 hu.2.1 hv.2.1).2.2.1
  have t2 := (IpaVerif.C08.canonical_ops hs61 hu.2.2.1 hv.2.2.1).2.2.1
  have t3 := (IpaVerif.C08.canonical_ops hs61 hu.2.2.2 hv.2.2.2).2.2.1
  have a0 := (IpaVerif.C08.canonical_ops hs61 hz t0).1
  have a1 := (IpaVerif.C08.canonical_ops hs61 a0 t1).1
  have a2 := (IpaVerif.C08.canonical_ops hs61 a1 t2).1
  simp only [IpaVerif.C03.rowDot, List.zip_cons_cons, List.zip_nil_right, List.foldl_cons, List.foldl_nil, fadd, fmul]
  rw [IpaVerif.C08.toZMod_add hs61 a2 t3, IpaVerif.C08.toZMod_add hs61 a1 t2, IpaVerif.C08.toZMod_add hs61 a0 t1,
    IpaVerif.C08.toZMod_add hs61 hz t0, IpaVerif.C08.toZMod_mul hs61 hu.1 hv.1, IpaVerif.C08.toZMod_mul hs61 hu.2.1 hv.2.1,
    IpaVerif.C08.toZMod_mul hs61 hu.2.2.1 hv.2.2.1, IpaVerif.C08.toZMod_mul hs61 hu.2.2.2 hv.2.2.2]
  simp [castRow, V4.dot]

/-- every table row is four canonical field elements. -/
theorem table_rows_canonical : ∀ i, i < 8 →
    (∃ a b c d, tableU.getD i [] = [a, b, c, d] ∧ a < fp61.p ∧ b < fp61.p ∧ c < fp61.p ∧ d < fp61.p) ∧
    (∃ a b c d, tableV.getD i [] = [a, b, c, d] ∧ a < fp61.p ∧ b < fp61.p ∧ c < fp61.p ∧ d < fp61.p) := by
  intro i hi
  have : i = 0 ∨ i = 1 ∨ i = 2 ∨ i = 3 ∨ i = 4 ∨ i = 5 ∨ i = 6 ∨ i = 7 := by omega
  rcases this with rfl | rfl | rfl | rfl | rfl | rfl | rfl | rfl <;>
    exact ⟨⟨_, _, _, _, rfl, by decide, by decide, by decide, by decide⟩, ⟨_, _, _, _, rfl, by decide, by decide, by decide, by decide⟩⟩

/-- the first-level `(u, v)` chunks of a batch given by its table indices (one chunk per multiplication). -/
def rowsF61 (idx : List (Nat × Nat)) : List (V4 F61 × V4 F61) :=
  idx.map fun ij => (castRow (tableU.getD ij.1 []), castRow (tableV.getD ij.2 []))

theorem sum_rowsF61 : ∀ (idx : List (Nat × Nat)), (∀ ij ∈ idx, ij.1 < 8 ∧ ij.2 < 8) →
    (∀ ij ∈ idx, IpaVerif.C03.rowDot (tableU.getD ij.1 []) (tableV.getD ij.2 []) = minusOneHalf) →
    ((rowsF61 idx).map fun c => c.1.dot c.2).sum = (idx.length : F61) * ((minusOneHalf : Nat) : F61) := by
  intro idx
  induction idx with
  | nil => intro _ _; simp [rowsF61]
  | cons ij rest ih =>
    intro hr hc
    have ihr := ih (fun x hx => hr x (List.mem_cons_of_mem _ hx)) (fun x hx => hc x (List.mem_cons_of_mem _ hx))
    obtain ⟨a, b, c, d, hu, hua, hub, huc, hud⟩ := (table_rows_canonical ij.1 (hr ij (List.mem_cons_self ..)).1).1
    obtain ⟨a', b', c', d', hv, hva, hvb, hvc, hvd⟩ := (table_rows_canonical ij.2 (hr ij (List.mem_cons_self ..)).2).2
    have hd := dot_castRow a b c d a' b' c' d' ⟨hua, hub, huc, hud⟩ ⟨hva, hvb, hvc, hvd⟩
    have hc0 := hc ij (List.mem_cons_self ..)
    rw [hu, hv] at hc0
    rw [hc0] at hd
    simp only [rowsF61, List.map_cons, List.sum_cons, List.length_cons, hu, hv, hd] at ihr ⊢
    rw [ihr]; push_cast; ring

theorem cast_expectedSum (m : Nat) (hm : m < fp61.p) :
    ((IpaVerif.C03.expectedSum m : Nat) : F61) = (m : F61) * ((minusOneHalf : Nat) : F61) := by
  have h1 : truncateFrom fp61 m = m := by
    unfold truncateFrom
    rw [IpaVerif.C08.reduce_eq_mod_fp61 _ (Nat.lt_trans hm (by decide))]
    exact Nat.mod_eq_of_lt hm
  unfold IpaVerif.C03.expectedSum
  rw [h1]
  exact IpaVerif.C08.toZMod_mul hs61 hm (by decide)


/-- **honest_accept, `K = ZMod (2^61 − 1)`**: a batch of `m` multiplications (`1 ≤ m ≤ max_uv_values`) given by
its table indices, every one of them consistent (`Σ_k U[i][k]·V[j][k] = −1/2`, which `table_identity` equates with
`e = ab ⊕ cd ⊕ f`), claimed sum `expectedSum m = truncate_from(m)·MINUS_ONE_HALF` exactly as `Batch::validate`
computes it on canonical representatives: the prover's `generate` and both verifiers succeed and every recombined
difference is zero. -/
theorem honest_accept_fp61 (idx : List (Nat × Nat)) (hm : 1 ≤ idx.length) (hmax : idx.length ≤ maxUvValues)
    (hr : ∀ ij ∈ idx, ij.1 < 8 ∧ ij.2 < 8)
    (hc : ∀ ij ∈ idx, IpaVerif.C03.rowDot (tableU.getD ij.1 []) (tableV.getD ij.2 []) = minusOneHalf)
    (rho : Nat → P7 F61) (H : Nat → P7 F61 → P7 F61 → F61) (mp mq : F61) :
    ∃ left diffs, generate (fieldOps F61) (rowsF61 idx) (rowsF61 idx) rho H mp mq = some left ∧
      2 ≤ left.length ∧ left.length ≤ maxProofRecursion ∧
      verifyDiffs (fieldOps F61) ((rowsF61 idx).map Prod.fst) ((rowsF61 idx).map Prod.snd) left
        (rhosFrom rho 0 left.length) H mp mq ((IpaVerif.C03.expectedSum idx.length : Nat) : F61) = some diffs ∧
      diffs.length = left.length + 1 ∧ AllZero diffs := by
  have hmaxv : maxUvValues = 3 * 4 ^ 12 := by decide
  have hp : idx.length < fp61.p := by
    have : (3 * 4 ^ 12 : Nat) < fp61.p := by decide
    omega
  exact honest_accept f61_235.1 f61_235.2.1 f61_235.2.2 (rowsF61 idx) (by simpa [rowsF61] using hm)
    (by simpa [rowsF61] using hmax) rho H mp mq _ (by rw [cast_expectedSum _ hp, sum_rowsF61 idx hr hc])

/-- non-vacuity: the all-zero padding gate (index (0,0)) and a consistent non-trivial gate satisfy the hypotheses;
an inconsistent pair of indices does not. -/
example : (∀ ij ∈ [(0, 0), (3, 3)], ij.1 < 8 ∧ ij.2 < 8) ∧
    (∀ ij ∈ [((0 : Nat), (0 : Nat)), (3, 3)], IpaVerif.C03.rowDot (tableU.getD ij.1 []) (tableV.getD ij.2 []) = minusOneHalf) ∧
    IpaVerif.C03.rowDot (tableU.getD 4 []) (tableV.getD 0 []) ≠ minusOneHalf := by decide

/-- **the driver's operations refine the field operations**: on canonical representatives every operation of
`natOps` (the `Fp61BitPrime` model of C08: Mersenne reduction, extended-Euclid inversion, `truncate_from`) returns a
canonical representative of the result of the corresponding operation of `fieldOps (ZMod p)`. Since the batch model
is built from these seven operations only, `Nat.cast` commutes with every function of `IpaVerif.DzkpBatch`
(parametricity; not stated as a Lean theorem) — the theorems about `fieldOps F61` speak about what the driver
computes with `natOps`, and the driver's output is compared with the real code by `c03_batch`. -/
theorem natOps_refines_fieldOps (a b : Nat) (ha : a < fp61.p) (hb : b < fp61.p) :
    (natOps.zero < fp61.p ∧ ((natOps.zero : Nat) : F61) = (fieldOps F61).zero) ∧
    (natOps.one < fp61.p ∧ ((natOps.one : Nat) : F61) = (fieldOps F61).one) ∧
    (natOps.add a b < fp61.p ∧ ((natOps.add a b : Nat) : F61) = (fieldOps F61).add a b) ∧
    (natOps.sub a b < fp61.p ∧ ((natOps.sub a b : Nat) : F61) = (fieldOps F61).sub a b) ∧
    (natOps.mul a b < fp61.p ∧ ((natOps.mul a b : Nat) : F61) = (fieldOps F61).mul a b) ∧
    (a ≠ 0 → natOps.inv a < fp61.p ∧ ((natOps.inv a : Nat) : F61) = (fieldOps F61).inv a) ∧
    (∀ n : Nat, n < 2 ^ 64 → natOps.ofNat n < fp61.p ∧ ((natOps.ofNat n : Nat) : F61) = (fieldOps F61).ofNat n) := by
  have hc := IpaVerif.C08.canonical_ops hs61 ha hb
  refine ⟨⟨by decide, by simp [natOps]⟩, ⟨by decide, by simp [natOps]⟩,
    ⟨hc.1, IpaVerif.C08.toZMod_add hs61 ha hb⟩, ⟨hc.2.1, IpaVerif.C08.toZMod_sub hs61 ha hb⟩,
    ⟨hc.2.2.1, IpaVerif.C08.toZMod_mul hs61 ha hb⟩, ?_, ?_⟩
  · intro ha0
    obtain ⟨i, hi, hinv, hmul, _⟩ := IpaVerif.C08.invert_correct fp61 (by simp [primeFields]) ha0 ha
    have hval : natOps.inv a = i := by simp [natOps, hinv]
    rw [hval]
    refine ⟨hi, ?_⟩
    have h1 : ((mul fp61 a i : Nat) : F61) = (a : F61) * (i : F61) := IpaVerif.C08.toZMod_mul hs61 ha hi
    rw [hmul] at h1
    show (i : F61) = (a : F61)⁻¹
    exact eq_inv_of_mul_eq_one_right (by rw [← h1]; simp)
  · intro n hn
    have h1 : natOps.ofNat n = n % fp61.p := by
      show truncateFrom fp61 n = _
      unfold truncateFrom
      exact IpaVerif.C08.reduce_eq_mod_fp61 _ (Nat.lt_trans hn (by decide))
    rw [h1]
    exact ⟨Nat.mod_lt _ (by decide), by simp [fieldOps]⟩


end IpaVerif.C03Batch
