import IpaVerif.Proofs.C08Acc
/-!
# C08 — the deferred-reduction accumulator agrees with the plain field dot product

For `Fp61BitPrime` (`Accumulator<Fp61BitPrime, u128, INTERVAL>` with the extracted `INTERVAL`):
for **every** sequence of canonical operand pairs (any length, in particular around the reduce
interval) the `u128` accumulator never overflows and `take()` equals the dot product computed with a
reduction after every operation, and both equal the exact integer dot product modulo `PRIME`.
The other fields use the generic accumulator (the field itself), i.e. `plainDot` by definition.
-/
namespace IpaVerif.C08
open IpaVerif.PrimeField IpaVerif.Generated IpaVerif.Acc

theorem accumulator_agrees (pairs : List (Nat × Nat)) (h : ∀ ab ∈ pairs, ab.1 < fp61.p ∧ ab.2 < fp61.p) :
    accDot fp61 accInterval pairs = some (plainDot fp61 pairs) ∧
    plainDot fp61 pairs = sumProd pairs % fp61.p := by
  have h' : ∀ ab ∈ pairs, ab.1 < p61 ∧ ab.2 < p61 := h
  constructor
  · show accDot fp61 64 pairs = _
    rw [accDot_eq pairs h', plainDot_eq pairs h']
  · exact plainDot_eq pairs h'

/-- Non-vacuity and the reduce boundary: 65 copies of `(p-1)·(p-1)` do not overflow. -/
example : accDot fp61 accInterval (List.replicate 65 (2305843009213693950, 2305843009213693950)) = some 65 := by
  decide +kernel

/-- the bound is tight: with `INTERVAL = 65` the same input *would* overflow the `u128`. -/
theorem accumulator_interval_65_overflows :
    accDot fp61 65 (List.replicate 65 (2305843009213693950, 2305843009213693950)) = none := by decide +kernel

end IpaVerif.C08
