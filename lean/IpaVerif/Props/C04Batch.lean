import IpaVerif.Props.C04Down
import IpaVerif.Props.C04Count
/-!
# C04 — batches of one validator: a fresh key per batch, opened by that batch's validation

`Model/Mac.lean`, `runBatches`: the batches of one `BatchValidator` run in order; batch `b` computes under the key
`prss (keyIndex b)` — `Malicious::new(ctx, b)` draws `r` at the PRSS index `r_share_record(b, 3) = 3b + 2`
(`keyPerBatch`, re-read from the sources) — and its validation OPENS that key (`validateOpensKey`).  What the
deviating helper does in batch `b` (`adv b opened`) may depend on every key opened before.

* `batch_key_fresh` — distinct batches draw their keys at distinct PRSS indices, which are also distinct from every
  `u`/`w` zero-share index.
* `validation_opens_key` — after `n` batches the opened keys are exactly `r_0, …, r_{n−1}`.
* `adversary_view_independent_of_key` — everything that happens before batch `b` (outcomes, opened keys — hence the
  adversary's choice for batch `b`) is the same for any two PRSS streams that differ only at `keyIndex b`.
* `adaptive_accept_iff` — batch `b` = honest gates, ONE multiplication attacked with errors chosen from the opened
  keys, honest gates: accepted iff `ρ̂·((α̂ + c)·(δ′ − r̂_b·δ)) = 0`.
* `adaptive_attack_detected` — over a finite field, with the errors `(δ, δ′) ≠ (0,0)` an arbitrary function of the
  opened keys: among all `(r_b, α, ρ)` at most `3|F|² − 3|F| + 1` make batch `b` accept — the bound of
  `single_attack_bad_set_card` applies to every batch, whatever was opened before.
* `fresh_key_per_batch_needed` — with ONE key for all batches (`keyIdx = fun _ => k₀`) the helper that has seen the
  key opened by batch 0 adds `d` to its `x·y` message and `r·d` to its `rx·y` message in batch 1: that batch is accepted
  for every `α`, `ρ`, and the product is off by `d`.
-/
namespace IpaVerif.C04
open IpaVerif.Sharing IpaVerif.Mac IpaVerif.Generated.Mac

/-- **batch_key_fresh** -/
theorem batch_key_fresh (b b' : Nat) :
    keyIndex b = rShareRecord b totalCallsToPrss ∧
    (b ≠ b' → keyIndex b ≠ keyIndex b') ∧
    (∀ o, keyIndex b ≠ uRecord o totalCallsToPrss ∧ keyIndex b ≠ wRecord o totalCallsToPrss) := by
  simp only [keyIndex, keyPerBatch, if_true, rShareRecord, uRecord, wRecord, totalCallsToPrss, rShareRecordAdd,
    uRecordAdd, wRecordAdd]
  refine ⟨trivial, fun h => by omega, fun o => ⟨by omega, by omega⟩⟩

section general
variable {F : Type} [DecidableEq F]

/-- a run of `n` batches reads the PRSS stream only at the key indices of those batches, and the adversary only at
batches `< n`. -/
theorem runBatchesWith_congr (A : Alg F) (keyIdx : Nat → Nat) (prss prss' : Nat → World F)
    (adv adv' : Nat → List F → BatchIn F) (n : Nat)
    (hp : ∀ m, m < n → prss (keyIdx m) = prss' (keyIdx m)) (ha : ∀ m, m < n → ∀ o, adv m o = adv' m o) :
    runBatchesWith A keyIdx prss adv n = runBatchesWith A keyIdx prss' adv' n := by
  induction n with
  | zero => rfl
  | succ n ih =>
    have ih' := ih (fun m hm => hp m (by omega)) (fun m hm => ha m (by omega))
    simp only [runBatchesWith, ih', hp n (by omega), ha n (by omega)]

/-- **validation_opens_key** -/
theorem validation_opens_key (A : Alg F) (keyIdx : Nat → Nat) (prss : Nat → World F)
    (adv : Nat → List F → BatchIn F) (n : Nat) :
    (runBatchesWith A keyIdx prss adv n).2 = (List.range n).map (fun b => reconstruct A (prss (keyIdx b))) ∧
    (runBatchesWith A keyIdx prss adv n).1.length = n := by
  induction n with
  | zero => exact ⟨rfl, rfl⟩
  | succ n ih =>
    simp only [runBatchesWith, validateOpensKey, if_true, ih.1, ih.2, List.range_succ, List.map_append, List.map_cons,
      List.map_nil, List.length_append, List.length_cons, List.length_nil]
    exact ⟨trivial, trivial⟩

/-- **adversary_view_independent_of_key** -/
theorem adversary_view_independent_of_key (A : Alg F) (prss prss' : Nat → World F)
    (adv : Nat → List F → BatchIn F) (b : Nat) (h : ∀ i, i ≠ keyIndex b → prss i = prss' i) :
    runBatches A prss adv b = runBatches A prss' adv b ∧
    adv b (runBatches A prss adv b).2 = adv b (runBatches A prss' adv b).2 := by
  have : runBatches A prss adv b = runBatches A prss' adv b :=
    runBatchesWith_congr A keyIndex prss prss' adv adv b
      (fun m hm => h _ ((batch_key_fresh m b).2.1 (by omega))) (fun _ _ _ => rfl)
  exact ⟨this, by rw [this]⟩

/-- verdict of the last batch -/
def lastOk (o : List (BatchOut F) × List F) : Option Bool := o.1.getLast?.map (·.ok)

theorem lastOk_succ (A : Alg F) (keyIdx : Nat → Nat) (prss : Nat → World F) (adv : Nat → List F → BatchIn F) (n : Nat) :
    lastOk (runBatchesWith A keyIdx prss adv (n + 1)) =
      some (let bi := adv n (runBatchesWith A keyIdx prss adv n).2
            let r := prss (keyIdx n)
            validateE A r (run A r bi.gates ⟨[], initAcc A bi.mu bi.mw⟩).acc bi.ve bi.czρ bi.czMask) := by
  simp [lastOk, runBatchesWith]

end general

variable {R : Type} [CommRing R]

/-- batch `b` of the attack: honest gates `gs₀`, one multiplication with errors `e` (value part) and `e'` (MAC part),
honest gates `gs₁`; no error on the validation messages. -/
def attackedBatch (mu mw : Masks R) (gs₀ gs₁ : List (Gate R)) (i j : Nat) (ρ ρ' czρ : Masks R) (e e' : Err R)
    (α czMask : World R) : BatchIn R :=
  ⟨mu, mw, gs₀ ++ Gate.mul i j ρ ρ' α e e' :: gs₁, noValErr (ringAlg R), czρ, czMask⟩

/-- **adaptive_accept_iff** — the errors on the attacked multiplication of batch `b` are chosen from the keys opened
by batches `0 … b−1` (`errs`): accepted iff `ρ̂·((α̂ + c)·(δ′ − r̂_b·δ)) = 0`, `r̂_b` the key of batch `b`. -/
theorem adaptive_accept_iff [DecidableEq R] (prss : Nat → World R) (adv : Nat → List R → BatchIn R) (b : Nat)
    (hkey : Consistent (prss (keyIndex b)))
    (mu mw : Masks R) (gs₀ gs₁ : List (Gate R)) (hok0 : ∀ g ∈ gs₀, GateOk g) (hok1 : ∀ g ∈ gs₁, GateOk g)
    (h0 : ∀ g ∈ gs₀, GateHonest g) (h1 : ∀ g ∈ gs₁, GateHonest g) (i j : Nat) (ρ ρ' czρ : Masks R)
    (α czMask : World R) (hα : Consistent α) (hcz : Consistent czMask) (errs : List R → Err R × Err R)
    (hadv : ∀ opened, adv b opened
      = attackedBatch mu mw gs₀ gs₁ i j ρ ρ' czρ (errs opened).1 (errs opened).2 α czMask) :
    let opened := (runBatches (ringAlg R) prss adv b).2
    let e := (errs opened).1
    let e' := (errs opened).2
    let c := kterms gs₁ (kInit gs₀ ++ [((plain gs₀ []).getD i 0 * (plain gs₀ []).getD j 0 + errSum e, 1)])
    lastOk (runBatches (ringAlg R) prss adv (b + 1)) = some true ↔
      rec czMask * ((rec α + c) * (errSum e' - rec (prss (keyIndex b)) * errSum e)) = 0 := by
  intro opened e e' c
  have hs := single_attack_accept_iff (prss (keyIndex b)) hkey mu mw gs₀ gs₁ hok0 hok1 h0 h1 i j ρ ρ' α hα e e' czρ
    czMask hcz
  simp only at hs
  rw [← hs]
  unfold runBatches
  rw [lastOk_succ]
  simp only [Option.some.injEq]
  show validateE _ _ (run _ _ (adv b opened).gates ⟨[], initAcc _ (adv b opened).mu (adv b opened).mw⟩).acc
      (adv b opened).ve (adv b opened).czρ (adv b opened).czMask = true ↔ _
  rw [hadv opened]
  rfl

section counting
variable {F : Type} [Field F] [Fintype F] [DecidableEq F]

/-- **adaptive_attack_detected** — finite field `F`; batches `0 … b−1` arbitrary (`adv`); in batch `b` the deviating
helper attacks one multiplication with errors `errs opened` that are an ARBITRARY function of the keys opened so far.
Let the key of batch `b`, the random coefficient of the attacked gate and the check-zero mask range over `F`
(`share v _ _` with any fixed random shares): if the chosen errors are not both zero, at most `3|F|² − 3|F| + 1` of the
`|F|³` triples make batch `b` accept. -/
theorem adaptive_attack_detected (prss : Nat → World F) (adv : Nat → List F → BatchIn F) (b : Nat)
    (mu mw : Masks F) (gs₀ gs₁ : List (Gate F)) (hok0 : ∀ g ∈ gs₀, GateOk g) (hok1 : ∀ g ∈ gs₁, GateOk g)
    (h0 : ∀ g ∈ gs₀, GateHonest g) (h1 : ∀ g ∈ gs₁, GateHonest g) (i j : Nat) (ρ ρ' czρ : Masks F)
    (errs : List F → Err F × Err F) (s1 s2 a1 a2 z1 z2 : F) :
    let prssWith (rv : F) : Nat → World F := fun k => if k = keyIndex b then share (ringAlg F) rv s1 s2 else prss k
    let advWith (αv ρv : F) : Nat → List F → BatchIn F := fun n opened =>
      if n = b then attackedBatch mu mw gs₀ gs₁ i j ρ ρ' czρ (errs opened).1 (errs opened).2
        (share (ringAlg F) αv a1 a2) (share (ringAlg F) ρv z1 z2)
      else adv n opened
    let opened := (runBatches (ringAlg F) prss adv b).2
    (errSum (errs opened).1 ≠ 0 ∨ errSum (errs opened).2 ≠ 0) →
    (Finset.univ.filter (fun p : F × F × F =>
        lastOk (runBatches (ringAlg F) (prssWith p.1) (advWith p.2.1 p.2.2) (b + 1)) = some true)).card
      ≤ 3 * Fintype.card F ^ 2 - 3 * Fintype.card F + 1 := by
  intro prssWith advWith opened hne
  have hshare : ∀ v x y : F, Consistent (share (ringAlg F) v x y) ∧ rec (share (ringAlg F) v x y) = v := by
    intro v x y
    refine ⟨⟨rfl, rfl, rfl⟩, ?_⟩
    simp only [rec, reconstruct, share, ofShares, ringAlg]; ring
  -- what happened before batch `b` does not depend on `(r_b, α, ρ)`
  have hpre : ∀ p : F × F × F,
      (runBatches (ringAlg F) (prssWith p.1) (advWith p.2.1 p.2.2) b).2 = opened := by
    intro p
    have := runBatchesWith_congr (ringAlg F) keyIndex (prssWith p.1) prss (advWith p.2.1 p.2.2) adv b
      (fun m hm => by
        have : keyIndex m ≠ keyIndex b := (batch_key_fresh m b).2.1 (by omega)
        simp [prssWith, this])
      (fun m hm o => by
        have : m ≠ b := by omega
        simp [advWith, this])
    unfold runBatches
    rw [this]
    rfl
  let c := kterms gs₁ (kInit gs₀ ++
    [((plain gs₀ []).getD i 0 * (plain gs₀ []).getD j 0 + errSum (errs opened).1, 1)])
  have hiff : ∀ p : F × F × F,
      lastOk (runBatches (ringAlg F) (prssWith p.1) (advWith p.2.1 p.2.2) (b + 1)) = some true ↔
        p.2.2 * ((p.2.1 + c) * (errSum (errs opened).2 - p.1 * errSum (errs opened).1)) = 0 := by
    intro p
    have hk : prssWith p.1 (keyIndex b) = share (ringAlg F) p.1 s1 s2 := by simp [prssWith]
    have := adaptive_accept_iff (prssWith p.1) (advWith p.2.1 p.2.2) b (by rw [hk]; exact (hshare _ _ _).1)
      mu mw gs₀ gs₁ hok0 hok1 h0 h1 i j ρ ρ' czρ (share (ringAlg F) p.2.1 a1 a2) (share (ringAlg F) p.2.2 z1 z2)
      (hshare _ _ _).1 (hshare _ _ _).1 errs (fun o => by simp [advWith])
    simp only [hpre p, hk, (hshare _ _ _).2] at this
    exact this
  have hset : Finset.univ.filter (fun p : F × F × F =>
        lastOk (runBatches (ringAlg F) (prssWith p.1) (advWith p.2.1 p.2.2) (b + 1)) = some true)
      = Finset.univ.filter (fun p : F × F × F =>
        p.2.2 * ((p.2.1 + c) * (errSum (errs opened).2 - p.1 * errSum (errs opened).1)) = 0) := by
    apply Finset.filter_congr
    intro p _
    exact hiff p
  rw [hset]
  exact single_attack_bad_set_card _ _ c hne

end counting

/-- non-vacuity of `adaptive_attack_detected` / `adaptive_accept_iff`: an adversary whose errors really depend on the
opened key (`δ = d`, `δ′ = r₀·d` — the attack of `fresh_key_per_batch_needed`), on a circuit satisfying the
hypotheses. -/
example (x y r1 r2 t1 t2 a1 a2 a3 k1 k2 k3 d : R) :
    let X := share (ringAlg R) x r1 r2
    let Y := share (ringAlg R) y t1 t2
    let α := share (ringAlg R) a1 a2 a3
    let ρ : Masks R := ⟨k1, k2, k3⟩
    let z := noErr (ringAlg R)
    let gs₀ : List (Gate R) := [.upgrade X ρ α z, .upgrade Y ρ α z]
    let errs : List R → Err R × Err R := fun opened => (⟨d, 0, 0⟩, ⟨opened.headD 0 * d, 0, 0⟩)
    (∀ g ∈ gs₀, GateOk g) ∧ (∀ g ∈ gs₀, GateHonest g) ∧ errSum (errs [7]).1 = d ∧ errSum (errs [7]).2 = 7 * d := by
  intro X Y α ρ z gs₀ errs
  have hc : ∀ a b c : R, Consistent (share (ringAlg R) a b c) := fun _ _ _ => ⟨rfl, rfl, rfl⟩
  refine ⟨?_, ?_, by simp [errs, errSum], by simp [errs, errSum]⟩
  · intro g hg
    simp only [gs₀, List.mem_cons, List.mem_nil_iff, or_false] at hg
    rcases hg with rfl | rfl <;> simp [GateOk, X, Y, α, hc]
  · intro g hg
    simp only [gs₀, List.mem_cons, List.mem_nil_iff, or_false] at hg
    rcases hg with rfl | rfl <;> simp [GateHonest, z, noErr, errSum, ringAlg]

/-- **fresh_key_per_batch_needed** — the model with ONE key for all batches (`keyIdx = fun _ => k₀`: what
`keyPerBatch = false` would mean).  Batch 0 is arbitrary.  In batch 1 (inputs `x`, `y` upgraded honestly, then their
product) the deviating helper adds `d` to its message of `x·y` and `r₀·d` to its message of `rx·y`, `r₀` = the key it
saw opened by batch 0.  Then, for EVERY random coefficient, mask and check-zero value: batch 1 is accepted and the
product wire is a consistent sharing of `x·y + d`. -/
theorem fresh_key_per_batch_needed [DecidableEq R] (k₀ : Nat) (prss : Nat → World R) (hk : Consistent (prss k₀))
    (batch0 : List R → BatchIn R) (mu mw ρx ρy ρ ρ' czρ : Masks R) (X Y αx αy α czMask : World R)
    (hX : Consistent X) (hY : Consistent Y) (hαx : Consistent αx) (hαy : Consistent αy) (hα : Consistent α)
    (hcz : Consistent czMask) (d : R) :
    let z := noErr (ringAlg R)
    let adv : Nat → List R → BatchIn R := fun n opened =>
      if n = 0 then batch0 opened
      else ⟨mu, mw, [.upgrade X ρx αx z, .upgrade Y ρy αy z,
              .mul 0 1 ρ ρ' α ⟨d, 0, 0⟩ ⟨opened.headD 0 * d, 0, 0⟩], noValErr (ringAlg R), czρ, czMask⟩
    let out := runBatchesWith (ringAlg R) (fun _ => k₀) prss adv 2
    lastOk out = some true ∧
    (out.1.getLast?.map (fun o => (o.wires.map (fun m => rec m.x)).getD 2 0)) = some (rec X * rec Y + d) ∧
    (∀ o ∈ out.1.getLast?, ∀ m ∈ o.wires, MConsistent m) := by
  intro z adv out
  -- the key opened by batch 0 is the key of batch 1
  have hopen : (runBatchesWith (ringAlg R) (fun _ => k₀) prss adv 1).2 = [rec (prss k₀)] := by
    simp [runBatchesWith, validateOpensKey]
  let gs : List (Gate R) := [.upgrade X ρx αx z, .upgrade Y ρy αy z]
  let g : Gate R := .mul 0 1 ρ ρ' α ⟨d, 0, 0⟩ ⟨rec (prss k₀) * d, 0, 0⟩
  have hb1 : adv 1 [rec (prss k₀)] = ⟨mu, mw, gs ++ [g], noValErr (ringAlg R), czρ, czMask⟩ := by
    simp [adv, gs, g]
  have hok : ∀ g' ∈ gs, GateOk g' := by
    intro g' hg'
    simp only [gs, List.mem_cons, List.mem_nil_iff, or_false] at hg'
    rcases hg' with rfl | rfl <;> simp [GateOk, hX, hY, hαx, hαy]
  have hh : ∀ g' ∈ gs, GateHonest g' := by
    intro g' hg'
    simp only [gs, List.mem_cons, List.mem_nil_iff, or_false] at hg'
    rcases hg' with rfl | rfl <;> simp [GateHonest, z, noErr, errSum, ringAlg]
  have hokall : ∀ g' ∈ gs ++ [g], GateOk g' := by
    intro g' hg'
    rcases List.mem_append.mp hg' with h | h
    · exact hok _ h
    · rw [List.mem_singleton.mp h]; exact hα
  -- T of batch 1
  have hT := (single_gate_attack_T (prss k₀) hk mu mw gs hok hh).2 0 1 ρ ρ' α ⟨d, 0, 0⟩ ⟨rec (prss k₀) * d, 0, 0⟩ hα
  have hT0 : rec (tOf (ringAlg R) (rec (prss k₀))
      (run (ringAlg R) (prss k₀) (gs ++ [g]) ⟨[], initAcc (ringAlg R) mu mw⟩).acc (noValErr (ringAlg R))) = 0 := by
    rw [hT]; simp [errSum]
  have hTc := (additive_attack_T (prss k₀) hk mu mw (gs ++ [g]) hokall (noValErr (ringAlg R))).1
  have hrel : Rel (rec (prss k₀)) (run (ringAlg R) (prss k₀) (gs ++ [g]) ⟨[], initAcc (ringAlg R) mu mw⟩)
      (prun (rec (prss k₀)) (gs ++ [g]) ([], 0)) :=
    run_rel (rec (prss k₀)) (prss k₀) hk rfl _ hokall _ _ (init_rel _ mu mw)
  have hlast : out.1.getLast? = some ⟨(run (ringAlg R) (prss k₀) (gs ++ [g]) ⟨[], initAcc (ringAlg R) mu mw⟩).wires,
      validateE (ringAlg R) (prss k₀) (run (ringAlg R) (prss k₀) (gs ++ [g]) ⟨[], initAcc (ringAlg R) mu mw⟩).acc
        (noValErr (ringAlg R)) czρ czMask⟩ := by
    show (runBatchesWith (ringAlg R) (fun _ => k₀) prss adv 2).1.getLast? = _
    rw [runBatchesWith]
    simp only [hopen, hb1, List.getLast?_append, List.getLast?_singleton, Option.some_or]
  refine ⟨?_, ?_, ?_⟩
  · simp only [lastOk, hlast, Option.map_some, Option.some.injEq, validateE, decide_eq_true_eq]
    rw [checkZero_value czρ czMask _ _ hcz hTc, hT0]
    simp [noValErr, noErr, errSum, ringAlg]
  · rw [hlast]
    simp only [Option.map_some, Option.some.injEq]
    have : (run (ringAlg R) (prss k₀) (gs ++ [g]) ⟨[], initAcc (ringAlg R) mu mw⟩).wires.map (fun m => rec m.x)
        = ((run (ringAlg R) (prss k₀) (gs ++ [g]) ⟨[], initAcc (ringAlg R) mu mw⟩).wires.map
            (pwOf (rec (prss k₀)))).map PW.val := by
      simp [List.map_map, pwOf, Function.comp_def]
    rw [this, hrel.2.1]
    simp [gs, g, prun, pstep, pget, errSum]
  · intro o ho m hm
    rw [hlast] at ho
    cases ho
    exact hrel.1 m hm

end IpaVerif.C04
