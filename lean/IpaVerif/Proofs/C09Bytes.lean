import IpaVerif.Model.Serde
/-! Little-endian byte lemmas used by the C09 theorems. -/
namespace IpaVerif.C09
open IpaVerif.Util IpaVerif.Serde

def Bytes (bs : List Nat) : Prop := ∀ b ∈ bs, b < 256

theorem leBytes_length (v n : Nat) : (leBytes v n).length = n := by
  induction n generalizing v with
  | zero => rfl
  | succ n ih => simp [leBytes, ih]

theorem leBytes_bytes (v n : Nat) : Bytes (leBytes v n) := by
  induction n generalizing v with
  | zero => intro b hb; simp [leBytes] at hb
  | succ n ih =>
    intro b hb
    simp only [leBytes, List.mem_cons] at hb
    rcases hb with rfl | hb
    · omega
    · exact ih _ b hb

theorem ofLeBytes_leBytes (v n : Nat) : ofLeBytes (leBytes v n) = v % 256 ^ n := by
  induction n generalizing v with
  | zero => simp [leBytes, ofLeBytes, Nat.mod_one]
  | succ n ih =>
    simp only [leBytes, ofLeBytes, ih]
    rw [Nat.pow_succ, Nat.mul_comm (256 ^ n) 256, Nat.mod_mul]

theorem ofLeBytes_lt (bs : List Nat) (h : Bytes bs) : ofLeBytes bs < 256 ^ bs.length := by
  induction bs with
  | nil => simp [ofLeBytes]
  | cons b bs ih =>
    have hb : b < 256 := h b (by simp)
    have := ih (fun x hx => h x (by simp [hx]))
    simp only [ofLeBytes, List.length_cons, Nat.pow_succ]
    omega

theorem leBytes_ofLeBytes (bs : List Nat) (h : Bytes bs) : leBytes (ofLeBytes bs) bs.length = bs := by
  induction bs with
  | nil => rfl
  | cons b bs ih =>
    have hb : b < 256 := h b (by simp)
    have := ih (fun x hx => h x (by simp [hx]))
    simp only [ofLeBytes, List.length_cons, leBytes]
    have h1 : (b + 256 * ofLeBytes bs) % 256 = b := by omega
    have h2 : (b + 256 * ofLeBytes bs) / 256 = ofLeBytes bs := by omega
    rw [h1, h2, this]

end IpaVerif.C09
