/-!
# Carry-less multiplication on `Nat` (polynomials over GF(2) as bit patterns)

`cl a b` is the product of the GF(2)[x] polynomials with coefficient vectors `a`, `b`
(bit `i` = coefficient of `x^i`), defined by the bit recursion
`cl a b = (if b is odd then a else 0) ^^^ 2 * cl a (b / 2)`.
This file proves, in core Lean only, that `(Nat, ^^^, cl)` is a commutative ring without zero
divisors (`cl` is xor-bilinear, commutative, associative, has unit `1`, and degrees add).
-/
namespace IpaVerif.Clmul

def cl (a b : Nat) : Nat :=
  if b = 0 then 0 else (if b % 2 = 1 then a else 0) ^^^ (cl a (b / 2)) <<< 1
termination_by b
decreasing_by omega

theorem cl_zero_right (a : Nat) : cl a 0 = 0 := by rw [cl]; simp

/-- the defining recursion, valid for every `b` -/
theorem cl_step (a b : Nat) : cl a b = (if b % 2 = 1 then a else 0) ^^^ (cl a (b / 2)) <<< 1 := by
  by_cases h : b = 0
  · subst h; simp [cl_zero_right]
  · rw [cl]; simp [h]

theorem bit_decomp (b : Nat) : (if b % 2 = 1 then 1 else 0) ^^^ (b / 2) <<< 1 = b := by
  apply Nat.eq_of_testBit_eq
  intro i
  by_cases h : b % 2 = 1
  · simp only [h, if_true]
    cases i with
    | zero => simp [Nat.testBit_zero, h]
    | succ i => rw [Nat.testBit_xor, Nat.testBit_shiftLeft]; simp [Nat.testBit_succ]
  · simp only [h, if_false]
    cases i with
    | zero => simp [Nat.testBit_zero, h]
    | succ i => rw [Nat.testBit_xor, Nat.testBit_shiftLeft]; simp [Nat.testBit_succ]

theorem cl_zero_left (b : Nat) : cl 0 b = 0 := by
  induction b using Nat.strongRecOn with
  | _ b ih =>
    by_cases h : b = 0
    · subst h; exact cl_zero_right 0
    · rw [cl_step, ih (b / 2) (by omega)]; simp

theorem cl_xor_left (a a' b : Nat) : cl (a ^^^ a') b = cl a b ^^^ cl a' b := by
  induction b using Nat.strongRecOn with
  | _ b ih =>
    by_cases h : b = 0
    · subst h; simp [cl_zero_right]
    · rw [cl_step (a ^^^ a'), cl_step a, cl_step a', ih (b / 2) (by omega), Nat.shiftLeft_xor_distrib]
      split
      · ac_rfl
      · simp

theorem cl_shl_left (a b n : Nat) : cl (a <<< n) b = (cl a b) <<< n := by
  induction b using Nat.strongRecOn with
  | _ b ih =>
    by_cases h : b = 0
    · subst h; simp [cl_zero_right]
    · rw [cl_step (a <<< n), cl_step a, ih (b / 2) (by omega), Nat.shiftLeft_xor_distrib,
        ← Nat.shiftLeft_add, ← Nat.shiftLeft_add, Nat.add_comm n 1]
      split <;> simp

theorem cl_one_left (b : Nat) : cl 1 b = b := by
  induction b using Nat.strongRecOn with
  | _ b ih =>
    by_cases h : b = 0
    · subst h; exact cl_zero_right 1
    · rw [cl_step, ih (b / 2) (by omega)]; exact bit_decomp b

/-- the same recursion on the left operand -/
theorem cl_step_left (a b : Nat) : cl a b = (if a % 2 = 1 then b else 0) ^^^ (cl (a / 2) b) <<< 1 := by
  conv => lhs; rw [← bit_decomp a]
  rw [cl_xor_left, cl_shl_left]
  split <;> simp [cl_one_left, cl_zero_left]

theorem cl_comm (a b : Nat) : cl a b = cl b a := by
  induction b using Nat.strongRecOn generalizing a with
  | _ b ih =>
    by_cases h : b = 0
    · subst h; rw [cl_zero_right, cl_zero_left]
    · rw [cl_step a b, cl_step_left b a, ih (b / 2) (by omega)]

theorem cl_one_right (a : Nat) : cl a 1 = a := by rw [cl_comm, cl_one_left]

theorem cl_xor_right (a b b' : Nat) : cl a (b ^^^ b') = cl a b ^^^ cl a b' := by
  rw [cl_comm a, cl_xor_left, cl_comm b, cl_comm b']

theorem cl_shl_right (a b n : Nat) : cl a (b <<< n) = (cl a b) <<< n := by
  rw [cl_comm a, cl_shl_left, cl_comm b]

theorem cl_two_pow (a n : Nat) : cl a (2 ^ n) = a <<< n := by
  have : 2 ^ n = 1 <<< n := by simp [Nat.shiftLeft_eq]
  rw [this, cl_shl_right, cl_one_right]

theorem cl_assoc (a b c : Nat) : cl (cl a b) c = cl a (cl b c) := by
  induction c using Nat.strongRecOn with
  | _ c ih =>
    by_cases h : c = 0
    · subst h; simp [cl_zero_right]
    · rw [cl_step (cl a b) c, ih (c / 2) (by omega), cl_step b c, cl_xor_right, cl_shl_right]
      split <;> simp [cl_zero_right]

/-! ### degrees -/

theorem xor_keeps_top {t x y : Nat} (hy1 : 2 ^ t ≤ y) (hy2 : y < 2 ^ (t + 1)) (hx : x < 2 ^ t) :
    2 ^ t ≤ x ^^^ y ∧ x ^^^ y < 2 ^ (t + 1) := by
  constructor
  · apply Nat.ge_two_pow_of_testBit
    rw [Nat.testBit_xor, Nat.testBit_lt_two_pow hx]
    simp only [Bool.false_bne]
    rw [Nat.testBit_eq_decide_div_mod_eq]
    have : y / 2 ^ t = 1 := by
      apply Nat.div_eq_of_lt_le <;> simp [Nat.pow_succ] at * <;> omega
    simp [this]
  · have : 2 ^ t < 2 ^ (t + 1) := by
      have := Nat.two_pow_pos t
      simp [Nat.pow_succ]; omega
    exact Nat.xor_lt_two_pow (Nat.lt_trans hx this) hy2

/-- degrees add: a polynomial of degree `m` times one of degree `n` has degree `m + n`. -/
theorem cl_degree {m n a b : Nat} (ha1 : 2 ^ m ≤ a) (ha2 : a < 2 ^ (m + 1))
    (hb1 : 2 ^ n ≤ b) (hb2 : b < 2 ^ (n + 1)) :
    2 ^ (m + n) ≤ cl a b ∧ cl a b < 2 ^ (m + n + 1) := by
  induction n generalizing b with
  | zero =>
    have : b = 1 := by simp at *; omega
    subst this; rw [cl_one_right]; exact ⟨ha1, ha2⟩
  | succ n ih =>
    have h1 : 2 ^ n ≤ b / 2 := by simp [Nat.pow_succ] at *; omega
    have h2 : b / 2 < 2 ^ (n + 1) := by simp [Nat.pow_succ] at *; omega
    obtain ⟨i1, i2⟩ := ih h1 h2
    rw [cl_step]
    have hy1 : 2 ^ (m + n + 1) ≤ (cl a (b / 2)) <<< 1 := by
      rw [Nat.shiftLeft_eq]; simp [Nat.pow_succ] at *; omega
    have hy2 : (cl a (b / 2)) <<< 1 < 2 ^ (m + n + 1 + 1) := by
      rw [Nat.shiftLeft_eq]; simp [Nat.pow_succ] at *; omega
    have hx : (if b % 2 = 1 then a else 0) < 2 ^ (m + n + 1) := by
      have : 2 ^ (m + 1) ≤ 2 ^ (m + n + 1) := Nat.pow_le_pow_right (by decide) (by omega)
      split
      · omega
      · exact Nat.two_pow_pos _
    exact xor_keeps_top hy1 hy2 hx

/-- upper bound: `deg (a·b) ≤ deg a + deg b`, also for zero operands. -/
theorem cl_lt {m n a b : Nat} (ha : a < 2 ^ m) (hb : b < 2 ^ (n + 1)) : cl a b < 2 ^ (m + n) := by
  induction n generalizing b with
  | zero =>
    have : b = 0 ∨ b = 1 := by simp at hb; omega
    rcases this with rfl | rfl
    · rw [cl_zero_right]; exact Nat.two_pow_pos _
    · rw [cl_one_right]; exact ha
  | succ n ih =>
    have h2 : b / 2 < 2 ^ (n + 1) := by simp [Nat.pow_succ] at *; omega
    have i2 := ih h2
    rw [cl_step]
    apply Nat.xor_lt_two_pow
    · have : 2 ^ m ≤ 2 ^ (m + (n + 1)) := Nat.pow_le_pow_right (by decide) (by omega)
      split
      · omega
      · exact Nat.two_pow_pos _
    · rw [Nat.shiftLeft_eq]; simp [Nat.pow_succ, ← Nat.add_assoc] at *; omega

/-- no zero divisors among polynomials -/
theorem cl_eq_zero {a b : Nat} (h : cl a b = 0) : a = 0 ∨ b = 0 := by
  by_cases ha : a = 0
  · exact Or.inl ha
  · by_cases hb : b = 0
    · exact Or.inr hb
    · exfalso
      have ha' := (Nat.log2_lt ha (k := a.log2 + 1)).mp (by omega)
      have ha'' : 2 ^ a.log2 ≤ a := Nat.log2_self_le ha
      have hb' := (Nat.log2_lt hb (k := b.log2 + 1)).mp (by omega)
      have hb'' : 2 ^ b.log2 ≤ b := Nat.log2_self_le hb
      have := (cl_degree ha'' ha' hb'' hb').1
      have : 0 < 2 ^ (a.log2 + b.log2) := Nat.two_pow_pos _
      omega

/-- a non-zero multiple of a polynomial of degree `k` has degree at least `k`. -/
theorem cl_ge_of_ne_zero {k p q : Nat} (hp : 2 ^ k ≤ p) (hq : q ≠ 0) : 2 ^ k ≤ cl p q := by
  have hp0 : p ≠ 0 := by
    have : 0 < 2 ^ k := Nat.two_pow_pos _
    omega
  have hp' := (Nat.log2_lt hp0 (k := p.log2 + 1)).mp (by omega)
  have hp'' : 2 ^ p.log2 ≤ p := Nat.log2_self_le hp0
  have hq' := (Nat.log2_lt hq (k := q.log2 + 1)).mp (by omega)
  have hq'' : 2 ^ q.log2 ≤ q := Nat.log2_self_le hq
  have h := (cl_degree hp'' hp' hq'' hq').1
  have hk : k ≤ p.log2 := by
    by_cases hk : k ≤ p.log2
    · exact hk
    · have : p < 2 ^ k := Nat.lt_of_lt_of_le hp' (Nat.pow_le_pow_right (by decide) (by omega))
      omega
  exact Nat.le_trans (Nat.pow_le_pow_right (by decide) (by omega)) h

end IpaVerif.Clmul
