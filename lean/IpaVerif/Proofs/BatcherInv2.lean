import IpaVerif.Proofs.BatcherInv
namespace IpaVerif.Batcher

theorem setSlot_length (s : State) (off : Nat) (v) : (setSlot s off v).batches.length = s.batches.length := by
  simp [setSlot]

/-- other live slots are unaffected when the history grows by records of batch `first+off`. -/
theorem slotOk_other {n first rpb : Nat} {acc acc' : List Nat} {k off : Nat} {bs : BatchState}
    (h : SlotOk n first rpb acc k bs) (hk : k ≠ off)
    (hsub : ∀ x, x ∈ acc → x ∈ acc')
    (hnew : ∀ x, x ∈ acc' → x ∈ acc ∨ x / rpb = first + off) : SlotOk n first rpb acc' k bs := by
  refine ⟨h.ctor, h.count, fun j => ?_, h.room⟩
  rw [h.bits j]
  constructor
  · rintro ⟨a, b⟩; exact ⟨a, hsub _ b⟩
  · rintro ⟨a, b⟩
    refine ⟨a, ?_⟩
    rcases hnew _ b with h1 | h1
    · exact h1
    · rw [div_offset _ _ _ a] at h1; omega

theorem inv_update {n s g off b} (hI : Inv n s g) (hslot : s.batches[off]? = some (some b))
    (b' : BatchState) (acc' : List Nat)
    (hsub : ∀ x, x ∈ g.acc → x ∈ acc')
    (hnew : ∀ x, x ∈ acc' → x ∈ g.acc ∨ (x < n ∧ x / s.rpb = s.firstBatch + off))
    (hb' : SlotOk n s.firstBatch s.rpb acc' off b')
    (htot : acc' = g.acc ∨ s.total = .specified n) :
    Inv n (setSlot s off (some b')) ⟨acc', g.closed⟩ := by
  have hoff : off < s.batches.length := by
    rcases Nat.lt_or_ge off s.batches.length with h | h
    · exact h
    · rw [List.getElem?_eq_none h] at hslot; cases hslot
  refine ⟨hI.rpb_pos, ?_, ?_, ?_, ?_, ?_, ?_⟩
  · show s.total = _ ∨ s.total = _ ∨ (s.total = _ ∧ acc' = [] ∧ g.closed = [])
    rcases htot with h | h
    · rw [h]; exact hI.total
    · exact Or.inl h
  · intro b0
    show b0 ∈ g.closed ↔ (b0 < s.firstBatch ∨ (s.firstBatch ≤ b0 ∧ (setSlot s off (some b')).batches[b0 - s.firstBatch]? = some none))
    rw [hI.closed_iff b0, setSlot_get]
    by_cases h : off = b0 - s.firstBatch
    · rw [← h, hslot]; simp [hoff]
    · simp [h]
  · intro k bs hk
    show SlotOk n s.firstBatch s.rpb acc' k bs
    rw [setSlot_get] at hk
    by_cases h : off = k
    · subst h; simp [hoff] at hk; subst hk; exact hb'
    · simp [h] at hk
      exact slotOk_other (hI.live k bs hk) (Ne.symm h) hsub (fun x hx => (hnew x hx).imp id (·.2))
  · intro b0 hb0
    obtain ⟨h1, h2⟩ := hI.closed_all b0 hb0
    exact ⟨h1, fun j hj => hsub _ (h2 j hj)⟩
  · intro r hr
    rcases hnew r hr with h | h
    · exact hI.acc_lt r h
    · exact h.1
  · intro r hr
    show r / s.rpb < s.firstBatch + (setSlot s off (some b')).batches.length
    rw [setSlot_length]
    rcases hnew r hr with h | h
    · exact hI.acc_where r h
    · omega

end IpaVerif.Batcher
