import IpaVerif.Proofs.BatcherStep
/-! C16: a legitimate `validate_record` call is ACCEPTED. Under the history invariant `Inv`, with the total specified, a call
for a record below the total that was not accepted before and whose batch was not yet handed out is answered `Ready::No` or
`Ready::Yes` — none of the panics (`already validated`, `called twice`, `exceeds`, `expected batch`) and neither error.
This is the lemma the full `exactly_one_validator` of `Props/C16Race.lean` was missing (its former hypothesis `hacc`). -/
namespace IpaVerif.Batcher

/-- answered `Ready::No` / `Ready::Yes` -/
def VOut.isAccepted : VOut → Bool
  | .ready _ _ => true
  | .notReady _ => true
  | _ => false

theorem markRecord_total (s1 : State) (off bi tc ro : Nat) (b : BatchState) (bits : List Bool) :
    (markRecord s1 off bi tc ro b bits).1.total = s1.total := by
  unfold markRecord
  simp only []
  repeat' split
  all_goals rfl

theorem validateRecord_total (s : State) (r : Nat) : (validateRecord s r).1.total = s.total := by
  unfold validateRecord
  simp only []
  repeat' split
  all_goals first | rfl | (rw [markRecord_total]; rfl)

theorem mark_accepts {n s g off b} (hI : Inv n s g) (hslot : s.batches[off]? = some (some b))
    (r : Nat) (hrn : r < n) (hdiv : r / s.rpb = s.firstBatch + off)
    (bits : List Bool)
    (hget : ∀ j, bits.getD j false = b.pendingRecords.getD j false)
    (hcnt : bits.count true = b.pendingRecords.count true)
    (hlen : r - (s.firstBatch + off) * s.rpb < bits.length)
    (hunset : bits.getD (r - (s.firstBatch + off) * s.rpb) false = false) :
    (markRecord s off (s.firstBatch + off) (tcOf n s.rpb (s.firstBatch + off))
      (r - (s.firstBatch + off) * s.rpb) b bits).2.isAccepted = true := by
  have hp := hI.rpb_pos
  have hb := hI.live off b hslot
  generalize hbi : s.firstBatch + off = bi at *
  generalize hro : r - bi * s.rpb = ro at *
  have hr1 : bi * s.rpb + r % s.rpb = r := by rw [← hdiv]; exact Nat.div_add_mod' r s.rpb
  have hr2 : r % s.rpb < s.rpb := Nat.mod_lt _ hp
  have hro' : r = bi * s.rpb + ro := by omega
  have hrolt : ro < s.rpb := by omega
  have hb1 : SlotOk n s.firstBatch s.rpb g.acc off { b with pendingRecords := bits } :=
    ⟨hb.ctor, by show b.pendingCount = bits.count true; rw [hcnt]; exact hb.count,
     fun j => by show bits.getD j false = true ↔ _; rw [hget]; exact hb.bits j, hb.room⟩
  have hlt : ro < tcOf n s.rpb bi := by unfold tcOf; omega
  unfold markRecord
  simp only [hlt, not_true_eq_false, if_false]
  have hb2bits : ∀ j, (bits.set ro true).getD j false = true ↔
      (j < s.rpb ∧ (s.firstBatch + off) * s.rpb + j ∈ r :: g.acc) := by
    intro j
    rw [getD_set, hbi]
    by_cases hj : ro = j
    · subst hj; simp [hlen, hrolt, hro']
    · simp only [hj, false_and, if_false, List.mem_cons]
      have := hb1.bits j
      simp only [hbi] at this
      rw [this]
      constructor
      · rintro ⟨a, c⟩; exact ⟨a, Or.inr c⟩
      · rintro ⟨a, c | c⟩
        · omega
        · exact ⟨a, c⟩
  have hbound : ∀ j, tcOf n s.rpb bi ≤ j → (bits.set ro true).getD j false = false := by
    intro j hj
    cases hv : (bits.set ro true).getD j false with
    | false => rfl
    | true =>
      have := (hb2bits j).1 hv
      obtain ⟨h1, h2⟩ := this
      rw [hbi] at h2
      have h3 : bi * s.rpb + j < n := by
        rcases List.mem_cons.1 h2 with h | h
        · omega
        · exact hI.acc_lt _ h
      unfold tcOf at hj; omega
  have hcount2 : (bits.set ro true).count true = b.pendingCount + 1 := by
    rw [count_set bits ro hlen hunset, hcnt, hb.count]
  by_cases hfull : b.pendingCount + 1 = tcOf n s.rpb bi
  · simp only [hfull, if_true]
    have hall := all_of_cnt_eq _ _ hbound (hcount2.trans hfull)
    have hallSet : allSet (bits.set ro true) (tcOf n s.rpb bi) = true := (allSet_iff _ _).2 hall
    simp only [hallSet, not_true_eq_false, if_false]
    split <;> rfl
  · simp only [hfull, if_false]
    rfl

/-- **validate_accepts.** -/
theorem validate_accepts {n s g} (hI : Inv n s g) (ht : s.total = .specified n) (r : Nat) (hrn : r < n)
    (hna : r ∉ g.acc) (hnc : r / s.rpb ∉ g.closed) : (validateRecord s r).2.isAccepted = true := by
  unfold validateRecord
  simp only [ht, Total.count]
  have hp := hI.rpb_pos
  unfold batchOffset
  simp only [show s.rpb ≠ 0 by omega, if_false]
  have hlt : ¬ r / s.rpb < s.firstBatch := fun h => hnc ((hI.closed_iff _).2 (Or.inl h))
  simp only [hlt, if_false]
  generalize hoff : r / s.rpb - s.firstBatch = off
  have hdiv : r / s.rpb = s.firstBatch + off := by omega
  have hr1 : (s.firstBatch + off) * s.rpb + r % s.rpb = r := by rw [← hdiv]; exact Nat.div_add_mod' r s.rpb
  have hrange : ¬ n < (s.firstBatch + off) * s.rpb := by omega
  simp only [hrange, if_false]
  have hI1 := inv_extend hI off
  have hlen1 : off < (extend s off).batches.length := by rw [extend_length]; omega
  rw [List.getD_eq_getElem?_getD]
  obtain ⟨x, hx⟩ : ∃ x, (extend s off).batches[off]? = some x := ⟨_, List.getElem?_eq_getElem hlen1⟩
  rw [hx]
  simp only [Option.getD_some]
  cases x with
  | none =>
    exfalso
    apply hnc
    have := (hI1.closed_iff (r / s.rpb)).2 (Or.inr ⟨by show s.firstBatch ≤ _; omega, by
      show (extend s off).batches[r / s.rpb - s.firstBatch]? = some none
      rw [hoff]; exact hx⟩)
    exact this
  | some b =>
    simp only []
    by_cases hgrow : b.pendingRecords.length ≤ r - (s.firstBatch + off) * s.rpb
    · simp only [hgrow, if_true]
      have hl : b.pendingRecords.length < r - (s.firstBatch + off) * s.rpb + 1 := by omega
      exact mark_accepts (s := extend s off) hI1 hx r hrn hdiv _ (fun j => getD_resize _ _ j hl) (count_resize _ _ hl)
        (by rw [length_resize _ _ hl]; exact Nat.lt_succ_self _)
        (by show (resize b.pendingRecords (r - (s.firstBatch + off) * s.rpb + 1)).getD (r - (s.firstBatch + off) * s.rpb) false = false
            rw [getD_resize _ _ _ hl, List.getD_eq_getElem?_getD, List.getElem?_eq_none hgrow]; rfl)
    · simp only [hgrow, if_false]
      cases hbit : b.pendingRecords.getD (r - (s.firstBatch + off) * s.rpb) false with
      | true =>
        exfalso
        apply hna
        have hb := hI1.live off b hx
        have := (hb.bits (r - (s.firstBatch + off) * s.rpb)).1 hbit
        have h2 := this.2
        show r ∈ g.acc
        have e : (extend s off).firstBatch = s.firstBatch := rfl
        have e2 : (extend s off).rpb = s.rpb := rfl
        rw [e, e2] at h2
        rw [show (s.firstBatch + off) * s.rpb + (r - (s.firstBatch + off) * s.rpb) = r by omega] at h2
        exact h2
      | false =>
        simp only [Bool.false_eq_true, if_false]
        exact mark_accepts (s := extend s off) hI1 hx r hrn hdiv _ (fun _ => rfl) rfl
          (by show r - (s.firstBatch + off) * s.rpb < _; omega) hbit

end IpaVerif.Batcher
