import IpaVerif.Proofs.StreamsLd
/-! C17: `BufferedBytesStream` re-chunking. -/
namespace IpaVerif.Streams

def BState.rest (s : BState) : Bytes := s.buffer ++ upBytes s.up

/-- re-chunking specification: whole `sz`-byte items, then (only at a clean end of the input) the
shorter remainder, then end of stream; an upstream error is passed on after the whole items. -/
def specBuffered (sz : Nat) (R : Bytes) (hasErr : Bool) : List Item :=
  (chunksOf sz (R.length / sz) R).map .record ++
    (if hasErr then [.errUpstream]
     else (if R.length % sz ≠ 0 then [.record (R.drop (R.length / sz * sz))] else []) ++ [.done])

theorem bufferedPoll_spec (sz : Nat) (hsz : 0 < sz) : ∀ (fuel : Nat) (s : BState), s.up.length < fuel →
    (sz ≤ s.rest.length → ∃ s', bufferedPoll sz fuel s = (.record (s.rest.take sz), s') ∧
        s'.rest = s.rest.drop sz ∧ upErr s'.up = upErr s.up) ∧
    (s.rest.length < sz → upErr s.up = true → ∃ s', bufferedPoll sz fuel s = (.errUpstream, s')) ∧
    (s.rest.length < sz → upErr s.up = false →
        bufferedPoll sz fuel s = (if s.rest.isEmpty then .done else .record s.rest, { buffer := [], up := [] })) := by
  intro fuel
  induction fuel with
  | zero => intro s h; omega
  | succ fuel ih =>
    intro s hf
    simp only [bufferedPoll]
    by_cases hb : s.buffer.length ≥ sz
    · simp only [hb, if_true]
      have hlen : sz ≤ s.rest.length := by unfold BState.rest; rw [List.length_append]; omega
      refine ⟨fun _ => ⟨{ s with buffer := s.buffer.drop sz }, ?_, ?_, rfl⟩, fun h => by omega, fun h => by omega⟩
      · unfold BState.rest; rw [List.take_append_of_le_length hb]
      · unfold BState.rest; rw [List.drop_append_of_le_length hb]
    · simp only [hb, if_false]
      cases hup : s.up with
      | nil =>
        simp only []
        have hr : s.rest = s.buffer := by unfold BState.rest; rw [hup]; simp [upBytes]
        rw [hr]
        refine ⟨fun h => by omega, fun _ h => by simp [upErr] at h, fun _ _ => ?_⟩
        rfl
      | cons u rest =>
        cases u with
        | err =>
          simp only []
          have hr : s.rest = s.buffer := by unfold BState.rest; rw [hup]; simp [upBytes]
          rw [hr]
          exact ⟨fun h => by omega, fun _ _ => ⟨_, rfl⟩, fun _ h => by simp [upErr] at h⟩
        | chunk c =>
          simp only []
          rw [hup] at hf
          have := ih { buffer := s.buffer ++ c, up := rest } (by simp at hf ⊢; omega)
          have hr : ({ buffer := s.buffer ++ c, up := rest } : BState).rest = s.rest := by
            unfold BState.rest; rw [hup]; simp [upBytes]
          have he : upErr ({ buffer := s.buffer ++ c, up := rest } : BState).up = upErr (Up.chunk c :: rest) := rfl
          rw [hr, he] at this
          exact this

theorem bufferedRun_spec (sz : Nat) (hsz : 0 < sz) : ∀ (fuel : Nat) (s : BState), s.rest.length + 1 < fuel →
    bufferedRun sz fuel s = specBuffered sz s.rest (upErr s.up) := by
  intro fuel
  induction fuel with
  | zero => intro s h; omega
  | succ fuel ih =>
    intro s hf
    obtain ⟨hA, hB, hC⟩ := bufferedPoll_spec sz hsz (s.up.length + 1) s (Nat.lt_succ_self _)
    simp only [bufferedRun]
    by_cases hlen : sz ≤ s.rest.length
    · obtain ⟨s', hp, hr', he'⟩ := hA hlen
      rw [hp]
      simp only [Item.isTerminal, Bool.false_eq_true, if_false]
      rw [ih s' (by rw [hr', List.length_drop]; omega), hr', he']
      unfold specBuffered
      have hcancel : s.rest.length - sz + sz = s.rest.length := Nat.sub_add_cancel hlen
      have hdiv : (s.rest.drop sz).length / sz = s.rest.length / sz - 1 := by
        rw [List.length_drop]
        have := Nat.add_div_right (s.rest.length - sz) hsz
        rw [hcancel] at this
        rw [this]; rfl
      have hmod : (s.rest.drop sz).length % sz = s.rest.length % sz := by
        rw [List.length_drop]
        have := Nat.add_mod_right (s.rest.length - sz) sz
        rw [hcancel] at this; exact this.symm
      have h1 : 1 ≤ s.rest.length / sz := (Nat.le_div_iff_mul_le hsz).2 (by omega)
      have hsplit : chunksOf sz (s.rest.length / sz) s.rest =
          s.rest.take sz :: chunksOf sz (s.rest.length / sz - 1) (s.rest.drop sz) := by
        have := chunksOf_add sz 1 (s.rest.length / sz - 1) s.rest
        rw [show 1 + (s.rest.length / sz - 1) = s.rest.length / sz by omega] at this
        rw [this]; simp [chunksOf]
      rw [hdiv, hmod, hsplit, List.drop_drop]
      have e : sz + (s.rest.length / sz - 1) * sz = s.rest.length / sz * sz := by
        rw [Nat.add_comm, ← Nat.succ_mul, Nat.succ_eq_add_one, Nat.sub_add_cancel h1]
      simp only [List.map_cons, List.cons_append, e]
    · have hlt : s.rest.length < sz := by omega
      have hspec0 : chunksOf sz (s.rest.length / sz) s.rest = [] := by
        rw [Nat.div_eq_of_lt hlt]; rfl
      cases he : upErr s.up with
      | true =>
        obtain ⟨s', hp⟩ := hB hlt he
        rw [hp]
        simp [Item.isTerminal, specBuffered, hspec0]
      | false =>
        rw [hC hlt he]
        unfold specBuffered
        rw [hspec0, Nat.div_eq_of_lt hlt, Nat.mod_eq_of_lt hlt]
        cases hr : s.rest with
        | nil => simp [Item.isTerminal]
        | cons a r =>
          simp only [List.isEmpty_cons, Bool.false_eq_true, if_false, Item.isTerminal]
          -- one more poll answers `None`
          have hfuel : 1 ≤ fuel := by rw [hr] at hf; simp at hf; omega
          obtain ⟨f, rfl⟩ : ∃ f, fuel = f + 1 := ⟨fuel - 1, by omega⟩
          have hz : sz ≠ 0 := by omega
          simp [bufferedRun, bufferedPoll, Item.isTerminal, hz]

end IpaVerif.Streams
