import IpaVerif.Proofs.C01Bits
namespace IpaVerif.C01
open IpaVerif.Sharing IpaVerif.Circuits IpaVerif.Hybrid IpaVerif.HybridShares IpaVerif.C07

theorem recBits_zeros (n : Nat) : recBits (List.replicate n (zeroS boolAlg)) = 0 := by
  have h : (List.replicate n (zeroS boolAlg)).map recB = [] ++ List.replicate n false := by
    rw [List.map_replicate]; rfl
  rw [recBits_eq, h, val_append_zeros]; rfl

theorem allC_zeros (n : Nat) : AllC (List.replicate n (zeroS boolAlg)) := by
  intro w hw
  rw [List.eq_of_mem_replicate hw]
  exact ⟨rfl, rfl, rfl⟩

/-- **aggTree_bits.** `aggregate_values` on replicated shares (any number of rows of a common width
`tv ≤ w`, any PRSS masks): the output is a consistent sharing of exactly `w` bits whose reconstruction
is the value-level tree `Hybrid.aggTree` of the reconstructed rows, i.e. `min (Σ rows) (2^w − 1)`. -/
theorem aggTree_bits (ρ : Path → Masks Bool) (p : Path) (w tv : Nat) (htv : tv ≤ w) (rows : List (List SW))
    (hc : ∀ r ∈ rows, AllC r) (hl : ∀ r ∈ rows, r.length = tv) :
    AllC (aggregateValues (shareAlg ρ) p w rows) ∧ (aggregateValues (shareAlg ρ) p w rows).length = w ∧
    recBits (aggregateValues (shareAlg ρ) p w rows) = aggTree (2 ^ w - 1) rows.length (rows.map recBits) ∧
    recBits (aggregateValues (shareAlg ρ) p w rows) = min ((rows.map recBits).sum) (2 ^ w - 1) := by
  obtain ⟨h1, h2⟩ := agg_shares ρ p w rows hc
  have hl' : ∀ r ∈ rows.map (List.map recB), r.length = tv := by
    intro r hr
    obtain ⟨r0, hr0, rfl⟩ := List.mem_map.mp hr
    simpa using hl r0 hr0
  obtain ⟨h3, h4⟩ := aggTree_value p w tv htv (rows.map (List.map recB)) hl'
  have hval : recBits (aggregateValues (shareAlg ρ) p w rows) = min ((rows.map recBits).sum) (2 ^ w - 1) := by
    rw [recBits_eq, h2, h4, List.map_map]; rfl
  refine ⟨h1, ?_, ?_, hval⟩
  · have := congrArg List.length h2
    simp only [List.length_map] at this
    rw [this, h3]
  · rw [hval, aggTree_eq _ _ _ (by simp)]

theorem chunksG_map {β γ : Type} (g : β → γ) (n : Nat) : ∀ (fuel : Nat) (l : List β),
    chunksG n fuel (l.map g) = (chunksG n fuel l).map (List.map g)
  | _, [] => by simp [chunksG]
  | 0, a :: rest => by simp [chunksG]
  | fuel + 1, a :: rest => by
    have ih := chunksG_map g n fuel ((a :: rest).drop n)
    simp only [List.map_cons, chunksG]
    rw [← List.map_cons, ← List.map_take, ← List.map_drop, ih]

theorem chunksG_eq (n : Nat) : ∀ (fuel : Nat) (l : List Nat), chunksG n fuel l = chunks n fuel l
  | _, [] => by simp [chunksG, chunks]
  | 0, a :: rest => by simp [chunksG, chunks]
  | fuel + 1, a :: rest => by
    simp only [chunksG, chunks]
    rw [chunksG_eq n fuel]

theorem chunksG_mem {β : Type} (n : Nat) : ∀ (fuel : Nat) (l : List β), ∀ c ∈ chunksG n fuel l, ∀ x ∈ c, x ∈ l
  | _, [] => by simp [chunksG]
  | 0, a :: rest => by simp [chunksG]
  | fuel + 1, a :: rest => by
    intro c hc x hx
    simp only [chunksG, List.mem_cons] at hc
    rcases hc with rfl | hc
    · exact List.mem_of_mem_take hx
    · exact List.mem_of_mem_drop (chunksG_mem n fuel _ c hc x hx)

theorem resize_bits (ρ : Path → Masks Bool) (a : List SW) (w : Nat) (ha : AllC a) (hl : a.length ≤ w) :
    AllC (resizeZero (shareAlg ρ) a w) ∧ (resizeZero (shareAlg ρ) a w).length = w ∧
    recBits (resizeZero (shareAlg ρ) a w) = recBits a := by
  unfold resizeZero
  rw [List.take_of_length_le hl]
  refine ⟨?_, by simp; omega, ?_⟩
  · intro x hx
    rcases List.mem_append.mp hx with h | h
    · exact ha x h
    · exact allC_zeros _ x h
  · rw [recBits_eq, List.map_append]
    have : (List.replicate (w - a.length) (shareAlg ρ).zero).map recB = List.replicate (w - a.length) false := by
      rw [List.map_replicate]; rfl
    rw [this, val_append_zeros]; rfl

theorem min_of_recBits (a : List SW) (w : Nat) (hl : a.length ≤ w) : min (recBits a) (2 ^ w - 1) = recBits a := by
  have h1 := recBits_lt a
  have h2 : 2 ^ a.length ≤ 2 ^ w := Nat.pow_le_pow_right (by omega) hl
  omega

/-- **chunkedAgg_bits.** the chunked aggregation loop of `breakdown_reveal_aggregation` on one column of
share rows reconstructs to the value-level `Hybrid.chunkedAgg`. -/
theorem sChunkedAgg_bits (ρ : Path → Masks Bool) (p : Path) (w chunk : Nat) :
    ∀ (fuel depth tv : Nat) (l : List (List SW)), tv ≤ w → (∀ r ∈ l, AllC r) → (∀ r ∈ l, r.length = tv) →
      AllC (sChunkedAgg (shareAlg ρ) p w chunk fuel depth l) ∧
      (sChunkedAgg (shareAlg ρ) p w chunk fuel depth l).length = w ∧
      recBits (sChunkedAgg (shareAlg ρ) p w chunk fuel depth l) = chunkedAgg (2 ^ w - 1) chunk fuel (l.map recBits)
  | _, _, _, [], _, _, _ => by
    obtain ⟨a, b, c⟩ := resize_bits ρ [] w (by intro x hx; simp at hx) (by simp)
    simp only [sChunkedAgg, chunkedAgg, List.map_nil]
    exact ⟨a, b, by rw [c]; rfl⟩
  | fuel, depth, tv, [a], htv, hc, hl => by
    have hla : a.length ≤ w := by rw [hl a (by simp)]; exact htv
    obtain ⟨x, y, z⟩ := resize_bits ρ a w (hc a (by simp)) hla
    have e1 : sChunkedAgg (shareAlg ρ) p w chunk fuel depth [a] = resizeZero (shareAlg ρ) a w := by
      cases fuel <;> simp [sChunkedAgg]
    have e2 : chunkedAgg (2 ^ w - 1) chunk fuel ([a].map recBits) = min (recBits a) (2 ^ w - 1) := by
      cases fuel <;> simp [chunkedAgg]
    rw [e1, e2, min_of_recBits a w hla]
    exact ⟨x, y, z⟩
  | 0, depth, tv, a :: b :: rest, htv, hc, hl => by
    have hla : a.length ≤ w := by rw [hl a (by simp)]; exact htv
    obtain ⟨x, y, z⟩ := resize_bits ρ a w (hc a (by simp)) hla
    simp only [sChunkedAgg, chunkedAgg, List.map_cons]
    rw [min_of_recBits a w hla]
    exact ⟨x, y, z⟩
  | fuel + 1, depth, tv, a :: b :: rest, htv, hc, hl => by
    simp only [sChunkedAgg, chunkedAgg, List.map_cons]
    set l := a :: b :: rest with hl0
    have hmem := chunksG_mem (max chunk 2) l.length l
    have hchunk : ∀ i, ∀ c ∈ chunksG (max chunk 2) l.length l,
        AllC (aggregateValues (shareAlg ρ) (p ++ [stepAggregate, depth] ++ [i]) w c) ∧
        (aggregateValues (shareAlg ρ) (p ++ [stepAggregate, depth] ++ [i]) w c).length = w ∧
        recBits (aggregateValues (shareAlg ρ) (p ++ [stepAggregate, depth] ++ [i]) w c)
          = aggTree (2 ^ w - 1) c.length (c.map recBits) := by
      intro i c hcm
      obtain ⟨h1, h2, h3, _⟩ := aggTree_bits ρ (p ++ [stepAggregate, depth] ++ [i]) w tv htv c
        (fun r hr => hc r (hmem c hcm r hr)) (fun r hr => hl r (hmem c hcm r hr))
      exact ⟨h1, h2, h3⟩
    have ih := sChunkedAgg_bits ρ p w chunk fuel (depth + 1) w
      (sAggChunks (shareAlg ρ) (p ++ [stepAggregate, depth]) w (chunksG (max chunk 2) l.length l)) (Nat.le_refl _)
      (zipWith_idx_all _ (fun y : List SW => AllC y) _ _ (fun i c hcm => (hchunk i c hcm).1))
      (zipWith_idx_all _ (fun y : List SW => y.length = w) _ _ (fun i c hcm => (hchunk i c hcm).2.1))
    obtain ⟨i1, i2, i3⟩ := ih
    refine ⟨i1, i2, ?_⟩
    rw [i3]
    congr 1
    have hmap : (sAggChunks (shareAlg ρ) (p ++ [stepAggregate, depth]) w (chunksG (max chunk 2) l.length l)).map recBits
        = (chunksG (max chunk 2) l.length l).map (fun c => aggTree (2 ^ w - 1) c.length (c.map recBits)) :=
      zipWith_idx_map _ _ _ _ _ (by simp) (fun i c hcm => (hchunk i c hcm).2.2)
    rw [hmap]
    have : (recBits a :: recBits b :: rest.map recBits) = l.map recBits := by simp [hl0]
    rw [this, ← chunksG_eq, List.length_map, chunksG_map, List.map_map]
    apply List.map_congr_left
    intro c _
    simp

/-! ### reveal, `ValueHistogram`, per-shard histogram -/

theorem sBucketValues_rec (rows : List (SRow SW)) (b : Nat) :
    (sBucketValues recBits rows b).map recBits = bucketValues (rows.map recRow) b := by
  unfold sBucketValues bucketValues
  rw [List.filter_map, List.map_map, List.map_map]
  rfl

theorem sBucketValues_good (W : Widths) (rows : List (SRow SW)) (h : ∀ r ∈ rows, GoodRow W r) (b : Nat) :
    ∀ v ∈ sBucketValues recBits rows b, AllC v ∧ v.length = W.vW := by
  intro v hv
  simp only [sBucketValues, List.mem_map, List.mem_filter] at hv
  obtain ⟨r, ⟨hr, _⟩, rfl⟩ := hv
  exact ⟨(h r hr).2.1, (h r hr).2.2.2⟩

theorem sBucketValues_length (rows : List (SRow SW)) (b : Nat) :
    (sBucketValues recBits rows b).length = (bucketValues (rows.map recRow) b).length := by
  rw [← sBucketValues_rec, List.length_map]

theorem sMaxLen_rec (W : Widths) (rows : List (SRow SW)) :
    sMaxLen recBits W.buckets rows = maxLen W (rows.map recRow) := by
  unfold sMaxLen maxLen
  congr 1
  funext acc b
  rw [sBucketValues_length]

theorem sColumn_rec (ρ : Path → Masks Bool) (W : Widths) (rows : List (SRow SW)) (ml b : Nat) :
    (sColumn (shareAlg ρ) recBits W.vW rows ml b).map recBits = column (rows.map recRow) ml b := by
  unfold sColumn column
  simp only [List.map_append, List.map_reverse, sBucketValues_rec, List.length_reverse, List.map_replicate,
    sBucketValues_length]
  congr 2
  exact recBits_zeros W.vW

theorem sColumn_good (ρ : Path → Masks Bool) (W : Widths) (rows : List (SRow SW)) (h : ∀ r ∈ rows, GoodRow W r)
    (ml b : Nat) : ∀ v ∈ sColumn (shareAlg ρ) recBits W.vW rows ml b, AllC v ∧ v.length = W.vW := by
  intro v hv
  simp only [sColumn, List.mem_append, List.mem_reverse] at hv
  rcases hv with hv | hv
  · exact sBucketValues_good W rows h b v hv
  · rw [List.eq_of_mem_replicate hv]
    exact ⟨allC_zeros _, by simp⟩

/-- **per-shard histogram on shares** = value-level `shardHistogram` of the reconstructed rows. -/
theorem sShardHistogram_rec (ρ : Path → Masks Bool) (p : Path) (W : Widths) (hW : W.vW ≤ W.hvW) (chunk : Nat)
    (rows : List (SRow SW)) (h : ∀ r ∈ rows, GoodRow W r) :
    (∀ x ∈ sShardHistogram (shareAlg ρ) recBits p W chunk rows, AllC x ∧ x.length = W.hvW) ∧
    (sShardHistogram (shareAlg ρ) recBits p W chunk rows).length = W.buckets ∧
    (sShardHistogram (shareAlg ρ) recBits p W chunk rows).map recBits = shardHistogram W chunk (rows.map recRow) := by
  have key : ∀ b, let c := sColumn (shareAlg ρ) recBits W.vW rows (sMaxLen recBits W.buckets rows) b
      AllC (sChunkedAgg (shareAlg ρ) (p ++ [b]) W.hvW chunk c.length 0 c) ∧
      (sChunkedAgg (shareAlg ρ) (p ++ [b]) W.hvW chunk c.length 0 c).length = W.hvW ∧
      recBits (sChunkedAgg (shareAlg ρ) (p ++ [b]) W.hvW chunk c.length 0 c)
        = chunkedAgg (2 ^ W.hvW - 1) chunk c.length (c.map recBits) := by
    intro b c
    exact sChunkedAgg_bits ρ (p ++ [b]) W.hvW chunk c.length 0 W.vW c hW
      (fun r hr => (sColumn_good ρ W rows h _ b r hr).1) (fun r hr => (sColumn_good ρ W rows h _ b r hr).2)
  refine ⟨?_, by simp [sShardHistogram], ?_⟩
  · intro x hx
    simp only [sShardHistogram, List.mem_map] at hx
    obtain ⟨b, _, rfl⟩ := hx
    exact ⟨(key b).1, (key b).2.1⟩
  · simp only [sShardHistogram, shardHistogram, List.map_map]
    apply List.map_congr_left
    intro b _
    simp only [Function.comp]
    rw [(key b).2.2, sColumn_rec, sMaxLen_rec]
    congr 1
    rw [← sColumn_rec ρ W, List.length_map]

/-! ### cross-shard finalize -/

theorem sat_add_bits (ρ : Path → Masks Bool) (p : Path) (x y : List SW) (hx : AllC x) (hy : AllC y)
    (hl : y.length = x.length) :
    AllC (integerSatAdd (shareAlg ρ) p x y) ∧ (integerSatAdd (shareAlg ρ) p x y).length = x.length ∧
    recBits (integerSatAdd (shareAlg ρ) p x y) = satAdd (2 ^ x.length - 1) (recBits x) (recBits y) := by
  obtain ⟨h1, h2⟩ := sat_add_shares_value ρ p x y hx hy
  obtain ⟨_, h3⟩ := sat_add_shares ρ p x y hx hy
  refine ⟨h1, ?_, ?_⟩
  · have := congrArg List.length h3
    simp only [List.length_map, satAdd_length] at this
    exact this
  · rw [recBits_eq, h2]
    have hy' : val (y.map recB) < 2 ^ x.length := by
      have := val_lt (y.map recB); simpa [hl] using this
    rw [Nat.mod_eq_of_lt hy']
    rfl

def GoodHist (W : Widths) (h : List (List SW)) : Prop :=
  h.length = W.buckets ∧ ∀ x ∈ h, AllC x ∧ x.length = W.hvW

/-- the fold function of `Hybrid.finalize`. -/
def mergeV (W : Widths) (acc h : List Nat) : List Nat :=
  (List.range W.buckets).map (fun b => satAdd (2 ^ W.hvW - 1) (acc.getD b 0) (h.getD b 0))

theorem zipWith_forall {β γ δ : Type} (f : β → γ → δ) (P : β → Prop) (Q : γ → Prop) (R : δ → Prop)
    (hf : ∀ a b, P a → Q b → R (f a b)) : ∀ (l1 : List β) (l2 : List γ), (∀ a ∈ l1, P a) → (∀ b ∈ l2, Q b) →
      ∀ z ∈ List.zipWith f l1 l2, R z
  | [], _, _, _ => by simp
  | _ :: _, [], _, _ => by simp
  | a :: l1, b :: l2, h1, h2 => by
    intro z hz
    simp only [List.zipWith_cons_cons, List.mem_cons] at hz
    rcases hz with rfl | hz
    · exact hf a b (h1 a List.mem_cons_self) (h2 b List.mem_cons_self)
    · exact zipWith_forall f P Q R hf l1 l2 (fun x hx => h1 x (List.mem_cons_of_mem _ hx))
        (fun x hx => h2 x (List.mem_cons_of_mem _ hx)) z hz

theorem sMerge_rec (ρ : Path → Masks Bool) (p : Path) (W : Widths) (acc h : List (List SW))
    (ha : GoodHist W acc) (hh : GoodHist W h) :
    GoodHist W (sMerge (shareAlg ρ) p acc h) ∧
    (sMerge (shareAlg ρ) p acc h).map recBits = mergeV W (acc.map recBits) (h.map recBits) := by
  obtain ⟨la, ga⟩ := ha
  obtain ⟨lh, gh⟩ := hh
  have hpair : ∀ a b : List SW, (AllC a ∧ a.length = W.hvW) → (AllC b ∧ b.length = W.hvW) →
      (AllC (integerSatAdd (shareAlg ρ) p a b) ∧ (integerSatAdd (shareAlg ρ) p a b).length = W.hvW) ∧
      recBits (integerSatAdd (shareAlg ρ) p a b) = satAdd (2 ^ W.hvW - 1) (recBits a) (recBits b) := by
    intro a b pa pb
    obtain ⟨h1, h2, h3⟩ := sat_add_bits ρ p a b pa.1 pb.1 (by omega)
    rw [pa.2] at h2 h3
    exact ⟨⟨h1, h2⟩, h3⟩
  refine ⟨⟨by simp [sMerge, la, lh], ?_⟩, ?_⟩
  · exact zipWith_forall _ _ _ (fun z : List SW => AllC z ∧ z.length = W.hvW)
      (fun a b pa pb => (hpair a b pa pb).1) acc h ga gh
  · apply List.ext_getElem
    · simp [sMerge, mergeV, la, lh]
    · intro i h1 h2
      have hi : i < W.buckets := by simpa [mergeV] using h2
      have hia : i < acc.length := by omega
      have hih : i < h.length := by omega
      simp only [sMerge, mergeV, List.getElem_map, List.getElem_zipWith, List.getElem_range]
      rw [(hpair acc[i] h[i] (ga _ (List.getElem_mem hia)) (gh _ (List.getElem_mem hih))).2]
      simp [List.getD_eq_getElem?_getD, hia, hih]

theorem mergeV_zero (W : Widths) (l : List Nat) (hl : l.length = W.buckets) (hm : ∀ x ∈ l, x ≤ 2 ^ W.hvW - 1) :
    mergeV W (List.replicate W.buckets 0) l = l := by
  apply List.ext_getElem
  · simp [mergeV, hl]
  · intro i h1 h2
    have hi : i < W.buckets := by simpa [mergeV] using h1
    have := hm l[i] (List.getElem_mem h2)
    simp [mergeV, List.getD_eq_getElem?_getD, h2, hi, satAdd]
    omega

theorem sFinalize_fold (ρ : Path → Masks Bool) (p : Path) (W : Widths) :
    ∀ (followers : List (List (List SW))) (is : List Nat) (acc : List (List SW)), followers.length ≤ is.length →
      (∀ h ∈ followers, GoodHist W h) → GoodHist W acc →
      GoodHist W ((List.zip is followers).foldl (fun acc ih => sMerge (shareAlg ρ) (p ++ [ih.1]) acc ih.2) acc) ∧
      ((List.zip is followers).foldl (fun acc ih => sMerge (shareAlg ρ) (p ++ [ih.1]) acc ih.2) acc).map recBits
        = (followers.map (List.map recBits)).foldl (mergeV W) (acc.map recBits)
  | [], is, acc, _, _, ha => by simp [ha]
  | h :: F, [], acc, hlen, _, _ => by simp at hlen
  | h :: F, i :: is, acc, hlen, hF, ha => by
    obtain ⟨g1, g2⟩ := sMerge_rec ρ (p ++ [i]) W acc h ha (hF h List.mem_cons_self)
    obtain ⟨r1, r2⟩ := sFinalize_fold ρ p W F is _ (by simpa using hlen)
      (fun x hx => hF x (List.mem_cons_of_mem _ hx)) g1
    simp only [List.zip_cons_cons, List.foldl_cons, List.map_cons]
    exact ⟨r1, by rw [r2, g2]⟩

/-- **finalize on shares** (`Histogram::merge` = `integer_sat_add` of every follower into the leader)
reconstructs to the value-level `Hybrid.finalize`. -/
theorem sFinalize_rec (ρ : Path → Masks Bool) (p : Path) (W : Widths) (hists : List (List (List SW)))
    (hne : hists ≠ []) (hg : ∀ h ∈ hists, GoodHist W h) :
    GoodHist W (sFinalize (shareAlg ρ) p W hists) ∧
    (sFinalize (shareAlg ρ) p W hists).map recBits = finalize W (hists.map (List.map recBits)) := by
  match hists, hne, hg with
  | L :: F, _, hg =>
    obtain ⟨r1, r2⟩ := sFinalize_fold ρ p W F (List.range F.length) L (by simp)
      (fun x hx => hg x (List.mem_cons_of_mem _ hx)) (hg L List.mem_cons_self)
    refine ⟨r1, ?_⟩
    simp only [sFinalize]
    rw [r2]
    unfold finalize
    simp only [List.map_cons, List.foldl_cons]
    have hL := hg L List.mem_cons_self
    have : mergeV W (List.replicate W.buckets 0) (L.map recBits) = L.map recBits := by
      apply mergeV_zero
      · simpa using hL.1
      · intro x hx
        obtain ⟨y, hy, rfl⟩ := List.mem_map.mp hx
        have h1 := recBits_lt y
        rw [(hL.2 y hy).2] at h1
        omega
    show _ = List.foldl (mergeV W) (mergeV W (List.replicate W.buckets 0) (L.map recBits)) _
    rw [this]

end IpaVerif.C01
