import IpaVerif.Model.SeqJoin
/-! C15: invariant of `SequentialFutures` and the refill loop. -/
namespace IpaVerif.SeqJoin

def ids (l : List Slot) : List Nat := l.map Slot.id

def Slot.isPending : Slot → Bool
  | .pending _ => true
  | .resolved _ => false

/-- `em ++ active ++ src` is the input order; the fused source is done only when drained; the
window never exceeds the capacity; resolved futures have been polled. -/
structure Inv (n : Nat) (s : State) (em : List Nat) : Prop where
  order : em ++ ids s.active ++ s.src = List.range n
  done : s.srcDone = true → s.src = []
  len : s.active.length ≤ s.cap
  resolved : ∀ i, Slot.resolved i ∈ s.active → i ∈ s.started

theorem inv_new (n cap : Nat) : Inv n (State.new n cap) [] := by
  refine ⟨by simp [State.new, ids], by simp [State.new], by simp [State.new], by simp [State.new]⟩

theorem refill_spec (n : Nat) : ∀ (fuel : Nat) (s : State) (pulled budget : Nat) (em : List Nat),
    Inv n s em → s.cap - s.active.length < fuel →
    ∀ r, refill fuel s pulled budget = r →
    Inv n r.1 em ∧ r.1.cap = s.cap ∧ r.1.started = s.started ∧
    (∃ k, r.2.1 = pulled + k ∧ r.2.2 + k = budget ∧
      ids r.1.active = ids s.active ++ s.src.take k ∧ r.1.src = s.src.drop k ∧
      r.1.active = s.active ++ (s.src.take k).map .pending) ∧
    -- why the loop stopped
    (r.1.active.length = s.cap ∨ (r.1.src = [] ∧ r.1.srcDone = true) ∨ (r.2.2 = 0 ∧ r.1.src ≠ [])) := by
  intro fuel
  induction fuel with
  | zero => intro s pulled budget em _ h; omega
  | succ fuel ih =>
    intro s pulled budget em hI hf r hr
    simp only [refill] at hr
    by_cases hlt : s.active.length < s.cap
    · rw [if_pos hlt] at hr
      by_cases hd : s.srcDone = true
      · rw [if_pos hd] at hr
        subst hr
        have hsrc := hI.done hd
        exact ⟨hI, rfl, rfl, ⟨0, by simp⟩, Or.inr (Or.inl ⟨hsrc, hd⟩)⟩
      · rw [if_neg hd] at hr
        cases hs : s.src with
        | nil =>
          rw [hs] at hr
          simp only [] at hr
          subst hr
          refine ⟨⟨?_, fun _ => rfl, hI.len, hI.resolved⟩, rfl, rfl, ⟨0, by simp⟩, Or.inr (Or.inl ⟨rfl, rfl⟩)⟩
          have := hI.order; rw [hs] at this; exact this
        | cons t rest =>
          rw [hs] at hr
          simp only [] at hr
          by_cases hb : budget = 0
          · rw [if_pos hb] at hr
            subst hr
            exact ⟨hI, rfl, rfl, ⟨0, by simp [hs]⟩, Or.inr (Or.inr ⟨hb, by simp [hs]⟩)⟩
          · rw [if_neg hb] at hr
            let s2 : State := { s with src := rest, active := s.active ++ [.pending t] }
            have hI2 : Inv n s2 em := by
              refine ⟨?_, ?_, ?_, ?_⟩
              · have := hI.order
                rw [hs] at this
                show em ++ ids (s.active ++ [Slot.pending t]) ++ rest = _
                simp only [ids, List.map_append, List.map_cons, List.map_nil, Slot.id, List.append_assoc] at this ⊢
                simpa using this
              · intro h; exact absurd h hd
              · show (s.active ++ [Slot.pending t]).length ≤ s.cap
                simp; omega
              · intro i hi
                have : Slot.resolved i ∈ s.active := by
                  have := List.mem_append.1 hi
                  rcases this with h | h
                  · exact h
                  · simp at h
                exact hI.resolved i this
            have hf2 : s2.cap - s2.active.length < fuel := by
              show s.cap - (s.active ++ [Slot.pending t]).length < fuel
              simp; omega
            obtain ⟨a, b, c, ⟨k, k1, k2, k3, k4, k5⟩, e⟩ := ih s2 (pulled + 1) (budget - 1) em hI2 hf2 r hr
            refine ⟨a, b, c, ⟨k + 1, by omega, by omega, ?_, ?_, ?_⟩, ?_⟩
            · rw [k3]; show ids (s.active ++ [Slot.pending t]) ++ rest.take k = _
              simp [ids, Slot.id]
            · rw [k4]; rfl
            · rw [k5]; show s.active ++ [Slot.pending t] ++ (rest.take k).map Slot.pending = _
              simp
            · rcases e with e | e | e
              · exact Or.inl e
              · exact Or.inr (Or.inl e)
              · exact Or.inr (Or.inr e)
    · rw [if_neg hlt] at hr
      subst hr
      exact ⟨hI, rfl, rfl, ⟨0, by simp⟩, Or.inl (by have := hI.len; show s.active.length = s.cap; omega)⟩

def pendingIds (l : List Slot) : List Nat := (l.filter Slot.isPending).map Slot.id

theorem checkReady_spec (ready : List Nat → Nat → Bool) (started : List Nat) (sl : Slot) :
    let r := checkReady ready started sl
    r.1.id = sl.id ∧ r.2.2 = sl.isPending ∧ (∀ x, x ∈ started → x ∈ r.2.1) ∧
    (sl.isPending = true → sl.id ∈ r.2.1) ∧
    (sl.isPending = false → r.1 = sl ∧ r.2.1 = started) ∧
    (∀ i, r.1 = .resolved i → sl.isPending = true → ready r.2.1 i = true) ∧
    (∀ i, r.1 = .pending i → ready r.2.1 i = false) := by
  cases sl with
  | resolved i => simp [checkReady, Slot.id, Slot.isPending]
  | pending i =>
    simp only [checkReady, Slot.isPending]
    generalize hst : (if started.contains i = true then started else started ++ [i]) = st'
    have hsub : ∀ x, x ∈ started → x ∈ st' := by
      intro x hx; rw [← hst]; split
      · exact hx
      · exact List.mem_append_left _ hx
    have hmem : i ∈ st' := by
      rw [← hst]; split
      · rename_i h; simpa using h
      · simp
    cases hr : ready st' i with
    | true =>
      simp only [if_true, Slot.id]
      exact ⟨trivial, trivial, hsub, fun _ => hmem, fun h => (by cases h), fun j hj _ => (by cases hj; exact hr),
        fun j hj => (by cases hj)⟩
    | false =>
      simp only [Bool.false_eq_true, if_false, Slot.id]
      exact ⟨trivial, trivial, hsub, fun _ => hmem, fun h => (by cases h), fun j hj => (by cases hj),
        fun j hj => (by cases hj; exact hr)⟩

theorem checkRest_spec (ready : List Nat → Nat → Bool) : ∀ (l : List Slot) (started : List Nat),
    let r := checkRest ready l started
    ids r.1 = ids l ∧ r.2.2 = pendingIds l ∧ (∀ x, x ∈ started → x ∈ r.2.1) ∧
    (∀ x, x ∈ pendingIds l → x ∈ r.2.1) ∧ r.1.length = l.length ∧
    (∀ i, Slot.resolved i ∈ r.1 → Slot.resolved i ∈ l ∨ i ∈ r.2.1) := by
  intro l
  induction l with
  | nil => intro started; simp [checkRest, ids, pendingIds]
  | cons sl rest ih =>
    intro started
    obtain ⟨c1, c2, c3, c4, c5, _, _⟩ := checkReady_spec ready started sl
    obtain ⟨i1, i2, i3, i4, i5, i6⟩ := ih (checkReady ready started sl).2.1
    simp only [checkRest]
    refine ⟨?_, ?_, ?_, ?_, ?_, ?_⟩
    · simp only [ids, List.map_cons] at i1 ⊢; rw [c1]; congr 1
    · rw [c2, i2]
      cases sl <;> simp [pendingIds, Slot.isPending, Slot.id, List.filter_cons]
    · intro x hx; exact i3 x (c3 x hx)
    · intro x hx
      cases hp : sl.isPending with
      | true =>
        have : pendingIds (sl :: rest) = sl.id :: pendingIds rest := by simp [pendingIds, hp]
        rw [this] at hx
        rcases List.mem_cons.1 hx with h | h
        · rw [h]; exact i3 _ (c4 hp)
        · exact i4 x h
      | false =>
        have : pendingIds (sl :: rest) = pendingIds rest := by simp [pendingIds, hp]
        rw [this] at hx
        exact i4 x hx
    · simp [i5]
    · intro i hi
      rcases List.mem_cons.1 hi with h | h
      · cases hp : sl.isPending with
        | true =>
          right
          have : (checkReady ready started sl).1.id = i := by rw [← h]; rfl
          rw [c1] at this
          rw [← this]; exact i3 _ (c4 hp)
        | false =>
          left
          rw [(c5 hp).1] at h
          rw [h]; exact List.mem_cons_self
      · rcases i6 i h with h1 | h1
        · exact Or.inl (List.mem_cons_of_mem _ h1)
        · exact Or.inr h1

theorem range_split {n i : Nat} {l1 l2 : List Nat} (h : l1 ++ i :: l2 = List.range n) : i = l1.length := by
  have h1 : (l1 ++ i :: l2)[l1.length]? = some i := by simp
  rw [h] at h1
  rw [List.getElem?_range] at h1
  · injection h1 with h1; exact h1.symm
  · have := congrArg List.length h
    simp at this; omega

/-- everything one `poll_next` call guarantees. -/
theorem step_spec {n : Nat} {s : State} {em : List Nat} (hI : Inv n s em) (env : Env) :
    ∀ s' o, step s env = (s', o) →
    s'.cap = s.cap ∧ (∀ x, x ∈ s.started → x ∈ s'.started) ∧
    (∀ i, o.out = .item i → i = em.length ∧ Inv n s' (em ++ [i])) ∧
    (o.out = .pending → Inv n s' em ∧ (∀ sl, sl ∈ s'.active → sl.id ∈ s'.started) ∧
        o.polled = pendingIds (refill (s.cap + 1) s 0 env.budget).1.active ∧
        s'.active.length = (refill (s.cap + 1) s 0 env.budget).1.active.length ∧
        (0 < s.cap → s.cap ≤ env.budget → s'.active.length = s.cap ∨ s'.src = []) ∧
        (∀ front rest, (refill (s.cap + 1) s 0 env.budget).1.active = front :: rest →
          ∃ st', (∀ x, x ∈ s.started → x ∈ st') ∧ front.id ∈ st' ∧ env.ready st' front.id = false)) ∧
    (o.out = .finished → Inv n s' em ∧ em = List.range n ∧ s'.active = [] ∧ s'.src = []) ∧
    (s.active = [] → s.src = [] → 0 < s.cap → o.out = .finished) := by
  intro s' o hstep
  obtain ⟨hI1, hcap, hst, ⟨k, k1, k2, k3, k4, k5⟩, hstop⟩ :=
    refill_spec n (s.cap + 1) s 0 env.budget em hI (by omega) _ rfl
  generalize hr : refill (s.cap + 1) s 0 env.budget = r at hI1 hcap hst k1 k2 k3 k4 k5 hstop
  obtain ⟨s1, pulled, bl⟩ := r
  simp only [] at hI1 hcap hst k1 k2 k3 k4 k5 hstop
  simp only [step, hr] at hstep
  cases hact : s1.active with
  | nil =>
    rw [hact] at hstep
    simp only [Prod.mk.injEq] at hstep
    obtain ⟨rfl, rfl⟩ := hstep
    refine ⟨hcap, fun x hx => by rw [hst]; exact hx, ?_, ?_, ?_, ?_⟩
    rotate_right
    · intro ha hs hc
      simp only []
      rcases hstop with e | e | e
      · rw [hact] at e; simp at e; omega
      · rw [e.2]; rfl
      · exact absurd (by rw [k4, hs]; simp) e.2
    · intro i h
      simp only [] at h
      split at h <;> cases h
    · intro h
      refine ⟨hI1, by rw [hact]; simp, by simp [pendingIds, hact], by simp [hact], ?_, fun f r h => by cases h⟩
      intro hcpos hb
      rcases hstop with e | e | e
      · left; exact e
      · right; exact e.1
      · exfalso
        -- budget exhausted with items left: impossible when budget ≥ cap and the window is empty
        have hlen : s1.active.length = s.active.length + (s.src.take k).length := by rw [k5]; simp
        rw [hact] at hlen
        simp only [List.length_nil, List.length_take] at hlen
        have hk : k ≤ s.src.length ∨ s.src.length < k := by omega
        have hsrc : s1.src ≠ [] := e.2
        rw [k4] at hsrc
        have : k < s.src.length := by
          rcases Nat.lt_or_ge k s.src.length with h1 | h1
          · exact h1
          · exact absurd (List.drop_of_length_le h1) hsrc
        have hc := hI.len
        omega
    · intro h
      simp only [] at h
      have hd : s1.srcDone = true := by
        cases hsd : s1.srcDone with
        | true => rfl
        | false => rw [hsd] at h; simp at h
      have hsrc := hI1.done hd
      refine ⟨hI1, ?_, hact, hsrc⟩
      have := hI1.order
      rw [hact, hsrc] at this
      simpa [ids] using this
  | cons front rest =>
    rw [hact] at hstep
    simp only [] at hstep
    obtain ⟨c1, c2, c3, c4, c5, c6, c7⟩ := checkReady_spec env.ready s1.started front
    generalize hcr : checkReady env.ready s1.started front = cr at hstep c1 c2 c3 c4 c5 c6 c7
    obtain ⟨front', started', p⟩ := cr
    simp only [] at hstep c1 c2 c3 c4 c5 c6 c7
    have horder := hI1.order
    rw [hact] at horder
    cases hf' : front' with
    | resolved i =>
      rw [hf'] at hstep
      simp only [Prod.mk.injEq] at hstep
      obtain ⟨rfl, rfl⟩ := hstep
      have hid : front.id = i := by rw [← c1, hf']; rfl
      refine ⟨hcap, fun x hx => c3 x (by rw [hst]; exact hx), ?_, fun h => (by cases h), fun h => (by cases h), ?_⟩
      rotate_right
      · intro ha hs _
        rw [k5, ha, hs] at hact; simp at hact
      intro j hj
      simp only [Out.item.injEq] at hj
      subst hj
      have hord : em ++ i :: (ids rest ++ s1.src) = List.range n := by
        simp only [ids, List.map_cons, hid, List.append_assoc, List.cons_append] at horder
        simpa [ids] using horder
      refine ⟨range_split hord, ?_, hI1.done, ?_, ?_⟩
      · show em ++ [i] ++ ids rest ++ s1.src = _
        simpa using hord
      · show rest.length ≤ s1.cap
        have := hI1.len; rw [hact] at this; simp at this; omega
      · intro j hj
        show j ∈ started'
        exact c3 j (hI1.resolved j (by rw [hact]; exact List.mem_cons_of_mem _ hj))
    | pending i =>
      rw [hf'] at hstep
      obtain ⟨r1, r2, r3, r4, r5, r6⟩ := checkRest_spec env.ready rest started'
      generalize hcrest : checkRest env.ready rest started' = crr at hstep r1 r2 r3 r4 r5 r6
      obtain ⟨rest', started'', ps⟩ := crr
      simp only [Prod.mk.injEq] at hstep r1 r2 r3 r4 r5 r6
      obtain ⟨rfl, rfl⟩ := hstep
      have hid : front.id = i := by rw [← c1, hf']; rfl
      have hfp : front.isPending = true := by
        cases hfp : front.isPending with
        | true => rfl
        | false =>
          have := (c5 hfp).1
          rw [hf'] at this
          rw [← this] at hfp; simp [Slot.isPending] at hfp
      refine ⟨hcap, fun x hx => r3 x (c3 x (by rw [hst]; exact hx)), fun j h => (by cases h), ?_, fun h => (by cases h), ?_⟩
      rotate_right
      · intro ha hs _
        rw [k5, ha, hs] at hact; simp at hact
      intro _
      refine ⟨⟨?_, hI1.done, ?_, ?_⟩, ?_, ?_, ?_, ?_, ?_⟩
      rotate_right
      · intro f0 r0 h0
        simp only [List.cons.injEq] at h0
        obtain ⟨rfl, _⟩ := h0
        refine ⟨started', fun x hx => c3 x (by rw [hst]; exact hx), c4 hfp, ?_⟩
        rw [hid]; exact c7 i hf'
      · show em ++ ids (Slot.pending i :: rest') ++ s1.src = _
        simp only [ids, List.map_cons] at horder r1 ⊢
        rw [r1]; rw [hid] at horder; exact horder
      · show (Slot.pending i :: rest').length ≤ s1.cap
        have := hI1.len; rw [hact] at this; simp at this ⊢; omega
      · intro j hj
        show j ∈ started''
        rcases List.mem_cons.1 hj with h | h
        · cases h
        · rcases r6 j h with h1 | h1
          · exact r3 j (c3 j (hI1.resolved j (by rw [hact]; exact List.mem_cons_of_mem _ h1)))
          · exact h1
      · intro sl hsl
        show sl.id ∈ started''
        rcases List.mem_cons.1 hsl with h | h
        · subst h
          show i ∈ started''
          rw [← hid]; exact r3 _ (c4 hfp)
        · -- `sl ∈ rest'`: its id is the id of a slot of `rest`, pending (polled now) or resolved (polled before)
          have hidmem : sl.id ∈ ids rest := by rw [← r1]; exact List.mem_map_of_mem h
          obtain ⟨sl0, hsl0, hsl0id⟩ := List.mem_map.1 hidmem
          cases hp0 : sl0.isPending with
          | true =>
            apply r4
            rw [← hsl0id]
            exact List.mem_map_of_mem (List.mem_filter.2 ⟨hsl0, hp0⟩)
          | false =>
            cases sl0 with
            | pending j => simp [Slot.isPending] at hp0
            | resolved j =>
              have := hI1.resolved j (by rw [hact]; exact List.mem_cons_of_mem _ hsl0)
              rw [← hsl0id]; exact r3 _ (c3 _ this)
      · show (if p = true then [front.id] else []) ++ ps = pendingIds (front :: rest)
        rw [c2, hfp, r2]
        simp [pendingIds, hfp, List.filter_cons]
      · show (Slot.pending i :: rest').length = (front :: rest).length
        simp [r5]
      · intro _ hb
        show (Slot.pending i :: rest').length = s.cap ∨ s1.src = []
        have hlen1 : (Slot.pending i :: rest').length = s1.active.length := by rw [hact]; simp [r5]
        rw [hlen1]
        rcases hstop with e | e | e
        · exact Or.inl e
        · exact Or.inr e.1
        · -- budget exhausted: then `cap` items were drawn, the window is full
          left
          have hlen : s1.active.length = s.active.length + (s.src.take k).length := by rw [k5]; simp
          have hsrc : s1.src ≠ [] := e.2
          rw [k4] at hsrc
          have hk : k < s.src.length := by
            rcases Nat.lt_or_ge k s.src.length with h1 | h1
            · exact h1
            · exact absurd (List.drop_of_length_le h1) hsrc
          rw [List.length_take] at hlen
          have := hI1.len
          rw [hcap] at this
          omega

def items : List Obs → List Nat
  | [] => []
  | o :: os => (match o.out with | .item i => [i] | _ => []) ++ items os

theorem run_spec {n : Nat} : ∀ (envs : List Env) (s : State) (em : List Nat), Inv n s em →
    Inv n (run s envs).1 (em ++ items (run s envs).2) ∧ (run s envs).1.cap = s.cap ∧
    (∀ pre o post, (run s envs).2 = pre ++ o :: post → o.out = .finished → em ++ items pre = List.range n) := by
  intro envs
  induction envs with
  | nil =>
    intro s em hI
    refine ⟨by simpa [run, items] using hI, rfl, ?_⟩
    intro pre o post h
    simp [run] at h
  | cons e es ih =>
    intro s em hI
    simp only [run]
    obtain ⟨hc, _, hitem, hpend, hfin, _⟩ := step_spec hI e (step s e).1 (step s e).2 rfl
    generalize hso : step s e = so at hc hitem hpend hfin
    obtain ⟨s1, o⟩ := so
    simp only [] at hc hitem hpend hfin ⊢
    have hI1 : Inv n s1 (em ++ (match o.out with | .item i => [i] | _ => [])) := by
      cases ho : o.out with
      | item i => exact (hitem i ho).2
      | pending => simpa using (hpend ho).1
      | finished => simpa using (hfin ho).1
    obtain ⟨i1, i2, i3⟩ := ih s1 _ hI1
    refine ⟨?_, by rw [i2, hc], ?_⟩
    · simp only [items, List.append_assoc] at i1 ⊢; exact i1
    · intro pre o' post hsplit hfin'
      cases pre with
      | nil =>
        simp only [List.nil_append, List.cons.injEq] at hsplit
        obtain ⟨rfl, _⟩ := hsplit
        simpa [items] using (hfin hfin').2.1
      | cons p pre' =>
        simp only [List.cons_append, List.cons.injEq] at hsplit
        obtain ⟨rfl, h2⟩ := hsplit
        have := i3 pre' o' post h2 hfin'
        simpa [items, List.append_assoc] using this

theorem prefix_of_range {n : Nat} {l rest : List Nat} (h : l ++ rest = List.range n) :
    l = List.range l.length ∧ l.length ≤ n := by
  have hlen : l.length ≤ n := by
    have := congrArg List.length h; simp at this; omega
  refine ⟨?_, hlen⟩
  have : l = (l ++ rest).take l.length := by simp
  rw [this, h, List.take_range, Nat.min_eq_left (by simpa using hlen)]
  simp

end IpaVerif.SeqJoin
