import Mathlib.Algebra.BigOperators.Group.Finset.Basic
import IpaVerif.Proofs.C01Agg
import IpaVerif.Proofs.C01Group
/-! Helper lemmas for C01, part B/C: bucket totals of the aggregated rows as sums over keys. -/
namespace IpaVerif.C01
open IpaVerif.Hybrid

theorem bucketSum_cons (row : Row) (rows : List Row) (b : Nat) :
    bucketSum (row :: rows) b = (if row.1 = b then row.2 else 0) + bucketSum rows b := by
  simp only [bucketSum, bucketValues, List.filter_cons]
  by_cases h : row.1 = b <;> simp [h]

theorem bucketSum_pairs (w : Widths) (b : Nat) : ∀ m : EMap,
    bucketSum ((m.filterMap (fun ke => ke.2.intoPair)).map (addPair w)) b
      = (m.map (fun ke => entryVal w b (some ke.2))).sum
  | [] => by simp [bucketSum, bucketValues]
  | (k, e) :: rest => by
      have ih := bucketSum_pairs w b rest
      cases e with
      | single r =>
        have : ((k, Entry.single r) :: rest).filterMap (fun ke => ke.2.intoPair) = rest.filterMap (fun ke => ke.2.intoPair) := by
          simp [List.filterMap_cons, Entry.intoPair]
        rw [this, ih]; simp [entryVal]
      | moreThanTwo =>
        have : ((k, Entry.moreThanTwo) :: rest).filterMap (fun ke => ke.2.intoPair) = rest.filterMap (fun ke => ke.2.intoPair) := by
          simp [List.filterMap_cons, Entry.intoPair]
        rw [this, ih]; simp [entryVal]
      | pair r1 r2 =>
        have : ((k, Entry.pair r1 r2) :: rest).filterMap (fun ke => ke.2.intoPair)
            = (r1, r2) :: rest.filterMap (fun ke => ke.2.intoPair) := by
          simp [List.filterMap_cons, Entry.intoPair]
        rw [this, List.map_cons, bucketSum_cons, ih, List.map_cons, List.sum_cons]
        rfl

theorem lookupE_head (k : Nat) (e : Entry) (rest : EMap) : lookupE k ((k, e) :: rest) = some e := by
  simp [lookupE]

theorem sum_entries_eq_sum_keys (w : Widths) (b : Nat) : ∀ m : EMap, SortedKeys m →
    (m.map (fun ke => entryVal w b (some ke.2))).sum
      = ((keysOf m).map (fun k => entryVal w b (lookupE k m))).sum
  | [], _ => by simp [keysOf]
  | (k, e) :: rest, h => by
      simp only [SortedKeys, keysOf, List.map_cons, List.pairwise_cons] at h
      obtain ⟨h1, h2⟩ := h
      have ih := sum_entries_eq_sum_keys w b rest h2
      simp only [keysOf, List.map_cons, List.sum_cons, lookupE_head, List.map_map] at ih ⊢
      rw [ih]
      congr 1
      apply congrArg
      apply List.map_congr_left
      intro ke hke
      have hlt := h1 ke.1 (List.mem_map_of_mem (f := Prod.fst) hke)
      have : (k == ke.1) = false := by simpa using (by omega : k ≠ ke.1)
      simp [lookupE, this]

theorem nodup_of_sorted (m : EMap) (h : SortedKeys m) : (keysOf m).Nodup :=
  List.Pairwise.imp (fun hlt => Nat.ne_of_lt hlt) h

/-- **Grouping lemma.** The bucket total of the rows produced by `aggregate_reports` is the sum, over the
distinct pseudonyms, of what the reports carrying that pseudonym contribute. -/
theorem groupSum (w : Widths) (b : Nat) (reports : List (Nat × Rec)) :
    bucketSum (aggregateReports w reports) b
      = ∑ t ∈ (reports.map Prod.fst).toFinset,
          listVal w b ((reports.filter (fun kr => kr.1 == t)).map Prod.snd) := by
  have hs : SortedKeys (insertAll [] reports) := sorted_insertAll reports [] (by simp [SortedKeys, keysOf])
  have hnd := nodup_of_sorted _ hs
  have hset : (keysOf (insertAll [] reports)).toFinset = (reports.map Prod.fst).toFinset := by
    ext x
    simp only [List.mem_toFinset]
    rw [keys_insertAll]
    simp [keysOf]
  show bucketSum (((insertAll [] reports).filterMap (fun ke => ke.2.intoPair)).map (addPair w)) b = _
  rw [bucketSum_pairs, sum_entries_eq_sum_keys w b _ hs, ← hset, List.sum_toFinset _ hnd]
  congr 1
  apply List.map_congr_left
  intro t _
  rw [lookup_insertAll reports [] (by simp [SortedKeys, keysOf]) t]
  have : lookupE t ([] : EMap) = none := rfl
  rw [this, entryVal_entryFold]

end IpaVerif.C01
