import IpaVerif.Model.UnorderedReceiver
/-! Helper lemmas for C14(c): `Spare`/`pull`, `wake_next`, the invariant of `UnorderedReceiver`
against the bytes fed so far, and the per-poll lemma.  Core Lean only. -/
namespace IpaVerif.UnorderedReceiver

/-- Bytes received from the stream and not yet handed out. -/
def State.remaining (s : State) : List Nat := s.spareBuf.drop s.spareOff ++ s.queue.flatten

theorem pull_none (sz : Nat) (q : List (List Nat)) : ∀ (buf : List Nat) (off : Nat)
    {buf' : List Nat} {off' : Nat} {q' : List (List Nat)},
    off ≤ buf.length → buf.length - off < sz → pull sz buf off q = (buf', off', q', none) →
    buf'.drop off' ++ q'.flatten = buf.drop off ++ q.flatten ∧ q' = [] ∧
    (buf.drop off ++ q.flatten).length < sz ∧ off' ≤ buf'.length := by
  induction q with
  | nil =>
    intro buf off buf' off' q' h1 h2 h
    simp only [pull] at h
    cases h
    simp only [List.flatten_nil, List.append_nil, List.length_drop]
    exact ⟨trivial, trivial, h2, h1⟩
  | cons b rest ih =>
    intro buf off buf' off' q' h1 h2 h
    simp only [pull] at h
    split at h
    · rename_i hlt
      have := ih (buf.drop off ++ b) 0 (Nat.zero_le _)
        (by simp only [List.length_append, List.length_drop]; omega) h
      simpa [List.append_assoc] using this
    · cases h

theorem pull_some (sz : Nat) (q : List (List Nat)) : ∀ (buf : List Nat) (off : Nat)
    {buf' : List Nat} {off' : Nat} {q' : List (List Nat)} {m : List Nat},
    off ≤ buf.length → buf.length - off < sz → pull sz buf off q = (buf', off', q', some m) →
    m.length = sz ∧ buf.drop off ++ q.flatten = m ++ (buf'.drop off' ++ q'.flatten) ∧
    off' ≤ buf'.length := by
  induction q with
  | nil => intro buf off buf' off' q' m h1 h2 h; simp only [pull] at h; cases h
  | cons b rest ih =>
    intro buf off buf' off' q' m h1 h2 h
    simp only [pull] at h
    split at h
    · rename_i hlt
      have := ih (buf.drop off ++ b) 0 (Nat.zero_le _)
        (by simp only [List.length_append, List.length_drop]; omega) h
      simpa [List.append_assoc] using this
    · rename_i hge
      cases h
      simp only [List.drop_zero, List.flatten_cons, List.length_append, List.length_drop,
        List.length_take]
      refine ⟨by omega, ?_, Nat.zero_le _⟩
      rw [List.append_assoc, ← List.append_assoc (b.take _), List.take_append_drop]

theorem floor_step {n h : Nat} (hne : (n + 1) % h ≠ 0) : (n + 1) - (n + 1) % h = n - n % h := by
  have h1 : h ≠ 1 := by rintro rfl; exact hne (Nat.mod_one _)
  have h0 : h ≠ 0 ∨ h = 0 := by omega
  rcases h0 with h0 | rfl
  · have hr : n % h < h := Nat.mod_lt _ (by omega)
    have e : (n + 1) % h = (n % h + 1) % h := by
      rw [Nat.add_mod, Nat.mod_eq_of_lt (show 1 < h by omega)]
    by_cases hlt : n % h + 1 < h
    · rw [e, Nat.mod_eq_of_lt hlt]
      have := Nat.mod_le n h
      omega
    · have : n % h + 1 = h := by omega
      rw [e, this, Nat.mod_self] at hne
      exact absurd rfl hne
  · simp

/-- Invariant of the receiver against the bytes `fed` so far. -/
structure RInv (s : State) (fed : List Nat) : Prop where
  hcap : 2 ≤ s.cap
  off_le : s.spareOff ≤ s.spareBuf.length
  rem : s.remaining = fed.drop (s.next * s.sz)
  consumed : s.next * s.sz ≤ fed.length
  ring : ∀ k w j, s.ring k = some (w, j) → j % s.cap = k ∧ s.next < j ∧ j ≤ s.next + s.cap
  ov : ∀ w j, (w, j) ∈ s.overflow → j > s.next - s.next % (s.cap / 2) + s.cap

/-- `wake_next`: the waiter registered for the new `next` (if any) is woken; the parking
invariants are re-established for `next + 1`. -/
theorem wakeNext_spec (s : State) (hcap : 2 ≤ s.cap)
    (hring : ∀ k w j, s.ring k = some (w, j) → j % s.cap = k ∧ s.next < j ∧ j ≤ s.next + s.cap)
    (hov : ∀ w j, (w, j) ∈ s.overflow → j > s.next - s.next % (s.cap / 2) + s.cap) :
    let r := s.wakeNext
    r.1.next = s.next + 1 ∧ r.1.sz = s.sz ∧ r.1.cap = s.cap ∧ r.1.spareBuf = s.spareBuf ∧
    r.1.spareOff = s.spareOff ∧ r.1.queue = s.queue ∧ r.1.ended = s.ended ∧
    (∀ k w j, r.1.ring k = some (w, j) → j % s.cap = k ∧ s.next + 1 < j ∧ j ≤ s.next + 1 + s.cap) ∧
    (∀ w j, (w, j) ∈ r.1.overflow → j > (s.next + 1) - (s.next + 1) % (s.cap / 2) + s.cap) ∧
    (∀ w0 j, s.ring ((s.next + 1) % s.cap) = some (w0, j) → j = s.next + 1 ∧ w0 ∈ r.2) ∧
    (∀ w j, (w, j) ∈ s.overflow → (s.next + 1) % (s.cap / 2) = 0 → w ∈ r.2) := by
  have hringN : ∀ k w j, (if k = (s.next + 1) % s.cap then none else s.ring k) = some (w, j) →
      j % s.cap = k ∧ s.next + 1 < j ∧ j ≤ s.next + 1 + s.cap := by
    intro k w j hk
    split at hk
    · cases hk
    · rename_i hne
      obtain ⟨a, b, c⟩ := hring k w j hk
      refine ⟨a, ?_, by omega⟩
      have : j ≠ s.next + 1 := by rintro rfl; exact hne a.symm
      omega
  have hwake : ∀ w0 j, s.ring ((s.next + 1) % s.cap) = some (w0, j) → j = s.next + 1 := by
    intro w0 j hk
    obtain ⟨a, b, c⟩ := hring _ w0 j hk
    -- j ≡ next+1 (mod cap), next < j ≤ next + cap  ⇒  j = next + 1
    have hc : 0 < s.cap := by omega
    by_cases hj : j = s.next + 1
    · exact hj
    · exfalso
      have hlt : j - (s.next + 1) < s.cap := by omega
      have hpos : 0 < j - (s.next + 1) := by omega
      have : (j - (s.next + 1)) % s.cap = 0 := by
        have hsub : j = (s.next + 1) + (j - (s.next + 1)) := by omega
        have := Nat.sub_mod_eq_zero_of_mod_eq a
        exact this
      rw [Nat.mod_eq_of_lt hlt] at this
      omega
  show (_ ∧ _ ∧ _ ∧ _ ∧ _ ∧ _ ∧ _ ∧ _ ∧ _ ∧ _ ∧ _)
  unfold State.wakeNext Generated.Buffers.receiverOverflowDiv
  simp only []
  split
  · rename_i hz
    refine ⟨rfl, rfl, rfl, rfl, rfl, rfl, rfl, hringN, ?_, ?_, ?_⟩
    · intro w j hm; cases hm
    · intro w0 j hk
      refine ⟨hwake w0 j hk, ?_⟩
      rw [hk]; simp
    · intro w j hm _
      simp only [List.mem_append, List.mem_map]
      right; exact ⟨(w, j), hm, rfl⟩
  · rename_i hz
    refine ⟨rfl, rfl, rfl, rfl, rfl, rfl, rfl, hringN, ?_, ?_, ?_⟩
    · intro w j hm
      rw [floor_step hz]
      exact hov w j hm
    · intro w0 j hk
      refine ⟨hwake w0 j hk, ?_⟩
      rw [hk]; simp
    · intro w j _ h0; exact absurd h0 hz

def fedAfter (fed : List Nat) : Op → List Nat
  | .feed c => fed ++ c
  | _ => fed

/-- What one poll of `recv(i)` must satisfy, in terms of the bytes fed so far. -/
structure RecvOk (s s' : State) (fed : List Nat) (i : Nat) (o : Out) : Prop where
  ok_slice : ∀ m, o.res = .ok m → i = s.next ∧ m = (fed.drop (i * s.sz)).take s.sz ∧
    (i + 1) * s.sz ≤ fed.length ∧ s'.next = s.next + 1
  eos_short : ∀ n, o.res = .eos n → n = i ∧ i = s.next ∧ s.ended = true ∧ fed.length < (i + 1) * s.sz
  pending : o.res = .pending → i > s.next ∨ (i = s.next ∧ s.ended = false ∧ fed.length < (i + 1) * s.sz)
  wake_ring : ∀ m, o.res = .ok m → ∀ w0 j, s.ring ((s.next + 1) % s.cap) = some (w0, j) →
    j = s.next + 1 ∧ w0 ∈ o.woken
  wake_overflow : ∀ m, o.res = .ok m → (s.next + 1) % (s.cap / 2) = 0 →
    ∀ w j, (w, j) ∈ s.overflow → w ∈ o.woken
  not_none : o.res ≠ .none

theorem drop_take_eq {l m r : List Nat} {k n : Nat} (h : l.drop k = m ++ r) (hm : m.length = n) :
    (l.drop k).take n = m ∧ l.drop (k + n) = r := by
  constructor
  · rw [h, ← hm, List.take_left']; rfl
  · rw [← List.drop_drop, h, ← hm, List.drop_left']; rfl

theorem recv_step {s s' : State} {fed : List Nat} {op : Op} {o : Out} (h : RInv s fed)
    (hs : step s op = .ok (s', o)) :
    RInv s' (fedAfter fed op) ∧ s'.sz = s.sz ∧ s'.cap = s.cap ∧
    (∀ t i, op = .recv t i → RecvOk s s' fed i o) := by
  cases op with
  | feed c =>
    simp only [step] at hs; cases hs
    refine ⟨⟨h.hcap, h.off_le, ?_, ?_, h.ring, h.ov⟩, rfl, rfl, by intro t i hh; cases hh⟩
    · have := h.rem
      simp only [State.remaining, fedAfter, List.flatten_append, List.flatten_cons, List.flatten_nil,
        List.append_nil] at this ⊢
      rw [← List.append_assoc, this, List.drop_append_of_le_length h.consumed]
    · simp only [fedAfter, List.length_append]; have := h.consumed; omega
  | finish =>
    simp only [step] at hs; cases hs
    exact ⟨⟨h.hcap, h.off_le, h.rem, h.consumed, h.ring, h.ov⟩, rfl, rfl, by intro t i hh; cases hh⟩
  | recv t i =>
    have hrem := h.rem
    simp only [State.remaining] at hrem
    simp only [step] at hs
    split at hs
    · rename_i hi
      split at hs
      · -- Spare::read succeeds
        rename_i hread
        generalize hs1 : ({ s with spareOff := s.spareOff + s.sz } : State) = s1 at hs
        have hw := wakeNext_spec s1 (by rw [← hs1]; exact h.hcap) (by rw [← hs1]; exact h.ring)
          (by rw [← hs1]; exact h.ov)
        obtain ⟨w1, w2, w3, w4, w5, w6, w7, w8, w9, w10, w11⟩ := hw
        cases hs
        have hsplit : s.spareBuf.drop s.spareOff =
            (s.spareBuf.drop s.spareOff).take s.sz ++ s.spareBuf.drop (s.spareOff + s.sz) := by
          rw [← List.drop_drop, List.take_append_drop]
        have hmlen : ((s.spareBuf.drop s.spareOff).take s.sz).length = s.sz := by
          simp only [List.length_take, List.length_drop]; omega
        have hfd : fed.drop (s.next * s.sz) = (s.spareBuf.drop s.spareOff).take s.sz ++
            (s.spareBuf.drop (s.spareOff + s.sz) ++ s.queue.flatten) := by
          rw [← hrem, ← List.append_assoc, ← hsplit]
        obtain ⟨e1, e2⟩ := drop_take_eq hfd hmlen
        have hlen : (s.next + 1) * s.sz ≤ fed.length := by
          have := congrArg List.length hfd
          have hc := h.consumed
          simp only [List.length_drop, List.length_append, hmlen] at this
          rw [Nat.succ_mul]; omega
        subst hs1
        simp only [] at w1 w2 w3 w4 w5 w6 w7 w8 w9 w10 w11
        refine ⟨⟨by rw [w3]; exact h.hcap, by rw [w4, w5]; omega, ?_, ?_, ?_, ?_⟩, w2, w3, ?_⟩
        · simp only [State.remaining, fedAfter]
          rw [w4, w5, w6, w1, w2, Nat.succ_mul, e2]
        · simp only [fedAfter]; rw [w1, w2]; exact hlen
        · rw [w1, w3]; exact w8
        · rw [w1, w3]; exact w9
        · intro t' i' hh
          cases hh
          refine ⟨?_, ?_, ?_, ?_, ?_, by simp⟩
          · intro m hm
            simp only [Res.ok.injEq] at hm
            subst hm
            exact ⟨hi, by rw [hi, e1], by rw [hi]; exact hlen, w1⟩
          · intro n hn; cases hn
          · intro hp; cases hp
          · intro m _ w0 j hk; exact w10 w0 j hk
          · intro m _ h0 w j hm; exact w11 w j hm h0
      · rename_i hread
        have hpre : s.spareBuf.length - s.spareOff < s.sz := by have := h.off_le; omega
        cases hp : pull s.sz s.spareBuf s.spareOff s.queue with
        | mk buf x =>
          obtain ⟨off, q, r⟩ := x
          rw [hp] at hs
          cases r with
          | some m =>
            simp only [] at hs
            obtain ⟨p1, p2, p3⟩ := pull_some s.sz s.queue s.spareBuf s.spareOff h.off_le hpre hp
            generalize hs1 : ({ s with spareBuf := buf, spareOff := off, queue := q } : State) = s1 at hs
            have hw := wakeNext_spec s1 (by rw [← hs1]; exact h.hcap) (by rw [← hs1]; exact h.ring)
              (by rw [← hs1]; exact h.ov)
            obtain ⟨w1, w2, w3, w4, w5, w6, w7, w8, w9, w10, w11⟩ := hw
            cases hs
            have hfd : fed.drop (s.next * s.sz) = m ++ (buf.drop off ++ q.flatten) := by
              rw [← hrem, p2]
            obtain ⟨e1, e2⟩ := drop_take_eq hfd p1
            have hlen : (s.next + 1) * s.sz ≤ fed.length := by
              have := congrArg List.length hfd
              have hc := h.consumed
              simp only [List.length_drop, List.length_append, p1] at this
              rw [Nat.succ_mul]; omega
            subst hs1
            simp only [] at w1 w2 w3 w4 w5 w6 w7 w8 w9 w10 w11
            refine ⟨⟨by rw [w3]; exact h.hcap, by rw [w4, w5]; exact p3, ?_, ?_, ?_, ?_⟩, w2, w3, ?_⟩
            · simp only [State.remaining, fedAfter]
              rw [w4, w5, w6, w1, w2, Nat.succ_mul, e2]
            · simp only [fedAfter]; rw [w1, w2]; exact hlen
            · rw [w1, w3]; exact w8
            · rw [w1, w3]; exact w9
            · intro t' i' hh
              cases hh
              refine ⟨?_, ?_, ?_, ?_, ?_, by simp⟩
              · intro m' hm
                simp only [Res.ok.injEq] at hm
                subst hm
                exact ⟨hi, by rw [hi, e1], by rw [hi]; exact hlen, w1⟩
              · intro n hn; cases hn
              · intro hp'; cases hp'
              · intro m' _ w0 j hk; exact w10 w0 j hk
              · intro m' _ h0 w j hm; exact w11 w j hm h0
          | none =>
            simp only [] at hs
            obtain ⟨p1, p2, p3, p4⟩ := pull_none s.sz s.queue s.spareBuf s.spareOff h.off_le hpre hp
            have hshort : fed.length < (s.next + 1) * s.sz := by
              rw [hrem] at p3
              simp only [List.length_drop] at p3
              rw [Nat.succ_mul]; omega
            split at hs
            · rename_i hend
              cases hs
              refine ⟨⟨h.hcap, p4, ?_, h.consumed, h.ring, h.ov⟩, rfl, rfl, ?_⟩
              · simp only [State.remaining, fedAfter]; rw [p1]; exact hrem
              · intro t' i' hh
                cases hh
                refine ⟨?_, ?_, ?_, ?_, ?_, by simp⟩
                · intro m hm; cases hm
                · intro n hn
                  simp only [Res.eos.injEq] at hn
                  exact ⟨by omega, hi, hend, by rw [hi]; exact hshort⟩
                · intro hp'; cases hp'
                · intro m hm; cases hm
                · intro m hm; cases hm
            · rename_i hend
              cases hs
              refine ⟨⟨h.hcap, p4, ?_, h.consumed, h.ring, h.ov⟩, rfl, rfl, ?_⟩
              · simp only [State.remaining, fedAfter]; rw [p1]; exact hrem
              · intro t' i' hh
                cases hh
                refine ⟨?_, ?_, ?_, ?_, ?_, by simp⟩
                · intro m hm; cases hm
                · intro n hn; cases hn
                · intro _; right; exact ⟨hi, by simpa using hend, by rw [hi]; exact hshort⟩
                · intro m hm; cases hm
                · intro m hm; cases hm
    · rename_i hi
      split at hs
      · rename_i hgt
        cases hs
        refine ⟨⟨?_, ?_, ?_, ?_, ?_, ?_⟩, ?_, ?_, ?_⟩
        all_goals (unfold State.addWaker; split)
        all_goals first
          | exact h.hcap | exact h.off_le | exact h.consumed | rfl
          | (simp only [State.remaining, fedAfter]; exact hrem)
          | skip
        · exact h.ring
        · intro k w j hk
          simp only [] at hk
          split at hk
          · rename_i hkk
            simp only [Option.some.injEq, Prod.mk.injEq] at hk
            obtain ⟨_, rfl⟩ := hk
            refine ⟨hkk.symm, ?_, ?_⟩ <;> dsimp only <;> omega
          · exact h.ring k w j hk
        · intro w j hm
          simp only [List.mem_append, List.mem_singleton, Prod.mk.injEq] at hm
          rcases hm with hm | ⟨_, rfl⟩
          · exact h.ov w j hm
          · dsimp only; have := Nat.sub_le s.next (s.next % (s.cap / 2)); omega
        · exact h.ov
        · intro t' i' hh; cases hh
          exact ⟨(by intro m hm; cases hm), (by intro n hn; cases hn), fun _ => Or.inl hgt,
            (by intro m hm; cases hm), (by intro m hm; cases hm), (by simp)⟩
        · intro t' i' hh; cases hh
          exact ⟨(by intro m hm; cases hm), (by intro n hn; cases hn), fun _ => Or.inl hgt,
            (by intro m hm; cases hm), (by intro m hm; cases hm), (by simp)⟩
      · cases hs


theorem wakeNext_fields (s : State) : s.wakeNext.1.next = s.next + 1 ∧ s.wakeNext.1.ended = s.ended := by
  unfold State.wakeNext
  simp only []
  split <;> exact ⟨rfl, rfl⟩

theorem step_fields {s s' : State} {op : Op} {o : Out} (hs : step s op = .ok (s', o)) :
    s'.ended = (match op with | .finish => true | _ => s.ended) ∧
    s'.next = (match o.res with | .ok _ => s.next + 1 | _ => s.next) := by
  cases op with
  | feed c => simp only [step] at hs; cases hs; exact ⟨rfl, rfl⟩
  | finish => simp only [step] at hs; cases hs; exact ⟨rfl, rfl⟩
  | recv t i =>
    simp only [step] at hs
    split at hs
    · split at hs
      · cases hs
        exact ⟨(wakeNext_fields _).2, (wakeNext_fields _).1⟩
      · split at hs
        · cases hs
          exact ⟨(wakeNext_fields _).2, (wakeNext_fields _).1⟩
        · split at hs <;> (cases hs; exact ⟨rfl, rfl⟩)
    · split at hs
      · cases hs
        unfold State.addWaker
        split <;> exact ⟨rfl, rfl⟩
      · cases hs

end IpaVerif.UnorderedReceiver
