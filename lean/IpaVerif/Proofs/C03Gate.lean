import IpaVerif.Model.Dzkp
/-!
Single-gate analysis for C03 `gate_views`: for **every** gate state (all shares of x, y and the PRSS masks),
each of the 3 deviating helpers, 8 single-bit deviations and 3 observing helpers. The 72 (helper, deviation,
observer) cases are enumerated; in each case the definitions unfold to a Boolean identity in the nine share
bits, closed by `simp` or by `decide` over the bits that remain. Core Lean only.
-/
namespace IpaVerif.C03
open IpaVerif.Dzkp

/-- honest execution: every prover's `(u, v)` indices match what both verifiers recompute, the verifiers'
triple is consistent, nobody rejects. -/
theorem honest_sym (g : Gate) (i : Hid) :
    proverMatches (views g none) i = true ∧ verifierTripleConsistent (views g none) i = true ∧
      rejects (views g none) i = false := by
  cases i <;>
    simp [rejects, proverMatches, verifierTripleConsistent, views, honestView, proverU, proverV, leftVerifierU,
      rightVerifierV, eq3, Hid.next, Hid.prev, zOf] <;>
    (generalize g.x .h0 = x0; generalize g.x .h1 = x1; generalize g.x .h2 = x2
     generalize g.y .h0 = y0; generalize g.y .h1 = y1; generalize g.y .h2 = y2
     generalize g.p .h0 = p0; generalize g.p .h1 = p1; generalize g.p .h2 = p2
     revert x0 x1 x2 y0 y1 y2 p0 p1 p2; decide)

/-- one deviating helper `j`, one flipped bit `f`: helper `h` rejects iff it is in the predicted set. -/
theorem flip_sym (g : Gate) (j : Hid) (f : Flip) (h : Hid) :
    rejects (views g (some (j, f))) h = Hid.mem h (predictedRejecters j f) := by
  cases j <;> cases f <;> cases h <;>
    simp [rejects, proverMatches, views, honestView, flipView, proverU, proverV, leftVerifierU, rightVerifierV,
      eq3, Hid.next, Hid.prev, Hid.same, Hid.mem, predictedRejecters, zOf] <;>
    (generalize g.x .h0 = x0; generalize g.x .h1 = x1; generalize g.x .h2 = x2
     generalize g.y .h0 = y0; generalize g.y .h1 = y1; generalize g.y .h2 = y2
     generalize g.p .h0 = p0; generalize g.p .h1 = p1; generalize g.p .h2 = p2
     revert x0 x1 x2 y0 y1 y2 p0 p1 p2; decide)

theorem hid_mem_iff (h : Hid) (l : List Hid) : Hid.mem h l = true ↔ h ∈ l := by
  induction l with
  | nil => simp [Hid.mem]
  | cons a r ih =>
    have : h.same a = true ↔ h = a := by cases h <;> cases a <;> simp [Hid.same]
    simp [Hid.mem, ih, this]

end IpaVerif.C03
