import IpaVerif.Model.Dzkp
/-!
Exhaustive single-gate analysis for C03 `gate_views`: 2^9 gate states × 3 deviating helpers × 8 single-bit
deviations × 3 observing helpers, by kernel evaluation (`decide +kernel`), one theorem per deviation kind
so that no single tactic call is long. Core Lean only.
-/
namespace IpaVerif.C03
open IpaVerif.Dzkp

def pick (a b c : Bool) (i : Hid) : Bool := match i with | .h0 => a | .h1 => b | .h2 => c
def mkGate (x0 x1 x2 y0 y1 y2 p0 p1 p2 : Bool) : Gate :=
  { x := pick x0 x1 x2, y := pick y0 y1 y2, p := pick p0 p1 p2 }

/-- every gate is `mkGate` of its nine bits. -/
theorem gate_eq_mkGate (g : Gate) :
    g = mkGate (g.x .h0) (g.x .h1) (g.x .h2) (g.y .h0) (g.y .h1) (g.y .h2) (g.p .h0) (g.p .h1) (g.p .h2) := by
  cases g with
  | mk x y p =>
    simp only [mkGate, Gate.mk.injEq]
    refine ⟨?_, ?_, ?_⟩ <;> (funext i; cases i <;> rfl)

def honestCheck (g : Gate) : Bool :=
  Hid.all.all fun i =>
    proverMatches (views g none) i && verifierTripleConsistent (views g none) i && !rejects (views g none) i

theorem honest_all : ∀ x0 x1 x2 y0 y1 y2 p0 p1 p2 : Bool,
    honestCheck (mkGate x0 x1 x2 y0 y1 y2 p0 p1 p2) = true := by decide +kernel

def flipCheck (f : Flip) (g : Gate) : Bool :=
  Hid.all.all fun j => Hid.all.all fun h =>
    !(rejects (views g (some (j, f))) h ^^ Hid.mem h (predictedRejecters j f))

theorem flip_xl : ∀ x0 x1 x2 y0 y1 y2 p0 p1 p2 : Bool, flipCheck .xl (mkGate x0 x1 x2 y0 y1 y2 p0 p1 p2) = true := by decide +kernel
theorem flip_xr : ∀ x0 x1 x2 y0 y1 y2 p0 p1 p2 : Bool, flipCheck .xr (mkGate x0 x1 x2 y0 y1 y2 p0 p1 p2) = true := by decide +kernel
theorem flip_yl : ∀ x0 x1 x2 y0 y1 y2 p0 p1 p2 : Bool, flipCheck .yl (mkGate x0 x1 x2 y0 y1 y2 p0 p1 p2) = true := by decide +kernel
theorem flip_yr : ∀ x0 x1 x2 y0 y1 y2 p0 p1 p2 : Bool, flipCheck .yr (mkGate x0 x1 x2 y0 y1 y2 p0 p1 p2) = true := by decide +kernel
theorem flip_pl : ∀ x0 x1 x2 y0 y1 y2 p0 p1 p2 : Bool, flipCheck .pl (mkGate x0 x1 x2 y0 y1 y2 p0 p1 p2) = true := by decide +kernel
theorem flip_pr : ∀ x0 x1 x2 y0 y1 y2 p0 p1 p2 : Bool, flipCheck .pr (mkGate x0 x1 x2 y0 y1 y2 p0 p1 p2) = true := by decide +kernel
theorem flip_zr : ∀ x0 x1 x2 y0 y1 y2 p0 p1 p2 : Bool, flipCheck .zr (mkGate x0 x1 x2 y0 y1 y2 p0 p1 p2) = true := by decide +kernel
theorem flip_sentZ : ∀ x0 x1 x2 y0 y1 y2 p0 p1 p2 : Bool, flipCheck .sentZ (mkGate x0 x1 x2 y0 y1 y2 p0 p1 p2) = true := by decide +kernel

theorem flip_all (f : Flip) (g : Gate) : flipCheck f g = true := by
  rw [gate_eq_mkGate g]
  cases f
  · exact flip_xl ..
  · exact flip_xr ..
  · exact flip_yl ..
  · exact flip_yr ..
  · exact flip_pl ..
  · exact flip_pr ..
  · exact flip_zr ..
  · exact flip_sentZ ..

theorem hid_all (P : Hid → Bool) (h : Hid.all.all P = true) (i : Hid) : P i = true := by
  simp [Hid.all] at h
  cases i <;> simp [h]

theorem hid_mem_iff (h : Hid) (l : List Hid) : Hid.mem h l = true ↔ h ∈ l := by
  induction l with
  | nil => simp [Hid.mem]
  | cons a r ih =>
    have : h.same a = true ↔ h = a := by cases h <;> cases a <;> simp [Hid.same]
    simp [Hid.mem, ih, this]

end IpaVerif.C03
